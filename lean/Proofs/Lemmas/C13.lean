/-
  C13 — lemmas: fuel-irrelevance of the comment scanner and its case equations through `strip`, first-occurrence lemmas
  for the delimiters, compositionality on `Closed` texts, preservation of newlines; alias chains and `resolveB`,
  `setB`/`addType` on fresh names, the built-in alias table.
-/
import Proofs.Spec.C13
namespace Cstruct.Parser
open Cstruct

macro "len" : tactic => `(tactic| (simp only [List.length_cons, List.length_append] at * <;> omega))

theorem splitAtChar_eq (q : Char) : ∀ (l body rest : List Char),
    splitAtChar q l = some (body, rest) → l = body ++ q :: rest := by
  intro l
  induction l with
  | nil => intro _ _ h; simp [splitAtChar] at h
  | cons c r ih =>
    intro body rest h
    simp only [splitAtChar] at h
    split at h
    · simp at h; obtain ⟨rfl, rfl⟩ := h; simp [*]
    · cases hr : splitAtChar q r with
      | none => simp [hr] at h
      | some p =>
        obtain ⟨a, b⟩ := p
        simp [hr] at h
        obtain ⟨rfl, rfl⟩ := h
        simp [ih a b hr]

theorem splitAtClose_eq : ∀ (l body rest : List Char),
    splitAtClose l = some (body, rest) → l = body ++ '*' :: '/' :: rest := by
  intro l
  fun_induction splitAtClose l with
  | case1 => intro _ _ h; simp at h
  | case2 r => intro _ _ h; simp at h; obtain ⟨rfl, rfl⟩ := h; simp
  | case3 c r hne ih =>
    intro body rest h
    cases hr : splitAtClose r with
    | none => simp [hr] at h
    | some p =>
      obtain ⟨a, b⟩ := p
      simp [hr] at h
      obtain ⟨rfl, rfl⟩ := h
      simp [ih a b hr]

theorem spanLine_eq : ∀ (l a b : List Char), spanLine l = (a, b) →
    l = a ++ b ∧ (∀ c ∈ a, isEol c = false) ∧ (∀ c r, b = c :: r → isEol c = true) := by
  intro l
  induction l with
  | nil => intro a b h; simp [spanLine] at h; obtain ⟨rfl, rfl⟩ := h; simp
  | cons c r ih =>
    intro a b h
    simp only [spanLine] at h
    split at h
    · simp at h; obtain ⟨rfl, rfl⟩ := h
      simp [isEol, *]
    · rename_i hc
      cases hr : spanLine r with
      | mk x y =>
        simp [hr] at h
        obtain ⟨rfl, rfl⟩ := h
        obtain ⟨h1, h2, h3⟩ := ih x y hr
        refine ⟨by simp [h1], ?_, h3⟩
        intro d hd
        simp at hd
        rcases hd with rfl | hd
        · simpa [isEol] using hc
        · exact h2 d hd

theorem stripAux_slash (g : Nat) (p : Option Char) (r : List Char) (h1 : ∀ r', r = '*' :: r' → False)
    (h2 : ∀ r', r = '/' :: r' → False) : stripAux (g + 1) p ('/' :: r) = '/' :: stripAux g (some '/') r := by
  rw [stripAux]
  simp
  all_goals assumption

theorem stripAux_fuel : ∀ (f : Nat) (p : Option Char) (l : List Char) (g : Nat), l.length < f → l.length < g →
    stripAux f p l = stripAux g p l := by
  intro f p l
  fun_induction stripAux f p l with
  | case1 p l => intro g h; omega
  | case2 t p ht => intro g _ hg; cases g <;> simp [stripAux]
  | case3 fuel p c r hc body rest hs ih =>
    intro g h1 h2
    obtain ⟨g, rfl⟩ : ∃ g', g = g' + 1 := ⟨g - 1, by omega⟩
    have := splitAtChar_eq _ _ _ _ hs
    have hl : rest.length < r.length := by rw [this]; simp; omega
    simp at h1 h2
    simp [stripAux, hc, hs]
    exact ih g (by omega) (by omega)
  | case4 fuel p c r hc hs ih =>
    intro g h1 h2
    obtain ⟨g, rfl⟩ : ∃ g', g = g' + 1 := ⟨g - 1, by omega⟩
    simp at h1 h2
    simp [stripAux, hc, hs]
    exact ih g (by omega) (by omega)
  | case5 fuel p r' body rest hs _ ih =>
    intro g h1 h2
    obtain ⟨g, rfl⟩ : ∃ g', g = g' + 1 := ⟨g - 1, by omega⟩
    have := splitAtClose_eq _ _ _ hs
    have hl : rest.length < r'.length := by rw [this]; simp; omega
    simp at h1 h2
    simp [stripAux, hs]
    exact ih g (by omega) (by omega)
  | case6 fuel p r' hs _ ih =>
    intro g h1 h2
    obtain ⟨g, rfl⟩ : ∃ g', g = g' + 1 := ⟨g - 1, by omega⟩
    simp at h1 h2
    simp [stripAux, hs]
    exact ih g (by len) (by len)
  | case7 fuel p r' a _ hs =>
    intro g h1 h2
    obtain ⟨g, rfl⟩ : ∃ g', g = g' + 1 := ⟨g - 1, by omega⟩
    simp [stripAux, hs]
  | case8 fuel p r' a tail _ hs ih =>
    intro g h1 h2
    obtain ⟨g, rfl⟩ : ∃ g', g = g' + 1 := ⟨g - 1, by omega⟩
    have := (spanLine_eq _ _ _ hs).1
    have hl : (tail.length + 1) ≤ r'.length := by rw [this]; simp <;> omega
    simp at h1 h2
    simp [stripAux, hs]
    exact ih g (by len) (by len)
  | case9 fuel p r' a _ hs =>
    intro g h1 h2
    obtain ⟨g, rfl⟩ : ∃ g', g = g' + 1 := ⟨g - 1, by omega⟩
    simp [stripAux, hs]
  | case10 fuel p r' a t _ hs ih =>
    intro g h1 h2
    obtain ⟨g, rfl⟩ : ∃ g', g = g' + 1 := ⟨g - 1, by omega⟩
    have := (spanLine_eq _ _ _ hs).1
    have hl : (t.length + 2) ≤ r'.length := by rw [this]; simp <;> omega
    simp at h1 h2
    simp [stripAux, hs]
    exact ih g (by len) (by len)
  | case11 fuel p r' a b hs hb1 hb2 hb3 hb4 _ ih =>
    intro g h1 h2
    obtain ⟨g, rfl⟩ : ∃ g', g = g' + 1 := ⟨g - 1, by omega⟩
    simp at h1 h2
    have := ih g (by len) (by len)
    simpa [stripAux, hs] using this
  | case12 fuel p r h1' h2' _ ih =>
    intro g h1 h2
    obtain ⟨g, rfl⟩ : ∃ g', g = g' + 1 := ⟨g - 1, by omega⟩
    simp at h1 h2
    have := ih g (by omega) (by omega)
    rw [stripAux_slash _ _ _ h1' h2', this]
  | case13 fuel p c r hc1 hc2 ih =>
    intro g h1 h2
    obtain ⟨g, rfl⟩ : ∃ g', g = g' + 1 := ⟨g - 1, by omega⟩
    simp at h1 h2
    have := ih g (by omega) (by omega)
    simp [stripAux, hc1, hc2, this]

theorem stripAux_strip (f : Nat) (p : Option Char) (l : List Char) (h : l.length < f) : stripAux f p l = stripFrom p l :=
  stripAux_fuel f p l _ h (by simp)

theorem strip_nil (p : Option Char) : stripFrom p [] = [] := rfl

theorem strip_char (p : Option Char) (c : Char) (r : List Char) (h1 : c ≠ '"') (h2 : c ≠ '\'') (h3 : c ≠ '/') :
    stripFrom p (c :: r) = c :: stripFrom (some c) r := by
  simp [stripFrom, stripAux, h1, h2, h3]

theorem strip_quoted (p : Option Char) (q : Char) (r body rest : List Char) (hq : q = '"' ∨ q = '\'')
    (hs : splitAtChar q r = some (body, rest)) : stripFrom p (q :: r) = q :: body ++ q :: stripFrom (some q) rest := by
  have := splitAtChar_eq _ _ _ _ hs
  simp [stripFrom, stripAux, hq, hs]
  exact stripAux_strip _ _ _ (by rw [this]; len)

theorem strip_quoted_none (p : Option Char) (q : Char) (r : List Char) (hq : q = '"' ∨ q = '\'')
    (hs : splitAtChar q r = none) : stripFrom p (q :: r) = q :: stripFrom (some q) r := by
  simp [stripFrom, stripAux, hq, hs]

theorem strip_block (p : Option Char) (r body rest : List Char) (hs : splitAtClose r = some (body, rest)) :
    stripFrom p ('/' :: '*' :: r) = commentRepl p body rest.head? ++ stripFrom (some '/') rest := by
  have := splitAtClose_eq _ _ _ hs
  simp [stripFrom, stripAux, hs]
  exact stripAux_strip _ _ _ (by rw [this]; len)

theorem strip_block_none (p : Option Char) (r : List Char) (hs : splitAtClose r = none) :
    stripFrom p ('/' :: '*' :: r) = '/' :: stripFrom (some '/') ('*' :: r) := by
  simp [stripFrom, stripAux, hs]

theorem strip_line_nil (p : Option Char) (r a : List Char) (hs : spanLine r = (a, [])) : stripFrom p ('/' :: '/' :: r) = [] := by
  simp [stripFrom, stripAux, hs]

theorem strip_line_nl (p : Option Char) (r a t : List Char) (hs : spanLine r = (a, '\n' :: t)) :
    stripFrom p ('/' :: '/' :: r) = stripFrom (some '/') ('\n' :: t) := by
  have := (spanLine_eq _ _ _ hs).1
  simp [stripFrom, stripAux, hs]
  exact stripAux_strip _ _ _ (by rw [this]; len)

/-- `// body` up to a CR that ends the text: all of it is the comment (fix F73) -/
theorem strip_line_cr_end (p : Option Char) (r a : List Char) (hs : spanLine r = (a, ['\r'])) :
    stripFrom p ('/' :: '/' :: r) = [] := by
  simp [stripFrom, stripAux, hs]

/-- `// body` up to CR LF: the CR belongs to the comment, the scan goes on at the LF (fix F73) -/
theorem strip_line_crlf (p : Option Char) (r a t : List Char) (hs : spanLine r = (a, '\r' :: '\n' :: t)) :
    stripFrom p ('/' :: '/' :: r) = stripFrom (some '\r') ('\n' :: t) := by
  have := (spanLine_eq _ _ _ hs).1
  simp [stripFrom, stripAux, hs]
  exact stripAux_strip _ _ _ (by rw [this]; len)

/-- `// body` up to a CR that is followed by something else than LF: no comment -/
theorem strip_line_cr (p : Option Char) (r a b : List Char) (hs : spanLine r = (a, b)) (h1 : b ≠ [])
    (h2 : ∀ t, b ≠ '\n' :: t) (h3 : b ≠ ['\r']) (h4 : ∀ t, b ≠ '\r' :: '\n' :: t) :
    stripFrom p ('/' :: '/' :: r) = '/' :: stripFrom (some '/') ('/' :: r) := by
  simp [stripFrom, stripAux, hs]

theorem strip_slash (p : Option Char) (r : List Char) (h1 : ∀ r', r = '*' :: r' → False)
    (h2 : ∀ r', r = '/' :: r' → False) : stripFrom p ('/' :: r) = '/' :: stripFrom (some '/') r := by
  simp [stripFrom, stripAux_slash _ _ _ h1 h2]


theorem splitAtChar_first (q : Char) (a : List Char) : ∀ (body : List Char), q ∉ body →
    splitAtChar q (body ++ q :: a) = some (body, a) := by
  intro body
  induction body with
  | nil => intro _; simp [splitAtChar]
  | cons c b ih =>
    intro h
    simp at h
    have hc : c ≠ q := fun e => h.1 e.symm
    simp [splitAtChar, hc, ih h.2]

theorem hasClose_cons (c : Char) (r : List Char) (h : hasClose (c :: r) = false) : hasClose r = false := by
  by_cases hc : ∃ t, c = '*' ∧ r = '/' :: t
  · obtain ⟨t, rfl, rfl⟩ := hc; simp [hasClose] at h
  · rw [hasClose.eq_2] at h
    · exact h
    · intro t h1 h2; exact hc ⟨t, h1, h2⟩

theorem splitAtClose_first (a : List Char) : ∀ (body : List Char), hasClose body = false →
    splitAtClose (body ++ '*' :: '/' :: a) = some (body, a) := by
  intro body
  induction body with
  | nil => intro _; simp [splitAtClose]
  | cons c b ih =>
    intro h
    have hb := hasClose_cons c b h
    have : ∀ t, c = '*' → b ++ '*' :: '/' :: a = '/' :: t → False := by
      intro t hc ht
      subst hc
      cases b with
      | nil => simp at ht
      | cons d b' =>
        simp at ht
        obtain ⟨rfl, _⟩ := ht
        simp [hasClose] at h
    rw [List.cons_append, splitAtClose.eq_3 _ _ this, ih hb]
    rfl

theorem spanLine_first (a : List Char) : ∀ (body : List Char), (∀ c ∈ body, isEol c = false) →
    spanLine (body ++ '\n' :: a) = (body, '\n' :: a) := by
  intro body
  induction body with
  | nil => intro _; simp [spanLine]
  | cons c b ih =>
    intro h
    have hc := h c (by simp)
    simp [isEol] at hc
    simp [spanLine, hc, ih (fun d hd => h d (by simp [hd]))]

theorem spanLine_first_cr (a : List Char) : ∀ (body : List Char), (∀ c ∈ body, isEol c = false) →
    spanLine (body ++ '\r' :: a) = (body, '\r' :: a) := by
  intro body
  induction body with
  | nil => intro _; simp [spanLine]
  | cons c b ih =>
    intro h
    have hc := h c (by simp)
    simp [isEol] at hc
    simp [spanLine, hc, ih (fun d hd => h d (by simp [hd]))]

theorem lastOr_append (p : Option Char) : ∀ (x y : List Char), lastOr p (x ++ y) = lastOr (lastOr p x) y
  | [], _ => rfl
  | c :: x, y => by simp only [List.cons_append, lastOr]; exact lastOr_append (some c) x y

theorem lastOr_cons (p : Option Char) (c : Char) (x : List Char) : lastOr p (c :: x) = lastOr (some c) x := rfl

theorem head_append_headOr (a b : List Char) : (a ++ b).head? = headOr a b.head? := by
  cases a <;> rfl

theorem strip_append (p : Option Char) (a o b : List Char) (h : Closed p a b.head? o) :
    stripFrom p (a ++ b) = o ++ stripFrom (lastOr p a) b := by
  generalize hn : b.head? = n at h
  induction h with
  | nil p n => rfl
  | char p n c a o h1 h2 h3 _ ih => simp [strip_char _ _ _ h1 h2 h3, ih hn, lastOr]
  | quoted p n q body a o hq hb _ ih =>
    have := splitAtChar_first q (a ++ b) body hb
    have e : (q :: body ++ q :: a) ++ b = q :: (body ++ q :: (a ++ b)) := by simp
    have el : lastOr p (q :: body ++ q :: a) = lastOr (some q) a := by
      rw [show q :: body ++ q :: a = (q :: body ++ [q]) ++ a by simp, lastOr_append]
      congr 1
      rw [show q :: body ++ [q] = (q :: body) ++ [q] by simp, lastOr_append]; rfl
    rw [e, strip_quoted p q _ body (a ++ b) hq this, ih hn, el]
    simp
  | block p n body a o hb _ ih =>
    have := splitAtClose_first (a ++ b) body hb
    have e : ('/' :: '*' :: body ++ '*' :: '/' :: a) ++ b = '/' :: '*' :: (body ++ '*' :: '/' :: (a ++ b)) := by simp
    have el : lastOr p ('/' :: '*' :: body ++ '*' :: '/' :: a) = lastOr (some '/') a := by
      rw [show '/' :: '*' :: body ++ '*' :: '/' :: a = ('/' :: '*' :: body ++ ['*']) ++ ('/' :: a) by simp, lastOr_append]
      rfl
    rw [e, strip_block p _ body (a ++ b) this, ih hn, el, head_append_headOr, hn]
    simp
  | line p n body a o hb _ ih =>
    have := spanLine_first (a ++ b) body hb
    have e : ('/' :: '/' :: body ++ '\n' :: a) ++ b = '/' :: '/' :: (body ++ '\n' :: (a ++ b)) := by simp
    have el : lastOr p ('/' :: '/' :: body ++ '\n' :: a) = lastOr (some '/') ('\n' :: a) := by
      rw [show '/' :: '/' :: body ++ '\n' :: a = ('/' :: '/' :: body) ++ ('\n' :: a) by simp, lastOr_append]
      rfl
    rw [e, strip_line_nl p _ body (a ++ b) this, el]
    exact ih hn
  | slash p n c a o h1 h2 _ ih =>
    have e : ('/' :: c :: a) ++ b = '/' :: (c :: a ++ b) := by simp
    rw [e, strip_slash p _ (by intro t ht; simp at ht; exact h1 ht.1) (by intro t ht; simp at ht; exact h2 ht.1)]
    have := ih hn
    simp at this
    simp [this, lastOr]

theorem comment_block (p : Option Char) (a o body b : List Char) (h : Closed p a (some '/') o) (hb : hasClose body = false) :
    stripFrom p (a ++ ('/' :: '*' :: body ++ '*' :: '/' :: b))
      = o ++ commentRepl (lastOr p a) body b.head? ++ stripFrom (some '/') b := by
  have := strip_block (lastOr p a) _ body b (splitAtClose_first b body hb)
  simp only [List.cons_append] at this ⊢
  rw [strip_append p a o _ (by simpa using h), this]
  simp

theorem comment_line (p : Option Char) (a o body b : List Char) (h : Closed p a (some '/') o) (hb : ∀ c ∈ body, isEol c = false) :
    stripFrom p (a ++ ('/' :: '/' :: body ++ '\n' :: b)) = o ++ stripFrom (some '/') ('\n' :: b) := by
  have := strip_line_nl (lastOr p a) _ body b (spanLine_first b body hb)
  simp only [List.cons_append] at this ⊢
  rw [strip_append p a o _ (by simpa using h), this]

theorem comment_line_crlf (p : Option Char) (a o body b : List Char) (h : Closed p a (some '/') o)
    (hb : ∀ c ∈ body, isEol c = false) :
    stripFrom p (a ++ ('/' :: '/' :: body ++ '\r' :: '\n' :: b)) = o ++ stripFrom (some '\r') ('\n' :: b) := by
  have := strip_line_crlf (lastOr p a) _ body b (spanLine_first_cr ('\n' :: b) body hb)
  simp only [List.cons_append] at this ⊢
  rw [strip_append p a o _ (by simpa using h), this]

theorem comment_line_cr_end (p : Option Char) (a o body : List Char) (h : Closed p a (some '/') o)
    (hb : ∀ c ∈ body, isEol c = false) :
    stripFrom p (a ++ ('/' :: '/' :: body ++ ['\r'])) = o := by
  have := strip_line_cr_end (lastOr p a) _ body (spanLine_first_cr [] body hb)
  simp only [List.cons_append] at this ⊢
  rw [strip_append p a o _ (by simpa using h), this]
  simp

/-- what stands in front of a text only matters when the text starts with a block comment -/
theorem stripFrom_prev (p p' : Option Char) (l : List Char) (h : ∀ r, l ≠ '/' :: '*' :: r) : stripFrom p l = stripFrom p' l := by
  cases l with
  | nil => rfl
  | cons c r =>
    simp only [stripFrom, stripAux]
    split
    · rfl
    · split
      · rename_i hc
        subst hc
        cases r with
        | nil => rfl
        | cons d r' =>
          by_cases hd : d = '*'
          · subst hd; exact absurd rfl (h r')
          · split
            · rename_i heq; simp at heq; exact absurd heq.1 hd
            · rfl
            · rfl
      · rfl


theorem newlinesOf_append (a b : List Char) : newlinesOf (a ++ b) = newlinesOf a ++ newlinesOf b := by
  simp [newlinesOf]

theorem newlinesOf_idem (a : List Char) : newlinesOf (newlinesOf a) = newlinesOf a := by
  simp [newlinesOf]

theorem newlinesOf_cons_ne (c : Char) (a : List Char) (h : c ≠ '\n') : newlinesOf (c :: a) = newlinesOf a := by
  simp [newlinesOf, h]

theorem newlinesOf_noEol (a : List Char) (h : ∀ c ∈ a, isEol c = false) : newlinesOf a = [] := by
  simp only [newlinesOf, List.filter_eq_nil_iff]
  intro c hc
  have := h c hc
  simp [isEol] at this
  simp [this.2]

theorem newlinesOf_commentRepl (p n : Option Char) (body : List Char) : newlinesOf (commentRepl p body n) = newlinesOf body := by
  unfold commentRepl
  split
  · rename_i he
    have he' : newlinesOf body = [] := by simpa using he
    rw [he']
    cases p <;> cases n <;> simp [newlinesOf]
    intro a _ _ h; subst h; decide
  · exact newlinesOf_idem body

theorem newlines_stripAux (f : Nat) (p : Option Char) (l : List Char) : newlinesOf (stripAux f p l) = newlinesOf l := by
  fun_induction stripAux f p l with
  | case1 p l => rfl
  | case2 t p ht => rfl
  | case3 fuel p c r hc body rest hs ih =>
    have := splitAtChar_eq _ _ _ _ hs
    subst this
    have e : c :: body ++ c :: stripAux fuel (some c) rest = (c :: body ++ [c]) ++ stripAux fuel (some c) rest := by simp
    have e' : c :: (body ++ c :: rest) = (c :: body ++ [c]) ++ rest := by simp
    rw [e, e']; simp only [newlinesOf_append, ih]
  | case4 fuel p c r hc hs ih => simp [newlinesOf, List.filter_cons] at ih ⊢; simp [ih]
  | case5 fuel p r' body rest hs _ ih =>
    have := splitAtClose_eq _ _ _ hs
    subst this
    have e' : '/' :: '*' :: (body ++ '*' :: '/' :: rest) = ['/', '*'] ++ body ++ ['*', '/'] ++ rest := by simp
    rw [e']; simp only [newlinesOf_append, ih, newlinesOf_commentRepl]
    simp [newlinesOf]
  | case6 fuel p r' hs _ ih => simp [newlinesOf] at ih ⊢; simp [ih]
  | case7 fuel p r' a _ hs =>
    obtain ⟨h1, h2, _⟩ := spanLine_eq _ _ _ hs
    subst h1
    have := newlinesOf_noEol a h2
    simp [newlinesOf] at this ⊢
    exact this
  | case8 fuel p r' a tail _ hs ih =>
    obtain ⟨h1, h2, _⟩ := spanLine_eq _ _ _ hs
    subst h1
    have e' : '/' :: '/' :: (a ++ '\n' :: tail) = ['/', '/'] ++ a ++ ('\n' :: tail) := by simp
    rw [ih, e']; simp only [newlinesOf_append, newlinesOf_noEol a h2]
    simp [newlinesOf]
  | case9 fuel p r' a _ hs =>
    obtain ⟨h1, h2, _⟩ := spanLine_eq _ _ _ hs
    subst h1
    have e' : '/' :: '/' :: (a ++ ['\r']) = ['/', '/'] ++ a ++ ['\r'] := by simp
    rw [e']; simp only [newlinesOf_append, newlinesOf_noEol a h2]
    simp [newlinesOf]
  | case10 fuel p r' a t _ hs ih =>
    obtain ⟨h1, h2, _⟩ := spanLine_eq _ _ _ hs
    subst h1
    have e' : '/' :: '/' :: (a ++ '\r' :: '\n' :: t) = ['/', '/'] ++ a ++ ['\r'] ++ ('\n' :: t) := by simp
    rw [ih, e']; simp only [newlinesOf_append, newlinesOf_noEol a h2]
    simp [newlinesOf]
  | case11 fuel p r' a b hs hb1 hb2 hb3 hb4 _ ih => simp [newlinesOf] at ih ⊢; simp [ih]
  | case12 fuel p r h1' h2' _ ih => simp [newlinesOf] at ih ⊢; simp [ih]
  | case13 fuel p c r hc1 hc2 ih => simp [newlinesOf, List.filter_cons] at ih ⊢; simp [ih]

theorem newlines_preserved (p : Option Char) (l : List Char) : newlinesOf (stripFrom p l) = newlinesOf l :=
  newlines_stripAux _ p l

theorem sample_closed :
    Closed none "x/*c*/y /* x\n */ \"//\" b / 2 // c\n".toList none "x y \n \"//\" b / 2 \n".toList := by
  have e1 : "x/*c*/y /* x\n */ \"//\" b / 2 // c\n".toList =
    'x' :: ('/' :: '*' :: ['c'] ++ '*' :: '/' :: ('y' :: ' ' :: ('/' :: '*' :: [' ', 'x', '\n', ' '] ++ '*' :: '/' :: (' ' :: ('"' :: ['/', '/'] ++ '"' ::
      (' ' :: 'b' :: ' ' :: '/' :: ' ' :: '2' :: ' ' :: ('/' :: '/' :: [' ', 'c'] ++ '\n' :: []))))))) := by decide
  have e2 : "x y \n \"//\" b / 2 \n".toList =
    'x' :: (commentRepl (some 'x') ['c'] (headOr ('y' :: ' ' :: ('/' :: '*' :: [' ', 'x', '\n', ' '] ++ '*' :: '/' :: (' ' :: ('"' :: ['/', '/'] ++ '"' ::
      (' ' :: 'b' :: ' ' :: '/' :: ' ' :: '2' :: ' ' :: ('/' :: '/' :: [' ', 'c'] ++ '\n' :: [])))))) none) ++
     ('y' :: ' ' :: (commentRepl (some ' ') [' ', 'x', '\n', ' '] (headOr (' ' :: ('"' :: ['/', '/'] ++ '"' ::
      (' ' :: 'b' :: ' ' :: '/' :: ' ' :: '2' :: ' ' :: ('/' :: '/' :: [' ', 'c'] ++ '\n' :: [])))) none) ++ (' ' :: ('"' :: ['/', '/'] ++ '"' ::
      (' ' :: 'b' :: ' ' :: '/' :: ' ' :: '2' :: ' ' :: ['\n'])))))) := by decide
  rw [e1, e2]
  refine .char _ _ _ _ _ (by decide) (by decide) (by decide) ?_
  refine .block _ _ _ _ _ (by decide) ?_
  refine .char _ _ _ _ _ (by decide) (by decide) (by decide) ?_
  refine .char _ _ _ _ _ (by decide) (by decide) (by decide) ?_
  refine .block _ _ _ _ _ (by decide) ?_
  refine .char _ _ _ _ _ (by decide) (by decide) (by decide) ?_
  refine .quoted _ _ _ _ _ _ (by decide) (by decide) ?_
  refine .char _ _ _ _ _ (by decide) (by decide) (by decide) ?_
  refine .char _ _ _ _ _ (by decide) (by decide) (by decide) ?_
  refine .char _ _ _ _ _ (by decide) (by decide) (by decide) ?_
  refine .slash _ _ _ _ _ (by decide) (by decide) ?_
  refine .char _ _ _ _ _ (by decide) (by decide) (by decide) ?_
  refine .char _ _ _ _ _ (by decide) (by decide) (by decide) ?_
  refine .char _ _ _ _ _ (by decide) (by decide) (by decide) ?_
  refine .line _ _ _ _ _ (by decide) ?_
  refine .char _ _ _ _ _ (by decide) (by decide) (by decide) ?_
  exact .nil _ _


-- ---------------------------------------------------------------- alias table

theorem chain_pos (tbl : List (String × Bind)) (name : String) (id : Nat) : ¬ Chain tbl name id 0 := by
  intro h; cases h

theorem resolve_chain (tbl : List (String × Bind)) (n : Nat) (name : String) (id : Nat) :
    resolveB tbl n name = some id ↔ ∃ k, k ≤ n ∧ Chain tbl name id k := by
  induction n generalizing name with
  | zero =>
    simp only [resolveB]
    constructor
    · intro h; cases h
    · rintro ⟨k, hk, hc⟩
      obtain rfl : k = 0 := by omega
      exact absurd hc (chain_pos _ _ _)
  | succ n ih =>
    rw [resolveB]
    cases hl : lookupB name tbl with
    | none =>
      constructor
      · intro h; cases h
      · rintro ⟨k, _, hc⟩
        cases hc <;> simp_all
    | some b =>
      cases b with
      | type i =>
        constructor
        · intro h
          simp at h
          subst h
          exact ⟨1, by omega, .type _ _ hl⟩
        · rintro ⟨k, _, hc⟩
          cases hc <;> simp_all
      | alias t =>
        simp only
        rw [ih]
        constructor
        · rintro ⟨k, hk, hc⟩
          exact ⟨k + 1, by omega, .alias _ t _ _ hl hc⟩
        · rintro ⟨k, hk, hc⟩
          cases hc with
          | type _ _ h => simp_all
          | alias _ t' _ k' h hc' =>
            rw [hl] at h
            cases h
            exact ⟨k', by omega, hc'⟩

theorem chain_unique (tbl : List (String × Bind)) (name : String) (i j k m : Nat)
    (h₁ : Chain tbl name i k) (h₂ : Chain tbl name j m) : i = j ∧ k = m := by
  induction h₁ generalizing m with
  | type name id h =>
    cases h₂ with
    | type _ _ h' => rw [h] at h'; cases h'; exact ⟨rfl, rfl⟩
    | alias _ t _ k' h' _ => rw [h] at h'; cases h'
  | alias name t id k h _ ih =>
    cases h₂ with
    | type _ _ h' => rw [h] at h'; cases h'
    | alias _ t' _ k' h' hc' =>
      rw [h] at h'; cases h'
      obtain ⟨rfl, rfl⟩ := ih _ hc'
      exact ⟨rfl, rfl⟩

theorem lookupB_setB (n name : String) (v : Bind) (tbl : List (String × Bind)) :
    lookupB n (setB name v tbl) = if n = name then some v else lookupB n tbl := by
  induction tbl with
  | nil => simp [setB, lookupB]
  | cons p r ih =>
    obtain ⟨k, b⟩ := p
    simp only [setB]
    by_cases hk : name = k
    · subst hk
      by_cases hn : n = name <;> simp [lookupB, hn]
    · simp only [hk, if_false, lookupB, ih]
      by_cases hn : n = k
      · subst hn
        have : ¬ n = name := fun e => hk e.symm
        simp [this]
      · simp [hn]

theorem resolveB_setB_fresh (tbl : List (String × Bind)) (name : String) (v : Bind)
    (hfresh : lookupB name tbl = none) (m : Nat) (n : String) (i : Nat)
    (h : resolveB tbl m n = some i) : resolveB (setB name v tbl) m n = some i := by
  induction m generalizing n with
  | zero => simp [resolveB] at h
  | succ m ih =>
    rw [resolveB] at h ⊢
    have hn : n ≠ name := by
      intro e; subst e; rw [hfresh] at h; cases h
    rw [lookupB_setB, if_neg hn]
    cases hl : lookupB n tbl with
    | none => rw [hl] at h; cases h
    | some b =>
      rw [hl] at h
      cases b with
      | type j => exact h
      | alias t => exact ih t h

theorem addType_fresh (tbl : List (String × Bind)) (name : String) (v : Bind)
    (hfresh : lookupB name tbl = none) : addType tbl name v = some (setB name v tbl) := by
  simp [addType, hfresh]

theorem alias_same (tbl tbl' : List (String × Bind)) (name t : String) (id : Nat)
    (hfresh : lookupB name tbl = none) (ht : resolveB tbl 9 t = some id)
    (hadd : addType tbl name (.alias t) = some tbl') :
    resolveB tbl' 10 name = some id ∧
    ∀ n i, resolveB tbl 10 n = some i → resolveB tbl' 10 n = some i := by
  rw [addType_fresh _ _ _ hfresh] at hadd
  cases hadd
  refine ⟨?_, fun n i h => resolveB_setB_fresh _ _ _ hfresh _ _ _ h⟩
  rw [resolveB, lookupB_setB, if_pos rfl]
  exact resolveB_setB_fresh _ _ _ hfresh _ _ _ ht

theorem redeclare (tbl : List (String × Bind)) (name : String) (b v : Bind)
    (hb : lookupB name tbl = some b) :
    (addType tbl name v).isSome ↔ resolveB tbl 10 name = v.target tbl := by
  cases v with
  | type j =>
    simp only [addType, hb, Bind.target]
    by_cases h : resolveB tbl 10 name = some j <;> simp [h]
  | alias t =>
    simp only [addType, hb, Bind.target]
    by_cases h : resolveB tbl 10 name = resolveB tbl 10 t <;> simp [h]

theorem resolveB_congr (t₁ t₂ : List (String × Bind)) (h : LookupEq t₁ t₂) (m : Nat) (n : String) :
    resolveB t₁ m n = resolveB t₂ m n := by
  induction m generalizing n with
  | zero => rfl
  | succ m ih =>
    rw [resolveB, resolveB, h n]
    cases lookupB n t₂ with
    | none => rfl
    | some b =>
      cases b with
      | type j => rfl
      | alias t => exact ih t

theorem commute (tbl t₁ t₂ t₁' t₂' : List (String × Bind)) (a b : String) (va vb : Bind) (hab : a ≠ b)
    (ha : lookupB a tbl = none) (hb : lookupB b tbl = none)
    (h₁ : addType tbl a va = some t₁) (h₁' : addType t₁ b vb = some t₁')
    (h₂ : addType tbl b vb = some t₂) (h₂' : addType t₂ a va = some t₂') :
    LookupEq t₁' t₂' ∧ ∀ n, resolveB t₁' 10 n = resolveB t₂' 10 n := by
  rw [addType_fresh _ _ _ ha] at h₁
  cases h₁
  rw [addType_fresh _ _ _ hb] at h₂
  cases h₂
  have hb' : lookupB b (setB a va tbl) = none := by
    rw [lookupB_setB, if_neg (fun e => hab e.symm), hb]
  have ha' : lookupB a (setB b vb tbl) = none := by
    rw [lookupB_setB, if_neg hab, ha]
  rw [addType_fresh _ _ _ hb'] at h₁'
  cases h₁'
  rw [addType_fresh _ _ _ ha'] at h₂'
  cases h₂'
  have hl : LookupEq (setB b vb (setB a va tbl)) (setB a va (setB b vb tbl)) := by
    intro n
    simp only [lookupB_setB]
    by_cases h1 : n = a
    · subst h1; simp [hab]
    · simp [h1]
  exact ⟨hl, fun n => resolveB_congr _ _ hl 10 n⟩

def aliasOk (p : String × Gen.TypeEntry) : Bool :=
  match p.2 with
  | .alias t =>
    decide ((resolve Gen.typeTable p.1).toOption = (resolve Gen.typeTable t).toOption) &&
      (resolve Gen.typeTable p.1).toOption.isSome
  | _ => true

theorem aliasOk_all : Gen.typeTable.all aliasOk = true := by decide +kernel

theorem builtin_aliases :
    ∀ p ∈ Gen.typeTable, ∀ t, p.2 = Gen.TypeEntry.alias t →
      (resolve Gen.typeTable p.1).toOption = (resolve Gen.typeTable t).toOption ∧ (resolve Gen.typeTable p.1).toOption.isSome := by
  intro p hp t ht
  have := List.all_eq_true.mp aliasOk_all p hp
  simp only [aliasOk, ht, Bool.and_eq_true, decide_eq_true_eq] at this
  exact this

end Cstruct.Parser
