/-
  C13, definition parser — helper lemmas (11): the handlers are local.  When a handler succeeds on a token list and leaves a
  non-empty rest, it never looked at the end of the list, so it does the same — with the same result — when further tokens
  are appended (and with any larger step budget).
-/
import Proofs.Lemmas.C13ParseJ

namespace Cstruct.DefParser.C13
open Cstruct.DefParser

theorem identifier_len (toks : List OTok) : (identifier toks).2.length ≤ toks.length := by
  fun_induction identifier toks with
  | case1 v w r ih => simp only [List.length_cons] at ih ⊢; omega
  | case2 v r h => simp
  | case3 toks h1 => simp

theorem identifier_frame (toks extra : List OTok) (h : (identifier toks).2 ≠ []) :
    identifier (toks ++ extra) = ((identifier toks).1, (identifier toks).2 ++ extra) := by
  fun_induction identifier toks with
  | case1 v w r ih =>
    have := ih h
    simp only [List.cons_append] at this ⊢
    simp [identifier, this]
  | case2 v r hne =>
    cases r with
    | nil => simp at h
    | cons t r =>
      cases t with
      | ident w => exact absurd rfl (hne w r)
      | _ => simp [identifier]
  | case3 toks h1 h2 =>
    cases toks with
    | nil => simp at h
    | cons t r =>
      cases t with
      | ident v => exact absurd rfl (h2 v r)
      | _ => simp [identifier]

theorem names_len (toks : List OTok) : (names toks).2.length ≤ toks.length := by
  fun_induction names toks with
  | case1 r => simp
  | case2 s d r ih => simp only [List.length_cons]; omega
  | case3 l r ih => simp only [List.length_cons]; omega
  | case4 toks h1 h2 h3 => simp

theorem names_frame (toks extra : List OTok) (h : (names toks).2 ≠ []) :
    names (toks ++ extra) = ((names toks).1, (names toks).2 ++ extra) := by
  fun_induction names toks with
  | case1 r => simp [names]
  | case2 s d r ih => have := ih h; simp [names, this]
  | case3 l r ih => have := ih h; simp [names, this]
  | case4 toks h1 h2 h3 =>
    cases toks with
    | nil => simp at h
    | cons t r =>
      cases t with
      | eol => exact absurd rfl (h1 r)
      | name s d => exact absurd rfl (h2 s d r)
      | defs l => exact absurd rfl (h3 l r)
      | _ => simp [names]

theorem eol_frame (toks extra r : List OTok) (h : eol toks = .ok r) : eol (toks ++ extra) = .ok (r ++ extra) ∧ r.length ≤ toks.length := by
  cases toks with
  | nil => simp [eol] at h
  | cons t toks =>
    cases t <;> simp [eol] at h
    subst h
    simp [eol]

theorem structEnd_frame (reg u : Bool) (tag : Option (List Char)) (fs : List FieldDecl) (toks extra : List OTok) (x : TypeRef)
    (r : List OTok) (h : structEnd reg u tag fs toks = .ok (x, r)) (hr : r ≠ []) :
    structEnd reg u tag fs (toks ++ extra) = .ok (x, r ++ extra) ∧ r.length ≤ toks.length := by
  unfold structEnd at h ⊢
  -- the names, then the optional `;`
  have key : ∀ (p : List (List Char) × List OTok) (p' : List (List Char) × List OTok), p'.1 = p.1 → (p.2 ≠ [] → p'.2 = p.2 ++ extra) →
      p.2.length ≤ toks.length →
      (if (reg && p.1.isEmpty && tag.isNone) = true then (Except.error PErr.structNoName : Except PErr (TypeRef × List OTok))
        else .ok (.inline (.mk u tag fs p.1), match p.2 with | .eol :: r => r | t => t)) = .ok (x, r) →
      (if (reg && p'.1.isEmpty && tag.isNone) = true then (Except.error PErr.structNoName : Except PErr (TypeRef × List OTok))
        else .ok (.inline (.mk u tag fs p'.1), match p'.2 with | .eol :: r => r | t => t)) = .ok (x, r ++ extra) ∧ r.length ≤ toks.length := by
    intro p p' h1 h2 hl hh
    rw [h1]
    split at hh
    · simp at hh
    · rename_i hc
      simp only [hc, if_false, Bool.false_eq_true]
      simp only [Except.ok.injEq, Prod.mk.injEq] at hh
      obtain ⟨rfl, hrest⟩ := hh
      have hp2 : p.2 ≠ [] := by
        intro e; rw [e] at hrest; exact hr hrest.symm
      rw [h2 hp2]
      cases hp : p.2 with
      | nil => exact absurd hp hp2
      | cons t r0 =>
        rw [hp] at hrest hl
        cases t <;> simp at hrest <;> subst hrest <;> simp at hl ⊢ <;> omega
  cases reg with
  | true =>
    simp only [if_true] at h ⊢
    exact key (names toks) (names (toks ++ extra)) (by
        by_cases hn : (names toks).2 = []
        · -- the rest of the struct would be empty: impossible
          exfalso
          simp only [hn] at h
          split at h
          · simp at h
          · simp at h; exact hr h.2
        · rw [names_frame toks extra hn])
      (fun hn => by rw [names_frame toks extra hn]) (names_len toks) h
  | false =>
    simp only [Bool.false_eq_true, if_false] at h ⊢
    exact key ([], toks) ([], toks ++ extra) rfl (fun _ => rfl) (Nat.le_refl _) h

theorem fieldTail_frame (ty : TypeRef) (ws : Bool) (toks extra : List OTok) (x : FieldDecl) (r : List OTok)
    (h : fieldTail ty ws toks = .ok (x, r)) (hr : r ≠ []) :
    fieldTail ty ws (toks ++ extra) = .ok (x, r ++ extra) ∧ r.length ≤ toks.length := by
  cases toks with
  | nil =>
    cases ws <;> simp [fieldTail] at h
    exact absurd h.2 hr
  | cons t toks =>
    cases t with
    | name s d =>
      cases d with
      | error e => simp [fieldTail] at h
      | ok d =>
        cases he : eol toks with
        | error e => simp [fieldTail, he] at h
        | ok r' =>
          simp [fieldTail, he] at h
          obtain ⟨rfl, rfl⟩ := h
          have := eol_frame toks extra r' he
          simp [fieldTail, this.1]; omega
    | _ =>
      cases ws <;> simp [fieldTail] at h ⊢
      all_goals (obtain ⟨rfl, rfl⟩ := h; simp)

/-- the frame property of the four mutually recursive handlers at one step budget -/
def FrameP (fuel : Nat) : Prop :=
  (∀ (reg : Bool) (toks : List OTok) (x : TypeRef) (r extra : List OTok) (fuel' : Nat),
      structH fuel reg toks = .ok (x, r) → r ≠ [] → fuel ≤ fuel' →
      structH fuel' reg (toks ++ extra) = .ok (x, r ++ extra) ∧ r.length < toks.length) ∧
  (∀ (reg u : Bool) (tag : Option (List Char)) (toks : List OTok) (x : TypeRef) (r extra : List OTok) (fuel' : Nat),
      structTail fuel reg u tag toks = .ok (x, r) → r ≠ [] → fuel ≤ fuel' →
      structTail fuel' reg u tag (toks ++ extra) = .ok (x, r ++ extra) ∧ r.length ≤ toks.length) ∧
  (∀ (toks : List OTok) (x : List FieldDecl) (r extra : List OTok) (fuel' : Nat),
      fieldsH fuel toks = .ok (x, r) → r ≠ [] → fuel ≤ fuel' →
      fieldsH fuel' (toks ++ extra) = .ok (x, r ++ extra) ∧ r.length ≤ toks.length) ∧
  (∀ (toks : List OTok) (x : FieldDecl) (r extra : List OTok) (fuel' : Nat),
      fieldH fuel toks = .ok (x, r) → r ≠ [] → fuel ≤ fuel' →
      fieldH fuel' (toks ++ extra) = .ok (x, r ++ extra) ∧ r.length ≤ toks.length)

theorem ne_nil_of_len {α : Type} (r t : List α) (hr : r ≠ []) (h : r.length ≤ t.length) : t ≠ [] := by
  intro e; subst e; cases r <;> simp_all

theorem frame_zero : FrameP 0 := by
  refine ⟨?_, ?_, ?_, ?_⟩
  · intro reg toks x r extra fuel' h; simp [structH] at h
  · intro reg u tag toks x r extra fuel' h; simp [structTail] at h
  · intro toks x r extra fuel' h; simp [fieldsH] at h
  · intro toks x r extra fuel' h; simp [fieldH] at h

theorem frame_succ (f : Nat) (ih : FrameP f) : FrameP (f + 1) := by
  obtain ⟨ihS, ihT, ihFs, ihF⟩ := ih
  refine ⟨?_, ?_, ?_, ?_⟩
  · -- structH
    intro reg toks x r extra fuel' h hr hf
    obtain ⟨g, rfl⟩ : ∃ g, fuel' = g + 1 := ⟨fuel' - 1, by omega⟩
    have hg : f ≤ g := by omega
    cases toks with
    | nil => simp [structH] at h
    | cons t toks =>
      cases t with
      | struct u =>
        cases toks with
        | nil => simp [structH, structTail] at h; cases f <;> simp [structTail] at h
        | cons t2 toks =>
          cases t2 with
          | ident v =>
            simp only [structH] at h
            have := ihT reg u (some v) toks x r extra g h hr hg
            simp only [List.cons_append, structH]
            exact ⟨this.1, by simp; omega⟩
          | _ =>
            simp only [structH] at h
            have := ihT reg u none _ x r extra g h hr hg
            simp only [List.cons_append, structH] at this ⊢
            exact ⟨this.1, by simp at this ⊢; omega⟩
      | _ => simp [structH] at h
  · -- structTail
    intro reg u tag toks x r extra fuel' h hr hf
    obtain ⟨g, rfl⟩ : ∃ g, fuel' = g + 1 := ⟨fuel' - 1, by omega⟩
    have hg : f ≤ g := by omega
    cases toks with
    | nil => simp [structTail] at h
    | cons t toks =>
      cases t with
      | name s d =>
        cases tag with
        | none => simp [structTail] at h
        | some n =>
          cases reg with
          | true => simp [structTail] at h
          | false =>
            simp [structTail] at h
            obtain ⟨rfl, rfl⟩ := h
            simp [structTail]
      | block b =>
        simp only [structTail] at h
        cases hfs : fieldsH f toks with
        | error e => simp [hfs] at h
        | ok p =>
          obtain ⟨fs, t1⟩ := p
          simp only [hfs] at h
          have h1 := structEnd_frame reg u tag fs t1 extra x r h hr
          have ht1 : t1 ≠ [] := ne_nil_of_len r t1 hr h1.2
          have h2 := ihFs toks fs t1 extra g hfs ht1 hg
          simp only [List.cons_append, structTail, h2.1, h1.1, true_and]
          simp; omega
      | _ => simp [structTail] at h
  · -- fieldsH
    intro toks x r extra fuel' h hr hf
    obtain ⟨g, rfl⟩ : ∃ g, fuel' = g + 1 := ⟨fuel' - 1, by omega⟩
    have hg : f ≤ g := by omega
    have general : ∀ (toks : List OTok), toks ≠ [] → (∀ r0, toks ≠ .block true :: r0) →
        fieldsH (f + 1) toks = .ok (x, r) →
        fieldsH (g + 1) (toks ++ extra) = .ok (x, r ++ extra) ∧ r.length ≤ toks.length := by
      intro toks hne hnb h
      have e1 : fieldsH (f + 1) toks = (match fieldH f toks with
          | .error e => .error e
          | .ok (fd, t1) => match fieldsH f t1 with
            | .error e => .error e
            | .ok (fs, t2) => .ok (fd :: fs, t2)) := by
        cases toks with
        | nil => exact absurd rfl hne
        | cons t r0 =>
          cases t with
          | block b => cases b with
            | true => exact absurd rfl (hnb r0)
            | false => rfl
          | _ => rfl
      rw [e1] at h
      cases hfd : fieldH f toks with
      | error e => simp [hfd] at h
      | ok p =>
        obtain ⟨fd, t1⟩ := p
        simp only [hfd] at h
        cases hfs : fieldsH f t1 with
        | error e => simp [hfs] at h
        | ok q =>
          obtain ⟨fs, t2⟩ := q
          simp only [hfs, Except.ok.injEq, Prod.mk.injEq] at h
          obtain ⟨rfl, rfl⟩ := h
          have h2 := ihFs t1 fs t2 extra g hfs hr hg
          have ht1 : t1 ≠ [] := ne_nil_of_len t2 t1 hr h2.2
          have h1 := ihF toks fd t1 extra g hfd ht1 hg
          have e2 : fieldsH (g + 1) (toks ++ extra) = (match fieldH g (toks ++ extra) with
              | .error e => .error e
              | .ok (fd, t1) => match fieldsH g t1 with
                | .error e => .error e
                | .ok (fs, t2) => .ok (fd :: fs, t2)) := by
            cases toks with
            | nil => exact absurd rfl hne
            | cons t r0 =>
              cases t with
              | block b => cases b with
                | true => exact absurd rfl (hnb r0)
                | false => rfl
              | _ => rfl
          rw [e2, h1.1]
          simp only [h2.1, true_and]
          omega
    cases toks with
    | nil => simp [fieldsH] at h; exact absurd h.2 hr
    | cons t r0 =>
      by_cases hb : t = .block true
      · subst hb
        simp [fieldsH] at h
        obtain ⟨rfl, rfl⟩ := h
        simp [fieldsH]
      · exact general (t :: r0) (by simp) (fun r1 e => hb (by cases e; rfl)) h
  · -- fieldH
    intro toks x r extra fuel' h hr hf
    obtain ⟨g, rfl⟩ : ∃ g, fuel' = g + 1 := ⟨fuel' - 1, by omega⟩
    have hg : f ≤ g := by omega
    cases toks with
    | nil => simp [fieldH, fieldTail] at h
    | cons t toks =>
      cases t with
      | ident v =>
        simp only [fieldH] at h
        have h1 := fieldTail_frame _ false _ extra x r h hr
        have hi : (identifier (.ident v :: toks)).2 ≠ [] := ne_nil_of_len r _ hr h1.2
        have h2 := identifier_frame (.ident v :: toks) extra hi
        have hl := identifier_len (.ident v :: toks)
        simp only [List.cons_append] at h2
        simp only [List.cons_append, fieldH, h2, h1.1, true_and]
        omega
      | struct u =>
        simp only [fieldH] at h
        cases hs : structH f false (.struct u :: toks) with
        | error e => simp [hs] at h
        | ok p =>
          obtain ⟨ty, t1⟩ := p
          simp only [hs] at h
          have h1 := fieldTail_frame ty true t1 extra x r h hr
          have ht1 : t1 ≠ [] := ne_nil_of_len r t1 hr h1.2
          have h2 := ihS false (.struct u :: toks) ty t1 extra g hs ht1 hg
          simp only [List.cons_append] at h2
          simp only [List.cons_append, fieldH, h2.1, h1.1, true_and]
          have := h2.2; simp at this ⊢; omega
      | _ =>
        simp only [fieldH] at h
        have h1 := fieldTail_frame _ false _ extra x r h hr
        simp only [List.cons_append, fieldH]
        exact h1

theorem frame_all : ∀ (fuel : Nat), FrameP fuel
  | 0 => frame_zero
  | f + 1 => frame_succ f (frame_all f)

end Cstruct.DefParser.C13
