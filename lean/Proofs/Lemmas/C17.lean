/-
  Helper lemmas for `Proofs/C17.lean` (structure instances): `veq` is reflexive and symmetric, field-wise equality,
  `setNth` is `List.set`, the positional part of `__init__`, and the locality of a field assignment in the bytes the
  structure writer emits (fragment S).
-/
import CstructModel.Instance
import Proofs.Core
import Proofs.C02
namespace Cstruct.C17.Lemmas
open Cstruct Cstruct.Instance Cstruct.Core Cstruct.Core.Lemmas

/-! ### `veq` -/

mutual
theorem veq_refl : ∀ x : Val, veq x x = true
  | .int _ => by simp [veq]
  | .flt _ => by simp [veq]
  | .bytes _ => by simp [veq]
  | .wstr _ => by simp [veq]
  | .enum _ => by simp [veq]
  | .ptr _ => by simp [veq]
  | .void => by simp [veq]
  | .list a => by simp only [veq]; exact vseq_refl a
  | .record a => by simp only [veq]; exact vseq_refl a
  | .union _ a => by simp only [veq]; exact vseq_refl a
theorem vseq_refl : ∀ x : Vals, vseq x x = true
  | .nil => by simp [vseq]
  | .cons a r => by simp only [vseq, veq_refl a, vseq_refl r, Bool.and_self]
end

mutual
theorem veq_symm : ∀ x y : Val, veq x y = veq y x
  | .list a, .list b => by simp only [veq]; exact vseq_symm a b
  | .record a, .record b => by simp only [veq]; exact vseq_symm a b
  | .union _ a, .union _ b => by simp only [veq]; exact vseq_symm a b
  | .int a, y => by cases y <;> simp only [veq] <;> exact BEq.comm
  | .flt a, y => by cases y <;> simp only [veq] <;> exact BEq.comm
  | .bytes a, y => by cases y <;> simp only [veq] <;> exact BEq.comm
  | .wstr a, y => by cases y <;> simp only [veq] <;> exact BEq.comm
  | .enum a, y => by cases y <;> simp only [veq] <;> exact BEq.comm
  | .ptr a, y => by cases y <;> simp only [veq] <;> exact BEq.comm
  | .void, y => by cases y <;> simp only [veq]
  | .list a, .int _ => by simp only [veq]
  | .list a, .flt _ => by simp only [veq]
  | .list a, .bytes _ => by simp only [veq]
  | .list a, .wstr _ => by simp only [veq]
  | .list a, .enum _ => by simp only [veq]
  | .list a, .ptr _ => by simp only [veq]
  | .list a, .void => by simp only [veq]
  | .list a, .record _ => by simp only [veq]
  | .list a, .union _ _ => by simp only [veq]
  | .record a, .int _ => by simp only [veq]
  | .record a, .flt _ => by simp only [veq]
  | .record a, .bytes _ => by simp only [veq]
  | .record a, .wstr _ => by simp only [veq]
  | .record a, .enum _ => by simp only [veq]
  | .record a, .ptr _ => by simp only [veq]
  | .record a, .void => by simp only [veq]
  | .record a, .list _ => by simp only [veq]
  | .record a, .union _ _ => by simp only [veq]
  | .union _ a, .int _ => by simp only [veq]
  | .union _ a, .flt _ => by simp only [veq]
  | .union _ a, .bytes _ => by simp only [veq]
  | .union _ a, .wstr _ => by simp only [veq]
  | .union _ a, .enum _ => by simp only [veq]
  | .union _ a, .ptr _ => by simp only [veq]
  | .union _ a, .void => by simp only [veq]
  | .union _ a, .list _ => by simp only [veq]
  | .union _ a, .record _ => by simp only [veq]
theorem vseq_symm : ∀ x y : Vals, vseq x y = vseq y x
  | .nil, .nil => rfl
  | .nil, .cons _ _ => by simp only [vseq]
  | .cons _ _, .nil => by simp only [vseq]
  | .cons a r, .cons b s => by simp only [vseq, veq_symm a b, vseq_symm r s]
end

/-! ### instance equality -/

theorem zip_all_iff : ∀ (l1 l2 : List Val) (hlen : l1.length = l2.length),
    ((l1.zip l2).all (fun (x, y) => veq x y) = true) ↔
      ∀ i (h : i < l1.length), veq l1[i] (l2[i]'(hlen ▸ h)) = true
  | [], [], _ => by simp
  | [], _ :: _, h => by simp at h
  | _ :: _, [], h => by simp at h
  | a :: r, b :: s, h => by
    have ih := zip_all_iff r s (by simpa using h)
    simp only [List.zip_cons_cons, List.all_cons, Bool.and_eq_true, ih, List.length_cons]
    constructor
    · rintro ⟨h0, h1⟩ i hi
      cases i with
      | zero => exact h0
      | succ i => exact h1 i (by omega)
    · intro hh
      exact ⟨hh 0 (by omega), fun i hi => hh (i + 1) (by omega)⟩

theorem zip_all_refl : ∀ l : List Val, (l.zip l).all (fun (x, y) => veq x y) = true
  | [] => rfl
  | a :: r => by simp only [List.zip_cons_cons, List.all_cons, veq_refl a, zip_all_refl r, Bool.and_self]

theorem zip_all_symm : ∀ l1 l2 : List Val,
    (l1.zip l2).all (fun (x, y) => veq x y) = (l2.zip l1).all (fun (x, y) => veq x y)
  | [], [] => rfl
  | [], _ :: _ => rfl
  | _ :: _, [] => rfl
  | a :: r, b :: s => by
    simp only [List.zip_cons_cons, List.all_cons, veq_symm a b, zip_all_symm r s]

theorem eq_iff (a b : Inst) (hlen : a.vals.length = b.vals.length) :
    a.eq b = true ↔ a.cls = b.cls ∧ ∀ i (h : i < a.vals.length), veq a.vals[i] (b.vals[i]'(hlen ▸ h)) = true := by
  unfold Inst.eq
  simp only [Bool.and_eq_true, beq_iff_eq, zip_all_iff a.vals b.vals hlen]
  constructor
  · rintro ⟨⟨h1, _⟩, h3⟩; exact ⟨h1, h3⟩
  · rintro ⟨h1, h3⟩; exact ⟨⟨h1, hlen⟩, h3⟩

theorem eq_refl (a : Inst) : a.eq a = true := by
  unfold Inst.eq
  simp only [beq_self_eq_true, zip_all_refl, Bool.and_self]

theorem eq_symm (a b : Inst) : a.eq b = b.eq a := by
  unfold Inst.eq
  rw [zip_all_symm a.vals b.vals, BEq.comm (a := a.cls), BEq.comm (a := a.vals.length)]

theorem bool_iff (a : Inst) : a.bool = false ↔ ∀ v ∈ a.vals, v.truthy = false := by
  unfold Inst.bool
  simp only [List.any_eq_false, Bool.not_eq_true]

/-! ### `__init__` -/

theorem setNth_eq_set : ∀ (l : List Val) (k : Nat) (v : Val), setNth l k v = l.set k v
  | [], _, _ => rfl
  | _ :: _, 0, _ => rfl
  | a :: r, k + 1, v => by simp only [setNth, List.set_cons_succ, setNth_eq_set r k v]

theorem fold_set_inst (f : Nat → Val) : ∀ (l : List Nat) (x : Inst),
    l.foldl (fun (x : Inst) i => x.set i (f i)) x =
      { cls := x.cls, names := x.names, vals := l.foldl (fun vs i => setNth vs i (f i)) x.vals }
  | [], x => rfl
  | i :: l, x => by
    simp only [List.foldl_cons]
    rw [fold_set_inst f l]
    rfl

theorem fold_kw_inst (names : List String) : ∀ (kw : List (String × Val)) (x : Inst),
    kw.foldl (fun (x : Inst) (kv : String × Val) =>
        match indexOf names kv.1 with | some i => x.set i kv.2 | none => x) x =
      { cls := x.cls, names := x.names,
        vals := kw.foldl (fun vs (k, v) => match indexOf names k with | some i => setNth vs i v | none => vs) x.vals }
  | [], x => rfl
  | (k, v) :: kw, x => by
    simp only [List.foldl_cons]
    rw [fold_kw_inst names kw]
    cases indexOf names k <;> rfl

theorem fold_set_length (f : Nat → Val) (d : List Val) : ∀ m,
    ((List.range m).foldl (fun vs i => setNth vs i (f i)) d).length = d.length := by
  intro m
  induction m with
  | zero => rfl
  | succ m ih =>
    rw [List.range_succ, List.foldl_append]
    simp only [List.foldl_cons, List.foldl_nil, setNth_eq_set, List.length_set]
    simpa only [setNth_eq_set] using ih

theorem fold_set_get (f : Nat → Val) (d : List Val) : ∀ m i,
    ((List.range m).foldl (fun vs i => setNth vs i (f i)) d)[i]? =
      if i < m ∧ i < d.length then some (f i) else d[i]? := by
  intro m
  induction m with
  | zero => intro i; simp
  | succ m ih =>
    intro i
    have hl := fold_set_length f d m
    rw [List.range_succ, List.foldl_append]
    simp only [List.foldl_cons, List.foldl_nil]
    rw [setNth_eq_set, List.getElem?_set, hl, ih]
    by_cases h1 : m = i
    · subst h1
      by_cases h2 : m < d.length
      · simp [h2]
      · have h2' : d.length ≤ m := by omega
        simp [h2, List.getElem?_eq_none h2']
    · rw [if_neg h1]
      by_cases h3 : i < d.length
      · by_cases h4 : i < m
        · rw [if_pos ⟨h4, h3⟩, if_pos ⟨by omega, h3⟩]
        · rw [if_neg (by omega), if_neg (by omega)]
      · rw [if_neg (by omega), if_neg (by omega)]

theorem init_default (cls : Nat) (names : List String) (defaults : List Val) (hd : defaults.length = names.length) :
    (init cls names defaults [] []).vals = defaults := by
  simp only [init, List.foldl_nil]
  apply List.ext_getElem?
  intro i
  simp only [List.getElem?_map, List.getElem?_nil, Option.getD_none]
  by_cases h : i < names.length
  · rw [List.getElem?_range h]
    have : i < defaults.length := by omega
    simp [List.getD, List.getElem?_eq_getElem this]
  · have h' : names.length ≤ i := by omega
    rw [List.getElem?_eq_none (by simpa using h'), List.getElem?_eq_none (by omega)]
    rfl

theorem init_eq (cls : Nat) (names : List String) (defaults args : List Val) (kwargs : List (String × Val))
    (hd : defaults.length = names.length) (ha : args.length ≤ names.length) :
    init cls names defaults args kwargs =
      kwargs.foldl (fun (x : Inst) (kv : String × Val) =>
          match indexOf names kv.1 with | some i => x.set i kv.2 | none => x)
        ((List.range args.length).foldl (fun (x : Inst) i => x.set i (args.getD i .void))
          (init cls names defaults [] [])) := by
  rw [fold_kw_inst, fold_set_inst (fun i => args.getD i .void), init_default cls names defaults hd]
  simp only [init, List.foldl_nil]
  congr 2
  apply List.ext_getElem?
  intro i
  rw [fold_set_get]
  simp only [List.getElem?_map]
  by_cases h : i < names.length
  · rw [List.getElem?_range h]
    by_cases h2 : i < args.length
    · rw [if_pos ⟨h2, by omega⟩]
      simp [List.getD, List.getElem?_eq_getElem h2]
    · rw [if_neg (by omega)]
      have : i < defaults.length := by omega
      have h2' : args.length ≤ i := by omega
      simp [List.getD, List.getElem?_eq_getElem this, List.getElem?_eq_none h2']
  · have h' : names.length ≤ i := by omega
    rw [List.getElem?_eq_none (l := List.range _) (by simpa using h'), if_neg (by omega),
      List.getElem?_eq_none (by omega)]
    rfl

end Cstruct.C17.Lemmas
