/-
  Helper lemmas for `Proofs/C17.lean` (structure instances): `veq` is reflexive and symmetric, field-wise equality,
  `setNth` is `List.set`, the positional part of `__init__`, and the locality of a field assignment in the bytes the
  structure writer emits (fragment S).
-/
import CstructModel.Instance
import Proofs.Core
import Proofs.C02
namespace Cstruct.C17.Lemmas
open Cstruct Cstruct.Instance Cstruct.Core Cstruct.Core.Lemmas

/-! ### `veq` -/

mutual
theorem veq_refl : ∀ x : Val, veq x x = true
  | .int _ => by simp [veq]
  | .flt _ => by simp [veq]
  | .bytes _ => by simp [veq]
  | .wstr _ => by simp [veq]
  | .enum _ => by simp [veq]
  | .ptr _ => by simp [veq]
  | .void => by simp [veq]
  | .list a => by simp only [veq]; exact vseq_refl a
  | .record a => by simp only [veq]; exact vseq_refl a
  | .union _ a => by simp only [veq]; exact vseq_refl a
theorem vseq_refl : ∀ x : Vals, vseq x x = true
  | .nil => by simp [vseq]
  | .cons a r => by simp only [vseq, veq_refl a, vseq_refl r, Bool.and_self]
end

mutual
theorem veq_symm : ∀ x y : Val, veq x y = veq y x
  | .list a, .list b => by simp only [veq]; exact vseq_symm a b
  | .record a, .record b => by simp only [veq]; exact vseq_symm a b
  | .union _ a, .union _ b => by simp only [veq]; exact vseq_symm a b
  | .int a, y => by cases y <;> simp only [veq] <;> exact BEq.comm
  | .flt a, y => by cases y <;> simp only [veq] <;> exact BEq.comm
  | .bytes a, y => by cases y <;> simp only [veq] <;> exact BEq.comm
  | .wstr a, y => by cases y <;> simp only [veq] <;> exact BEq.comm
  | .enum a, y => by cases y <;> simp only [veq] <;> exact BEq.comm
  | .ptr a, y => by cases y <;> simp only [veq] <;> exact BEq.comm
  | .void, y => by cases y <;> simp only [veq]
  | .list a, .int _ => by simp only [veq]
  | .list a, .flt _ => by simp only [veq]
  | .list a, .bytes _ => by simp only [veq]
  | .list a, .wstr _ => by simp only [veq]
  | .list a, .enum _ => by simp only [veq]
  | .list a, .ptr _ => by simp only [veq]
  | .list a, .void => by simp only [veq]
  | .list a, .record _ => by simp only [veq]
  | .list a, .union _ _ => by simp only [veq]
  | .record a, .int _ => by simp only [veq]
  | .record a, .flt _ => by simp only [veq]
  | .record a, .bytes _ => by simp only [veq]
  | .record a, .wstr _ => by simp only [veq]
  | .record a, .enum _ => by simp only [veq]
  | .record a, .ptr _ => by simp only [veq]
  | .record a, .void => by simp only [veq]
  | .record a, .list _ => by simp only [veq]
  | .record a, .union _ _ => by simp only [veq]
  | .union _ a, .int _ => by simp only [veq]
  | .union _ a, .flt _ => by simp only [veq]
  | .union _ a, .bytes _ => by simp only [veq]
  | .union _ a, .wstr _ => by simp only [veq]
  | .union _ a, .enum _ => by simp only [veq]
  | .union _ a, .ptr _ => by simp only [veq]
  | .union _ a, .void => by simp only [veq]
  | .union _ a, .list _ => by simp only [veq]
  | .union _ a, .record _ => by simp only [veq]
theorem vseq_symm : ∀ x y : Vals, vseq x y = vseq y x
  | .nil, .nil => rfl
  | .nil, .cons _ _ => by simp only [vseq]
  | .cons _ _, .nil => by simp only [vseq]
  | .cons a r, .cons b s => by simp only [vseq, veq_symm a b, vseq_symm r s]
end

/-! ### instance equality -/

theorem zip_all_iff : ∀ (l1 l2 : List Val) (hlen : l1.length = l2.length),
    ((l1.zip l2).all (fun (x, y) => veq x y) = true) ↔
      ∀ i (h : i < l1.length), veq l1[i] (l2[i]'(hlen ▸ h)) = true
  | [], [], _ => by simp
  | [], _ :: _, h => by simp at h
  | _ :: _, [], h => by simp at h
  | a :: r, b :: s, h => by
    have ih := zip_all_iff r s (by simpa using h)
    simp only [List.zip_cons_cons, List.all_cons, Bool.and_eq_true, ih, List.length_cons]
    constructor
    · rintro ⟨h0, h1⟩ i hi
      cases i with
      | zero => exact h0
      | succ i => exact h1 i (by omega)
    · intro hh
      exact ⟨hh 0 (by omega), fun i hi => hh (i + 1) (by omega)⟩

theorem zip_all_refl : ∀ l : List Val, (l.zip l).all (fun (x, y) => veq x y) = true
  | [] => rfl
  | a :: r => by simp only [List.zip_cons_cons, List.all_cons, veq_refl a, zip_all_refl r, Bool.and_self]

theorem zip_all_symm : ∀ l1 l2 : List Val,
    (l1.zip l2).all (fun (x, y) => veq x y) = (l2.zip l1).all (fun (x, y) => veq x y)
  | [], [] => rfl
  | [], _ :: _ => rfl
  | _ :: _, [] => rfl
  | a :: r, b :: s => by
    simp only [List.zip_cons_cons, List.all_cons, veq_symm a b, zip_all_symm r s]

theorem eq_iff (a b : Inst) (hlen : a.vals.length = b.vals.length) :
    a.eq b = true ↔ a.cls = b.cls ∧ ∀ i (h : i < a.vals.length), veq a.vals[i] (b.vals[i]'(hlen ▸ h)) = true := by
  unfold Inst.eq
  simp only [Bool.and_eq_true, beq_iff_eq, zip_all_iff a.vals b.vals hlen]
  constructor
  · rintro ⟨⟨h1, _⟩, h3⟩; exact ⟨h1, h3⟩
  · rintro ⟨h1, h3⟩; exact ⟨⟨h1, hlen⟩, h3⟩

theorem eq_refl (a : Inst) : a.eq a = true := by
  unfold Inst.eq
  simp only [beq_self_eq_true, zip_all_refl, Bool.and_self]

theorem eq_symm (a b : Inst) : a.eq b = b.eq a := by
  unfold Inst.eq
  rw [zip_all_symm a.vals b.vals, BEq.comm (a := a.cls), BEq.comm (a := a.vals.length)]

theorem bool_iff (a : Inst) : a.bool = false ↔ ∀ v ∈ a.vals, v.truthy = false := by
  unfold Inst.bool
  simp only [List.any_eq_false, Bool.not_eq_true]

/-! ### `__init__` -/

theorem setNth_eq_set : ∀ (l : List Val) (k : Nat) (v : Val), setNth l k v = l.set k v
  | [], _, _ => rfl
  | _ :: _, 0, _ => rfl
  | a :: r, k + 1, v => by simp only [setNth, List.set_cons_succ, setNth_eq_set r k v]

theorem fold_set_inst (f : Nat → Val) : ∀ (l : List Nat) (x : Inst),
    l.foldl (fun (x : Inst) i => x.set i (f i)) x =
      { cls := x.cls, names := x.names, vals := l.foldl (fun vs i => setNth vs i (f i)) x.vals }
  | [], x => rfl
  | i :: l, x => by
    simp only [List.foldl_cons]
    rw [fold_set_inst f l]
    rfl

theorem fold_kw_inst (names : List String) : ∀ (kw : List (String × Val)) (x : Inst),
    kw.foldl (fun (x : Inst) (kv : String × Val) =>
        match indexOf names kv.1 with | some i => x.set i kv.2 | none => x) x =
      { cls := x.cls, names := x.names,
        vals := kw.foldl (fun vs (k, v) => match indexOf names k with | some i => setNth vs i v | none => vs) x.vals }
  | [], x => rfl
  | (k, v) :: kw, x => by
    simp only [List.foldl_cons]
    rw [fold_kw_inst names kw]
    cases indexOf names k <;> rfl

theorem fold_set_length (f : Nat → Val) (d : List Val) : ∀ m,
    ((List.range m).foldl (fun vs i => setNth vs i (f i)) d).length = d.length := by
  intro m
  induction m with
  | zero => rfl
  | succ m ih =>
    rw [List.range_succ, List.foldl_append]
    simp only [List.foldl_cons, List.foldl_nil, setNth_eq_set, List.length_set]
    simpa only [setNth_eq_set] using ih

theorem fold_set_get (f : Nat → Val) (d : List Val) : ∀ m i,
    ((List.range m).foldl (fun vs i => setNth vs i (f i)) d)[i]? =
      if i < m ∧ i < d.length then some (f i) else d[i]? := by
  intro m
  induction m with
  | zero => intro i; simp
  | succ m ih =>
    intro i
    have hl := fold_set_length f d m
    rw [List.range_succ, List.foldl_append]
    simp only [List.foldl_cons, List.foldl_nil]
    rw [setNth_eq_set, List.getElem?_set, hl, ih]
    by_cases h1 : m = i
    · subst h1
      by_cases h2 : m < d.length
      · simp [h2]
      · have h2' : d.length ≤ m := by omega
        simp [h2]
    · rw [if_neg h1]
      by_cases h3 : i < d.length
      · by_cases h4 : i < m
        · rw [if_pos ⟨h4, h3⟩, if_pos ⟨by omega, h3⟩]
        · rw [if_neg (by omega), if_neg (by omega)]
      · rw [if_neg (by omega), if_neg (by omega)]

theorem init_default (cls : Nat) (names : List String) (defaults : List Val) (hd : defaults.length = names.length) :
    (init cls names defaults [] []).vals = defaults := by
  simp only [init, List.foldl_nil]
  apply List.ext_getElem?
  intro i
  simp only [List.getElem?_map, List.getElem?_nil, Option.getD_none]
  by_cases h : i < names.length
  · rw [List.getElem?_range h]
    have : i < defaults.length := by omega
    simp [List.getD, List.getElem?_eq_getElem this]
  · have h' : names.length ≤ i := by omega
    rw [List.getElem?_eq_none (by simpa using h'), List.getElem?_eq_none (by omega)]
    rfl

theorem init_eq (cls : Nat) (names : List String) (defaults args : List Val) (kwargs : List (String × Val))
    (hd : defaults.length = names.length) (_ha : args.length ≤ names.length) :
    init cls names defaults args kwargs =
      kwargs.foldl (fun (x : Inst) (kv : String × Val) =>
          match indexOf names kv.1 with | some i => x.set i kv.2 | none => x)
        ((List.range args.length).foldl (fun (x : Inst) i => x.set i (args.getD i .void))
          (init cls names defaults [] [])) := by
  rw [fold_kw_inst, fold_set_inst (fun i => args.getD i .void), init_default cls names defaults hd]
  simp only [init, List.foldl_nil]
  congr 2
  apply List.ext_getElem?
  intro i
  rw [fold_set_get]
  simp only [List.getElem?_map]
  by_cases h : i < names.length
  · rw [List.getElem?_range h]
    by_cases h2 : i < args.length
    · rw [if_pos ⟨h2, by omega⟩]
      simp [List.getD, List.getElem?_eq_getElem h2]
    · rw [if_neg (by omega)]
      have : i < defaults.length := by omega
      have h2' : args.length ≤ i := by omega
      simp [List.getD, List.getElem?_eq_getElem this, List.getElem?_eq_none h2']
  · have h' : names.length ≤ i := by omega
    rw [List.getElem?_eq_none (l := List.range _) (by simpa using h'), if_neg (by omega),
      List.getElem?_eq_none (by omega)]
    rfl

/-! ### Assigning a field: the dumped bytes change only inside the field's extent

  `nTy` / `setV` are the same functions as `nthTy` / `setNthV` of `Proofs/C17.lean`, which this file cannot see. -/

def nTy : Fields → Nat → Option Ty
  | .nil, _ => none
  | .cons _ _ t _ _, 0 => some t
  | .cons _ _ _ _ r, k + 1 => nTy r k

def setV : Vals → Nat → Val → Vals
  | .nil, _, _ => .nil
  | .cons _ r, 0, v => .cons v r
  | .cons a r, k + 1, v => .cons a (setV r k v)

/-- any function satisfying the defining equations of `nTy` is `nTy` -/
theorem nTy_unique (f : Fields → Nat → Option Ty) (h0 : ∀ k, f .nil k = none)
    (h1 : ∀ n a t b r, f (.cons n a t b r) 0 = some t)
    (h2 : ∀ n a t b r k, f (.cons n a t b r) (k + 1) = f r k) : ∀ (fs : Fields) (k : Nat), f fs k = nTy fs k
  | .nil, k => by rw [h0]; rfl
  | .cons n a t b r, 0 => by rw [h1]; rfl
  | .cons n a t b r, k + 1 => by rw [h2, nTy_unique f h0 h1 h2 r k]; rfl

theorem setV_unique (f : Vals → Nat → Val → Vals) (h0 : ∀ k v, f .nil k v = .nil)
    (h1 : ∀ a r v, f (.cons a r) 0 v = .cons v r)
    (h2 : ∀ a r k v, f (.cons a r) (k + 1) v = .cons a (f r k v)) : ∀ (vs : Vals) (k : Nat) (v : Val),
    f vs k v = setV vs k v
  | .nil, k, v => by rw [h0]; rfl
  | .cons a r, 0, v => by rw [h1]; rfl
  | .cons a r, k + 1, v => by rw [h2, setV_unique f h0 h1 h2 r k v]; rfl

/-- the field loop: both outputs exist, have the same length, and agree outside the assigned member's extent
    (`i` is relative to the loop's start offset `o`) -/
theorem assign_fields (cfg : Cfg) (al : Bool) : ∀ (fs : Fields), Fields.fragS cfg fs = true →
    Fields.uniformAlign al fs = true → fs.pow2Aligned cfg → ∀ vs, HasTys cfg vs fs →
    ∀ (k : Nat) (t : Ty), nTy fs k = some t → ∀ v, HasTy cfg v t → ∀ (start o : Nat),
    (al = true → allAlignDvd cfg start fs) → ∀ (off n : Nat), (offsS cfg al fs o)[k]? = some (some off) →
    t.size cfg = some n →
    ∃ out1 out2,
      writeFields cfg al fs (offsS cfg al fs o) vs start BitBuf.empty (start + o) = .ok (out1, BitBuf.empty) ∧
      writeFields cfg al fs (offsS cfg al fs o) (setV vs k v) start BitBuf.empty (start + o) = .ok (out2, BitBuf.empty) ∧
      o + out1.length = endOff cfg al fs o ∧ o + out2.length = endOff cfg al fs o ∧ o ≤ off ∧
      ∀ i, (o + i < off ∨ off + n ≤ o + i) → out1[i]? = out2[i]?
  | .nil, _, _, _, _, _, k, t, ht, _, _, _, _, _, _, _, _, _ => by simp [nTy] at ht
  | .cons name an ty bits rest, hS, hU, hP, vs, hvs, k, t, ht, v, hv, start, o, hdv, off, n, hoff, hn => by
    simp only [Fields.fragS, Bool.and_eq_true, Option.isNone_iff_eq_none] at hS
    obtain ⟨⟨rfl, hS1⟩, hS2⟩ := hS
    simp only [Fields.uniformAlign, Bool.and_eq_true] at hU
    simp only [Fields.pow2Aligned] at hP
    cases hvs with
    | @cons v0 vs' _ _ _ _ hv0 hvs' =>
      have hfa := alignment_p2 cfg ty hP.1
      have hle := le_alignTo al o (ty.alignment cfg)
      have hpos : al = true → sAlign cfg ty ∣ start + alignTo al o (ty.alignment cfg) := by
        intro ha; subst ha
        have h1 := (hdv rfl).1
        exact Nat.dvd_trans (sAlign_dvd_alignment cfg ty) (Nat.dvd_add h1 (alignTo_dvd hfa o))
      obtain ⟨bs, sz, w, s, l, _⟩ := wr_ty cfg al ty hS1 hU.1 hP.1 v0 hv0 _ hpos
      simp only [offsS, s, Option.getD_some] at hoff ⊢
      simp only [endOff, s, Option.getD_some]
      generalize hfo : alignTo al o (ty.alignment cfg) = fo at *
      have hpad : (if start + o < start + fo then start + fo - (start + o) else 0) = fo - o := by
        split <;> omega
      have e1 : start + o + (fo - o) = start + fo := by omega
      cases k with
      | zero =>
        simp only [nTy, Option.some.injEq] at ht
        subst ht
        simp only [List.getElem?_cons_zero, Option.some.injEq] at hoff
        subst hoff
        obtain rfl : sz = n := by rw [s] at hn; exact Option.some.inj hn
        obtain ⟨bs', sz', w2, s2, l2, _⟩ := wr_ty cfg al ty hS1 hU.1 hP.1 v hv _ hpos
        rw [s] at s2; cases s2
        obtain ⟨out', w', l', _⟩ := wr_fields cfg al rest hS2 hU.2 hP.2 vs' hvs' start (fo + sz) (fun ha => (hdv ha).2)
        have e2 : ∀ b : Bytes, b.length = sz → start + o + (zeros (fo - o) ++ b).length = start + (fo + sz) := by
          intro b hb
          simp only [List.length_append, zeros, List.length_replicate, hb]; omega
        refine ⟨zeros (fo - o) ++ bs ++ out', zeros (fo - o) ++ bs' ++ out', ?_, ?_, ?_, ?_, hle, ?_⟩
        · rw [writeFields_cons_S, hpad, e1, w]
          simp only [Except.bind]
          rw [e2 bs l, w']
        · simp only [setV]
          rw [writeFields_cons_S, hpad, e1, w2]
          simp only [Except.bind]
          rw [e2 bs' l2, w']
        · simp only [List.length_append, zeros, List.length_replicate, l]; omega
        · simp only [List.length_append, zeros, List.length_replicate, l2]; omega
        · intro i hi
          have hz : (zeros (fo - o)).length = fo - o := by simp [zeros]
          rcases hi with hi | hi
          · rw [List.append_assoc, List.append_assoc, List.getElem?_append_left (by omega),
              List.getElem?_append_left (by omega)]
          · rw [List.getElem?_append_right (by simp only [List.length_append, hz, l]; omega),
              List.getElem?_append_right (by simp only [List.length_append, hz, l2]; omega)]
            simp only [List.length_append, hz, l, l2]
      | succ k =>
        simp only [nTy] at ht
        simp only [List.getElem?_cons_succ] at hoff
        obtain ⟨o1, o2, w1, w2, l1, l2, hle', hag⟩ := assign_fields cfg al rest hS2 hU.2 hP.2 vs' hvs' k t ht v hv start
          (fo + sz) (fun ha => (hdv ha).2) off n hoff hn
        have e2 : start + o + (zeros (fo - o) ++ bs).length = start + (fo + sz) := by
          simp only [List.length_append, zeros, List.length_replicate, l]; omega
        refine ⟨zeros (fo - o) ++ bs ++ o1, zeros (fo - o) ++ bs ++ o2, ?_, ?_, ?_, ?_, by omega, ?_⟩
        · rw [writeFields_cons_S, hpad, e1, w]
          simp only [Except.bind]
          rw [e2, w1]
        · simp only [setV]
          rw [writeFields_cons_S, hpad, e1, w]
          simp only [Except.bind]
          rw [e2, w2]
        · simp only [List.length_append, zeros, List.length_replicate, l]; omega
        · simp only [List.length_append, zeros, List.length_replicate, l]; omega
        · intro i hi
          have hz : (zeros (fo - o) ++ bs).length = fo - o + sz := by
            simp only [List.length_append, zeros, List.length_replicate, l]
          by_cases hlt : i < fo - o + sz
          · rw [List.getElem?_append_left (l₂ := o1) (by omega), List.getElem?_append_left (l₂ := o2) (by omega)]
          · rw [List.getElem?_append_right (l₂ := o1) (by omega), List.getElem?_append_right (l₂ := o2) (by omega), hz]
            apply hag
            omega

theorem hasTys_setV (cfg : Cfg) : ∀ (fs : Fields) (vs : Vals), HasTys cfg vs fs → ∀ (k : Nat) (t : Ty),
    nTy fs k = some t → ∀ v, HasTy cfg v t → HasTys cfg (setV vs k v) fs
  | .nil, _, _, k, t, ht, _, _ => by simp [nTy] at ht
  | .cons _ _ ty _ rest, _, .cons hv0 hvs', 0, t, ht, v, hv => by
    simp only [nTy, Option.some.injEq] at ht
    subst ht
    exact .cons hv hvs'
  | .cons _ _ ty _ rest, _, .cons hv0 hvs', k + 1, t, ht, v, hv => by
    simp only [nTy] at ht
    exact .cons hv0 (hasTys_setV cfg rest _ hvs' k t ht v hv)

/-- `c17_assign_local` with this file's copies of the member lookup / update -/
theorem assign_local (cfg : Cfg) (al : Bool) (fs : Fields) (hS : (Ty.struct al fs).fragS cfg = true)
    (hu : (Ty.struct al fs).uniformAlign al = true) (hp : (Ty.struct al fs).pow2Aligned cfg)
    (vs : Vals) (hv : HasTy cfg (.record vs) (.struct al fs)) (k : Nat) (t : Ty) (ht : nTy fs k = some t) (v : Val)
    (hvk : HasTy cfg v t) (off n : Nat) (offs : List (Option Nat)) (sz : Option Nat) (a : Nat)
    (hl : structLayout cfg al fs = .ok (sz, a, offs)) (hoff : offs[k]? = some (some off)) (hn : t.size cfg = some n) :
    ∃ b1 b2, dumps cfg (.struct al fs) (.record vs) = .ok b1 ∧
      dumps cfg (.struct al fs) (.record (setV vs k v)) = .ok b2 ∧
      b1.length = b2.length ∧ ∀ i, (i < off ∨ off + n ≤ i) → b1[i]? = b2[i]? := by
  simp only [Ty.fragS] at hS
  simp only [Ty.uniformAlign, Bool.and_eq_true, beq_iff_eq] at hu
  simp only [Ty.pow2Aligned] at hp
  cases hv with
  | @struct _ _ _ hvs =>
    rw [structLayout_S cfg al fs hS] at hl
    cases hl
    have hdv : al = true → allAlignDvd cfg 0 fs :=
      fun _ => allAlignDvd_of_sAlign cfg al fs hp 0 (Nat.dvd_zero _)
    obtain ⟨o1, o2, w1, w2, l1, l2, _, hag⟩ := assign_fields cfg al fs hS hu.2 hp vs hvs k t ht v hvk 0 0 hdv off n hoff hn
    simp only [Nat.add_zero, Nat.zero_add] at w1 w2 l1 l2 hag
    generalize hM : Fields.maxAlign cfg fs 0 = M at *
    generalize hE : endOff cfg al fs 0 = E at *
    refine ⟨if al then o1 ++ zeros (padNat (0 + o1.length) M) else o1,
      if al then o2 ++ zeros (padNat (0 + o2.length) M) else o2, ?_, ?_, ?_, ?_⟩
    · unfold dumps
      rw [write_struct, structLayout_S cfg al fs hS]
      simp only [Except.bind, w1, flushBits_empty, List.append_nil, hM]
    · unfold dumps
      rw [write_struct, structLayout_S cfg al fs hS]
      simp only [Except.bind, w2, flushBits_empty, List.append_nil, hM]
    · cases al <;> simp [l1, l2]
    · intro i hi
      cases al with
      | false => simpa using hag i hi
      | true =>
        simp only [if_true, l1, l2]
        by_cases hlt : i < E
        · rw [List.getElem?_append_left (l₂ := zeros _) (by omega), List.getElem?_append_left (l₂ := zeros _) (by omega)]
          exact hag i hi
        · rw [List.getElem?_append_right (l₂ := zeros _) (by omega), List.getElem?_append_right (l₂ := zeros _) (by omega), l1, l2]

end Cstruct.C17.Lemmas
