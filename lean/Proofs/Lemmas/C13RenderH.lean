/-
  C13, round trip — helper lemmas (8): the loop of `parse` on the observed tokens of a rendered declaration list.
-/
import Proofs.Lemmas.C13RenderG

namespace Cstruct.DefParser.C13
open Cstruct.DefParser

theorem oD_head (d : Decl) (h : wfDecl d = true) : ∃ x r, oD d = x :: r ∧ notEolHead (x :: r) = true := by
  cases d with
  | lookup a b => simp [wfDecl] at h
  | config vs => exact ⟨_, _, rfl, rfl⟩
  | const n v => exact ⟨_, _, rfl, rfl⟩
  | enum fl n b ms => exact ⟨_, _, rfl, rfl⟩
  | typedef t ds => exact ⟨_, _, rfl, rfl⟩
  | aggr a => obtain ⟨u, tag, fs, ns⟩ := a; exact ⟨_, _, rfl, rfl⟩

theorem notEolHead_flatMap (ds : List Decl) (h : wfDecls ds = true) : notEolHead (ds.flatMap oD) = true := by
  cases ds with
  | nil => rfl
  | cons d r =>
    simp only [wfDecls, List.all_cons, Bool.and_eq_true] at h
    obtain ⟨x, rr, e, hx⟩ := oD_head d h.1
    simp only [List.flatMap_cons, e, List.cons_append]
    cases x <;> simp_all [notEolHead]

theorem declsH_oDs : ∀ (ds : List Decl), wfDecls ds = true → ∀ (fuel : Nat), (ds.flatMap oD).length < fuel →
    declsH fuel (ds.flatMap oD) = (ds, none)
  | [], _, fuel, hf => by
    obtain ⟨g, rfl⟩ : ∃ g, fuel = g + 1 := ⟨fuel - 1, by simp at hf; omega⟩
    simp [declsH]
  | d :: r, h, fuel, hf => by
    have hr : wfDecls r = true := by simp only [wfDecls, List.all_cons, Bool.and_eq_true] at h; simpa [wfDecls] using h.2
    have hd : wfDecl d = true := by simp only [wfDecls, List.all_cons, Bool.and_eq_true] at h; exact h.1
    obtain ⟨x, rr, e, -⟩ := oD_head d hd
    have hstep := declH_oD d hd (r.flatMap oD) (notEolHead_flatMap r hr)
    obtain ⟨g, rfl⟩ : ∃ g, fuel = g + 1 := ⟨fuel - 1, by omega⟩
    have ih := declsH_oDs r hr g (by
      simp only [List.flatMap_cons, List.length_append, e, List.length_cons] at hf; omega)
    simp only [List.flatMap_cons] at hstep ⊢
    rw [e] at hstep ⊢
    simp only [List.cons_append] at hstep ⊢
    simp only [declsH, hstep, ih]

end Cstruct.DefParser.C13
