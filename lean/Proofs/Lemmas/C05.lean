/-
  Helper lemmas for C05 (scalar codecs, LEB128, type/endianness tables).
-/
import CstructModel.Codec
import CstructModel.Leb
import CstructModel.Resolve
import CstructModel.Gen.Endian
import CstructModel.Expr
namespace Cstruct.C05.Lemmas
open Cstruct

/-! ### Tables -/

def pow2 (n : Nat) : Bool := n ≠ 0 && n &&& (n - 1) = 0

def entryOk (e : Gen.TypeEntry) : Bool :=
  match e with
  | .type _ k sz al =>
    decide (sz = k.size) &&
      ((decide (al = none) && decide (sz = none)) || (decide (al = some 0) && decide (k = .void)) ||
        (match al with | some a => pow2 a | none => false))
  | .alias t => (resolveAux Gen.typeTable 2 t).isOk

theorem entryOk_all : ∀ p ∈ Gen.typeTable, entryOk p.2 = true := by decide +kernel

theorem entryOk_spec (e : Gen.TypeEntry) : entryOk e = true →
    match e with
    | .type _ k sz al => sz = k.size ∧ (al = none ∧ sz = none ∨ al = some 0 ∧ k = .void ∨ ∃ a, al = some a ∧ pow2 a = true)
    | .alias t => (resolveAux Gen.typeTable 2 t).isOk = true := by
  cases e with
  | alias t => exact id
  | type n k sz al =>
    intro h
    simp only [entryOk, Bool.and_eq_true, Bool.or_eq_true, decide_eq_true_eq] at h
    refine ⟨h.1, ?_⟩
    rcases h.2 with (h | h) | h
    · exact Or.inl h
    · exact Or.inr (Or.inl h)
    · cases al with
      | none => simp at h
      | some a => exact Or.inr (Or.inr ⟨a, rfl, h⟩)

theorem type_table_entries : ∀ p ∈ Gen.typeTable, match p.2 with
      | .type _ k sz al => sz = k.size ∧ (al = none ∧ sz = none ∨ al = some 0 ∧ k = .void ∨ ∃ a, al = some a ∧ pow2 a = true)
      | .alias t => (resolveAux Gen.typeTable 2 t).isOk = true :=
  fun p hp => entryOk_spec p.2 (entryOk_all p hp)

def resolvesTo (p : String × Scalar) : Bool :=
  match resolve Gen.typeTable p.1 with
  | .ok (_, k, _, _) => decide (k = p.2)
  | .error _ => false

theorem resolvesTo_spec (p : String × Scalar) (h : resolvesTo p = true) :
    ∃ n sz al, resolve Gen.typeTable p.1 = .ok (n, p.2, sz, al) := by
  unfold resolvesTo at h
  split at h
  · rename_i n k sz al heq
    simp only [decide_eq_true_eq] at h
    subst h
    exact ⟨n, sz, al, heq⟩
  · cases h

def expectedNames : List (String × Scalar) :=
  [("int8", Scalar.pint 1 true), ("uint8", .pint 1 false), ("int16", .pint 2 true),
        ("uint16", .pint 2 false), ("int32", .pint 4 true), ("uint32", .pint 4 false), ("int64", .pint 8 true),
        ("uint64", .pint 8 false), ("int24", .aint 3 true), ("uint24", .aint 3 false), ("int48", .aint 6 true),
        ("uint48", .aint 6 false), ("int128", .aint 16 true), ("uint128", .aint 16 false), ("float16", .pflt 2),
        ("float", .pflt 4), ("double", .pflt 8), ("char", .char), ("wchar", .wchar), ("uleb128", .leb false),
        ("ileb128", .leb true), ("void", .void), ("short", .pint 2 true), ("unsigned short", .pint 2 false),
        ("int", .pint 4 true), ("unsigned int", .pint 4 false), ("long long", .pint 8 true),
        ("unsigned long long", .pint 8 false), ("BYTE", .pint 1 false), ("WORD", .pint 2 false),
        ("DWORD", .pint 4 false), ("QWORD", .pint 8 false), ("uint32_t", .pint 4 false), ("int64_t", .pint 8 true),
        ("wchar_t", .wchar), ("signed char", .pint 1 true), ("unsigned char", .char)]

theorem expected_all : ∀ p ∈ expectedNames, resolvesTo p = true := by decide +kernel

theorem type_table_names (name : String) (k : Scalar) (h : (name, k) ∈ expectedNames) :
    ∃ n sz al, resolve Gen.typeTable name = .ok (n, k, sz, al) :=
  resolvesTo_spec (name, k) (expected_all _ h)

theorem endian_tables :
    Expr.lookup "<" Gen.endiannessMap = some (some .little) ∧ Expr.lookup ">" Gen.endiannessMap = some (some .big) ∧
    Expr.lookup "!" Gen.endiannessMap = some (some .big) ∧
    (∀ c ∈ ["<", ">", "!"], Expr.lookup c Gen.wcharEncodingMap = Expr.lookup c Gen.endiannessMap) := by
  decide +kernel

/-! ### Fixed-width codecs -/

theorem pow8 (n : Nat) : 2 ^ (8 * n) = 256 ^ n := by
  rw [Nat.pow_mul]

theorem toLE_length (n v : Nat) : (toLE n v).length = n := by
  induction n generalizing v with
  | zero => rfl
  | succ n ih => simp [toLE, ih]

theorem u8_toNat_ofNat_mod (v : Nat) : (UInt8.ofNat (v % 256)).toNat = v % 256 := by
  simp [UInt8.toNat_ofNat']

theorem fromLE_toLE (n v : Nat) (h : v < 256 ^ n) : fromLE (toLE n v) = v := by
  induction n generalizing v with
  | zero => simp at h; simp [toLE, fromLE, h]
  | succ n ih =>
    simp only [toLE, fromLE]
    have h1 : v / 256 < 256 ^ n := by
      rw [Nat.div_lt_iff_lt_mul (by decide)]; rw [Nat.pow_succ] at h; exact h
    rw [ih _ h1, u8_toNat_ofNat_mod]; omega

theorem fromLE_lt (bs : Bytes) : fromLE bs < 256 ^ bs.length := by
  induction bs with
  | nil => simp [fromLE]
  | cons b r ih =>
    simp only [fromLE, List.length_cons, Nat.pow_succ]
    have := b.toNat_lt
    omega

theorem toLE_fromLE (bs : Bytes) : toLE bs.length (fromLE bs) = bs := by
  induction bs with
  | nil => rfl
  | cons b r ih =>
    simp only [fromLE, List.length_cons, toLE]
    have hb := b.toNat_lt
    have h1 : (b.toNat + 256 * fromLE r) % 256 = b.toNat := by omega
    have h2 : (b.toNat + 256 * fromLE r) / 256 = fromLE r := by omega
    rw [h1, h2, ih]
    simp

theorem fromLE_concat (bs : Bytes) (m : UInt8) :
    fromLE (bs ++ [m]) = fromLE bs + 256 ^ bs.length * m.toNat := by
  induction bs with
  | nil => simp [fromLE]
  | cons b r ih =>
    simp only [List.cons_append, fromLE, ih, List.length_cons, Nat.pow_succ]
    rw [Nat.mul_add, Nat.add_assoc]
    congr 2
    rw [Nat.mul_comm (256 ^ r.length) 256, Nat.mul_assoc]

def tcLE (bs : Bytes) : Int :=
  match bs.getLast? with
  | some msb => if msb.toNat ≥ 128 then (fromLE bs : Int) - (2 ^ (8 * bs.length) : Nat) else (fromLE bs : Int)
  | none => 0

theorem decode_unsigned (bs : Bytes) : decodeInt .little false bs = (fromLE bs : Int) := by
  simp [decodeInt, decodeNat]

theorem decode_signed (bs : Bytes) : decodeInt .little true bs = tcLE bs := by
  rcases List.eq_nil_or_concat bs with rfl | ⟨L, m, rfl⟩
  · simp [decodeInt, decodeNat, tcLE, fromLE]
  · rw [List.concat_eq_append]
    have hlast : (L ++ [m]).getLast? = some m := by simp
    simp only [tcLE, hlast, decodeInt, decodeNat, true_and]
    have hL := fromLE_lt L
    have hm := m.toNat_lt
    have hlen : (L ++ [m]).length = L.length + 1 := by simp
    rw [fromLE_concat, hlen, pow8, Nat.pow_succ]
    generalize 256 ^ L.length = P at *
    generalize fromLE L = x at *
    by_cases h : m.toNat ≥ 128
    · have h2 : P * 256 ≤ 2 * (x + P * m.toNat) := by
        have : P * 128 ≤ P * m.toNat := Nat.mul_le_mul_left _ h
        omega
      rw [if_pos h2, if_pos h]
    · have h2 : ¬ P * 256 ≤ 2 * (x + P * m.toNat) := by
        have : P * m.toNat ≤ P * 127 := Nat.mul_le_mul_left _ (by omega)
        omega
      rw [if_neg h2, if_neg h]

theorem decode_big (s : Bool) (bs : Bytes) : decodeInt .big s bs = decodeInt .little s bs.reverse := by
  unfold decodeInt decodeNat
  simp only [List.length_reverse]

theorem decodeNat_lt (e : Endian) (bs : Bytes) : decodeNat e bs < 2 ^ (8 * bs.length) := by
  rw [pow8]
  cases e with
  | little => exact fromLE_lt bs
  | big => have := fromLE_lt bs.reverse; simpa [decodeNat] using this

/-- the bytes `encodeInt` produces for the residue `u` -/
def encBytes (e : Endian) (n u : Nat) : Bytes :=
  match e with | .little => toLE n u | .big => (toLE n u).reverse

theorem encBytes_length (e : Endian) (n u : Nat) : (encBytes e n u).length = n := by
  cases e <;> simp [encBytes, toLE_length]

theorem decodeNat_encBytes (e : Endian) (n u : Nat) (h : u < 2 ^ (8 * n)) : decodeNat e (encBytes e n u) = u := by
  rw [pow8] at h
  cases e <;> simp [encBytes, decodeNat, fromLE_toLE n u h]

theorem encBytes_decodeNat (e : Endian) (bs : Bytes) : encBytes e bs.length (decodeNat e bs) = bs := by
  cases e with
  | little => exact toLE_fromLE bs
  | big =>
    have := toLE_fromLE bs.reverse
    simp only [List.length_reverse] at this
    simp [encBytes, decodeNat, this]

theorem encodeInt_eq (e : Endian) (n : Nat) (s : Bool) (v : Int) (h : fits n s v = true) :
    encodeInt e n s v = some (encBytes e n (v % ((2 ^ (8 * n) : Nat) : Int)).toNat) := by
  unfold encodeInt encBytes
  rw [if_pos h]
  rfl

theorem emod_neg_range (v N : Int) (h1 : -N ≤ v) (h2 : v < 0) : v % N = v + N := by
  rw [← Int.add_emod_right, Int.emod_eq_of_lt (by omega) (by omega)]

theorem int_roundtrip (e : Endian) (n : Nat) (s : Bool) (v : Int) (h : fits n s v = true) :
    ∃ bs, encodeInt e n s v = some bs ∧ bs.length = n ∧ decodeInt e s bs = v := by
  refine ⟨_, encodeInt_eq e n s v h, encBytes_length _ _ _, ?_⟩
  have hNpos : 0 < 2 ^ (8 * n) := Nat.two_pow_pos _
  unfold decodeInt
  simp only [encBytes_length]
  unfold fits at h
  have hdec : ∀ u, u < 2 ^ (8 * n) → decodeNat e (encBytes e n u) = u := decodeNat_encBytes e n
  generalize 2 ^ (8 * n) = N at *
  cases s with
  | false =>
    simp only [Bool.false_eq_true, if_false, decide_eq_true_eq] at h
    have hm : v % (N : Int) = v := Int.emod_eq_of_lt h.1 h.2
    rw [hm, hdec _ (by omega)]
    simp only [Bool.false_eq_true, false_and, if_false]
    omega
  | true =>
    simp only [if_true, decide_eq_true_eq] at h
    by_cases hv : 0 ≤ v
    · have hm : v % (N : Int) = v := Int.emod_eq_of_lt hv (by omega)
      rw [hm, hdec _ (by omega)]
      have : ¬ (N ≤ 2 * v.toNat) := by omega
      simp only [true_and, if_neg this]
      omega
    · have hm : v % (N : Int) = v + N := emod_neg_range v N (by omega) (by omega)
      rw [hm, hdec _ (by omega)]
      have : (N ≤ 2 * (v + (N : Int)).toNat) := by omega
      simp only [true_and, if_pos this]
      omega


theorem int_roundtrip_bytes (e : Endian) (s : Bool) (bs : Bytes) :
    fits bs.length s (decodeInt e s bs) = true ∧ encodeInt e bs.length s (decodeInt e s bs) = some bs := by
  have hlt := decodeNat_lt e bs
  have henc := encBytes_decodeNat e bs
  have key : fits bs.length s (decodeInt e s bs) = true ∧
      (decodeInt e s bs % ((2 ^ (8 * bs.length) : Nat) : Int)).toNat = decodeNat e bs := by
    unfold decodeInt fits
    generalize 2 ^ (8 * bs.length) = N at *
    generalize decodeNat e bs = u at *
    cases s with
    | false =>
      simp only [Bool.false_eq_true, false_and, if_false, decide_eq_true_eq]
      have hm : (u : Int) % (N : Int) = u := Int.emod_eq_of_lt (by omega) (by omega)
      rw [hm]
      omega
    | true =>
      simp only [true_and, if_true, decide_eq_true_eq]
      by_cases hc : N ≤ 2 * u
      · rw [if_pos hc]
        have hm : ((u : Int) - N) % (N : Int) = u := by
          rw [emod_neg_range _ _ (by omega) (by omega)]; omega
        rw [hm]
        omega
      · rw [if_neg hc]
        have hm : (u : Int) % (N : Int) = u := Int.emod_eq_of_lt (by omega) (by omega)
        rw [hm]
        omega
  refine ⟨key.1, ?_⟩
  rw [encodeInt_eq _ _ _ _ key.1, key.2, henc]

theorem int_reject (e : Endian) (n : Nat) (s : Bool) (v : Int) (h : fits n s v = false) :
    encodeInt e n s v = none := by
  unfold encodeInt
  rw [h]
  rfl

theorem fits_range (n : Nat) (v : Int) :
    (fits n false v = true ↔ 0 ≤ v ∧ v < 2 ^ (8 * n)) ∧
    (fits (n + 1) true v = true ↔ -(2 ^ (8 * n + 7) : Int) ≤ v ∧ v < 2 ^ (8 * n + 7)) := by
  unfold fits
  simp only [Bool.false_eq_true, if_false, if_true, decide_eq_true_eq, Int.natCast_pow, show ((2 : Nat) : Int) = 2 from rfl]
  have : (2 : Int) ^ (8 * (n + 1)) = 2 * 2 ^ (8 * n + 7) := by
    rw [show 8 * (n + 1) = (8 * n + 7) + 1 by omega, Int.pow_succ]; omega
  rw [this]
  generalize (2 : Int) ^ (8 * n + 7) = P
  refine ⟨trivial, ?_⟩
  constructor <;> intro h <;> omega

/-! ### Bit operations -/

theorem and80 : ∀ n, n < 256 → (n &&& 0x80 = 0 ↔ n < 128) := by decide +kernel
theorem and40 : ∀ n, n < 128 → (n &&& 0x40 = 0 ↔ n < 64) := by decide +kernel
theorem or80 : ∀ n, n < 128 → (0x80 ||| n = 128 + n) := by decide +kernel
theorem and7F (n : Nat) : n &&& 0x7F = n % 128 := Nat.and_two_pow_sub_one_eq_mod n 7

theorem ldiff_mask (k m : Nat) :
    Nat.bitwise (fun a b => a && !b) (2^k - 1) m = 2^k - 1 - m % 2^k := by
  apply Nat.eq_of_testBit_eq
  intro i
  rw [Nat.testBit_bitwise (by rfl)]
  have h1 : 2^k - 1 - m % 2^k = 2^k - (m % 2^k + 1) := by omega
  rw [h1, Nat.testBit_two_pow_sub_succ (Nat.mod_lt _ (Nat.two_pow_pos k)), Nat.testBit_two_pow_sub_one,
    Nat.testBit_mod_two_pow]
  by_cases h : i < k <;> simp [h]

theorem land_7F (x : Int) : land x 0x7F = x % 128 := by
  cases x with
  | ofNat m =>
    show ((m &&& 0x7F : Nat) : Int) = _
    rw [and7F]; rfl
  | negSucc m =>
    show ((Nat.bitwise (fun a b => a && !b) (2 ^ 7 - 1) m : Nat) : Int) = _
    rw [ldiff_mask]
    omega

theorem shr_7 (x : Int) : shr x 7 = x / 128 := rfl

theorem land_40_nat (k : Nat) : land (k : Int) 0x40 = ((k &&& 0x40 : Nat) : Int) := rfl

theorem lor_80_nat (k : Nat) : lor 0x80 (k : Int) = ((0x80 ||| k : Nat) : Int) := rfl

theorem lor_signext (u sh : Nat) (h : u < 2 ^ sh) :
    lor (u : Int) (shl (lnot 0) sh) = (u : Int) - ((2 ^ sh : Nat) : Int) := by
  have hpos : 0 < 2 ^ sh := Nat.two_pow_pos sh
  have h1 : shl (lnot 0) sh = Int.negSucc (2 ^ sh - 1) := by
    unfold shl lnot
    rw [Int.negSucc_eq]
    omega
  rw [h1]
  show Int.negSucc (Nat.bitwise (fun a b => a && !b) (2 ^ sh - 1) u) = _
  rw [ldiff_mask, Nat.mod_eq_of_lt h, Int.negSucc_eq]
  omega

/-! ### LEB128 -/

/-- the writer's stop condition in arithmetic form -/
def wstop (s : Bool) (d : Int) : Prop :=
  (s = true ∧ d / 128 = 0 ∧ d % 128 < 64) ∨ (d / 128 = -1 ∧ 64 ≤ d % 128) ∨ (s = false ∧ d / 128 = 0)

instance (s : Bool) (d : Int) : Decidable (wstop s d) := by unfold wstop; infer_instance

/-- one unfolding of the writer in arithmetic form -/
theorem lebWriteLoop_eq (s : Bool) (d : Int) :
    lebWriteLoop s d =
      if wstop s d then [UInt8.ofNat (d % 128).toNat]
      else UInt8.ofNat (128 + (d % 128).toNat) :: lebWriteLoop s (d / 128) := by
  rw [lebWriteLoop]
  simp only [land_7F, shr_7]
  have hk : d % 128 = ((d % 128).toNat : Int) := by omega
  have hlt : (d % 128).toNat < 128 := by omega
  have h40 : land (d % 128) 0x40 = 0 ↔ d % 128 < 64 := by
    rw [hk, land_40_nat]
    have := and40 _ hlt
    omega
  have h80 : (lor 0x80 (d % 128)).toNat = 128 + (d % 128).toNat := by
    rw [hk, lor_80_nat, or80 _ hlt]
    omega
  have hcond : ((s = true ∧ d / 128 = 0 ∧ land (d % 128) 0x40 = 0) ∨ (d / 128 = -1 ∧ land (d % 128) 0x40 ≠ 0) ∨
      (¬ s = true ∧ d / 128 = 0)) ↔ wstop s d := by
    unfold wstop
    rw [h40]
    cases s <;> simp <;> omega
  by_cases hs : wstop s d
  · rw [if_pos hs, if_pos (hcond.2 hs)]
  · rw [if_neg hs, if_neg (fun h => hs (hcond.1 h))]
    have h01 : ¬ (d = 0 ∨ d = -1) := by
      rintro (rfl | rfl)
      · apply hs; unfold wstop; cases s <;> simp
      · apply hs; unfold wstop; cases s <;> simp
    rw [dif_neg h01, h80]


theorem wr_induct (s : Bool) (P : Int → Prop) (stop : ∀ d, wstop s d → P d)
    (step : ∀ d, ¬ wstop s d → P (d / 128) → P d) : ∀ d, P d := by
  intro d
  generalize hn : d.natAbs = n
  induction n using Nat.strongRecOn generalizing d with
  | _ n ih =>
    by_cases hs : wstop s d
    · exact stop d hs
    · apply step d hs
      apply ih (d / 128).natAbs _ _ rfl
      have h01 : ¬ (d = 0 ∨ d = -1) := by
        rintro (rfl | rfl)
        · apply hs; unfold wstop; cases s <;> simp
        · apply hs; unfold wstop; cases s <;> simp
      omega

/-- the reader in recursive form: (unsigned value of the 7-bit groups, number of bytes consumed, last byte, rest) -/
def rd : Bytes → Option (Nat × Nat × UInt8 × Bytes)
  | [] => none
  | b :: r =>
    if b.toNat < 128 then some (b.toNat, 1, b, r)
    else match rd r with
      | some (u, n, l, r') => some (b.toNat - 128 + 128 * u, n + 1, l, r')
      | none => none

theorem or_shift (res sh x : Nat) (h : res < 2 ^ sh) : res ||| (x <<< sh) = res + 2 ^ sh * x := by
  rw [Nat.or_comm, ← Nat.shiftLeft_add_eq_or_of_lt h, Nat.shiftLeft_eq, Nat.mul_comm, Nat.add_comm]

theorem lebReadLoop_eq (bs : Bytes) : ∀ (res sh : Nat), res < 2 ^ sh →
    lebReadLoop bs res sh = (rd bs).map (fun p => (res + 2 ^ sh * p.1, sh + 7 * p.2.1, p.2.2.1, p.2.2.2)) := by
  induction bs with
  | nil => intro res sh _; rfl
  | cons b r ih =>
    intro res sh h
    have hb := b.toNat_lt
    simp only [lebReadLoop, rd, and7F, or_shift res sh _ h]
    have h80 := and80 b.toNat hb
    by_cases hlt : b.toNat < 128
    · rw [if_pos (h80.2 hlt), if_pos hlt]
      have : b.toNat % 128 = b.toNat := by omega
      simp [this]
    · rw [if_neg (fun h => hlt (h80.1 h)), if_neg hlt]
      have hres' : res + 2 ^ sh * (b.toNat % 128) < 2 ^ (sh + 7) := by
        rw [Nat.pow_add]
        have : 2 ^ sh * (b.toNat % 128) ≤ 2 ^ sh * 127 := Nat.mul_le_mul_left _ (by omega)
        omega
      rw [ih _ _ hres']
      cases rd r with
      | none => rfl
      | some p =>
        obtain ⟨u, n, l, r'⟩ := p
        simp only [Option.map_some, Option.some.injEq, Prod.mk.injEq, and_true]
        refine ⟨?_, by omega⟩
        have : b.toNat % 128 = b.toNat - 128 := by omega
        rw [this, Nat.pow_add, Nat.mul_add, Nat.add_assoc]
        congr 2
        rw [Nat.mul_assoc]


/-- value denoted by the reader's final state -/
def sval (s : Bool) (u n : Nat) (l : UInt8) : Int :=
  if s = true ∧ l.toNat &&& 0x40 ≠ 0 then (u : Int) - ((2 ^ (7 * n) : Nat) : Int) else (u : Int)

theorem rd_spec (bs : Bytes) : ∀ u n l r, rd bs = some (u, n, l, r) →
    1 ≤ n ∧ bs.length = n + r.length ∧ u < 2 ^ (7 * n) ∧ (l.toNat &&& 0x40 ≠ 0 ↔ 2 ^ (7 * n - 1) ≤ u) := by
  induction bs with
  | nil => intro u n l r h; cases h
  | cons b t ih =>
    intro u n l r h
    simp only [rd] at h
    by_cases hlt : b.toNat < 128
    · rw [if_pos hlt] at h
      simp only [Option.some.injEq, Prod.mk.injEq] at h
      obtain ⟨rfl, rfl, rfl, rfl⟩ := h
      have := and40 _ hlt
      refine ⟨Nat.le_refl _, by simp; omega, by omega, ?_⟩
      show _ ↔ 64 ≤ _
      omega
    · rw [if_neg hlt] at h
      cases hr : rd t with
      | none => rw [hr] at h; cases h
      | some p =>
        obtain ⟨u', n', l', r'⟩ := p
        rw [hr] at h
        simp only [Option.some.injEq, Prod.mk.injEq] at h
        obtain ⟨rfl, rfl, rfl, rfl⟩ := h
        obtain ⟨h1, h2, h3, h4⟩ := ih _ _ _ _ hr
        have hb := b.toNat_lt
        have e1 : 2 ^ (7 * (n' + 1)) = 128 * 2 ^ (7 * n') := by
          rw [show 7 * (n' + 1) = 7 + 7 * n' by omega, Nat.pow_add]
        have e2 : 2 ^ (7 * (n' + 1) - 1) = 128 * 2 ^ (7 * n' - 1) := by
          rw [show 7 * (n' + 1) - 1 = 7 + (7 * n' - 1) by omega, Nat.pow_add]
        rw [e1, e2, h4]
        refine ⟨by omega, by simp; omega, by omega, ?_⟩
        omega

theorem lebRead_eq (s : Bool) (bs : Bytes) :
    lebRead s bs = match rd bs with
      | none => .error .eof
      | some (u, n, l, r) => .ok (sval s u n l, r) := by
  unfold lebRead
  rw [lebReadLoop_eq bs 0 0 (by decide)]
  cases hr : rd bs with
  | none => rfl
  | some p =>
    obtain ⟨u, n, l, r⟩ := p
    obtain ⟨_, _, hu, _⟩ := rd_spec bs _ _ _ _ hr
    simp only [Option.map_some, Nat.zero_add, Nat.pow_zero, Nat.one_mul]
    unfold sval
    by_cases hc : s = true ∧ l.toNat &&& 0x40 ≠ 0
    · rw [if_pos hc, if_pos hc, lor_signext u _ hu]
    · rw [if_neg hc, if_neg hc]

theorem u8_small (k : Nat) (h : k < 256) : (UInt8.ofNat k).toNat = k := UInt8.toNat_ofNat_of_lt' h

theorem leb_roundtrip (s : Bool) (rest : Bytes) : ∀ d : Int, (s = false → 0 ≤ d) →
    ∃ u l, rd (lebWriteLoop s d ++ rest) = some (u, (lebWriteLoop s d).length, l, rest) ∧
      sval s u (lebWriteLoop s d).length l = d := by
  intro d
  induction d using wr_induct s with
  | stop d hs =>
    intro hd
    have hlt : (d % 128).toNat < 128 := by omega
    rw [lebWriteLoop_eq, if_pos hs]
    refine ⟨(d % 128).toNat, UInt8.ofNat (d % 128).toNat, ?_, ?_⟩
    · simp only [List.singleton_append, rd, u8_small _ (by omega : (d % 128).toNat < 256), if_pos hlt,
        List.length_singleton]
    · unfold sval
      rw [u8_small _ (by omega : (d % 128).toNat < 256)]
      have h40 := and40 _ hlt
      simp only [List.length_singleton]
      unfold wstop at hs
      split
      · rename_i hc
        have : ((2 ^ (7 * 1) : Nat) : Int) = 128 := by decide
        rw [this]
        cases s with
        | false => exact absurd hc.1 (by decide)
        | true => simp only [true_and, Bool.true_eq_false, false_and, or_false] at hs; omega
      · rename_i hc
        cases s with
        | false => have := hd rfl; simp only [Bool.false_eq_true, false_and, true_and, false_or] at hs; omega
        | true =>
          simp only [true_and, Bool.true_eq_false, false_and, or_false] at hs
          have hc' : (d % 128).toNat &&& 0x40 = 0 := by
            by_cases h : (d % 128).toNat &&& 0x40 = 0
            · exact h
            · exact absurd ⟨rfl, h⟩ hc
          omega
  | step d hs ih =>
    intro hd
    obtain ⟨u, l, h1, h2⟩ := ih (by intro h; have := hd h; omega)
    have hlt : (d % 128).toNat < 128 := by omega
    rw [lebWriteLoop_eq, if_neg hs]
    refine ⟨(d % 128).toNat + 128 * u, l, ?_, ?_⟩
    · simp only [List.cons_append, rd, u8_small _ (by omega : 128 + (d % 128).toNat < 256),
        if_neg (by omega : ¬ 128 + (d % 128).toNat < 128), h1, List.length_cons]
      simp only [Option.some.injEq, Prod.mk.injEq, and_true]
      omega
    · unfold sval at h2 ⊢
      simp only [List.length_cons]
      have e1 : 2 ^ (7 * ((lebWriteLoop s (d / 128)).length + 1)) = 128 * 2 ^ (7 * (lebWriteLoop s (d / 128)).length) := by
        rw [show ∀ n, 7 * (n + 1) = 7 + 7 * n by intro n; omega, Nat.pow_add]
      rw [e1]
      generalize 2 ^ (7 * (lebWriteLoop s (d / 128)).length) = P at *
      split at h2 <;> rename_i hc
      · rw [if_pos hc]; omega
      · rw [if_neg hc]; omega


theorem leb_roundtrip_read (s : Bool) (d : Int) (rest : Bytes) (h : s = false → 0 ≤ d) :
    lebRead s (lebWriteLoop s d ++ rest) = .ok (d, rest) := by
  obtain ⟨u, l, h1, h2⟩ := leb_roundtrip s rest d h
  rw [lebRead_eq, h1]
  simp only [h2]

theorem leb_write_neg (v : Int) (h : v < 0) : lebWrite false v = .error .value := by
  unfold lebWrite
  rw [if_pos ⟨h, by decide⟩]

theorem leb_shape (s : Bool) : ∀ d : Int,
    ∃ init last, lebWriteLoop s d = init ++ [last] ∧ last.toNat < 128 ∧ ∀ b ∈ init, b.toNat ≥ 128 := by
  intro d
  induction d using wr_induct s with
  | stop d hs =>
    rw [lebWriteLoop_eq, if_pos hs]
    refine ⟨[], _, rfl, ?_, by simp⟩
    rw [u8_small _ (by omega)]; omega
  | step d hs ih =>
    obtain ⟨init, last, h1, h2, h3⟩ := ih
    rw [lebWriteLoop_eq, if_neg hs, h1]
    refine ⟨_ :: init, last, rfl, h2, ?_⟩
    intro b hb
    rcases List.mem_cons.1 hb with rfl | hb
    · rw [u8_small _ (by omega)]; omega
    · exact h3 b hb

theorem readLoop_truncated (bs : Bytes) (h : ∀ b ∈ bs, b.toNat ≥ 128) : ∀ res sh, lebReadLoop bs res sh = none := by
  induction bs with
  | nil => intro _ _; rfl
  | cons b r ih =>
    intro res sh
    have hb : b.toNat ≥ 128 := h b (by simp)
    have h80 := and80 b.toNat b.toNat_lt
    simp only [lebReadLoop]
    rw [if_neg (by omega)]
    exact ih (fun x hx => h x (by simp [hx])) _ _

theorem leb_truncated (s : Bool) (bs : Bytes) (h : ∀ b ∈ bs, b.toNat ≥ 128) : lebRead s bs = .error .eof := by
  unfold lebRead
  rw [readLoop_truncated bs h]

/-- length bound for the signed writer -/
theorem wlen_signed (n : Nat) : ∀ d : Int, -((2 ^ (7 * n + 6) : Nat) : Int) ≤ d → d < ((2 ^ (7 * n + 6) : Nat) : Int) →
    (lebWriteLoop true d).length ≤ n + 1 := by
  induction n with
  | zero =>
    intro d h1 h2
    have : ((2 ^ (7 * 0 + 6) : Nat) : Int) = 64 := by decide
    rw [this] at h1 h2
    have hs : wstop true d := by unfold wstop; simp only [true_and, Bool.true_eq_false, false_and, or_false]; omega
    rw [lebWriteLoop_eq, if_pos hs]
    simp
  | succ n ih =>
    intro d h1 h2
    rw [lebWriteLoop_eq]
    split
    · simp
    · have e : 2 ^ (7 * (n + 1) + 6) = 128 * 2 ^ (7 * n + 6) := by
        rw [show 7 * (n + 1) + 6 = 7 + (7 * n + 6) by omega, Nat.pow_add]
      rw [e] at h1 h2
      have := ih (d / 128) (by omega) (by omega)
      simp only [List.length_cons]
      omega

/-- length bound for the unsigned writer -/
theorem wlen_unsigned (n : Nat) : ∀ d : Int, 0 ≤ d → d < ((2 ^ (7 * n + 7) : Nat) : Int) →
    (lebWriteLoop false d).length ≤ n + 1 := by
  induction n with
  | zero =>
    intro d h1 h2
    have : ((2 ^ (7 * 0 + 7) : Nat) : Int) = 128 := by decide
    rw [this] at h2
    have hs : wstop false d := by unfold wstop; simp only [Bool.false_eq_true, false_and, true_and, false_or]; omega
    rw [lebWriteLoop_eq, if_pos hs]
    simp
  | succ n ih =>
    intro d h1 h2
    rw [lebWriteLoop_eq]
    split
    · simp
    · have e : 2 ^ (7 * (n + 1) + 7) = 128 * 2 ^ (7 * n + 7) := by
        rw [show 7 * (n + 1) + 7 = 7 + (7 * n + 7) by omega, Nat.pow_add]
      rw [e] at h2
      have := ih (d / 128) (by omega) (by omega)
      simp only [List.length_cons]
      omega

theorem leb_minimal (s : Bool) (v : Int) (bs : Bytes)
    (h : lebRead s bs = .ok (v, [])) : (lebWriteLoop s v).length ≤ bs.length := by
  rw [lebRead_eq] at h
  cases hr : rd bs with
  | none => rw [hr] at h; cases h
  | some p =>
    obtain ⟨u, n, l, r⟩ := p
    rw [hr] at h
    simp only [Except.ok.injEq, Prod.mk.injEq] at h
    obtain ⟨hv, rfl⟩ := h
    obtain ⟨h1, h2, h3, h4⟩ := rd_spec bs _ _ _ _ hr
    obtain ⟨m, rfl⟩ : ∃ m, n = m + 1 := ⟨n - 1, by omega⟩
    simp only [List.length_nil, Nat.add_zero] at h2
    rw [h2]
    have e7 : 7 * (m + 1) = 7 * m + 7 := by omega
    have e6 : 7 * (m + 1) - 1 = 7 * m + 6 := by omega
    have ep : 2 ^ (7 * m + 7) = 2 * 2 ^ (7 * m + 6) := by
      rw [show 7 * m + 7 = (7 * m + 6) + 1 by omega, Nat.pow_succ]; omega
    unfold sval at hv
    rw [e7] at h3 hv
    rw [e6] at h4
    cases s with
    | false =>
      simp only [Bool.false_eq_true, false_and, if_false] at hv
      exact wlen_unsigned m v (by omega) (by omega)
    | true =>
      apply wlen_signed m v
      · split at hv
        · rename_i hc
          have := h4.1 hc.2
          omega
        · omega
      · split at hv
        · omega
        · rename_i hc
          have : ¬ (2 ^ (7 * m + 6) ≤ u) := fun hh => hc ⟨rfl, h4.2 hh⟩
          omega

end Cstruct.C05.Lemmas
