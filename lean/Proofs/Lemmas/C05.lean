import CstructModel.Codec
import CstructModel.Leb
import CstructModel.Resolve
import CstructModel.Gen.Endian
import CstructModel.Expr
namespace Cstruct.C05.Lemmas
open Cstruct
end Cstruct.C05.Lemmas
