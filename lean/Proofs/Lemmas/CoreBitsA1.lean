/-
  Helper lemmas for `Proofs/CoreBits.lean`, part 11 (packed or aligned): the member loop case by case.
-/
import Proofs.Lemmas.CoreBitsA0
namespace Cstruct.Core.Lemmas
open Cstruct Cstruct.Core Cstruct.C06 Cstruct.C06.Lemmas
open Cstruct.C05.Lemmas (encBytes encBytes_length)
set_option linter.unusedSimpArgs false

/-! ### The member loop, packed or aligned -/

theorem padNat_of_dvd {a : Nat} (ha : IsP2 a) (x : Nat) (h : a ∣ x) : padNat x a = 0 := by
  rw [padNat_p2_eq ha, Nat.mod_eq_zero_of_dvd h, Nat.sub_zero, Nat.mod_self]

theorem alignTo_of_dvd {a : Nat} (ha : IsP2 a) (al : Bool) (x : Nat) (h : al = true → a ∣ x) : alignTo al x a = x := by
  unfold alignTo
  cases al with
  | false => rfl
  | true => simp only [if_true, padNat_of_dvd ha x (h rfl), Nat.add_zero]

theorem bitsNatural_head {cfg : Cfg} {name an ty b rest ft fsz}
    (h : Fields.bitsNatural cfg (.cons name an ty (some (b + 1)) rest) = true) (hbase : ty.bitBase = some ft)
    (hsz : ft.size = some fsz) : fsz = ty.alignment cfg := by
  simp only [Fields.bitsNatural, hbase, Bool.and_eq_true, beq_iff_eq, hsz, Option.some.injEq] at h
  exact h.1

theorem a_idle_nil (cfg : Cfg) (al : Bool) : AIdle cfg al .nil := by
  intro _ vs hvs st sz sa offs hlay _ o ho start _
  cases hvs
  rw [layout_nil_al cfg al st o ho] at hlay
  simp only [Except.ok.injEq, Prod.mk.injEq] at hlay
  obtain ⟨rfl, rfl, rfl⟩ := hlay
  refine ⟨[], BitBuf.empty, [], writeFields_nil .., rfl, by simp, ?_⟩
  intro pre post ctx bbR _ _
  exact ⟨[], by rw [readFields_nil]; simp⟩

theorem a_pend_nil (cfg : Cfg) (al : Bool) : APend cfg al .nil := by
  intro _ vs hvs st sz sa offs hlay ft fsz k n bbW uo hP start _ _
  cases hvs
  rw [layout_nil_al cfg al st _ hP.loff] at hlay
  simp only [Except.ok.injEq, Prod.mk.injEq] at hlay
  obtain ⟨rfl, rfl, rfl⟩ := hlay
  obtain ⟨F, hfl, hF, hrel⟩ := flush_pend cfg ft fsz k n bbW hP.wty hP.size hP.winv hP.nlt (by have := hP.lt; omega)
  have hl : (encBytes cfg.endian fsz F).length = fsz := encBytes_length _ _ _
  refine ⟨[], bbW, _, F, [], writeFields_nil .., hfl, by simp, hF, hrel, by simp only [List.nil_append, hl], ?_⟩
  intro pre post ctx bbR U _ _ _ _
  exact ⟨[], by rw [readFields_nil]; simp [hl]⟩

theorem a_idle_cons_nb (cfg : Cfg) (al : Bool) (name an ty rest) (IHt : ATy cfg al ty) (IHi : AIdle cfg al rest) :
    AIdle cfg al (.cons name an ty none rest) := by
  intro hH vs hvs st sz sa offs hlay _ o ho start hdv
  have hHt := hH.tail
  obtain ⟨hS, hU, hP, hN, hD⟩ := hH
  simp only [Fields.fragSB, Bool.and_eq_true] at hS
  simp only [Fields.uniformAlign, Bool.and_eq_true] at hU
  simp only [Fields.pow2Aligned] at hP
  obtain ⟨hD1, _⟩ := defErr_cons hD
  have hN1 : al = true → ty.bitsNatural cfg = true := by
    intro ha
    have := hN ha
    simp only [Fields.bitsNatural, Bool.and_eq_true] at this
    exact this.1
  cases hvs with
  | @cons v vs' _ _ _ _ hv hvs' =>
  have hfa := alignment_p2 cfg ty hP.1
  have hle := le_alignTo al o (ty.alignment cfg)
  have hpos : al = true → sAlign cfg ty ∣ start + alignTo al o (ty.alignment cfg) := by
    intro ha; subst ha
    have h1 := (hdv rfl).1
    exact Nat.dvd_trans (sAlign_dvd_alignment cfg ty) (Nat.dvd_add h1 (alignTo_dvd hfa o))
  obtain ⟨bs, k, w, s, l, r⟩ := IHt hS.1 hU.1 hP.1 hN1 hD1 v hv _ hpos
  rw [layout_nb_al cfg al name an ty rest st o k ho s] at hlay
  obtain ⟨⟨sz', sa', offs'⟩, hlay', heq⟩ := bind_ok hlay
  simp only [Except.ok.injEq, Prod.mk.injEq] at heq
  obtain ⟨rfl, rfl, rfl⟩ := heq
  generalize hfo : alignTo al o (ty.alignment cfg) = fo at *
  obtain ⟨out', bbF, fl, w', hfl, hs, r'⟩ := IHi hHt vs' hvs' (stNbA cfg al ty k o st) sz' sa' offs' hlay'
    (lidle_of_rem _ rfl rest) (fo + k) (by simp only [stNbA, hfo]) start (fun ha => (hdv ha).2)
  have hpad : (if start + o < start + fo then start + fo - (start + o) else 0) = fo - o := by
    split <;> omega
  refine ⟨zeros (fo - o) ++ bs ++ out', bbF, fl, ?_, hfl, ?_, ?_⟩
  · rw [writeFields_cons_S, hpad]
    have e1 : start + o + (fo - o) = start + fo := by omega
    rw [e1, w]
    simp only [Except.bind]
    have e2 : start + o + (zeros (fo - o) ++ bs).length = start + (fo + k) := by
      simp only [List.length_append, zeros, List.length_replicate, l]; omega
    rw [e2, w']
  · rw [hs]
    simp only [List.length_append, zeros, List.length_replicate, l]
    congr 2; omega
  · intro pre post ctx bbR hp _
    rw [readFields_cons_S]
    have e1 : pre ++ (zeros (fo - o) ++ bs ++ out' ++ fl) ++ post = (pre ++ zeros (fo - o)) ++ bs ++ ((out' ++ fl) ++ post) := by
      simp only [List.append_assoc]
    have hl1 : (pre ++ zeros (fo - o)).length = start + fo := by
      simp only [List.length_append, zeros, List.length_replicate, hp]; omega
    rw [e1, r (pre ++ zeros (fo - o)) ((out' ++ fl) ++ post) ctx hl1]
    simp only [Except.bind]
    have e2 : (pre ++ zeros (fo - o)) ++ bs ++ ((out' ++ fl) ++ post) = (pre ++ zeros (fo - o) ++ bs) ++ (out' ++ fl) ++ post := by
      simp only [List.append_assoc]
    have hl2 : (pre ++ zeros (fo - o) ++ bs).length = start + (fo + k) := by
      rw [List.length_append, hl1, l]; omega
    obtain ⟨szs, hr⟩ := r' (pre ++ zeros (fo - o) ++ bs) post (Ctx.set ctx name v) BitBuf.empty hl2 (ridle_of_rem _ rfl rest)
    have e3 : start + fo + k = start + (fo + k) := by omega
    have e4 : start + (fo + k) + (out' ++ fl).length = start + o + (zeros (fo - o) ++ bs ++ out' ++ fl).length := by
      simp only [List.length_append, zeros, List.length_replicate, l]; omega
    rw [e4] at hr
    rw [e2, e3, hr]
    exact ⟨_, rfl⟩


theorem fieldPos_none (cfg : Cfg) (al : Bool) (ty : Ty) (start pos : Nat)
    (h : al = true → padNat pos (ty.alignment cfg) = 0) : fieldPos cfg al ty none start pos = pos := by
  simp only [fieldPos, Option.isNone_none, and_true]
  split
  · rename_i ha; rw [h ha]; rfl
  · rfl

theorem a_idle_cons_bit (cfg : Cfg) (al : Bool) (name an ty b rest) (IHi : AIdle cfg al rest) (IHp : APend cfg al rest) :
    AIdle cfg al (.cons name an ty (some (b + 1)) rest) := by
  intro hH vs hvs st sz sa offs hlay hli o ho start hdv
  have hHt := hH.tail
  obtain ⟨hS, hU, hP, hN, hD⟩ := hH
  simp only [Fields.fragSB, Bool.and_eq_true] at hS
  simp only [Fields.pow2Aligned] at hP
  obtain ⟨v, vs', rfl⟩ := hasTysB_cons_vals hvs
  obtain ⟨i, rfl, hi0, hi1, hvs'⟩ := hasTysB_bits hvs
  obtain ⟨ft, fsz, hbase, hint, hsz⟩ := bitOk_base ty hS.1
  have hfa := alignment_p2 cfg ty hP.1
  have hnew : st.bitsRemaining = 0 ∨ some ft ≠ st.bitsType := by
    rcases hli with h | h
    · exact Or.inl h
    · rw [hbase] at h; exact Or.inr h
  rw [layout_bit_new_al cfg al name an ty b rest st ft fsz o hbase hsz ho hnew] at hlay
  split at hlay
  · cases hlay
  rename_i hfit
  obtain ⟨⟨sz', sa', offs'⟩, hlay', heq⟩ := bind_ok hlay
  simp only [Except.ok.injEq, Prod.mk.injEq] at heq
  obtain ⟨rfl, rfl, rfl⟩ := heq
  have hle := le_alignTo al o (ty.alignment cfg)
  have hfsz : al = true → fsz = ty.alignment cfg := fun ha => bitsNatural_head (hN ha) hbase hsz
  have hual : al = true → fsz ∣ alignTo al o (ty.alignment cfg) := by
    intro ha; rw [hfsz ha]; subst ha; exact alignTo_dvd hfa o
  have hds : al = true → fsz ∣ start := by
    intro ha; rw [hfsz ha]; exact (hdv ha).1
  generalize hfo : alignTo al o (ty.alignment cfg) = fo at *
  have h8 : fsz * 8 = 8 * fsz := Nat.mul_comm _ _
  have hpad : (if start + o < start + fo then start + fo - (start + o) else 0) = fo - o := by
    split <;> omega
  obtain ⟨out', bbF, fl, F, tail, hw, hfl, hdata, hF, _, hs, hread⟩ := a_bit_step cfg al rest IHi IHp hHt vs' hvs'
    (stNewA cfg al ty ft fsz (b + 1) o st) sz' sa' offs' hlay' ft fsz 0 0 (b + 1)
    { ty := some ft, buffer := 0, remaining := fsz * 8 } hint hsz rfl
    (by simp only [stNewA]; omega) (by omega) fo (by simp only [stNewA, hfo]) (by simp only [stNewA, hfo]) hual rfl
    (by rw [h8]; exact writeInv_init _ _ _) (by simp) i hi0 hi1 start (fun ha => (hdv ha).2) hds (start + o) (fo - o)
    (by omega)
  refine ⟨zeros (fo - o) ++ out', bbF, fl, ?_, hfl, ?_, ?_⟩
  · rw [writeFields_bit_idle_al cfg al name an ty b rest fo offs' _ vs' start (start + o) ft fsz i hbase hsz
      (bitVal_cases ty i), hpad, hw]
  · rw [hs]
    simp only [List.length_append, zeros, List.length_replicate]
    congr 2; omega
  · intro pre post ctx bbR hp hri
    have hc : bbR.remaining = 0 ∨ bbR.ty ≠ some ft := by
      rcases hri with h | h
      · exact Or.inl h
      · rw [hbase] at h; exact Or.inr h
    have hl1 : (pre ++ zeros (fo - o)).length = start + fo := by
      simp only [List.length_append, zeros, List.length_replicate, hp]; omega
    have hd : pre ++ (zeros (fo - o) ++ out' ++ fl) ++ post =
        (pre ++ zeros (fo - o)) ++ encBytes cfg.endian fsz F ++ (tail ++ post) := by
      rw [List.append_assoc (zeros (fo - o)) out' fl, hdata]; simp only [List.append_assoc]
    have hd2 : pre ++ (zeros (fo - o) ++ out' ++ fl) ++ post = (pre ++ zeros (fo - o)) ++ (out' ++ fl) ++ post := by
      simp only [List.append_assoc]
    obtain ⟨U, hload, hUF⟩ := loadUnit_new cfg ft hint fsz hsz F hF (pre ++ zeros (fo - o)) (tail ++ post) (start + fo)
      hl1 bbR hc
    rw [← hd] at hload
    obtain ⟨bbR2, htake, hrest⟩ := hread (pre ++ zeros (fo - o)) post { ty := some ft, buffer := U, remaining := fsz * 8 } U
      hl1 rfl (by rw [h8]; exact readInv_init _ _ _ _) hUF
    obtain ⟨szs, hr⟩ := hrest (ctx.set name (ty.bitVal i))
    rw [← hd2] at hr
    have e4 : start + fo + (out' ++ fl).length = start + o + (zeros (fo - o) ++ out' ++ fl).length := by
      simp only [List.length_append, zeros, List.length_replicate]; omega
    rw [e4] at hr
    rw [readFields_cons_bits]
    simp only [hbase, List.head?, Option.join, Option.bind, id, List.drop_one, List.tail_cons, fieldPos_some]
    rw [hload]
    simp only [Except.bind, htake, bitVal_eq, hr]
    exact ⟨_, rfl⟩

theorem a_pend_cons (cfg : Cfg) (al : Bool) (name an ty bits rest) (Hidle : AIdle cfg al (.cons name an ty bits rest))
    (IHi : AIdle cfg al rest) (IHp : APend cfg al rest) : APend cfg al (.cons name an ty bits rest) := by
  intro hH vs hvs st sz sa offs hlay ft fsz k n bbW uo hPd start hdv hds
  obtain ⟨v, vs', rfl⟩ := hasTysB_cons_vals hvs
  by_cases hsame : isBitW bits = true ∧ ty.bitBase = some ft
  · obtain ⟨hb, hbase⟩ := hsame
    rcases bits with _ | _ | b
    · simp [isBitW] at hb
    · simp [isBitW] at hb
    have hHt := hH.tail
    obtain ⟨hS, hU, hP, hN, hD⟩ := hH
    simp only [Fields.pow2Aligned] at hP
    obtain ⟨i, rfl, hi0, hi1, hvs'⟩ := hasTysB_bits hvs
    have hfa := alignment_p2 cfg ty hP.1
    have hfsz : al = true → fsz = ty.alignment cfg := fun ha => bitsNatural_head (hN ha) hbase hPd.size
    have hd1 : al = true → ty.alignment cfg ∣ start + uo := by
      intro ha; rw [← hfsz ha]; exact Nat.dvd_add (hds ha) (hPd.ual ha)
    have hd2 : al = true → ty.alignment cfg ∣ start + uo + fsz := by
      intro ha
      have := hd1 ha
      rw [← hfsz ha] at this ⊢
      exact Nat.dvd_add this (Nat.dvd_refl _)
    have hd3 : al = true → ty.alignment cfg ∣ uo + fsz := by
      intro ha; rw [← hfsz ha]; exact Nat.dvd_add (hPd.ual ha) (Nat.dvd_refl _)
    have hrem : st.bitsRemaining ≠ 0 := by rw [hPd.lrem]; have := hPd.lt; omega
    rw [layout_bit_cont_al cfg al name an ty b rest st ft fsz uo hbase hPd.size hrem hPd.lty hPd.loff hPd.lbfo
      (alignTo_of_dvd hfa al _ hd3)] at hlay
    split at hlay
    · cases hlay
    rename_i hfit
    obtain ⟨⟨sz', sa', offs'⟩, hlay', heq⟩ := bind_ok hlay
    simp only [Except.ok.injEq, Prod.mk.injEq] at heq
    obtain ⟨rfl, rfl, rfl⟩ := heq
    have hwrem : bbW.remaining ≠ 0 := by rw [hPd.winv.1]; have := hPd.lt; omega
    rw [hPd.lrem] at hfit
    obtain ⟨out', bbF, fl, F, tail, hw, hfl, hdata, hF, hrel, hs, hread⟩ := a_bit_step cfg al rest IHi IHp hHt vs' hvs'
      (stCont cfg ty (b + 1) st) sz' sa' offs' hlay' ft fsz k n (b + 1) bbW hPd.isInt hPd.size hPd.lty
      (by simp only [stCont, hPd.lrem]; omega) (by omega) uo hPd.loff hPd.lbfo hPd.ual hPd.wty hPd.winv hPd.nlt i hi0 hi1
      start (fun ha => (hdv ha).2) hds (start + uo) 0 rfl
    simp only [zeros, List.replicate_zero, List.nil_append] at hw
    refine ⟨out', bbF, fl, F, tail, ?_, hfl, hdata, hF, hrel, hs, ?_⟩
    · rw [writeFields_bit_cont_al cfg al name an ty b rest offs' _ vs' start (start + uo) ft fsz i bbW hbase hPd.size
        (bitVal_cases ty i) hPd.wty hwrem (fun ha => padNat_of_dvd hfa _ (hd1 ha)), hw]
    · intro pre post ctx bbR U hp hRty hR hUF
      obtain ⟨bbR2, htake, hrest⟩ := hread pre post bbR U hp hRty hR hUF
      obtain ⟨szs, hr⟩ := hrest (ctx.set name (ty.bitVal i))
      have hc : ¬ (bbR.remaining = 0 ∨ bbR.ty ≠ some ft) := by
        have := hPd.lt
        rw [hR.2.1, hRty]; simp; omega
      rw [readFields_cons_bits]
      simp only [hbase, List.head?, Option.join, Option.bind, id, List.drop_one, List.tail_cons, loadUnit, hc, if_false]
      rw [fieldPos_none cfg al ty start _ (fun ha => padNat_of_dvd hfa _ (hd2 ha))]
      simp only [Except.bind, htake, bitVal_eq, hr]
      exact ⟨_, rfl⟩
  · have hne : isBitW bits = false ∨ ty.bitBase ≠ some ft := by
      by_cases h1 : isBitW bits = true
      · exact Or.inr (fun h2 => hsame ⟨h1, h2⟩)
      · exact Or.inl (by simpa using h1)
    obtain ⟨F, hfl0, hF, hrel⟩ := flush_pend cfg ft fsz k n bbW hPd.wty hPd.size hPd.winv hPd.nlt (by have := hPd.lt; omega)
    have hl0 : (encBytes cfg.endian fsz F).length = fsz := encBytes_length _ _ _
    have hli : LIdle st (.cons name an ty bits rest) := by
      rcases bits with _ | _ | b
      · trivial
      · trivial
      · right
        rw [hPd.lty]
        rcases hne with h | h
        · simp [isBitW] at h
        · exact h
    obtain ⟨o, bbF, fl, hw, hfl, hs, hread⟩ := Hidle hH _ hvs st sz sa offs hlay hli (uo + fsz) hPd.loff start hdv
    refine ⟨encBytes cfg.endian fsz F ++ o, bbF, fl, F, o ++ fl, ?_, hfl, by simp only [List.append_assoc], hF, hrel, ?_, ?_⟩
    · rw [writeFields_flush cfg al name an ty bits rest offs v vs' start bbW _ ft hPd.wty hne, hfl0]
      simp only [Except.bind, hl0]
      rw [show start + uo + fsz = start + (uo + fsz) by omega, hw]
    · rw [hs]; simp only [List.length_append, hl0]; congr 2; omega
    · intro pre post ctx bbR U hp hRty hR hUF
      have hri : RIdle bbR (.cons name an ty bits rest) := by
        rcases bits with _ | _ | b
        · trivial
        · trivial
        · right
          rw [hRty]
          rcases hne with h | h
          · simp [isBitW] at h
          · exact fun h' => h h'.symm
      obtain ⟨szs, hr⟩ := hread (pre ++ encBytes cfg.endian fsz F) post ctx bbR
        (by rw [List.length_append, hp, hl0]; omega) hri
      refine ⟨szs, ?_⟩
      have e1 : pre ++ (encBytes cfg.endian fsz F ++ o ++ fl) ++ post =
          pre ++ encBytes cfg.endian fsz F ++ (o ++ fl) ++ post := by simp only [List.append_assoc]
      rw [e1, show start + uo + fsz = start + (uo + fsz) by omega, hr]
      simp only [List.length_append, hl0]
      congr 3; omega

end Cstruct.Core.Lemmas
