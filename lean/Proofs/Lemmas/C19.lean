/-
  C19 — helper lemmas: the text emitted by the palette state machine does not depend on the state; rows;
  the hex column read back; little-endian codec facts for pack / unpack / swap.
-/
import Proofs.Spec.C19
namespace Cstruct.Hexdump.C19.Lemmas
open Cstruct Cstruct.Hexdump Cstruct.Hexdump.C19

/-! ### stripCodes -/

theorem stripCodes_append (a b : List Seg) : stripCodes (a ++ b) = stripCodes a ++ stripCodes b := by
  induction a with
  | nil => simp [stripCodes]
  | cons x r ih =>
    cases x with
    | text s => simp only [List.cons_append, stripCodes, ih, String.append_assoc]
    | code s => simp only [List.cons_append, stripCodes, ih]

def cellText (b : Option UInt8) : String := match b with | some x => hex2 x | none => "  "
def cellChar (b : Option UInt8) : String := match b with | some x => printChar x | none => ""
def sep (j : Nat) : String := if j = 7 then "  " else " "

theorem cell_values (s : PState) (j : Nat) (b : Option UInt8) :
    stripCodes (cell s j b).2.1 = cellText b ++ sep j := by
  unfold cell sep
  generalize (if j = 7 then "  " else " ") = sp
  cases b <;> simp only [] <;> (repeat' split) <;> simp [stripCodes, cellText]

theorem cell_chars (s : PState) (j : Nat) (b : Option UInt8) :
    stripCodes (cell s j b).2.2 = cellChar b := by
  unfold cell
  cases b <;> simp only [] <;> (repeat' split) <;> simp [stripCodes, cellChar]

theorem plainValues_nil (j : Nat) : plainValues [] j = "" := by
  rw [plainValues.eq_def]

theorem plainValues_cons (b : Option UInt8) (rest : List (Option UInt8)) (j : Nat) :
    plainValues (b :: rest) j = cellText b ++ sep j ++ plainValues rest (j + 1) := by
  rw [plainValues.eq_def]; rfl

theorem cells_values (s : PState) (j : Nat) (row : List (Option UInt8)) :
    stripCodes (cells s j row).2.1 = plainValues row j := by
  induction row generalizing s j with
  | nil => simp [cells, stripCodes, plainValues_nil]
  | cons b rest ih =>
    simp only [cells, stripCodes_append, cell_values, ih, plainValues_cons]

theorem cells_chars (s : PState) (j : Nat) (row : List (Option UInt8)) :
    stripCodes (cells s j row).2.2 = String.join (row.map cellChar) := by
  induction row generalizing s j with
  | nil => simp [cells, stripCodes, String.join_nil]
  | cons b rest ih =>
    simp only [cells, stripCodes_append, cell_chars, ih, List.map_cons, String.join_cons]

theorem join_append (a b : List String) : String.join (a ++ b) = String.join a ++ String.join b := by
  induction a with
  | nil => simp [String.join_nil]
  | cons x r ih => simp only [List.cons_append, String.join_cons, ih, String.append_assoc]

theorem join_replicate_empty (k : Nat) : String.join (List.replicate k "") = "" := by
  induction k with
  | zero => simp [String.join_nil]
  | succ k ih => simp [List.replicate_succ, String.join_cons, ih]

theorem padRow_chars (row : Bytes) : String.join ((padRow row).map cellChar) = plainChars row := by
  simp only [padRow, List.map_append, List.map_map, List.map_replicate, join_append, cellChar,
    join_replicate_empty, plainChars]
  simp only [String.append_empty]
  rfl

/-! ### rows and the plain dump -/

/-- the plain dump with an offset accumulator -/
def dumpRows : Nat → List Bytes → List (Nat × String × String)
  | _, [] => []
  | o, r :: rs => (o, plainValues (padRow r) 0, plainChars r) :: dumpRows (o + 16) rs

theorem zip_range'_map (offset k : Nat) (rs : List Bytes) :
    ((List.range' k rs.length).zip rs).map
        (fun (p : Nat × Bytes) => (offset + 16 * p.1, plainValues (padRow p.2) 0, plainChars p.2))
      = dumpRows (offset + 16 * k) rs := by
  induction rs generalizing k with
  | nil => simp [dumpRows]
  | cons r rs ih =>
    simp only [List.length_cons, List.range'_succ, List.zip_cons_cons, List.map_cons, dumpRows, ih]
    congr 2

theorem plainDump_eq (data : Bytes) (offset : Nat) :
    plainDump data offset = dumpRows offset (rows (data.length + 1) data) := by
  have := zip_range'_map offset 0 (rows (data.length + 1) data)
  simp only [Nat.mul_zero, Nat.add_zero] at this
  rw [← this]
  simp only [plainDump, List.range_eq_range']

theorem lines_strip (s : PState) (offset fuel : Nat) (data : Bytes) :
    (lines s offset fuel data).map (fun l => (l.offset, stripCodes l.values, stripCodes l.chars))
      = dumpRows offset (rows fuel data) := by
  induction fuel generalizing s offset data with
  | zero => simp [lines, rows, dumpRows]
  | succ fuel ih =>
    cases data with
    | nil => simp [lines, rows, dumpRows]
    | cons b r =>
      simp only [lines, rows, dumpRows, List.map_cons, ih, cells_values, cells_chars, padRow_chars]

theorem colour_cosmetic (data : Bytes) (palette : Option (List (Int × String))) (offset : Nat) :
    (hexdump data palette offset).map (fun l => (l.offset, stripCodes l.values, stripCodes l.chars))
      = plainDump data offset := by
  rw [plainDump_eq, hexdump, lines_strip]

theorem rows_flatten (fuel : Nat) (data : Bytes) (h : data.length < fuel) : (rows fuel data).flatten = data := by
  induction fuel generalizing data with
  | zero => omega
  | succ fuel ih =>
    cases data with
    | nil => simp [rows]
    | cons b r =>
      simp only [rows, List.flatten_cons]
      rw [ih]
      · exact List.take_append_drop 16 (b :: r)
      · simp only [List.length_drop, List.length_cons] at h ⊢; omega

theorem rows_mem (fuel : Nat) (data : Bytes) : ∀ r ∈ rows fuel data, 0 < r.length ∧ r.length ≤ 16 := by
  induction fuel generalizing data with
  | zero => simp [rows]
  | succ fuel ih =>
    cases data with
    | nil => simp [rows]
    | cons b r =>
      intro x hx
      simp only [rows, List.mem_cons] at hx
      rcases hx with hx | hx
      · subst hx; simp only [List.length_take, List.length_cons]; omega
      · exact ih _ x hx

theorem rows_ne_nil (fuel : Nat) (data : Bytes) (h : rows fuel data ≠ []) : data ≠ [] := by
  intro hd; subst hd
  cases fuel <;> simp [rows] at h

theorem rows_dropLast (fuel : Nat) (data : Bytes) : ∀ r ∈ (rows fuel data).dropLast, r.length = 16 := by
  induction fuel generalizing data with
  | zero => simp [rows]
  | succ fuel ih =>
    cases data with
    | nil => simp [rows]
    | cons b r =>
      intro x hx
      simp only [rows] at hx
      by_cases hne : rows fuel (List.drop 16 (b :: r)) = []
      · rw [hne] at hx; simp at hx
      · rw [List.dropLast_cons_of_ne_nil hne, List.mem_cons] at hx
        rcases hx with hx | hx
        · subst hx
          have := rows_ne_nil _ _ hne
          have h2 : 0 < (List.drop 16 (b :: r)).length := List.length_pos_iff.mpr this
          simp only [List.length_drop, List.length_take] at h2 ⊢; omega
        · exact ih _ x hx

theorem dumpRows_fst (o : Nat) (rs : List Bytes) (k : Nat) :
    (dumpRows (o + 16 * k) rs).map (·.1) = (List.range' k rs.length).map (fun i => o + 16 * i) := by
  induction rs generalizing k with
  | nil => simp [dumpRows]
  | cons r rs ih =>
    simp only [dumpRows, List.map_cons, List.length_cons, List.range'_succ]
    congr 1
    have := ih (k + 1)
    rw [← this]; congr 2 

theorem rows_spec (data : Bytes) (offset : Nat) :
    let rs := rows (data.length + 1) data
    rs.flatten = data ∧ (∀ r ∈ rs, 0 < r.length ∧ r.length ≤ 16) ∧ (∀ r ∈ rs.dropLast, r.length = 16) ∧
    (plainDump data offset).map (·.1) = (List.range rs.length).map (fun i => offset + 16 * i) := by
  refine ⟨rows_flatten _ _ (by omega), rows_mem _ _, rows_dropLast _ _, ?_⟩
  rw [plainDump_eq, List.range_eq_range']
  exact dumpRows_fst offset _ 0

/-! ### the hex column read back -/

theorem hex_fin : ∀ n : Nat, n < 256 →
    hexDigit (n / 16) ≠ ' ' ∧ (unhex (hexDigit (n / 16)) * 16 + unhex (hexDigit (n % 16))) = n := by
  decide +kernel

theorem hex2_toList (b : UInt8) : (hex2 b).toList = [hexDigit (b.toNat / 16), hexDigit (b.toNat % 16)] := by
  simp [hex2]

theorem hex_byte (b : UInt8) : hexDigit (b.toNat / 16) ≠ ' ' ∧
    UInt8.ofNat (unhex (hexDigit (b.toNat / 16)) * 16 + unhex (hexDigit (b.toNat % 16))) = b := by
  have h := hex_fin b.toNat b.toNat_lt
  refine ⟨h.1, ?_⟩
  rw [h.2]; exact UInt8.ofNat_toNat

theorem sep_toList_drop (j : Nat) (r : List Char) :
    ((sep j).toList ++ r).drop (if j = 7 then 2 else 1) = r := by
  unfold sep
  split <;> simp

theorem parse_plain (row : Bytes) (k fuel j : Nat) (h : row.length ≤ fuel) :
    parseValues fuel j (plainValues (row.map some ++ List.replicate k none) j).toList = row := by
  induction row generalizing fuel j with
  | nil =>
    cases k with
    | zero => 
      simp only [List.map_nil, List.replicate_zero, List.append_nil, plainValues_nil]
      cases fuel <;> simp [parseValues]
    | succ k =>
      simp only [List.map_nil, List.nil_append, List.replicate_succ, plainValues_cons, cellText,
        String.toList_append]
      cases fuel with
      | zero => simp [parseValues]
      | succ f => 
        show parseValues (f+1) j (' ' :: ' ' :: _) = []
        simp [parseValues]
  | cons b r ih =>
    cases fuel with
    | zero => simp at h
    | succ f =>
      simp only [List.map_cons, List.cons_append, plainValues_cons, cellText, String.toList_append,
        hex2_toList, List.nil_append]
      have hb := hex_byte b
      simp only [parseValues, if_neg hb.1, hb.2, sep_toList_drop]
      rw [ih]
      simp at h; omega

theorem hex_column_inverse (row : Bytes) (h : row.length ≤ 16) :
    parseValues 16 0 (plainValues (padRow row) 0).toList = row := 
  parse_plain row _ 16 0 h

end Cstruct.Hexdump.C19.Lemmas
