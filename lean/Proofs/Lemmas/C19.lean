/-
  C19 — helper lemmas: the text emitted by the palette state machine does not depend on the state; rows;
  the hex column read back; little-endian codec facts for pack / unpack / swap.
-/
import Proofs.Spec.C19
namespace Cstruct.Hexdump.C19.Lemmas
open Cstruct Cstruct.Hexdump Cstruct.Hexdump.C19

/-! ### stripCodes -/

theorem stripCodes_append (a b : List Seg) : stripCodes (a ++ b) = stripCodes a ++ stripCodes b := by
  induction a with
  | nil => simp [stripCodes]
  | cons x r ih =>
    cases x with
    | text s => simp only [List.cons_append, stripCodes, ih, String.append_assoc]
    | code s => simp only [List.cons_append, stripCodes, ih]

def cellText (b : Option UInt8) : String := match b with | some x => hex2 x | none => "  "
def cellChar (b : Option UInt8) : String := match b with | some x => printChar x | none => ""
def sep (j : Nat) : String := if j = 7 then "  " else " "

theorem cell_values (s : PState) (j : Nat) (b : Option UInt8) :
    stripCodes (cell s j b).2.1 = cellText b ++ sep j := by
  unfold cell sep
  generalize (if j = 7 then "  " else " ") = sp
  cases b <;> simp only [] <;> (repeat' split) <;> simp [stripCodes, cellText]

theorem cell_chars (s : PState) (j : Nat) (b : Option UInt8) :
    stripCodes (cell s j b).2.2 = cellChar b := by
  unfold cell
  cases b <;> simp only [] <;> (repeat' split) <;> simp [stripCodes, cellChar]

theorem plainValues_nil (j : Nat) : plainValues [] j = "" := by
  rw [plainValues.eq_def]

theorem plainValues_cons (b : Option UInt8) (rest : List (Option UInt8)) (j : Nat) :
    plainValues (b :: rest) j = cellText b ++ sep j ++ plainValues rest (j + 1) := by
  rw [plainValues.eq_def]; rfl

theorem cells_values (s : PState) (j : Nat) (row : List (Option UInt8)) :
    stripCodes (cells s j row).2.1 = plainValues row j := by
  induction row generalizing s j with
  | nil => simp [cells, stripCodes, plainValues_nil]
  | cons b rest ih =>
    simp only [cells, stripCodes_append, cell_values, ih, plainValues_cons]

theorem cells_chars (s : PState) (j : Nat) (row : List (Option UInt8)) :
    stripCodes (cells s j row).2.2 = String.join (row.map cellChar) := by
  induction row generalizing s j with
  | nil => simp [cells, stripCodes, String.join_nil]
  | cons b rest ih =>
    simp only [cells, stripCodes_append, cell_chars, ih, List.map_cons, String.join_cons]

theorem join_append (a b : List String) : String.join (a ++ b) = String.join a ++ String.join b := by
  induction a with
  | nil => simp [String.join_nil]
  | cons x r ih => simp only [List.cons_append, String.join_cons, ih, String.append_assoc]

theorem join_replicate_empty (k : Nat) : String.join (List.replicate k "") = "" := by
  induction k with
  | zero => simp [String.join_nil]
  | succ k ih => simp [List.replicate_succ, String.join_cons, ih]

theorem padRow_chars (row : Bytes) : String.join ((padRow row).map cellChar) = plainChars row := by
  simp only [padRow, List.map_append, List.map_map, List.map_replicate, join_append, cellChar,
    join_replicate_empty, plainChars]
  simp only [String.append_empty]
  rfl

/-! ### rows and the plain dump -/

/-- the plain dump with an offset accumulator -/
def dumpRows : Nat → List Bytes → List (Nat × String × String)
  | _, [] => []
  | o, r :: rs => (o, plainValues (padRow r) 0, plainChars r) :: dumpRows (o + 16) rs

theorem zip_range'_map (offset k : Nat) (rs : List Bytes) :
    ((List.range' k rs.length).zip rs).map
        (fun (p : Nat × Bytes) => (offset + 16 * p.1, plainValues (padRow p.2) 0, plainChars p.2))
      = dumpRows (offset + 16 * k) rs := by
  induction rs generalizing k with
  | nil => simp [dumpRows]
  | cons r rs ih =>
    simp only [List.length_cons, List.range'_succ, List.zip_cons_cons, List.map_cons, dumpRows, ih]
    congr 2

theorem plainDump_eq (data : Bytes) (offset : Nat) :
    plainDump data offset = dumpRows offset (rows (data.length + 1) data) := by
  have := zip_range'_map offset 0 (rows (data.length + 1) data)
  simp only [Nat.mul_zero, Nat.add_zero] at this
  rw [← this]
  simp only [plainDump, List.range_eq_range']

theorem lines_strip (s : PState) (offset fuel : Nat) (data : Bytes) :
    (lines s offset fuel data).map (fun l => (l.offset, stripCodes l.values, stripCodes l.chars))
      = dumpRows offset (rows fuel data) := by
  induction fuel generalizing s offset data with
  | zero => simp [lines, rows, dumpRows]
  | succ fuel ih =>
    cases data with
    | nil => simp [lines, rows, dumpRows]
    | cons b r =>
      simp only [lines, rows, dumpRows, List.map_cons, ih, cells_values, cells_chars, padRow_chars]

theorem colour_cosmetic (data : Bytes) (palette : Option (List (Int × String))) (offset : Nat) :
    (hexdump data palette offset).map (fun l => (l.offset, stripCodes l.values, stripCodes l.chars))
      = plainDump data offset := by
  rw [plainDump_eq, hexdump, lines_strip]

theorem rows_flatten (fuel : Nat) (data : Bytes) (h : data.length < fuel) : (rows fuel data).flatten = data := by
  induction fuel generalizing data with
  | zero => omega
  | succ fuel ih =>
    cases data with
    | nil => simp [rows]
    | cons b r =>
      simp only [rows, List.flatten_cons]
      rw [ih]
      · exact List.take_append_drop 16 (b :: r)
      · simp only [List.length_drop, List.length_cons] at h ⊢; omega

theorem rows_mem (fuel : Nat) (data : Bytes) : ∀ r ∈ rows fuel data, 0 < r.length ∧ r.length ≤ 16 := by
  induction fuel generalizing data with
  | zero => simp [rows]
  | succ fuel ih =>
    cases data with
    | nil => simp [rows]
    | cons b r =>
      intro x hx
      simp only [rows, List.mem_cons] at hx
      rcases hx with hx | hx
      · subst hx; simp only [List.length_take, List.length_cons]; omega
      · exact ih _ x hx

theorem rows_ne_nil (fuel : Nat) (data : Bytes) (h : rows fuel data ≠ []) : data ≠ [] := by
  intro hd; subst hd
  cases fuel <;> simp [rows] at h

theorem rows_dropLast (fuel : Nat) (data : Bytes) : ∀ r ∈ (rows fuel data).dropLast, r.length = 16 := by
  induction fuel generalizing data with
  | zero => simp [rows]
  | succ fuel ih =>
    cases data with
    | nil => simp [rows]
    | cons b r =>
      intro x hx
      simp only [rows] at hx
      by_cases hne : rows fuel (List.drop 16 (b :: r)) = []
      · rw [hne] at hx; simp at hx
      · rw [List.dropLast_cons_of_ne_nil hne, List.mem_cons] at hx
        rcases hx with hx | hx
        · subst hx
          have := rows_ne_nil _ _ hne
          have h2 : 0 < (List.drop 16 (b :: r)).length := List.length_pos_iff.mpr this
          simp only [List.length_drop, List.length_take] at h2 ⊢; omega
        · exact ih _ x hx

theorem dumpRows_fst (o : Nat) (rs : List Bytes) (k : Nat) :
    (dumpRows (o + 16 * k) rs).map (·.1) = (List.range' k rs.length).map (fun i => o + 16 * i) := by
  induction rs generalizing k with
  | nil => simp [dumpRows]
  | cons r rs ih =>
    simp only [dumpRows, List.map_cons, List.length_cons, List.range'_succ]
    congr 1
    have := ih (k + 1)
    rw [← this]; congr 2 

theorem rows_spec (data : Bytes) (offset : Nat) :
    let rs := rows (data.length + 1) data
    rs.flatten = data ∧ (∀ r ∈ rs, 0 < r.length ∧ r.length ≤ 16) ∧ (∀ r ∈ rs.dropLast, r.length = 16) ∧
    (plainDump data offset).map (·.1) = (List.range rs.length).map (fun i => offset + 16 * i) := by
  refine ⟨rows_flatten _ _ (by omega), rows_mem _ _, rows_dropLast _ _, ?_⟩
  rw [plainDump_eq, List.range_eq_range']
  exact dumpRows_fst offset _ 0

/-! ### the hex column read back -/

theorem hex_fin : ∀ n : Nat, n < 256 →
    hexDigit (n / 16) ≠ ' ' ∧ (unhex (hexDigit (n / 16)) * 16 + unhex (hexDigit (n % 16))) = n := by
  decide +kernel

theorem hex2_toList (b : UInt8) : (hex2 b).toList = [hexDigit (b.toNat / 16), hexDigit (b.toNat % 16)] := by
  simp [hex2]

theorem hex_byte (b : UInt8) : hexDigit (b.toNat / 16) ≠ ' ' ∧
    UInt8.ofNat (unhex (hexDigit (b.toNat / 16)) * 16 + unhex (hexDigit (b.toNat % 16))) = b := by
  have h := hex_fin b.toNat b.toNat_lt
  refine ⟨h.1, ?_⟩
  rw [h.2]; exact UInt8.ofNat_toNat

theorem sep_toList_drop (j : Nat) (r : List Char) :
    ((sep j).toList ++ r).drop (if j = 7 then 2 else 1) = r := by
  unfold sep
  split <;> simp

theorem parse_plain (row : Bytes) (k fuel j : Nat) (h : row.length ≤ fuel) :
    parseValues fuel j (plainValues (row.map some ++ List.replicate k none) j).toList = row := by
  induction row generalizing fuel j with
  | nil =>
    cases k with
    | zero => 
      simp only [List.map_nil, List.replicate_zero, List.append_nil, plainValues_nil]
      cases fuel <;> simp [parseValues]
    | succ k =>
      simp only [List.map_nil, List.nil_append, List.replicate_succ, plainValues_cons, cellText,
        String.toList_append]
      cases fuel with
      | zero => simp [parseValues]
      | succ f => 
        show parseValues (f+1) j (' ' :: ' ' :: _) = []
        simp [parseValues]
  | cons b r ih =>
    cases fuel with
    | zero => simp at h
    | succ f =>
      simp only [List.map_cons, List.cons_append, plainValues_cons, cellText, String.toList_append,
        hex2_toList, List.nil_append]
      have hb := hex_byte b
      simp only [parseValues, if_neg hb.1, hb.2, sep_toList_drop]
      rw [ih]
      simp at h; omega

theorem hex_column_inverse (row : Bytes) (h : row.length ≤ 16) :
    parseValues 16 0 (plainValues (padRow row) 0).toList = row := 
  parse_plain row _ 16 0 h

/-! ### little-endian codec facts -/

theorem toLE_length (n v : Nat) : (toLE n v).length = n := by
  induction n generalizing v with
  | zero => rfl
  | succ n ih => simp [toLE, ih]

theorem pow8 (n : Nat) : 2 ^ (8 * n) = 256 ^ n := by
  rw [Nat.pow_mul]

theorem fromLE_toLE (n v : Nat) (h : v < 256 ^ n) : fromLE (toLE n v) = v := by
  induction n generalizing v with
  | zero => simp at h; simp [toLE, fromLE, h]
  | succ n ih =>
    simp only [toLE, fromLE]
    have h1 : v / 256 < 256 ^ n := by
      rw [Nat.div_lt_iff_lt_mul (by decide)]; rw [Nat.pow_succ] at h; exact h
    rw [ih _ h1]
    have : (UInt8.ofNat (v % 256)).toNat = v % 256 := by
      simp [UInt8.toNat_ofNat']
    rw [this]; omega

theorem fromLE_lt (bs : Bytes) : fromLE bs < 256 ^ bs.length := by
  induction bs with
  | nil => simp [fromLE]
  | cons b r ih =>
    simp only [fromLE, List.length_cons, Nat.pow_succ]
    have := b.toNat_lt
    omega

theorem toLE_fromLE (bs : Bytes) : toLE bs.length (fromLE bs) = bs := by
  induction bs with
  | nil => simp [toLE]
  | cons b r ih =>
    simp only [List.length_cons, toLE, fromLE]
    have hb := b.toNat_lt
    have h1 : (b.toNat + 256 * fromLE r) % 256 = b.toNat := by omega
    have h2 : (b.toNat + 256 * fromLE r) / 256 = fromLE r := by omega
    rw [h1, h2, ih, UInt8.ofNat_toNat]

/-- byte order view -/
def view (e : Endian) (bs : Bytes) : Bytes := match e with | .little => bs | .big => bs.reverse

theorem view_view (e : Endian) (bs : Bytes) : view e (view e bs) = bs := by
  cases e <;> simp [view]

theorem view_length (e : Endian) (bs : Bytes) : (view e bs).length = bs.length := by
  cases e <;> simp [view]

theorem decodeNat_eq (e : Endian) (bs : Bytes) : decodeNat e bs = fromLE (view e bs) := by
  cases e <;> rfl

theorem decodeNat_lt (e : Endian) (bs : Bytes) : decodeNat e bs < 2 ^ (8 * bs.length) := by
  rw [decodeNat_eq, pow8, ← view_length e bs]; exact fromLE_lt _

theorem encodeInt_of (e : Endian) (n : Nat) (s : Bool) (v : Int) (u : Nat) (hf : fits n s v = true)
    (hu : (v % ((2 ^ (8 * n) : Nat) : Int)).toNat = u) : encodeInt e n s v = some (view e (toLE n u)) := by
  simp only [encodeInt, hf, if_true, hu]
  cases e <;> rfl

theorem emod_nonneg (v : Int) (P : Nat) (h0 : 0 ≤ v) (h1 : v < P) : (v % (P : Int)).toNat = v.toNat := by
  rw [Int.emod_eq_of_lt h0 h1]

theorem emod_neg (v : Int) (P : Nat) (h0 : v < 0) (h1 : -(P : Int) ≤ v) :
    (v % (P : Int)).toNat = (v + P).toNat := by
  rw [← Int.add_emod_right, Int.emod_eq_of_lt (by omega) (by omega)]

/-- every value that fits is some natural `u < 2^(8n)` read unsigned or as two's complement -/
theorem fits_cases (n : Nat) (s : Bool) (v : Int) (hf : fits n s v = true) :
    ∃ u : Nat, u < 2 ^ (8 * n) ∧ (v % ((2 ^ (8 * n) : Nat) : Int)).toNat = u ∧
      (if s = true ∧ 2 ^ (8 * n) ≤ 2 * u then (u : Int) - ((2 ^ (8 * n) : Nat) : Int) else (u : Int)) = v := by
  unfold fits at hf
  generalize 2 ^ (8 * n) = P at *
  cases s with
  | false =>
    simp only [Bool.false_eq_true, if_false, decide_eq_true_eq] at hf
    refine ⟨v.toNat, by omega, emod_nonneg _ _ hf.1 hf.2, ?_⟩
    simp; omega
  | true =>
    simp only [if_true, decide_eq_true_eq] at hf
    by_cases hv : 0 ≤ v
    · refine ⟨v.toNat, by omega, emod_nonneg _ _ hv (by omega), ?_⟩
      rw [if_neg (by omega)]; omega
    · refine ⟨(v + P).toNat, by omega, emod_neg _ _ (by omega) (by omega), ?_⟩
      rw [if_pos ⟨rfl, by omega⟩]; omega

theorem enc_dec (e : Endian) (n : Nat) (s : Bool) (v : Int) (h : fits n s v = true) :
    ∃ bs, encodeInt e n s v = some bs ∧ bs.length = n ∧ decodeInt e s bs = v := by
  obtain ⟨u, hlt, hu, hv⟩ := fits_cases n s v h
  refine ⟨_, encodeInt_of e n s v u h hu, ?_, ?_⟩
  · rw [view_length, toLE_length]
  · simp only [decodeInt, decodeNat_eq, view_view, view_length, toLE_length]
    rw [fromLE_toLE _ _ (by rw [← pow8]; exact hlt)]
    exact hv

theorem dec_enc (e : Endian) (s : Bool) (bs : Bytes) :
    encodeInt e bs.length (decide (decodeInt e s bs < 0)) (decodeInt e s bs) = some bs := by
  have hlt := decodeNat_lt e bs
  have hbs : view e (toLE bs.length (decodeNat e bs)) = bs := by
    rw [decodeNat_eq]
    have := toLE_fromLE (view e bs)
    rw [view_length] at this
    rw [this, view_view]
  unfold decodeInt
  simp only []
  generalize hP : 2 ^ (8 * bs.length) = P at *
  generalize hu : decodeNat e bs = u at *
  split
  · rename_i hc
    have hneg : decide ((u : Int) - (P : Int) < 0) = true := by simp; omega
    rw [hneg]
    have := encodeInt_of e bs.length true ((u : Int) - (P : Int)) u
      (by simp only [fits, if_true, hP, decide_eq_true_eq]; omega)
      (by rw [hP, emod_neg _ _ (by omega) (by omega)]; simp)
    rw [this, hbs]
  · have hneg : decide ((u : Int) < 0) = false := by simp
    rw [hneg]
    have := encodeInt_of e bs.length false (u : Int) u
      (by simp only [fits, Bool.false_eq_true, if_false, hP, decide_eq_true_eq]; omega)
      (by rw [hP, emod_nonneg _ _ (by omega) (by omega)]; simp)
    rw [this, hbs]

/-! ### pack / unpack / swap -/

theorem pack_some (v : Int) (n : Nat) (e : Endian) (hn : 0 < n) :
    pack v (some (8 * n)) e = encodeInt e n (decide (v < 0)) v := by
  obtain ⟨k, rfl⟩ : ∃ k, n = k + 1 := ⟨n - 1, by omega⟩
  have h8 : 8 * (k + 1) = (8 * k + 7) + 1 := by omega
  rw [h8]
  simp only [pack]
  congr 1
  omega

theorem unpack_some_eq (bs : Bytes) (n : Nat) (e : Endian) (s : Bool) (hl : bs.length = n) :
    unpack bs (some (8 * n)) e s = some (decodeInt e s bs) := by
  simp only [unpack]
  rw [if_neg]
  omega

theorem unpack_some_ne (bs : Bytes) (n : Nat) (e : Endian) (s : Bool) (hn : 0 < n) (hl : bs.length ≠ n) :
    unpack bs (some (8 * n)) e s = none := by
  simp only [unpack]
  rw [if_pos]
  omega

theorem pack_unpack (v : Int) (n : Nat) (e : Endian) (hn : 0 < n) (h : fits n (decide (v < 0)) v = true) :
    ∃ bs, pack v (some (8 * n)) e = some bs ∧ bs.length = n ∧ unpack bs (some (8 * n)) e (decide (v < 0)) = some v := by
  obtain ⟨bs, h1, h2, h3⟩ := enc_dec e n _ v h
  exact ⟨bs, by rw [pack_some _ _ _ hn, h1], h2, by rw [unpack_some_eq _ _ _ _ h2, h3]⟩

theorem unpack_pack (bs : Bytes) (e : Endian) (s : Bool) (hne : bs ≠ []) :
    ∃ v, unpack bs (some (8 * bs.length)) e s = some v ∧ pack v (some (8 * bs.length)) e = some bs := by
  have hn : 0 < bs.length := List.length_pos_iff.mpr hne
  exact ⟨_, unpack_some_eq _ _ _ _ rfl, by rw [pack_some _ _ _ hn, dec_enc]⟩

theorem pack_is_codec (v : Int) (n : Nat) (e : Endian) (hn : 0 < n) :
    pack v (some (8 * n)) e = encodeInt e n (decide (v < 0)) v ∧
    (∀ bs s, bs.length = n → unpack bs (some (8 * n)) e s = some (decodeInt e s bs)) ∧
    (∀ bs s, bs.length ≠ n → unpack bs (some (8 * n)) e s = none) :=
  ⟨pack_some v n e hn, fun bs s h => unpack_some_eq bs n e s h, fun bs s h => unpack_some_ne bs n e s hn h⟩

theorem lt_two_pow_bitLength (m : Nat) : m < 2 ^ bitLength m := by
  unfold bitLength
  split
  · subst_vars; simp
  · exact Nat.lt_log2_self

theorem pack_auto (v : Int) (e : Endian) (hv : 0 ≤ v) :
    ∃ bs, pack v none e = some bs ∧ unpack bs none e false = some v := by
  have hneg : decide (v < 0) = false := by simp; omega
  have hfit : fits ((bitLength v.natAbs + 7) / 8) false v = true := by
    simp only [fits, Bool.false_eq_true, if_false, decide_eq_true_eq]
    refine ⟨hv, ?_⟩
    have h1 := lt_two_pow_bitLength v.natAbs
    have h2 : 2 ^ bitLength v.natAbs ≤ 2 ^ (8 * ((bitLength v.natAbs + 7) / 8)) :=
      Nat.pow_le_pow_right (by decide) (by omega)
    generalize 2 ^ (8 * ((bitLength v.natAbs + 7) / 8)) = P at *
    generalize 2 ^ bitLength v.natAbs = Q at *
    omega
  obtain ⟨bs, h1, _, h3⟩ := enc_dec e _ false v hfit
  refine ⟨bs, ?_, ?_⟩
  · have hlt : ¬ v < 0 := by omega
    simp only [pack, hneg, hlt, if_false]; exact h1
  · simp only [unpack, h3]

/-- without a size a negative value gets `(~v).bit_length() + 1` bits: enough for the value and its sign -/
theorem pack_auto_neg (v : Int) (e : Endian) (hv : v < 0) :
    ∃ bs, pack v none e = some bs ∧ unpack bs none e true = some v := by
  have hneg : decide (v < 0) = true := by simp; omega
  have hfit : fits ((bitLength (v.natAbs - 1) + 1 + 7) / 8) true v = true := by
    simp only [fits, if_true, decide_eq_true_eq]
    have h1 := lt_two_pow_bitLength (v.natAbs - 1)
    have h2 : 2 * 2 ^ bitLength (v.natAbs - 1) ≤ 2 ^ (8 * ((bitLength (v.natAbs - 1) + 1 + 7) / 8)) := by
      rw [← Nat.pow_succ']
      exact Nat.pow_le_pow_right (by decide) (by omega)
    generalize 2 ^ (8 * ((bitLength (v.natAbs - 1) + 1 + 7) / 8)) = P at *
    generalize 2 ^ bitLength (v.natAbs - 1) = Q at *
    omega
  obtain ⟨bs, h1, _, h3⟩ := enc_dec e _ true v hfit
  refine ⟨bs, ?_, ?_⟩
  · simp only [pack, hneg, hv, if_true]; exact h1
  · simp only [unpack, h3]

theorem swap_eq (v : Int) (n : Nat) (hn : 0 < n) (h0 : 0 ≤ v) (h1 : v < 2 ^ (8 * n)) :
    swap v (8 * n) = some ((fromLE (toLE n v.toNat).reverse : Nat) : Int) := by
  have hneg : decide (v < 0) = false := by simp; omega
  have hP : ((2 ^ (8 * n) : Nat) : Int) = (2 : Int) ^ (8 * n) := by simp
  have hfit : fits n false v = true := by
    simp only [fits, Bool.false_eq_true, if_false, decide_eq_true_eq, hP]; exact ⟨h0, h1⟩
  have henc := encodeInt_of .big n false v v.toNat hfit (emod_nonneg _ _ h0 (by rw [hP]; exact h1))
  simp only [swap, pack_some _ _ _ hn, hneg, henc]
  rw [unpack_some_eq _ _ _ _ (by rw [view_length, toLE_length])]
  simp [decodeInt, decodeNat, view]

theorem swap_involution (v : Int) (n : Nat) (hn : 0 < n) (h0 : 0 ≤ v) (h1 : v < 2 ^ (8 * n)) :
    ∃ w, swap v (8 * n) = some w ∧ 0 ≤ w ∧ w < 2 ^ (8 * n) ∧ swap w (8 * n) = some v := by
  have hlen : ((toLE n v.toNat).reverse).length = n := by simp [toLE_length]
  have hlt := fromLE_lt (toLE n v.toNat).reverse
  rw [hlen, ← pow8] at hlt
  have hlt' : ((fromLE (toLE n v.toNat).reverse : Nat) : Int) < 2 ^ (8 * n) := by
    have : ((2 ^ (8 * n) : Nat) : Int) = (2 : Int) ^ (8 * n) := by simp
    rw [← this]; exact Int.ofNat_lt.mpr hlt
  refine ⟨_, swap_eq v n hn h0 h1, Int.natCast_nonneg _, hlt', ?_⟩
  rw [swap_eq _ n hn (Int.natCast_nonneg _) hlt', Int.toNat_natCast]
  have := toLE_fromLE (toLE n v.toNat).reverse
  rw [hlen] at this
  rw [this, List.reverse_reverse, fromLE_toLE]
  · simp; omega
  · rw [← pow8]
    have : ((2 ^ (8 * n) : Nat) : Int) = (2 : Int) ^ (8 * n) := by simp
    rw [← this] at h1; omega

end Cstruct.Hexdump.C19.Lemmas
