/-
  Helper lemmas for `Proofs/CoreDyn.lean`, part 9: the ALIGNED member loop for fragment D WITH bit-fields
  (statements `BTy`, `BIdle`, `BPend`). It merges the invariant of the packed loop with dynamic placement (`CoreDynB`:
  writer position = reader position, = layout offset as long as there is one; a pending unit is related to the bytes
  flushed later by `URel`) with the alignment facts of the aligned loop for static layouts (`CoreBitsA1`): under
  `bitsNatural` a unit is opened at a multiple of its size — by the layout offset or by padding on the absolute position —
  so that neither the writer's padding in front of an enum-typed bit-field that continues the unit nor the reader's
  re-alignment after a continuing bit-field moves anything.
-/
import Proofs.Lemmas.CoreDynAB0
namespace Cstruct.Core.Lemmas
open Cstruct Cstruct.Core Cstruct.C06 Cstruct.C06.Lemmas
open Cstruct.C05.Lemmas (encBytes encBytes_length)
set_option linter.unusedSimpArgs false

/-- hypotheses on a member list that are passed down unchanged -/
structure BHyps (cfg : Cfg) (fs : Fields) : Prop where
  frag : Fields.fragD cfg fs = true
  unif : Fields.uniformAlign true fs = true
  p2 : fs.pow2Aligned cfg
  nat : Fields.bitsNatural cfg fs = true

theorem BHyps.tail {cfg name an ty bits rest} (h : BHyps cfg (.cons name an ty bits rest)) : BHyps cfg rest := by
  obtain ⟨h1, h2, h3, h4⟩ := h
  simp only [Fields.fragD, Bool.and_eq_true] at h1
  simp only [Fields.uniformAlign, Bool.and_eq_true] at h2
  simp only [Fields.pow2Aligned] at h3
  simp only [Fields.bitsNatural, Bool.and_eq_true] at h4
  exact ⟨h1.2, h2.2, h3.2, h4.2⟩

def BTy (cfg : Cfg) (ty : Ty) : Prop :=
  ty.fragD cfg = true → ty.uniformAlign true = true → ty.pow2Aligned cfg → ty.bitsNatural cfg = true →
  ∀ ctx v, HasTyD cfg ctx v ty → ∀ pos, sAlign cfg ty ∣ pos → ∀ bs, write cfg ty v pos = .ok bs →
    (∀ k, ty.size cfg = some k → bs.length = k) ∧ sAlign cfg ty ∣ pos + bs.length ∧
    ∀ (pre post : Bytes), pre.length = pos → read cfg ty ctx (pre ++ bs ++ post) pos = .ok (v, pos + bs.length)

def BIdle (cfg : Cfg) (fs : Fields) : Prop :=
  BHyps cfg fs → ∀ ctx vs, HasTysD cfg ctx vs fs →
  ∀ st sz sa offs, Fields.layout cfg true fs st = .ok (sz, sa, offs) → LIdle st fs →
  ∀ start pos, allAlignDvd cfg start fs → (∀ o, st.offset = some o → pos = start + o) →
  ∀ out bbF, writeFields cfg true fs offs vs start BitBuf.empty pos = .ok (out, bbF) →
    ∃ fl, flushBits cfg bbF = .ok fl ∧
      (∀ s, sz = some s → ∃ e, pos + (out ++ fl).length = start + e ∧ s = e + padNat e sa) ∧
      ∀ (pre post : Bytes) (bbR : BitBuf), pre.length = pos → RIdle bbR fs →
        ∃ szs, readFields cfg true fs offs start bbR ctx (pre ++ (out ++ fl) ++ post) pos =
          .ok (vs, szs, pos + (out ++ fl).length)

def BPend (cfg : Cfg) (fs : Fields) : Prop :=
  BHyps cfg fs → ∀ ctx vs, HasTysD cfg ctx vs fs →
  ∀ st sz sa offs, Fields.layout cfg true fs st = .ok (sz, sa, offs) →
  ∀ ft fsz k n bbW, Pend cfg st ft fsz k n bbW →
  ∀ start pos, allAlignDvd cfg start fs → fsz ∣ pos → (∀ o, st.offset = some o → pos + fsz = start + o) →
  ∀ out bbF, writeFields cfg true fs offs vs start bbW pos = .ok (out, bbF) →
    ∃ fl F tail, flushBits cfg bbF = .ok fl ∧ out ++ fl = encBytes cfg.endian fsz F ++ tail ∧ F < 2 ^ (8 * fsz) ∧
      URel cfg.endian (8 * fsz) k n F ∧
      (∀ s, sz = some s → ∃ e, pos + (out ++ fl).length = start + e ∧ s = e + padNat e sa) ∧
      ∀ (pre post : Bytes) (bbR : BitBuf) (U : Int), pre.length = pos → bbR.ty = some ft →
        ReadInv cfg.endian (8 * fsz) U k bbR → U % ((2 ^ (8 * fsz) : Nat) : Int) = (F : Int) →
        ∃ szs, readFields cfg true fs offs start bbR ctx (pre ++ (out ++ fl) ++ post) (pos + fsz) =
          .ok (vs, szs, pos + (out ++ fl).length)

/-- the aligned writer's bit-field step once the unit `bb2` is selected and the padding is out -/
def putStepT (cfg : Cfg) (rest : Fields) (offs : List (Option Nat)) (vs : Vals) (start : Nat) (fsz : Nat) (i : Int) (w : Nat)
    (bb2 : BitBuf) (pos : Nat) : Except Err (Bytes × BitBuf) :=
  match bb2.put cfg.endian fsz i w with
  | none => .error .value
  | some bb3 =>
    (if bb3.remaining = 0 then flushBits cfg bb3 else .ok []).bind fun fl3 =>
      (writeFields cfg true rest offs vs start (if bb3.remaining = 0 then BitBuf.empty else bb3) (pos + fl3.length)).bind
        fun (o, bbf) => .ok (fl3 ++ o, bbf)

theorem putStepA_T (cfg : Cfg) (rest offs vs start fsz i w bb2 wpos pad) (out : Bytes) (bbF : BitBuf)
    (h : putStepA cfg true rest offs vs start fsz i w bb2 wpos pad = .ok (out, bbF)) :
    ∃ out', out = zeros pad ++ out' ∧ putStepT cfg rest offs vs start fsz i w bb2 (wpos + pad) = .ok (out', bbF) := by
  simp only [putStepA, putStepT] at h ⊢
  cases hp : bb2.put cfg.endian fsz i w with
  | none => rw [hp] at h; cases h
  | some bb3 =>
    rw [hp] at h
    simp only [] at h ⊢
    obtain ⟨fl3, h1, h2⟩ := bind_ok h
    obtain ⟨⟨o, bbf⟩, h3, h4⟩ := bind_ok h2
    simp only [Except.ok.injEq, Prod.mk.injEq] at h4
    obtain ⟨rfl, rfl⟩ := h4
    refine ⟨fl3 ++ o, by simp only [List.append_assoc], ?_⟩
    rw [h1]
    simp only [Except.bind]
    have e : wpos + (zeros pad ++ fl3).length = wpos + pad + fl3.length := by
      rw [List.length_append, zeros_length]; omega
    rw [e] at h3
    rw [h3]

theorem bit_step_B (cfg : Cfg) (rest : Fields) (IHi : BIdle cfg rest) (IHp : BPend cfg rest)
    (hH : BHyps cfg rest) (ctx' : Ctx) (vs' : Vals)
    (hvs : HasTysD cfg ctx' vs' rest) (st1 : LState) (sz sa offs') (hlay : Fields.layout cfg true rest st1 = .ok (sz, sa, offs'))
    (ft : Scalar) (fsz k n w : Nat) (bb2 : BitBuf) (hi : Scalar.isInt ft = true) (hsz : ft.size = some fsz)
    (hbt : st1.bitsType = some ft) (hbr : st1.bitsRemaining = ((8 * fsz - (k + w) : Nat) : Int)) (hkw : k + w ≤ 8 * fsz)
    (hoff : st1.offset = st1.bitsFieldOffset.map (· + fsz)) (hty : bb2.ty = some ft)
    (hinv : WriteInv cfg.endian (8 * fsz) k n bb2) (hn : n < 2 ^ k) (i : Int) (hi0 : 0 ≤ i) (hi1 : i < 2 ^ w)
    (start pos : Nat) (hdv : allAlignDvd cfg start rest) (hual : fsz ∣ pos) (out : Bytes) (bbF : BitBuf)
    (hw : putStepT cfg rest offs' vs' start fsz i w bb2 pos = .ok (out, bbF))
    (hpos : ∀ o, st1.offset = some o → pos + fsz = start + o) :
    ∃ fl F tail, flushBits cfg bbF = .ok fl ∧ out ++ fl = encBytes cfg.endian fsz F ++ tail ∧ F < 2 ^ (8 * fsz) ∧
      URel cfg.endian (8 * fsz) k n F ∧
      (∀ s, sz = some s → ∃ e, pos + (out ++ fl).length = start + e ∧ s = e + padNat e sa) ∧
      ∀ (pre post : Bytes) (bbR : BitBuf) (U : Int), pre.length = pos → bbR.ty = some ft →
        ReadInv cfg.endian (8 * fsz) U k bbR → U % ((2 ^ (8 * fsz) : Nat) : Int) = (F : Int) →
        ∃ bbR2, bbR.take cfg.endian w = some (i, bbR2) ∧
          ∃ szs, readFields cfg true rest offs' start bbR2 ctx' (pre ++ (out ++ fl) ++ post) (pos + fsz) =
            .ok (vs', szs, pos + (out ++ fl).length) := by
  obtain ⟨m, rfl⟩ := Int.eq_ofNat_of_zero_le hi0
  have hm : m < 2 ^ w := by exact_mod_cast hi1
  obtain ⟨bb3, hput, hinv3⟩ := put_step cfg.endian fsz k n w m bb2 hinv hn hm hkw
  have hn3 := acc_lt cfg.endian k n m w hn hm
  have hty3 : bb3.ty = some ft := by rw [put_ty hput, hty]
  simp only [putStepT, hput] at hw
  -- the reader's step, once the final unit value is known
  have rd : ∀ (F : Nat), URel cfg.endian (8 * fsz) (k + w) (acc cfg.endian k n m w) F →
      URel cfg.endian (8 * fsz) k n F ∧
      ∀ (bbR : BitBuf) (U : Int), ReadInv cfg.endian (8 * fsz) U k bbR → U % ((2 ^ (8 * fsz) : Nat) : Int) = (F : Int) →
        ∃ bbR2, bbR.take cfg.endian w = some ((m : Int), bbR2) ∧ ReadInv cfg.endian (8 * fsz) U (k + w) bbR2 ∧
          bbR2.ty = bbR.ty := by
    intro F hrel
    obtain ⟨h1, h2⟩ := urel_step cfg.endian (8 * fsz) k n m w F hn hm hkw hrel
    refine ⟨h1, ?_⟩
    intro bbR U hR hUF
    obtain ⟨bbR2, ht, hR2, _, _⟩ := take_step cfg.endian (8 * fsz) k w U bbR hR hkw
    have hlo : slotLo cfg.endian (8 * fsz) k w + w ≤ 8 * fsz := by
      cases cfg.endian <;> simp only [slotLo] <;> omega
    rw [← slotVal_emod U (8 * fsz) _ w hlo, hUF, h2] at ht
    exact ⟨bbR2, ht, hR2, take_ty ht⟩
  by_cases hex : k + w = 8 * fsz
  · -- the unit is exhausted: it is flushed now
    have hrem3 : bb3.remaining = 0 := by rw [hinv3.1]; omega
    simp only [hrem3, if_true] at hw
    obtain ⟨F, hfl3, hF, hrel⟩ := flush_pend cfg ft fsz (k + w) _ bb3 hty3 hsz hinv3 hn3 (by omega)
    rw [hfl3] at hw
    simp only [Except.bind] at hw
    obtain ⟨⟨o, bbF'⟩, hwr, hout⟩ := bind_ok hw
    simp only [Except.ok.injEq, Prod.mk.injEq] at hout
    obtain ⟨rfl, rfl⟩ := hout
    have hl3 : (encBytes cfg.endian fsz F).length = fsz := encBytes_length _ _ _
    obtain ⟨fl, hfl, hsize, hread⟩ := IHi hH ctx' vs' hvs st1 sz sa offs' hlay
      (lidle_of_rem st1 (by rw [hbr]; omega) rest) start _ hdv (by intro o' ho'; rw [hl3]; exact hpos o' ho') o bbF' hwr
    obtain ⟨hrel0, hrd⟩ := rd F hrel
    refine ⟨fl, F, o ++ fl, hfl, by simp only [List.append_assoc], hF, hrel0, ?_, ?_⟩
    · intro s hs
      obtain ⟨e, h1, h2⟩ := hsize s hs
      refine ⟨e, ?_, h2⟩
      simp only [List.length_append, hl3] at h1 ⊢; omega
    · intro pre post bbR U hp hRty hR hUF
      obtain ⟨bbR2, ht, hR2, _⟩ := hrd bbR U hR hUF
      refine ⟨bbR2, ht, ?_⟩
      have hri : RIdle bbR2 rest := ridle_of_rem bbR2 (by rw [hR2.2.1]; omega) rest
      obtain ⟨szs, hr⟩ := hread (pre ++ encBytes cfg.endian fsz F) post bbR2
        (by rw [List.length_append, hp, hl3]) hri
      refine ⟨szs, ?_⟩
      have e1 : pre ++ (encBytes cfg.endian fsz F ++ o ++ fl) ++ post =
          pre ++ encBytes cfg.endian fsz F ++ (o ++ fl) ++ post := by simp only [List.append_assoc]
      rw [hl3] at hr
      rw [e1, hr]
      simp only [List.length_append, hl3]
      congr 3; omega
  · -- the unit stays pending
    have hrem3 : bb3.remaining ≠ 0 := by rw [hinv3.1]; omega
    simp only [hrem3, if_false, Except.bind, List.length_nil, Nat.add_zero, List.nil_append] at hw
    obtain ⟨⟨o, bbF'⟩, hwr, hout⟩ := bind_ok hw
    simp only [Except.ok.injEq, Prod.mk.injEq] at hout
    obtain ⟨rfl, rfl⟩ := hout
    have hP : Pend cfg st1 ft fsz (k + w) (acc cfg.endian k n m w) bb3 :=
      ⟨hi, hsz, hbt, hbr, by omega, hoff, hty3, hinv3, hn3⟩
    obtain ⟨fl, F, tail, hfl, hdata, hF, hrel, hsize, hread⟩ := IHp hH ctx' vs' hvs st1 sz sa offs' hlay ft fsz _ _ bb3 hP
      start pos hdv hual hpos o bbF' hwr
    obtain ⟨hrel0, hrd⟩ := rd F hrel
    refine ⟨fl, F, tail, hfl, hdata, hF, hrel0, hsize, ?_⟩
    intro pre post bbR U hp hRty hR hUF
    obtain ⟨bbR2, ht, hR2, hty2⟩ := hrd bbR U hR hUF
    refine ⟨bbR2, ht, ?_⟩
    exact hread pre post bbR2 U hp (by rw [hty2, hRty]) hR2 hUF


/-! ### The member loop, case by case -/

theorem b_idle_nil (cfg : Cfg) : BIdle cfg .nil := by
  intro _ ctx vs hvs st sz sa offs hlay _ start pos _ hpos out bbF hw
  cases hvs
  rw [layout_nil_true] at hlay
  rw [writeFields_nil] at hw
  simp only [Except.ok.injEq, Prod.mk.injEq] at hlay hw
  obtain ⟨rfl, rfl, rfl⟩ := hlay
  obtain ⟨rfl, rfl⟩ := hw
  refine ⟨[], rfl, ?_, ?_⟩
  · intro s hs
    cases ho : st.offset with
    | none => rw [ho] at hs; cases hs
    | some o =>
      rw [ho] at hs
      simp only [Option.map, Option.some.injEq] at hs
      exact ⟨o, by simpa using hpos o ho, hs.symm⟩
  · intro pre post bbR _ _
    exact ⟨[], by rw [readFields_nil]; simp⟩

theorem b_pend_nil (cfg : Cfg) : BPend cfg .nil := by
  intro _ ctx vs hvs st sz sa offs hlay ft fsz k n bbW hP start pos _ _ hpos out bbF hw
  cases hvs
  rw [layout_nil_true] at hlay
  rw [writeFields_nil] at hw
  simp only [Except.ok.injEq, Prod.mk.injEq] at hlay hw
  obtain ⟨rfl, rfl, rfl⟩ := hlay
  obtain ⟨rfl, rfl⟩ := hw
  obtain ⟨F, hfl, hF, hrel⟩ := flush_pend cfg ft fsz k n bbW hP.wty hP.size hP.winv hP.nlt (by have := hP.lt; omega)
  have hl : (encBytes cfg.endian fsz F).length = fsz := encBytes_length _ _ _
  refine ⟨_, F, [], hfl, by simp, hF, hrel, ?_, ?_⟩
  · intro s hs
    cases ho : st.offset with
    | none => rw [ho] at hs; cases hs
    | some o =>
      rw [ho] at hs
      simp only [Option.map, Option.some.injEq] at hs
      exact ⟨o, by simp only [List.nil_append, hl]; exact hpos o ho, hs.symm⟩
  · intro pre post bbR U _ _ _ _
    exact ⟨[], by rw [readFields_nil]; simp [hl]⟩

/-- where an aligned member that is not behind a pending unit is placed: facts shared by the two idle cases -/
theorem place_facts (cfg : Cfg) (ty : Ty) (hfa : IsP2 (ty.alignment cfg)) (st : LState) (start pos : Nat)
    (hd : ty.alignment cfg ∣ start) (hpos : ∀ o, st.offset = some o → pos = start + o) :
    pos + padW cfg ty (alOff cfg ty st) start pos = fieldPos cfg true ty (alOff cfg ty st) start pos ∧
    ty.alignment cfg ∣ pos + padW cfg ty (alOff cfg ty st) start pos ∧
    ∀ o, alOff cfg ty st = some o → pos + padW cfg ty (alOff cfg ty st) start pos = start + o := by
  cases ho : st.offset with
  | none =>
    simp only [alOff, ho, Option.map, padW, fieldPos, Option.isNone_none, and_self, if_true]
    exact ⟨trivial, padNat_p2_dvd hfa pos, fun o h => by cases h⟩
  | some o0 =>
    have h1 := hpos o0 ho
    have h2 : pos + padW cfg ty (some (o0 + padNat o0 (ty.alignment cfg))) start pos =
        start + (o0 + padNat o0 (ty.alignment cfg)) := by
      simp only [padW]; split <;> omega
    simp only [alOff, ho, Option.map, h2, fieldPos, Option.isNone_some, Bool.false_eq_true, and_false, if_false,
      Option.some.injEq]
    exact ⟨trivial, Nat.dvd_add hd (padNat_p2_dvd hfa o0), fun o h => by rw [h]⟩

theorem b_idle_cons_nb (cfg : Cfg) (name an ty rest) (IHt : BTy cfg ty) (IHi : BIdle cfg rest) :
    BIdle cfg (.cons name an ty none rest) := by
  intro hH ctx vs hvs st sz sa offs hlay _ start pos hdv hpos out bbF hw
  have hHt := hH.tail
  obtain ⟨hS, hU, hP, hN⟩ := hH
  simp only [Fields.fragD, Bool.and_eq_true] at hS
  simp only [Fields.uniformAlign, Bool.and_eq_true] at hU
  simp only [Fields.pow2Aligned] at hP
  simp only [Fields.bitsNatural, Bool.and_eq_true] at hN
  have hfa := alignment_p2 cfg ty hP.1
  cases hvs with
  | @cons _ v vs' _ _ _ _ hv hvs' =>
  rw [layout_nb_true] at hlay
  obtain ⟨⟨sz', sa', offs'⟩, hlay', heq⟩ := bind_ok hlay
  simp only [Except.ok.injEq, Prod.mk.injEq] at heq
  obtain ⟨rfl, rfl, rfl⟩ := heq
  obtain ⟨hfp, hal, hfo⟩ := place_facts cfg ty hfa st start pos hdv.1 hpos
  rw [show st.offset.map (fun o => o + padNat o (ty.alignment cfg)) = alOff cfg ty st from rfl] at hw ⊢
  rw [writeFields_nb_idle_true] at hw
  generalize hpad : padW cfg ty (alOff cfg ty st) start pos = pad at hw hfp hal hfo
  obtain ⟨body, hwb, hw2⟩ := bind_ok hw
  obtain ⟨⟨o, bbF'⟩, hwr, heq⟩ := bind_ok hw2
  simp only [Except.ok.injEq, Prod.mk.injEq] at heq
  obtain ⟨rfl, rfl⟩ := heq
  obtain ⟨hsize, _, hread⟩ := IHt hS.1 hU.1 hP.1 hN.1 ctx v hv (pos + pad)
    (Nat.dvd_trans (sAlign_dvd_alignment cfg ty) hal) body hwb
  have hpos' : ∀ o', (stNbT cfg ty st).offset = some o' → pos + (zeros pad ++ body).length = start + o' := by
    intro o' ho'
    simp only [stNbT] at ho'
    cases hso : st.offset with
    | none => rw [hso] at ho'; cases ho'
    | some o0 =>
      rw [hso] at ho'
      cases hk : ty.size cfg with
      | none => rw [hk] at ho'; cases ho'
      | some k =>
        rw [hk] at ho'
        simp only [Option.some.injEq] at ho'
        have h2 := hfo (o0 + padNat o0 (ty.alignment cfg)) (by simp only [alOff, hso, Option.map])
        rw [List.length_append, zeros_length, hsize k hk]; omega
  obtain ⟨fl, hfl, hsz, hrd⟩ := IHi hHt (ctx.set name v) vs' hvs' (stNbT cfg ty st) sz' sa' offs' hlay'
    (lidle_of_rem _ rfl rest) start _ hdv.2 hpos' o bbF' hwr
  refine ⟨fl, hfl, ?_, ?_⟩
  · intro s hs
    obtain ⟨e, h1, h2⟩ := hsz s hs
    refine ⟨e, ?_, h2⟩
    simp only [List.length_append] at h1 ⊢; omega
  · intro pre post bbR hp _
    rw [readFields_cons_nobits _ _ _ _ _ _ _ _ _ _ _ _ _ rfl]
    simp only [List.head?, Option.join, Option.bind, id, List.drop_one, List.tail_cons]
    rw [← hfp]
    have e1 : pre ++ (zeros pad ++ body ++ o ++ fl) ++ post = (pre ++ zeros pad) ++ body ++ ((o ++ fl) ++ post) := by
      simp only [List.append_assoc]
    have e2 : pre ++ (zeros pad ++ body ++ o ++ fl) ++ post = (pre ++ zeros pad ++ body) ++ (o ++ fl) ++ post := by
      simp only [List.append_assoc]
    have hl1 : (pre ++ zeros pad).length = pos + pad := by rw [List.length_append, zeros_length, hp]
    have hr1 := hread (pre ++ zeros pad) ((o ++ fl) ++ post) hl1
    rw [← e1] at hr1
    rw [hr1]
    simp only [Except.bind]
    obtain ⟨szs, hr2⟩ := hrd (pre ++ zeros pad ++ body) post BitBuf.empty
      (by rw [List.length_append, hl1, List.length_append, zeros_length]; omega) (ridle_of_rem _ rfl rest)
    rw [← e2] at hr2
    have e3 : pos + pad + body.length = pos + (zeros pad ++ body).length := by
      rw [List.length_append, zeros_length]; omega
    rw [e3, hr2]
    simp only [List.length_append]
    exact ⟨_, by congr 3; omega⟩

theorem b_idle_cons_bit (cfg : Cfg) (name an ty b rest) (IHi : BIdle cfg rest) (IHp : BPend cfg rest) :
    BIdle cfg (.cons name an ty (some (b + 1)) rest) := by
  intro hH ctx vs hvs st sz sa offs hlay hli start pos hdv hpos out bbF hw
  have hHt := hH.tail
  obtain ⟨hS, hU, hP, hN⟩ := hH
  simp only [Fields.fragD, Bool.and_eq_true] at hS
  simp only [Fields.pow2Aligned] at hP
  obtain ⟨v, vs', rfl⟩ := hasTysD_cons_vals hvs
  obtain ⟨i, rfl, hi0, hi1, hvs'⟩ := hasTysD_bits hvs
  obtain ⟨ft, fsz, hbase, hint, hsz⟩ := bitOk_base ty hS.1
  have hfa := alignment_p2 cfg ty hP.1
  have hfsz : fsz = ty.alignment cfg := bitsNatural_head hN hbase hsz
  have hnew : st.bitsRemaining = 0 ∨ some ft ≠ st.bitsType := by
    rcases hli with h | h
    · exact Or.inl h
    · rw [hbase] at h; exact Or.inr h
  rw [layout_bit_new_true cfg name an ty b rest st ft fsz hbase hsz hnew] at hlay
  split at hlay
  · cases hlay
  rename_i hfit
  obtain ⟨⟨sz', sa', offs'⟩, hlay', heq⟩ := bind_ok hlay
  simp only [Except.ok.injEq, Prod.mk.injEq] at heq
  obtain ⟨rfl, rfl, rfl⟩ := heq
  obtain ⟨hfp, hal, hfo⟩ := place_facts cfg ty hfa st start pos hdv.1 hpos
  rw [writeFields_bit_idle_true cfg name an ty b rest _ offs' _ vs' start pos ft fsz i hbase hsz (bitVal_cases ty i)] at hw
  generalize hpad : padW cfg ty (alOff cfg ty st) start pos = pad at hw hfp hal hfo
  obtain ⟨out', rfl, hw'⟩ := putStepA_T cfg rest offs' vs' start fsz i (b + 1) _ pos pad out bbF hw
  have h8 : fsz * 8 = 8 * fsz := Nat.mul_comm _ _
  have hpos' : ∀ o, (stNewT cfg ty ft fsz (b + 1) st).offset = some o → pos + pad + fsz = start + o := by
    intro o ho
    simp only [stNewT] at ho
    cases hao : alOff cfg ty st with
    | none => rw [hao] at ho; cases ho
    | some o0 =>
      rw [hao] at ho
      simp only [Option.map, Option.some.injEq] at ho
      rw [hfo o0 hao]; omega
  obtain ⟨fl, F, tail, hfl, hdata, hF, _, hsize, hread⟩ := bit_step_B cfg rest IHi IHp hHt (ctx.set name (ty.bitVal i)) vs' hvs'
    (stNewT cfg ty ft fsz (b + 1) st) sz' sa' offs' hlay' ft fsz 0 0 (b + 1) _ hint hsz rfl
    (by simp only [stNewT]; omega) (by omega) rfl rfl (by rw [h8]; exact writeInv_init _ _ _) (by simp) i hi0 hi1
    start (pos + pad) hdv.2 (by rw [hfsz]; exact hal) out' bbF hw' hpos'
  refine ⟨fl, hfl, ?_, ?_⟩
  · intro s hs
    obtain ⟨e, h1, h2⟩ := hsize s hs
    refine ⟨e, ?_, h2⟩
    simp only [List.length_append, zeros_length] at h1 ⊢; omega
  · intro pre post bbR hp hri
    have hc : bbR.remaining = 0 ∨ bbR.ty ≠ some ft := by
      rcases hri with h | h
      · exact Or.inl h
      · rw [hbase] at h; exact Or.inr h
    have hl1 : (pre ++ zeros pad).length = pos + pad := by rw [List.length_append, zeros_length, hp]
    have hd : pre ++ (zeros pad ++ out' ++ fl) ++ post =
        (pre ++ zeros pad) ++ encBytes cfg.endian fsz F ++ (tail ++ post) := by
      rw [List.append_assoc (zeros pad) out' fl, hdata]; simp only [List.append_assoc]
    have hd2 : pre ++ (zeros pad ++ out' ++ fl) ++ post = (pre ++ zeros pad) ++ (out' ++ fl) ++ post := by
      simp only [List.append_assoc]
    obtain ⟨U, hload, hUF⟩ := loadUnit_new cfg ft hint fsz hsz F hF (pre ++ zeros pad) (tail ++ post) (pos + pad)
      hl1 bbR hc
    rw [← hd] at hload
    obtain ⟨bbR2, htake, szs, hr⟩ := hread (pre ++ zeros pad) post { ty := some ft, buffer := U, remaining := fsz * 8 } U
      hl1 rfl (by rw [h8]; exact readInv_init _ _ _ _) hUF
    rw [← hd2] at hr
    have e4 : pos + pad + (out' ++ fl).length = pos + (zeros pad ++ out' ++ fl).length := by
      simp only [List.length_append, zeros_length]; omega
    rw [e4] at hr
    rw [readFields_cons_bits]
    simp only [hbase, List.head?, Option.join, Option.bind, id, List.drop_one, List.tail_cons]
    rw [← hfp, hload]
    simp only [Except.bind, htake, bitVal_eq, hr]
    exact ⟨_, rfl⟩

theorem b_pend_cons (cfg : Cfg) (name an ty bits rest) (Hidle : BIdle cfg (.cons name an ty bits rest))
    (IHi : BIdle cfg rest) (IHp : BPend cfg rest) : BPend cfg (.cons name an ty bits rest) := by
  intro hH ctx vs hvs st sz sa offs hlay ft fsz k n bbW hPd start pos hdv hual hpos out bbF hw
  obtain ⟨v, vs', rfl⟩ := hasTysD_cons_vals hvs
  by_cases hsame : isBitW bits = true ∧ ty.bitBase = some ft
  · obtain ⟨hb, hbase⟩ := hsame
    rcases bits with _ | _ | b
    · simp [isBitW] at hb
    · simp [isBitW] at hb
    have hHt := hH.tail
    obtain ⟨hS, hU, hP, hN⟩ := hH
    simp only [Fields.pow2Aligned] at hP
    obtain ⟨i, rfl, hi0, hi1, hvs'⟩ := hasTysD_bits hvs
    have hfa := alignment_p2 cfg ty hP.1
    have hfsz : fsz = ty.alignment cfg := bitsNatural_head hN hbase hPd.size
    have hd1 : ty.alignment cfg ∣ pos := by rw [← hfsz]; exact hual
    have hd2 : ty.alignment cfg ∣ pos + fsz := by
      rw [← hfsz]; exact Nat.dvd_add hual (Nat.dvd_refl _)
    have hd3 : ∀ o, st.offset = some o → padNat o (ty.alignment cfg) = 0 := by
      intro o ho
      apply padNat_of_dvd hfa
      have h1 := hpos o ho
      have h2 : ty.alignment cfg ∣ start + o := by rw [← h1]; exact hd2
      exact (Nat.dvd_add_right hdv.1).1 h2
    have hrem : st.bitsRemaining ≠ 0 := by rw [hPd.lrem]; have := hPd.lt; omega
    rw [layout_bit_cont_true cfg name an ty b rest st ft fsz hbase hPd.size hrem hPd.lty hPd.loff hd3] at hlay
    split at hlay
    · cases hlay
    rename_i hfit
    obtain ⟨⟨sz', sa', offs'⟩, hlay', heq⟩ := bind_ok hlay
    simp only [Except.ok.injEq, Prod.mk.injEq] at heq
    obtain ⟨rfl, rfl, rfl⟩ := heq
    have hwrem : bbW.remaining ≠ 0 := by rw [hPd.winv.1]; have := hPd.lt; omega
    rw [writeFields_bit_cont_al cfg true name an ty b rest offs' _ vs' start pos ft fsz i bbW hbase hPd.size
      (bitVal_cases ty i) hPd.wty hwrem (fun _ => padNat_of_dvd hfa _ hd1)] at hw
    obtain ⟨out', hout, hw'⟩ := putStepA_T cfg rest offs' vs' start fsz i (b + 1) bbW pos 0 out bbF hw
    simp only [zeros, List.replicate_zero, List.nil_append, Nat.add_zero] at hout hw'
    subst hout
    rw [hPd.lrem] at hfit
    obtain ⟨fl, F, tail, hfl, hdata, hF, hrel, hsize, hread⟩ := bit_step_B cfg rest IHi IHp hHt (ctx.set name (ty.bitVal i))
      vs' hvs' (stCont cfg ty (b + 1) st) sz' sa' offs' hlay' ft fsz k n (b + 1) bbW hPd.isInt hPd.size hPd.lty
      (by simp only [stCont, hPd.lrem]; omega) (by omega) hPd.loff hPd.wty hPd.winv hPd.nlt i hi0 hi1
      start pos hdv.2 hual out bbF hw' hpos
    refine ⟨fl, F, tail, hfl, hdata, hF, hrel, hsize, ?_⟩
    intro pre post bbR U hp hRty hR hUF
    obtain ⟨bbR2, htake, szs, hr⟩ := hread pre post bbR U hp hRty hR hUF
    have hc : ¬ (bbR.remaining = 0 ∨ bbR.ty ≠ some ft) := by
      have := hPd.lt
      rw [hR.2.1, hRty]; simp; omega
    rw [readFields_cons_bits]
    simp only [hbase, List.head?, Option.join, Option.bind, id, List.drop_one, List.tail_cons, loadUnit, hc, if_false]
    rw [fieldPos_none cfg true ty start _ (fun _ => padNat_of_dvd hfa _ hd2)]
    simp only [Except.bind, htake, bitVal_eq, hr]
    exact ⟨_, rfl⟩
  · have hne : isBitW bits = false ∨ ty.bitBase ≠ some ft := by
      by_cases h1 : isBitW bits = true
      · exact Or.inr (fun h2 => hsame ⟨h1, h2⟩)
      · exact Or.inl (by simpa using h1)
    rw [writeFields_flush cfg true name an ty bits rest offs v vs' start bbW pos ft hPd.wty hne] at hw
    obtain ⟨F, hfl0, hF, hrel⟩ := flush_pend cfg ft fsz k n bbW hPd.wty hPd.size hPd.winv hPd.nlt (by have := hPd.lt; omega)
    have hl0 : (encBytes cfg.endian fsz F).length = fsz := encBytes_length _ _ _
    rw [hfl0] at hw
    simp only [Except.bind] at hw
    obtain ⟨⟨o, bbF'⟩, hwr, heq⟩ := bind_ok hw
    simp only [Except.ok.injEq, Prod.mk.injEq] at heq
    obtain ⟨rfl, rfl⟩ := heq
    have hli : LIdle st (.cons name an ty bits rest) := by
      rcases bits with _ | _ | b
      · trivial
      · trivial
      · right
        rw [hPd.lty]
        rcases hne with h | h
        · simp [isBitW] at h
        · exact h
    rw [hl0] at hwr
    obtain ⟨fl, hfl, hsize, hread⟩ := Hidle hH ctx _ hvs st sz sa offs hlay hli start (pos + fsz) hdv hpos o bbF' hwr
    refine ⟨fl, F, o ++ fl, hfl, by simp only [List.append_assoc], hF, hrel, ?_, ?_⟩
    · intro s hs
      obtain ⟨e, h1, h2⟩ := hsize s hs
      refine ⟨e, ?_, h2⟩
      simp only [List.length_append, hl0] at h1 ⊢; omega
    · intro pre post bbR U hp hRty hR hUF
      have hri : RIdle bbR (.cons name an ty bits rest) := by
        rcases bits with _ | _ | b
        · trivial
        · trivial
        · right
          rw [hRty]
          rcases hne with h | h
          · simp [isBitW] at h
          · exact fun h' => h h'.symm
      obtain ⟨szs, hr⟩ := hread (pre ++ encBytes cfg.endian fsz F) post bbR
        (by rw [List.length_append, hp, hl0]) hri
      refine ⟨szs, ?_⟩
      have e1 : pre ++ (encBytes cfg.endian fsz F ++ o ++ fl) ++ post =
          pre ++ encBytes cfg.endian fsz F ++ (o ++ fl) ++ post := by simp only [List.append_assoc]
      rw [e1, hr]
      simp only [List.length_append, hl0]
      congr 3; omega

end Cstruct.Core.Lemmas
