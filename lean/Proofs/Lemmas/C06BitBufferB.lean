/-
  Helper lemmas for `Proofs/C06BitBuffer.lean`, part 2: one call of `write` / `flush` in each situation the class
  distinguishes, the stream after a flush, and what a reader loads from flushed bytes.
-/
import Proofs.Lemmas.C06BitBufferA
import Proofs.Lemmas.CoreBitsUnfold
namespace Cstruct.C06.BB
open Cstruct Cstruct.BBuf Cstruct.C06 Cstruct.C06.Lemmas
open Cstruct.C05.Lemmas (encBytes encBytes_length decodeNat_encBytes encodeInt_eq)
open Cstruct.Core.Lemmas (URel urel_step slotVal_emod)
set_option linter.unusedSimpArgs false

/-! ### `write` and `BitBuf.put` -/

/-- the object after `write` selected a unit of `n` bytes of type `t` -/
def selected (bb : BB) (t : BTy) (n : Nat) : BB := { bb with ty := some t, remaining := (n : Int) * 8 }

/-- **`write` is `BitBuf.put`** wherever `put` is defined: the current unit goes on (same storage type, `r > 0` bits left,
    `r` at most the unit), the value fits its width and the width fits the unit -/
theorem write_eq_put (bb : BB) (t : BTy) (n r bits : Nat) (v : Int) (b : BitBuf)
    (hty : bb.ty = some t) (hsz : t.size = some n) (hrem : bb.remaining = (r : Int)) (hr : r ≠ 0) (hrn : r ≤ n * 8)
    (hput : BitBuf.put bb.endian { ty := none, buffer := bb.buffer, remaining := r } n v bits = some b) :
    bb.write t v bits =
      if b.remaining = 0 then ({ bb with buffer := b.buffer, remaining := (b.remaining : Int) } : BB).flush
      else .ok ({ bb with buffer := b.buffer, remaining := (b.remaining : Int) }, ()) := by
  have h1 : ¬ (bb.remaining = 0 ∨ bb.ty ≠ some t) := by
    rw [hrem, hty]; simp; omega
  simp only [BitBuf.put] at hput
  split at hput
  · exact absurd hput (by simp)
  rename_i hb
  split at hput
  · exact absurd hput (by simp)
  rename_i hv
  simp only [Option.some.injEq] at hput
  subst hput
  simp only [BB.write, if_neg h1]
  simp only [hty, hsz, if_neg hv]
  cases he : bb.endian with
  | little =>
    have hs : ¬ (((n * 8 : Nat) : Int) - bb.remaining < 0) := by omega
    have ht : (((n * 8 : Nat) : Int) - bb.remaining).toNat = n * 8 - r := by omega
    have hr' : bb.remaining - (bits : Int) = ((r - bits : Nat) : Int) := by omega
    simp only [if_neg hs, ht, hr']
    by_cases h0 : r - bits = 0
    · have : ((r - bits : Nat) : Int) = 0 := by omega
      simp [h0]
    · have : ¬ ((r - bits : Nat) : Int) = 0 := by omega
      simp [h0, this]
  | big =>
    have hs : ¬ (bb.remaining - (bits : Int) < 0) := by omega
    have ht : (bb.remaining - (bits : Int)).toNat = r - bits := by omega
    have hr' : bb.remaining - (bits : Int) = ((r - bits : Nat) : Int) := by omega
    simp only [if_neg hs, ht]
    simp only [hr']
    by_cases h0 : r - bits = 0
    · have : ((r - bits : Nat) : Int) = 0 := by omega
      simp [h0]
    · have : ¬ ((r - bits : Nat) : Int) = 0 := by omega
      simp [h0, this]

/-- an idle object selects a unit and goes on as if it had been in that unit -/
theorem write_idle (bb : BB) (t : BTy) (n bits : Nat) (v : Int) (hidle : Idle bb) (hsz : t.size = some n) (hn : n ≠ 0) :
    bb.write t v bits = (selected bb t n).write t v bits := by
  obtain ⟨hty, _, hrem⟩ := hidle
  have h1 : bb.remaining = 0 ∨ bb.ty ≠ some t := Or.inl hrem
  have h2 : ¬ ((selected bb t n).remaining = 0 ∨ (selected bb t n).ty ≠ some t) := by
    simp only [selected]; simp; omega
  conv => lhs; simp only [BB.write, if_pos h1]
  conv => lhs; simp only [hty, hsz]
  conv => rhs; simp only [BB.write, if_neg h2]
  conv => rhs; simp only [selected, hsz]
  rfl

/-- another storage type (or an exhausted unit): the pending unit is flushed first, the rest is the write on the idle object -/
theorem write_switch (bb bbf : BB) (t0 t : BTy) (n0 bits : Nat) (v : Int) (hty : bb.ty = some t0) (hsz0 : t0.size = some (n0 + 1))
    (hnew : bb.remaining = 0 ∨ bb.ty ≠ some t) (hfl : bb.flush = .ok (bbf, ())) (hidle : Idle bbf) :
    bb.write t v bits = bbf.write t v bits := by
  obtain ⟨hty', _, hrem'⟩ := hidle
  have h1 : bbf.remaining = 0 ∨ bbf.ty ≠ some t := Or.inl hrem'
  conv => lhs; simp only [BB.write, if_pos hnew]
  conv => lhs; simp only [hty, hsz0, hfl, Except.map]
  conv => rhs; simp only [BB.write, if_pos h1]
  conv => rhs; simp only [hty']

/-! ### `flush` -/

/-- a buffer that holds an unsigned number of the unit's width is written as its encoding; the object is idle afterwards -/
theorem flush_ok (bb : BB) (t : BTy) (n F : Nat) (hty : bb.ty = some t) (hsz : t.size = some n) (hbuf : bb.buffer = (F : Int))
    (hF : F < 2 ^ (8 * n)) :
    bb.flush = .ok ({ bb.cleared with stream := bb.stream.write (encBytes bb.endian n F) }, ()) := by
  have hfit : fits n false (F : Int) = true := by
    simp only [fits, Bool.false_eq_true, if_false, decide_eq_true_eq]
    exact ⟨Int.natCast_nonneg _, by exact_mod_cast hF⟩
  have : ((F : Int) % ((2 ^ (8 * n) : Nat) : Int)).toNat = F := by
    rw [← Int.natCast_emod, Int.toNat_natCast, Nat.mod_eq_of_lt hF]
  simp only [BB.flush, hty, hsz, hbuf, encodeInt_eq _ _ _ _ hfit, this]

theorem flush_idle (bb : BB) (h : Idle bb) : bb.flush = .ok (bb, ()) := by
  obtain ⟨h1, h2, h3⟩ := h
  simp only [BB.flush, h1, BB.cleared]
  congr 2
  cases bb; simp_all

/-- the number a write invariant stands for: it fits the unit and extends the accumulated bits -/
theorem winv_value (e : Endian) (n k a : Nat) (buf : Int) (hinv : WriteInv e (8 * n) k a { ty := none, buffer := buf, remaining := 8 * n - k })
    (ha : a < 2 ^ k) (hk : k ≤ 8 * n) : ∃ F : Nat, buf = (F : Int) ∧ F < 2 ^ (8 * n) ∧ URel e (8 * n) k a F := by
  obtain ⟨_, hbuf⟩ := hinv
  have hle : 2 ^ k ≤ 2 ^ (8 * n) := Nat.pow_le_pow_right (by omega) hk
  cases e with
  | little =>
    simp only at hbuf
    exact ⟨a, hbuf, by omega, by simp only [URel]; exact Nat.mod_eq_of_lt ha⟩
  | big =>
    simp only at hbuf
    have h1 : a * 2 ^ (8 * n - k) < 2 ^ (8 * n) := by
      have h2 := (Nat.mul_lt_mul_right (Nat.two_pow_pos (8 * n - k))).2 ha
      rw [← Nat.pow_add] at h2
      have h3 : k + (8 * n - k) = 8 * n := by omega
      rwa [h3] at h2
    exact ⟨a * 2 ^ (8 * n - k), hbuf, h1, by simp only [URel]; exact Nat.mul_div_cancel _ (Nat.two_pow_pos _)⟩

/-! ### The stream -/

theorem write_in (s : Stream) (bs : Bytes) (h : s.pos ≤ s.data.length) :
    s.write bs = { data := s.data.take s.pos ++ bs ++ s.data.drop (s.pos + bs.length), pos := s.pos + bs.length } := by
  unfold Stream.write
  cases bs with
  | nil =>
    simp only [List.isEmpty_nil, if_true, List.append_nil, List.length_nil, Nat.add_zero, List.take_append_drop]
  | cons b r =>
    have : s.pos - s.data.length = 0 := by omega
    simp only [List.isEmpty_cons, Bool.false_eq_true, if_false, this, List.replicate_zero, List.append_nil]

theorem sread_write (s : Stream) (bs : Bytes) (h : s.pos ≤ s.data.length) : sread (s.write bs).data s.pos bs.length = bs := by
  rw [write_in s bs h]
  simp only [sread]
  have hl : (s.data.take s.pos).length = s.pos := by simp; omega
  rw [List.append_assoc, List.drop_append_of_le_length (by omega)]
  have : List.drop s.pos (List.take s.pos s.data) = [] := by
    apply List.drop_eq_nil_of_le; omega
  rw [this, List.nil_append, List.take_append_of_le_length (by omega), List.take_length]

theorem write_take (s : Stream) (bs : Bytes) (h : s.pos ≤ s.data.length) : (s.write bs).data.take s.pos = s.data.take s.pos := by
  rw [write_in s bs h]
  have hl : (s.data.take s.pos).length = s.pos := by simp; omega
  rw [List.append_assoc, List.take_append_of_le_length (by omega), List.take_take, Nat.min_self]

theorem write_drop (s : Stream) (bs : Bytes) (h : s.pos ≤ s.data.length) :
    (s.write bs).data.drop (s.write bs).pos = s.data.drop (s.pos + bs.length) := by
  rw [write_in s bs h]
  have hl : (s.data.take s.pos ++ bs).length = s.pos + bs.length := by simp; omega
  simp only
  rw [List.drop_append_of_le_length (by omega)]
  rw [← hl, List.drop_length, List.nil_append]

theorem write_inb (s : Stream) (bs : Bytes) (h : s.pos ≤ s.data.length) : (s.write bs).pos ≤ (s.write bs).data.length := by
  rw [write_in s bs h]
  simp; omega

theorem write_pos (s : Stream) (bs : Bytes) (h : s.pos ≤ s.data.length) : (s.write bs).pos = s.pos + bs.length := by
  rw [write_in s bs h]

/-- what was read at `p` stays the same when the contents agree up to the end of the read -/
theorem sread_of_take_eq (d d' : Bytes) (p n : Nat) (h : d'.take (p + n) = d.take (p + n)) : sread d' p n = sread d p n := by
  have key : ∀ x : Bytes, sread x p n = ((x.take (p + n)).drop p) := by
    intro x
    simp only [sread, List.drop_take]
    congr 1; omega
  rw [key, key, h]

theorem take_of_take_eq (d d' : Bytes) (p q : Nat) (hpq : p ≤ q) (h : d'.take q = d.take q) : d'.take p = d.take p := by
  have : ∀ x : Bytes, x.take p = (x.take q).take p := by
    intro x; rw [List.take_take, Nat.min_eq_left hpq]
  rw [this d', this d, h]

theorem drop_of_drop_eq (d d' : Bytes) (p q : Nat) (hpq : p ≤ q) (h : d'.drop p = d.drop p) : d'.drop q = d.drop q := by
  have : ∀ x : Bytes, x.drop q = (x.drop p).drop (q - p) := by
    intro x; rw [List.drop_drop]; congr 1; omega
  rw [this d', this d, h]

theorem le_of_sread_length (d : Bytes) (p n : Nat) (hn : n ≠ 0) (h : (sread d p n).length = n) : p + n ≤ d.length := by
  simp only [sread, List.length_take, List.length_drop, Nat.min_def] at h
  split at h <;> omega

/-! ### What a reader loads from flushed bytes -/

theorem unitVal_emod (e : Endian) (t : BTy) (n F : Nat) (hF : F < 2 ^ (8 * n)) :
    unitVal e t (encBytes e n F) % ((2 ^ (8 * n) : Nat) : Int) = (F : Int) := by
  have hlen := encBytes_length e n F
  have hpos : (0 : Int) < ((2 ^ (8 * n) : Nat) : Int) := by exact_mod_cast Nat.two_pow_pos _
  have hlt : (F : Int) < ((2 ^ (8 * n) : Nat) : Int) := by exact_mod_cast hF
  unfold unitVal
  split
  · rw [decodeNat_encBytes e n F hF]; exact Int.emod_eq_of_lt (Int.natCast_nonneg _) hlt
  · unfold decodeInt
    simp only [hlen, decodeNat_encBytes e n F hF]
    split
    · rw [Int.sub_emod_right, Int.emod_eq_of_lt (Int.natCast_nonneg _) hlt]
    · exact Int.emod_eq_of_lt (Int.natCast_nonneg _) hlt

/-- a slot of the unit a reader loaded (possibly as a negative number) is the slot of the unsigned unit -/
theorem slot_of_emod (U : Int) (F W lo w : Nat) (hUF : U % ((2 ^ W : Nat) : Int) = (F : Int)) (h : lo + w ≤ W) :
    slotVal U lo w = slotVal (F : Int) lo w := by
  rw [← slotVal_emod U W lo w h, hUF]

end Cstruct.C06.BB
