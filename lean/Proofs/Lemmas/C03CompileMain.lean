/-
  Helper lemmas for `Proofs/C03Compile.lean`, part 9: the simulation.  The generator (`genFields`), the layout
  (`Fields.layout`) and the validator (`planOKAux`) are walked along the field list together; the invariant `CInv` ties
  the generator's bookkeeping (`GState`), the layout state (`LState`) and the validator's state (`VSt`).
-/
import Proofs.Lemmas.C03CompileInstr

namespace Cstruct.Compiler
open Cstruct Cstruct.Core.Lemmas

/-- a bit run is open: no block is pending, the three bookkeepings of the storage unit agree -/
structure BitRun (cfg : Cfg) (al : Bool) (gst : GState) (vst : VSt) (lst : LState) : Prop where
  blk : gst.block = []
  pb : gst.prevBits = true
  ex : ∃ ft rem fsz sp, vst = ⟨sp, none, some (ft, rem), true⟩ ∧ Known sp lst.offset gst.cur ∧ gst.prevBitsTy = some ft ∧
      gst.bitsRem = (rem : Int) ∧ lst.bitsType = some ft ∧ lst.bitsRemaining = (rem : Int) ∧ ft.size = some fsz ∧
      (lst.offset = none ∨ ∃ bfo, lst.bitsFieldOffset = some bfo ∧ lst.offset = some (bfo + fsz) ∧
        (al = true → fsz ∣ bfo))

/-- the simulation invariant between two members -/
structure CInv (cfg : Cfg) (al : Bool) (gst : GState) (vst : VSt) (lst : LState)
    (fsV : Fields) (offsV : List (Option Nat)) (fs : Fields) (offs : List (Option Nat)) : Prop where
  /-- the tracked `current_offset` never runs ahead of the layout (it ignores alignment padding) -/
  cur : ∀ c l, gst.cur = some c → lst.offset = some l → c ≤ l
  roll : gst.rollover = true → lst.offset = none
  mode : ((∃ bs, PlainSt cfg al gst vst bs lst.offset fsV offsV fs offs) ∧ lst.bitsRemaining = 0) ∨
    (BitRun cfg al gst vst lst ∧ fsV = fs ∧ offsV = offs)

/-! ### small facts about the generator's state functions -/

theorem fieldType_size (cfg : Cfg) (ty : Ty) : (fieldType ty).size cfg = ty.size cfg := by
  cases ty <;> rfl

theorem fieldType_bitBase (ty : Ty) : (fieldType ty).bitBase = ty.bitBase := by
  cases ty <;> rfl

theorem advance_block (st : GState) (isB : Bool) (size : Option Nat) (et : Ty) :
    (advance st isB size et).block = st.block := by
  unfold advance; simp only; split <;> split <;> (try split) <;> rfl

theorem advance_blockOff (st : GState) (isB : Bool) (size : Option Nat) (et : Ty) :
    (advance st isB size et).blockOff = st.blockOff := by
  unfold advance; simp only; split <;> split <;> (try split) <;> rfl

theorem advance_bitsRem (st : GState) (isB : Bool) (size : Option Nat) (et : Ty) :
    (advance st isB size et).bitsRem = st.bitsRem := by
  unfold advance; simp only; split <;> split <;> (try split) <;> rfl

theorem advance_prevBitsTy (st : GState) (isB : Bool) (size : Option Nat) (et : Ty) :
    (advance st isB size et).prevBitsTy = st.prevBitsTy := by
  unfold advance; simp only; split <;> split <;> (try split) <;> rfl

/-- after a member without a bit width: `current_offset` is at most the end of the member, `bits_rollover` is only
    left set when nothing is known statically -/
theorem advance_plain (st : GState) (size : Option Nat) (et : Ty) :
    (∀ c, (advance st false size et).cur = some c →
      (∃ c0 z, st.cur = some c0 ∧ size = some z ∧ c = c0 + z) ∨ (size = none ∧ st.cur = some c)) ∧
    ((advance st false size et).rollover = true → st.rollover = true ∧ (st.cur = none ∨ size = none)) := by
  unfold advance
  simp only [Bool.not_false, Bool.true_or, if_true, Bool.and_true]
  cases hc : st.cur with
  | none =>
    cases size <;> (simp only; split <;> simp [hc])
  | some c0 =>
    cases size with
    | none => simp only; split <;> simp [hc]
    | some z => simp only; split <;> simp

/-- `blockState` when the pending block was flushed first -/
theorem blockState_flush (al : Bool) (st : GState) (f : CField) (h : al = true ∧ f.off.isNone = true) :
    blockState al st f = { st with block := [f], blockOff := st.cur } := by
  unfold blockState
  simp [h]

theorem blockState_keep (al : Bool) (st : GState) (f : CField) (h : ¬ (al = true ∧ f.off.isNone = true)) :
    blockState al st f =
      { st with block := st.block ++ [f], blockOff := if st.block.isEmpty = true then st.cur else st.blockOff } := by
  unfold blockState
  simp only [if_neg h]
  split <;> simp_all

theorem voidsFresh_snoc : ∀ (B : List CField) (f : CField), VoidsFresh B →
    (∀ g ∈ B, isVoid g.ty = true → g.name ≠ f.name) → VoidsFresh (B ++ [f])
  | [], f, _, _ => ⟨(fun _ g hg => by cases hg), trivial⟩
  | g :: B, f, h, hn => by
    refine ⟨fun hv x hx => ?_, voidsFresh_snoc B f h.2 (fun x hx => hn x (List.mem_cons_of_mem _ hx))⟩
    rcases List.mem_append.mp hx with hx | hx
    · exact h.1 hv x hx
    · simp only [List.mem_singleton] at hx
      subst hx
      exact (hn g List.mem_cons_self hv).symm

theorem chain_none (cfg : Cfg) (al : Bool) : ∀ (B : List CField) (e : Option Nat), Chain cfg al B none e → e = none
  | [], e, h => h.symm
  | f :: B, e, h => by
    obtain ⟨h1, h2⟩ := h
    have : f.off = none := h1
    rw [this] at h2
    exact chain_none cfg al B e h2

theorem flush_nil (cfg : Cfg) (al : Bool) (st : GState) (h : st.block = []) : flush cfg al st = .ok [] := by
  unfold flush
  rw [h]

/-! ### the statement in front of a member without a bit width -/

theorem pre_plain (cfg : Cfg) (al : Bool) (salign : Nat) (gst : GState) (vst : VSt) (lst : LState)
    (fsV : Fields) (offsV : List (Option Nat)) (fs : Fields) (offs : List (Option Nat))
    (hI : CInv cfg al gst vst lst fsV offsV fs offs) (hnb : nonBitHead fs = true) (p : Plan) :
    ∃ vst1 bs, planOKAux cfg al salign (preOf gst false ++ p) fsV offsV vst = planOKAux cfg al salign p fsV offsV vst1 ∧
      PlainSt cfg al (afterPre gst false) vst1 bs lst.offset fsV offsV fs offs := by
  rcases hI.mode with ⟨⟨bs, hP⟩, _⟩ | ⟨hB, rfl, rfl⟩
  · refine ⟨vst, bs, ?_, ?_⟩
    · rw [preOf_of_not _ _ hP.np, List.nil_append]
    · rw [afterPre_of_not _ _ hP.np]; exact hP
  · obtain ⟨ft, rem, fsz, sp, rfl, hK, _⟩ := hB.ex
    refine ⟨syncSt sp, lst.offset, ?_, ?_⟩
    · unfold preOf
      simp only [hB.pb, Bool.false_eq_true, not_false_eq_true, and_self, if_true, List.cons_append, List.nil_append]
      rw [planOKAux, hnb, Bool.true_and]
      rfl
    · unfold afterPre
      simp only [hB.pb, Bool.false_eq_true, not_false_eq_true, and_self, if_true]
      exact {
        pend := by simp only [hB.blk]; exact Pending.nil _ _
        chain := by simp only [hB.blk]; rfl
        sync := by simp only [hB.blk, List.isEmpty_nil, if_true]; exact hK
        mem := by simp only [hB.blk]; intro f hf; cases hf
        vfresh := by simp only [hB.blk]; trivial
        vfresh2 := by simp only [hB.blk]; intro f hf; cases hf
        boff := by simp only [hB.blk]; intro h; exact absurd rfl h
        dyn := by simp only [hB.blk]; intro _ _; exact Nat.zero_le _
        vsync := rfl
        np := rfl
        rem0 := rfl }

/-! ### the end of the field list -/

theorem step_nil (cfg : Cfg) (al : Bool) (salign : Nat) (offs : List (Option Nat)) (lst : LState) (gst : GState)
    (vst : VSt) (fsV : Fields) (offsV : List (Option Nat)) (plan : Plan)
    (hI : CInv cfg al gst vst lst fsV offsV .nil offs) (hg : genFields cfg al .nil offs gst = .ok plan) :
    planOKAux cfg al salign plan fsV offsV vst = true := by
  rw [genFields] at hg
  split at hg
  · cases hg
  · rename_i fl hfl
    cases hg
    have htail : NoReset (if al = true then [Instr.alignCls] else []) := by cases al <;> simp [NoReset]
    rcases hI.mode with ⟨⟨bs, hP⟩, _⟩ | ⟨hB, rfl, rfl⟩
    · obtain ⟨sp', he, _⟩ := flush_ok cfg al salign gst vst bs lst.offset fsV offsV .nil offs hP fl hfl
        ⟨_, dropVoids_nil cfg al offs _⟩ _ htail
      rw [he]
      cases al <;> simp [planOKAux, dropVoids_nil, syncSt]
    · rw [flush_nil cfg al gst hB.blk] at hfl
      cases hfl
      obtain ⟨ft, rem, fsz, sp, rfl, _⟩ := hB.ex
      cases al <;> simp [planOKAux, dropVoids_nil]

/-! ### a member that reads itself (structure, structure array, multi-dimensional or dynamic array) -/

theorem afterPre_cur (st : GState) (isB : Bool) : (afterPre st isB).cur = st.cur := by
  unfold afterPre; split <;> rfl

theorem afterPre_rollover (st : GState) (isB : Bool) : (afterPre st isB).rollover = st.rollover := by
  unfold afterPre; split <;> rfl

/-- `current_offset` after `align_to_field` -/
def curAfter (al : Bool) (o cur : Option Nat) : Option Nat :=
  match o with
  | some oo => some oo
  | none => if al = true then none else cur

theorem alignToField_snd (cfg : Cfg) (al : Bool) (f : CField) (cur : Option Nat) :
    (alignToField cfg al f cur).2 = curAfter al f.off cur := by
  unfold alignToField curAfter
  cases f.off with
  | none => simp only; split <;> rfl
  | some o =>
    simp only
    split
    · rfl
    · rename_i h
      simp only [ne_eq, Decidable.not_not] at h
      exact h.symm

theorem alignOpt_some {al : Bool} {s : Option Nat} {a oo : Nat} (h : alignOpt al s a = some oo) :
    ∃ l, s = some l ∧ l ≤ oo ∧ (al = false → oo = l) ∧ (al = true → oo = l + padNat l a) := by
  cases s with
  | none => cases h
  | some l =>
    simp only [alignOpt, Option.map_some, Option.some.injEq] at h
    refine ⟨l, rfl, ?_, ?_, ?_⟩
    · cases al <;> simp at h <;> omega
    · intro hal; rw [hal] at h; simpa using h.symm
    · intro hal; rw [hal] at h; simpa using h.symm

theorem sub_not_void {ty : Ty} {size : Option Nat}
    (h : isStructTy (fieldType ty) = true ∨ isSubArray (fieldType ty) size = true) : isVoid ty = false := by
  cases ty with
  | sc s a => cases s <;> simp [fieldType, isStructTy, isSubArray] at h <;> rfl
  | _ => rfl

theorem subSpos_afterAlign (al : Bool) (fa : Nat) (rs : Bool) (o lo z : Option Nat) :
    subSpos rs o (afterAlign al fa o (syncSt lo)).spos z = if rs = true then none else addOpt o z := by
  cases o with
  | none => cases z <;> simp [subSpos, addOpt]
  | some oo => cases z <;> simp [subSpos, addOpt, afterAlign]

/-- `current_offset` is forgotten after a nested structure -/
theorem advance_struct (st : GState) (size : Option Nat) (et : Ty) (h : isStructTy et = true) :
    (advance st false size et).cur = none := by
  unfold advance
  simp [h]

theorem step_sub (cfg : Cfg) (al : Bool) (salign : Nat) (name : String) (an : Bool) (ty : Ty) (rest : Fields)
    (o : Option Nat) (offs' : List (Option Nat)) (lst : LState) (gst : GState) (vst : VSt) (fsV : Fields)
    (offsV : List (Option Nat)) (fl p : Plan) (gst1 : GState) (hg1 : gst1 = afterPre gst false)
    (ho : o = alignOpt al lst.offset (ty.alignment cfg))
    (hI : CInv cfg al gst vst lst fsV offsV (.cons name an ty none rest) (o :: offs'))
    (hwf : memberWF cfg al ty none = true) (had : al = true → ty.alignment cfg ∣ salign)
    (hsub : isStructTy (fieldType ty) = true ∨ isSubArray (fieldType ty) ((fieldType ty).size cfg) = true)
    (hfl : flush cfg al gst1 = .ok fl)
    (ih : ∀ gst' vst' fsV' offsV',
      CInv cfg al gst' vst' ⟨addOpt o (ty.size cfg), max lst.alignment (ty.alignment cfg), none, some 0, 0⟩ fsV' offsV'
        rest offs' →
      genFields cfg al rest offs' gst' = .ok p → planOKAux cfg al salign p fsV' offsV' vst' = true)
    (hp : genFields cfg al rest offs'
      (advance { gst1 with block := [], cur := (alignToField cfg al ⟨name, ty, o⟩ gst1.cur).2 } false
        ((fieldType ty).size cfg) (elementType (fieldType ty))) = .ok p) :
    planOKAux cfg al salign
      (preOf gst false ++ fl ++ (alignToField cfg al ⟨name, ty, o⟩ gst1.cur).1 ++ [.sub name] ++ p)
      fsV offsV vst = true := by
  have hnv : isVoid ty = false := sub_not_void hsub
  simp only [List.append_assoc, List.cons_append, List.nil_append]
  obtain ⟨vst1, bs, hpre, P1⟩ := pre_plain cfg al salign gst vst lst fsV offsV _ _ hI rfl
    (fl ++ ((alignToField cfg al ⟨name, ty, o⟩ gst1.cur).1 ++ (.sub name :: p)))
  rw [hpre]
  have hcur1 : gst1.cur = gst.cur := by rw [hg1]; exact afterPre_cur _ _
  have hroll1 : gst1.rollover = gst.rollover := by rw [hg1]; exact afterPre_rollover _ _
  rw [← hg1] at P1
  obtain ⟨sp', hfe, hK⟩ := flush_ok cfg al salign gst1 vst1 bs lst.offset fsV offsV _ _ P1 fl hfl
    ⟨_, dropVoids_nonvoid _ _ _ _ _ _ _ _ _ (by simp [hnv])⟩
    ((alignToField cfg al ⟨name, ty, o⟩ gst1.cur).1 ++ (.sub name :: p))
    (NoReset.append (alignToField_noReset _ _ _ _) (noReset_cons (by simp) _))
  rw [hfe]
  rw [align_step cfg al salign name an ty none rest o offs' gst1.cur (syncSt sp') _ (by simp [hnv]) rfl ?_
    (fun hal => ⟨had hal, memberWF_p2 hwf hal⟩)]
  · rw [sub_instr cfg al salign name an ty rest o offs' _ p hnv (by cases o <;> (simp only [afterAlign]; try split) <;> rfl)
        (posOK_afterAlign al _ o _ rfl), subSpos_afterAlign]
    refine ih _ _ _ _ ?_ hp
    obtain ⟨hadv1, hadv2⟩ := advance_plain
      { gst1 with block := [], cur := (alignToField cfg al ⟨name, ty, o⟩ gst1.cur).2 }
      ((fieldType ty).size cfg) (elementType (fieldType ty))
    refine ⟨?_, ?_, Or.inl ⟨⟨addOpt o (ty.size cfg), ?_⟩, rfl⟩⟩
    · intro c l hc hl
      simp only at hl
      rcases hadv1 c hc with ⟨c0, z, h1, h2, rfl⟩ | ⟨h1, _⟩
      · simp only [alignToField_snd, curAfter] at h1
        rw [fieldType_size] at h2
        rw [h2] at hl
        cases o with
        | none => simp [addOpt] at hl
        | some oo =>
          simp only [addOpt, Option.some.injEq] at hl h1
          omega
      · rw [fieldType_size] at h1
        rw [h1] at hl
        cases o <;> simp [addOpt] at hl
    · intro hr
      obtain ⟨h1, h2⟩ := hadv2 hr
      simp only at h1 h2 ⊢
      rw [hroll1] at h1
      have hlo := hI.roll h1
      rw [hlo] at ho
      subst ho
      rfl
    · exact {
        pend := by rw [advance_block]; exact Pending.nil _ _
        chain := by rw [advance_block]; rfl
        sync := by
          rw [advance_block]
          simp only [List.isEmpty_nil, if_true]
          cases hrs : readsStruct ty with
          | false => exact Or.inl (by simp)
          | true =>
            rw [readsStruct_eq] at hrs
            exact Or.inr ⟨by simp, advance_struct _ _ _ hrs⟩
        mem := by rw [advance_block]; intro f hf; cases hf
        vfresh := by rw [advance_block]; trivial
        vfresh2 := by rw [advance_block]; intro f hf; cases hf
        boff := by rw [advance_block]; intro h; exact absurd rfl h
        dyn := by rw [advance_block]; intro _ _; exact Nat.zero_le _
        vsync := rfl
        np := by rw [advance_prevBits]; exact P1.np
        rem0 := by rw [advance_bitsRem]; exact P1.rem0 }
  · intro oo hoo hc
    have hsp : sp' = lst.offset := hK.of_some hc
    rw [hoo] at ho
    obtain ⟨l, hl, hle, _, _⟩ := alignOpt_some ho.symm
    rw [hcur1] at hc
    have := hI.cur oo l hc hl
    have : l = oo := by omega
    subst this
    simp only [syncSt, hsp, hl]

/-! ### a member that joins the pending block -/

theorem alignOpt_none {al : Bool} {s : Option Nat} {a : Nat} (h : alignOpt al s a = none) : s = none := by
  cases s with
  | none => rfl
  | some l => simp [alignOpt] at h

theorem step_block (cfg : Cfg) (al : Bool) (salign : Nat) (name : String) (an : Bool) (ty : Ty) (rest : Fields)
    (o : Option Nat) (offs' : List (Option Nat)) (lst : LState) (sz : Option Nat) (sa : Nat) (gst : GState) (vst : VSt)
    (fsV : Fields) (offsV : List (Option Nat)) (fl p : Plan) (gst1 : GState) (hg1 : gst1 = afterPre gst false)
    (ho : o = alignOpt al lst.offset (ty.alignment cfg))
    (hI : CInv cfg al gst vst lst fsV offsV (.cons name an ty none rest) (o :: offs'))
    (hall : compileWF cfg al (.cons name an ty none rest) = true)
    (hlay : Fields.layout cfg al (.cons name an ty none rest) lst = .ok (sz, sa, o :: offs'))
    (h1 : unsupported (fieldType ty) = false)
    (h2 : ¬ (isPtrTy (elementType (fieldType ty)) = true ∧ ¬ isPacked cfg.ptr = true))
    (h3 : ¬ (isStructTy (fieldType ty) = true ∨ isSubArray (fieldType ty) ((fieldType ty).size cfg) = true))
    (hfl : (if al = true ∧ o.isNone = true then flush cfg al gst1 else .ok []) = .ok fl)
    (ih : ∀ gst' vst' fsV' offsV',
      CInv cfg al gst' vst' ⟨addOpt o (ty.size cfg), max lst.alignment (ty.alignment cfg), none, some 0, 0⟩ fsV' offsV'
        rest offs' →
      genFields cfg al rest offs' gst' = .ok p → planOKAux cfg al salign p fsV' offsV' vst' = true)
    (hp : genFields cfg al rest offs'
      (advance (blockState al gst1 ⟨name, ty, o⟩) false ((fieldType ty).size cfg) (elementType (fieldType ty))) = .ok p) :
    planOKAux cfg al salign (preOf gst false ++ fl ++ p) fsV offsV vst = true := by
  obtain ⟨hwf, hfresh, _⟩ := compileWF_cons hall
  have hm : Member cfg al ⟨name, ty, o⟩ := member_of_block cfg al name ty o none hwf h1 h2 h3
  simp only [List.append_assoc]
  obtain ⟨vst1, bs, hpre, P1⟩ := pre_plain cfg al salign gst vst lst fsV offsV _ _ hI rfl (fl ++ p)
  rw [hpre]
  have hcur1 : gst1.cur = gst.cur := by rw [hg1]; exact afterPre_cur _ _
  have hroll1 : gst1.rollover = gst.rollover := by rw [hg1]; exact afterPre_rollover _ _
  rw [← hg1] at P1
  obtain ⟨hadv1, hadv2⟩ := advance_plain (blockState al gst1 ⟨name, ty, o⟩) ((fieldType ty).size cfg)
    (elementType (fieldType ty))
  have hnp : (advance (blockState al gst1 ⟨name, ty, o⟩) false ((fieldType ty).size cfg)
      (elementType (fieldType ty))).prevBits = false := by
    rw [advance_prevBits, blockState_prevBits]; exact P1.np
  by_cases hc : al = true ∧ o.isNone = true
  · -- an aligned structure, a dynamically placed member: the pending block is flushed, the member starts a new one
    rw [if_pos hc] at hfl
    have ho' : o = none := Option.isNone_iff_eq_none.mp hc.2
    subst ho'
    have hlo : lst.offset = none := alignOpt_none ho.symm
    have hfs := dropVoids_dyn cfg al _ lst sz sa _ hlay hlo hall
    obtain ⟨sp', hfe, hK⟩ := flush_ok cfg al salign gst1 vst1 bs lst.offset fsV offsV _ _ P1 fl hfl
      (by rw [hlo]; exact hfs) p (genFields_noReset cfg al _ _ _ _ hp hnp)
    rw [hfe]
    have hsp' : sp' = lst.offset := by rw [hlo] at hK ⊢; exact hK.of_none
    subst hsp'
    refine ih _ _ _ _ ?_ hp
    rw [blockState_flush al gst1 _ hc] at hadv1 hadv2 hnp ⊢
    refine ⟨?_, ?_, Or.inl ⟨⟨lst.offset, ?_⟩, rfl⟩⟩
    · intro c l _ hl
      simp [addOpt] at hl
    · intro _
      rfl
    · exact {
        pend := by rw [advance_block]; exact Pending.cons name an ty none (Pending.nil _ _)
        chain := by rw [advance_block]; exact ⟨ho, rfl⟩
        sync := Or.inl rfl
        mem := by
          rw [advance_block]
          intro f hf
          simp only [List.mem_singleton] at hf
          subst hf
          exact hm
        vfresh := by rw [advance_block]; exact ⟨(fun _ g hg => by cases hg), trivial⟩
        vfresh2 := by
          rw [advance_block]
          intro f hf hv
          simp only [List.mem_singleton] at hf
          subst hf
          exact hfresh hv rfl
        boff := by
          rw [advance_block, advance_blockOff]
          intro _ c l hc' hl
          rw [hcur1] at hc'
          exact hI.cur c l hc' hl
        dyn := by rw [advance_block]; intro _ _; exact Nat.le_refl _
        vsync := rfl
        np := hnp
        rem0 := by rw [advance_bitsRem]; exact P1.rem0 }
  · -- the member is appended to the pending block; the validator does not move
    rw [if_neg hc] at hfl
    cases hfl
    rw [List.nil_append]
    refine ih _ _ _ _ ?_ hp
    rw [blockState_keep al gst1 _ hc] at hadv1 hadv2 hnp ⊢
    refine ⟨?_, ?_, Or.inl ⟨⟨bs, ?_⟩, rfl⟩⟩
    · intro c l hc' hl
      simp only at hl
      rcases hadv1 c hc' with ⟨c0, z, h1', h2', rfl⟩ | ⟨h1', _⟩
      · simp only at h1'
        rw [fieldType_size] at h2'
        rw [h2'] at hl
        cases o with
        | none => simp [addOpt] at hl
        | some oo =>
          simp only [addOpt, Option.some.injEq] at hl
          obtain ⟨l0, hl0, hle, _, _⟩ := alignOpt_some ho.symm
          rw [hcur1] at h1'
          have := hI.cur c0 l0 h1' hl0
          omega
      · rw [fieldType_size] at h1'
        rw [h1'] at hl
        cases o <;> simp [addOpt] at hl
    · intro hr
      obtain ⟨h1', _⟩ := hadv2 hr
      simp only at h1' ⊢
      rw [hroll1] at h1'
      have hlo := hI.roll h1'
      rw [hlo] at ho
      subst ho
      rfl
    · have hsp : gst1.block = [] → bs = lst.offset := by
        intro hb
        have := P1.chain
        rw [hb] at this
        exact this
      exact {
        pend := by rw [advance_block]; exact P1.pend.snoc
        chain := by
          rw [advance_block]
          exact Chain.snoc cfg al gst1.block bs lst.offset ⟨name, ty, o⟩ P1.chain ho
        sync := by
          rw [advance_block, advance_blockOff]
          have hne : (gst1.block ++ [(⟨name, ty, o⟩ : CField)]).isEmpty = false := by cases gst1.block <;> rfl
          simp only [hne, Bool.false_eq_true, if_false]
          exact P1.sync
        mem := by
          rw [advance_block]
          intro f hf
          rcases List.mem_append.mp hf with hf | hf
          · exact P1.mem f hf
          · simp only [List.mem_singleton] at hf
            subst hf
            exact hm
        vfresh := by
          rw [advance_block]
          refine voidsFresh_snoc _ _ P1.vfresh (fun g hg hv => ?_)
          have := P1.vfresh2 g hg hv
          simp only [Fields.names, List.mem_cons, not_or] at this
          exact this.1
        vfresh2 := by
          rw [advance_block]
          intro f hf hv
          rcases List.mem_append.mp hf with hf | hf
          · have := P1.vfresh2 f hf hv
            simp only [Fields.names, List.mem_cons, not_or] at this
            exact this.2
          · simp only [List.mem_singleton] at hf
            subst hf
            exact hfresh hv rfl
        boff := by
          rw [advance_block, advance_blockOff]
          intro _ c l hc' hl
          simp only at hc'
          cases hb : gst1.block with
          | nil =>
            rw [hb] at hc'
            simp only [List.isEmpty_nil, if_true] at hc'
            rw [hsp hb] at hl
            rw [hcur1] at hc'
            exact hI.cur c l hc' hl
          | cons g B =>
            rw [hb] at hc'
            simp only [List.isEmpty_cons, Bool.false_eq_true, if_false] at hc'
            exact P1.boff (by rw [hb]; simp) c l hc' hl
        dyn := by
          rw [advance_block]
          intro hal hs
          exfalso
          apply hc
          refine ⟨hal, ?_⟩
          have := P1.chain
          rw [hs] at this
          have hlo := chain_none cfg al _ _ this
          rw [hlo] at ho
          subst ho
          rfl
        vsync := P1.vsync
        np := hnp
        rem0 := by rw [advance_bitsRem]; simp only; exact P1.rem0 }

/-! ### a bit-field -/

theorem bitBase_shape {ty : Ty} {ft : Scalar} (h : ty.bitBase = some ft) :
    (∃ a, ty = .sc ft a) ∨ (∃ a fl, ty = .enum ft a fl) := by
  cases ty with
  | sc s a => simp only [Ty.bitBase, Option.some.injEq] at h; subst h; exact Or.inl ⟨a, rfl⟩
  | enum b a fl => simp only [Ty.bitBase, Option.some.injEq] at h; subst h; exact Or.inr ⟨a, fl, rfl⟩
  | _ => simp [Ty.bitBase] at h

theorem bitBase_size (cfg : Cfg) {ty : Ty} {ft : Scalar} (h : ty.bitBase = some ft) : ty.size cfg = ft.size := by
  rcases bitBase_shape h with ⟨a, rfl⟩ | ⟨a, fl, rfl⟩ <;> rfl

theorem bitBase_et {ty : Ty} {ft : Scalar} (h : ty.bitBase = some ft) :
    isStructTy (elementType (fieldType ty)) = false := by
  rcases bitBase_shape h with ⟨a, rfl⟩ | ⟨a, fl, rfl⟩ <;> rfl

theorem bitBase_not_sub {ty : Ty} {ft : Scalar} (h : ty.bitBase = some ft) (size : Option Nat) :
    ¬ (isStructTy (fieldType ty) = true ∨ isSubArray (fieldType ty) size = true) := by
  rcases bitBase_shape h with ⟨a, rfl⟩ | ⟨a, fl, rfl⟩ <;> simp [fieldType, isStructTy, isSubArray]

/-- `advance` after a bit-field -/
theorem advance_bits (st : GState) (z : Nat) (et : Ty) (het : isStructTy et = false) :
    advance st true (some z) et =
      match st.cur with
      | some c => if st.rollover = true then { st with cur := some (c + z), rollover := false } else st
      | none => st := by
  unfold advance
  simp only [het, Bool.not_true, Bool.false_or, Bool.false_and, Bool.false_eq_true, if_false]
  cases st.cur with
  | none => rfl
  | some c => rfl

theorem advance_bits_cur (st : GState) (z : Nat) (et : Ty) (het : isStructTy et = false) :
    (∀ c', (advance st true (some z) et).cur = some c' →
      ∃ c, st.cur = some c ∧ ((st.rollover = true ∧ c' = c + z) ∨ (st.rollover = false ∧ c' = c))) ∧
    ((advance st true (some z) et).rollover = true → st.rollover = true ∧ st.cur = none) := by
  rw [advance_bits st z et het]
  cases hc : st.cur with
  | none => simp [hc]
  | some c =>
    cases hr : st.rollover with
    | true => simp
    | false => simp [hc, hr]

theorem memberWF_bitsAlign {cfg : Cfg} {al : Bool} {ty : Ty} {n : Nat} (h : memberWF cfg al ty (some n) = true)
    (hal : al = true) : ty.size cfg = some (ty.alignment cfg) := by
  simp only [memberWF, Bool.and_eq_true, Bool.or_eq_true, Bool.not_eq_true', beq_iff_eq] at h
  rcases h.2 with (h | h) | h
  · rw [hal] at h; cases h
  · simp at h
  · exact h

theorem bits_tail (cfg : Cfg) (al : Bool) (salign : Nat) (name : String) (an : Bool) (ty : Ty) (b : Nat) (rest : Fields)
    (offs' : List (Option Nat)) (lst : LState) (gst2 : GState) (stA : VSt) (p : Plan) (ft0 : Scalar) (fsz : Nat)
    (nu : Bool) (rem0 : Nat) (uA : Option (Scalar × Nat)) (dA : Bool) (o : Option Nat) (lst' : LState)
    (sp : Option Nat) (hstA : stA = ⟨sp, none, uA, dA⟩) (hK : Known sp lst.offset gst2.cur)
    (hnuV : unitNew uA ft0 = nu)
    (hrem0 : rem0 = if nu = true then fsz * 8 else unitRem uA)
    (hfit : b + 1 ≤ rem0)
    (hbb : ty.bitBase = some ft0) (hsz : ft0.size = some fsz)
    (hwf : memberWF cfg al ty (some (b + 1)) = true) (had : al = true → ty.alignment cfg ∣ salign)
    (ho : o = if nu = true then alignOpt al lst.offset (ty.alignment cfg) else none)
    (hlst' : lst' = if nu = true then
        ⟨(alignOpt al lst.offset (ty.alignment cfg)).map (· + fsz), max lst.alignment (ty.alignment cfg), some ft0,
          alignOpt al lst.offset (ty.alignment cfg), ((fsz * 8 : Nat) : Int) - ((b + 1 : Nat) : Int)⟩
      else ⟨alignOpt al lst.offset (ty.alignment cfg), max lst.alignment (ty.alignment cfg), lst.bitsType,
          lst.bitsFieldOffset, lst.bitsRemaining - ((b + 1 : Nat) : Int)⟩)
    (hcurI : ∀ c l, gst2.cur = some c → lst.offset = some l → c ≤ l)
    (hrollI : nu = false → gst2.rollover = true → lst.offset = none)
    (hroll2 : nu = true → gst2.rollover = true)
    (hpb2 : gst2.prevBits = true) (hty2 : gst2.prevBitsTy = some ft0)
    (hrem2 : gst2.bitsRem = (rem0 : Int) - ((b + 1 : Nat) : Int))
    (hcont : nu = false → lst.bitsType = some ft0 ∧ lst.bitsRemaining = (rem0 : Int) ∧
      (lst.offset = none ∨ ∃ bfo, lst.bitsFieldOffset = some bfo ∧ lst.offset = some (bfo + fsz) ∧
        (al = true → fsz ∣ bfo)))
    (ih : ∀ gst' vst' fsV' offsV', CInv cfg al gst' vst' lst' fsV' offsV' rest offs' →
      genFields cfg al rest offs' gst' = .ok p → planOKAux cfg al salign p fsV' offsV' vst' = true)
    (hp : genFields cfg al rest offs'
      (advance { gst2 with block := [], cur := (alignToField cfg al ⟨name, ty, o⟩ gst2.cur).2 } true (some fsz)
        (elementType (fieldType ty))) = .ok p) :
    planOKAux cfg al salign ((alignToField cfg al ⟨name, ty, o⟩ gst2.cur).1 ++ (.bits name (b + 1) (bitsViaOf ty) :: p))
      (.cons name an ty (some (b + 1)) rest) (o :: offs') stA = true := by
  have hfa : al = true → fsz = ty.alignment cfg := by
    intro hal
    have h1 := memberWF_bitsAlign hwf hal
    rw [bitBase_size cfg hbb, hsz] at h1
    exact Option.some.inj h1
  have hp2 : al = true → IsP2 (ty.alignment cfg) := fun hal => memberWF_p2 hwf hal
  -- `align_to_field`
  rw [align_step cfg al salign name an ty (some (b + 1)) rest o offs' gst2.cur stA _ (by simp) (by rw [hstA]) ?_
    (fun hal => ⟨had hal, hp2 hal⟩)]
  · -- the bit read
    have hla : stA.lastAlign = none := by rw [hstA]
    have hunit : (afterAlign al (ty.alignment cfg) o stA).unit = uA := by
      rw [hstA]; unfold afterAlign; cases o <;> (simp only; try split) <;> rfl
    rw [bits_instr cfg al salign name an ty b rest o offs' _ p ft0 fsz nu rem0 (bitsVia_of cfg al ty _ hwf ft0 hbb) hbb hsz
      (posOK_afterAlign al _ o stA hla) (by rw [hunit]; exact hnuV) (by rw [hunit]; exact hrem0) hfit]
    refine ih _ _ _ _ ?_ hp
    -- the layout facts of the unit
    have hunit' : lst'.bitsType = some ft0 ∧ lst'.bitsRemaining = ((rem0 - (b + 1) : Nat) : Int) ∧
        (lst'.offset = none ∨ ∃ bfo, lst'.bitsFieldOffset = some bfo ∧ lst'.offset = some (bfo + fsz) ∧
          (al = true → fsz ∣ bfo)) := by
      rw [hlst']
      cases hnu : nu with
      | true =>
        rw [hnu] at hrem0
        rw [if_pos rfl] at hrem0
        rw [if_pos rfl]
        refine ⟨rfl, by simp only; omega, ?_⟩
        cases hoff : alignOpt al lst.offset (ty.alignment cfg) with
        | none => exact Or.inl rfl
        | some oo =>
          refine Or.inr ⟨oo, rfl, rfl, fun hal => ?_⟩
          obtain ⟨l, _, _, _, h4⟩ := alignOpt_some hoff
          rw [h4 hal, hfa hal]
          exact padNat_p2_dvd (hp2 hal) l
      | false =>
        obtain ⟨h1, h2, h3⟩ := hcont hnu
        rw [if_neg (by simp)]
        refine ⟨h1, by simp only; rw [h2]; omega, ?_⟩
        rcases h3 with h3 | ⟨bfo, h3a, h3b, h3c⟩
        · left; rw [h3]; rfl
        · right
          refine ⟨bfo, h3a, ?_, h3c⟩
          rw [h3b]
          cases hal : al with
          | false => simp [alignOpt]
          | true =>
            simp only [alignOpt, Option.map_some, if_true, Option.some.injEq]
            have hd : ty.alignment cfg ∣ bfo + fsz := by
              rw [← hfa hal]
              exact Nat.dvd_add (h3c hal) (Nat.dvd_refl _)
            rw [padNat_of_dvd (hp2 hal) hd]
            rfl
    obtain ⟨hu1, hu2, hu3⟩ := hunit'
    -- `current_offset` of the next iteration
    obtain ⟨hg1, hg2⟩ := advance_bits_cur
      { gst2 with block := [], cur := (alignToField cfg al ⟨name, ty, o⟩ gst2.cur).2 } fsz _ (bitBase_et hbb)
    simp only [alignToField_snd] at hg1 hg2 ⊢
    have hcn : curAfter al o gst2.cur = none →
        (advance { gst2 with block := [], cur := curAfter al o gst2.cur } true (some fsz)
          (elementType (fieldType ty))).cur = none := by
      intro h
      cases hc : (advance { gst2 with block := [], cur := curAfter al o gst2.cur } true (some fsz)
          (elementType (fieldType ty))).cur with
      | none => rfl
      | some c' =>
        obtain ⟨c, hcA, _⟩ := hg1 c' hc
        rw [h] at hcA
        cases hcA
    -- the position after the read is the layout's running offset, or it is unknown (after the alignment statement in front
    -- of a bit-field that continues its unit) and then the generator has forgotten it as well
    have hK' : Known (bitsSpos (afterAlign al (ty.alignment cfg) o stA).spos nu fsz) lst'.offset
        (advance { gst2 with block := [], cur := curAfter al o gst2.cur } true (some fsz)
          (elementType (fieldType ty))).cur := by
      rw [hstA, hlst']
      cases hnu : nu with
      | true =>
        rw [hnu] at ho
        rw [if_pos rfl] at ho
        rw [if_pos rfl]
        cases hoff : alignOpt al lst.offset (ty.alignment cfg) with
        | some oo =>
          rw [hoff] at ho
          subst ho
          exact Or.inl rfl
        | none =>
          rw [hoff] at ho
          subst ho
          have hlo := alignOpt_none hoff
          rw [hlo] at hK
          have hsp := hK.of_none
          left
          simp only [afterAlign, hsp]
          split <;> rfl
      | false =>
        rw [hnu] at ho
        rw [if_neg (by simp)] at ho
        rw [if_neg (by simp)]
        subst ho
        simp only [afterAlign]
        by_cases hc : al = true ∧ ty.alignment cfg ≠ 1
        · rw [if_pos hc]
          exact Or.inr ⟨rfl, hcn (by simp [curAfter, hc.1])⟩
        · rw [if_neg hc]
          have hlo' : alignOpt al lst.offset (ty.alignment cfg) = lst.offset := by
            simp only [alignOpt]
            cases hal : al with
            | false => cases lst.offset <;> simp
            | true =>
              have h1 : ty.alignment cfg = 1 := by
                cases Nat.decEq (ty.alignment cfg) 1 with
                | isTrue h => exact h
                | isFalse h => exact absurd ⟨hal, h⟩ hc
              simp only [h1, padNat_one, Nat.add_zero, if_true]
              cases lst.offset <;> simp
          have hbs : bitsSpos sp false fsz = sp := by cases sp <;> simp [bitsSpos]
          simp only [hlo', hbs]
          rcases hK with h | ⟨h1, h2⟩
          · exact Or.inl h
          · refine Or.inr ⟨h1, hcn ?_⟩
            rw [h2]
            simp [curAfter]
    refine ⟨?_, ?_, Or.inr ⟨⟨by rw [advance_block], by rw [advance_prevBits]; exact hpb2,
      ft0, rem0 - (b + 1), fsz, _, rfl, hK', by rw [advance_prevBitsTy]; exact hty2,
      by rw [advance_bitsRem]; simp only; rw [hrem2]; omega, hu1, hu2, hsz, hu3⟩, rfl, rfl⟩⟩
    · intro c' l hc' hl
      obtain ⟨c, hcA, hcase⟩ := hg1 c' hc'
      cases hnu : nu with
      | true =>
        rw [hnu] at ho hlst'
        rw [if_pos rfl] at ho hlst'
        have hr2 := hroll2 hnu
        rcases hcase with ⟨_, rfl⟩ | ⟨hr, _⟩
        · rw [hlst'] at hl
          simp only at hl
          rw [← ho] at hl
          cases o with
          | none => simp at hl
          | some oo =>
            simp only [curAfter, Option.some.injEq] at hcA
            simp only [Option.map_some, Option.some.injEq] at hl
            omega
        · rw [hr2] at hr; cases hr
      | false =>
        rw [hnu] at ho hlst'
        rw [if_neg (by simp)] at ho hlst'
        subst ho
        simp only [curAfter] at hcA
        rw [hlst'] at hl
        simp only at hl
        obtain ⟨l0, hl0, hle, _, _⟩ := alignOpt_some hl
        rcases hcase with ⟨hr, _⟩ | ⟨_, rfl⟩
        · have := hrollI hnu hr
          rw [this] at hl0
          cases hl0
        · have hcA' : gst2.cur = some c' := by
            cases al with
            | true => simp at hcA
            | false => simpa using hcA
          have := hcurI c' l0 hcA' hl0
          omega
    · intro hr
      obtain ⟨hr2, hcA⟩ := hg2 hr
      cases hnu : nu with
      | true =>
        rw [hnu] at ho hlst'
        rw [if_pos rfl] at ho hlst'
        rw [hlst']
        simp only
        rw [← ho]
        cases o with
        | none => rfl
        | some oo => simp [curAfter] at hcA
      | false =>
        rw [hnu] at hlst'
        rw [if_neg (by simp)] at hlst'
        rw [hlst']
        simp only
        rw [hrollI hnu hr2]
        rfl
  · intro oo hoo hc
    rw [hstA]
    simp only
    cases hnu : nu with
    | false => rw [hnu] at ho; simp only [Bool.false_eq_true, if_false] at ho; rw [ho] at hoo; cases hoo
    | true =>
      rw [hnu] at ho
      simp only [if_true] at ho
      rw [hoo] at ho
      obtain ⟨l, hl, hle, _, _⟩ := alignOpt_some ho.symm
      have := hcurI oo l hc hl
      have : l = oo := by omega
      subst this
      rw [hK.of_some hc]
      exact hl

theorem bitsState_new (st : GState) (ft : Ty) (sz n : Nat) (h : st.bitsRem = 0 ∨ st.prevBitsTy ≠ ft.bitBase) :
    bitsState st ft sz n =
      { st with prevBits := true, prevBitsTy := ft.bitBase, bitsRem := ((sz * 8 : Nat) : Int) - ((n : Nat) : Int), rollover := true } := by
  unfold bitsState
  simp only [if_pos h]

theorem bitsState_cont (st : GState) (ft : Ty) (sz n : Nat) (h : ¬ (st.bitsRem = 0 ∨ st.prevBitsTy ≠ ft.bitBase)) :
    bitsState st ft sz n = { st with prevBits := true, bitsRem := st.bitsRem - ((n : Nat) : Int) } := by
  unfold bitsState
  simp only [if_neg h]

theorem bitsState_block (st : GState) (ft : Ty) (sz n : Nat) :
    (bitsState st ft sz n).block = st.block ∧ (bitsState st ft sz n).blockOff = st.blockOff ∧
      (bitsState st ft sz n).cur = st.cur := by
  unfold bitsState
  simp only
  split <;> exact ⟨rfl, rfl, rfl⟩

theorem flush_congr (cfg : Cfg) (al : Bool) (st st' : GState) (h1 : st.block = st'.block) (h2 : st.blockOff = st'.blockOff) :
    flush cfg al st = flush cfg al st' := by
  unfold flush
  rw [h1, h2]

theorem preOf_true (st : GState) : preOf st true = [] := by
  unfold preOf; simp

theorem afterPre_true (st : GState) : afterPre st true = st := by
  unfold afterPre; simp

theorem step_bits (cfg : Cfg) (al : Bool) (salign : Nat) (name : String) (an : Bool) (ty : Ty) (b : Nat) (rest : Fields)
    (o : Option Nat) (offs' : List (Option Nat)) (lst : LState) (sz : Option Nat) (sa : Nat) (gst : GState) (vst : VSt)
    (fsV : Fields) (offsV : List (Option Nat)) (fl p : Plan) (ft0 : Scalar) (fsz : Nat) (nu : Bool)
    (hI : CInv cfg al gst vst lst fsV offsV (.cons name an ty (some (b + 1)) rest) (o :: offs'))
    (hwf : memberWF cfg al ty (some (b + 1)) = true) (had : al = true → ty.alignment cfg ∣ salign)
    (hbb : ty.bitBase = some ft0) (hsz : ft0.size = some fsz)
    (ht : layoutThird lst ft0 (alignOpt al lst.offset (ty.alignment cfg)) = .ok nu)
    (hT : nu = true →
      (0 : Int) ≤ ((fsz * 8 : Nat) : Int) - ((b + 1 : Nat) : Int) ∧ o = alignOpt al lst.offset (ty.alignment cfg) ∧
      Fields.layout cfg al rest ⟨(alignOpt al lst.offset (ty.alignment cfg)).map (· + fsz),
        max lst.alignment (ty.alignment cfg), some ft0, alignOpt al lst.offset (ty.alignment cfg),
        ((fsz * 8 : Nat) : Int) - ((b + 1 : Nat) : Int)⟩ = .ok (sz, sa, offs'))
    (hF : nu = false →
      (0 : Int) ≤ lst.bitsRemaining - ((b + 1 : Nat) : Int) ∧ o = none ∧
      Fields.layout cfg al rest ⟨alignOpt al lst.offset (ty.alignment cfg), max lst.alignment (ty.alignment cfg),
        lst.bitsType, lst.bitsFieldOffset, lst.bitsRemaining - ((b + 1 : Nat) : Int)⟩ = .ok (sz, sa, offs'))
    (gst2 : GState) (hg2 : gst2 = bitsState gst (fieldType ty) fsz (b + 1))
    (hfl : flush cfg al gst2 = .ok fl)
    (ihT : ∀ lst', Fields.layout cfg al rest lst' = .ok (sz, sa, offs') → ∀ gst' vst' fsV' offsV',
      CInv cfg al gst' vst' lst' fsV' offsV' rest offs' →
      genFields cfg al rest offs' gst' = .ok p → planOKAux cfg al salign p fsV' offsV' vst' = true)
    (hp : genFields cfg al rest offs'
      (advance { gst2 with block := [], cur := (alignToField cfg al ⟨name, ty, o⟩ gst2.cur).2 } true (some fsz)
        (elementType (fieldType ty))) = .ok p) :
    planOKAux cfg al salign
      (fl ++ (alignToField cfg al ⟨name, ty, o⟩ gst2.cur).1 ++ [.bits name (b + 1) (bitsViaOf ty)] ++ p)
      fsV offsV vst = true := by
  simp only [List.append_assoc, List.cons_append, List.nil_append]
  obtain ⟨hblk2, hboff2, hcur2⟩ := bitsState_block gst (fieldType ty) fsz (b + 1)
  rw [← hg2] at hblk2 hboff2 hcur2
  have hcurI : ∀ c l, gst2.cur = some c → lst.offset = some l → c ≤ l := by
    intro c l hc hl; rw [hcur2] at hc; exact hI.cur c l hc hl
  rcases hI.mode with ⟨⟨bs, P⟩, hremL⟩ | ⟨B, rfl, rfl⟩
  · -- the first bit-field of a run
    have hnu : nu = true := by
      unfold layoutThird at ht
      rw [if_pos (Or.inl hremL)] at ht
      cases ht; rfl
    subst hnu
    obtain ⟨hfit, ho, hl'⟩ := hT rfl
    have hnew : gst.bitsRem = 0 ∨ gst.prevBitsTy ≠ (fieldType ty).bitBase := Or.inl P.rem0
    rw [bitsState_new _ _ _ _ hnew, fieldType_bitBase, hbb] at hg2
    rw [flush_congr cfg al gst2 gst hblk2 hboff2] at hfl
    obtain ⟨sp', hfe, hK⟩ := flush_ok cfg al salign gst vst bs lst.offset fsV offsV _ _ P fl hfl
      ⟨_, dropVoids_nonvoid _ _ _ _ _ _ _ _ _ (by simp)⟩
      ((alignToField cfg al ⟨name, ty, o⟩ gst2.cur).1 ++ (.bits name (b + 1) (bitsViaOf ty) :: p))
      (NoReset.append (alignToField_noReset _ _ _ _) (noReset_cons (by simp) _))
    rw [hfe]
    refine bits_tail cfg al salign name an ty b rest offs' lst gst2 (syncSt sp') p ft0 fsz true (fsz * 8) none false
      o _ sp' rfl (by rw [hcur2]; exact hK) rfl rfl (by omega) hbb hsz hwf had (by rw [if_pos rfl]; exact ho) rfl hcurI (fun h => by cases h)
      (fun _ => by rw [hg2]) (by rw [hg2]) (by rw [hg2]) (by rw [hg2]) (fun h => by cases h) ?_ hp
    rw [if_pos rfl]
    exact ihT _ hl'
  · -- inside a run
    obtain ⟨ft1, rem, fsz1, sp, hv, hK, hty, hremG, hbt, hremL, hsz1, hoffd⟩ := B.ex
    have hK2 : Known sp lst.offset gst2.cur := by rw [hcur2]; exact hK
    have hflnil : fl = [] := by
      have := flush_nil cfg al gst2 (by rw [hblk2]; exact B.blk)
      rw [this] at hfl
      cases hfl; rfl
    subst hflnil
    rw [List.nil_append]
    have hfa : al = true → fsz = ty.alignment cfg := by
      intro hal
      have h1 := memberWF_bitsAlign hwf hal
      rw [bitBase_size cfg hbb, hsz] at h1
      exact Option.some.inj h1
    by_cases hnew : rem = 0 ∨ ft1 ≠ ft0
    · -- a new unit
      have hnu : nu = true := by
        unfold layoutThird at ht
        rw [if_pos (by
          rcases hnew with h | h
          · left; rw [hremL, h]; rfl
          · right; rw [hbt]; intro hc; exact h (Option.some.inj hc).symm)] at ht
        cases ht; rfl
      subst hnu
      obtain ⟨hfit, ho, hl'⟩ := hT rfl
      have hnewC : gst.bitsRem = 0 ∨ gst.prevBitsTy ≠ (fieldType ty).bitBase := by
        rw [fieldType_bitBase, hbb, hty, hremG]
        rcases hnew with h | h
        · left; rw [h]; rfl
        · right; intro hc; exact h (Option.some.inj hc)
      rw [bitsState_new _ _ _ _ hnewC, fieldType_bitBase, hbb] at hg2
      refine bits_tail cfg al salign name an ty b rest offs' lst gst2 vst p ft0 fsz true (fsz * 8) (some (ft1, rem)) true
        o _ sp hv hK2 ?_ rfl (by omega) hbb hsz hwf had (by rw [if_pos rfl]; exact ho) rfl hcurI (fun h => by cases h)
        (fun _ => by rw [hg2]) (by rw [hg2]) (by rw [hg2]) (by rw [hg2]) (fun h => by cases h) ?_ hp
      · unfold unitNew
        rcases hnew with h | h
        · simp [h]
        · simp [h]
      · rw [if_pos rfl]
        exact ihT _ hl'
    · -- the unit continues
      have hrem : rem ≠ 0 := fun h => hnew (Or.inl h)
      have hft : ft1 = ft0 := by
        cases Decidable.em (ft1 = ft0) with
        | inl h => exact h
        | inr h => exact absurd (Or.inr h) hnew
      subst hft
      rw [hsz] at hsz1
      have hfsz : fsz1 = fsz := (Option.some.inj hsz1).symm
      subst hfsz
      have hnu : nu = false := by
        unfold layoutThird at ht
        rw [if_neg (by
          rw [hremL, hbt]
          intro hc
          rcases hc with h | h
          · exact hrem (by exact_mod_cast h)
          · exact h rfl), hbt] at ht
        simp only [hsz] at ht
        rcases hoffd with h | ⟨bfo, h1, h2, h3⟩
        · rw [h] at ht
          simp only [alignOpt, Option.map_none] at ht
          cases ht; rfl
        · rw [h1, h2] at ht
          have hpad : alignOpt al (some (bfo + fsz1)) (ty.alignment cfg) = some (bfo + fsz1) := by
            cases hal : al with
            | false => simp [alignOpt]
            | true =>
              simp only [alignOpt, Option.map_some, if_true, Option.some.injEq]
              have hd : ty.alignment cfg ∣ bfo + fsz1 := by
                rw [← hfa hal]
                exact Nat.dvd_add (h3 hal) (Nat.dvd_refl _)
              rw [padNat_of_dvd (memberWF_p2 hwf hal) hd]
              rfl
          rw [hpad] at ht
          simp only [Nat.lt_irrefl, gt_iff_lt, decide_false] at ht
          cases ht; rfl
      subst hnu
      obtain ⟨hfit, ho, hl'⟩ := hF rfl
      rw [hremL] at hfit
      have hcontC : ¬ (gst.bitsRem = 0 ∨ gst.prevBitsTy ≠ (fieldType ty).bitBase) := by
        rw [fieldType_bitBase, hbb, hty, hremG]
        intro hc
        rcases hc with h | h
        · exact hrem (by exact_mod_cast h)
        · exact h rfl
      rw [bitsState_cont _ _ _ _ hcontC] at hg2
      refine bits_tail cfg al salign name an ty b rest offs' lst gst2 vst p ft1 fsz1 false rem (some (ft1, rem)) true
        o _ sp hv hK2 ?_ ?_ (by omega) hbb hsz hwf had (by rw [if_neg (by simp)]; exact ho) rfl hcurI ?_ (fun h => by cases h)
        (by rw [hg2]) (by rw [hg2]; exact hty) (by rw [hg2]; simp only; rw [hremG]) (fun _ => ⟨hbt, hremL, hoffd⟩) ?_ hp
      · unfold unitNew
        simp [hrem]
      · rw [if_neg (by simp)]; rfl
      · intro _ hr
        rw [hg2] at hr
        exact hI.roll hr
      · rw [if_neg (by simp)]
        exact ihT _ hl'

/-! ### the simulation -/

theorem genFields_ok (cfg : Cfg) (al : Bool) (salign : Nat) : ∀ (fs : Fields) (offs : List (Option Nat)) (lst : LState)
    (sz : Option Nat) (sa : Nat), Fields.layout cfg al fs lst = .ok (sz, sa, offs) → compileWF cfg al fs = true →
    AlignDvd cfg al salign fs → ∀ (gst : GState) (vst : VSt) (fsV : Fields) (offsV : List (Option Nat)) (plan : Plan),
    CInv cfg al gst vst lst fsV offsV fs offs → genFields cfg al fs offs gst = .ok plan →
    planOKAux cfg al salign plan fsV offsV vst = true
  | .nil, offs, lst, _, _, _, _, _, gst, vst, fsV, offsV, plan, hI, hg =>
    step_nil cfg al salign offs lst gst vst fsV offsV plan hI hg
  | .cons name an ty bits rest, offs, lst, sz, sa, hl, hwf, had, gst, vst, fsV, offsV, plan, hI, hg => by
    obtain ⟨hm, _, hwfr⟩ := compileWF_cons hwf
    obtain ⟨hadh, hadr⟩ := had
    rw [genFields] at hg
    simp only at hg
    split at hg
    · cases hg
    · rename_i h1
      split at hg
      · cases hg
      · rename_i h2
        have h1' : unsupported (fieldType ty) = false := by simpa using h1
        cases bits with
        | none =>
          obtain ⟨offs', rfl, hl'⟩ := layout_plain cfg al name an ty none rest lst sz sa offs rfl hl
          simp only [hdOff, List.drop_one, List.tail_cons, isBitsField] at hg
          have ih := genFields_ok cfg al salign rest offs' _ sz sa hl' hwfr hadr
          split at hg
          · rename_i hsub
            split at hg
            · cases hg
            · rename_i fl hfl
              split at hg
              · cases hg
              · rename_i p hp
                cases hg
                exact step_sub cfg al salign name an ty rest _ offs' lst gst vst fsV offsV fl p _ rfl rfl hI hm hadh hsub hfl
                  (fun gst' vst' fsV' offsV' hI' hg' => ih gst' vst' fsV' offsV' p hI' hg') hp
          · rename_i hsub
            simp only [Bool.false_eq_true, if_false] at hg
            split at hg
            · cases hg
            · rename_i fl hfl
              split at hg
              · cases hg
              · rename_i p hp
                cases hg
                exact step_block cfg al salign name an ty rest _ offs' lst sz sa gst vst fsV offsV fl p _ rfl rfl hI hwf hl
                  h1' h2 hsub hfl (fun gst' vst' fsV' offsV' hI' hg' => ih gst' vst' fsV' offsV' p hI' hg') hp
        | some k =>
          cases k with
          | zero => exact absurd rfl (memberWF_bits_ne hm)
          | succ b =>
            obtain ⟨ft0, fsz, nu, offs', hbb, hsz, ht, hT, hF⟩ := layout_bits cfg al name an ty b rest lst sz sa offs hl
            obtain ⟨o, rfl⟩ : ∃ o, offs = o :: offs' := by
              cases nu with
              | true => exact ⟨_, (hT rfl).2.1⟩
              | false => exact ⟨_, (hF rfl).2.1⟩
            have hsize : (fieldType ty).size cfg = some fsz := by
              rw [fieldType_size, bitBase_size cfg hbb, hsz]
            simp only [hdOff, List.drop_one, List.tail_cons, isBitsField, hsize, preOf_true, afterPre_true,
              List.nil_append, Option.getD_some, if_neg (bitBase_not_sub hbb _), if_true] at hg
            split at hg
            · cases hg
            · rename_i fl hfl
              split at hg
              · cases hg
              · rename_i p hp
                cases hg
                refine step_bits cfg al salign name an ty b rest o offs' lst sz sa gst vst fsV offsV fl p ft0 fsz nu hI hm
                  hadh hbb hsz ht ?_ ?_ _ rfl hfl ?_ hp
                · intro hnu
                  obtain ⟨h1, h2, h3⟩ := hT hnu
                  simp only [List.cons.injEq, and_true] at h2
                  exact ⟨h1, h2, h3⟩
                · intro hnu
                  obtain ⟨h1, h2, h3⟩ := hF hnu
                  simp only [List.cons.injEq, and_true] at h2
                  exact ⟨h1, h2, h3⟩
                · intro lst' hl' gst' vst' fsV' offsV' hI' hg'
                  exact genFields_ok cfg al salign rest offs' lst' sz sa hl' hwfr hadr gst' vst' fsV' offsV' p hI' hg'

/-- the initial states satisfy the invariant -/
theorem inv_init (cfg : Cfg) (al : Bool) (fs : Fields) (offs : List (Option Nat)) :
    CInv cfg al GState.init ⟨some 0, none, none, false⟩ LState.init fs offs fs offs := by
  refine ⟨?_, (fun h => by cases h), Or.inl ⟨⟨some 0, ?_⟩, rfl⟩⟩
  · intro c l hc hl
    simp only [GState.init, Option.some.injEq] at hc
    omega
  · exact {
      pend := Pending.nil _ _
      chain := rfl
      sync := Or.inl rfl
      mem := fun f hf => by cases hf
      vfresh := trivial
      vfresh2 := fun f hf => by cases hf
      boff := fun h => absurd rfl h
      dyn := fun _ _ => Nat.zero_le _
      vsync := rfl
      np := rfl
      rem0 := rfl }

end Cstruct.Compiler
