/-
  Helper lemmas for `Proofs/Core.lean`, part 4: write/read facts for fragment S (round trip and totality of writing).
-/
import Proofs.Lemmas.CoreRW
namespace Cstruct.Core.Lemmas
open Cstruct Cstruct.Core

/-! ### More layout facts -/

theorem le_maxAlign (cfg : Cfg) : ∀ (fs : Fields) (a : Nat), a ≤ Fields.maxAlign cfg fs a
  | .nil, a => Nat.le_refl _
  | .cons _ _ t _ r, a => by
    simp only [Fields.maxAlign]
    have := le_maxAlign cfg r (max a (t.alignment cfg))
    have := Nat.le_max_left a (t.alignment cfg)
    omega

theorem maxAlign_eq_zero (cfg : Cfg) (fs : Fields) (hp : fs.pow2Aligned cfg) (h : Fields.maxAlign cfg fs 0 = 0) :
    fs = .nil := by
  cases fs with
  | nil => rfl
  | cons n an t b r =>
    simp only [Fields.pow2Aligned] at hp
    simp only [Fields.maxAlign] at h
    have h1 := le_maxAlign cfg r (max 0 (t.alignment cfg))
    have h2 := (alignment_p2 cfg t hp.1).pos
    have h3 := Nat.le_max_right 0 (t.alignment cfg)
    omega

/-- in aligned mode, the start of a structure being aligned makes every member alignment divide it -/
theorem allAlignDvd_of_sAlign (cfg : Cfg) (al : Bool) (fs : Fields) (hp : fs.pow2Aligned cfg) (pos : Nat)
    (h : sAlign cfg (.struct al fs) ∣ pos) : allAlignDvd cfg pos fs := by
  simp only [sAlign, Ty.alignment] at h
  by_cases h0 : Fields.maxAlign cfg fs 0 = 0
  · rw [maxAlign_eq_zero cfg fs hp h0]; trivial
  · rw [if_neg h0] at h
    exact allAlignDvd_trans cfg h fs (maxAlign_dvd cfg fs hp 0 (Or.inl rfl)).1

theorem padNat_struct (cfg : Cfg) (al : Bool) (fs : Fields) (hp : fs.pow2Aligned cfg) (pos e : Nat)
    (h : sAlign cfg (.struct al fs) ∣ pos) :
    padNat (pos + e) (Fields.maxAlign cfg fs 0) = padNat e (Fields.maxAlign cfg fs 0) := by
  simp only [sAlign, Ty.alignment] at h
  by_cases h0 : Fields.maxAlign cfg fs 0 = 0
  · rw [h0, padNat_zero, padNat_zero]
  · rw [if_neg h0] at h
    exact padNat_add_of_dvd (maxAlign_p2 cfg fs hp 0 (Or.inl rfl)) pos e h

/-- in aligned mode the size of a static type is a multiple of the alignment its start needs -/
theorem size_sAlign_dvd (cfg : Cfg) : ∀ (ty : Ty), ty.fragS cfg = true → ty.uniformAlign true = true →
    ty.pow2Aligned cfg → ∀ k, ty.size cfg = some k → sAlign cfg ty ∣ k
  | .sc _ _, _, _, _, _, _ => Nat.one_dvd _
  | .enum _ _ _, _, _, _, _, _ => Nat.one_dvd _
  | .ptr _, _, _, _, _, _ => Nat.one_dvd _
  | .union _ _, _, _, _, _, _ => Nat.one_dvd _
  | .arr e len, hS, hU, hP, k, hk => by
    simp only [Ty.fragS, Bool.and_eq_true] at hS
    simp only [Ty.uniformAlign] at hU
    simp only [Ty.pow2Aligned] at hP
    cases len with
    | fixed n =>
      simp only [Ty.size] at hk
      cases he : e.size cfg with
      | none => rw [he] at hk; cases hk
      | some k' =>
        rw [he] at hk; cases hk
        simp only [sAlign]
        exact Nat.dvd_trans (size_sAlign_dvd cfg e hS.2 hU hP k' he) (Nat.dvd_mul_left _ _)
    | expr _ => simp at hS
    | nullTerm => simp at hS
    | eof => simp at hS
  | .struct al fs, hS, hU, hP, k, hk => by
    simp only [Ty.fragS] at hS
    simp only [Ty.uniformAlign, Bool.and_eq_true, beq_iff_eq] at hU
    simp only [Ty.pow2Aligned] at hP
    obtain ⟨rfl, hU⟩ := hU
    rw [struct_size cfg true fs hS] at hk
    cases hk
    simp only [sAlign, Ty.alignment]
    split
    · exact Nat.one_dvd _
    · rename_i h0
      rcases maxAlign_p2 cfg fs hP 0 (Or.inl rfl) with h1 | h1
      · exact absurd h1 h0
      · exact alignTo_dvd h1 _

theorem hasTyN_length (cfg : Cfg) (e : Ty) : ∀ (n : Nat) (vs : Vals), HasTyN cfg vs e n → vs.length = n := by
  intro n
  induction n with
  | zero => intro vs h; cases h; rfl
  | succ n ih => intro vs h; cases h with | cons h1 h2 => simp only [Vals.length, ih _ h2]

/-! ### Write/read facts for arrays and structures of fragment S -/

theorem wr_N (cfg : Cfg) (al : Bool) (e : Ty) (k : Nat) (hk : e.size cfg = some k)
    (hdvd : al = true → sAlign cfg e ∣ k)
    (hE : ∀ v, HasTy cfg v e → ∀ pos, (al = true → sAlign cfg e ∣ pos) → WR cfg e v pos) :
    ∀ (n : Nat) (vs : Vals), HasTyN cfg vs e n → ∀ pos, (al = true → sAlign cfg e ∣ pos) →
      ∃ bs, writeN cfg e vs pos = .ok bs ∧ bs.length = n * k ∧
        ∀ (pre post : Bytes) (ctx : Ctx), pre.length = pos →
          readN cfg e n ctx (pre ++ bs ++ post) pos = .ok (vs, pos + n * k) := by
  intro n
  induction n with
  | zero =>
    intro vs h pos _
    cases h
    refine ⟨[], writeN_nil cfg e pos, by simp, ?_⟩
    intro pre post ctx _
    rw [readN_zero]; simp
  | succ n ih =>
    intro vs h pos hpos
    cases h with
    | @cons v vs' _ _ h1 h2 =>
      obtain ⟨bs1, k1, w1, s1, l1, r1⟩ := hE v h1 pos hpos
      rw [hk] at s1; cases s1
      obtain ⟨bs2, w2, l2, r2⟩ := ih vs' h2 (pos + k) (fun ha => Nat.dvd_add (hpos ha) (hdvd ha))
      refine ⟨bs1 ++ bs2, ?_, ?_, ?_⟩
      · rw [writeN_cons, w1]; simp only [Except.bind]; rw [l1, w2]
      · rw [List.length_append, l1, l2, Nat.succ_mul]; omega
      · intro pre post ctx hp
        rw [readN_succ]
        have e1 : pre ++ (bs1 ++ bs2) ++ post = pre ++ bs1 ++ (bs2 ++ post) := by simp
        rw [e1, r1 pre (bs2 ++ post) ctx hp]
        simp only [Except.bind]
        have e2 : pre ++ bs1 ++ (bs2 ++ post) = (pre ++ bs1) ++ bs2 ++ post := by simp
        rw [e2, r2 (pre ++ bs1) post ctx (by rw [List.length_append, hp, l1])]
        have e3 : pos + (n + 1) * k = pos + k + n * k := by rw [Nat.succ_mul]; omega
        rw [e3]

theorem flushBits_empty (cfg : Cfg) : flushBits cfg BitBuf.empty = .ok [] := rfl

theorem fieldPos_some (cfg : Cfg) (al : Bool) (ty : Ty) (fo start pos : Nat) :
    fieldPos cfg al ty (some fo) start pos = start + fo := by
  simp [fieldPos]

theorem readFields_cons_S (cfg : Cfg) (al name an ty rest fo offs start bb ctx data pos) :
    readFields cfg al (.cons name an ty none rest) (some fo :: offs) start bb ctx data pos =
      (read cfg ty ctx data (start + fo)).bind fun (v, p1) =>
        (readFields cfg al rest offs start BitBuf.empty (ctx.set name v) data p1).bind fun (vs, szs, p') =>
          .ok (.cons v vs, (name, p1 - (start + fo)) :: szs, p') := by
  rw [readFields_cons_nobits _ _ _ _ _ _ _ _ _ _ _ _ _ rfl]
  simp [fieldPos]

mutual
theorem wr_ty (cfg : Cfg) (al : Bool) : ∀ (ty : Ty), ty.fragS cfg = true → ty.uniformAlign al = true →
    ty.pow2Aligned cfg → ∀ v, HasTy cfg v ty → ∀ pos, (al = true → sAlign cfg ty ∣ pos) → WR cfg ty v pos
  | .sc s a, _, _, _, v, hv, pos, _ => wr_sc cfg s a v hv pos
  | .enum b a f, hS, _, _, v, hv, pos, _ => wr_enum cfg b a f v hS hv pos
  | .ptr t, hS, _, _, v, hv, pos, _ => wr_ptr cfg t v hS hv pos
  | .union _ _, hS, _, _, _, _, _, _ => by simp [Ty.fragS] at hS
  | .arr e len, hS, hU, hP, v, hv, pos, hpos => by
    simp only [Ty.fragS, Bool.and_eq_true] at hS
    simp only [Ty.uniformAlign] at hU
    simp only [Ty.pow2Aligned] at hP
    simp only [sAlign] at hpos
    obtain ⟨k, hk⟩ := fragS_size cfg e hS.2
    unfold WR
    cases hv with
    | @chars a n bs hl =>
      refine ⟨bs, n * 1, write_arr_chars cfg a n bs pos, rfl, by omega, ?_⟩
      intro pre post ctx hp
      rw [read_arr_fixed, readArray_char]
      split
      · rename_i h0; subst h0
        cases bs with
        | nil => simp
        | cons _ _ => simp at hl
      · rw [readExact_mid pre bs post pos n hp hl]; simp [Except.bind]
    | @arr _ n vs hne hN =>
      have hdvd : al = true → sAlign cfg e ∣ k := by
        intro ha; subst ha; exact size_sAlign_dvd cfg e hS.2 hU hP k hk
      obtain ⟨bs, w, l, r⟩ := wr_N cfg al e k hk hdvd
        (fun v hv pos hp => wr_ty cfg al e hS.2 hU hP v hv pos hp) n vs hN pos hpos
      refine ⟨bs, n * k, ?_, by simp only [Ty.size, hk], l, ?_⟩
      · rw [write_arr_list, if_neg (by rw [hasTyN_length cfg e n vs hN]; simp), w]
      · intro pre post ctx hp
        rw [read_arr_fixed]
        exact readArray_of_readN cfg e hS.2 hne ctx _ n pos vs _ (r pre post ctx hp)
  | .struct al' fs, hS, hU, hP, v, hv, pos, hpos => by
    simp only [Ty.fragS] at hS
    simp only [Ty.uniformAlign, Bool.and_eq_true, beq_iff_eq] at hU
    simp only [Ty.pow2Aligned] at hP
    obtain ⟨rfl, hU⟩ := hU
    unfold WR
    cases hv with
    | @struct _ _ vs hvs =>
      have hdv : al' = true → allAlignDvd cfg pos fs :=
        fun ha => allAlignDvd_of_sAlign cfg al' fs hP pos (hpos ha)
      obtain ⟨out, w, l, r⟩ := wr_fields cfg al' fs hS hU hP vs hvs pos 0 hdv
      simp only [Nat.add_zero, Nat.zero_add] at w l r
      refine ⟨if al' then out ++ zeros (padNat (pos + out.length) (Fields.maxAlign cfg fs 0)) else out,
        alignTo al' (endOff cfg al' fs 0) (Fields.maxAlign cfg fs 0), ?_, struct_size cfg al' fs hS, ?_, ?_⟩
      · rw [write_struct, structLayout_S cfg al' fs hS]
        simp only [Except.bind, w, flushBits_empty, List.append_nil]
      · rw [← l]
        cases al' with
        | false => simp [alignTo]
        | true =>
          have hpad := padNat_struct cfg true fs hP pos out.length (hpos rfl)
          simp only [if_true, alignTo, List.length_append, zeros, List.length_replicate, hpad]
      · intro pre post ctx hp
        rw [read_struct, structLayout_S cfg al' fs hS]
        simp only [Except.bind]
        cases al' with
        | false =>
          simp only [Bool.false_eq_true, if_false] at *
          obtain ⟨szs, hr⟩ := r pre post [] BitBuf.empty hp
          rw [hr]; simp [alignTo]
        | true =>
          have hpad := padNat_struct cfg true fs hP pos out.length (hpos rfl)
          simp only [if_true] at *
          have e1 : pre ++ (out ++ zeros (padNat (pos + out.length) (Fields.maxAlign cfg fs 0))) ++ post =
              pre ++ out ++ (zeros (padNat (pos + out.length) (Fields.maxAlign cfg fs 0)) ++ post) := by simp
          obtain ⟨szs, hr⟩ := r pre (zeros (padNat (pos + out.length) (Fields.maxAlign cfg fs 0)) ++ post) []
            BitBuf.empty hp
          rw [e1, hr]
          simp only [alignTo, if_true, ← l, hpad]
          congr 2; omega
theorem wr_fields (cfg : Cfg) (al : Bool) : ∀ (fs : Fields), Fields.fragS cfg fs = true →
    Fields.uniformAlign al fs = true → fs.pow2Aligned cfg → ∀ vs, HasTys cfg vs fs → ∀ (start o : Nat),
    (al = true → allAlignDvd cfg start fs) →
    ∃ out, writeFields cfg al fs (offsS cfg al fs o) vs start BitBuf.empty (start + o) = .ok (out, BitBuf.empty) ∧
      o + out.length = endOff cfg al fs o ∧
      ∀ (pre post : Bytes) (ctx : Ctx) (bb : BitBuf), pre.length = start + o →
        ∃ szs, readFields cfg al fs (offsS cfg al fs o) start bb ctx (pre ++ out ++ post) (start + o) =
          .ok (vs, szs, start + endOff cfg al fs o)
  | .nil, _, _, _, vs, hvs, start, o, _ => by
    cases hvs
    refine ⟨[], writeFields_nil .., rfl, ?_⟩
    intro pre post ctx bb _
    exact ⟨[], by rw [readFields_nil]; rfl⟩
  | .cons name an ty bits rest, hS, hU, hP, vs, hvs, start, o, hdv => by
    simp only [Fields.fragS, Bool.and_eq_true, Option.isNone_iff_eq_none] at hS
    obtain ⟨⟨rfl, hS1⟩, hS2⟩ := hS
    simp only [Fields.uniformAlign, Bool.and_eq_true] at hU
    simp only [Fields.pow2Aligned] at hP
    cases hvs with
    | @cons v vs' _ _ _ _ hv hvs' =>
      have hfa := alignment_p2 cfg ty hP.1
      -- the member's position
      have hle := le_alignTo al o (ty.alignment cfg)
      have hpos : al = true → sAlign cfg ty ∣ start + alignTo al o (ty.alignment cfg) := by
        intro ha; subst ha
        have h1 := (hdv rfl).1
        exact Nat.dvd_trans (sAlign_dvd_alignment cfg ty) (Nat.dvd_add h1 (alignTo_dvd hfa o))
      obtain ⟨bs, k, w, s, l, r⟩ := wr_ty cfg al ty hS1 hU.1 hP.1 v hv _ hpos
      obtain ⟨out', w', l', r'⟩ := wr_fields cfg al rest hS2 hU.2 hP.2 vs' hvs' start
        (alignTo al o (ty.alignment cfg) + k) (fun ha => (hdv ha).2)
      generalize hfo : alignTo al o (ty.alignment cfg) = fo at *
      have hpad : (if start + o < start + fo then start + fo - (start + o) else 0) = fo - o := by
        split <;> omega
      refine ⟨zeros (fo - o) ++ bs ++ out', ?_, ?_, ?_⟩
      · simp only [offsS, hfo, s, Option.getD_some]
        rw [writeFields_cons_S, hpad]
        have e1 : start + o + (fo - o) = start + fo := by omega
        rw [e1, w]
        simp only [Except.bind]
        have e2 : start + o + (zeros (fo - o) ++ bs).length = start + (fo + k) := by
          simp only [List.length_append, zeros, List.length_replicate, l]; omega
        rw [e2, w']
      · simp only [endOff, hfo, s, Option.getD_some, List.length_append, zeros, List.length_replicate, l]
        omega
      · intro pre post ctx bb hp
        simp only [offsS, hfo, s, Option.getD_some]
        rw [readFields_cons_S]
        have e1 : pre ++ (zeros (fo - o) ++ bs ++ out') ++ post = (pre ++ zeros (fo - o)) ++ bs ++ (out' ++ post) := by
          simp
        have hl1 : (pre ++ zeros (fo - o)).length = start + fo := by
          simp only [List.length_append, zeros, List.length_replicate, hp]; omega
        rw [e1, r (pre ++ zeros (fo - o)) (out' ++ post) ctx hl1]
        simp only [Except.bind]
        have e2 : (pre ++ zeros (fo - o)) ++ bs ++ (out' ++ post) = (pre ++ zeros (fo - o) ++ bs) ++ out' ++ post := by
          simp
        have hl2 : (pre ++ zeros (fo - o) ++ bs).length = start + (fo + k) := by
          rw [List.length_append, hl1, l]; omega
        obtain ⟨szs, hr⟩ := r' (pre ++ zeros (fo - o) ++ bs) post (Ctx.set ctx name v) BitBuf.empty hl2
        have e3 : start + fo + k = start + (fo + k) := by omega
        rw [e2, e3, hr]
        simp only [endOff, hfo, s, Option.getD_some]
        exact ⟨_, rfl⟩
end

end Cstruct.Core.Lemmas
