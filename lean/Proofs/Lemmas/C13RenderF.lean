/-
  C13, round trip — helper lemmas (6): the rendered top-level declarations are admissible texts.
-/
import Proofs.Lemmas.C13RenderE

namespace Cstruct.DefParser.C13
open Cstruct.DefParser

theorem ident_word (w : List Char) (h : isIdent w = true) : isWordStr w = true ∧ isKeyword w = false := by
  simp only [isIdent, Lexeme.wf, Bool.and_eq_true, Bool.not_eq_true'] at h
  refine ⟨?_, h.2⟩
  cases w with
  | nil => simp at h
  | cons c r => simp [isWordStr, h.1.2]

theorem nameLex_wf (n : List Char) (h : isIdent n = true) : (Lexeme.name [] n none none).wf = true := by
  obtain ⟨h1, h2⟩ := ident_word n h
  simp [Lexeme.wf, preOK, h1, h2]

theorem moreOK_map : ∀ (r : List (List Char)), (∀ m ∈ r, isIdent m = true) → moreOK (r.map fun m => (([] : List Char), [' '], m)) = true
  | [], _ => rfl
  | m :: r, h => by
    simp only [List.map_cons, moreOK, (ident_word m (h m (by simp))).1, moreOK_map r (fun x hx => h x (by simp [hx]))]
    rfl

theorem defsLex_wf (n : List Char) (r : List (List Char)) (hn : isIdent n = true) (hr : ∀ m ∈ r, isIdent m = true) (hne : r ≠ []) :
    (Lexeme.defs [' '] n (r.map fun m => (([] : List Char), [' '], m))).wf = true := by
  have := moreOK_map r hr
  cases r with
  | nil => exact absurd rfl hne
  | cons m r' => simp only [Lexeme.wf, (ident_word n hn).1, this]; rfl

/-- the part of a top-level aggregate behind its members: `}`, the declared names, `;` -/
theorem seg_tail (ns : List (List Char)) (hns : ∀ m ∈ ns, isIdent m = true) (n : Option Lexeme) (hn : NextOK n) :
    Seg ([(Lexeme.rbrace, if ns.length ≥ 2 then [] else [' '])] ++ namesLex ns ++ [(.semi, ['\n'])]) n := by
  have hsemi : Seg [(Lexeme.semi, ['\n'])] n := seg_punct _ (.inr (.inr rfl)) _ (.inr rfl) n hn
  have hs : NextOK (some Lexeme.semi) := by intro y hy; cases hy; rfl
  match ns, hns with
  | [], _ =>
    simp only [namesLex, List.length_nil, List.append_nil]
    exact seg_append _ _ n (seg_punct _ (.inr (.inl rfl)) _ (.inl rfl) _ (by simpa [headLex] using hs)) hsemi
  | [m], hm =>
    have hw := nameLex_wf m (hm m (by simp))
    simp only [namesLex, List.length_cons, List.length_nil]
    refine seg_append _ _ n (seg_append _ _ _ (seg_punct _ (.inr (.inl rfl)) _ (.inl rfl) _ ?_) ?_) hsemi
    · intro y hy; simp [headLex] at hy; subst hy; rfl
    · simpa [headLex] using seg_name _ _ _ _ hw
  | m :: m2 :: r, hm =>
    have hw := defsLex_wf m (m2 :: r) (hm m (by simp)) (fun x hx => hm x (by simp [hx])) (by simp)
    have hsep : sepOK Lexeme.semi ['\n'] n = true := by
      cases n with
      | none => simp [sepOK]
      | some y => simp [sepOK, hn y rfl]
    have e1 : sepOK Lexeme.rbrace [] (some (Lexeme.defs [' '] m ((m2 :: r).map fun m => (([] : List Char), [' '], m)))) = true := by
      simp [sepOK, Lexeme.isDefs]
    have e2 : sepOK (Lexeme.defs [' '] m ((m2 :: r).map fun m => (([] : List Char), [' '], m))) [] (some .semi) = true := by
      simp [sepOK, Lexeme.isDefs]
    have el : (if (m :: m2 :: r).length ≥ 2 then ([] : List Char) else [' ']) = [] := by simp
    refine ⟨?_, ?_⟩
    · simp only [namesLex, el, List.cons_append, List.nil_append, admN, e1, e2, hw, hsep]
      rfl
    · simp only [namesLex, el, List.cons_append, List.nil_append, closesEnd]
      rfl

theorem segTop (a : Aggr) (h : wfA true a = true) (n : Option Lexeme) (hn : NextOK n) : Seg (lexTop a) n := by
  obtain ⟨u, tag, fs, ns⟩ := a
  simp only [wfA, Bool.and_eq_true, if_true, List.all_eq_true] at h
  obtain ⟨⟨htag, hfs⟩, hns, -⟩ := h
  have htl := seg_tail ns hns n hn
  have hrb : NextOK (some Lexeme.rbrace) := by intro y hy; cases hy; rfl
  have h1 : Seg (lexFs fs ++ ([(Lexeme.rbrace, if ns.length ≥ 2 then [] else [' '])] ++ namesLex ns ++ [(.semi, ['\n'])])) n :=
    seg_append _ _ n (segFs fs hfs _ (by simpa [headLex] using hrb)) htl
  have hhead := headLex_lexFs fs hfs ([(Lexeme.rbrace, if ns.length ≥ 2 then [] else [' '])] ++ namesLex ns ++ [(.semi, ['\n'])]) n
    (by simpa [headLex] using hrb)
  have h2 := seg_append [(Lexeme.lbrace, [' '])] _ n (seg_punct _ (.inl rfl) _ (.inl rfl) _ hhead) h1
  have hlb : NextOK (some Lexeme.lbrace) := by intro y hy; cases hy; rfl
  cases tag with
  | none =>
    have : lexTop (.mk u none fs ns) = [(Lexeme.struct u, [' '])] ++ ([(Lexeme.lbrace, [' '])] ++
        (lexFs fs ++ ([(Lexeme.rbrace, if ns.length ≥ 2 then [] else [' '])] ++ namesLex ns ++ [(.semi, ['\n'])]))) := by simp [lexTop]
    rw [this]
    exact seg_append _ _ n (seg_struct u _ (by simpa [headLex] using hlb)) h2
  | some t =>
    have : lexTop (.mk u (some t) fs ns) = [(Lexeme.struct u, [' '])] ++ ([(Lexeme.ident t, [' '])] ++ ([(Lexeme.lbrace, [' '])] ++
        (lexFs fs ++ ([(Lexeme.rbrace, if ns.length ≥ 2 then [] else [' '])] ++ namesLex ns ++ [(.semi, ['\n'])])))) := by simp [lexTop]
    rw [this]
    refine seg_append _ _ n (seg_struct u _ (by intro y hy; simp [headLex] at hy; subst hy; rfl)) ?_
    exact seg_append _ _ n (seg_ident t htag _ (by simpa [headLex] using hlb) (by simp [headLex])) h2

-- ------------------------------------------------------------------------------------------------ the other declarations
theorem membersText_nobrace : ∀ (ms : List (List Char × Option (List Char))), ms.all memberWF = true →
    (membersText ms).all (· != '}') = true
  | [], _ => rfl
  | m :: r, h => by
    simp only [List.all_cons, Bool.and_eq_true] at h
    have hm : (memberText m).all (· != '}') = true := by
      obtain ⟨k, v⟩ := m
      have h1 := h.1
      simp only [memberWF, Bool.and_eq_true, List.all_eq_true, bne_iff_ne, ne_eq, Bool.not_eq_true'] at h1
      cases v with
      | none =>
        simp only [memberText, List.all_eq_true, bne_iff_ne, ne_eq]
        exact fun c hc => (h1.1.1.2 c hc).1.2
      | some v =>
        simp only [Bool.and_eq_true, List.all_eq_true, bne_iff_ne, ne_eq, Bool.not_eq_true'] at h1
        simp only [memberText, List.all_append, List.all_cons, Bool.and_eq_true, List.all_eq_true, bne_iff_ne, ne_eq]
        exact ⟨fun c hc => (h1.1.1.2 c hc).1.2, by decide, by decide, by decide, fun c hc => (h1.2.2 c hc).1.2⟩
    have ih := membersText_nobrace r h.2
    cases r with
    | nil => simp only [membersText, List.all_append, hm]; rfl
    | cons m2 r2 => simp only [membersText, List.all_append, List.all_cons, hm, ih]; rfl

theorem enumLex_wf (fl : Bool) (n b : List Char) (ms : List (List Char × Option (List Char))) (h : wfDecl (.enum fl n b ms) = true) :
    (Lexeme.enum fl [' '] n (if n.isEmpty then [] else [' ']) (some ([' '], b, [' '])) (' ' :: membersText ms)).wf = true := by
  simp only [wfDecl, baseWF, Bool.and_eq_true] at h
  obtain ⟨⟨hn, ⟨⟨hb1, hb2⟩, hb3⟩, -⟩, hms⟩ := h
  have hb1' : b.all (fun c => isWord c || isWsA c) = true := by
    simp only [List.all_eq_true, Bool.or_eq_true, beq_iff_eq] at hb1 ⊢
    exact fun c hc => (hb1 c hc).imp id (fun e => by subst e; rfl)
  have hv := membersText_nobrace ms hms
  have hws2 : blank (if n.isEmpty then ([] : List Char) else [' ']) = true := by split <;> rfl
  have hor : (!n.isEmpty || (if n.isEmpty then ([] : List Char) else [' ']).isEmpty) = true := by
    cases n <;> simp
  cases b with
  | nil => simp at hb2
  | cons c b' =>
    cases hg : (c :: b').getLast? with
    | none => simp at hg
    | some d =>
      rw [hg] at hb3
      simp only [Lexeme.wf, hn, hws2, hor, hb1', hg]
      simp only at hb2 hb3
      simp [blank, hb2, hb3, hv]
      decide

theorem defineLex_wf (n v : List Char) (h : wfDecl (.const n v) = true) : (Lexeme.define [' '] n [' '] v).wf = true := by
  simp only [wfDecl, Bool.and_eq_true] at h
  obtain ⟨⟨⟨⟨⟨hne, hall⟩, -⟩, hhead⟩, hnoteol⟩, -⟩ := h
  cases v with
  | nil => simp at hhead
  | cons c v' =>
    simp only at hhead
    simp only [Lexeme.wf, hne, hall, hhead, hnoteol]
    rfl

theorem joinComma_all (p : Char → Bool) (hp : p ',' = true) : ∀ (vs : List (List Char)), (∀ v ∈ vs, v.all p = true) → (joinComma vs).all p = true
  | [], _ => rfl
  | [v], h => h v (by simp)
  | v :: w :: r, h => by
    simp only [joinComma, List.all_append, List.all_cons, hp, Bool.true_and, Bool.and_eq_true]
    exact ⟨h v (by simp), joinComma_all p hp (w :: r) (fun x hx => h x (by simp [hx]))⟩

theorem configLex_wf (vs : List (List Char)) (h : wfDecl (.config vs) = true) : (Lexeme.config (joinComma vs)).wf = true := by
  simp only [wfDecl, Bool.and_eq_true, List.all_eq_true] at h
  obtain ⟨⟨-, hne⟩, hall⟩ := h
  have := joinComma_all (· != ']') (by decide) vs (fun v hv => by
    have := (hall v hv).1
    simp only [List.all_eq_true] at this ⊢
    exact fun c hc => (this c hc).2)
  simp only [Lexeme.wf, hne, this]
  rfl

/-- every rendered declaration is an admissible segment in front of anything that is no name list -/
theorem segDecl (d : Decl) (h : wfDecl d = true) (n : Option Lexeme) (hn : NextOK n) : Seg (lexDecl d) n := by
  have hsemi : Seg [(Lexeme.semi, ['\n'])] n := seg_punct _ (.inr (.inr rfl)) _ (.inr rfl) n hn
  cases d with
  | lookup a b => simp [wfDecl] at h
  | config vs =>
    refine seg_single _ _ _ (configLex_wf vs h) rfl rfl ?_ rfl
    cases n with
    | none => simp [sepOK]
    | some y => simp [sepOK, hn y rfl]
  | const nm v =>
    refine seg_single _ _ _ (defineLex_wf nm v h) rfl rfl ?_ rfl
    cases n with
    | none => simp [sepOK]
    | some y => simp [sepOK, hn y rfl]
  | enum fl nm b ms =>
    have hw := enumLex_wf fl nm b ms h
    have hsep : sepOK Lexeme.semi ['\n'] n = true := by
      cases n with
      | none => simp [sepOK]
      | some y => simp [sepOK, hn y rfl]
    refine ⟨?_, ?_⟩
    · simp only [lexDecl, admN, hw, hsep]
      simp [blank, sepOK, Lexeme.isDefs, Lexeme.wf]
      decide
    · simp [lexDecl, closesEnd, closes]
  | typedef t ds =>
    simp only [wfDecl, Bool.and_eq_true] at h
    obtain ⟨ht, hds⟩ := h
    match ds, hds with
    | [d], hd =>
      have hdw := declrLex_wf false d hd
      have e : lexDecl (.typedef t [d]) = [(Lexeme.typedef, [' '])] ++ (lexT t ++ ([(declrLex d, [])] ++ [(.semi, ['\n'])])) := by simp [lexDecl]
      rw [e]
      obtain ⟨x, s, r, ex, hxd, -⟩ := lexT_head t ht
      refine seg_append _ _ n (seg_typedef _ ?_) (seg_append _ _ n (segT t ht _ ?_ ?_) (seg_append _ _ n ?_ hsemi))
      · intro y hy; simp [headLex, ex] at hy; subst hy; exact hxd
      · intro y hy; simp [headLex, declrLex] at hy; subst hy; rfl
      · simp [headLex, declrLex]
      · simp only [headLex, declrLex] at hdw ⊢; exact seg_name _ _ _ _ hdw
  | aggr a => exact segTop a h n hn

theorem lexDecl_head (d : Decl) (h : wfDecl d = true) : ∃ x s r, lexDecl d = (x, s) :: r ∧ x.isDefs = false := by
  cases d with
  | lookup a b => simp [wfDecl] at h
  | config vs => exact ⟨_, _, _, rfl, rfl⟩
  | const n v => exact ⟨_, _, _, rfl, rfl⟩
  | enum fl n b ms => exact ⟨_, _, _, rfl, rfl⟩
  | typedef t ds => exact ⟨_, _, _, rfl, rfl⟩
  | aggr a => obtain ⟨u, tag, fs, ns⟩ := a; exact ⟨_, _, _, rfl, rfl⟩

theorem segDecls : ∀ (ds : List Decl), wfDecls ds = true → Seg (lexDecls ds) none
  | [], _ => seg_nil none
  | d :: r, h => by
    simp only [wfDecls, List.all_cons, Bool.and_eq_true] at h
    have ih := segDecls r (by simpa [wfDecls] using h.2)
    have : lexDecls (d :: r) = lexDecl d ++ lexDecls r := by simp [lexDecls]
    rw [this]
    refine seg_append _ _ none (segDecl d h.1 _ ?_) ih
    cases r with
    | nil => intro y hy; simp [lexDecls, headLex] at hy
    | cons d2 r2 =>
      simp only [List.all_cons, Bool.and_eq_true] at h
      obtain ⟨x, s, rr, e, hx⟩ := lexDecl_head d2 h.2.1
      intro y hy
      simp [lexDecls, headLex, e] at hy
      subst hy; exact hx

theorem adm_lexDecls (ds : List Decl) (h : wfDecls ds = true) : adm false (lexDecls ds) = true := by
  rw [adm_eq_admN]; exact (segDecls ds h).1

end Cstruct.DefParser.C13
