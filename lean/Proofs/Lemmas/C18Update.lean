import Proofs.Spec.C18Update
import Proofs.Lemmas.C18
import Proofs.Lemmas.C18Aligned

namespace Cstruct.C18Update.Lemmas
open Cstruct Cstruct.Commit Cstruct.Update Cstruct.C18.Lemmas

/-! ### Field lists -/

theorem append_assoc : ∀ a b c : Fields, Fields.append (Fields.append a b) c = Fields.append a (Fields.append b c)
  | .nil, _, _ => rfl
  | .cons n an t bits r, b, c => by
    show Fields.cons n an t bits (Fields.append (Fields.append r b) c) = _
    rw [append_assoc r b c]; rfl

theorem length_append : ∀ a b : Fields, (Fields.append a b).length = a.length + b.length
  | .nil, b => by simp [Fields.append, Fields.length]
  | .cons n an t bits r, b => by
    simp only [Fields.append, Fields.length, length_append r b]; omega

theorem length_snoc (a : Fields) (n : String) (an : Bool) (t : Ty) (bits : Option Nat) :
    (Fields.append a (.cons n an t bits .nil)).length = a.length + 1 := by
  rw [length_append]; rfl

theorem length_eq_zero : ∀ a : Fields, a.length = 0 → a = .nil
  | .nil, _ => rfl
  | .cons _ _ _ _ r, h => by simp [Fields.length] at h

/-! ### Trailing `none`s in the persisted offsets are no offsets -/

theorem layoutP_pad (cfg : Cfg) (al : Bool) : ∀ (fs : Fields) (pre : List (Option Nat)) (st : LState) (n : Nat),
    layoutP cfg al fs (pre ++ List.replicate n none) st = layoutP cfg al fs pre st
  | .nil, pre, st, n => by rw [layoutP, layoutP]
  | .cons nm an ty bits rest, pre, st, n => by
    rw [layoutP_cons, layoutP_cons]
    cases pre with
    | nil =>
      have h1 : (List.replicate n (none : Option Nat)).headD none = none := by cases n <;> rfl
      have h2 : (List.replicate n (none : Option Nat)).drop 1 = [] ++ List.replicate (n - 1) none := by
        cases n <;> simp [List.replicate]
      have h3 : leadOf (List.replicate n none) st = leadOf [] st := by unfold leadOf; rw [h1]; rfl
      simp only [List.nil_append]
      rw [h1, h2, h3]
      exact cont_congr (fun s => layoutP_pad cfg al rest [] s (n - 1))
    | cons x p =>
      show cont (stepL cfg al ty bits (leadOf (x :: (p ++ List.replicate n none)) st) x st)
        (layoutP cfg al rest (p ++ List.replicate n none)) = cont (stepL cfg al ty bits (leadOf (x :: p) st) x st)
        (layoutP cfg al rest p)
      have h3 : leadOf (x :: (p ++ List.replicate n none)) st = leadOf (x :: p) st := rfl
      rw [h3]
      exact cont_congr (fun s => layoutP_pad cfg al rest p s n)

/-! ### `commit()` -/

theorem view_ok {cfg : Cfg} {al : Bool} {fs : Fields} {p : List (Option Nat)} {L : Layout}
    (h : view cfg al fs p = .ok L) : hasDup (names fs) [] = false ∧ commit cfg al fs p = .ok L := by
  unfold view at h
  split at h
  · cases h
  · rename_i hd
    exact ⟨by simpa using hd, h⟩

theorem commitStep_fields (cfg : Cfg) (al : Bool) (s : UState) : (commitStep cfg al s).fields = s.fields := by
  unfold commitStep; split <;> rfl

theorem commitStep_updating (cfg : Cfg) (al : Bool) (s : UState) : (commitStep cfg al s).updating = s.updating := by
  unfold commitStep; split <;> rfl

/-- a commit that returns: the class is rebuilt from the current list -/
theorem commitStep_ok {cfg : Cfg} {al : Bool} {s : UState} {sz : Option Nat} {a : Nat} {offs : List (Option Nat)}
    (hv : view cfg al s.fields s.persisted = .ok (sz, a, offs)) :
    commitStep cfg al s = { s with persisted := offs, cfields := s.fields, layout := (sz, a, offs), commitErr := none } := by
  unfold commitStep; rw [hv]

/-- a commit that raises: no class attribute changes -/
theorem commitStep_err {cfg : Cfg} {al : Bool} {s : UState} {e : Err}
    (hv : view cfg al s.fields s.persisted = .error e) :
    (commitStep cfg al s).cfields = s.cfields ∧ (commitStep cfg al s).layout = s.layout ∧
      (commitStep cfg al s).commitErr = some e ∧ (commitStep cfg al s).broken = true := by
  unfold commitStep; rw [hv]; exact ⟨rfl, rfl, rfl, rfl⟩

theorem commitStep_not_broken {cfg : Cfg} {al : Bool} {s : UState} (h : (commitStep cfg al s).broken = false) :
    s.broken = false ∧ ∃ sz a offs, view cfg al s.fields s.persisted = .ok (sz, a, offs) := by
  cases hv : view cfg al s.fields s.persisted with
  | error e => rw [(commitStep_err hv).2.2.2] at h; cases h
  | ok L =>
    obtain ⟨sz, a, offs⟩ := L
    rw [commitStep_ok hv] at h
    exact ⟨h, sz, a, offs, rfl⟩

theorem commitStep_commitErr_none {cfg : Cfg} {al : Bool} {s : UState} (h : (commitStep cfg al s).commitErr = none) :
    ∃ sz a offs, view cfg al s.fields s.persisted = .ok (sz, a, offs) := by
  cases hv : view cfg al s.fields s.persisted with
  | error e => rw [(commitStep_err hv).2.2.1] at h; cases h
  | ok L => obtain ⟨sz, a, offs⟩ := L; exact ⟨sz, a, offs, rfl⟩

theorem commitStep_commitErr_some {cfg : Cfg} {al : Bool} {s : UState} {e : Err} (h : (commitStep cfg al s).commitErr = some e) :
    view cfg al s.fields s.persisted = .error e := by
  cases hv : view cfg al s.fields s.persisted with
  | error e' => rw [(commitStep_err hv).2.2.1] at h; cases h; rfl
  | ok L => obtain ⟨sz, a, offs⟩ := L; rw [commitStep_ok hv] at h; cases h

theorem exitStep_ok {cfg : Cfg} {al : Bool} {s : UState} {sz : Option Nat} {a : Nat} {offs : List (Option Nat)}
    (hv : view cfg al s.fields s.persisted = .ok (sz, a, offs)) :
    exitStep cfg al s =
      { s with persisted := offs, cfields := s.fields, layout := (sz, a, offs), commitErr := none, updating := false } := by
  unfold exitStep; rw [commitStep_ok hv]

theorem exitStep_err {cfg : Cfg} {al : Bool} {s : UState} {e : Err}
    (hv : view cfg al s.fields s.persisted = .error e) : exitStep cfg al s = commitStep cfg al s := by
  unfold exitStep
  have := (commitStep_err hv).2.2.1
  simp only [this]

theorem exitStep_fields (cfg : Cfg) (al : Bool) (s : UState) : (exitStep cfg al s).fields = s.fields := by
  cases hv : view cfg al s.fields s.persisted with
  | error e => rw [exitStep_err hv, commitStep_fields]
  | ok L => obtain ⟨sz, a, offs⟩ := L; rw [exitStep_ok hv]

theorem exitStep_not_broken {cfg : Cfg} {al : Bool} {s : UState} (h : (exitStep cfg al s).broken = false) :
    s.broken = false ∧ ∃ sz a offs, view cfg al s.fields s.persisted = .ok (sz, a, offs) := by
  cases hv : view cfg al s.fields s.persisted with
  | error e => rw [exitStep_err hv, (commitStep_err hv).2.2.2] at h; cases h
  | ok L =>
    obtain ⟨sz, a, offs⟩ := L
    rw [exitStep_ok hv] at h
    exact ⟨h, sz, a, offs, rfl⟩

/-- the state in which `add_field` reaches its `if not cls.__updating__` -/
def appended (s : UState) (n : String) (ty : Ty) (bits : Option Nat) : UState :=
  { s with fields := Fields.append s.fields (.cons n false ty bits .nil), persisted := s.persisted ++ [none], commitErr := none }

theorem step_addField (cfg : Cfg) (al : Bool) (s : UState) (n : String) (ty : Ty) (bits : Option Nat) :
    step cfg al s (.addField n ty bits) = if s.updating then appended s n ty bits else commitStep cfg al (appended s n ty bits) := rfl

/-! ### `broken` is sticky, `__fields__` only grows -/

theorem step_not_broken {cfg : Cfg} {al : Bool} {s : UState} {op : Op} (h : (step cfg al s op).broken = false) :
    s.broken = false := by
  cases op with
  | addField n ty bits =>
    rw [step_addField] at h
    split at h
    · exact h
    · exact (commitStep_not_broken h).1
  | addFieldFails => exact h
  | enter => exact h
  | exitOk => exact (exitStep_not_broken h).1
  | exitExc => exact (exitStep_not_broken h).1
  | commit => exact (commitStep_not_broken h).1

theorem run_not_broken {cfg : Cfg} {al : Bool} : ∀ {ops : List Op} {s : UState}, (run cfg al s ops).broken = false →
    s.broken = false
  | [], _, h => h
  | _ :: ops, _, h => step_not_broken (run_not_broken (ops := ops) h)

theorem step_fields (cfg : Cfg) (al : Bool) (s : UState) (op : Op) :
    ∃ hs, (step cfg al s op).fields = Fields.append s.fields hs := by
  cases op with
  | addField n ty bits =>
    refine ⟨.cons n false ty bits .nil, ?_⟩
    rw [step_addField]
    split
    · rfl
    · rw [commitStep_fields]; rfl
  | addFieldFails => exact ⟨.nil, (append_nil _).symm⟩
  | enter => exact ⟨.nil, (append_nil _).symm⟩
  | exitOk => exact ⟨.nil, by rw [append_nil]; exact exitStep_fields cfg al s⟩
  | exitExc => exact ⟨.nil, by rw [append_nil]; exact exitStep_fields cfg al s⟩
  | commit => exact ⟨.nil, by rw [append_nil]; exact commitStep_fields cfg al s⟩

theorem run_fields (cfg : Cfg) (al : Bool) : ∀ (ops : List Op) (s : UState),
    ∃ hs, (run cfg al s ops).fields = Fields.append s.fields hs
  | [], s => ⟨.nil, (append_nil _).symm⟩
  | op :: ops, s => by
    obtain ⟨h1, e1⟩ := step_fields cfg al s op
    obtain ⟨h2, e2⟩ := run_fields cfg al ops (step cfg al s op)
    exact ⟨Fields.append h1 h2, by rw [run, e2, e1, append_assoc]⟩

/-! ### The committed list is a prefix of `__fields__` (in every state, broken or not) -/

theorem commitStep_prefix {cfg : Cfg} {al : Bool} {s : UState} (h : IsPrefix s.cfields s.fields) :
    IsPrefix (commitStep cfg al s).cfields (commitStep cfg al s).fields := by
  cases hv : view cfg al s.fields s.persisted with
  | error e => rw [(commitStep_err hv).1, commitStep_fields]; exact h
  | ok L => obtain ⟨sz, a, offs⟩ := L; rw [commitStep_ok hv]; exact ⟨.nil, (append_nil _).symm⟩

theorem exitStep_prefix {cfg : Cfg} {al : Bool} {s : UState} (h : IsPrefix s.cfields s.fields) :
    IsPrefix (exitStep cfg al s).cfields (exitStep cfg al s).fields := by
  cases hv : view cfg al s.fields s.persisted with
  | error e => rw [exitStep_err hv]; exact commitStep_prefix h
  | ok L => obtain ⟨sz, a, offs⟩ := L; rw [exitStep_ok hv]; exact ⟨.nil, (append_nil _).symm⟩

theorem step_prefix {cfg : Cfg} {al : Bool} {s : UState} (op : Op) (h : IsPrefix s.cfields s.fields) :
    IsPrefix (step cfg al s op).cfields (step cfg al s op).fields := by
  cases op with
  | addField n ty bits =>
    have h1 : IsPrefix (appended s n ty bits).cfields (appended s n ty bits).fields := by
      obtain ⟨gs, hg⟩ := h
      exact ⟨Fields.append gs (.cons n false ty bits .nil), by
        show Fields.append s.fields _ = _
        rw [hg, append_assoc]; rfl⟩
    rw [step_addField]
    split
    · exact h1
    · exact commitStep_prefix h1
  | addFieldFails => exact h
  | enter => exact h
  | exitOk => exact exitStep_prefix h
  | exitExc => exact exitStep_prefix h
  | commit => exact commitStep_prefix h

theorem run_prefix {cfg : Cfg} {al : Bool} : ∀ (ops : List Op) {s : UState}, IsPrefix s.cfields s.fields →
    IsPrefix (run cfg al s ops).cfields (run cfg al s ops).fields
  | [], _, h => h
  | op :: ops, _, h => run_prefix ops (step_prefix op h)

/-! ### The invariant -/

theorem padNat_zero_zero : padNat 0 0 = 0 := by simp [padNat, pyPad, C04.Lemmas.land_zero_left]

theorem layout_nil_init (cfg : Cfg) (al : Bool) : Fields.layout cfg al .nil LState.init = .ok (some 0, 0, []) := by
  cases al
  · rfl
  · rw [Fields.layout]
    simp only [LState.init, ↓reduceIte, padNat_zero_zero]

theorem inv_init (cfg : Cfg) (al : Bool) : Inv cfg al UState.init := by
  refine ⟨.nil, rfl, ⟨[], ?_⟩, rfl, fun _ => rfl⟩
  have h := fresh cfg al .nil LState.init 0
  rw [layout_nil_init] at h
  show (if hasDup (names .nil) [] = true then _ else commit cfg al .nil []) = _
  simp only [names, hasDup, Bool.false_eq_true, ↓reduceIte]
  exact h

/-- after a commit that returned, whatever the state before -/
theorem inv_committed {cfg : Cfg} {al : Bool} {s : UState} {sz : Option Nat} {a : Nat} {offs : List (Option Nat)} (u : Bool)
    (hv : view cfg al s.fields s.persisted = .ok (sz, a, offs)) :
    Inv cfg al { s with persisted := offs, cfields := s.fields, layout := (sz, a, offs), commitErr := none, updating := u } :=
  ⟨.nil, (append_nil _).symm, ⟨s.persisted, hv⟩, by simp [Fields.length], fun _ => rfl⟩

theorem inv_appended {cfg : Cfg} {al : Bool} {s : UState} (n : String) (ty : Ty) (bits : Option Nat) (h : Inv cfg al s) :
    ∃ gs, (appended s n ty bits).fields = Fields.append s.cfields gs ∧ (∃ p, view cfg al s.cfields p = .ok s.layout) ∧
      (appended s n ty bits).persisted = s.layout.2.2 ++ List.replicate gs.length none := by
  obtain ⟨gs, hf, hv, hp, _⟩ := h
  refine ⟨Fields.append gs (.cons n false ty bits .nil), ?_, hv, ?_⟩
  · show Fields.append s.fields _ = _
    rw [hf, append_assoc]
  · show s.persisted ++ [none] = _
    rw [hp, length_snoc, List.replicate_succ', List.append_assoc]

theorem step_inv {cfg : Cfg} {al : Bool} {s : UState} (op : Op) (h : Inv cfg al s)
    (hb : (step cfg al s op).broken = false) : Inv cfg al (step cfg al s op) := by
  cases op with
  | addField n ty bits =>
    rw [step_addField] at hb ⊢
    cases hu : s.updating with
    | true =>
      simp only [↓reduceIte]
      obtain ⟨gs, hf, hv, hp⟩ := inv_appended n ty bits h
      exact ⟨gs, hf, hv, hp, fun h' => by rw [show (appended s n ty bits).updating = s.updating from rfl, hu] at h'; cases h'⟩
    | false =>
      rw [hu] at hb
      simp only [Bool.false_eq_true, ↓reduceIte] at hb ⊢
      obtain ⟨_, sz, a, offs, hv⟩ := commitStep_not_broken hb
      rw [commitStep_ok hv]
      exact inv_committed _ hv
  | addFieldFails =>
    obtain ⟨gs, hf, hv, hp, hn⟩ := h
    exact ⟨gs, hf, hv, hp, hn⟩
  | enter =>
    obtain ⟨gs, hf, hv, hp, _⟩ := h
    exact ⟨gs, hf, hv, hp, fun h' => by cases h'⟩
  | exitOk =>
    obtain ⟨_, sz, a, offs, hv⟩ := exitStep_not_broken hb
    show Inv cfg al (exitStep cfg al s)
    rw [exitStep_ok hv]
    exact inv_committed _ hv
  | exitExc =>
    obtain ⟨_, sz, a, offs, hv⟩ := exitStep_not_broken hb
    show Inv cfg al (exitStep cfg al s)
    rw [exitStep_ok hv]
    exact inv_committed _ hv
  | commit =>
    obtain ⟨_, sz, a, offs, hv⟩ := commitStep_not_broken hb
    show Inv cfg al (commitStep cfg al s)
    rw [commitStep_ok hv]
    exact inv_committed _ hv

theorem run_inv {cfg : Cfg} {al : Bool} : ∀ (ops : List Op) {s : UState}, Inv cfg al s →
    (run cfg al s ops).broken = false → Inv cfg al (run cfg al s ops)
  | [], _, h, _ => h
  | op :: ops, _, h, hb => run_inv ops (step_inv op h (run_not_broken (ops := ops) hb)) hb

theorem inv_consistent {cfg : Cfg} {al : Bool} {s : UState} (h : Inv cfg al s) : Consistent cfg al s := by
  intro hu
  obtain ⟨gs, hf, ⟨p, hv⟩, hp, hn⟩ := h
  have := hn hu
  subst this
  rw [append_nil] at hf
  refine ⟨hf.symm, ⟨p, by rw [hf]; exact hv⟩, ?_⟩
  simpa [Fields.length] using hp

/-! ### One-shot layout -/

/-- committing `fs` on top of the one-shot layout of any of its prefixes gives the one-shot layout of `fs` -/
def GoodAt (cfg : Cfg) (al : Bool) (fs : Fields) : Prop :=
  ∀ (cf gs : Fields) (L : Layout), fs = Fields.append cf gs → Fields.layout cfg al cf LState.init = .ok L →
    commit cfg al fs L.2.2 = Fields.layout cfg al fs LState.init

theorem goodAt_packed (cfg : Cfg) (fs : Fields) : GoodAt cfg false fs := by
  intro cf gs L hf hl
  obtain ⟨sz, a, offs⟩ := L
  rw [hf]
  exact ext_packed cfg cf gs LState.init sz a offs hl

theorem goodAt_aligned (cfg : Cfg) (fs : Fields) (ms : List (Nat × Nat)) (hm : C04.members cfg fs = some ms)
    (hp : ∀ m ∈ ms, C04.isPow2 m.2) : GoodAt cfg true fs := by
  intro cf gs L hf hl
  obtain ⟨sz, a, offs⟩ := L
  rw [hf] at hm ⊢
  exact ext_aligned cfg cf gs ms LState.init sz a offs hm hp hl

theorem one_init (cfg : Cfg) (al : Bool) : InvOneShot cfg al UState.init := by
  exact ⟨.nil, rfl, layout_nil_init cfg al, rfl, fun _ => rfl⟩

/-- a commit that returned in a state whose committed view is one-shot, over a list that is `GoodAt` -/
theorem one_committed {cfg : Cfg} {al : Bool} {s : UState} {cf gs : Fields} {L : Layout} {sz : Option Nat} {a : Nat}
    {offs : List (Option Nat)} (u : Bool) (hf : s.fields = Fields.append cf gs)
    (hl : Fields.layout cfg al cf LState.init = .ok L) (hp : s.persisted = L.2.2 ++ List.replicate gs.length none)
    (hg : GoodAt cfg al s.fields) (hv : view cfg al s.fields s.persisted = .ok (sz, a, offs)) :
    InvOneShot cfg al { s with persisted := offs, cfields := s.fields, layout := (sz, a, offs), commitErr := none, updating := u } := by
  refine ⟨.nil, (append_nil _).symm, ?_, by simp [Fields.length], fun _ => rfl⟩
  have hc := (view_ok hv).2
  rw [hp] at hc
  unfold commit at hc
  rw [layoutP_pad] at hc
  rw [← hc]
  exact (hg cf gs L hf hl).symm

theorem one_appended {cfg : Cfg} {al : Bool} {s : UState} (n : String) (ty : Ty) (bits : Option Nat) (h : InvOneShot cfg al s) :
    ∃ gs, (appended s n ty bits).fields = Fields.append s.cfields gs ∧
      (appended s n ty bits).persisted = s.layout.2.2 ++ List.replicate gs.length none := by
  obtain ⟨gs, hf, _, hp, _⟩ := h
  refine ⟨Fields.append gs (.cons n false ty bits .nil), ?_, ?_⟩
  · show Fields.append s.fields _ = _
    rw [hf, append_assoc]
  · show s.persisted ++ [none] = _
    rw [hp, length_snoc, List.replicate_succ', List.append_assoc]

theorem step_one {cfg : Cfg} {al : Bool} {s : UState} (op : Op) (h : InvOneShot cfg al s)
    (hg : GoodAt cfg al (step cfg al s op).fields) (hb : (step cfg al s op).broken = false) :
    InvOneShot cfg al (step cfg al s op) := by
  cases op with
  | addField n ty bits =>
    rw [step_addField] at hb hg ⊢
    cases hu : s.updating with
    | true =>
      simp only [↓reduceIte]
      obtain ⟨gs, hf, hp⟩ := one_appended n ty bits h
      exact ⟨gs, hf, h.choose_spec.2.1, hp,
        fun h' => by rw [show (appended s n ty bits).updating = s.updating from rfl, hu] at h'; cases h'⟩
    | false =>
      rw [hu] at hb hg
      simp only [Bool.false_eq_true, ↓reduceIte] at hb hg ⊢
      obtain ⟨_, sz, a, offs, hv⟩ := commitStep_not_broken hb
      rw [commitStep_fields] at hg
      obtain ⟨gs, hf, hp⟩ := one_appended n ty bits h
      rw [commitStep_ok hv]
      exact one_committed _ hf h.choose_spec.2.1 hp hg hv
  | addFieldFails =>
    obtain ⟨gs, hf, hv, hp, hn⟩ := h
    exact ⟨gs, hf, hv, hp, hn⟩
  | enter =>
    obtain ⟨gs, hf, hv, hp, _⟩ := h
    exact ⟨gs, hf, hv, hp, fun h' => by cases h'⟩
  | exitOk =>
    obtain ⟨_, sz, a, offs, hv⟩ := exitStep_not_broken hb
    have hg' : GoodAt cfg al s.fields := by rw [← exitStep_fields cfg al s]; exact hg
    obtain ⟨gs, hf, hl, hp, _⟩ := h
    show InvOneShot cfg al (exitStep cfg al s)
    rw [exitStep_ok hv]
    exact one_committed _ hf hl hp hg' hv
  | exitExc =>
    obtain ⟨_, sz, a, offs, hv⟩ := exitStep_not_broken hb
    have hg' : GoodAt cfg al s.fields := by rw [← exitStep_fields cfg al s]; exact hg
    obtain ⟨gs, hf, hl, hp, _⟩ := h
    show InvOneShot cfg al (exitStep cfg al s)
    rw [exitStep_ok hv]
    exact one_committed _ hf hl hp hg' hv
  | commit =>
    obtain ⟨_, sz, a, offs, hv⟩ := commitStep_not_broken hb
    have hg' : GoodAt cfg al s.fields := by rw [← commitStep_fields cfg al s]; exact hg
    obtain ⟨gs, hf, hl, hp, _⟩ := h
    show InvOneShot cfg al (commitStep cfg al s)
    rw [commitStep_ok hv]
    exact one_committed _ hf hl hp hg' hv

/-- the run, given that every list `__fields__` passes through (each a prefix of the final one) is `GoodAt` -/
theorem run_one {cfg : Cfg} {al : Bool} : ∀ (ops : List Op) {s : UState}, InvOneShot cfg al s →
    (∀ fs hs, (run cfg al s ops).fields = Fields.append fs hs → GoodAt cfg al fs) →
    (run cfg al s ops).broken = false → InvOneShot cfg al (run cfg al s ops)
  | [], _, h, _, _ => h
  | op :: ops, s, h, hg, hb => by
    obtain ⟨hs, e⟩ := run_fields cfg al ops (step cfg al s op)
    exact run_one ops (step_one op h (hg _ hs e) (run_not_broken (ops := ops) hb)) hg hb

theorem one_outside {cfg : Cfg} {al : Bool} {s : UState} (h : InvOneShot cfg al s) (hu : s.updating = false) :
    s.cfields = s.fields ∧ Fields.layout cfg al s.fields LState.init = .ok s.layout ∧ s.persisted = s.layout.2.2 := by
  obtain ⟨gs, hf, hl, hp, hn⟩ := h
  have := hn hu
  subst this
  rw [append_nil] at hf
  refine ⟨hf.symm, by rw [hf]; exact hl, ?_⟩
  simpa [Fields.length] using hp

/-! ### The offsets a raising commit leaves behind: where the layout returns, `writesP` is its offset list -/

theorem writesP_cons_ok (cfg : Cfg) (al : Bool) (n : String) (an : Bool) (ty : Ty) (bits : Option Nat) (rest : Fields)
    (pre : List (Option Nat)) (st st' : LState) (foff : Option Nat)
    (h : stepL cfg al ty bits (leadOf pre st) (pre.headD none) st = .ok (st', foff)) :
    writesP cfg al (.cons n an ty bits rest) pre st = foff :: writesP cfg al rest (pre.drop 1) st' := by
  cases bits with
  | none =>
    simp only [stepL, Except.ok.injEq, Prod.mk.injEq] at h
    rw [writesP]
    · obtain ⟨h1, h2⟩ := h
      rw [← h1, ← h2]; rfl
    · intro b hb; cases hb
  | some b =>
    cases b with
    | zero =>
      simp only [stepL, Except.ok.injEq, Prod.mk.injEq] at h
      rw [writesP]
      · obtain ⟨h1, h2⟩ := h
        rw [← h1, ← h2]; rfl
      · intro b hb; cases hb
    | succ b =>
      rw [writesP]
      unfold stepL at h
      cases hb : ty.bitBase with
      | none => rw [hb] at h; cases h
      | some ft =>
        rw [hb] at h
        dsimp only at h ⊢
        cases hs : ft.size with
        | none => rw [hs] at h; cases h
        | some fsz =>
          rw [hs] at h
          dsimp only at h ⊢
          change (match third st ft (offOf al (ty.alignment cfg) (leadOf pre st)) with
            | .error e => _
            | .ok nu => _) = _ at h
          show (match third st ft (offOf al (ty.alignment cfg) (leadOf pre st)) with
            | .error e => _
            | .ok nu => _) = _
          cases ht : third st ft (offOf al (ty.alignment cfg) (leadOf pre st)) with
          | error e => rw [ht] at h; cases h
          | ok nu =>
            rw [ht] at h
            cases nu with
            | false =>
              simp only [Bool.false_eq_true, ↓reduceIte] at h ⊢
              split at h
              · cases h
              · rename_i hr
                simp only [Except.ok.injEq, Prod.mk.injEq] at h
                obtain ⟨h1, h2⟩ := h
                subst h2
                simp only [hr, ↓reduceIte, ← h1]
                rfl
            | true =>
              simp only [↓reduceIte] at h ⊢
              split at h
              · cases h
              · rename_i hr
                simp only [Except.ok.injEq, Prod.mk.injEq] at h
                obtain ⟨h1, h2⟩ := h
                subst h2
                simp only [hr, ↓reduceIte, ← h1]
                rfl

theorem writesP_ok (cfg : Cfg) (al : Bool) : ∀ (fs : Fields) (pre : List (Option Nat)) (st : LState) (sz : Option Nat) (a : Nat)
    (offs : List (Option Nat)), layoutP cfg al fs pre st = .ok (sz, a, offs) → writesP cfg al fs pre st = offs
  | .nil, pre, st, sz, a, offs, h => by
    rw [layoutP] at h
    simp only [Except.ok.injEq, Prod.mk.injEq] at h
    rw [writesP, ← h.2.2]
  | .cons n an ty bits rest, pre, st, sz, a, offs, h => by
    rw [layoutP_cons] at h
    obtain ⟨st', foff, offs', hs, hk, rfl⟩ := cont_ok_inv h
    rw [writesP_cons_ok cfg al n an ty bits rest pre st st' foff hs, writesP_ok cfg al rest _ _ _ _ _ hk]

end Cstruct.C18Update.Lemmas
