/-
  Helper lemmas for `Proofs/C03.lean`, part 4: the relation of the plan walk, void fields under the cursor, and the
  simulation of a validated plan by the interpreted field loop.
-/
import Proofs.Lemmas.C03Fields
import Proofs.Lemmas.CoreWin
namespace Cstruct.Compiler
open Cstruct Cstruct.Core.Lemmas

/-- the relation of the plan walk: validator state, compiled stream and bit reader, interpreted stream and bit buffer -/
structure Inv (start : Nat) (vst : VSt) (fs : Fields) (offs : List (Option Nat)) (cpos : Nat) (cbb : BitBuf)
    (ipos : Nat) (ibb : BitBuf) : Prop where
  spos : ∀ k, vst.spos = some k → cpos = start + k
  pos : nextStatic fs offs = true ∨ LaMatch vst.lastAlign cpos ipos
  la : vst.spos ≠ none → ∀ a, vst.lastAlign = some a → IsP2 a ∧ a ∣ cpos
  unit : match vst.unit with
    | none => cbb = BitBuf.empty
    | some (u, r) => cbb.ty = some u ∧ cbb.remaining = r
  bb : if vst.dirty = true then ibb = cbb else cbb = BitBuf.empty ∧ (ibb = BitBuf.empty ∨ nonBitHead fs = true)

theorem skipVoids_void (name an ty bits rest) (ctx : Ctx) (x : Vals) (h : isVoid ty ∧ bits.isNone) :
    skipVoids (.cons name an ty bits rest) ctx x =
      ((skipVoids rest (ctx.set name .void) .nil).1, (skipVoids rest (ctx.set name .void) .nil).2.1,
        fun vs => .cons .void ((skipVoids rest (ctx.set name .void) .nil).2.2 vs)) := by
  rw [skipVoids, if_pos h]

theorem skipVoids_other (name an ty bits rest) (ctx : Ctx) (x : Vals) (h : ¬(isVoid ty ∧ bits.isNone)) :
    skipVoids (.cons name an ty bits rest) ctx x = (.cons name an ty bits rest, ctx, id) := by
  rw [skipVoids, if_neg h]

theorem dropVoids_sim (cfg : Cfg) (al : Bool) (data : Bytes) (start : Nat) (vst : VSt) (cpos : Nat) (cbb : BitBuf) :
    ∀ fs offs at_ fs' offs' skipped ctx ipos ibb, at_ = vst.spos →
      dropVoids cfg al fs offs at_ = some (fs', offs', skipped) →
      Inv start vst fs offs cpos cbb ipos ibb → ¬(skipped = true ∧ vst.dirty = true) →
      SubSizesAux cfg data start fs offs →
      ∃ ctx' k zs ipos' ibb', skipVoids fs ctx .nil = (fs', ctx', k) ∧ nz zs = [] ∧
        readFields cfg al fs offs start ibb ctx data ipos =
          wrapR k zs (readFields cfg al fs' offs' start ibb' ctx' data ipos') ∧
        Inv start vst fs' offs' cpos cbb ipos' ibb' ∧ SubSizesAux cfg data start fs' offs' := by
  intro fs offs at_
  fun_induction dropVoids cfg al fs offs at_
  all_goals intro fs' offs' skipped ctx ipos ibb hat h hinv hsd hsub
  case case1 name an ty bits rest offs at_ hv ok hok fs1 os1 sk1 hrec ih =>
    cases h
    subst hat
    have hd : vst.dirty = false := by
      cases hdd : vst.dirty with
      | false => rfl
      | true => exact (hsd ⟨rfl, hdd⟩).elim
    have hbits : bits = none := by cases bits <;> simp at hv ⊢
    subst hbits
    -- the position after the void field
    have hok' : (match hdOff offs with | some o => cpos = start + o | none => al = true → ty.alignment cfg = 1) ∧
        (hdOff offs ≠ none → vst.spos ≠ none) := by
      simp only [ok] at hok
      cases ho : hdOff offs with
      | some o =>
        rw [ho] at hok
        simp only [beq_iff_eq] at hok
        exact ⟨hinv.spos o hok, by rw [hok]; simp⟩
      | none =>
        rw [ho] at hok
        simp only [Bool.or_eq_true, Bool.not_eq_true', beq_iff_eq] at hok
        refine ⟨?_, by simp⟩
        intro hal
        rcases hok with h | h
        · rw [hal] at h; cases h
        · exact h
    have hpos := void_pos cfg al ty offs start cpos ipos vst.lastAlign name an none rest hinv.pos hok'.1
      (fun h => hinv.la (hok'.2 h))
    have hinv' : Inv start vst rest (offs.drop 1) cpos cbb (fieldPos cfg al ty (hdOff offs) start ipos) BitBuf.empty := by
      refine ⟨hinv.spos, Or.inr hpos, hinv.la, hinv.unit, ?_⟩
      have hb := hinv.bb
      rw [hd, if_neg (by simp)] at hb
      rw [hd, if_neg (by simp)]
      exact ⟨hb.1, Or.inl rfl⟩
    obtain ⟨ctx', k, zs, ipos', ibb', h1, h2, h3, h4, h5⟩ :=
      ih fs1 os1 sk1 (ctx.set name .void) _ _ rfl hrec hinv' (by rw [hd]; simp) hsub.2
    refine ⟨ctx', fun vs => .cons .void (k vs), (name, 0) :: zs, ipos', ibb', ?_, ?_, ?_, h4, h5⟩
    · rw [skipVoids_void _ _ _ _ _ _ _ hv, h1]
    · rw [nz_cons_zero]; exact h2
    · rw [readFields_void _ _ _ _ _ _ _ _ _ _ _ _ hv.1, h3, wrapR_wrapR]; rfl
  case case4 name an ty bits rest offs at_ hv =>
    cases h
    exact ⟨ctx, id, [], ipos, ibb, skipVoids_other _ _ _ _ _ _ _ hv, rfl, (wrapR_id _).symm, hinv, hsub⟩
  case case5 =>
    cases h
    exact ⟨ctx, id, [], ipos, ibb, by rw [skipVoids], rfl, (wrapR_id _).symm, hinv, hsub⟩
  all_goals cases h
/-! ### single steps -/

theorem sim_skip {al : Bool} {salign : Nat} {k : Vals → Vals} {zs : List (String × Nat)} {c i i' : Res} (hz : nz zs = [])
    (hi : i = wrapR k zs i') (h : Sim c (finR al salign i')) : Sim (wrapR k [] c) (finR al salign i) := by
  rw [hi, finR_wrapR]
  exact sim_wrap k [] zs (by rw [hz]; rfl) h

theorem readFields_nb_ok (cfg : Cfg) (al : Bool) (name an ty rest offs start bb ctx data pos) (v : Val) (p1 : Nat)
    (h : read cfg ty ctx data (fieldPos cfg al ty (hdOff offs) start pos) = .ok (v, p1)) :
    readFields cfg al (.cons name an ty none rest) offs start bb ctx data pos =
      wrapR (Vals.cons v) [(name, p1 - fieldPos cfg al ty (hdOff offs) start pos)]
        (readFields cfg al rest (offs.drop 1) start BitBuf.empty (ctx.set name v) data p1) := by
  rw [readFields_cons_nobits _ _ _ _ _ _ _ _ _ _ _ _ _ (by rfl), hdOff_eq, h]
  simp only [Except.bind]
  cases readFields cfg al rest (offs.drop 1) start BitBuf.empty (ctx.set name v) data p1 <;> rfl

theorem readFields_nb_err (cfg : Cfg) (al : Bool) (name an ty rest offs start bb ctx data pos) (e : Err)
    (h : read cfg ty ctx data (fieldPos cfg al ty (hdOff offs) start pos) = .error e) :
    readFields cfg al (.cons name an ty none rest) offs start bb ctx data pos = .error e := by
  rw [readFields_cons_nobits _ _ _ _ _ _ _ _ _ _ _ _ _ (by rfl), hdOff_eq, h]
  rfl

/-- `posOK`: the compiled stream is where the interpreted reader reads the field -/
theorem posOK_pos {cfg : Cfg} {al : Bool} {start : Nat} {vst : VSt} {name an ty bits rest} {offs : List (Option Nat)} {cpos : Nat} {cbb : BitBuf}
    {ipos : Nat} {ibb : BitBuf} (hinv : Inv start vst (.cons name an ty bits rest) offs cpos cbb ipos ibb)
    (h : posOK al vst (hdOff offs) (ty.alignment cfg) = true) :
    fieldPos cfg al ty (hdOff offs) start ipos = cpos ∧ (∀ o, hdOff offs = some o → vst.spos = some o) := by
  unfold posOK at h
  cases ho : hdOff offs with
  | some o =>
    rw [ho] at h
    simp only [Bool.and_eq_true, beq_iff_eq] at h
    rw [fieldPos_some]
    exact ⟨(hinv.spos o h.1).symm, by intro o' ho'; cases ho'; exact h.1⟩
  | none =>
    rw [ho] at h
    simp only at h
    refine ⟨?_, by intro o ho'; cases ho'⟩
    have hD : LaMatch vst.lastAlign cpos ipos := by
      rcases hinv.pos with h | h
      · obtain ⟨o, h⟩ := nextStatic_hd h
        rw [ho] at h; cases h
      · exact h
    rw [fieldPos_none]
    by_cases hal : al = true
    · rw [if_pos hal] at h ⊢
      simp only [Bool.or_eq_true, beq_iff_eq, Bool.and_eq_true, Option.isNone_iff_eq_none] at h
      rcases h with h | ⟨h1, h2⟩
      · rw [h] at hD; exact hD.symm
      · rw [h1] at hD; rw [h2, padNat_one]; exact hD
    · rw [if_neg hal] at h ⊢
      simp only [Option.isNone_iff_eq_none] at h
      rw [h] at hD; exact hD


theorem readFields_bits_lerr (cfg : Cfg) (al : Bool) (name an ty b rest offs start bb ctx data pos) (ft : Scalar) (e : Err)
    (hbb : ty.bitBase = some ft)
    (h : loadUnit cfg ft bb data (fieldPos cfg al ty (hdOff offs) start pos) = .error e) :
    readFields cfg al (.cons name an ty (some (b + 1)) rest) offs start bb ctx data pos = .error e := by
  rw [readFields_cons_bits, hbb, hdOff_eq]
  simp only [h]
  rfl

theorem readFields_bits_terr (cfg : Cfg) (al : Bool) (name an ty b rest offs start bb ctx data pos) (ft : Scalar) (bb1 p1)
    (hbb : ty.bitBase = some ft)
    (h : loadUnit cfg ft bb data (fieldPos cfg al ty (hdOff offs) start pos) = .ok (bb1, p1))
    (ht : bb1.take cfg.endian (b + 1) = none) :
    readFields cfg al (.cons name an ty (some (b + 1)) rest) offs start bb ctx data pos = .error .value := by
  rw [readFields_cons_bits, hbb, hdOff_eq]
  simp only [h, Except.bind, ht]

theorem readFields_bits_ok (cfg : Cfg) (al : Bool) (name an ty b rest offs start bb ctx data pos) (ft : Scalar) (bb1 p1 v bb2)
    (hbb : ty.bitBase = some ft)
    (h : loadUnit cfg ft bb data (fieldPos cfg al ty (hdOff offs) start pos) = .ok (bb1, p1))
    (ht : bb1.take cfg.endian (b + 1) = some (v, bb2)) :
    readFields cfg al (.cons name an ty (some (b + 1)) rest) offs start bb ctx data pos =
      wrapR (Vals.cons (bitVal ty v)) []
        (readFields cfg al rest (offs.drop 1) start bb2 (ctx.set name (bitVal ty v)) data p1) := by
  rw [readFields_cons_bits, hbb, hdOff_eq]
  simp only [h, Except.bind, ht]
  cases readFields cfg al rest (offs.drop 1) start bb2 (ctx.set name (bitVal ty v)) data p1 <;> rfl

theorem loadUnit_facts {cfg : Cfg} {ft : Scalar} {bb : BitBuf} {data : Bytes} {pos : Nat} {bb1 : BitBuf} {p1 fsz : Nat}
    (h : loadUnit cfg ft bb data pos = .ok (bb1, p1)) (hfs : ft.size = some fsz) :
    (bb.remaining = 0 ∨ bb.ty ≠ some ft → bb1.ty = some ft ∧ bb1.remaining = fsz * 8 ∧ p1 = pos + fsz) ∧
    (¬(bb.remaining = 0 ∨ bb.ty ≠ some ft) → bb1 = bb ∧ p1 = pos) := by
  unfold loadUnit at h
  constructor
  · intro hc
    rw [if_pos hc, hfs] at h
    simp only at h
    cases hr : readScalar cfg ft data pos with
    | error e => rw [hr] at h; cases h
    | ok up =>
      obtain ⟨u, p⟩ := up
      rw [hr] at h
      simp only at h
      cases hu : unitInt cfg u with
      | none => rw [hu] at h; cases h
      | some i =>
        rw [hu] at h
        cases h
        exact ⟨rfl, rfl, (readScalar_pos cfg ft data pos u _ hr).2 fsz hfs⟩
  · intro hc
    rw [if_neg hc] at h
    cases h
    exact ⟨rfl, rfl⟩

/-- the relation after a bit field -/
theorem bits_inv {start : Nat} {vst vst' : VSt} {name an ty b rest} {offs' : List (Option Nat)} {cpos : Nat} {cbb : BitBuf}
    {ipos' : Nat} {ibb' : BitBuf} (hinv' : Inv start vst (.cons name an ty (some b) rest) offs' cpos cbb ipos' ibb')
    {cfg : Cfg} {ft : Scalar} {data : Bytes} {bb1 bb2 : BitBuf} {p1 fsz n : Nat} {v : Int} {e : Endian}
    (hl : loadUnit cfg ft cbb data cpos = .ok (bb1, p1)) (hfs : ft.size = some fsz) (ht : bb1.take e n = some (v, bb2))
    (NU : Bool) (R0 : Nat) (hNU : NU = true ↔ (cbb.remaining = 0 ∨ cbb.ty ≠ some ft))
    (hR0 : R0 = if NU = true then fsz * 8 else cbb.remaining)
    (hsp : ∀ k, vst.spos = some k → vst'.spos = some (if NU = true then k + fsz else k))
    (hsn : vst.spos = none → vst'.spos = none) (hla : vst'.lastAlign = none) (hu : vst'.unit = some (ft, R0 - n))
    (hd : vst'.dirty = true) :
    Inv start vst' rest (offs'.drop 1) p1 bb2 p1 bb2 := by
  obtain ⟨f1, f2⟩ := loadUnit_facts hl hfs
  obtain ⟨t1, t2⟩ := take_facts ht
  refine ⟨?_, Or.inr (by rw [hla]; rfl), (by intro _ a ha; rw [hla] at ha; cases ha), ?_, (by rw [hd, if_pos rfl])⟩
  · intro k hk
    cases hs : vst.spos with
    | none => rw [hsn hs] at hk; cases hk
    | some k0 =>
      rw [hsp k0 hs] at hk
      cases hk
      have hc := hinv'.spos k0 hs
      by_cases hn : NU = true
      · rw [if_pos hn]
        have := (f1 (hNU.mp hn)).2.2
        omega
      · rw [if_neg hn]
        have := (f2 (fun h => hn (hNU.mpr h))).2
        omega
  · rw [hu]
    simp only
    by_cases hn : NU = true
    · obtain ⟨g1, g2, _⟩ := f1 (hNU.mp hn)
      rw [if_pos hn] at hR0
      exact ⟨by rw [t1, g1], by rw [t2, g2, hR0]⟩
    · have hc : ¬(cbb.remaining = 0 ∨ cbb.ty ≠ some ft) := fun h => hn (hNU.mpr h)
      obtain ⟨g1, _⟩ := f2 hc
      rw [if_neg hn] at hR0
      simp only [not_or, ne_eq, Decidable.not_not] at hc
      exact ⟨by rw [t1, g1]; exact hc.2, by rw [t2, g1, hR0]⟩

/-! ### the void fields under the cursor are skipped by whatever statement comes next -/

theorem skipVoids_idem : ∀ (fs : Fields) (ctx : Ctx) (x : Vals) (fs' : Fields) (ctx' : Ctx) (k : Vals → Vals),
    skipVoids fs ctx x = (fs', ctx', k) → skipVoids fs' ctx' .nil = (fs', ctx', id)
  | .nil, ctx, x, fs', ctx', k, h => by
    rw [skipVoids] at h
    cases h
    rw [skipVoids]
  | .cons name an ty bits rest, ctx, x, fs', ctx', k, h => by
    by_cases hv : isVoid ty ∧ bits.isNone
    · rw [skipVoids_void _ _ _ _ _ _ _ hv] at h
      cases h
      exact skipVoids_idem rest (ctx.set name .void) .nil _ _ _ rfl
    · rw [skipVoids_other _ _ _ _ _ _ _ hv] at h
      cases h
      exact skipVoids_other _ _ _ _ _ _ _ hv

theorem wrapR_id' (k : Vals → Vals) (r : Res) :
    (match r with | .error e => .error e | .ok (vs, szs, pe) => (.ok (k vs, szs, pe) : Res)) = wrapR k [] r := by
  cases r with
  | error e => rfl
  | ok x => rfl

/-- running a plan skips the void fields under the cursor first, whatever its first statement is -/
theorem exec_absorb (cfg : Cfg) (salign start : Nat) (data : Bytes) : ∀ (plan : Plan) (fs : Fields) (st : St)
    (fs' : Fields) (ctx' : Ctx) (k : Vals → Vals), skipVoids fs st.ctx .nil = (fs', ctx', k) →
    exec cfg salign start data plan fs st = wrapR k [] (exec cfg salign start data plan fs' { st with ctx := ctx' }) := by
  intro plan
  induction plan with
  | nil =>
    intro fs st fs' ctx' k hsk
    have hid := skipVoids_idem _ _ _ _ _ _ hsk
    simp only [exec, hsk, hid]
    cases fs' <;> rfl
  | cons ins is ih =>
    intro fs st fs' ctx' k hsk
    have hid := skipVoids_idem _ _ _ _ _ _ hsk
    cases ins with
    | bitsReset =>
      simp only [exec]
      exact ih fs _ fs' ctx' k hsk
    | seek o =>
      simp only [exec, hsk, hid]
      cases exec cfg salign start data is fs' { pos := start + o, bb := st.bb, ctx := ctx' } <;> rfl
    | align a =>
      simp only [exec, hsk, hid]
      cases exec cfg salign start data is fs' { pos := st.pos + padNat st.pos a, bb := st.bb, ctx := ctx' } <;> rfl
    | alignCls =>
      simp only [exec, hsk, hid]
      cases exec cfg salign start data is fs' { pos := st.pos + padNat st.pos salign, bb := st.bb, ctx := ctx' } <;> rfl
    | sub nm =>
      simp only [exec, hsk, hid]
      repeat' split
      all_goals first | rfl | simp_all [wrapR]
    | bits nm n via =>
      simp only [exec, hsk, hid]
      repeat' split
      all_goals first | rfl | simp_all [wrapR]
    | block size fmt slots =>
      simp only [exec, hsk, hid]
      repeat' split
      all_goals first | rfl | simp_all [wrapR]

/-- a seek in front of void fields: they are skipped by the statement after it -/
theorem exec_seek (cfg : Cfg) (salign start : Nat) (data : Bytes) (o : Nat) (is : Plan) (fs : Fields) (st : St) :
    exec cfg salign start data (.seek o :: is) fs st = exec cfg salign start data is fs { st with pos := start + o } := by
  rw [exec_absorb cfg salign start data is fs { st with pos := start + o } _ _ _ rfl]
  simp only [exec]
  cases exec cfg salign start data is (skipVoids fs st.ctx .nil).1
    { pos := start + o, bb := st.bb, ctx := (skipVoids fs st.ctx .nil).2.1 } <;> rfl

/-! ### members without a structure consume their declared size -/

/-- a type that contains no structure and has a static size is read in exactly that many bytes -/
theorem static_pf (cfg : Cfg) (d : Bytes) : ∀ (ty : Ty), readsStruct ty = false → (ty.size cfg).isSome = true →
    ElemPF cfg false ty d
  | .sc s a, _, _ => pf_sc cfg false s a d
  | .enum b a f, _, _ => pf_enum cfg false b a f d
  | .ptr t, _, _ => pf_ptr cfg false t d
  | .struct _ _, h, _ => by simp [readsStruct] at h
  | .union _ _, h, _ => by simp [readsStruct] at h
  | .arr e len, h, hs => by
    cases len with
    | fixed n =>
      have hes : (e.size cfg).isSome = true := by
        simp only [Ty.size] at hs
        cases he : e.size cfg with
        | none => rw [he] at hs; simp at hs
        | some k => rfl
      have hE := static_pf cfg d e (by simpa [readsStruct] using h) hes
      intro ctx pos v p hr hpos
      rw [read_arr_fixed] at hr
      obtain ⟨h1, _, h3⟩ := pf_array cfg false e d hE n ctx pos v p hr (fun h => by cases h)
      refine ⟨h1, (fun h => by cases h), ?_⟩
      intro k hk
      simp only [Ty.size] at hk
      cases he : e.size cfg with
      | none => rw [he] at hk; cases hk
      | some k' =>
        rw [he] at hk
        cases hk
        exact h3 k' he
    | nullTerm => simp [Ty.size] at hs
    | expr _ => simp [Ty.size] at hs
    | eof => simp [Ty.size] at hs

theorem subSizesAux_all (cfg : Cfg) (data : Bytes) (start : Nat) : ∀ (fs : Fields) (offs : List (Option Nat)),
    SubSizesAux cfg data start fs offs
  | .nil, _ => trivial
  | .cons _ _ ty bits rest, offs => by
    refine ⟨?_, subSizesAux_all cfg data start rest _⟩
    intro _ hns o n _ hn ctx v p hr
    exact (static_pf cfg data ty hns (by rw [hn]; rfl) ctx _ v p hr (fun h => by cases h)).2.2 n hn

end Cstruct.Compiler
