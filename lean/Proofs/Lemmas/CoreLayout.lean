/-
  Helper lemmas for `Proofs/Core.lean`, part 2: alignment arithmetic and the layout of structures without bit-fields
  whose members all have a static size (closed forms `Fields.offsS`, `Fields.endOff`).
-/
import Proofs.Lemmas.CoreUnfold
import Proofs.C04
namespace Cstruct.Core.Lemmas
open Cstruct Cstruct.Core

/-! ### Powers of two and `padNat` -/

def IsP2 (a : Nat) : Prop := ∃ k, a = 2 ^ k

theorem IsP2.pos {a : Nat} (h : IsP2 a) : 0 < a := by
  obtain ⟨k, rfl⟩ := h; exact Nat.two_pow_pos k

theorem isP2_one : IsP2 1 := ⟨0, rfl⟩

theorem p2_dvd_of_le {x y : Nat} (hx : IsP2 x) (hy : IsP2 y) (h : x ≤ y) : x ∣ y := by
  obtain ⟨i, rfl⟩ := hx
  obtain ⟨j, rfl⟩ := hy
  have hij : i ≤ j := (Nat.pow_le_pow_iff_right (by decide)).mp h
  exact Nat.pow_dvd_pow 2 hij

theorem isP2_max {x y : Nat} (hx : IsP2 x) (hy : y = 0 ∨ IsP2 y) : IsP2 (max y x) := by
  rcases hy with rfl | hy
  · simpa using hx
  · rcases Nat.le_total y x with h | h
    · rw [Nat.max_eq_right h]; exact hx
    · rw [Nat.max_eq_left h]; exact hy

theorem dvd_max_right {x y : Nat} (hx : IsP2 x) (hy : y = 0 ∨ IsP2 y) : x ∣ max y x := by
  rcases hy with rfl | hy
  · simp
  · rcases Nat.le_total y x with h | h
    · rw [Nat.max_eq_right h]; exact Nat.dvd_refl _
    · rw [Nat.max_eq_left h]; exact p2_dvd_of_le hx hy h

theorem dvd_max_left {x y : Nat} (hx : IsP2 x) (hy : IsP2 y) : y ∣ max y x := by
  rcases Nat.le_total y x with h | h
  · rw [Nat.max_eq_right h]; exact p2_dvd_of_le hy hx h
  · rw [Nat.max_eq_left h]; exact Nat.dvd_refl _

theorem padNat_zero (o : Nat) : padNat o 0 = 0 := by
  cases o with
  | zero => decide +kernel
  | succ n =>
    show (land (Int.negSucc n) (Int.negSucc 0)).toNat = 0
    rfl

theorem padNat_p2_mod {a : Nat} (ha : IsP2 a) (o : Nat) : (o + padNat o a) % a = 0 := by
  obtain ⟨k, rfl⟩ := ha; exact (C04.c04_pad o k).2.2.1

theorem padNat_p2_dvd {a : Nat} (ha : IsP2 a) (o : Nat) : a ∣ o + padNat o a :=
  Nat.dvd_of_mod_eq_zero (padNat_p2_mod ha o)

theorem padNat_p2_eq {a : Nat} (ha : IsP2 a) (o : Nat) : padNat o a = (a - o % a) % a := by
  obtain ⟨k, rfl⟩ := ha; exact (C04.c04_pad o k).1

theorem padNat_add_of_dvd {a : Nat} (ha : a = 0 ∨ IsP2 a) (s e : Nat) (h : a ∣ s) : padNat (s + e) a = padNat e a := by
  rcases ha with rfl | ha
  · rw [padNat_zero, padNat_zero]
  · rw [padNat_p2_eq ha, padNat_p2_eq ha]
    obtain ⟨c, rfl⟩ := h
    rw [Nat.mul_add_mod]

/-- the aligned (or, in packed mode, unchanged) offset -/
def alignTo (al : Bool) (o a : Nat) : Nat := if al then o + padNat o a else o

theorem le_alignTo (al : Bool) (o a : Nat) : o ≤ alignTo al o a := by
  unfold alignTo; split <;> omega

theorem alignTo_dvd {a : Nat} (ha : IsP2 a) (o : Nat) : a ∣ alignTo true o a := by
  simp only [alignTo, if_true]; exact padNat_p2_dvd ha o

theorem alignTo_add {a : Nat} (ha : a = 0 ∨ IsP2 a) (al : Bool) (s e : Nat) (h : a ∣ s) :
    alignTo al (s + e) a = s + alignTo al e a := by
  unfold alignTo
  cases al with
  | false => simp
  | true => simp only [if_true]; rw [padNat_add_of_dvd ha s e h]; omega

/-! ### Alignments occurring in a type -/

/-- every member alignment divides `m` -/
def allAlignDvd (cfg : Cfg) (m : Nat) : Fields → Prop
  | .nil => True
  | .cons _ _ t _ r => t.alignment cfg ∣ m ∧ allAlignDvd cfg m r

theorem allAlignDvd_trans (cfg : Cfg) {m n : Nat} (h : m ∣ n) : ∀ fs, allAlignDvd cfg m fs → allAlignDvd cfg n fs
  | .nil, _ => trivial
  | .cons _ _ _ _ r, hm => ⟨Nat.dvd_trans hm.1 h, allAlignDvd_trans cfg h r hm.2⟩

theorem scAlign_p2 {a : Nat} (h : a = 0 ∨ ∃ k, a = 2 ^ k) : IsP2 (if a = 0 then 1 else a) := by
  rcases h with rfl | h
  · exact isP2_one
  · have := IsP2.pos h
    rw [if_neg (by omega)]; exact h

mutual
theorem alignment_p2 (cfg : Cfg) : ∀ ty : Ty, ty.pow2Aligned cfg → IsP2 (ty.alignment cfg)
  | .sc _ a, h => by simp only [Ty.pow2Aligned] at h; simp only [Ty.alignment]; exact scAlign_p2 h
  | .enum _ a _, h => by simp only [Ty.pow2Aligned] at h; simp only [Ty.alignment]; exact scAlign_p2 h
  | .ptr t, h => by simp only [Ty.pow2Aligned] at h; simp only [Ty.alignment]; exact scAlign_p2 h.1
  | .arr e _, h => by
    simp only [Ty.pow2Aligned] at h; simp only [Ty.alignment]; exact alignment_p2 cfg e h
  | .struct _ fs, h => by
    simp only [Ty.pow2Aligned] at h; simp only [Ty.alignment]
    rcases maxAlign_p2 cfg fs h 0 (Or.inl rfl) with h0 | h0
    · rw [if_pos h0]; exact isP2_one
    · rw [if_neg (by have := h0.pos; omega)]; exact h0
  | .union _ fs, h => by
    simp only [Ty.pow2Aligned] at h; simp only [Ty.alignment]
    rcases maxAlign_p2 cfg fs h 0 (Or.inl rfl) with h0 | h0
    · rw [if_pos h0]; exact isP2_one
    · rw [if_neg (by have := h0.pos; omega)]; exact h0
theorem maxAlign_p2 (cfg : Cfg) : ∀ fs : Fields, fs.pow2Aligned cfg → ∀ a, (a = 0 ∨ IsP2 a) →
    (Fields.maxAlign cfg fs a = 0 ∨ IsP2 (Fields.maxAlign cfg fs a))
  | .nil, _, a, ha => by simpa only [Fields.maxAlign] using ha
  | .cons _ _ t _ r, h, a, ha => by
    simp only [Fields.pow2Aligned] at h
    simp only [Fields.maxAlign]
    exact maxAlign_p2 cfg r h.2 _ (Or.inr (isP2_max (alignment_p2 cfg t h.1) ha))
end

/-- the final alignment is a multiple of the initial one and of every member alignment -/
theorem maxAlign_dvd (cfg : Cfg) : ∀ fs : Fields, fs.pow2Aligned cfg → ∀ a, (a = 0 ∨ IsP2 a) →
    allAlignDvd cfg (Fields.maxAlign cfg fs a) fs ∧ (a = 0 ∨ a ∣ Fields.maxAlign cfg fs a)
  | .nil, _, a, _ => ⟨trivial, by simp only [Fields.maxAlign]; exact Or.inr (Nat.dvd_refl _)⟩
  | .cons _ _ t _ r, h, a, ha => by
    simp only [Fields.pow2Aligned] at h
    have ht := alignment_p2 cfg t h.1
    obtain ⟨h1, h2⟩ := maxAlign_dvd cfg r h.2 (max a (t.alignment cfg)) (Or.inr (isP2_max ht ha))
    have h2 : max a (t.alignment cfg) ∣ Fields.maxAlign cfg r (max a (t.alignment cfg)) := by
      rcases h2 with h2 | h2
      · have := (isP2_max ht ha).pos; omega
      · exact h2
    simp only [Fields.maxAlign, allAlignDvd]
    refine ⟨⟨Nat.dvd_trans (dvd_max_right ht ha) h2, h1⟩, ?_⟩
    rcases ha with rfl | ha
    · exact Or.inl rfl
    · exact Or.inr (Nat.dvd_trans (dvd_max_left ht ha) h2)

theorem scAlign_dvd {a m : Nat} (h : decide (m % (if a = 0 then 1 else a) = 0) = true) :
    (if a = 0 then 1 else a) ∣ m := Nat.dvd_of_mod_eq_zero (of_decide_eq_true h)

mutual
theorem alignment_dvd_of_alignsDivide (cfg : Cfg) (m : Nat) : ∀ ty : Ty, ty.alignsDivide cfg m = true →
    ty.alignment cfg ∣ m
  | .sc _ a, h => by simp only [Ty.alignsDivide] at h; simp only [Ty.alignment]; exact scAlign_dvd h
  | .enum _ a _, h => by simp only [Ty.alignsDivide] at h; simp only [Ty.alignment]; exact scAlign_dvd h
  | .ptr t, h => by simp only [Ty.alignsDivide] at h; simp only [Ty.alignment]; exact scAlign_dvd h
  | .arr e _, h => by
    simp only [Ty.alignsDivide] at h; simp only [Ty.alignment]; exact alignment_dvd_of_alignsDivide cfg m e h
  | .struct _ fs, h => by
    simp only [Ty.alignsDivide] at h; simp only [Ty.alignment]
    rcases maxAlign_dvd_of_alignsDivide cfg m fs h 0 (Or.inl rfl) with h0 | h0
    · rw [if_pos h0]; exact Nat.one_dvd _
    · split
      · exact Nat.one_dvd _
      · exact h0
  | .union _ fs, h => by
    simp only [Ty.alignsDivide] at h; simp only [Ty.alignment]
    rcases maxAlign_dvd_of_alignsDivide cfg m fs h 0 (Or.inl rfl) with h0 | h0
    · rw [if_pos h0]; exact Nat.one_dvd _
    · split
      · exact Nat.one_dvd _
      · exact h0
theorem maxAlign_dvd_of_alignsDivide (cfg : Cfg) (m : Nat) : ∀ fs : Fields, Fields.alignsDivide cfg m fs = true →
    ∀ a, (a = 0 ∨ a ∣ m) → (Fields.maxAlign cfg fs a = 0 ∨ Fields.maxAlign cfg fs a ∣ m)
  | .nil, _, a, ha => by simpa only [Fields.maxAlign] using ha
  | .cons _ _ t _ r, h, a, ha => by
    simp only [Fields.alignsDivide, Bool.and_eq_true] at h
    simp only [Fields.maxAlign]
    apply maxAlign_dvd_of_alignsDivide cfg m r h.2
    right
    have ht := alignment_dvd_of_alignsDivide cfg m t h.1
    rcases Nat.le_total a (t.alignment cfg) with hle | hle
    · rw [Nat.max_eq_right hle]; exact ht
    · rw [Nat.max_eq_left hle]
      rcases ha with rfl | ha
      · have : t.alignment cfg = 0 := by omega
        rw [this] at ht; exact ht
      · exact ha
end

/-- the alignment that matters for the start position: that of the structures reached through arrays -/
def sAlign (cfg : Cfg) : Ty → Nat
  | .arr e _ => sAlign cfg e
  | .struct al fs => (Ty.struct al fs).alignment cfg
  | _ => 1

theorem sAlign_dvd_alignment (cfg : Cfg) : ∀ ty : Ty, sAlign cfg ty ∣ ty.alignment cfg
  | .sc _ _ => Nat.one_dvd _
  | .enum _ _ _ => Nat.one_dvd _
  | .ptr _ => Nat.one_dvd _
  | .arr e _ => by simp only [sAlign, Ty.alignment]; exact sAlign_dvd_alignment cfg e
  | .struct _ _ => by simp only [sAlign]; exact Nat.dvd_refl _
  | .union _ _ => Nat.one_dvd _

theorem sAlign_dvd_of_alignsDivide (cfg : Cfg) (m : Nat) (ty : Ty) (h : ty.alignsDivide cfg m = true) :
    sAlign cfg ty ∣ m :=
  Nat.dvd_trans (sAlign_dvd_alignment cfg ty) (alignment_dvd_of_alignsDivide cfg m ty h)


/-! ### Layout of static structures without bit-fields -/

/-- layout state between non-bit-field members -/
def mkSt (o : Option Nat) (a : Nat) : LState :=
  { offset := o, alignment := a, bitsType := none, bitsFieldOffset := some 0, bitsRemaining := 0 }

theorem init_eq_mkSt : LState.init = mkSt (some 0) 0 := rfl

/-- closed form of the member offsets -/
def offsS (cfg : Cfg) (al : Bool) : Fields → Nat → List (Option Nat)
  | .nil, _ => []
  | .cons _ _ ty _ r, o =>
    some (alignTo al o (ty.alignment cfg)) :: offsS cfg al r (alignTo al o (ty.alignment cfg) + (ty.size cfg).getD 0)

/-- closed form of the end of the last member -/
def endOff (cfg : Cfg) (al : Bool) : Fields → Nat → Nat
  | .nil, o => o
  | .cons _ _ ty _ r, o => endOff cfg al r (alignTo al o (ty.alignment cfg) + (ty.size cfg).getD 0)

theorem le_endOff (cfg : Cfg) (al : Bool) : ∀ (fs : Fields) (o : Nat), o ≤ endOff cfg al fs o
  | .nil, o => Nat.le_refl _
  | .cons _ _ ty _ r, o => by
    simp only [endOff]
    have h1 := le_alignTo al o (ty.alignment cfg)
    have h2 := le_endOff cfg al r (alignTo al o (ty.alignment cfg) + (ty.size cfg).getD 0)
    omega

theorem layout_nil (cfg : Cfg) (al : Bool) (o a : Nat) :
    Fields.layout cfg al .nil (mkSt (some o) a) = .ok (some (alignTo al o a), a, []) := by
  rw [Fields.layout]
  simp only [mkSt, alignTo]
  cases al <;> rfl

theorem layout_cons (cfg : Cfg) (al : Bool) (n : String) (an : Bool) (ty : Ty) (rest : Fields) (o a k : Nat)
    (hk : ty.size cfg = some k) :
    Fields.layout cfg al (.cons n an ty none rest) (mkSt (some o) a) =
      (Fields.layout cfg al rest (mkSt (some (alignTo al o (ty.alignment cfg) + k)) (max a (ty.alignment cfg)))).bind
        fun (sz, sa, offs) => .ok (sz, sa, some (alignTo al o (ty.alignment cfg)) :: offs) := by
  rw [Fields.layout]
  · simp only [mkSt, hk, alignTo]
    cases al <;> simp only [if_true, if_false, Bool.false_eq_true] <;>
    · generalize Fields.layout _ _ _ _ = r
      cases r <;> rfl
  · intro b h; cases h

mutual
theorem fragS_size (cfg : Cfg) : ∀ ty : Ty, ty.fragS cfg = true → ∃ k, ty.size cfg = some k
  | .sc s _, h => by
    cases s <;> simp [Ty.fragS] at h <;> simp [Ty.size, Scalar.size]
  | .enum b _ _, h => by
    simp only [Ty.fragS] at h
    cases b <;> simp [Scalar.isInt] at h <;> simp [Ty.size, Scalar.size]
  | .ptr _, h => by
    simp only [Ty.fragS] at h
    simp only [Ty.size]
    cases hp : cfg.ptr <;> rw [hp] at h <;> simp [Scalar.isInt] at h <;> simp [Scalar.size]
  | .arr e len, h => by
    simp only [Ty.fragS, Bool.and_eq_true] at h
    cases len with
    | fixed n =>
      obtain ⟨k, hk⟩ := fragS_size cfg e h.2
      exact ⟨n * k, by simp only [Ty.size, hk]⟩
    | expr _ => simp at h
    | nullTerm => simp at h
    | eof => simp at h
  | .struct al fs, h => by
    simp only [Ty.fragS] at h
    have := fragS_layout cfg fs h al 0 0
    refine ⟨alignTo al (endOff cfg al fs 0) (Fields.maxAlign cfg fs 0), ?_⟩
    simp only [Ty.size]
    rw [show ({ offset := some 0, alignment := 0, bitsType := none, bitsFieldOffset := some 0, bitsRemaining := 0 } : LState)
      = mkSt (some 0) 0 from rfl, this]
  | .union _ _, h => by simp [Ty.fragS] at h
theorem fragS_layout (cfg : Cfg) : ∀ fs : Fields, Fields.fragS cfg fs = true → ∀ (al : Bool) (o a : Nat),
    Fields.layout cfg al fs (mkSt (some o) a) =
      .ok (some (alignTo al (endOff cfg al fs o) (Fields.maxAlign cfg fs a)), Fields.maxAlign cfg fs a, offsS cfg al fs o)
  | .nil, _, al, o, a => by rw [layout_nil]; rfl
  | .cons n an ty bits r, h, al, o, a => by
    simp only [Fields.fragS, Bool.and_eq_true, Option.isNone_iff_eq_none] at h
    obtain ⟨⟨rfl, h1⟩, h2⟩ := h
    obtain ⟨k, hk⟩ := fragS_size cfg ty h1
    rw [layout_cons cfg al n an ty r o a k hk, fragS_layout cfg r h2]
    simp only [Except.bind, endOff, offsS, Fields.maxAlign, hk, Option.getD_some]
end

theorem struct_size (cfg : Cfg) (al : Bool) (fs : Fields) (h : Fields.fragS cfg fs = true) :
    (Ty.struct al fs).size cfg = some (alignTo al (endOff cfg al fs 0) (Fields.maxAlign cfg fs 0)) := by
  simp only [Ty.size]
  rw [show ({ offset := some 0, alignment := 0, bitsType := none, bitsFieldOffset := some 0, bitsRemaining := 0 } : LState)
      = mkSt (some 0) 0 from rfl, fragS_layout cfg fs h]

theorem structLayout_S (cfg : Cfg) (al : Bool) (fs : Fields) (h : Fields.fragS cfg fs = true) :
    structLayout cfg al fs =
      .ok (some (alignTo al (endOff cfg al fs 0) (Fields.maxAlign cfg fs 0)), Fields.maxAlign cfg fs 0, offsS cfg al fs 0) := by
  unfold structLayout; rw [init_eq_mkSt, fragS_layout cfg fs h]

end Cstruct.Core.Lemmas
