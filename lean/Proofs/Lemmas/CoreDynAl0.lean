/-
  Helper lemmas for `Proofs/CoreDyn.lean`, part 5 (aligned mode, structures without bit-fields): unfolding lemmas for the
  aligned layout, writer and reader of a member that is not a bit-field, with a static or a dynamic placement.
-/
import Proofs.Lemmas.CoreDynW
import Proofs.Lemmas.CoreBitsA
namespace Cstruct.Core.Lemmas
open Cstruct Cstruct.Core
set_option linter.unusedSimpArgs false

/-- layout state after a member that is not a bit-field, aligned mode -/
def stNbT (cfg : Cfg) (ty : Ty) (st : LState) : LState :=
  { offset := (match st.offset with
      | some o => (match ty.size cfg with | some k => some (o + padNat o (ty.alignment cfg) + k) | none => none)
      | none => none),
    alignment := max st.alignment (ty.alignment cfg), bitsType := none, bitsFieldOffset := some 0, bitsRemaining := 0 }

theorem layout_nb_true (cfg : Cfg) (n an ty rest st) :
    Fields.layout cfg true (.cons n an ty none rest) st =
      (Fields.layout cfg true rest (stNbT cfg ty st)).bind fun (sz, sa, offs) =>
        .ok (sz, sa, st.offset.map (fun o => o + padNat o (ty.alignment cfg)) :: offs) := by
  rw [Fields.layout]
  · obtain ⟨off, sal, bt, bfo, br⟩ := st
    cases off with
    | none =>
      simp only [if_true, stNbT, Option.map]
      generalize Fields.layout _ _ _ _ = r
      cases r <;> rfl
    | some o =>
      cases hk : ty.size cfg with
      | none =>
        simp only [if_true, stNbT, hk, Option.map]
        generalize Fields.layout _ _ _ _ = r
        cases r <;> rfl
      | some k =>
        simp only [if_true, stNbT, hk, Option.map]
        generalize Fields.layout _ _ _ _ = r
        cases r <;> rfl
  · intro b h; cases h

theorem layout_nil_true (cfg : Cfg) (st : LState) :
    Fields.layout cfg true .nil st = .ok (st.offset.map (fun o => o + padNat o st.alignment), st.alignment, []) := by
  rw [Fields.layout]
  cases st.offset <;> rfl

/-- the padding the aligned writer emits in front of a member that is not a bit-field (no unit pending) -/
def padW (cfg : Cfg) (ty : Ty) (foff : Option Nat) (start pos : Nat) : Nat :=
  match foff with
  | some fo => if pos < start + fo then start + fo - pos else 0
  | none => padNat pos (ty.alignment cfg)

theorem writeFields_nb_idle_true (cfg : Cfg) (name an ty rest foff offs v vs start pos) :
    writeFields cfg true (.cons name an ty none rest) (foff :: offs) (.cons v vs) start BitBuf.empty pos =
      (write cfg ty v (pos + padW cfg ty foff start pos)).bind fun body =>
        (writeFields cfg true rest offs vs start BitBuf.empty
            (pos + (zeros (padW cfg ty foff start pos) ++ body).length)).bind fun (o, bbf) =>
          .ok (zeros (padW cfg ty foff start pos) ++ body ++ o, bbf) := by
  rw [writeFields.eq_def]
  cases foff with
  | none => simp [BitBuf.empty, zeros, padW]; ex2
  | some fo => simp [BitBuf.empty, zeros, padW]; ex2

theorem padW_fieldPos (cfg : Cfg) (ty : Ty) (foff : Option Nat) (start pos : Nat)
    (h : ∀ fo, foff = some fo → pos ≤ start + fo) :
    pos + padW cfg ty foff start pos = fieldPos cfg true ty foff start pos := by
  cases foff with
  | none => simp [padW, fieldPos]
  | some fo =>
    have := h fo rfl
    simp only [padW, fieldPos, Option.isNone_some, Bool.false_eq_true, and_false, if_false]
    split <;> omega

end Cstruct.Core.Lemmas
