/-
  C13, definition parser — helper lemmas (2): where the recognisers of the scanner fail (by the first character, on a
  word that is not their keyword).
-/
import Proofs.Lemmas.C13ParseA

namespace Cstruct.DefParser.C13
open Cstruct.DefParser

-- ------------------------------------------------------------------------------------------------ failure by the first character
theorem lit_ne (p c : Char) (ps r : List Char) (h : c ≠ p) : lit (p :: ps) (c :: r) = none := by
  simp [lit, Ne.symm h]

theorem matchConfig_ne (c : Char) (r : List Char) (h : c ≠ '#') : matchConfig (c :: r) = none := by
  unfold matchConfig
  split
  · rename_i heq; simp at heq; exact absurd heq.1 h
  · rfl

theorem matchDefine_ne (sp : Char → Bool) (c : Char) (r : List Char) (h : c ≠ '#') : matchDefine sp (c :: r) = none := by
  simp [matchDefine, lit_ne _ _ _ _ h]

theorem matchTypedef_ne (sp : Char → Bool) (c : Char) (r : List Char) (h : c ≠ 't') : matchTypedef sp (c :: r) = none := by
  simp [matchTypedef, lit_ne _ _ _ _ h]

theorem matchStruct_ne (sp : Char → Bool) (c : Char) (r : List Char) (h1 : c ≠ 's') (h2 : c ≠ 'u') :
    matchStruct sp (c :: r) = none := by
  simp [matchStruct, lit_ne _ _ _ _ h1, lit_ne _ _ _ _ h2]

theorem matchEnum_ne (sp : Char → Bool) (c : Char) (r : List Char) (h1 : c ≠ 'e') (h2 : c ≠ 'f') :
    matchEnum sp (c :: r) = none := by
  simp [matchEnum, enumKw, lit_ne _ _ _ _ h1, lit_ne _ _ _ _ h2]

theorem matchDefs_nword (sp : Char → Bool) (ac : Bool) (c : Char) (r : List Char) (h1 : sp c = false) (h2 : isWord c = false) :
    matchDefs sp ac (c :: r) = none := by
  simp [matchDefs, h1, h2]

theorem namePre_ne (sp : Char → Bool) (c : Char) (r : List Char) (h : c ≠ '*') : namePre sp (c :: r) = [] := by
  unfold namePre
  split
  · rename_i heq; simp at heq; exact absurd heq.1 h
  · rfl

theorem matchName_nword (sp : Char → Bool) (c : Char) (r : List Char) (h1 : c ≠ '*') (h2 : isWord c = false) :
    matchName sp (c :: r) = none := by
  simp [matchName, namePre_ne sp c r h1, h2]

theorem matchIdent_nstart (c : Char) (r : List Char) (h : isIdStart c = false) : matchIdent (c :: r) = none := by
  simp [matchIdent, h]

theorem matchBlock_ne (c : Char) (r : List Char) (h1 : c ≠ '{') (h2 : c ≠ '}') : matchBlock (c :: r) = none := by
  simp [matchBlock, h1, h2]

theorem matchLookup_ne (sp : Char → Bool) (c : Char) (r : List Char) (h : c ≠ '$') : matchLookup sp (c :: r) = none := by
  unfold matchLookup
  split
  · rename_i heq; simp at heq; exact absurd heq.1 h
  · rfl

theorem matchEol_ne (c : Char) (r : List Char) (h : c ≠ ';') : matchEol (c :: r) = none := by
  unfold matchEol
  split
  · rename_i heq; simp at heq; exact absurd heq.1 h
  · rfl

/-- at a blank no token starts, except a name list behind `}` -/
theorem matchTok_blank (ac : Bool) (c : Char) (r : List Char) (hc : isWsA c = true)
    (hd : matchDefs isWsA ac (c :: r) = none) : matchTok ac (c :: r) = none := by
  have hw : isWord c = false := by
    cases h : isWord c with
    | false => rfl
    | true => rw [isWsA_of_word c h] at hc; exact absurd hc (by simp)
  have hi : isIdStart c = false := by
    cases h : isIdStart c with
    | false => rfl
    | true => rw [idStart_word c h] at hw; exact absurd hw (by simp)
  have hne : c ≠ '#' ∧ c ≠ 't' ∧ c ≠ 's' ∧ c ≠ 'u' ∧ c ≠ 'e' ∧ c ≠ 'f' ∧ c ≠ '*' ∧ c ≠ '{' ∧ c ≠ '}' ∧ c ≠ '$' ∧ c ≠ ';' := by
    rcases wsA_cases c hc with rfl | rfl | rfl | rfl | rfl | rfl <;> decide
  obtain ⟨h1, h2, h3, h4, h5, h6, h7, h8, h9, h10, h11⟩ := hne
  simp only [matchTok, matchConfig_ne c r h1, matchDefine_ne _ c r h1, matchTypedef_ne _ c r h2, matchStruct_ne _ c r h3 h4,
    matchEnum_ne _ c r h5 h6, hd, matchName_nword _ c r h7 hw, matchIdent_nstart c r hi, matchBlock_ne c r h8 h9,
    matchLookup_ne _ c r h10, matchEol_ne c r h11]

-- ------------------------------------------------------------------------------------------------ keywords against words
/-- a keyword literal against a text that starts with a word: it can only succeed inside the word -/
theorem lit_word : ∀ (p v y r : List Char), p.all isWord = true → v.all isWord = true → noHead isWord y = true →
    lit p (v ++ y) = some r → ∃ v', v = p ++ v' ∧ r = v' ++ y
  | [], v, y, r, _, _, _, h => by simp [lit] at h; exact ⟨v, rfl, h.symm⟩
  | a :: p, [], y, r, hp, _, hy, h => by
    cases y with
    | nil => simp [lit] at h
    | cons d y =>
      simp only [List.all_cons, Bool.and_eq_true] at hp
      simp only [noHead, Bool.not_eq_true'] at hy
      have : a ≠ d := fun e => by rw [e, hy] at hp; exact absurd hp.1 (by simp)
      simp [lit, this] at h
  | a :: p, c :: v, y, r, hp, hv, hy, h => by
    simp only [List.all_cons, Bool.and_eq_true] at hp hv
    by_cases e : a = c
    · subst e
      have h' : lit p (v ++ y) = some r := by simpa [lit] using h
      obtain ⟨v', h1, h2⟩ := lit_word p v y r hp.2 hv.2 hy h'
      exact ⟨v', by rw [h1]; rfl, h2⟩
    · simp [lit, e] at h

theorem kw_word : kwTypedef.all isWord = true ∧ kwStruct.all isWord = true ∧ kwUnion.all isWord = true ∧
    kwEnum.all isWord = true ∧ kwFlag.all isWord = true := by decide

/-- after a keyword literal inside a longer word comes a word character; after the whole word, `y` -/
theorem lit_word_cases (p v y : List Char) (hp : p.all isWord = true) (hv : v.all isWord = true)
    (hy : noHead isWord y = true) (hne : v ≠ p) :
    lit p (v ++ y) = none ∨ ∃ c r, lit p (v ++ y) = some (c :: r) ∧ isWord c = true := by
  cases h : lit p (v ++ y) with
  | none => exact .inl rfl
  | some r =>
    obtain ⟨v', h1, h2⟩ := lit_word p v y r hp hv hy h
    cases v' with
    | nil => exact absurd (by simpa using h1) hne
    | cons c v' =>
      refine .inr ⟨c, v' ++ y, by rw [h2]; rfl, ?_⟩
      rw [h1] at hv
      simp only [List.all_append, List.all_cons, Bool.and_eq_true] at hv
      exact hv.2.1

theorem matchTypedef_word {sp : Char → Bool} (hs : SpOK sp) (v y : List Char) (hv : v.all isWord = true)
    (hy : noHead isWord y = true) (hne : v ≠ kwTypedef) : matchTypedef sp (v ++ y) = none := by
  unfold matchTypedef
  rcases lit_word_cases kwTypedef v y kw_word.1 hv hy hne with h | ⟨c, r, h, hc⟩
  · rw [show (['t', 'y', 'p', 'e', 'd', 'e', 'f'] : List Char) = kwTypedef from rfl, h]
  · rw [show (['t', 'y', 'p', 'e', 'd', 'e', 'f'] : List Char) = kwTypedef from rfl, h]; simp [hs.word c hc]

theorem matchStruct_word {sp : Char → Bool} (hs : SpOK sp) (v y : List Char) (hv : v.all isWord = true)
    (hy : noHead isWord y = true) (h1 : v ≠ kwStruct) (h2 : v ≠ kwUnion) : matchStruct sp (v ++ y) = none := by
  have hb : ∀ c, isWord c = true → (sp c || c == '{') = false := fun c hc => by
    have : c ≠ '{' := fun e => by subst e; exact absurd hc (by decide)
    simp [hs.word c hc, this]
  unfold matchStruct
  simp only [show (['s', 't', 'r', 'u', 'c', 't'] : List Char) = kwStruct from rfl,
    show (['u', 'n', 'i', 'o', 'n'] : List Char) = kwUnion from rfl]
  rcases lit_word_cases kwStruct v y kw_word.2.1 hv hy h1 with h | ⟨c, r, h, hc⟩ <;>
  rcases lit_word_cases kwUnion v y kw_word.2.2.1 hv hy h2 with h' | ⟨c', r', h', hc'⟩ <;>
  simp [*]

theorem matchEnum_word {sp : Char → Bool} (hs : SpOK sp) (v y : List Char) (hv : v.all isWord = true)
    (hy : noHead isWord y = true) (h1 : v ≠ kwEnum) (h2 : v ≠ kwFlag) : matchEnum sp (v ++ y) = none := by
  unfold matchEnum enumKw
  simp only [show (['e', 'n', 'u', 'm'] : List Char) = kwEnum from rfl, show (['f', 'l', 'a', 'g'] : List Char) = kwFlag from rfl]
  rcases lit_word_cases kwEnum v y kw_word.2.2.2.1 hv hy h1 with h | ⟨c, r, h, hc⟩ <;>
  rcases lit_word_cases kwFlag v y kw_word.2.2.2.2 hv hy h2 with h' | ⟨c', r', h', hc'⟩ <;>
  simp [List.takeWhile, hs.word, *]

end Cstruct.DefParser.C13
