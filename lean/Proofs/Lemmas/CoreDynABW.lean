/-
  Helper lemmas for `Proofs/CoreDyn.lean`, part 11: totality of the ALIGNED writer on the values of a type of fragment D
  with bit-fields (under `bitsNatural`) whose definition is accepted.
-/
import Proofs.Lemmas.CoreDynAB
namespace Cstruct.Core.Lemmas
open Cstruct Cstruct.Core Cstruct.C06 Cstruct.C06.Lemmas
open Cstruct.C05.Lemmas (encBytes encBytes_length)
set_option linter.unusedSimpArgs false

def WtBTy (cfg : Cfg) (ty : Ty) : Prop :=
  ty.fragD cfg = true → ty.uniformAlign true = true → ty.pow2Aligned cfg → ty.bitsNatural cfg = true →
  ty.defErr cfg = none → ∀ ctx v, HasTyD cfg ctx v ty → ∀ pos, sAlign cfg ty ∣ pos → ∃ bs, write cfg ty v pos = .ok bs

def WtBIdle (cfg : Cfg) (fs : Fields) : Prop :=
  BHyps cfg fs → Fields.defErr cfg fs = none → ∀ ctx vs, HasTysD cfg ctx vs fs →
  ∀ st sz sa offs, Fields.layout cfg true fs st = .ok (sz, sa, offs) → LIdle st fs →
  ∀ start pos, allAlignDvd cfg start fs → (∀ o, st.offset = some o → pos = start + o) →
    ∃ out bbF fl, writeFields cfg true fs offs vs start BitBuf.empty pos = .ok (out, bbF) ∧ flushBits cfg bbF = .ok fl

def WtBPend (cfg : Cfg) (fs : Fields) : Prop :=
  BHyps cfg fs → Fields.defErr cfg fs = none → ∀ ctx vs, HasTysD cfg ctx vs fs →
  ∀ st sz sa offs, Fields.layout cfg true fs st = .ok (sz, sa, offs) →
  ∀ ft fsz k n bbW, Pend cfg st ft fsz k n bbW →
  ∀ start pos, allAlignDvd cfg start fs → fsz ∣ pos → (∀ o, st.offset = some o → pos + fsz = start + o) →
    ∃ out bbF fl, writeFields cfg true fs offs vs start bbW pos = .ok (out, bbF) ∧ flushBits cfg bbF = .ok fl

theorem putStepT_A (cfg : Cfg) (rest offs vs start fsz i w bb2 wpos pad) (out' : Bytes) (bbF : BitBuf)
    (h : putStepT cfg rest offs vs start fsz i w bb2 (wpos + pad) = .ok (out', bbF)) :
    putStepA cfg true rest offs vs start fsz i w bb2 wpos pad = .ok (zeros pad ++ out', bbF) := by
  simp only [putStepA, putStepT] at h ⊢
  cases hp : bb2.put cfg.endian fsz i w with
  | none => rw [hp] at h; cases h
  | some bb3 =>
    rw [hp] at h
    simp only [] at h ⊢
    obtain ⟨fl3, h1, h2⟩ := bind_ok h
    obtain ⟨⟨o, bbf⟩, h3, h4⟩ := bind_ok h2
    simp only [Except.ok.injEq, Prod.mk.injEq] at h4
    obtain ⟨rfl, rfl⟩ := h4
    rw [h1]
    simp only [Except.bind]
    have e : wpos + (zeros pad ++ fl3).length = wpos + pad + fl3.length := by
      rw [List.length_append, zeros_length]; omega
    rw [e, h3]
    simp only [List.append_assoc]

theorem wtB_bit_step (cfg : Cfg) (rest : Fields) (IHi : WtBIdle cfg rest) (IHp : WtBPend cfg rest)
    (hH : BHyps cfg rest) (hD : Fields.defErr cfg rest = none) (ctx' : Ctx) (vs' : Vals)
    (hvs : HasTysD cfg ctx' vs' rest) (st1 : LState) (sz sa offs') (hlay : Fields.layout cfg true rest st1 = .ok (sz, sa, offs'))
    (ft : Scalar) (fsz k n w : Nat) (bb2 : BitBuf) (hi : Scalar.isInt ft = true) (hsz : ft.size = some fsz)
    (hbt : st1.bitsType = some ft) (hbr : st1.bitsRemaining = ((8 * fsz - (k + w) : Nat) : Int)) (hkw : k + w ≤ 8 * fsz)
    (hoff : st1.offset = st1.bitsFieldOffset.map (· + fsz)) (hty : bb2.ty = some ft)
    (hinv : WriteInv cfg.endian (8 * fsz) k n bb2) (hn : n < 2 ^ k) (i : Int) (hi0 : 0 ≤ i) (hi1 : i < 2 ^ w)
    (start pos : Nat) (hdv : allAlignDvd cfg start rest) (hual : fsz ∣ pos)
    (hpos : ∀ o, st1.offset = some o → pos + fsz = start + o) :
    ∃ out bbF fl, putStepT cfg rest offs' vs' start fsz i w bb2 pos = .ok (out, bbF) ∧ flushBits cfg bbF = .ok fl := by
  obtain ⟨m, rfl⟩ := Int.eq_ofNat_of_zero_le hi0
  have hm : m < 2 ^ w := by exact_mod_cast hi1
  obtain ⟨bb3, hput, hinv3⟩ := put_step cfg.endian fsz k n w m bb2 hinv hn hm hkw
  have hn3 := acc_lt cfg.endian k n m w hn hm
  have hty3 : bb3.ty = some ft := by rw [put_ty hput, hty]
  simp only [putStepT, hput]
  by_cases hex : k + w = 8 * fsz
  · have hrem3 : bb3.remaining = 0 := by rw [hinv3.1]; omega
    obtain ⟨F, hfl3, hF, hrel⟩ := flush_pend cfg ft fsz (k + w) _ bb3 hty3 hsz hinv3 hn3 (by omega)
    have hl3 : (encBytes cfg.endian fsz F).length = fsz := encBytes_length _ _ _
    obtain ⟨o, bbF, fl, hw, hfl⟩ := IHi hH hD ctx' vs' hvs st1 sz sa offs' hlay
      (lidle_of_rem st1 (by rw [hbr]; omega) rest) start (pos + fsz) hdv hpos
    refine ⟨encBytes cfg.endian fsz F ++ o, bbF, fl, ?_, hfl⟩
    simp only [hrem3, if_true, hfl3, Except.bind, hl3, hw]
  · have hrem3 : bb3.remaining ≠ 0 := by rw [hinv3.1]; omega
    have hP : Pend cfg st1 ft fsz (k + w) (acc cfg.endian k n m w) bb3 :=
      ⟨hi, hsz, hbt, hbr, by omega, hoff, hty3, hinv3, hn3⟩
    obtain ⟨o, bbF, fl, hw, hfl⟩ := IHp hH hD ctx' vs' hvs st1 sz sa offs' hlay ft fsz _ _ bb3 hP start pos hdv hual hpos
    refine ⟨o, bbF, fl, ?_, hfl⟩
    simp only [hrem3, if_false, Except.bind, List.length_nil, Nat.add_zero, List.nil_append, hw]

theorem wtB_idle_nil (cfg : Cfg) : WtBIdle cfg .nil := by
  intro _ _ ctx vs hvs st sz sa offs hlay _ start pos _ _
  exact ⟨[], BitBuf.empty, [], writeFields_nil .., rfl⟩

theorem wtB_pend_nil (cfg : Cfg) : WtBPend cfg .nil := by
  intro _ _ ctx vs hvs st sz sa offs hlay ft fsz k n bbW hP start pos _ _ _
  obtain ⟨F, hfl, hF, hrel⟩ := flush_pend cfg ft fsz k n bbW hP.wty hP.size hP.winv hP.nlt (by have := hP.lt; omega)
  exact ⟨[], bbW, _, writeFields_nil .., hfl⟩

theorem wtB_idle_cons_nb (cfg : Cfg) (name an ty rest) (IHt : WtBTy cfg ty) (IHi : WtBIdle cfg rest) :
    WtBIdle cfg (.cons name an ty none rest) := by
  intro hH hD ctx vs hvs st sz sa offs hlay _ start pos hdv hpos
  have hHt := hH.tail
  obtain ⟨hS, hU, hP, hN⟩ := hH
  simp only [Fields.fragD, Bool.and_eq_true] at hS
  simp only [Fields.uniformAlign, Bool.and_eq_true] at hU
  simp only [Fields.pow2Aligned] at hP
  simp only [Fields.bitsNatural, Bool.and_eq_true] at hN
  obtain ⟨hD1, hD2⟩ := defErr_cons hD
  have hfa := alignment_p2 cfg ty hP.1
  cases hvs with
  | @cons _ v vs' _ _ _ _ hv hvs' =>
  rw [layout_nb_true] at hlay
  obtain ⟨⟨sz', sa', offs'⟩, hlay', heq⟩ := bind_ok hlay
  simp only [Except.ok.injEq, Prod.mk.injEq] at heq
  obtain ⟨rfl, rfl, rfl⟩ := heq
  obtain ⟨hfp, hal, hfo⟩ := place_facts cfg ty hfa st start pos hdv.1 hpos
  rw [show st.offset.map (fun o => o + padNat o (ty.alignment cfg)) = alOff cfg ty st from rfl]
  rw [writeFields_nb_idle_true]
  generalize hpad : padW cfg ty (alOff cfg ty st) start pos = pad at hfp hal hfo
  have hsal := Nat.dvd_trans (sAlign_dvd_alignment cfg ty) hal
  obtain ⟨body, hwb⟩ := IHt hS.1 hU.1 hP.1 hN.1 hD1 ctx v hv (pos + pad) hsal
  obtain ⟨hsize, _, _⟩ := bD_ty cfg ty hS.1 hU.1 hP.1 hN.1 ctx v hv (pos + pad) hsal body hwb
  have hpos' : ∀ o', (stNbT cfg ty st).offset = some o' → pos + (zeros pad ++ body).length = start + o' := by
    intro o' ho'
    simp only [stNbT] at ho'
    cases hso : st.offset with
    | none => rw [hso] at ho'; cases ho'
    | some o0 =>
      rw [hso] at ho'
      cases hk : ty.size cfg with
      | none => rw [hk] at ho'; cases ho'
      | some k =>
        rw [hk] at ho'
        simp only [Option.some.injEq] at ho'
        have h2 := hfo (o0 + padNat o0 (ty.alignment cfg)) (by simp only [alOff, hso, Option.map])
        rw [List.length_append, zeros_length, hsize k hk]; omega
  obtain ⟨out, bbF, fl, hw, hfl⟩ := IHi hHt hD2 (ctx.set name v) vs' hvs' _ sz' sa' offs' hlay'
    (lidle_of_rem _ rfl rest) start _ hdv.2 hpos'
  refine ⟨zeros pad ++ body ++ out, bbF, fl, ?_, hfl⟩
  rw [hwb]
  simp only [Except.bind, hw]

theorem wtB_idle_cons_bit (cfg : Cfg) (name an ty b rest) (IHi : WtBIdle cfg rest) (IHp : WtBPend cfg rest) :
    WtBIdle cfg (.cons name an ty (some (b + 1)) rest) := by
  intro hH hD ctx vs hvs st sz sa offs hlay hli start pos hdv hpos
  have hHt := hH.tail
  obtain ⟨hS, hU, hP, hN⟩ := hH
  simp only [Fields.fragD, Bool.and_eq_true] at hS
  simp only [Fields.pow2Aligned] at hP
  obtain ⟨_, hD2⟩ := defErr_cons hD
  obtain ⟨v, vs', rfl⟩ := hasTysD_cons_vals hvs
  obtain ⟨i, rfl, hi0, hi1, hvs'⟩ := hasTysD_bits hvs
  obtain ⟨ft, fsz, hbase, hint, hsz⟩ := bitOk_base ty hS.1
  have hfa := alignment_p2 cfg ty hP.1
  have hfsz : fsz = ty.alignment cfg := bitsNatural_head hN hbase hsz
  have hnew : st.bitsRemaining = 0 ∨ some ft ≠ st.bitsType := by
    rcases hli with h | h
    · exact Or.inl h
    · rw [hbase] at h; exact Or.inr h
  rw [layout_bit_new_true cfg name an ty b rest st ft fsz hbase hsz hnew] at hlay
  split at hlay
  · cases hlay
  rename_i hfit
  obtain ⟨⟨sz', sa', offs'⟩, hlay', heq⟩ := bind_ok hlay
  simp only [Except.ok.injEq, Prod.mk.injEq] at heq
  obtain ⟨rfl, rfl, rfl⟩ := heq
  obtain ⟨hfp, hal, hfo⟩ := place_facts cfg ty hfa st start pos hdv.1 hpos
  rw [writeFields_bit_idle_true cfg name an ty b rest _ offs' _ vs' start pos ft fsz i hbase hsz (bitVal_cases ty i)]
  generalize hpad : padW cfg ty (alOff cfg ty st) start pos = pad at hfp hal hfo
  have h8 : fsz * 8 = 8 * fsz := Nat.mul_comm _ _
  have hpos' : ∀ o, (stNewT cfg ty ft fsz (b + 1) st).offset = some o → pos + pad + fsz = start + o := by
    intro o ho
    simp only [stNewT] at ho
    cases hao : alOff cfg ty st with
    | none => rw [hao] at ho; cases ho
    | some o0 =>
      rw [hao] at ho
      simp only [Option.map, Option.some.injEq] at ho
      rw [hfo o0 hao]; omega
  obtain ⟨out, bbF, fl, hw, hfl⟩ := wtB_bit_step cfg rest IHi IHp hHt hD2 (ctx.set name (ty.bitVal i)) vs' hvs'
    (stNewT cfg ty ft fsz (b + 1) st) sz' sa' offs' hlay' ft fsz 0 0 (b + 1)
    { ty := some ft, buffer := 0, remaining := fsz * 8 } hint hsz rfl
    (by simp only [stNewT]; omega) (by omega) rfl rfl (by rw [h8]; exact writeInv_init _ _ _) (by simp) i hi0 hi1
    start (pos + pad) hdv.2 (by rw [hfsz]; exact hal) hpos'
  exact ⟨zeros pad ++ out, bbF, fl, putStepT_A cfg rest offs' vs' start fsz i (b + 1) _ pos pad out bbF hw, hfl⟩

theorem wtB_pend_cons (cfg : Cfg) (name an ty bits rest) (Hidle : WtBIdle cfg (.cons name an ty bits rest))
    (IHi : WtBIdle cfg rest) (IHp : WtBPend cfg rest) : WtBPend cfg (.cons name an ty bits rest) := by
  intro hH hD ctx vs hvs st sz sa offs hlay ft fsz k n bbW hPd start pos hdv hual hpos
  obtain ⟨v, vs', rfl⟩ := hasTysD_cons_vals hvs
  by_cases hsame : isBitW bits = true ∧ ty.bitBase = some ft
  · obtain ⟨hb, hbase⟩ := hsame
    rcases bits with _ | _ | b
    · simp [isBitW] at hb
    · simp [isBitW] at hb
    have hHt := hH.tail
    obtain ⟨hS, hU, hP, hN⟩ := hH
    simp only [Fields.pow2Aligned] at hP
    obtain ⟨_, hD2⟩ := defErr_cons hD
    obtain ⟨i, rfl, hi0, hi1, hvs'⟩ := hasTysD_bits hvs
    have hfa := alignment_p2 cfg ty hP.1
    have hfsz : fsz = ty.alignment cfg := bitsNatural_head hN hbase hPd.size
    have hd1 : ty.alignment cfg ∣ pos := by rw [← hfsz]; exact hual
    have hd2 : ty.alignment cfg ∣ pos + fsz := by
      rw [← hfsz]; exact Nat.dvd_add hual (Nat.dvd_refl _)
    have hd3 : ∀ o, st.offset = some o → padNat o (ty.alignment cfg) = 0 := by
      intro o ho
      apply padNat_of_dvd hfa
      have h1 := hpos o ho
      have h2 : ty.alignment cfg ∣ start + o := by rw [← h1]; exact hd2
      exact (Nat.dvd_add_right hdv.1).1 h2
    have hrem : st.bitsRemaining ≠ 0 := by rw [hPd.lrem]; have := hPd.lt; omega
    rw [layout_bit_cont_true cfg name an ty b rest st ft fsz hbase hPd.size hrem hPd.lty hPd.loff hd3] at hlay
    split at hlay
    · cases hlay
    rename_i hfit
    obtain ⟨⟨sz', sa', offs'⟩, hlay', heq⟩ := bind_ok hlay
    simp only [Except.ok.injEq, Prod.mk.injEq] at heq
    obtain ⟨rfl, rfl, rfl⟩ := heq
    have hwrem : bbW.remaining ≠ 0 := by rw [hPd.winv.1]; have := hPd.lt; omega
    rw [hPd.lrem] at hfit
    obtain ⟨out, bbF, fl, hw, hfl⟩ := wtB_bit_step cfg rest IHi IHp hHt hD2 (ctx.set name (ty.bitVal i)) vs' hvs'
      (stCont cfg ty (b + 1) st) sz' sa' offs' hlay' ft fsz k n (b + 1) bbW hPd.isInt hPd.size hPd.lty
      (by simp only [stCont, hPd.lrem]; omega) (by omega) hPd.loff hPd.wty hPd.winv hPd.nlt i hi0 hi1
      start pos hdv.2 hual hpos
    refine ⟨out, bbF, fl, ?_, hfl⟩
    rw [writeFields_bit_cont_al cfg true name an ty b rest offs' _ vs' start pos ft fsz i bbW hbase hPd.size
      (bitVal_cases ty i) hPd.wty hwrem (fun _ => padNat_of_dvd hfa _ hd1)]
    have := putStepT_A cfg rest offs' vs' start fsz i (b + 1) bbW pos 0 out bbF (by simpa using hw)
    simpa [zeros] using this
  · have hne : isBitW bits = false ∨ ty.bitBase ≠ some ft := by
      by_cases h1 : isBitW bits = true
      · exact Or.inr (fun h2 => hsame ⟨h1, h2⟩)
      · exact Or.inl (by simpa using h1)
    obtain ⟨F, hfl0, hF, hrel⟩ := flush_pend cfg ft fsz k n bbW hPd.wty hPd.size hPd.winv hPd.nlt (by have := hPd.lt; omega)
    have hl0 : (encBytes cfg.endian fsz F).length = fsz := encBytes_length _ _ _
    have hli : LIdle st (.cons name an ty bits rest) := by
      rcases bits with _ | _ | b
      · trivial
      · trivial
      · right
        rw [hPd.lty]
        rcases hne with h | h
        · simp [isBitW] at h
        · exact h
    obtain ⟨o, bbF, fl, hw, hfl⟩ := Hidle hH hD ctx _ hvs st sz sa offs hlay hli start (pos + fsz) hdv hpos
    refine ⟨encBytes cfg.endian fsz F ++ o, bbF, fl, ?_, hfl⟩
    rw [writeFields_flush cfg true name an ty bits rest offs v vs' start bbW _ ft hPd.wty hne, hfl0]
    simp only [Except.bind, hl0, hw]

/-! ### Types -/

theorem wtB_N (cfg : Cfg) (ctx : Ctx) (e : Ty) (hE : WtBTy cfg e) (hS : e.fragD cfg = true)
    (hU : e.uniformAlign true = true) (hP : e.pow2Aligned cfg) (hB : e.bitsNatural cfg = true) (hD : e.defErr cfg = none) :
    ∀ (n : Nat) (vs : Vals), HasTyND cfg ctx vs e n → ∀ pos, sAlign cfg e ∣ pos → ∃ bs, writeN cfg e vs pos = .ok bs := by
  intro n
  induction n with
  | zero => intro vs h pos _; cases h; exact ⟨[], writeN_nil cfg e pos⟩
  | succ n ih =>
    intro vs h pos hpos
    cases h with
    | @cons _ v vs' _ _ h1 h2 =>
      obtain ⟨bs1, w1⟩ := hE hS hU hP hB hD ctx v h1 pos hpos
      obtain ⟨_, a1, _⟩ := bD_ty cfg e hS hU hP hB ctx v h1 pos hpos bs1 w1
      obtain ⟨bs2, w2⟩ := ih vs' h2 (pos + bs1.length) a1
      refine ⟨bs1 ++ bs2, ?_⟩
      rw [writeN_cons, w1]; simp only [Except.bind]; rw [w2]

theorem wtB_arr (cfg : Cfg) (e : Ty) (len : Len) (hE : WtBTy cfg e) : WtBTy cfg (.arr e len) := by
  intro hS hU hP hB hD ctx v hv pos hpos
  have hS' := hS
  simp only [Ty.fragD, Bool.and_eq_true] at hS
  simp only [Ty.bitsNatural] at hB
  simp only [Ty.uniformAlign] at hU
  simp only [Ty.pow2Aligned] at hP
  simp only [Ty.defErr] at hD
  simp only [sAlign] at hpos
  cases hv with
  | chars _ _ => exact wtD_ty cfg _ hS' rfl rfl ctx _ (.chars ‹_› ‹_›) pos
  | wchars _ _ _ _ => exact wtD_ty cfg _ hS' rfl rfl ctx _ (.wchars ‹_› ‹_› ‹_› ‹_›) pos
  | chars0 _ => exact wtD_ty cfg _ hS' rfl rfl ctx _ (.chars0 ‹_›) pos
  | wchars0 _ _ => exact wtD_ty cfg _ hS' rfl rfl ctx _ (.wchars0 ‹_› ‹_›) pos
  | @arr0 _ _ vs hc hwc hZ =>
    have he : e.uniformAlign false = true := by
      cases e <;> simp [Ty.nullElem] at hS <;> rfl
    exact wtD_ty cfg _ hS' (by simp only [Ty.uniformAlign]; exact he) (by simp only [Ty.defErr]; exact hD) ctx _
      (.arr0 hc hwc hZ) pos
  | @arr _ _ _ n vs hc hwc hcnt hN =>
    rw [write_arr_count cfg e len ctx n hcnt vs (hasTyND_length cfg ctx e n vs hN)]
    exact wtB_N cfg ctx e hE hS.2 hU hP hB hD n vs hN pos hpos

theorem wtB_struct (cfg : Cfg) (al : Bool) (fs : Fields) (hF : WtBIdle cfg fs) : WtBTy cfg (.struct al fs) := by
  intro hS hU hP hB hD ctx v hv pos hpos
  simp only [Ty.fragD] at hS
  simp only [Ty.bitsNatural] at hB
  simp only [Ty.uniformAlign, Bool.and_eq_true, beq_iff_eq] at hU
  simp only [Ty.pow2Aligned] at hP
  obtain ⟨rfl, hU⟩ := hU
  simp only [Ty.defErr] at hD
  split at hD
  · cases hD
  rename_i hfd
  split at hD
  · cases hD
  rename_i r hl
  obtain ⟨sz, sa, offs⟩ := r
  cases hv with
  | @struct _ _ _ vs hvs =>
  obtain ⟨out, bbF, fl, hw, hfl⟩ := hF ⟨hS, hU, hP, hB⟩ hfd [] vs hvs LState.init sz sa offs hl (lidle_of_rem _ rfl fs)
    pos pos (allAlignDvd_of_sAlign cfg true fs hP pos hpos) (by intro o ho; cases ho; rfl)
  have : structLayout cfg true fs = .ok (sz, sa, offs) := hl
  rw [write_struct, this]
  simp only [Except.bind, hw, hfl]
  exact ⟨_, rfl⟩

mutual
theorem wtB_ty (cfg : Cfg) : ∀ ty : Ty, WtBTy cfg ty
  | .sc s a => fun hS _ _ _ _ ctx v hv pos _ => wtD_sc cfg s a hS rfl rfl ctx v hv pos
  | .enum b a f => fun hS _ _ _ _ ctx v hv pos _ => wtD_enum cfg b a f hS rfl rfl ctx v hv pos
  | .ptr t => fun hS _ _ _ _ ctx v hv pos _ => by
    cases hv with
    | ptr h1 => exact wtD_of_WR (wr_ptr cfg t _ (by simpa only [Ty.fragD, Ty.fragS] using hS) (.ptr h1) pos)
  | .arr e len => wtB_arr cfg e len (wtB_ty cfg e)
  | .struct al fs => wtB_struct cfg al fs (wtB_idle cfg fs)
  | .union _ _ => fun hS => by simp [Ty.fragD] at hS
theorem wtB_idle (cfg : Cfg) : ∀ fs : Fields, WtBIdle cfg fs
  | .nil => wtB_idle_nil cfg
  | .cons name an ty none rest => wtB_idle_cons_nb cfg name an ty rest (wtB_ty cfg ty) (wtB_idle cfg rest)
  | .cons _ _ _ (some 0) _ => fun hH => by have := hH.frag; simp [Fields.fragD] at this
  | .cons name an ty (some (b + 1)) rest => wtB_idle_cons_bit cfg name an ty b rest (wtB_idle cfg rest) (wtB_pend cfg rest)
theorem wtB_pend (cfg : Cfg) : ∀ fs : Fields, WtBPend cfg fs
  | .nil => wtB_pend_nil cfg
  | .cons name an ty none rest =>
    wtB_pend_cons cfg name an ty none rest (wtB_idle_cons_nb cfg name an ty rest (wtB_ty cfg ty) (wtB_idle cfg rest))
      (wtB_idle cfg rest) (wtB_pend cfg rest)
  | .cons _ _ _ (some 0) _ => fun hH => by have := hH.frag; simp [Fields.fragD] at this
  | .cons name an ty (some (b + 1)) rest =>
    wtB_pend_cons cfg name an ty (some (b + 1)) rest
      (wtB_idle_cons_bit cfg name an ty b rest (wtB_idle cfg rest) (wtB_pend cfg rest)) (wtB_idle cfg rest) (wtB_pend cfg rest)
end

end Cstruct.Core.Lemmas
