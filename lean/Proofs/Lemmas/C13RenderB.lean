/-
  C13, round trip — helper lemmas (2): the observed tokens of a rendered type / member / aggregate, and what the member loop,
  `_parse_field` and `_struct` make of them.
-/
import Proofs.Lemmas.C13RenderA

namespace Cstruct.DefParser.C13
open Cstruct.DefParser

def tagTok : Option (List Char) → List OTok
  | some t => [.ident t]
  | none => []

mutual
def oT : TypeRef → List OTok
  | .none => []
  | .name n => (typeWordsOf n).map .ident
  | .structRef t => [.struct false, .ident t]
  | .inline a => oA a
def oA : Aggr → List OTok
  | .mk u tag fs _ => .struct u :: tagTok tag ++ .block false :: oFs fs ++ [.block true]
def oF : FieldDecl → List OTok
  | .anon t => oT t ++ [.eol]
  | .named t d => oT t ++ [.name (declrLex d).text (.ok d), .eol]
def oFs : List FieldDecl → List OTok
  | [] => []
  | f :: r => oF f ++ oFs r
end

mutual
def szT : TypeRef → Nat
  | .inline a => szA a + 1
  | _ => 2
def szA : Aggr → Nat
  | .mk _ _ fs _ => szFs fs + 2
def szF : FieldDecl → Nat
  | .anon t => szT t + 1
  | .named t _ => szT t + 1
def szFs : List FieldDecl → Nat
  | [] => 1
  | f :: r => szF f + szFs r + 1
end

def dropEol : List OTok → List OTok
  | .eol :: r => r
  | t => t

def notName : List OTok → Bool
  | .name _ _ :: _ => false
  | _ => true

/-- `_identifier` on a run of identifiers -/
theorem identifier_idents : ∀ (w : List Char) (ws : List (List Char)) (rest : List OTok), (∀ v r, rest ≠ .ident v :: r) →
    identifier ((w :: ws).map .ident ++ rest) = (joinBlank (w :: ws), rest)
  | w, [], rest, h => by
    cases rest with
    | nil => simp [identifier, joinBlank]
    | cons t r =>
      cases t with
      | ident v => exact absurd rfl (h v r)
      | _ => simp [identifier, joinBlank]
  | w, v :: ws, rest, h => by
    have ih := identifier_idents v ws rest h
    simp only [List.map_cons, List.cons_append] at ih ⊢
    simp [identifier, ih, joinBlank]

theorem joinBlank_split : ∀ (l : List Char), joinBlank (splitOn1 ' ' l) = l
  | [] => by simp [splitOn1, joinBlank]
  | c :: r => by
    have ih := joinBlank_split r
    simp only [splitOn1]
    cases hs : splitOn1 ' ' r with
    | nil => simp [hs, joinBlank] at ih ⊢; exact absurd ih.symm (by
        intro e; subst e; simp [splitOn1] at hs)
    | cons h t =>
      rw [hs] at ih
      by_cases hc : c = ' '
      · subst hc; simp [joinBlank, ih]
      · simp only [hc, if_false]
        cases t with
        | nil => simp [joinBlank] at ih ⊢; exact ih
        | cons t1 t2 => simp [joinBlank] at ih ⊢; exact ih

theorem typeWordsOf_ne_nil (n : List Char) : typeWordsOf n ≠ [] := by
  cases n with
  | nil => simp [typeWordsOf, splitOn1]
  | cons c r =>
    simp only [typeWordsOf, splitOn1]
    cases splitOn1 ' ' r with
    | nil => simp
    | cons h t => by_cases hc : c = ' ' <;> simp [hc]

/-- a rendered type is followed by a declarator: what `_parse_field` has in hand then -/
theorem fieldTail_named (ty : TypeRef) (ws : Bool) (txt : List Char) (d : Declarator) (rest : List OTok) :
    fieldTail ty ws (.name txt (.ok d) :: .eol :: rest) = .ok (.named ty d, rest) := by
  simp [fieldTail, eol]

theorem fieldTail_anon (ty : TypeRef) (rest : List OTok) (h : notName rest = true) :
    fieldTail ty true rest = .ok (.anon ty, rest) := by
  cases rest with
  | nil => simp [fieldTail]
  | cons t r => cases t <;> simp_all [fieldTail, notName]

theorem oT_head (t : TypeRef) (h : wfT t = true) : ∃ x r, oT t = x :: r ∧ ((∃ v, x = .ident v) ∨ (∃ u, x = .struct u)) := by
  cases t with
  | none => simp [wfT] at h
  | name n =>
    obtain ⟨w, ws, hw⟩ := List.exists_cons_of_ne_nil (typeWordsOf_ne_nil n)
    exact ⟨.ident w, ws.map .ident, by simp [oT, hw], .inl ⟨w, rfl⟩⟩
  | structRef t => exact ⟨_, _, rfl, .inr ⟨false, rfl⟩⟩
  | inline a => obtain ⟨u, tag, fs, ns⟩ := a; exact ⟨_, _, rfl, .inr ⟨u, rfl⟩⟩

theorem oF_head (f : FieldDecl) (h : wfF f = true) : ∃ x r, oF f = x :: r ∧ ((∃ v, x = .ident v) ∨ (∃ u, x = .struct u)) := by
  cases f with
  | anon t =>
    simp only [wfF, Bool.and_eq_true] at h
    obtain ⟨x, r, e, hx⟩ := oT_head t h.2
    exact ⟨x, r ++ [.eol], by simp [oF, e], hx⟩
  | named t d =>
    simp only [wfF, Bool.and_eq_true] at h
    obtain ⟨x, r, e, hx⟩ := oT_head t h.1
    exact ⟨x, r ++ [.name (declrLex d).text (.ok d), .eol], by simp [oF, e], hx⟩

mutual
/-- `_struct` (as a member or typedef target) on a rendered aggregate -/
theorem structH_oA : ∀ (a : Aggr), wfA false a = true → ∀ (fuel : Nat) (rest : List OTok), szA a ≤ fuel →
    structH fuel false (oA a ++ rest) = .ok (.inline a, dropEol rest)
  | .mk u tag fs ns, h, fuel, rest, hf => by
    simp only [wfA, Bool.and_eq_true, Bool.false_eq_true, if_false, List.isEmpty_iff] at h
    obtain ⟨⟨-, hfs⟩, rfl⟩ := h
    simp only [szA] at hf
    obtain ⟨g, rfl⟩ : ∃ g, fuel = g + 2 := ⟨fuel - 2, by omega⟩
    have ih := fieldsH_oFs fs hfs g rest (by omega)
    have hend : structEnd false u tag fs rest = .ok (.inline (.mk u tag fs []), dropEol rest) := by
      unfold structEnd dropEol
      cases rest with
      | nil => simp
      | cons t r => cases t <;> simp
    cases tag with
    | some t =>
      simp only [oA, tagTok, List.cons_append, List.nil_append, List.append_assoc, structH, structTail, ih, hend]
    | none =>
      simp only [oA, tagTok, List.cons_append, List.nil_append, List.append_assoc, structH, structTail, ih, hend]

/-- the member loop on rendered members, up to the closing brace -/
theorem fieldsH_oFs : ∀ (fs : List FieldDecl), wfFs fs = true → ∀ (fuel : Nat) (rest : List OTok), szFs fs ≤ fuel →
    fieldsH fuel (oFs fs ++ .block true :: rest) = .ok (fs, rest)
  | [], _, fuel, rest, hf => by
    simp only [szFs] at hf
    obtain ⟨g, rfl⟩ : ∃ g, fuel = g + 1 := ⟨fuel - 1, by omega⟩
    simp [oFs, fieldsH]
  | f :: r, h, fuel, rest, hf => by
    simp only [wfFs, Bool.and_eq_true] at h
    simp only [szFs] at hf
    obtain ⟨g, rfl⟩ : ∃ g, fuel = g + 1 := ⟨fuel - 1, by omega⟩
    have hcont : notName (oFs r ++ .block true :: rest) = true := by
      cases r with
      | nil => rfl
      | cons f2 r2 =>
        simp only [wfFs, Bool.and_eq_true] at h
        obtain ⟨x, rr, e, hx⟩ := oF_head f2 h.2.1
        simp only [oFs, e, List.cons_append]
        rcases hx with ⟨v, rfl⟩ | ⟨u, rfl⟩ <;> rfl
    have h1 := fieldH_oF f h.1 g (oFs r ++ .block true :: rest) (by omega) hcont
    have h2 := fieldsH_oFs r h.2 g rest (by omega)
    obtain ⟨x, rr, e, hx⟩ := oF_head f h.1
    have e1 : fieldsH (g + 1) (oF f ++ (oFs r ++ .block true :: rest)) = (match fieldH g (oF f ++ (oFs r ++ .block true :: rest)) with
        | .error e => .error e
        | .ok (fd, t1) => match fieldsH g t1 with
          | .error e => .error e
          | .ok (fs, t2) => .ok (fd :: fs, t2)) := by
      rw [e]
      rcases hx with ⟨v, rfl⟩ | ⟨u, rfl⟩ <;> rfl
    simp only [oFs, List.append_assoc]
    rw [e1, h1]
    simp only [h2]

/-- `_parse_field` on a rendered member -/
theorem fieldH_oF : ∀ (f : FieldDecl), wfF f = true → ∀ (fuel : Nat) (rest : List OTok), szF f ≤ fuel → notName rest = true →
    fieldH fuel (oF f ++ rest) = .ok (f, rest)
  | .anon t, h, fuel, rest, hf, hn => by
    simp only [wfF, Bool.and_eq_true] at h
    cases t with
    | inline a =>
      simp only [szF, szT] at hf
      obtain ⟨g, rfl⟩ : ∃ g, fuel = g + 1 := ⟨fuel - 1, by omega⟩
      have hs := structH_oA a (by simpa [wfT] using h.2) g (.eol :: rest) (by omega)
      obtain ⟨u, tag, fs, ns⟩ := a
      simp only [oA, List.cons_append, List.append_assoc, List.nil_append] at hs
      simp only [oF, oT, oA, List.cons_append, List.append_assoc, List.nil_append, fieldH, hs, dropEol]
      exact fieldTail_anon _ rest hn
    | none => simp at h
    | name n => simp at h
    | structRef t => simp at h
  | .named t d, h, fuel, rest, hf, _ => by
    simp only [wfF, Bool.and_eq_true] at h
    cases t with
    | none => simp [wfT] at h
    | name n =>
      simp only [szF, szT] at hf
      obtain ⟨g, rfl⟩ : ∃ g, fuel = g + 1 := ⟨fuel - 1, by omega⟩
      obtain ⟨w, ws, hw⟩ := List.exists_cons_of_ne_nil (typeWordsOf_ne_nil n)
      have hid := identifier_idents w ws (.name (declrLex d).text (.ok d) :: .eol :: rest) (by intro v r e; cases e)
      have hj : joinBlank (w :: ws) = n := by rw [← hw]; exact joinBlank_split n
      simp only [oF, oT, hw, List.append_assoc, List.cons_append, List.nil_append, List.map_cons] at hid ⊢
      simp only [fieldH, hid, hj]
      exact fieldTail_named _ _ _ _ _
    | structRef t =>
      simp only [szF, szT] at hf
      obtain ⟨g, rfl⟩ : ∃ g, fuel = g + 3 := ⟨fuel - 3, by omega⟩
      simp only [oF, oT, List.cons_append, List.nil_append, fieldH, structH, structTail]
      exact fieldTail_named _ _ _ _ _
    | inline a =>
      simp only [szF, szT] at hf
      obtain ⟨g, rfl⟩ : ∃ g, fuel = g + 1 := ⟨fuel - 1, by omega⟩
      have hs := structH_oA a (by simpa [wfT] using h.1) g (.name (declrLex d).text (.ok d) :: .eol :: rest) (by omega)
      obtain ⟨u, tag, fs, ns⟩ := a
      simp only [oA, List.cons_append, List.append_assoc, List.nil_append] at hs
      simp only [oF, oT, oA, List.cons_append, List.append_assoc, List.nil_append, fieldH, hs, dropEol]
      exact fieldTail_named _ _ _ _ _
end

end Cstruct.DefParser.C13
