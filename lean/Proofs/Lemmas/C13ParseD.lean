/-
  C13, definition parser — helper lemmas (4): ENUM, DEFINE and CONFIG_FLAG on a well-formed lexeme.
-/
import Proofs.Lemmas.C13ParseC

namespace Cstruct.DefParser.C13
open Cstruct.DefParser

theorem enumKw_lexeme (fl : Bool) (X : List Char) :
    enumKw ((if fl then kwFlag else kwEnum) ++ X) = some (fl, if fl then kwFlag else kwEnum, X) := by
  cases fl with
  | false =>
    simp only [Bool.false_eq_true, if_false, enumKw]
    rw [show (['e', 'n', 'u', 'm'] : List Char) = kwEnum from rfl, lit_append]
  | true =>
    simp only [if_true, enumKw]
    have : lit kwEnum (kwFlag ++ X) = none := by simp [kwEnum, kwFlag, lit]
    rw [show (['e', 'n', 'u', 'm'] : List Char) = kwEnum from rfl, this,
      show (['f', 'l', 'a', 'g'] : List Char) = kwFlag from rfl, lit_append]

theorem enumType_none (sp : Char → Bool) (B : List Char) : enumType sp ('{' :: B) = some (none, [], '{' :: B) := rfl

theorem enumType_some {sp : Char → Bool} (hs : SpOK sp) (a t b B : List Char) (ha : blank a = true) (hb : blank b = true)
    (htall : t.all (fun c => isWord c || isWsA c) = true) (c : Char) (t' : List Char) (ht : t = c :: t') (hc : isWord c = true)
    (hlast : ∀ d, t.getLast? = some d → isWord d = true) :
    enumType sp (':' :: a ++ t ++ b ++ '{' :: B) = some (some t, ':' :: a ++ t ++ b, '{' :: B) := by
  have htbrace : (t ++ b).all (· != '{') = true := by
    simp only [List.all_append, Bool.and_eq_true, List.all_eq_true, bne_iff_ne]
    constructor
    · intro d hd
      have := (List.all_eq_true.mp htall) d hd
      intro e; subst e; exact absurd this (by decide)
    · intro d hd
      exact (wsA_not d ((List.all_eq_true.mp hb) d hd)).2.2.2.2.2.2.2.2.1
  have hthd : noHead sp (t ++ (b ++ '{' :: B)) = true := by subst ht; simp [noHead, hs.word c hc]
  have h4 := tw_app sp a (t ++ (b ++ '{' :: B)) (blank_sp hs a ha) hthd
  have h5 := tw_app (· != '{') (t ++ b) ('{' :: B) htbrace (by simp [noHead])
  have hstrip : rstripBy sp (t ++ b) = t :=
    rstripBy_app sp t b (blank_sp hs b hb) (fun d hd => hs.word d (hlast d hd))
  have e : ':' :: a ++ t ++ b ++ '{' :: B = ':' :: (a ++ (t ++ (b ++ '{' :: B))) := by simp
  rw [e]
  unfold enumType
  simp only [h4.1, h4.2]
  rw [show t ++ (b ++ '{' :: B) = (t ++ b) ++ '{' :: B by simp, h5.1, h5.2, hstrip]
  subst ht
  simp

theorem matchEnum_lexeme {sp : Char → Bool} (hs : SpOK sp) (fl : Bool) (ws1 nm ws2 : List Char)
    (ty : Option (List Char × List Char × List Char)) (vals : List Char)
    (hwf : (Lexeme.enum fl ws1 nm ws2 ty vals).wf = true) (s rest : List Char) (hb : blank s = true) :
    matchEnum sp ((Lexeme.enum fl ws1 nm ws2 ty vals).text ++ s ++ ';' :: rest)
      = some (⟨fl, if nm.isEmpty then none else some nm, ty.map (·.2.1), vals⟩,
              (Lexeme.enum fl ws1 nm ws2 ty vals).text ++ s, ';' :: rest) := by
  simp only [Lexeme.wf, Bool.and_eq_true, Bool.not_eq_true', List.isEmpty_eq_false_iff, Bool.or_eq_true, List.isEmpty_iff] at hwf
  obtain ⟨⟨⟨⟨⟨⟨⟨hws1, hws1ne⟩, hnm⟩, hws2⟩, hnmws2⟩, hty⟩, hvne⟩, hvals⟩ := hwf
  have hnmN : nm.all (fun c => !sp c && c != ':' && c != '{') = true := by
    simp only [List.all_eq_true] at hnm ⊢
    intro c hc
    have hw := hnm c hc
    have h1 : c ≠ ':' := fun e => by subst e; exact absurd hw (by decide)
    have h2 : c ≠ '{' := fun e => by subst e; exact absurd hw (by decide)
    simp [hs.word c hw, h1, h2]
  let B := vals ++ '}' :: s ++ ';' :: rest
  have hB := enumBody_lexeme hs vals s rest hvne hvals hb
  let T := tyText ty ++ '{' :: B
  have hT : ∃ d r, T = d :: r ∧ (d = ':' ∨ d = '{') := by
    cases ty with
    | none => exact ⟨'{', _, rfl, .inr rfl⟩
    | some t => obtain ⟨a, t, b⟩ := t; exact ⟨':', _, rfl, .inl rfl⟩
  obtain ⟨d, Tr, hTe, hd⟩ := hT
  have hdsp : sp d = false := by rcases hd with rfl | rfl <;> simp [hs.colon, hs.lbrace]
  have hdN : (fun c => !sp c && c != ':' && c != '{') d = false := by rcases hd with rfl | rfl <;> simp
  have e : (Lexeme.enum fl ws1 nm ws2 ty vals).text ++ s ++ ';' :: rest
      = (if fl then kwFlag else kwEnum) ++ (ws1 ++ (nm ++ (ws2 ++ T))) := by
    simp [Lexeme.text, T, B]
  have hN2 : noHead (fun c => !sp c && c != ':' && c != '{') (ws2 ++ T) = true := by
    cases ws2 with
    | nil => simp [noHead, hTe, hdN]
    | cons w ws2 =>
      simp only [blank, List.all_cons, Bool.and_eq_true] at hws2
      simp [noHead, hs.blankA w hws2.1]
  have hN1 : noHead sp (nm ++ (ws2 ++ T)) = true := by
    cases nm with
    | nil =>
      have : ws2 = [] := by rcases hnmws2 with h | h; exact absurd rfl h; exact h
      subst this
      simp [noHead, hTe, hdsp]
    | cons c nm =>
      simp only [List.all_cons, Bool.and_eq_true] at hnm
      simp [noHead, hs.word c hnm.1]
  have h1 := tw_app sp ws1 (nm ++ (ws2 ++ T)) (blank_sp hs ws1 hws1) hN1
  have h2 := tw_app (fun c => !sp c && c != ':' && c != '{') nm (ws2 ++ T) hnmN hN2
  have h3 := tw_app sp ws2 T (blank_sp hs ws2 hws2) (by simp [noHead, hTe, hdsp])
  have hws1e : ws1.isEmpty = false := by simpa using hws1ne
  have hTy : enumType sp T = some (ty.map (·.2.1), tyText ty, '{' :: B) := by
    cases ty with
    | none => rfl
    | some t =>
      obtain ⟨a, t, b⟩ := t
      simp only [Bool.and_eq_true] at hty
      obtain ⟨⟨⟨⟨ha, hbb⟩, htall⟩, hthead⟩, htlast⟩ := hty
      have htne : t ≠ [] := by intro e; subst e; simp at hthead
      obtain ⟨c, t', rfl⟩ := List.exists_cons_of_ne_nil htne
      have := enumType_some hs a (c :: t') b B ha hbb htall c t' rfl hthead
        (fun d hd => by rw [hd] at htlast; exact htlast)
      simpa [T, tyText] using this
  rw [e]
  unfold matchEnum
  simp only [enumKw_lexeme, h1.1, h1.2, h2.1, h2.2, h3.1, h3.2, hws1e, Bool.false_eq_true, if_false, hTy]
  have hB' : enumBody sp ('{' :: B) = some (vals, '{' :: vals ++ '}' :: s, ';' :: rest) := by simpa [B] using hB
  rw [hB']
  simp [Lexeme.text]

-- ------------------------------------------------------------------------------------------------ DEFINE, CONFIG_FLAG
/-- the end of a `#define` line: the separator starts with a line break, or the text ends there -/
def lineEnd (s rest : List Char) : Bool :=
  match s with
  | c :: _ => c == '\n' || c == '\r'
  | [] => rest.isEmpty

theorem matchDefine_lexeme {sp : Char → Bool} (hs : SpOK sp) (ws1 nm ws2 val : List Char)
    (hwf : (Lexeme.define ws1 nm ws2 val).wf = true) (s rest : List Char) (hb : blank s = true)
    (hend : lineEnd s rest = true) (hrest : noHead sp rest = true) :
    matchDefine sp ((Lexeme.define ws1 nm ws2 val).text ++ s ++ rest)
      = some (⟨nm, val⟩, (Lexeme.define ws1 nm ws2 val).text ++ s, rest) := by
  simp only [Lexeme.wf, Bool.and_eq_true, Bool.not_eq_true', List.isEmpty_eq_false_iff] at hwf
  obtain ⟨⟨⟨⟨⟨⟨⟨hws1, hws1ne⟩, hnmne⟩, hnm⟩, hws2⟩, hws2ne⟩, hvhead⟩, hval⟩ := hwf
  have nsp : ∀ c, isWs c = false → sp c = false := fun c h => by
    cases h' : sp c with
    | false => rfl
    | true => rw [hs.sub c h'] at h; exact absurd h (by simp)
  obtain ⟨n, nm', rfl⟩ := List.exists_cons_of_ne_nil hnmne
  obtain ⟨w, ws2', rfl⟩ := List.exists_cons_of_ne_nil hws2ne
  have hvne : val ≠ [] := by intro e; subst e; simp at hvhead
  obtain ⟨v, val', rfl⟩ := List.exists_cons_of_ne_nil hvne
  have hn : sp n = false := by
    simp only [List.all_cons, Bool.and_eq_true, Bool.not_eq_true'] at hnm; exact nsp n hnm.1
  have hv : sp v = false := by simp only [Bool.not_eq_true'] at hvhead; exact nsp v hvhead
  have hw : sp w = true := by simp only [blank, List.all_cons, Bool.and_eq_true] at hws2; exact hs.blankA w hws2.1
  have hnmN : (n :: nm').all (fun c => !sp c) = true := by
    simp only [List.all_eq_true, Bool.not_eq_true'] at hnm ⊢
    exact fun c hc => nsp c (hnm c hc)
  let Z := s ++ rest
  have e : (Lexeme.define ws1 (n :: nm') (w :: ws2') (v :: val')).text ++ s ++ rest
      = kwDefine ++ (ws1 ++ ((n :: nm') ++ ((w :: ws2') ++ ((v :: val') ++ Z)))) := by simp [Lexeme.text, Z]
  have h1 := tw_app sp ws1 ((n :: nm') ++ ((w :: ws2') ++ ((v :: val') ++ Z))) (blank_sp hs ws1 hws1) (by simp [noHead, hn])
  have h2 := tw_app (fun c => !sp c) (n :: nm') ((w :: ws2') ++ ((v :: val') ++ Z)) hnmN (by simp [noHead, hw])
  have h3 := tw_app sp (w :: ws2') ((v :: val') ++ Z) (blank_sp hs _ hws2) (by simp [noHead, hv])
  have hZ : noHead notEol Z = true := by
    cases s with
    | nil => simp only [lineEnd, List.isEmpty_iff] at hend; subst hend; rfl
    | cons c s => simp only [lineEnd, Bool.or_eq_true, beq_iff_eq] at hend; rcases hend with rfl | rfl <;> rfl
  have h4 := tw_app notEol (v :: val') Z hval hZ
  have h5 := tw_app sp s rest (blank_sp hs s hb) hrest
  have hws1e : ws1.isEmpty = false := by simpa using hws1ne
  rw [e]
  unfold matchDefine
  rw [show (['#', 'd', 'e', 'f', 'i', 'n', 'e'] : List Char) = kwDefine from rfl, lit_append]
  simp only [List.cons_append] at h1 h2 h3 h4
  simp only [List.cons_append, h1.1, h1.2, h2.1, h2.2, h3.1, h3.2, hws1e, List.isEmpty_cons, Bool.or_self, Bool.false_eq_true,
    if_false, h4.1, h4.2]
  simp only [Z, h5.1, h5.2]
  simp [Lexeme.text, kwDefine]

theorem matchConfig_lexeme (vals rest : List Char) (hwf : (Lexeme.config vals).wf = true) :
    matchConfig ((Lexeme.config vals).text ++ rest) = some (⟨vals⟩, (Lexeme.config vals).text, rest) := by
  simp only [Lexeme.wf, Bool.and_eq_true, Bool.not_eq_true'] at hwf
  have h := tw_app (· != ']') vals (']' :: rest) hwf.2 (by simp [noHead])
  have e : (Lexeme.config vals).text ++ rest = '#' :: '[' :: (vals ++ ']' :: rest) := by simp [Lexeme.text]
  rw [e]
  unfold matchConfig
  simp only [h.1, h.2, hwf.1, Bool.false_eq_true, if_false]
  simp [Lexeme.text]

end Cstruct.DefParser.C13
