/-
  Helper lemmas for `Proofs/CoreDyn.lean`, part 4: totality of the packed writer on the values of a type of fragment D
  whose definition is accepted (statements `WtTyD`, `WtIdleD`, `WtPendD`). Where a member has a static size the number of
  bytes written for it is taken from the round-trip statement (`rtD_ty`), so that the layout offsets of the following
  members are met; after the first dynamic member there are no layout offsets and nothing has to be met.
-/
import Proofs.Lemmas.CoreDynC
import Proofs.Lemmas.CoreBitsWT
namespace Cstruct.Core.Lemmas
open Cstruct Cstruct.Core Cstruct.C06 Cstruct.C06.Lemmas
open Cstruct.C05.Lemmas (encBytes encBytes_length encodeWchar_ok)
set_option linter.unusedSimpArgs false

def WtTyD (cfg : Cfg) (ty : Ty) : Prop :=
  ty.fragD cfg = true → ty.uniformAlign false = true → ty.defErr cfg = none → ∀ ctx v, HasTyD cfg ctx v ty → ∀ pos,
    ∃ bs, write cfg ty v pos = .ok bs

def WtIdleD (cfg : Cfg) (fs : Fields) : Prop :=
  Fields.fragD cfg fs = true → Fields.uniformAlign false fs = true → Fields.defErr cfg fs = none →
  ∀ ctx vs, HasTysD cfg ctx vs fs → ∀ st sz sa offs, Fields.layout cfg false fs st = .ok (sz, sa, offs) → LIdle st fs →
  ∀ start pos, (∀ o, st.offset = some o → pos = start + o) →
    ∃ out bbF fl, writeFields cfg false fs offs vs start BitBuf.empty pos = .ok (out, bbF) ∧ flushBits cfg bbF = .ok fl

def WtPendD (cfg : Cfg) (fs : Fields) : Prop :=
  Fields.fragD cfg fs = true → Fields.uniformAlign false fs = true → Fields.defErr cfg fs = none →
  ∀ ctx vs, HasTysD cfg ctx vs fs → ∀ st sz sa offs, Fields.layout cfg false fs st = .ok (sz, sa, offs) →
  ∀ ft fsz k n bbW, Pend cfg st ft fsz k n bbW → ∀ start pos, (∀ o, st.offset = some o → pos + fsz = start + o) →
    ∃ out bbF fl, writeFields cfg false fs offs vs start bbW pos = .ok (out, bbF) ∧ flushBits cfg bbF = .ok fl

theorem wtD_bit_step (cfg : Cfg) (rest : Fields) (IHi : WtIdleD cfg rest) (IHp : WtPendD cfg rest)
    (hS : Fields.fragD cfg rest = true) (hU : Fields.uniformAlign false rest = true)
    (hD : Fields.defErr cfg rest = none) (ctx' : Ctx) (vs' : Vals)
    (hvs : HasTysD cfg ctx' vs' rest) (st1 : LState) (sz sa offs') (hlay : Fields.layout cfg false rest st1 = .ok (sz, sa, offs'))
    (ft : Scalar) (fsz k n w : Nat) (bb2 : BitBuf) (hi : Scalar.isInt ft = true) (hsz : ft.size = some fsz)
    (hbt : st1.bitsType = some ft) (hbr : st1.bitsRemaining = ((8 * fsz - (k + w) : Nat) : Int)) (hkw : k + w ≤ 8 * fsz)
    (hoff : st1.offset = st1.bitsFieldOffset.map (· + fsz)) (hty : bb2.ty = some ft)
    (hinv : WriteInv cfg.endian (8 * fsz) k n bb2) (hn : n < 2 ^ k) (i : Int) (hi0 : 0 ≤ i) (hi1 : i < 2 ^ w)
    (start pos : Nat) (hpos : ∀ o, st1.offset = some o → pos + fsz = start + o) :
    ∃ out bbF fl, putStep cfg rest offs' vs' start fsz i w bb2 pos = .ok (out, bbF) ∧ flushBits cfg bbF = .ok fl := by
  obtain ⟨m, rfl⟩ := Int.eq_ofNat_of_zero_le hi0
  have hm : m < 2 ^ w := by exact_mod_cast hi1
  obtain ⟨bb3, hput, hinv3⟩ := put_step cfg.endian fsz k n w m bb2 hinv hn hm hkw
  have hn3 := acc_lt cfg.endian k n m w hn hm
  have hty3 : bb3.ty = some ft := by rw [put_ty hput, hty]
  simp only [putStep, hput]
  by_cases hex : k + w = 8 * fsz
  · have hrem3 : bb3.remaining = 0 := by rw [hinv3.1]; omega
    obtain ⟨F, hfl3, hF, hrel⟩ := flush_pend cfg ft fsz (k + w) _ bb3 hty3 hsz hinv3 hn3 (by omega)
    have hl3 : (encBytes cfg.endian fsz F).length = fsz := encBytes_length _ _ _
    obtain ⟨o, bbF, fl, hw, hfl⟩ := IHi hS hU hD ctx' vs' hvs st1 sz sa offs' hlay
      (lidle_of_rem st1 (by rw [hbr]; omega) rest) start (pos + fsz) hpos
    refine ⟨encBytes cfg.endian fsz F ++ o, bbF, fl, ?_, hfl⟩
    simp only [hrem3, if_true, hfl3, Except.bind, hl3, hw]
  · have hrem3 : bb3.remaining ≠ 0 := by rw [hinv3.1]; omega
    have hP : Pend cfg st1 ft fsz (k + w) (acc cfg.endian k n m w) bb3 :=
      ⟨hi, hsz, hbt, hbr, by omega, hoff, hty3, hinv3, hn3⟩
    obtain ⟨o, bbF, fl, hw, hfl⟩ := IHp hS hU hD ctx' vs' hvs st1 sz sa offs' hlay ft fsz _ _ bb3 hP start pos hpos
    refine ⟨o, bbF, fl, ?_, hfl⟩
    simp only [hrem3, if_false, Except.bind, List.length_nil, Nat.add_zero, List.nil_append, hw]

theorem wtD_idle_nil (cfg : Cfg) : WtIdleD cfg .nil := by
  intro _ _ _ ctx vs hvs st sz sa offs hlay _ start pos _
  exact ⟨[], BitBuf.empty, [], writeFields_nil .., rfl⟩

theorem wtD_pend_nil (cfg : Cfg) : WtPendD cfg .nil := by
  intro _ _ _ ctx vs hvs st sz sa offs hlay ft fsz k n bbW hP start pos _
  obtain ⟨F, hfl, hF, hrel⟩ := flush_pend cfg ft fsz k n bbW hP.wty hP.size hP.winv hP.nlt (by have := hP.lt; omega)
  exact ⟨[], bbW, _, writeFields_nil .., hfl⟩

theorem wtD_idle_cons_nb (cfg : Cfg) (name an ty rest) (IHt : WtTyD cfg ty) (IHi : WtIdleD cfg rest) :
    WtIdleD cfg (.cons name an ty none rest) := by
  intro hS hU hD ctx vs hvs st sz sa offs hlay _ start pos hpos
  simp only [Fields.fragD, Bool.and_eq_true] at hS
  simp only [Fields.uniformAlign, Bool.and_eq_true] at hU
  obtain ⟨hD1, hD2⟩ := defErr_cons hD
  cases hvs with
  | @cons _ v vs' _ _ _ _ hv hvs' =>
  rw [layout_nb] at hlay
  obtain ⟨⟨sz', sa', offs'⟩, hlay', heq⟩ := bind_ok hlay
  simp only [Except.ok.injEq, Prod.mk.injEq] at heq
  obtain ⟨rfl, rfl, rfl⟩ := heq
  obtain ⟨body, hwb⟩ := IHt hS.1 hU.1 hD1 ctx v hv pos
  obtain ⟨hsize, _⟩ := rtD_ty cfg ty hS.1 hU.1 ctx v hv pos body hwb
  have hpos' : ∀ o', (stNb cfg ty st).offset = some o' → pos + body.length = start + o' := by
    intro o' ho'
    simp only [stNb] at ho'
    cases hso : st.offset with
    | none => rw [hso] at ho'; cases ho'
    | some o0 =>
      rw [hso] at ho'
      cases hk : ty.size cfg with
      | none => rw [hk] at ho'; cases ho'
      | some k =>
        rw [hk] at ho'
        simp only [Option.some.injEq] at ho'
        rw [hsize k hk, hpos o0 hso]; omega
  obtain ⟨out, bbF, fl, hw, hfl⟩ := IHi hS.2 hU.2 hD2 (ctx.set name v) vs' hvs' _ sz' sa' offs' hlay'
    (lidle_of_rem _ rfl rest) start _ hpos'
  refine ⟨body ++ out, bbF, fl, ?_, hfl⟩
  rw [writeFields_nb_idle cfg name an ty rest st.offset offs' v vs' start pos (fun fo h => (hpos fo h).symm), hwb]
  simp only [Except.bind, hw]

theorem wtD_idle_cons_bit (cfg : Cfg) (name an ty b rest) (IHi : WtIdleD cfg rest) (IHp : WtPendD cfg rest) :
    WtIdleD cfg (.cons name an ty (some (b + 1)) rest) := by
  intro hS hU hD ctx vs hvs st sz sa offs hlay hli start pos hpos
  simp only [Fields.fragD, Bool.and_eq_true] at hS
  simp only [Fields.uniformAlign, Bool.and_eq_true] at hU
  obtain ⟨_, hD2⟩ := defErr_cons hD
  obtain ⟨v, vs', rfl⟩ := hasTysD_cons_vals hvs
  obtain ⟨i, rfl, hi0, hi1, hvs'⟩ := hasTysD_bits hvs
  obtain ⟨ft, fsz, hbase, hint, hsz⟩ := bitOk_base ty hS.1
  have hnew : st.bitsRemaining = 0 ∨ some ft ≠ st.bitsType := by
    rcases hli with h | h
    · exact Or.inl h
    · rw [hbase] at h; exact Or.inr h
  rw [layout_bit_new cfg name an ty b rest st ft fsz hbase hsz hnew] at hlay
  split at hlay
  · cases hlay
  rename_i hfit
  obtain ⟨⟨sz', sa', offs'⟩, hlay', heq⟩ := bind_ok hlay
  simp only [Except.ok.injEq, Prod.mk.injEq] at heq
  obtain ⟨rfl, rfl, rfl⟩ := heq
  have h8 : fsz * 8 = 8 * fsz := Nat.mul_comm _ _
  have hpos' : ∀ o, (stNew cfg ty ft fsz (b + 1) st).offset = some o → pos + fsz = start + o := by
    intro o ho
    simp only [stNew] at ho
    cases hso : st.offset with
    | none => rw [hso] at ho; cases ho
    | some o0 =>
      rw [hso] at ho
      simp only [Option.map, Option.some.injEq] at ho
      rw [hpos o0 hso]; omega
  obtain ⟨out, bbF, fl, hw, hfl⟩ := wtD_bit_step cfg rest IHi IHp hS.2 hU.2 hD2 _ vs' hvs'
    (stNew cfg ty ft fsz (b + 1) st) sz' sa' offs' hlay' ft fsz 0 0 (b + 1)
    { ty := some ft, buffer := 0, remaining := fsz * 8 } hint hsz rfl
    (by simp only [stNew]; omega) (by omega) rfl rfl (by rw [h8]; exact writeInv_init _ _ _) (by simp) i hi0 hi1
    start pos hpos'
  refine ⟨out, bbF, fl, ?_, hfl⟩
  rw [writeFields_bit_idle cfg name an ty b rest st.offset offs' _ vs' start pos ft fsz i
    (fun fo h => (hpos fo h).symm) hbase hsz (bitVal_cases ty i), hw]

theorem wtD_pend_cons (cfg : Cfg) (name an ty bits rest) (Hidle : WtIdleD cfg (.cons name an ty bits rest))
    (IHi : WtIdleD cfg rest) (IHp : WtPendD cfg rest) : WtPendD cfg (.cons name an ty bits rest) := by
  intro hS hU hD ctx vs hvs st sz sa offs hlay ft fsz k n bbW hP start pos hpos
  obtain ⟨v, vs', rfl⟩ := hasTysD_cons_vals hvs
  by_cases hsame : isBitW bits = true ∧ ty.bitBase = some ft
  · obtain ⟨hb, hbase⟩ := hsame
    rcases bits with _ | _ | b
    · simp [isBitW] at hb
    · simp [isBitW] at hb
    simp only [Fields.fragD, Bool.and_eq_true] at hS
    simp only [Fields.uniformAlign, Bool.and_eq_true] at hU
    obtain ⟨_, hD2⟩ := defErr_cons hD
    obtain ⟨i, rfl, hi0, hi1, hvs'⟩ := hasTysD_bits hvs
    have hrem : st.bitsRemaining ≠ 0 := by rw [hP.lrem]; have := hP.lt; omega
    rw [layout_bit_cont cfg name an ty b rest st ft fsz hbase hP.size hrem hP.lty hP.loff] at hlay
    split at hlay
    · cases hlay
    rename_i hfit
    obtain ⟨⟨sz', sa', offs'⟩, hlay', heq⟩ := bind_ok hlay
    simp only [Except.ok.injEq, Prod.mk.injEq] at heq
    obtain ⟨rfl, rfl, rfl⟩ := heq
    have hwrem : bbW.remaining ≠ 0 := by rw [hP.winv.1]; have := hP.lt; omega
    rw [hP.lrem] at hfit
    obtain ⟨out, bbF, fl, hw, hfl⟩ := wtD_bit_step cfg rest IHi IHp hS.2 hU.2 hD2 _ vs' hvs'
      (stCont cfg ty (b + 1) st) sz' sa' offs' hlay' ft fsz k n (b + 1) bbW hP.isInt hP.size hP.lty
      (by simp only [stCont, hP.lrem]; omega) (by omega) hP.loff hP.wty hP.winv hP.nlt i hi0 hi1 start pos hpos
    refine ⟨out, bbF, fl, ?_, hfl⟩
    rw [writeFields_bit_cont cfg name an ty b rest none offs' _ vs' start _ ft fsz i bbW (fun fo h => by cases h) hbase
      hP.size (bitVal_cases ty i) hP.wty hwrem, hw]
  · have hne : isBitW bits = false ∨ ty.bitBase ≠ some ft := by
      by_cases h1 : isBitW bits = true
      · exact Or.inr (fun h2 => hsame ⟨h1, h2⟩)
      · exact Or.inl (by simpa using h1)
    obtain ⟨F, hfl0, hF, hrel⟩ := flush_pend cfg ft fsz k n bbW hP.wty hP.size hP.winv hP.nlt (by have := hP.lt; omega)
    have hl0 : (encBytes cfg.endian fsz F).length = fsz := encBytes_length _ _ _
    have hli : LIdle st (.cons name an ty bits rest) := by
      rcases bits with _ | _ | b
      · trivial
      · trivial
      · right
        rw [hP.lty]
        rcases hne with h | h
        · simp [isBitW] at h
        · exact h
    obtain ⟨o, bbF, fl, hw, hfl⟩ := Hidle hS hU hD ctx _ hvs st sz sa offs hlay hli start (pos + fsz) hpos
    refine ⟨encBytes cfg.endian fsz F ++ o, bbF, fl, ?_, hfl⟩
    rw [writeFields_flush cfg false name an ty bits rest offs v vs' start bbW _ ft hP.wty hne, hfl0]
    simp only [Except.bind, hl0, hw]

/-! ### Types -/

theorem wtD_of_WR {cfg : Cfg} {ty : Ty} {v : Val} {pos : Nat} (h : WR cfg ty v pos) : ∃ bs, write cfg ty v pos = .ok bs := by
  obtain ⟨bs, k, w, _⟩ := h
  exact ⟨bs, w⟩

theorem wtD_sc (cfg : Cfg) (s a) : WtTyD cfg (.sc s a) := by
  intro _ _ _ ctx v hv pos
  cases hv with
  | int h1 h2 => exact wtD_of_WR (wr_sc cfg s a _ (.int h1 h2) pos)
  | flt h1 => exact wtD_of_WR (wr_sc cfg _ a _ (.flt h1) pos)
  | char => exact wtD_of_WR (wr_sc cfg _ a _ .char pos)
  | void => exact wtD_of_WR (wr_sc cfg _ a _ .void pos)
  | @leb _ sg _ i hv =>
    refine ⟨lebWriteLoop sg i, ?_⟩
    rw [write_sc]
    simp only [writeScalar, lebWrite]
    rw [if_neg]
    intro ⟨h1, h2⟩
    cases sg with
    | true => exact h2 rfl
    | false => have := hv rfl; omega
  | @wchar _ _ u hu hs =>
    rw [write_sc]
    exact ⟨_, by simp only [writeScalar]; exact encodeWchar_ok cfg.endian [u] (utf16Ok_single u hs)⟩

theorem wtD_enum (cfg : Cfg) (b a f) : WtTyD cfg (.enum b a f) := by
  intro hS _ _ ctx v hv pos
  cases hv with
  | enum h1 => exact wtD_of_WR (wr_enum cfg b a f _ (by simpa only [Ty.fragD, Ty.fragS] using hS) (.enum h1) pos)

theorem wtD_ptr (cfg : Cfg) (t) : WtTyD cfg (.ptr t) := by
  intro hS _ _ ctx v hv pos
  cases hv with
  | ptr h1 => exact wtD_of_WR (wr_ptr cfg t _ (by simpa only [Ty.fragD, Ty.fragS] using hS) (.ptr h1) pos)

theorem wtD_N (cfg : Cfg) (ctx : Ctx) (e : Ty) (hE : WtTyD cfg e) (hS : e.fragD cfg = true)
    (hU : e.uniformAlign false = true) (hD : e.defErr cfg = none) :
    ∀ (n : Nat) (vs : Vals), HasTyND cfg ctx vs e n → ∀ pos, ∃ bs, writeN cfg e vs pos = .ok bs := by
  intro n
  induction n with
  | zero => intro vs h pos; cases h; exact ⟨[], writeN_nil cfg e pos⟩
  | succ n ih =>
    intro vs h pos
    cases h with
    | @cons _ v vs' _ _ h1 h2 =>
      obtain ⟨bs1, w1⟩ := hE hS hU hD ctx v h1 pos
      obtain ⟨bs2, w2⟩ := ih vs' h2 (pos + bs1.length)
      refine ⟨bs1 ++ bs2, ?_⟩
      rw [writeN_cons, w1]; simp only [Except.bind]; rw [w2]

theorem wtD_Z (cfg : Cfg) (ctx : Ctx) (e : Ty) (hE : WtTyD cfg e) (hS : e.fragD cfg = true)
    (hU : e.uniformAlign false = true) (hD : e.defErr cfg = none) :
    ∀ (vs : Vals), HasTyZD cfg ctx vs e → ∀ pos, ∃ bs, writeN cfg e vs pos = .ok bs
  | .nil, _, pos => ⟨[], writeN_nil cfg e pos⟩
  | .cons v vs', h, pos => by
    cases h with
    | cons h1 _ h2 =>
      obtain ⟨bs1, w1⟩ := hE hS hU hD ctx v h1 pos
      obtain ⟨bs2, w2⟩ := wtD_Z cfg ctx e hE hS hU hD vs' h2 (pos + bs1.length)
      refine ⟨bs1 ++ bs2, ?_⟩
      rw [writeN_cons, w1]; simp only [Except.bind]; rw [w2]

/-- appending the terminator keeps a UTF-16 string well-formed -/
theorem utf16Ok_snoc_zero : ∀ (n : Nat) (us : List Nat), us.length ≤ n → utf16Ok us = true → utf16Ok (us ++ [0]) = true := by
  intro n
  induction n with
  | zero =>
    intro us hl _
    cases us with
    | nil => decide
    | cons _ _ => simp at hl
  | succ n ih =>
    intro us hl h
    cases us with
    | nil => decide
    | cons u r =>
      simp only [List.cons_append]
      unfold utf16Ok at h ⊢
      by_cases hh : isHigh u = true
      · simp only [hh, if_true] at h ⊢
        cases r with
        | nil => simp at h
        | cons l r' =>
          simp only [List.cons_append, Bool.and_eq_true] at h ⊢
          exact ⟨h.1, ih r' (by simp only [List.length_cons] at hl; omega) h.2⟩
      · simp only [hh, if_false] at h ⊢
        by_cases hlo : isLow u = true
        · simp [hlo] at h
        · simp only [hlo, if_false] at h ⊢
          exact ih r (by simp only [List.length_cons] at hl; omega) h

/-- the terminator of a null-terminated array of integers / enums can always be written -/
theorem write_default (cfg : Cfg) (e : Ty) (hS : e.fragD cfg = true) (hN : e.nullElem = true)
    (hc : ∀ a, e ≠ .sc .char a) (hwc : ∀ a, e ≠ .sc .wchar a) (pos : Nat) :
    ∃ z, write cfg e (e.default cfg) pos = .ok z := by
  have hz : ∀ s, Scalar.intLike s = true → ∃ z, writeScalar cfg s (.int 0) = .ok z := by
    intro s hs
    cases s with
    | pint n sg =>
      obtain ⟨bs, k, h, _⟩ := int_wr cfg (.pint n sg) 0 rfl (intFits_zero _ rfl)
      exact ⟨bs, h⟩
    | aint n sg =>
      obtain ⟨bs, k, h, _⟩ := int_wr cfg (.aint n sg) 0 rfl (intFits_zero _ rfl)
      exact ⟨bs, h⟩
    | leb sg => exact ⟨_, by simp only [writeScalar, lebWrite]; rw [if_neg (by omega)]⟩
    | pflt n => simp [Scalar.intLike] at hs
    | char => simp [Scalar.intLike] at hs
    | wchar => simp [Scalar.intLike] at hs
    | void => simp [Scalar.intLike] at hs
  cases e with
  | sc s a =>
    have hs : Scalar.intLike s = true := by
      cases s <;> simp [Ty.nullElem] at hN <;> first | rfl | exact absurd rfl (hc a) | exact absurd rfl (hwc a)
    have hd : (Ty.sc s a).default cfg = .int 0 := by
      rw [Ty.default]; cases s <;> simp [Scalar.intLike] at hs <;> rfl
    rw [hd, write_sc]; exact hz s hs
  | enum b a f =>
    have hb : Scalar.isInt b = true := by simpa only [Ty.fragD] using hS
    have hs : Scalar.intLike b = true := by cases b <;> simp [Scalar.isInt] at hb <;> rfl
    have hd : (Ty.enum b a f).default cfg = .enum 0 := by rw [Ty.default]
    rw [hd, write_enum_enum]; exact hz b hs
  | ptr t => simp [Ty.nullElem] at hN
  | arr e' l => simp [Ty.nullElem] at hN
  | struct al fs => simp [Ty.nullElem] at hN
  | union al fs => simp [Ty.nullElem] at hN

theorem wtD_arr (cfg : Cfg) (e : Ty) (len : Len) (hE : WtTyD cfg e) : WtTyD cfg (.arr e len) := by
  intro hS hU hD ctx v hv pos
  simp only [Ty.fragD, Bool.and_eq_true] at hS
  simp only [Ty.uniformAlign] at hU
  simp only [Ty.defErr] at hD
  cases hv with
  | chars _ _ => exact ⟨_, write_arr_bytes ..⟩
  | @wchars _ a _ n us hcnt hl hu hok =>
    have hne := count_not_null hcnt
    rw [write_arr_wstr]
    cases len <;> first | exact ⟨_, encodeWchar_ok cfg.endian us hok⟩ | exact absurd rfl hne
  | @arr _ _ _ n vs hc hwc hcnt hN =>
    rw [write_arr_count cfg e len ctx n hcnt vs (hasTyND_length cfg ctx e n vs hN)]
    exact wtD_N cfg ctx e hE hS.2 hU hD n vs hN pos
  | chars0 _ => exact ⟨_, write_arr_bytes ..⟩
  | @wchars0 _ a us hnz hok =>
    rw [write_arr_wstr]
    exact ⟨_, encodeWchar_ok cfg.endian _ (utf16Ok_snoc_zero us.length us (Nat.le_refl _) hok)⟩
  | @arr0 _ _ vs hc hwc hZ =>
    rw [write_arr_null_list']
    obtain ⟨body, hb⟩ := wtD_Z cfg ctx e hE hS.2 hU hD vs hZ pos
    obtain ⟨z, hz⟩ := write_default cfg e hS.2 hS.1 hc hwc (pos + body.length)
    exact ⟨_, writeN_snoc_ok cfg e _ vs pos body z hb hz⟩

theorem wtD_struct (cfg : Cfg) (al : Bool) (fs : Fields) (hF : WtIdleD cfg fs) : WtTyD cfg (.struct al fs) := by
  intro hS hU hD ctx v hv pos
  simp only [Ty.fragD] at hS
  simp only [Ty.uniformAlign, Bool.and_eq_true, beq_iff_eq] at hU
  obtain ⟨rfl, hU⟩ := hU
  simp only [Ty.defErr] at hD
  split at hD
  · cases hD
  rename_i hfd
  split at hD
  · cases hD
  rename_i r hl
  obtain ⟨sz, sa, offs⟩ := r
  cases hv with
  | @struct _ _ _ vs hvs =>
  obtain ⟨out, bbF, fl, hw, hfl⟩ := hF hS hU hfd [] vs hvs LState.init sz sa offs hl (lidle_of_rem _ rfl fs) pos pos
    (by intro o ho; cases ho; rfl)
  refine ⟨out ++ fl, ?_⟩
  rw [write_struct]
  have : structLayout cfg false fs = .ok (sz, sa, offs) := hl
  rw [this]
  simp only [Except.bind, hw, hfl, Bool.false_eq_true, if_false]

theorem wtD_union (cfg : Cfg) (al fs) : WtTyD cfg (.union al fs) := by
  intro hS; simp [Ty.fragD] at hS

mutual
theorem wtD_ty (cfg : Cfg) : ∀ ty : Ty, WtTyD cfg ty
  | .sc s a => wtD_sc cfg s a
  | .enum b a f => wtD_enum cfg b a f
  | .ptr t => wtD_ptr cfg t
  | .arr e len => wtD_arr cfg e len (wtD_ty cfg e)
  | .struct al fs => wtD_struct cfg al fs (wtD_idle cfg fs)
  | .union al fs => wtD_union cfg al fs
theorem wtD_idle (cfg : Cfg) : ∀ fs : Fields, WtIdleD cfg fs
  | .nil => wtD_idle_nil cfg
  | .cons name an ty none rest => wtD_idle_cons_nb cfg name an ty rest (wtD_ty cfg ty) (wtD_idle cfg rest)
  | .cons _ _ _ (some 0) _ => fun hS => by simp [Fields.fragD] at hS
  | .cons name an ty (some (b + 1)) rest => wtD_idle_cons_bit cfg name an ty b rest (wtD_idle cfg rest) (wtD_pend cfg rest)
theorem wtD_pend (cfg : Cfg) : ∀ fs : Fields, WtPendD cfg fs
  | .nil => wtD_pend_nil cfg
  | .cons name an ty none rest =>
    wtD_pend_cons cfg name an ty none rest (wtD_idle_cons_nb cfg name an ty rest (wtD_ty cfg ty) (wtD_idle cfg rest))
      (wtD_idle cfg rest) (wtD_pend cfg rest)
  | .cons _ _ _ (some 0) _ => fun hS => by simp [Fields.fragD] at hS
  | .cons name an ty (some (b + 1)) rest =>
    wtD_pend_cons cfg name an ty (some (b + 1)) rest
      (wtD_idle_cons_bit cfg name an ty b rest (wtD_idle cfg rest) (wtD_pend cfg rest)) (wtD_idle cfg rest) (wtD_pend cfg rest)
end

end Cstruct.Core.Lemmas
