/-
  Helper lemmas for `Proofs/C03Compile.lean`, part 7: what a successful layout says about one member
  (`_calculate_size_and_offsets`, one iteration), the alignment of the structure, void members of a dynamic tail.
-/
import Proofs.Lemmas.C03CompileFlush

namespace Cstruct.Compiler
open Cstruct Cstruct.Core.Lemmas

theorem layout_offset_eq (al : Bool) (so : Option Nat) (fa : Nat) :
    (match so with
      | some o => if al = true then some (o + padNat o fa) else some o
      | none => none) = alignOpt al so fa := by
  cases so with
  | none => rfl
  | some o => cases al <;> rfl

/-- one iteration for a member without a bit width -/
theorem layout_plain (cfg : Cfg) (al : Bool) (n : String) (an : Bool) (ty : Ty) (bits : Option Nat) (rest : Fields)
    (st : LState) (sz : Option Nat) (sa : Nat) (offs : List (Option Nat)) (hb : isBitsField bits = false)
    (h : Fields.layout cfg al (.cons n an ty bits rest) st = .ok (sz, sa, offs)) :
    ∃ offs', offs = alignOpt al st.offset (ty.alignment cfg) :: offs' ∧
      Fields.layout cfg al rest ⟨addOpt (alignOpt al st.offset (ty.alignment cfg)) (ty.size cfg),
        max st.alignment (ty.alignment cfg), none, some 0, 0⟩ = .ok (sz, sa, offs') := by
  rw [Fields.layout] at h
  · cases hso : st.offset with
    | none =>
      simp only [hso] at h
      obtain ⟨offs', hr, rfl⟩ := C04.Lemmas.layout_step_inv h
      exact ⟨offs', rfl, hr⟩
    | some o =>
      cases al with
      | false =>
        cases hk : ty.size cfg with
        | none =>
          simp only [hso, hk, Bool.false_eq_true, if_false] at h
          obtain ⟨offs', hr, rfl⟩ := C04.Lemmas.layout_step_inv h
          exact ⟨offs', rfl, hr⟩
        | some k =>
          simp only [hso, hk, Bool.false_eq_true, if_false] at h
          obtain ⟨offs', hr, rfl⟩ := C04.Lemmas.layout_step_inv h
          exact ⟨offs', rfl, hr⟩
      | true =>
        cases hk : ty.size cfg with
        | none =>
          simp only [hso, hk, if_true] at h
          obtain ⟨offs', hr, rfl⟩ := C04.Lemmas.layout_step_inv h
          exact ⟨offs', rfl, hr⟩
        | some k =>
          simp only [hso, hk, if_true] at h
          obtain ⟨offs', hr, rfl⟩ := C04.Lemmas.layout_step_inv h
          exact ⟨offs', rfl, hr⟩
  · intro b hbb
    subst hbb
    simp [isBitsField] at hb

/-- the decision "this bit-field starts a new storage unit" of `_calculate_size_and_offsets` -/
def layoutThird (st : LState) (ft : Scalar) (offset : Option Nat) : Except Err Bool :=
  if st.bitsRemaining = 0 ∨ some ft ≠ st.bitsType then .ok true else
  match st.bitsType with
  | none => .ok false
  | some bt =>
    match offset, st.bitsFieldOffset, bt.size with
    | some o, some bfo, some bs => .ok (decide (o > bfo + bs))
    | some _, some _, none => .error .typeErr
    | _, _, _ => .ok false

/-- the bit-field branch of `Fields.layout`, with the aligned offset and the recursive call as parameters -/
def bitsBranch (cfg : Cfg) (ty : Ty) (b : Nat) (k : LState → Except Err (Option Nat × Nat × List (Option Nat)))
    (st : LState) (offset : Option Nat) : Except Err (Option Nat × Nat × List (Option Nat)) :=
  let fa := ty.alignment cfg
  let alignment := max st.alignment fa
  match ty.bitBase with
  | none => .error .typeErr
  | some ft =>
    match ft.size with
    | none => .error .typeErr
    | some fsz =>
      match layoutThird st ft offset with
      | .error e => .error e
      | .ok newUnit =>
        let (st1, foff) : LState × Option Nat :=
          if newUnit then
            ({ offset := offset.map (· + fsz), alignment := alignment, bitsType := some ft,
               bitsFieldOffset := offset, bitsRemaining := (fsz * 8 : Nat) }, offset)
          else ({ st with offset := offset, alignment := alignment }, none)
        let rem := st1.bitsRemaining - ((b + 1 : Nat) : Int)
        if rem < 0 then .error .value else
        match k { st1 with bitsRemaining := rem } with
        | .error e => .error e
        | .ok (sz, al, offs) => .ok (sz, al, foff :: offs)

theorem layout_eq_bitsBranch (cfg : Cfg) (al : Bool) (n : String) (an : Bool) (ty : Ty) (b : Nat) (rest : Fields)
    (st : LState) :
    Fields.layout cfg al (.cons n an ty (some (b + 1)) rest) st =
      bitsBranch cfg ty b (Fields.layout cfg al rest) st (alignOpt al st.offset (ty.alignment cfg)) := by
  rw [Fields.layout]
  cases st.offset <;> cases al <;> rfl

/-- what a successful iteration for a bit-field says -/
def BitsStep (cfg : Cfg) (al : Bool) (ty : Ty) (b : Nat) (rest : Fields) (st : LState) (sz : Option Nat) (sa : Nat)
    (offs : List (Option Nat)) (offset : Option Nat) : Prop :=
  ∃ ft fsz nu offs', ty.bitBase = some ft ∧ ft.size = some fsz ∧ layoutThird st ft offset = .ok nu ∧
    (nu = true →
      (0 : Int) ≤ ((fsz * 8 : Nat) : Int) - ((b + 1 : Nat) : Int) ∧ offs = offset :: offs' ∧
      Fields.layout cfg al rest ⟨offset.map (· + fsz), max st.alignment (ty.alignment cfg), some ft, offset,
        ((fsz * 8 : Nat) : Int) - ((b + 1 : Nat) : Int)⟩ = .ok (sz, sa, offs')) ∧
    (nu = false →
      (0 : Int) ≤ st.bitsRemaining - ((b + 1 : Nat) : Int) ∧ offs = none :: offs' ∧
      Fields.layout cfg al rest ⟨offset, max st.alignment (ty.alignment cfg), st.bitsType, st.bitsFieldOffset,
        st.bitsRemaining - ((b + 1 : Nat) : Int)⟩ = .ok (sz, sa, offs'))

theorem layout_bits (cfg : Cfg) (al : Bool) (n : String) (an : Bool) (ty : Ty) (b : Nat) (rest : Fields)
    (st : LState) (sz : Option Nat) (sa : Nat) (offs : List (Option Nat))
    (h : Fields.layout cfg al (.cons n an ty (some (b + 1)) rest) st = .ok (sz, sa, offs)) :
    BitsStep cfg al ty b rest st sz sa offs (alignOpt al st.offset (ty.alignment cfg)) := by
  rw [layout_eq_bitsBranch] at h
  generalize alignOpt al st.offset (ty.alignment cfg) = offset at h
  unfold bitsBranch at h
  simp only at h
  cases hb : ty.bitBase with
  | none => rw [hb] at h; cases h
  | some ft =>
    rw [hb] at h
    simp only at h
    cases hs : ft.size with
    | none => rw [hs] at h; cases h
    | some fsz =>
      rw [hs] at h
      simp only at h
      cases ht : layoutThird st ft offset with
      | error e => rw [ht] at h; cases h
      | ok nu =>
        rw [ht] at h
        simp only at h
        cases nu with
        | true =>
          simp only [if_true] at h
          split at h
          · cases h
          · rename_i hge
            obtain ⟨offs', hr, rfl⟩ := C04.Lemmas.layout_step_inv h
            exact ⟨ft, fsz, true, offs', rfl, hs, ht, (fun _ => ⟨by omega, rfl, hr⟩), (fun hc => by cases hc)⟩
        | false =>
          simp only [Bool.false_eq_true, if_false] at h
          split at h
          · cases h
          · rename_i hge
            obtain ⟨offs', hr, rfl⟩ := C04.Lemmas.layout_step_inv h
            exact ⟨ft, fsz, false, offs', rfl, hs, ht, (fun hc => by cases hc), (fun _ => ⟨by omega, rfl, hr⟩)⟩

end Cstruct.Compiler
