/-
  Helper lemmas for `Proofs/C03Compile.lean`, part 7: what a successful layout says about one member
  (`_calculate_size_and_offsets`, one iteration), the alignment of the structure, void members of a dynamic tail.
-/
import Proofs.Lemmas.C03CompileFlush

namespace Cstruct.Compiler
open Cstruct Cstruct.Core.Lemmas

theorem layout_offset_eq (al : Bool) (so : Option Nat) (fa : Nat) :
    (match so with
      | some o => if al = true then some (o + padNat o fa) else some o
      | none => none) = alignOpt al so fa := by
  cases so with
  | none => rfl
  | some o => cases al <;> rfl

/-- one iteration for a member without a bit width -/
theorem layout_plain (cfg : Cfg) (al : Bool) (n : String) (an : Bool) (ty : Ty) (bits : Option Nat) (rest : Fields)
    (st : LState) (sz : Option Nat) (sa : Nat) (offs : List (Option Nat)) (hb : isBitsField bits = false)
    (h : Fields.layout cfg al (.cons n an ty bits rest) st = .ok (sz, sa, offs)) :
    ∃ offs', offs = alignOpt al st.offset (ty.alignment cfg) :: offs' ∧
      Fields.layout cfg al rest ⟨addOpt (alignOpt al st.offset (ty.alignment cfg)) (ty.size cfg),
        max st.alignment (ty.alignment cfg), none, some 0, 0⟩ = .ok (sz, sa, offs') := by
  rw [Fields.layout] at h
  · cases hso : st.offset with
    | none =>
      simp only [hso] at h
      obtain ⟨offs', hr, rfl⟩ := C04.Lemmas.layout_step_inv h
      exact ⟨offs', rfl, hr⟩
    | some o =>
      cases al with
      | false =>
        cases hk : ty.size cfg with
        | none =>
          simp only [hso, hk, Bool.false_eq_true, if_false] at h
          obtain ⟨offs', hr, rfl⟩ := C04.Lemmas.layout_step_inv h
          exact ⟨offs', rfl, hr⟩
        | some k =>
          simp only [hso, hk, Bool.false_eq_true, if_false] at h
          obtain ⟨offs', hr, rfl⟩ := C04.Lemmas.layout_step_inv h
          exact ⟨offs', rfl, hr⟩
      | true =>
        cases hk : ty.size cfg with
        | none =>
          simp only [hso, hk, if_true] at h
          obtain ⟨offs', hr, rfl⟩ := C04.Lemmas.layout_step_inv h
          exact ⟨offs', rfl, hr⟩
        | some k =>
          simp only [hso, hk, if_true] at h
          obtain ⟨offs', hr, rfl⟩ := C04.Lemmas.layout_step_inv h
          exact ⟨offs', rfl, hr⟩
  · intro b hbb
    subst hbb
    simp [isBitsField] at hb

/-- the decision "this bit-field starts a new storage unit" of `_calculate_size_and_offsets` -/
def layoutThird (st : LState) (ft : Scalar) (offset : Option Nat) : Except Err Bool :=
  if st.bitsRemaining = 0 ∨ some ft ≠ st.bitsType then .ok true else
  match st.bitsType with
  | none => .ok false
  | some bt =>
    match offset, st.bitsFieldOffset, bt.size with
    | some o, some bfo, some bs => .ok (decide (o > bfo + bs))
    | some _, some _, none => .error .typeErr
    | _, _, _ => .ok false

/-- the bit-field branch of `Fields.layout`, with the aligned offset and the recursive call as parameters -/
def bitsBranch (cfg : Cfg) (ty : Ty) (b : Nat) (k : LState → Except Err (Option Nat × Nat × List (Option Nat)))
    (st : LState) (offset : Option Nat) : Except Err (Option Nat × Nat × List (Option Nat)) :=
  let fa := ty.alignment cfg
  let alignment := max st.alignment fa
  match ty.bitBase with
  | none => .error .typeErr
  | some ft =>
    match ft.size with
    | none => .error .typeErr
    | some fsz =>
      match layoutThird st ft offset with
      | .error e => .error e
      | .ok newUnit =>
        let (st1, foff) : LState × Option Nat :=
          if newUnit then
            ({ offset := offset.map (· + fsz), alignment := alignment, bitsType := some ft,
               bitsFieldOffset := offset, bitsRemaining := (fsz * 8 : Nat) }, offset)
          else ({ st with offset := offset, alignment := alignment }, none)
        let rem := st1.bitsRemaining - ((b + 1 : Nat) : Int)
        if rem < 0 then .error .value else
        match k { st1 with bitsRemaining := rem } with
        | .error e => .error e
        | .ok (sz, al, offs) => .ok (sz, al, foff :: offs)

theorem layout_eq_bitsBranch (cfg : Cfg) (al : Bool) (n : String) (an : Bool) (ty : Ty) (b : Nat) (rest : Fields)
    (st : LState) :
    Fields.layout cfg al (.cons n an ty (some (b + 1)) rest) st =
      bitsBranch cfg ty b (Fields.layout cfg al rest) st (alignOpt al st.offset (ty.alignment cfg)) := by
  rw [Fields.layout]
  cases st.offset <;> cases al <;> rfl

/-- what a successful iteration for a bit-field says -/
def BitsStep (cfg : Cfg) (al : Bool) (ty : Ty) (b : Nat) (rest : Fields) (st : LState) (sz : Option Nat) (sa : Nat)
    (offs : List (Option Nat)) (offset : Option Nat) : Prop :=
  ∃ ft fsz nu offs', ty.bitBase = some ft ∧ ft.size = some fsz ∧ layoutThird st ft offset = .ok nu ∧
    (nu = true →
      (0 : Int) ≤ ((fsz * 8 : Nat) : Int) - ((b + 1 : Nat) : Int) ∧ offs = offset :: offs' ∧
      Fields.layout cfg al rest ⟨offset.map (· + fsz), max st.alignment (ty.alignment cfg), some ft, offset,
        ((fsz * 8 : Nat) : Int) - ((b + 1 : Nat) : Int)⟩ = .ok (sz, sa, offs')) ∧
    (nu = false →
      (0 : Int) ≤ st.bitsRemaining - ((b + 1 : Nat) : Int) ∧ offs = none :: offs' ∧
      Fields.layout cfg al rest ⟨offset, max st.alignment (ty.alignment cfg), st.bitsType, st.bitsFieldOffset,
        st.bitsRemaining - ((b + 1 : Nat) : Int)⟩ = .ok (sz, sa, offs'))

theorem layout_bits (cfg : Cfg) (al : Bool) (n : String) (an : Bool) (ty : Ty) (b : Nat) (rest : Fields)
    (st : LState) (sz : Option Nat) (sa : Nat) (offs : List (Option Nat))
    (h : Fields.layout cfg al (.cons n an ty (some (b + 1)) rest) st = .ok (sz, sa, offs)) :
    BitsStep cfg al ty b rest st sz sa offs (alignOpt al st.offset (ty.alignment cfg)) := by
  rw [layout_eq_bitsBranch] at h
  generalize alignOpt al st.offset (ty.alignment cfg) = offset at h
  unfold bitsBranch at h
  simp only at h
  cases hb : ty.bitBase with
  | none => rw [hb] at h; cases h
  | some ft =>
    rw [hb] at h
    simp only at h
    cases hs : ft.size with
    | none => rw [hs] at h; cases h
    | some fsz =>
      rw [hs] at h
      simp only at h
      cases ht : layoutThird st ft offset with
      | error e => rw [ht] at h; cases h
      | ok nu =>
        rw [ht] at h
        simp only at h
        cases nu with
        | true =>
          simp only [if_true] at h
          split at h
          · cases h
          · rename_i hge
            obtain ⟨offs', hr, rfl⟩ := C04.Lemmas.layout_step_inv h
            exact ⟨ft, fsz, true, offs', hb, hs, ht, (fun _ => ⟨by omega, rfl, hr⟩), (fun hc => by cases hc)⟩
        | false =>
          simp only [Bool.false_eq_true, if_false] at h
          split at h
          · cases h
          · rename_i hge
            obtain ⟨offs', hr, rfl⟩ := C04.Lemmas.layout_step_inv h
            exact ⟨ft, fsz, false, offs', hb, hs, ht, (fun hc => by cases hc), (fun _ => ⟨by omega, rfl, hr⟩)⟩

/-! ### the alignment of the structure -/

/-- in an aligned structure the alignment of every member divides the alignment of the structure -/
def AlignDvd (cfg : Cfg) (al : Bool) (salign : Nat) : Fields → Prop
  | .nil => True
  | .cons _ _ ty _ rest => (al = true → ty.alignment cfg ∣ salign) ∧ AlignDvd cfg al salign rest

def AllP2 (cfg : Cfg) : Fields → Prop
  | .nil => True
  | .cons _ _ ty _ rest => IsP2 (ty.alignment cfg) ∧ AllP2 cfg rest

theorem layout_alignDvd (cfg : Cfg) (al : Bool) : ∀ (fs : Fields) (st : LState) (sz : Option Nat) (sa : Nat)
    (offs : List (Option Nat)), Fields.layout cfg al fs st = .ok (sz, sa, offs) →
    (st.alignment = 0 ∨ IsP2 st.alignment) → AllP2 cfg fs →
    (st.alignment = 0 ∨ st.alignment ∣ sa) ∧ AlignDvd cfg al sa fs
  | .nil, st, sz, sa, offs, h, _, _ => by
    rw [Fields.layout] at h
    simp only [Except.ok.injEq, Prod.mk.injEq] at h
    obtain ⟨_, rfl, _⟩ := h
    exact ⟨Or.inr (Nat.dvd_refl _), trivial⟩
  | .cons n an ty bits rest, st, sz, sa, offs, h, hst, hp2 => by
    obtain ⟨hfa, hrest⟩ := hp2
    have key : ∀ st' : LState, st'.alignment = max st.alignment (ty.alignment cfg) →
        ∀ offs', Fields.layout cfg al rest st' = .ok (sz, sa, offs') →
        (st.alignment = 0 ∨ st.alignment ∣ sa) ∧ AlignDvd cfg al sa (.cons n an ty bits rest) := by
      intro st' hal offs' hr
      have hmax : IsP2 (max st.alignment (ty.alignment cfg)) := isP2_max hfa hst
      obtain ⟨h1, h2⟩ := layout_alignDvd cfg al rest st' sz sa offs' hr (by rw [hal]; exact Or.inr hmax) hrest
      have hd : max st.alignment (ty.alignment cfg) ∣ sa := by
        rw [hal] at h1
        rcases h1 with h1 | h1
        · have := hmax.pos; omega
        · exact h1
      refine ⟨?_, fun _ => Nat.dvd_trans (dvd_max_right hfa hst) hd, h2⟩
      rcases hst with h0 | hp
      · exact Or.inl h0
      · exact Or.inr (Nat.dvd_trans (dvd_max_left hfa hp) hd)
    by_cases hb : isBitsField bits = false
    · obtain ⟨offs', _, hr⟩ := layout_plain cfg al n an ty bits rest st sz sa offs hb h
      exact key _ rfl offs' hr
    · obtain ⟨b, rfl⟩ : ∃ b, bits = some (b + 1) := by
        cases bits with
        | none => simp [isBitsField] at hb
        | some k =>
          cases k with
          | zero => simp [isBitsField] at hb
          | succ b => exact ⟨b, rfl⟩
      obtain ⟨ft, fsz, nu, offs', _, _, _, h1, h2⟩ := layout_bits cfg al n an ty b rest st sz sa offs h
      cases nu with
      | true => exact key _ rfl offs' (h1 rfl).2.2
      | false => exact key _ rfl offs' (h2 rfl).2.2

/-! ### compileWF, member by member -/

theorem compileWF_cons {cfg : Cfg} {al : Bool} {n : String} {an : Bool} {ty : Ty} {bits : Option Nat} {rest : Fields}
    (h : compileWF cfg al (.cons n an ty bits rest) = true) :
    memberWF cfg al ty bits = true ∧ (isVoid ty = true → bits = none → n ∉ Fields.names rest) ∧
      compileWF cfg al rest = true := by
  simp only [compileWF, Bool.and_eq_true, Bool.or_eq_true, Bool.not_eq_true', Bool.and_eq_false_iff] at h
  obtain ⟨⟨h1, h2⟩, h3⟩ := h
  refine ⟨h1, fun hv hb => ?_, h3⟩
  subst hb
  rcases h2 with (h2 | h2) | h2
  · rw [hv] at h2; cases h2
  · simp at h2
  · intro hmem
    have : (Fields.names rest).contains n = true := List.contains_iff_mem.mpr hmem
    rw [this] at h2
    cases h2

theorem memberWF_bits_ne {cfg : Cfg} {al : Bool} {ty : Ty} {bits : Option Nat} (h : memberWF cfg al ty bits = true) :
    bits ≠ some 0 := by
  simp only [memberWF, Bool.and_eq_true, bne_iff_ne, ne_eq] at h
  exact h.1.1.1.1

theorem memberWF_p2 {cfg : Cfg} {al : Bool} {ty : Ty} {bits : Option Nat} (h : memberWF cfg al ty bits = true)
    (hal : al = true) : IsP2 (ty.alignment cfg) := by
  simp only [memberWF, Bool.and_eq_true, Bool.or_eq_true, Bool.not_eq_true'] at h
  rcases h.1.1.1.2 with h | h
  · rw [hal] at h; cases h
  · exact isPow2b_spec h

theorem memberWF_void {cfg : Cfg} {al : Bool} {ty : Ty} {bits : Option Nat} (h : memberWF cfg al ty bits = true)
    (hv : isVoid ty = true) : (!al || ty.alignment cfg == 1) = true := by
  simp only [memberWF, Bool.and_eq_true, Bool.or_eq_true, Bool.not_eq_true', beq_iff_eq] at h
  rcases h.1.1.2 with (h | h) | h
  · simp [h]
  · rw [hv] at h; cases h
  · simp [h]

theorem compileWF_allP2 (cfg : Cfg) : ∀ fs : Fields, compileWF cfg true fs = true → AllP2 cfg fs
  | .nil, _ => trivial
  | .cons _ _ _ _ rest, h => by
    obtain ⟨h1, _, h3⟩ := compileWF_cons h
    exact ⟨memberWF_p2 h1 rfl, compileWF_allP2 cfg rest h3⟩

theorem alignDvd_false (cfg : Cfg) (sa : Nat) : ∀ fs : Fields, AlignDvd cfg false sa fs
  | .nil => trivial
  | .cons _ _ _ _ rest => ⟨(fun h => by cases h), alignDvd_false cfg sa rest⟩

/-! ### void members of a dynamic tail -/

theorem dropVoids_dyn (cfg : Cfg) (al : Bool) : ∀ (fs : Fields) (st : LState) (sz : Option Nat) (sa : Nat)
    (offs : List (Option Nat)), Fields.layout cfg al fs st = .ok (sz, sa, offs) → st.offset = none →
    compileWF cfg al fs = true → ∃ r, dropVoids cfg al fs offs none = some r
  | .nil, _, _, _, offs, _, _, _ => ⟨_, dropVoids_nil cfg al offs none⟩
  | .cons n an ty bits rest, st, sz, sa, offs, h, hst, hwf => by
    by_cases hv : isVoid ty = true ∧ bits.isNone = true
    · obtain ⟨hv1, hv2⟩ := hv
      have hb : bits = none := Option.isNone_iff_eq_none.mp hv2
      subst hb
      obtain ⟨hm, _, hrest⟩ := compileWF_cons hwf
      obtain ⟨offs', rfl, hr⟩ := layout_plain cfg al n an ty none rest st sz sa offs rfl h
      rw [hst] at hr ⊢
      obtain ⟨r, hr'⟩ := dropVoids_dyn cfg al rest _ sz sa offs' hr rfl hrest
      obtain ⟨a, b, c⟩ := r
      refine ⟨(a, b, true), ?_⟩
      rw [dropVoids_void _ _ _ _ _ _ _ _ hv1]
      have : voidOK cfg al ty (hdOff (alignOpt al none (ty.alignment cfg) :: offs')) none = true := memberWF_void hm hv1
      rw [if_pos this, List.drop_one, List.tail_cons, hr']
    · exact ⟨_, dropVoids_nonvoid _ _ _ _ _ _ _ _ _ hv⟩

end Cstruct.Compiler
