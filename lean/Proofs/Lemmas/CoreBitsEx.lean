/-
  Non-vacuity material for `Proofs/CoreBits.lean`: a concrete packed structure with two bit-field runs of different
  storage types (one signed) and the step-by-step evaluation of `write` on a concrete value. (`write` is defined by
  well-founded recursion, so `decide` cannot evaluate it; the unfolding lemmas of `CoreBitsUnfold.lean` are applied member
  by member, the bit arithmetic of each step is evaluated by `decide +kernel`.)
-/
import Proofs.Lemmas.CoreBitsWT
namespace Cstruct.Core.Ex
open Cstruct Cstruct.Core.Lemmas
set_option linter.unusedSimpArgs false

def cfgL : Cfg := { endian := .little, ptr := .pint 4 false, ptrAlign := 4, consts := [] }
def i8 : Ty := .sc (.pint 1 true) 1
def u16 : Ty := .sc (.pint 2 false) 2
def u8 : Ty := .sc (.pint 1 false) 1
def fsE : Fields := .cons "e" false u8 none .nil
def fsD : Fields := .cons "d" false u16 (some 12) fsE
def fsC : Fields := .cons "c" false u16 (some 4) fsD
def fsB : Fields := .cons "b" false i8 (some 5) fsC
/-- `struct { int8 a:3; int8 b:5; uint16 c:4; uint16 d:12; uint8 e; }` -/
def fsA : Fields := .cons "a" false i8 (some 3) fsB
def tyA : Ty := .struct false fsA
def vsE : Vals := .cons (.int 7) .nil
def vsD : Vals := .cons (.int 0xABC) vsE
def vsC : Vals := .cons (.int 9) vsD
def vsB : Vals := .cons (.int 31) vsC
def vsA : Vals := .cons (.int 5) vsB

theorem exE : writeFields cfgL false fsE [some 3] vsE 0 BitBuf.empty 3 = .ok ([7], BitBuf.empty) := by
  rw [fsE, vsE, writeFields_nb_idle cfgL _ _ _ _ _ _ _ _ 0 3 (by decide), u8, write_sc]
  have : writeScalar cfgL (.pint 1 false) (.int 7) = .ok [7] := by decide +kernel
  rw [this]
  simp only [Except.bind, writeFields_nil]
  rfl

theorem exD : writeFields cfgL false fsD [none, some 3] vsD 0
    { ty := some (.pint 2 false), buffer := 9, remaining := 12 } 1 = .ok ([201, 171, 7], BitBuf.empty) := by
  rw [fsD, vsD, writeFields_bit_cont cfgL _ _ _ _ _ _ _ _ _ 0 1 (.pint 2 false) 2 0xABC _ (by decide) rfl rfl (Or.inl rfl)
    rfl (by decide), putStep]
  have p : BitBuf.put cfgL.endian { ty := some (.pint 2 false), buffer := 9, remaining := 12 } 2 0xABC (11 + 1) =
      some { ty := some (.pint 2 false), buffer := 0xABC9, remaining := 0 } := by decide +kernel
  have f : flushBits cfgL { ty := some (.pint 2 false), buffer := 0xABC9, remaining := 0 } = .ok [201, 171] := by
    decide +kernel
  rw [p]
  simp only [if_true, f, Except.bind, List.length_cons, List.length_nil, Nat.zero_add, Nat.reduceAdd, exE]
  rfl

theorem exC : writeFields cfgL false fsC [some 1, none, some 3] vsC 0 BitBuf.empty 1 =
    .ok ([201, 171, 7], BitBuf.empty) := by
  rw [fsC, vsC, writeFields_bit_idle cfgL _ _ _ _ _ _ _ _ _ 0 1 (.pint 2 false) 2 9 (by decide) rfl rfl (Or.inl rfl), putStep]
  have p : BitBuf.put cfgL.endian { ty := some (.pint 2 false), buffer := 0, remaining := 2 * 8 } 2 9 (3 + 1) =
      some { ty := some (.pint 2 false), buffer := 9, remaining := 12 } := by decide +kernel
  rw [p]
  simp only [Nat.succ_ne_zero, if_false, Except.bind, List.length_nil, Nat.add_zero, exD]
  rfl

theorem exB : writeFields cfgL false fsB [none, some 1, none, some 3] vsB 0
    { ty := some (.pint 1 true), buffer := 5, remaining := 5 } 0 = .ok ([253, 201, 171, 7], BitBuf.empty) := by
  rw [fsB, vsB, writeFields_bit_cont cfgL _ _ _ _ _ _ _ _ _ 0 0 (.pint 1 true) 1 31 _ (by decide) rfl rfl (Or.inl rfl)
    rfl (by decide), putStep]
  have p : BitBuf.put cfgL.endian { ty := some (.pint 1 true), buffer := 5, remaining := 5 } 1 31 (4 + 1) =
      some { ty := some (.pint 1 true), buffer := 253, remaining := 0 } := by decide +kernel
  have f : flushBits cfgL { ty := some (.pint 1 true), buffer := 253, remaining := 0 } = .ok [253] := by decide +kernel
  rw [p]
  simp only [if_true, f, Except.bind, List.length_cons, List.length_nil, Nat.zero_add, Nat.reduceAdd, exC]
  rfl

theorem exA : writeFields cfgL false fsA [some 0, none, some 1, none, some 3] vsA 0 BitBuf.empty 0 =
    .ok ([253, 201, 171, 7], BitBuf.empty) := by
  rw [fsA, vsA, writeFields_bit_idle cfgL _ _ _ _ _ _ _ _ _ 0 0 (.pint 1 true) 1 5 (by decide) rfl rfl (Or.inl rfl), putStep]
  have p : BitBuf.put cfgL.endian { ty := some (.pint 1 true), buffer := 0, remaining := 1 * 8 } 1 5 (2 + 1) =
      some { ty := some (.pint 1 true), buffer := 5, remaining := 5 } := by decide +kernel
  rw [p]
  simp only [Nat.succ_ne_zero, if_false, Except.bind, List.length_nil, Nat.add_zero, exB]
  rfl

theorem ex_write : write cfgL tyA (.record vsA) 0 = .ok [253, 201, 171, 7] := by
  have hl : structLayout cfgL false fsA = .ok (some 4, 2, [some 0, none, some 1, none, some 3]) := by decide +kernel
  rw [tyA, write_struct, hl]
  simp only [Except.bind, exA]
  rfl

end Cstruct.Core.Ex
