/-
  Helper lemmas for `Proofs/C09Shift.lean`: position independence of the readers with respect to a prefix of the input.
  Every reader function `f` satisfies `f (pre ++ d) (|pre| + pos) = shift |pre| (f d pos)`; the mutual induction over
  `read`/`readFields` is `shift_ty`/`shift_fields`.
-/
import Proofs.Core
namespace Cstruct.C09.Lemmas
open Cstruct Cstruct.Core Cstruct.Core.Lemmas

/-! ### Shifting results -/

/-- apply `g` to a successful result -/
def shiftWith {α : Type} (g : α → α) : Except Err α → Except Err α
  | .ok a => .ok (g a)
  | .error e => .error e

/-- shift the position of a `(value, position)` result -/
def sh2 {α : Type} (k : Nat) : α × Nat → α × Nat := fun r => (r.1, k + r.2)

/-- shift the position of a `(values, sizes, position)` result -/
def sh3 {α β : Type} (k : Nat) : α × β × Nat → α × β × Nat := fun r => (r.1, r.2.1, k + r.2.2)

theorem bind_shiftWith {α β : Type} {g : α → α} {g' : β → β} {x' x : Except Err α} {f' f : α → Except Err β}
    (hx : x' = shiftWith g x) (hf : ∀ a, f' (g a) = shiftWith g' (f a)) :
    x'.bind f' = shiftWith g' (x.bind f) := by
  subst hx
  cases x with
  | error e => rfl
  | ok a => exact hf a

theorem map_shiftWith {α β : Type} {g : α → α} {g' : β → β} {x' x : Except Err α} {f' f : α → β}
    (hx : x' = shiftWith g x) (hf : ∀ a, f' (g a) = g' (f a)) :
    x'.map f' = shiftWith g' (x.map f) := by
  subst hx
  cases x with
  | error e => rfl
  | ok a => simp only [shiftWith, Except.map, hf]

/-! ### Primitives -/

theorem drop_shift (pre d : Bytes) (pos : Nat) : (pre ++ d).drop (pre.length + pos) = d.drop pos := by
  rw [List.drop_append, List.drop_eq_nil_of_le (by omega), Nat.add_sub_cancel_left, List.nil_append]

theorem sread_shift (pre d : Bytes) (pos n : Nat) : sread (pre ++ d) (pre.length + pos) n = sread d pos n := by
  unfold sread; rw [drop_shift]

theorem readExact_shift (pre d : Bytes) (pos n : Nat) :
    readExact (pre ++ d) (pre.length + pos) n = shiftWith (sh2 pre.length) (readExact d pos n) := by
  unfold readExact
  simp only [sread_shift]
  split
  · rfl
  · simp only [shiftWith, sh2, Nat.add_assoc]

theorem readScalar_shift (cfg : Cfg) (s : Scalar) (pre d : Bytes) (pos : Nat) :
    readScalar cfg s (pre ++ d) (pre.length + pos) = shiftWith (sh2 pre.length) (readScalar cfg s d pos) := by
  cases s with
  | pint n sg =>
    simp only [readScalar, bind, pure]
    exact bind_shiftWith (readExact_shift pre d pos n) (fun _ => rfl)
  | pflt n =>
    simp only [readScalar, bind, pure]
    exact bind_shiftWith (readExact_shift pre d pos n) (fun _ => rfl)
  | aint n sg =>
    simp only [readScalar, bind, pure]
    exact bind_shiftWith (readExact_shift pre d pos n) (fun _ => rfl)
  | char =>
    simp only [readScalar, bind, pure]
    exact bind_shiftWith (readExact_shift pre d pos 1) (fun _ => rfl)
  | wchar =>
    simp only [readScalar, bind, pure]
    refine bind_shiftWith (readExact_shift pre d pos 2) (fun a => ?_)
    obtain ⟨bs, p⟩ := a
    simp only [sh2]
    cases decodeWchar cfg.endian bs <;> rfl
  | void => rfl
  | leb sg =>
    simp only [readScalar, drop_shift]
    cases hl : lebRead sg (d.drop pos) with
    | error e => rfl
    | ok vr =>
      obtain ⟨v, rest⟩ := vr
      have h2 := (lebRead_append sg _ [] v rest hl).2
      simp only [List.length_drop] at h2
      simp only [shiftWith, sh2, List.length_append]
      congr 2
      omega

theorem readScalarArray_shift (cfg : Cfg) (s : Scalar) (n : Nat) (pre d : Bytes) (pos : Nat) :
    readScalarArray cfg s n (pre ++ d) (pre.length + pos) =
      (readScalarArray cfg s n d pos).map (shiftWith (sh2 pre.length)) := by
  cases s with
  | pint k sg =>
    simp only [readScalarArray, bind, pure, Option.map_some]
    exact congrArg some (bind_shiftWith (readExact_shift pre d pos _) (fun _ => rfl))
  | pflt k =>
    simp only [readScalarArray, bind, pure, Option.map_some]
    exact congrArg some (bind_shiftWith (readExact_shift pre d pos _) (fun _ => rfl))
  | char =>
    simp only [readScalarArray, bind, pure, Option.map_some]
    congr 1
    split
    · rfl
    · exact bind_shiftWith (readExact_shift pre d pos _) (fun _ => rfl)
  | wchar =>
    simp only [readScalarArray, bind, pure, Option.map_some]
    congr 1
    split
    · rfl
    · refine bind_shiftWith (readExact_shift pre d pos _) (fun a => ?_)
      obtain ⟨bs, p⟩ := a
      simp only [sh2]
      cases decodeWchar cfg.endian bs <;> rfl
  | aint k sg => simp [readScalarArray]
  | leb sg => simp [readScalarArray]
  | void => simp [readScalarArray]

theorem ite_shift {α : Type} {c : Prop} [Decidable c] {g : α → α} {A' A B' B : Except Err α}
    (hA : A' = shiftWith g A) (hB : B' = shiftWith g B) :
    (if c then A' else B') = shiftWith g (if c then A else B) := by
  split <;> assumption

theorem readScalar0_shift (cfg : Cfg) (s : Scalar) (pre d : Bytes) :
    ∀ (fuel pos : Nat) (acc : List Val), readScalar0 cfg s (pre ++ d) fuel (pre.length + pos) acc =
      shiftWith (sh2 pre.length) (readScalar0 cfg s d fuel pos acc) := by
  intro fuel
  induction fuel with
  | zero => intro pos acc; simp only [readScalar0]; rfl
  | succ f ih =>
    intro pos acc
    cases s with
    | void => simp only [readScalar0]; rfl
    | char =>
      simp only [readScalar0, readExact_shift]
      cases readExact d pos 1 with
      | error e => rfl
      | ok bp =>
        obtain ⟨bs, p⟩ := bp
        simp only [shiftWith, sh2]
        exact ite_shift rfl (ih _ _)
    | wchar =>
      simp only [readScalar0, readExact_shift]
      cases readExact d pos 2 with
      | error e => rfl
      | ok bp =>
        obtain ⟨bs, p⟩ := bp
        simp only [shiftWith, sh2]
        exact ite_shift rfl (ih _ _)
    | pint k sg =>
      simp only [readScalar0, readScalar_shift]
      cases readScalar cfg (.pint k sg) d pos with
      | error e => rfl
      | ok bp =>
        obtain ⟨v, p⟩ := bp
        simp only [shiftWith, sh2]
        exact ite_shift rfl (ih _ _)
    | pflt k =>
      simp only [readScalar0, readScalar_shift]
      cases readScalar cfg (.pflt k) d pos with
      | error e => rfl
      | ok bp =>
        obtain ⟨v, p⟩ := bp
        simp only [shiftWith, sh2]
        exact ite_shift rfl (ih _ _)
    | aint k sg =>
      simp only [readScalar0, readScalar_shift]
      cases readScalar cfg (.aint k sg) d pos with
      | error e => rfl
      | ok bp =>
        obtain ⟨v, p⟩ := bp
        simp only [shiftWith, sh2]
        exact ite_shift rfl (ih _ _)
    | leb sg =>
      simp only [readScalar0, readScalar_shift]
      cases readScalar cfg (.leb sg) d pos with
      | error e => rfl
      | ok bp =>
        obtain ⟨v, p⟩ := bp
        simp only [shiftWith, sh2]
        exact ite_shift rfl (ih _ _)

theorem readScalarNullTerm_shift (cfg : Cfg) (s : Scalar) (pre d : Bytes) (pos : Nat) :
    readScalarNullTerm cfg s (pre ++ d) (pre.length + pos) =
      shiftWith (sh2 pre.length) (readScalarNullTerm cfg s d pos) := by
  unfold readScalarNullTerm
  have hf : (pre ++ d).length - (pre.length + pos) + 2 = d.length - pos + 2 := by
    rw [List.length_append]; omega
  rw [hf, readScalar0_shift]
  cases readScalar0 cfg s d (d.length - pos + 2) pos [] with
  | error e => rfl
  | ok vp =>
    obtain ⟨vs, p⟩ := vp
    simp only [shiftWith, sh2]
    cases s with
    | wchar =>
      simp only []
      cases decodeWchar cfg.endian (joinBytes vs) <;> rfl
    | _ => rfl

/-! ### The recursive readers, given the element -/

theorem wrapInt_shift (f : Int → Val) (k : Nat) (x : Except Err (Val × Nat)) :
    wrapInt f (shiftWith (sh2 k) x) = shiftWith (sh2 k) (wrapInt f x) := by
  cases x with
  | error e => rfl
  | ok vp =>
    obtain ⟨v, p⟩ := vp
    cases v <;> rfl

/-- the element type reads position-independently -/
def ReadSh (cfg : Cfg) (e : Ty) (pre d : Bytes) : Prop :=
  ∀ ctx pos, read cfg e ctx (pre ++ d) (pre.length + pos) = shiftWith (sh2 pre.length) (read cfg e ctx d pos)

theorem readSh_sc (cfg : Cfg) (s a) (pre d : Bytes) : ReadSh cfg (.sc s a) pre d := by
  intro ctx pos
  rw [read_sc, read_sc]; exact readScalar_shift cfg s pre d pos

theorem readSh_enum (cfg : Cfg) (b a f) (pre d : Bytes) : ReadSh cfg (.enum b a f) pre d := by
  intro ctx pos
  rw [read_enum, read_enum, readScalar_shift, wrapInt_shift]

theorem readSh_ptr (cfg : Cfg) (t) (pre d : Bytes) : ReadSh cfg (.ptr t) pre d := by
  intro ctx pos
  rw [read_ptr, read_ptr, readScalar_shift, wrapInt_shift]

theorem readN_shift (cfg : Cfg) (e : Ty) (pre d : Bytes) (hR : ReadSh cfg e pre d) :
    ∀ n ctx pos, readN cfg e n ctx (pre ++ d) (pre.length + pos) =
      shiftWith (sh2 pre.length) (readN cfg e n ctx d pos) := by
  intro n
  induction n with
  | zero => intro ctx pos; rw [readN_zero, readN_zero]; rfl
  | succ n ih =>
    intro ctx pos
    rw [readN_succ, readN_succ]
    refine bind_shiftWith (hR ctx pos) (fun a => ?_)
    obtain ⟨v, p⟩ := a
    exact bind_shiftWith (ih ctx p) (fun _ => rfl)

theorem readN_list_shift (cfg : Cfg) (e : Ty) (pre d : Bytes) (hR : ReadSh cfg e pre d) (n ctx pos) :
    ((readN cfg e n ctx (pre ++ d) (pre.length + pos)).map fun (vs, p) => (Val.list vs, p)) =
      shiftWith (sh2 pre.length) ((readN cfg e n ctx d pos).map fun (vs, p) => (Val.list vs, p)) :=
  map_shiftWith (readN_shift cfg e pre d hR n ctx pos) (fun _ => rfl)

theorem readArray_shift (cfg : Cfg) (e : Ty) (pre d : Bytes) (hR : ReadSh cfg e pre d) (n ctx pos) :
    readArray cfg e n ctx (pre ++ d) (pre.length + pos) =
      shiftWith (sh2 pre.length) (readArray cfg e n ctx d pos) := by
  cases e with
  | sc s a =>
    rw [readArray.eq_1, readArray.eq_1, readScalarArray_shift]
    cases readScalarArray cfg s n d pos with
    | some x => rfl
    | none => exact readN_list_shift cfg _ pre d hR n ctx pos
  | enum b a f =>
    rw [readArray.eq_2, readArray.eq_2, readScalarArray_shift]
    cases readScalarArray cfg b n d pos with
    | some x =>
      cases x with
      | error e => rfl
      | ok x =>
        obtain ⟨xv, xp⟩ := x
        cases xv <;> rfl
    | none =>
      simp only [Option.map_none]
      rw [readN_shift cfg _ pre d (readSh_sc cfg b a pre d)]
      cases readN cfg (.sc b a) n ctx d pos with
      | error e => rfl
      | ok x => rfl
  | ptr ty =>
    rw [readArray.eq_3 _ _ _ _ _ _ (by intros; contradiction) (by intros; contradiction),
      readArray.eq_3 _ _ _ _ _ _ (by intros; contradiction) (by intros; contradiction)]
    exact readN_list_shift cfg _ pre d hR n ctx pos
  | arr e' len =>
    rw [readArray.eq_3 _ _ _ _ _ _ (by intros; contradiction) (by intros; contradiction),
      readArray.eq_3 _ _ _ _ _ _ (by intros; contradiction) (by intros; contradiction)]
    exact readN_list_shift cfg _ pre d hR n ctx pos
  | struct al fs =>
    rw [readArray.eq_3 _ _ _ _ _ _ (by intros; contradiction) (by intros; contradiction),
      readArray.eq_3 _ _ _ _ _ _ (by intros; contradiction) (by intros; contradiction)]
    exact readN_list_shift cfg _ pre d hR n ctx pos
  | union al fs =>
    rw [readArray.eq_3 _ _ _ _ _ _ (by intros; contradiction) (by intros; contradiction),
      readArray.eq_3 _ _ _ _ _ _ (by intros; contradiction) (by intros; contradiction)]
    exact readN_list_shift cfg _ pre d hR n ctx pos

theorem read0_shift (cfg : Cfg) (e : Ty) (pre d : Bytes) (hp : (Ty.arr e .nullTerm).plain = true) (ctx pos) :
    read0 cfg e ctx (pre ++ d) (pre.length + pos) = shiftWith (sh2 pre.length) (read0 cfg e ctx d pos) := by
  cases e with
  | sc s a =>
    rw [read0.eq_1, read0.eq_1]
    exact readScalarNullTerm_shift cfg s pre d pos
  | enum b a f =>
    rw [read0.eq_2, read0.eq_2, readScalarNullTerm_shift]
    cases readScalarNullTerm cfg b d pos with
    | error e => rfl
    | ok x =>
      obtain ⟨xv, xp⟩ := x
      cases xv <;> rfl
  | ptr ty => simp [Ty.plain] at hp
  | arr e' len => simp [Ty.plain] at hp
  | struct al fs => simp [Ty.plain] at hp
  | union al fs => simp [Ty.plain] at hp

theorem loadUnit_shift (cfg : Cfg) (ft bb) (pre d : Bytes) (off : Nat) :
    loadUnit cfg ft bb (pre ++ d) (pre.length + off) = shiftWith (sh2 pre.length) (loadUnit cfg ft bb d off) := by
  unfold loadUnit
  split
  · cases ft.size with
    | none => rfl
    | some fsz =>
      simp only [readScalar_shift]
      cases readScalar cfg ft d off with
      | error e => rfl
      | ok x =>
        obtain ⟨u, p⟩ := x
        simp only [shiftWith, sh2]
        cases unitInt cfg u <;> rfl
  · rfl

/-! ### Layout: the structure alignment is the maximum of the member alignments -/

theorem layout_align (cfg : Cfg) (al : Bool) : ∀ (fs : Fields) (st : LState) (sz : Option Nat) (a : Nat)
    (offs : List (Option Nat)), Fields.layout cfg al fs st = .ok (sz, a, offs) →
    ∀ A, st.alignment = A → a = Fields.maxAlign cfg fs A
  | .nil, st, sz, a, offs, h, A, hA => by
    simp only [Fields.layout, Except.ok.injEq, Prod.mk.injEq] at h
    simp only [Fields.maxAlign]; rw [← hA]; exact h.2.1.symm
  | .cons n an ty bits rest, st, sz, a, offs, h, A, hA => by
    subst hA
    simp only [Fields.maxAlign]
    cases bits with
    | none =>
      rw [Fields.layout] at h
      · obtain ⟨offs', h', _⟩ := C04.Lemmas.layout_step_inv h
        exact layout_align cfg al rest _ _ _ _ h' _ (by first | rfl | (split <;> first | rfl | (split <;> rfl)))
      · intro b h; cases h
    | some b =>
      cases b with
      | zero =>
        rw [Fields.layout] at h
        · obtain ⟨offs', h', _⟩ := C04.Lemmas.layout_step_inv h
          exact layout_align cfg al rest _ _ _ _ h' _ (by first | rfl | (split <;> first | rfl | (split <;> rfl)))
        · intro b h; cases h
      | succ b =>
        rw [Fields.layout] at h
        simp only [] at h
        split at h
        · cases h
        · split at h
          · cases h
          · split at h
            · cases h
            · rename_i newUnit _
              cases newUnit
              · simp only [Bool.false_eq_true, if_false] at h
                split at h
                · cases h
                · obtain ⟨offs', h', _⟩ := C04.Lemmas.layout_step_inv h
                  exact layout_align cfg al rest _ _ _ _ h' _ (by first | rfl | (split <;> first | rfl | (split <;> rfl)))
              · simp only [if_true] at h
                split at h
                · cases h
                · obtain ⟨offs', h', _⟩ := C04.Lemmas.layout_step_inv h
                  exact layout_align cfg al rest _ _ _ _ h' _ (by first | rfl | (split <;> first | rfl | (split <;> rfl)))

theorem structLayout_align (cfg : Cfg) (al : Bool) (fs : Fields) (sz a offs)
    (h : structLayout cfg al fs = .ok (sz, a, offs)) : a = Fields.maxAlign cfg fs 0 :=
  layout_align cfg al fs LState.init sz a offs h 0 rfl

/-- the tail padding of an aligned structure -/
theorem tailPad_shift (cfg : Cfg) (fs : Fields) (hp : fs.pow2Aligned cfg) (m : Nat)
    (hd : Fields.alignsDivide cfg m fs = true) (p : Nat) :
    padNat (m + p) (Fields.maxAlign cfg fs 0) = padNat p (Fields.maxAlign cfg fs 0) := by
  rcases maxAlign_dvd_of_alignsDivide cfg m fs hd 0 (Or.inl rfl) with h0 | h0
  · rw [h0, padNat_zero, padNat_zero]
  · exact padNat_add_of_dvd (maxAlign_p2 cfg fs hp 0 (Or.inl rfl)) m p h0

theorem fieldPos_shift (cfg : Cfg) (al : Bool) (ty : Ty) (fo : Option Nat) (m start pos : Nat)
    (hp : ty.pow2Aligned cfg) (hd : al = true → ty.alignsDivide cfg m = true) :
    fieldPos cfg al ty fo (m + start) (m + pos) = m + fieldPos cfg al ty fo start pos := by
  cases fo with
  | some o => simp [fieldPos]; omega
  | none =>
    cases al with
    | false => simp [fieldPos]
    | true =>
      simp only [fieldPos, Option.isNone_none, and_self, if_true]
      rw [padNat_add_of_dvd (Or.inr (alignment_p2 cfg ty hp)) m pos (alignment_dvd_of_alignsDivide cfg m ty (hd rfl))]
      omega

/-! ### The mutual induction -/

mutual
theorem shift_ty (cfg : Cfg) (al : Bool) (pre d : Bytes) : ∀ (ty : Ty), ty.plain = true → ty.uniformAlign al = true →
    ty.pow2Aligned cfg → (al = true → ty.alignsDivide cfg pre.length = true) → ReadSh cfg ty pre d
  | .sc s a, _, _, _, _ => readSh_sc cfg s a pre d
  | .enum b a f, _, _, _, _ => readSh_enum cfg b a f pre d
  | .ptr t, _, _, _, _ => readSh_ptr cfg t pre d
  | .arr e len, hp, hu, h2, hd => by
    have hpe : e.plain = true := by
      simp only [Ty.plain, Bool.and_eq_true] at hp; exact hp.2
    simp only [Ty.uniformAlign] at hu
    simp only [Ty.pow2Aligned] at h2
    simp only [Ty.alignsDivide] at hd
    have ih := shift_ty cfg al pre d e hpe hu h2 hd
    intro ctx pos
    cases len with
    | fixed n =>
      rw [read_arr_fixed, read_arr_fixed]
      exact readArray_shift cfg e pre d ih n ctx pos
    | expr toks =>
      rw [read_arr_expr, read_arr_expr]
      cases evalLen cfg toks ctx with
      | error er => rfl
      | ok n => exact readArray_shift cfg e pre d ih n ctx pos
    | nullTerm =>
      rw [read_arr_null, read_arr_null]
      exact read0_shift cfg e pre d hp ctx pos
    | eof => simp [Ty.plain] at hp
  | .struct a fs, hp, hu, h2, hd => by
    intro ctx pos
    simp only [Ty.uniformAlign, Bool.and_eq_true, beq_iff_eq] at hu
    obtain ⟨rfl, hu⟩ := hu
    have hpf : Fields.plain fs = true := by simpa [Ty.plain] using hp
    simp only [Ty.pow2Aligned] at h2
    simp only [Ty.alignsDivide] at hd
    rw [read_struct, read_struct]
    cases hl : structLayout cfg a fs with
    | error e => rfl
    | ok r =>
      obtain ⟨sz, salign, offs⟩ := r
      simp only [Except.bind]
      refine bind_shiftWith (shift_fields cfg a pre d fs hpf hu h2 hd offs pos BitBuf.empty [] pos) (fun x => ?_)
      obtain ⟨vs, szs, p⟩ := x
      simp only [sh3, shiftWith]
      cases a with
      | false => rfl
      | true =>
        simp only [if_true, sh2]
        rw [structLayout_align cfg true fs sz salign offs hl, tailPad_shift cfg fs h2 pre.length (hd rfl) p,
          Nat.add_assoc]
  | .union a fs, hp, _, _, _ => by simp [Ty.plain] at hp
theorem shift_fields (cfg : Cfg) (al : Bool) (pre d : Bytes) : ∀ (fs : Fields), Fields.plain fs = true →
    Fields.uniformAlign al fs = true → fs.pow2Aligned cfg → (al = true → Fields.alignsDivide cfg pre.length fs = true) →
    ∀ offs start bb ctx pos,
      readFields cfg al fs offs (pre.length + start) bb ctx (pre ++ d) (pre.length + pos) =
        shiftWith (sh3 pre.length) (readFields cfg al fs offs start bb ctx d pos)
  | .nil, _, _, _, _ => by
    intro offs start bb ctx pos
    rw [readFields_nil, readFields_nil]; rfl
  | .cons name an ty bits rest, hp, hu, h2, hd => by
    intro offs start bb ctx pos
    simp only [Fields.plain, Bool.and_eq_true] at hp
    simp only [Fields.uniformAlign, Bool.and_eq_true] at hu
    simp only [Fields.pow2Aligned] at h2
    simp only [Fields.alignsDivide, Bool.and_eq_true] at hd
    have ih1 := shift_ty cfg al pre d ty hp.1 hu.1 h2.1 (fun h => (hd h).1)
    have ih2 := shift_fields cfg al pre d rest hp.2 hu.2 h2.2 (fun h => (hd h).2)
    have hfp := fieldPos_shift cfg al ty offs.head?.join pre.length start pos h2.1 (fun h => (hd h).1)
    cases hb : isBitW bits with
    | false =>
      rw [readFields_cons_nobits _ _ _ _ _ _ _ _ _ _ _ _ _ hb, readFields_cons_nobits _ _ _ _ _ _ _ _ _ _ _ _ _ hb, hfp]
      refine bind_shiftWith (ih1 ctx _) (fun x => ?_)
      obtain ⟨v, p1⟩ := x
      refine bind_shiftWith (ih2 _ _ _ _ p1) (fun y => ?_)
      obtain ⟨vs, szs, p'⟩ := y
      simp only [sh3, shiftWith]
      rw [Nat.add_sub_add_left]
    | true =>
      obtain ⟨b, rfl⟩ : ∃ b, bits = some (b + 1) := by
        cases bits with
        | none => simp [isBitW] at hb
        | some b => cases b with
          | zero => simp [isBitW] at hb
          | succ b => exact ⟨b, rfl⟩
      rw [readFields_cons_bits, readFields_cons_bits, hfp]
      cases ty.bitBase with
      | none => rfl
      | some ft =>
        simp only []
        refine bind_shiftWith (loadUnit_shift cfg ft bb pre d _) (fun x => ?_)
        obtain ⟨bb1, p1⟩ := x
        simp only [sh2]
        cases bb1.take cfg.endian (b + 1) with
        | none => rfl
        | some vb =>
          obtain ⟨v, bb2⟩ := vb
          simp only []
          exact bind_shiftWith (ih2 _ _ _ _ p1) (fun _ => rfl)
end

theorem read_shift (cfg : Cfg) (al : Bool) (ty : Ty) (hplain : ty.plain = true) (hu : ty.uniformAlign al = true)
    (hp : ty.pow2Aligned cfg) (ctx : Ctx) (pre d : Bytes) (pos : Nat)
    (hal : al = true → ty.alignsDivide cfg pre.length = true) :
    read cfg ty ctx (pre ++ d) (pre.length + pos) = shiftWith (sh2 pre.length) (read cfg ty ctx d pos) :=
  shift_ty cfg al pre d ty hplain hu hp hal ctx pos

end Cstruct.C09.Lemmas
