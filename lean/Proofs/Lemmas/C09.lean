import Proofs.Core
namespace Cstruct.C09.Lemmas
open Cstruct
end Cstruct.C09.Lemmas
