/-
  Helper lemmas for `Proofs/Core.lean`. The lemmas are split over `Proofs/Lemmas/Core*.lean`; this file collects them.
-/
import Proofs.Lemmas.CoreUnfold
import Proofs.Lemmas.CoreLayout
import Proofs.Lemmas.CoreRW
import Proofs.Lemmas.CoreRT
import Proofs.Lemmas.CoreRS
import Proofs.Lemmas.CoreWin
