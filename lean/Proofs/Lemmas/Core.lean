import Proofs.Spec.Core
namespace Cstruct.Core.Lemmas
open Cstruct Cstruct.Core
end Cstruct.Core.Lemmas
