/-
  Helper lemmas for `Proofs/Core.lean`, part 1: unfolding lemmas for the mutually recursive reader and writer
  (each function is unfolded exactly once, here), `Except` plumbing, and the extension theorem `read_extend`.
-/
import Proofs.Spec.Core
namespace Cstruct.Core.Lemmas
open Cstruct Cstruct.Core

/-! ### `Except` plumbing -/

theorem bind_ok {ε α β} {x : Except ε α} {f : α → Except ε β} {b : β} (h : x.bind f = .ok b) :
    ∃ a, x = .ok a ∧ f a = .ok b := by
  cases x with
  | error e => simp [Except.bind] at h
  | ok a => exact ⟨a, rfl, h⟩

theorem bind_ok_iff {ε α β} {x : Except ε α} {f : α → Except ε β} {b : β} :
    x.bind f = .ok b ↔ ∃ a, x = .ok a ∧ f a = .ok b := by
  constructor
  · exact bind_ok
  · rintro ⟨a, rfl, h⟩; exact h

theorem map_ok {ε α β} {x : Except ε α} {f : α → β} {b : β} (h : x.map f = .ok b) :
    ∃ a, x = .ok a ∧ f a = b := by
  cases x with
  | error e => simp [Except.map] at h
  | ok a => simp [Except.map] at h; exact ⟨a, rfl, h⟩

/-- close goals of the form `(match x with | .error e => .error e | .ok (a, b) => match y with …) = x.bind …` -/
macro "ex2" : tactic => `(tactic| (
  split
  · rename_i h; rw [h]; rfl
  · rename_i h; rw [h]; simp only [Except.bind]; split <;> rename_i h2 <;> rw [h2]))

/-! ### Unfolding the reader -/

theorem read_sc (cfg : Cfg) (s a ctx data pos) : read cfg (.sc s a) ctx data pos = readScalar cfg s data pos := by
  rw [read]

/-- wrap an integer result -/
def wrapInt (f : Int → Val) : Except Err (Val × Nat) → Except Err (Val × Nat)
  | .ok (.int v, p) => .ok (f v, p)
  | .ok _ => .error .typeErr
  | .error e => .error e

theorem read_enum (cfg : Cfg) (b a f ctx data pos) :
    read cfg (.enum b a f) ctx data pos = wrapInt .enum (readScalar cfg b data pos) := by
  rw [read]; rfl

theorem read_ptr (cfg : Cfg) (t ctx data pos) :
    read cfg (.ptr t) ctx data pos = wrapInt .ptr (readScalar cfg cfg.ptr data pos) := by
  rw [read]; rfl

theorem read_arr_fixed (cfg : Cfg) (e n ctx data pos) :
    read cfg (.arr e (.fixed n)) ctx data pos = readArray cfg e n ctx data pos := by
  rw [read]

theorem read_arr_null (cfg : Cfg) (e ctx data pos) :
    read cfg (.arr e .nullTerm) ctx data pos = read0 cfg e ctx data pos := by
  rw [read]

theorem read_arr_expr (cfg : Cfg) (e toks ctx data pos) :
    read cfg (.arr e (.expr toks)) ctx data pos =
      (evalLen cfg toks ctx).bind fun n => readArray cfg e n ctx data pos := by
  rw [read]; cases evalLen cfg toks ctx <;> rfl

theorem read_struct (cfg : Cfg) (al fs ctx data pos) :
    read cfg (.struct al fs) ctx data pos =
      (structLayout cfg al fs).bind fun (_, salign, offs) =>
        (readFields cfg al fs offs pos BitBuf.empty [] data pos).bind fun (vs, _, p) =>
          .ok (.record vs, if al then p + padNat p salign else p) := by
  rw [read]
  cases structLayout cfg al fs with
  | error e => rfl
  | ok r =>
    obtain ⟨a, b, c⟩ := r
    simp only [Except.bind]
    cases readFields cfg al fs c pos BitBuf.empty [] data pos with
    | error e => rfl
    | ok r => rfl

theorem readN_zero (cfg : Cfg) (t ctx data pos) : readN cfg t 0 ctx data pos = .ok (.nil, pos) := by
  rw [readN]

theorem readN_succ (cfg : Cfg) (t n ctx data pos) :
    readN cfg t (n + 1) ctx data pos =
      (read cfg t ctx data pos).bind fun (v, p) =>
        (readN cfg t n ctx data p).bind fun (vs, p') => .ok (.cons v vs, p') := by
  rw [readN]; ex2

theorem readFields_nil (cfg : Cfg) (al offs start bb ctx data pos) :
    readFields cfg al .nil offs start bb ctx data pos = .ok (.nil, [], pos) := by
  rw [readFields]

/-- the position at which a field is read: seek to the layout offset if there is one, else pad in aligned mode -/
def fieldPos (cfg : Cfg) (al : Bool) (ty : Ty) (foff : Option Nat) (start pos : Nat) : Nat :=
  let offset1 := match foff with | some fo => start + fo | none => pos
  if al ∧ foff.isNone then offset1 + padNat offset1 (ty.alignment cfg) else offset1

/-- a proper bit-field width -/
def isBitW : Option Nat → Bool | some (_ + 1) => true | _ => false

theorem readFields_cons_nobits (cfg : Cfg) (al name an ty bits rest offs start bb ctx data pos)
    (hb : isBitW bits = false) :
    readFields cfg al (.cons name an ty bits rest) offs start bb ctx data pos =
      (read cfg ty ctx data (fieldPos cfg al ty offs.head?.join start pos)).bind fun (v, p1) =>
        (readFields cfg al rest (offs.drop 1) start BitBuf.empty (ctx.set name v) data p1).bind fun (vs, szs, p') =>
          .ok (.cons v vs, (name, p1 - fieldPos cfg al ty offs.head?.join start pos) :: szs, p') := by
  rw [readFields.eq_def]
  cases bits with
  | none =>
    cases offs with
    | nil => simp [fieldPos]; ex2
    | cons o t => cases o <;> simp [fieldPos] <;> ex2
  | some b =>
    cases b with
    | zero =>
      cases offs with
      | nil => simp [fieldPos]; ex2
      | cons o t => cases o <;> simp [fieldPos] <;> ex2
    | succ b => simp [isBitW] at hb

/-- `BitBuffer.read`'s "load a new unit when exhausted or the storage type changes" -/
def loadUnit (cfg : Cfg) (ft : Scalar) (bb : BitBuf) (data : Bytes) (off : Nat) : Except Err (BitBuf × Nat) :=
  if bb.remaining = 0 ∨ bb.ty ≠ some ft then
    match ft.size with
    | none => .error .value
    | some fsz =>
      match readScalar cfg ft data off with
      | .error e => .error e
      | .ok (u, p) =>
        match unitInt cfg u with
        | some i => .ok ({ ty := some ft, buffer := i, remaining := fsz * 8 }, p)
        | none => .error .typeErr
  else .ok (bb, off)

def bitVal (ty : Ty) (v : Int) : Val := match ty with | .enum _ _ _ => .enum v | _ => .int v

set_option hygiene false in
macro "bits_tac" : tactic => `(tactic| (
    rcases offs with _ | ⟨_ | o, t⟩ <;>
    · simp only [List.head?, Option.join, Option.bind, fieldPos, loadUnit, id]
      split
      · rename_i hc
        simp only [hc, if_true]
        split
        · rfl
        · simp only []
          generalize hl : readScalar _ _ _ _ = r
          generalize hr : readScalar _ _ _ _ = r2
          have : r2 = r := by rw [← hl, ← hr]; congr
          subst this
          cases r2 with
          | error e => rfl
          | ok r =>
            obtain ⟨u, p⟩ := r
            simp only []
            split
            · simp only [Except.bind]
              generalize BitBuf.take _ _ _ = r
              cases r with
              | none => rfl
              | some r =>
                obtain ⟨v, bb2⟩ := r
                simp only []
                generalize readFields _ _ _ _ _ bb2 _ _ _ = r
                cases r <;> rfl
            · rfl
      · rename_i hc
        simp only [hc, if_false, Except.bind]
        generalize BitBuf.take _ _ _ = r
        cases r with
        | none => rfl
        | some r =>
          obtain ⟨v, bb2⟩ := r
          simp only []
          generalize readFields _ _ _ _ _ bb2 _ _ _ = r
          cases r <;> rfl))

theorem readFields_cons_bits (cfg : Cfg) (al name an ty b rest offs start bb ctx data pos) :
    readFields cfg al (.cons name an ty (some (b + 1)) rest) offs start bb ctx data pos =
      match ty.bitBase with
      | none => .error .typeErr
      | some ft =>
        (loadUnit cfg ft bb data (fieldPos cfg al ty offs.head?.join start pos)).bind fun (bb1, p1) =>
          match bb1.take cfg.endian (b + 1) with
          | none => .error .value
          | some (v, bb2) =>
            (readFields cfg al rest (offs.drop 1) start bb2 (ctx.set name (bitVal ty v)) data p1).bind
              fun (vs, szs, p') => .ok (.cons (bitVal ty v) vs, szs, p') := by
  rw [readFields.eq_def]
  cases ty with
  | ptr _ => rfl
  | arr _ _ => rfl
  | struct _ _ => rfl
  | union _ _ => rfl
  | sc s a => simp only [Ty.bitBase, bitVal]; bits_tac
  | enum s a f => simp only [Ty.bitBase, bitVal]; bits_tac

end Cstruct.Core.Lemmas
