/-
  Helper lemmas for `Proofs/C02Bits.lean`, part 8 (packed or aligned): "parse, then dump" for every type of fragment SB
  (scalars, arrays whose elements keep the alignment, structures with their tail padding) and the mutual recursion `fA_ty`.
-/
import Proofs.Lemmas.C02BitsG
namespace Cstruct.C02B.Lemmas
open Cstruct Cstruct.Core Cstruct.Core.Lemmas Cstruct.C06 Cstruct.C06.Lemmas Cstruct.C02B
open Cstruct.C05.Lemmas (encBytes encBytes_length)
set_option linter.unusedSimpArgs false

theorem fA_sc (cfg : Cfg) (al : Bool) (s a) : TyFA cfg al (.sc s a) := by
  intro hS _ _ _ _ n hn
  obtain ⟨h1, h2⟩ := f_sc cfg s a hS rfl rfl n hn
  exact ⟨h1, fun ctx d pos hlen _ => h2 ctx d pos hlen⟩

theorem fA_enum (cfg : Cfg) (al : Bool) (b a f) : TyFA cfg al (.enum b a f) := by
  intro hS _ _ _ _ n hn
  obtain ⟨h1, h2⟩ := f_enum cfg b a f hS rfl rfl n hn
  exact ⟨h1, fun ctx d pos hlen _ => h2 ctx d pos hlen⟩

theorem fA_ptr (cfg : Cfg) (al : Bool) (t) : TyFA cfg al (.ptr t) := by
  intro hS _ _ _ hD n hn
  obtain ⟨h1, h2⟩ := f_ptr cfg t hS rfl hD n hn
  exact ⟨h1, fun ctx d pos hlen _ => h2 ctx d pos hlen⟩

theorem fA_union (cfg : Cfg) (al : Bool) (a fs) : TyFA cfg al (.union a fs) := by
  intro hS; simp [Ty.fragSB] at hS

theorem fA_N (cfg : Cfg) (al : Bool) (e : Ty) (k : Nat) (d : Bytes) (hml : (maskB cfg e).length = k)
    (hdvd : al = true → sAlign cfg e ∣ k)
    (hE : ∀ (ctx : Ctx) (pos : Nat), pos + k ≤ d.length → (al = true → sAlign cfg e ∣ pos) →
      ∃ v, read cfg e ctx d pos = .ok (v, pos + k) ∧ HasTyB cfg v e ∧
        write cfg e v pos = .ok (andBytes (sread d pos k) (maskB cfg e))) :
    ∀ (m : Nat) (ctx : Ctx) (pos : Nat), pos + m * k ≤ d.length → (al = true → sAlign cfg e ∣ pos) →
      ∃ vs, readN cfg e m ctx d pos = .ok (vs, pos + m * k) ∧ HasTyNB cfg vs e m ∧
        writeN cfg e vs pos = .ok (andBytes (sread d pos (m * k)) (List.replicate m (maskB cfg e)).flatten) := by
  intro m
  induction m with
  | zero =>
    intro ctx pos _ _
    refine ⟨.nil, by rw [readN_zero]; simp, .nil, ?_⟩
    rw [writeN_nil]; simp [andBytes_nil_right]
  | succ m ih =>
    intro ctx pos hlen hpos
    have e1 : (m + 1) * k = k + m * k := by rw [Nat.succ_mul]; omega
    rw [e1] at hlen
    obtain ⟨v, h1, h2, h3⟩ := hE ctx pos (by omega) hpos
    obtain ⟨vs, h4, h5, h6⟩ := ih ctx (pos + k) (by omega) (fun ha => Nat.dvd_add (hpos ha) (hdvd ha))
    have hsl : (sread d pos k).length = k := sread_length_of_le d pos k (by omega)
    have hbl : (andBytes (sread d pos k) (maskB cfg e)).length = k := by rw [andBytes_length, hsl, hml]; omega
    refine ⟨.cons v vs, ?_, .cons h2 h5, ?_⟩
    · rw [readN_succ, h1]
      simp only [Except.bind]
      rw [h4, e1, Nat.add_assoc]
    · rw [writeN_cons, h3]
      simp only [Except.bind, hbl]
      rw [h6, e1, sread_add, List.replicate_succ, List.flatten_cons, andBytes_append _ _ _ _ (by rw [hsl, hml])]

theorem fA_arr (cfg : Cfg) (al : Bool) (e : Ty) (len : Len) (hE : TyFA cfg al e) : TyFA cfg al (.arr e len) := by
  intro hS hU hP hN hD n hn
  simp only [Ty.fragSB, Bool.and_eq_true] at hS
  simp only [Ty.uniformAlign] at hU
  simp only [Ty.pow2Aligned] at hP
  simp only [Ty.defErr] at hD
  have hN' : al = true → e.bitsNatural cfg = true := by
    intro ha; have := hN ha; simpa only [Ty.bitsNatural] using this
  cases len with
  | expr _ => simp at hS
  | nullTerm => simp at hS
  | eof => simp at hS
  | fixed m =>
    obtain ⟨k, hk⟩ := size_some_ty cfg e hS.2 hD
    simp only [Ty.size, hk, Option.some.injEq] at hn
    subst hn
    obtain ⟨hml, hty⟩ := hE hS.2 hU hP hN' hD k hk
    refine ⟨by simp only [maskB, List.length_flatten, List.map_replicate, List.sum_replicate_nat, hml], ?_⟩
    intro ctx d pos hlen hpos
    simp only [sAlign] at hpos
    by_cases hc : ∃ a, e = .sc .char a
    · obtain ⟨a, rfl⟩ := hc
      simp only [Ty.size, Scalar.size, Option.some.injEq] at hk
      subst hk
      rw [Nat.mul_one] at hlen ⊢
      have hsl : (sread d pos m).length = m := sread_length_of_le d pos m hlen
      have hmask : maskB cfg (.arr (.sc .char a) (.fixed m)) = List.replicate m 0xFF := by
        simp only [maskB, Scalar.size, Option.getD_some, List.flatten_replicate_replicate, Nat.mul_one]
      refine ⟨.bytes (sread d pos m), ?_, .chars hsl, ?_⟩
      · rw [read_arr_fixed, readArray_char]
        split
        · rename_i h0; subst h0; simp [sread_zero]
        · rw [readExact_of_le d pos m hlen]; rfl
      · rw [write_arr_chars, hmask, andBytes_ff m _ hsl]
    · have hne : ∀ a, e ≠ .sc .char a := fun a h => hc ⟨a, h⟩
      have hdvd : al = true → sAlign cfg e ∣ k := by
        intro ha; subst ha; exact size_sAlign_dvd_B cfg e hS.2 hU hP k hk
      obtain ⟨vs, h1, h2, h3⟩ := fA_N cfg al e k d hml hdvd (fun ctx pos hl hp => hty ctx d pos hl hp) m ctx pos hlen hpos
      refine ⟨.list vs, ?_, .arr hne h2, ?_⟩
      · rw [read_arr_fixed]
        exact readArray_of_readN_B cfg e hS.2 hne ctx d m pos vs _ h1
      · rw [write_arr_list, if_neg (by rw [hasTyNB_length cfg e m vs h2]; simp), h3]
        simp only [maskB]

theorem fA_struct (cfg : Cfg) (al al' : Bool) (fs : Fields) (hF : IdleFA cfg al fs) : TyFA cfg al (.struct al' fs) := by
  intro hS hU hP hN hD n hn
  simp only [Ty.fragSB] at hS
  simp only [Ty.uniformAlign, Bool.and_eq_true, beq_iff_eq] at hU
  simp only [Ty.pow2Aligned] at hP
  obtain ⟨rfl, hU⟩ := hU
  obtain ⟨hD', ⟨sz, sa, offs⟩, hlay⟩ := defErr_struct hD
  have hsz : sz = some n := by
    have h := hlay
    unfold structLayout LState.init at h
    simp only [Ty.size, h] at hn
    exact hn
  subst hsz
  have hH : FHyps cfg al' fs := ⟨hS, hU, hP, fun ha => by have := hN ha; simpa only [Ty.bitsNatural] using this, hD'⟩
  obtain ⟨e, _, htot, hmlen, hrest⟩ := hF hH LState.init n sa offs hlay (lidle_of_rem _ rfl fs) 0 rfl
  simp only [Nat.sub_zero] at hmlen
  have hsa : sa = Fields.maxAlign cfg fs 0 := (layout_final cfg al' fs _ _ sa offs hlay).1
  have hen : e ≤ n := by rw [htot]; exact le_alignTo _ _ _
  have hmask : maskB cfg (.struct al' fs) = fieldsMaskB cfg fs offs 0 none ++ zeros (n - e) := by
    simp only [maskB, hlay, hmlen]
  refine ⟨by rw [hmask, List.length_append, hmlen, zeros_length]; omega, ?_⟩
  intro ctx d pos hlen hpos
  have hdv : al' = true → allAlignDvd cfg pos fs := fun ha => allAlignDvd_of_sAlign cfg al' fs hP pos (hpos ha)
  obtain ⟨vs, szs, hrr, hvs, out, bbF, fl, hwr, hfl, hout⟩ := hrest [] d pos BitBuf.empty (by omega) hdv
    (ridle_of_rem _ rfl fs)
  simp only [Nat.add_zero, Nat.sub_zero] at hrr hwr hout
  have hse : (sread d pos e).length = e := sread_length_of_le d pos e (by omega)
  have hol : (out ++ fl).length = e := by rw [hout, andBytes_length, hse, hmlen]; omega
  refine ⟨.record vs, ?_, .struct hvs, ?_⟩
  · rw [read_struct, hlay]
    simp only [Except.bind, hrr]
    cases al' with
    | false => simp only [alignTo, Bool.false_eq_true, if_false] at htot ⊢; rw [htot]
    | true =>
      have hpad := padNat_struct cfg true fs hP pos e (hpos rfl)
      rw [← hsa] at hpad
      simp only [alignTo, if_true] at htot ⊢
      rw [hpad, htot, Nat.add_assoc]
  · rw [write_struct, hlay]
    simp only [Except.bind, hwr, hfl, hmask]
    cases al' with
    | false =>
      simp only [alignTo, Bool.false_eq_true, if_false] at htot ⊢
      subst htot
      simp only [Nat.sub_self, zeros_zero, List.append_nil, hout]
    | true =>
      have hpad := padNat_struct cfg true fs hP pos e (hpos rfl)
      rw [← hsa] at hpad
      simp only [alignTo, if_true] at htot ⊢
      obtain ⟨r, rfl⟩ := Nat.exists_eq_add_of_le hen
      have hr : e + r - e = r := by omega
      have hz : padNat (pos + (out ++ fl).length) sa = r := by rw [hol, hpad]; omega
      have hs2 : (sread d (pos + e) r).length = r := sread_length_of_le d _ _ (by omega)
      rw [hz, hr, sread_add, andBytes_append _ _ _ _ (by rw [hse, hmlen]), andBytes_zeros _ _ hs2, ← hout]

mutual
theorem fA_ty (cfg : Cfg) (al : Bool) : ∀ ty : Ty, TyFA cfg al ty
  | .sc s a => fA_sc cfg al s a
  | .enum b a f => fA_enum cfg al b a f
  | .ptr t => fA_ptr cfg al t
  | .arr e len => fA_arr cfg al e len (fA_ty cfg al e)
  | .struct al' fs => fA_struct cfg al al' fs (fA_idle cfg al fs)
  | .union a fs => fA_union cfg al a fs
theorem fA_idle (cfg : Cfg) (al : Bool) : ∀ fs : Fields, IdleFA cfg al fs
  | .nil => idleFA_nil cfg al
  | .cons name an ty none rest => idleFA_cons_nb cfg al name an ty rest (fA_ty cfg al ty) (fA_idle cfg al rest)
  | .cons _ _ _ (some 0) _ => fun hH => by have := hH.frag; simp [Fields.fragSB] at this
  | .cons name an ty (some (b + 1)) rest =>
    idleFA_cons_bit cfg al name an ty b rest (fA_idle cfg al rest) (fA_pend cfg al rest)
theorem fA_pend (cfg : Cfg) (al : Bool) : ∀ fs : Fields, PendFA cfg al fs
  | .nil => pendFA_nil cfg al
  | .cons name an ty none rest =>
    pendFA_cons cfg al name an ty none rest
      (idleFA_cons_nb cfg al name an ty rest (fA_ty cfg al ty) (fA_idle cfg al rest)) (fA_idle cfg al rest)
      (fA_pend cfg al rest)
  | .cons _ _ _ (some 0) _ => fun hH => by have := hH.frag; simp [Fields.fragSB] at this
  | .cons name an ty (some (b + 1)) rest =>
    pendFA_cons cfg al name an ty (some (b + 1)) rest
      (idleFA_cons_bit cfg al name an ty b rest (fA_idle cfg al rest) (fA_pend cfg al rest)) (fA_idle cfg al rest)
      (fA_pend cfg al rest)
end

/-- **every successful parse** of a type of fragment SB from an aligned start (packed or aligned, definition accepted):
    as `fidelity_gen` -/
theorem fidelity_genA (cfg : Cfg) (al : Bool) (ty : Ty) (hS : ty.fragSB cfg = true) (hu : ty.uniformAlign al = true)
    (hp : ty.pow2Aligned cfg) (hn : al = true → ty.bitsNatural cfg = true) (hd : ty.defErr cfg = none) (ctx : Ctx)
    (d : Bytes) (pos : Nat) (hpos : al = true → sAlign cfg ty ∣ pos) (v : Val) (p : Nat)
    (hr : read cfg ty ctx d pos = .ok (v, p)) :
    ∃ n, ty.size cfg = some n ∧ p = pos + n ∧ HasTyB cfg v ty ∧ (maskB cfg ty).length = n ∧
      (p ≤ d.length → write cfg ty v pos = .ok (andBytes (sread d pos n) (maskB cfg ty))) := by
  obtain ⟨n, hsz⟩ := size_some_ty cfg ty hS hd
  obtain ⟨hml, hf⟩ := fA_ty cfg al ty hS hu hp hn hd n hsz
  have hext := Core.Lemmas.read_extend cfg ty (fragSB_plain cfg ty hS) ctx d pos v p hr (d ++ zeros (pos + n))
    (List.prefix_append _ _)
  obtain ⟨v', hr', hv', _⟩ := hf ctx (d ++ zeros (pos + n)) pos (by simp [zeros]) hpos
  rw [hext] at hr'
  simp only [Except.ok.injEq, Prod.mk.injEq] at hr'
  obtain ⟨rfl, rfl⟩ := hr'
  refine ⟨n, hsz, rfl, hv', hml, ?_⟩
  intro hlen
  obtain ⟨v'', hr'', _, hw''⟩ := hf ctx d pos hlen hpos
  rw [hr] at hr''
  simp only [Except.ok.injEq, Prod.mk.injEq] at hr''
  obtain ⟨rfl, _⟩ := hr''
  exact hw''

end Cstruct.C02B.Lemmas
