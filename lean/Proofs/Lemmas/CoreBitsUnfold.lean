/-
  Helper lemmas for `Proofs/CoreBits.lean`, part 1: unfolding lemmas for the bit-field branches of the packed writer
  (`writeFields`) and of the packed layout (`Fields.layout`), and the facts about one storage unit: what a flush emits,
  what the reader loads from those bytes, and how a field's slot is recovered from the final unit value.
-/
import Proofs.Spec.CoreBits
import Proofs.Lemmas.CoreRT
import Proofs.Lemmas.C06
namespace Cstruct.Core.Lemmas
open Cstruct Cstruct.Core Cstruct.C06 Cstruct.C06.Lemmas
set_option linter.unusedSimpArgs false

/-! ### Unfolding the packed writer -/

theorem writeFields_nb_idle (cfg : Cfg) (name an ty rest foff offs v vs start pos)
    (hfo : ∀ fo, foff = some fo → start + fo = pos) :
    writeFields cfg false (.cons name an ty none rest) (foff :: offs) (.cons v vs) start BitBuf.empty pos =
      (write cfg ty v pos).bind fun body =>
        (writeFields cfg false rest offs vs start BitBuf.empty (pos + body.length)).bind fun (o, bbf) =>
          .ok (body ++ o, bbf) := by
  rw [writeFields.eq_def]
  cases foff with
  | none => simp [BitBuf.empty, zeros]; ex2
  | some fo =>
    have := hfo fo rfl
    have h2 : ¬ (pos < start + fo) := by omega
    simp [BitBuf.empty, zeros, h2]; ex2

theorem len4 (pos : Nat) (fl a b c : Bytes) : pos + (fl ++ a ++ b ++ c).length = pos + fl.length + (a ++ b ++ c).length := by
  simp only [List.length_append]; omega

set_option hygiene false in
macro "flush_nb" : tactic => `(tactic| (
    cases hfl : flushBits cfg bb with
    | error e => rfl
    | ok fl =>
      simp only [Except.bind]
      rw [writeFields.eq_def cfg al _ _ (.cons v vs) start BitBuf.empty (pos + fl.length)]
      simp only [BitBuf.empty, Option.isSome_none, Bool.and_false, Bool.false_and, Bool.or_self, Bool.false_eq_true, if_false,
        List.length_nil, Nat.add_zero, List.nil_append, Option.isNone_none, Option.isNone_some, true_or, and_true, and_false]
      generalize (if pos + fl.length < start + _ then start + _ - (pos + fl.length) else 0) = p1
      generalize (if al = true then padNat _ (Ty.alignment cfg ty) else 0) = p2
      cases write cfg ty v _ with
      | error e => rfl
      | ok body =>
        simp only [len4]
        generalize writeFields cfg al rest _ vs start _ _ = r
        rcases r with e | ⟨o, bbf⟩
        · rfl
        · simp only [List.append_assoc]))

theorem len5 (pos : Nat) (fl a b c d : Bytes) :
    pos + (fl ++ a ++ b ++ c ++ d).length = pos + fl.length + (a ++ b ++ c ++ d).length := by
  simp only [List.length_append]; omega

set_option hygiene false in
macro "flush_b_core" : tactic => `(tactic| (
    simp only []
    cases ft.size with
    | none => rfl
    | some fsz =>
      simp only [if_true]
      generalize (if pos + fl.length < start + _ then start + _ - (pos + fl.length) else 0) = p1
      generalize (if al = true then padNat _ (Ty.alignment cfg ty) else 0) = p2
      cases BitBuf.put cfg.endian _ fsz _ (b + 1) with
      | none => rfl
      | some bb3 =>
        simp only []
        cases (if bb3.remaining = 0 then flushBits cfg bb3 else Except.ok []) with
        | error e => rfl
        | ok fl3 =>
          simp only [len5]
          generalize writeFields cfg al rest _ vs start _ _ = r
          rcases r with e | ⟨o, bbf⟩
          · rfl
          · simp only [List.append_assoc]))

set_option hygiene false in
macro "flush_b" : tactic => `(tactic| (
    cases hfl : flushBits cfg bb with
    | error e => rfl
    | ok fl =>
      simp only [Except.bind]
      rw [writeFields.eq_def cfg al _ _ (.cons v vs) start BitBuf.empty (pos + fl.length)]
      simp only [BitBuf.empty, Option.isSome_none, Bool.and_false, Bool.false_and, Bool.or_self, Bool.false_eq_true, if_false,
        List.length_nil, Nat.add_zero, List.nil_append, Option.isNone_none, Option.isNone_some, true_or, and_true, and_false]
      cases hbase : ty.bitBase with
      | none => cases v <;> rfl
      | some ft =>
        cases v with
        | int i => flush_b_core
        | enum i => flush_b_core
        | _ => rfl))

theorem writeFields_flush (cfg : Cfg) (al name an ty bits rest offs v vs start bb pos t) (ht : bb.ty = some t)
    (hne : isBitW bits = false ∨ ty.bitBase ≠ some t) :
    writeFields cfg al (.cons name an ty bits rest) offs (.cons v vs) start bb pos =
      (flushBits cfg bb).bind fun fl =>
        (writeFields cfg al (.cons name an ty bits rest) offs (.cons v vs) start BitBuf.empty (pos + fl.length)).bind
          fun (o, bbf) => .ok (fl ++ o, bbf) := by
  rw [writeFields.eq_def]
  rcases bits with _ | _ | b
  · simp only [ht, Option.isSome_some, Bool.not_false, Bool.and_self, Bool.true_or, if_true]
    rcases offs with _ | ⟨_ | fo, offs'⟩
    · flush_nb
    · flush_nb
    · flush_nb
  · simp only [ht, Option.isSome_some, Bool.not_false, Bool.and_self, Bool.true_or, if_true]
    rcases offs with _ | ⟨_ | fo, offs'⟩
    · flush_nb
    · flush_nb
    · flush_nb
  · have hb : ty.bitBase ≠ some t := by simpa [isBitW] using hne
    have hb' : (some t ≠ ty.bitBase) := fun h => hb h.symm
    simp only [ht, Option.isSome_some, Bool.not_true, Bool.false_and, Bool.true_and, Bool.false_or, if_true, ne_eq, hb',
      not_false_eq_true, decide_true]
    rcases offs with _ | ⟨_ | fo, offs'⟩
    · flush_b
    · flush_b
    · flush_b

/-- the writer's bit-field step once the unit `bb2` is selected -/
def putStep (cfg : Cfg) (rest : Fields) (offs : List (Option Nat)) (vs : Vals) (start : Nat) (fsz : Nat) (i : Int) (w : Nat)
    (bb2 : BitBuf) (pos : Nat) : Except Err (Bytes × BitBuf) :=
  match bb2.put cfg.endian fsz i w with
  | none => .error .value
  | some bb3 =>
    (if bb3.remaining = 0 then flushBits cfg bb3 else .ok []).bind fun fl3 =>
      (writeFields cfg false rest offs vs start (if bb3.remaining = 0 then BitBuf.empty else bb3) (pos + fl3.length)).bind
        fun (o, bbf) => .ok (fl3 ++ o, bbf)

set_option hygiene false in
macro "put_core" : tactic => `(tactic| (
    simp only [putStep, BitBuf.empty]
    cases BitBuf.put cfg.endian _ fsz i (b + 1) with
    | none => rfl
    | some bb3 =>
      simp only []
      cases (if bb3.remaining = 0 then flushBits cfg bb3 else Except.ok []) with
      | error e => rfl
      | ok fl3 =>
        simp only [Except.bind]
        generalize writeFields cfg false rest _ vs start _ _ = r
        rcases r with e | ⟨o, bbf⟩ <;> rfl))

theorem writeFields_bit_idle (cfg : Cfg) (name an ty b rest foff offs v vs start pos ft fsz i)
    (hfo : ∀ fo, foff = some fo → start + fo = pos) (hbase : ty.bitBase = some ft) (hsz : ft.size = some fsz)
    (hv : v = .int i ∨ v = .enum i) :
    writeFields cfg false (.cons name an ty (some (b + 1)) rest) (foff :: offs) (.cons v vs) start BitBuf.empty pos =
      putStep cfg rest offs vs start fsz i (b + 1) { ty := some ft, buffer := 0, remaining := fsz * 8 } pos := by
  rw [writeFields.eq_def]
  rcases hv with rfl | rfl <;> cases foff with
  | none =>
    simp only [hbase, hsz, BitBuf.empty, Option.isSome_none, Bool.and_false, Bool.false_and, Bool.or_self, Bool.false_eq_true,
      if_false, List.length_nil, Nat.add_zero, List.nil_append, false_and, and_false, true_or, if_true, zeros,
      List.replicate_zero, List.append_nil, List.drop_one, List.tail_cons]
    put_core
  | some fo =>
    have := hfo fo rfl
    have h2 : ¬ (pos < start + fo) := by omega
    simp only [hbase, hsz, BitBuf.empty, Option.isSome_none, Bool.and_false, Bool.false_and, Bool.or_self, Bool.false_eq_true,
      if_false, List.length_nil, Nat.add_zero, List.nil_append, false_and, and_false, true_or, if_true, zeros, h2,
      List.replicate_zero, List.append_nil, List.drop_one, List.tail_cons]
    put_core

theorem writeFields_bit_cont (cfg : Cfg) (name an ty b rest foff offs v vs start pos ft fsz i bb)
    (hfo : ∀ fo, foff = some fo → start + fo = pos) (hbase : ty.bitBase = some ft) (hsz : ft.size = some fsz)
    (hv : v = .int i ∨ v = .enum i) (hty : bb.ty = some ft) (hrem : bb.remaining ≠ 0) :
    writeFields cfg false (.cons name an ty (some (b + 1)) rest) (foff :: offs) (.cons v vs) start bb pos =
      putStep cfg rest offs vs start fsz i (b + 1) bb pos := by
  rw [writeFields.eq_def]
  rcases hv with rfl | rfl <;> cases foff with
  | none =>
    simp only [hbase, hsz, hty, hrem, Option.isSome_some, Bool.not_true, Bool.false_and, Bool.true_and, Bool.false_or,
      ne_eq, not_true_eq_false, decide_false, Bool.false_eq_true, if_false, List.length_nil, Nat.add_zero, List.nil_append,
      false_and, and_false, or_self, if_true, zeros, List.replicate_zero, List.append_nil, List.drop_one, List.tail_cons]
    put_core
  | some fo =>
    have := hfo fo rfl
    have h2 : ¬ (pos < start + fo) := by omega
    simp only [hbase, hsz, hty, hrem, Option.isSome_some, Bool.not_true, Bool.false_and, Bool.true_and, Bool.false_or,
      ne_eq, not_true_eq_false, decide_false, Bool.false_eq_true, if_false, List.length_nil, Nat.add_zero, List.nil_append,
      false_and, and_false, or_self, if_true, zeros, h2, List.replicate_zero, List.append_nil, List.drop_one, List.tail_cons]
    put_core

/-! ### Unfolding the packed layout -/

/-- layout state after a member that is not a bit-field -/
def stNb (cfg : Cfg) (ty : Ty) (st : LState) : LState :=
  { offset := (match st.offset with
      | some o => (match ty.size cfg with | some k => some (o + k) | none => none)
      | none => none),
    alignment := max st.alignment (ty.alignment cfg), bitsType := none, bitsFieldOffset := some 0, bitsRemaining := 0 }

theorem layout_nb (cfg : Cfg) (n an ty rest st) :
    Fields.layout cfg false (.cons n an ty none rest) st =
      (Fields.layout cfg false rest (stNb cfg ty st)).bind fun (sz, sa, offs) => .ok (sz, sa, st.offset :: offs) := by
  rw [Fields.layout]
  · obtain ⟨off, sal, bt, bfo, br⟩ := st
    cases off with
    | none =>
      simp only [Bool.false_eq_true, if_false, stNb]
      generalize Fields.layout _ _ _ _ = r
      cases r <;> rfl
    | some o =>
      cases hk : ty.size cfg with
      | none =>
        simp only [Bool.false_eq_true, if_false, stNb, hk]
        generalize Fields.layout _ _ _ _ = r
        cases r <;> rfl
      | some k =>
        simp only [Bool.false_eq_true, if_false, stNb, hk]
        generalize Fields.layout _ _ _ _ = r
        cases r <;> rfl
  · intro b h; cases h

/-- layout state after a bit-field that opens a new unit -/
def stNew (cfg : Cfg) (ty : Ty) (ft : Scalar) (fsz w : Nat) (st : LState) : LState :=
  { offset := st.offset.map (· + fsz), alignment := max st.alignment (ty.alignment cfg), bitsType := some ft,
    bitsFieldOffset := st.offset, bitsRemaining := ((fsz * 8 : Nat) : Int) - ((w : Nat) : Int) }

theorem layout_bit_new (cfg : Cfg) (n an ty b rest st ft fsz) (hbase : ty.bitBase = some ft) (hsz : ft.size = some fsz)
    (hnew : st.bitsRemaining = 0 ∨ some ft ≠ st.bitsType) :
    Fields.layout cfg false (.cons n an ty (some (b + 1)) rest) st =
      if ((fsz * 8 : Nat) : Int) - ((b + 1 : Nat) : Int) < 0 then .error .value else
      (Fields.layout cfg false rest (stNew cfg ty ft fsz (b + 1) st)).bind fun (sz, sa, offs) =>
        .ok (sz, sa, st.offset :: offs) := by
  rw [Fields.layout]
  obtain ⟨off, sal, bt, bfo, br⟩ := st
  simp only at hnew
  cases off <;>
  · simp only [hbase, hsz, hnew, if_true, Bool.false_eq_true, if_false, stNew, Option.map]
    split
    · rfl
    · generalize Fields.layout _ _ _ _ = r
      cases r <;> rfl

/-- layout state after a bit-field that continues the current unit -/
def stCont (cfg : Cfg) (ty : Ty) (w : Nat) (st : LState) : LState :=
  { st with alignment := max st.alignment (ty.alignment cfg), bitsRemaining := st.bitsRemaining - ((w : Nat) : Int) }

theorem layout_bit_cont (cfg : Cfg) (n an ty b rest st ft fsz) (hbase : ty.bitBase = some ft) (hsz : ft.size = some fsz)
    (hrem : st.bitsRemaining ≠ 0) (hty : st.bitsType = some ft) (hoff : st.offset = st.bitsFieldOffset.map (· + fsz)) :
    Fields.layout cfg false (.cons n an ty (some (b + 1)) rest) st =
      if st.bitsRemaining - ((b + 1 : Nat) : Int) < 0 then .error .value else
      (Fields.layout cfg false rest (stCont cfg ty (b + 1) st)).bind fun (sz, sa, offs) =>
        .ok (sz, sa, none :: offs) := by
  rw [Fields.layout]
  obtain ⟨off, sal, bt, bfo, br⟩ := st
  simp only at hrem hty hoff
  subst hty
  have hc : ¬ (br = 0 ∨ some ft ≠ some ft) := by simp [hrem]
  cases bfo with
  | none =>
    simp only [Option.map] at hoff
    subst hoff
    simp only [hbase, hsz, hc, if_false, Bool.false_eq_true, stCont]
    split
    · rfl
    · generalize Fields.layout _ _ _ _ = r
      cases r <;> rfl
  | some o =>
    simp only [Option.map] at hoff
    subst hoff
    have : ¬ (o + fsz > o + fsz) := by omega
    simp only [hbase, hsz, hc, if_false, Bool.false_eq_true, stCont, this, decide_false]
    split
    · rfl
    · generalize Fields.layout _ _ _ _ = r
      cases r <;> rfl

theorem layout_nil_packed (cfg : Cfg) (st : LState) :
    Fields.layout cfg false .nil st = .ok (st.offset, st.alignment, []) := by
  rw [Fields.layout]
  simp only [Bool.false_eq_true, if_false]
  cases st.offset <;> rfl

/-! ### Units: what the flushed bytes decode to -/

/-- a slot that lies inside the low `W` bits only depends on the unit modulo `2^W` (signed storage types load the unit as
    a negative number) -/
theorem slotVal_emod (U : Int) (W lo b : Nat) (h : lo + b ≤ W) :
    slotVal (U % ((2 ^ W : Nat) : Int)) lo b = slotVal U lo b := by
  unfold slotVal
  have hW : ((2 ^ W : Nat) : Int) = ((2 ^ (W - lo - b) : Nat) : Int) * ((2 ^ b : Nat) : Int) * ((2 ^ lo : Nat) : Int) := by
    rw [← Int.natCast_mul, ← Int.natCast_mul, ← Nat.pow_add, ← Nat.pow_add]
    congr 2; omega
  have hlo : ((2 ^ lo : Nat) : Int) ≠ 0 := by
    have := Nat.two_pow_pos lo; omega
  have hU : U = U % ((2 ^ W : Nat) : Int) + (U / ((2 ^ W : Nat) : Int) * (((2 ^ (W - lo - b) : Nat) : Int) *
      ((2 ^ b : Nat) : Int))) * ((2 ^ lo : Nat) : Int) := by
    have := Int.emod_add_ediv_mul U ((2 ^ W : Nat) : Int)
    rw [Int.mul_assoc, Int.mul_assoc, ← Int.mul_assoc (((2 ^ (W - lo - b) : Nat) : Int)), ← hW]; omega
  generalize U % ((2 ^ W : Nat) : Int) = r at hU
  rw [hU, Int.add_mul_ediv_right _ _ hlo, ← Int.mul_assoc, Int.add_mul_emod_self_right]

/-- what the final unit value `F` must satisfy for the `k` bits accumulated so far (`n`) -/
def URel (e : Endian) (W k n F : Nat) : Prop :=
  match e with
  | .little => F % 2 ^ k = n
  | .big => F / 2 ^ (W - k) = n

/-- one field back: from the relation after the field to the relation before it, and the field's slot -/
theorem urel_step (e : Endian) (W k n m b F : Nat) (hn : n < 2 ^ k) (hm : m < 2 ^ b) (hk : k + b ≤ W)
    (h : URel e W (k + b) (acc e k n m b) F) :
    URel e W k n F ∧ slotVal (F : Int) (slotLo e W k b) b = (m : Int) := by
  cases e with
  | little =>
    simp only [URel, acc] at h ⊢
    obtain ⟨h1, h2⟩ := little_rel F n m k b hn h
    exact ⟨h1, by rw [slotVal_nat]; simp only [slotLo, h2]⟩
  | big =>
    simp only [URel, acc] at h ⊢
    have hs : W - k = b + (W - (k + b)) := by omega
    obtain ⟨h1, h2⟩ := big_rel F n m b (W - (k + b)) hm h
    refine ⟨by rw [hs]; exact h1, ?_⟩
    rw [slotVal_nat]
    have : slotLo .big W k b = W - (k + b) := by simp only [slotLo]; omega
    rw [this, h2]

/-- flushing a pending unit emits the encoding of a number that extends the accumulated bits -/
theorem flush_pend (cfg : Cfg) (ft : Scalar) (fsz k n : Nat) (bb : BitBuf) (hty : bb.ty = some ft)
    (hsz : ft.size = some fsz) (hinv : WriteInv cfg.endian (8 * fsz) k n bb) (hn : n < 2 ^ k) (hk : k ≤ 8 * fsz) :
    ∃ F, flushBits cfg bb = .ok (C05.Lemmas.encBytes cfg.endian fsz F) ∧ F < 2 ^ (8 * fsz) ∧
      URel cfg.endian (8 * fsz) k n F := by
  obtain ⟨_, hbuf⟩ := hinv
  have key : ∀ F : Nat, bb.buffer = (F : Int) → F < 2 ^ (8 * fsz) →
      flushBits cfg bb = .ok (C05.Lemmas.encBytes cfg.endian fsz F) := by
    intro F hF hlt
    have hfit : fits fsz false (F : Int) = true := by
      simp only [fits, Bool.false_eq_true, if_false, decide_eq_true_eq]
      exact ⟨Int.natCast_nonneg _, by exact_mod_cast hlt⟩
    simp only [flushBits, hty, hsz, hF, C05.Lemmas.encodeInt_eq _ _ _ _ hfit]
    have : ((F : Int) % ((2 ^ (8 * fsz) : Nat) : Int)).toNat = F := by
      rw [← Int.natCast_emod, Int.toNat_natCast, Nat.mod_eq_of_lt hlt]
    rw [this]
  have hle : 2 ^ k ≤ 2 ^ (8 * fsz) := Nat.pow_le_pow_right (by omega) hk
  generalize he' : cfg.endian = e at hbuf key
  cases e with
  | little =>
    simp only at hbuf
    exact ⟨n, key n hbuf (by omega), by omega, by simp only [URel]; exact Nat.mod_eq_of_lt hn⟩
  | big =>
    simp only at hbuf
    have h1 : n * 2 ^ (8 * fsz - k) < 2 ^ (8 * fsz) := by
      have h2 := (Nat.mul_lt_mul_right (Nat.two_pow_pos (8 * fsz - k))).2 hn
      rw [← Nat.pow_add] at h2
      have h3 : k + (8 * fsz - k) = 8 * fsz := by omega
      rwa [h3] at h2
    refine ⟨n * 2 ^ (8 * fsz - k), key _ hbuf h1, h1, ?_⟩
    simp only [URel]
    exact Nat.mul_div_cancel _ (Nat.two_pow_pos _)

/-- loading a unit from its flushed bytes: the integer the reader sees is the unit modulo `2^(8·size)` -/
theorem unit_load (cfg : Cfg) (ft : Scalar) (hi : Scalar.isInt ft = true) (fsz : Nat) (hsz : ft.size = some fsz) (F : Nat)
    (hF : F < 2 ^ (8 * fsz)) (pre post : Bytes) (pos : Nat) (hp : pre.length = pos) :
    ∃ U : Int, readScalar cfg ft (pre ++ C05.Lemmas.encBytes cfg.endian fsz F ++ post) pos = .ok (.int U, pos + fsz) ∧
      U % ((2 ^ (8 * fsz) : Nat) : Int) = (F : Int) := by
  have hlen := C05.Lemmas.encBytes_length cfg.endian fsz F
  have hdec : ∀ sg, decodeInt cfg.endian sg (C05.Lemmas.encBytes cfg.endian fsz F) % ((2 ^ (8 * fsz) : Nat) : Int) = (F : Int) := by
    intro sg
    unfold decodeInt
    simp only [hlen, C05.Lemmas.decodeNat_encBytes cfg.endian fsz F hF]
    have hpos : (0 : Int) < ((2 ^ (8 * fsz) : Nat) : Int) := by exact_mod_cast Nat.two_pow_pos _
    have hlt : (F : Int) < ((2 ^ (8 * fsz) : Nat) : Int) := by exact_mod_cast hF
    split
    · rw [Int.sub_emod_right, Int.emod_eq_of_lt (Int.natCast_nonneg _) hlt]
    · exact Int.emod_eq_of_lt (Int.natCast_nonneg _) hlt
  cases ft with
  | pint n sg =>
    simp only [Scalar.size, Option.some.injEq] at hsz; subst hsz
    refine ⟨_, ?_, hdec sg⟩
    simp only [readScalar, bind, pure, readExact_mid pre _ post pos n hp hlen, Except.bind, Except.pure]
  | aint n sg =>
    simp only [Scalar.size, Option.some.injEq] at hsz; subst hsz
    refine ⟨_, ?_, hdec sg⟩
    simp only [readScalar, bind, pure, readExact_mid pre _ post pos n hp hlen, Except.bind, Except.pure]
  | pflt n => simp [Scalar.isInt] at hi
  | char => simp [Scalar.isInt] at hi
  | wchar => simp [Scalar.isInt] at hi
  | leb sg => simp [Scalar.isInt] at hi
  | void => simp [Scalar.isInt] at hi

theorem isInt_size (s : Scalar) (h : Scalar.isInt s = true) : ∃ k, s.size = some k := by
  cases s <;> simp [Scalar.isInt] at h <;> simp [Scalar.size]

theorem bitOk_base (ty : Ty) (h : ty.bitOk = true) :
    ∃ ft fsz, ty.bitBase = some ft ∧ Scalar.isInt ft = true ∧ ft.size = some fsz := by
  cases ty with
  | sc s a => simp only [Ty.bitOk] at h; obtain ⟨k, hk⟩ := isInt_size s h; exact ⟨s, k, rfl, h, hk⟩
  | enum s a f => simp only [Ty.bitOk] at h; obtain ⟨k, hk⟩ := isInt_size s h; exact ⟨s, k, rfl, h, hk⟩
  | ptr _ => simp [Ty.bitOk] at h
  | arr _ _ => simp [Ty.bitOk] at h
  | struct _ _ => simp [Ty.bitOk] at h
  | union _ _ => simp [Ty.bitOk] at h

theorem bitVal_eq (ty : Ty) (v : Int) : bitVal ty v = ty.bitVal v := by
  cases ty <;> rfl

theorem bitVal_cases (ty : Ty) (v : Int) : ty.bitVal v = .int v ∨ ty.bitVal v = .enum v := by
  cases ty <;> simp [Ty.bitVal]

/-- inversion of the typing of a bit-field member -/
theorem hasTysB_bits {cfg : Cfg} {val : Val} {vs : Vals} {name an ty b r}
    (h : HasTysB cfg (.cons val vs) (.cons name an ty (some (b + 1)) r)) :
    ∃ i : Int, val = ty.bitVal i ∧ 0 ≤ i ∧ i < 2 ^ (b + 1) ∧ HasTysB cfg vs r := by
  cases h with
  | bitsInt h0 h1 h2 => exact ⟨_, rfl, h0, h1, h2⟩
  | bitsEnum h0 h1 h2 => exact ⟨_, rfl, h0, h1, h2⟩

end Cstruct.Core.Lemmas
