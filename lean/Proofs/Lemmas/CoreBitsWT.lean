/-
  Helper lemmas for `Proofs/CoreBits.lean`, part 7: totality of the packed writer for every type (`wt_ty`).
-/
import Proofs.Lemmas.CoreBitsWT0
namespace Cstruct.Core.Lemmas
open Cstruct Cstruct.Core Cstruct.C06 Cstruct.C06.Lemmas
open Cstruct.C05.Lemmas (encBytes encBytes_length)
set_option linter.unusedSimpArgs false

theorem wtTy_of_WR (cfg : Cfg) (ty : Ty) (h : ∀ v, HasTyB cfg v ty → ty.fragSB cfg = true → ∀ pos, WR cfg ty v pos) :
    WtTy cfg ty := by
  intro hS _ _ v hv pos
  obtain ⟨bs, k, w, s, l, _⟩ := h v hv hS pos
  exact ⟨bs, w, by rw [s, l]⟩

theorem wt_sc (cfg : Cfg) (s a) : WtTy cfg (.sc s a) :=
  wtTy_of_WR cfg _ fun v hv _ pos => wr_sc cfg s a v (hasTy_of_B_sc hv) pos

theorem wt_enum (cfg : Cfg) (b a f) : WtTy cfg (.enum b a f) :=
  wtTy_of_WR cfg _ fun v hv hS pos => wr_enum cfg b a f v hS (hasTy_of_B_enum hv) pos

theorem wt_ptr (cfg : Cfg) (t) : WtTy cfg (.ptr t) :=
  wtTy_of_WR cfg _ fun v hv hS pos => wr_ptr cfg t v hS (hasTy_of_B_ptr hv) pos

theorem wt_N (cfg : Cfg) (e : Ty) (hE : WtTy cfg e) (hS : e.fragSB cfg = true) (hU : e.uniformAlign false = true)
    (hD : e.defErr cfg = none) (k : Nat) (hk : e.size cfg = some k) :
    ∀ (n : Nat) (vs : Vals), HasTyNB cfg vs e n → ∀ pos, ∃ bs, writeN cfg e vs pos = .ok bs ∧ bs.length = n * k := by
  intro n
  induction n with
  | zero =>
    intro vs h pos
    cases h
    exact ⟨[], writeN_nil cfg e pos, by simp⟩
  | succ n ih =>
    intro vs h pos
    cases h with
    | @cons v vs' _ _ h1 h2 =>
      obtain ⟨bs1, w1, s1⟩ := hE hS hU hD v h1 pos
      rw [hk] at s1
      simp only [Option.some.injEq] at s1
      obtain ⟨bs2, w2, l2⟩ := ih vs' h2 (pos + bs1.length)
      refine ⟨bs1 ++ bs2, ?_, ?_⟩
      · rw [writeN_cons, w1]; simp only [Except.bind]; rw [w2]
      · rw [List.length_append, ← s1, l2, Nat.succ_mul]; omega

theorem wt_arr (cfg : Cfg) (e : Ty) (len : Len) (hE : WtTy cfg e) : WtTy cfg (.arr e len) := by
  intro hS hU hD v hv pos
  simp only [Ty.fragSB, Bool.and_eq_true] at hS
  simp only [Ty.uniformAlign] at hU
  simp only [Ty.defErr] at hD
  cases hv with
  | @chars a n b hl =>
    exact ⟨b, write_arr_chars cfg a n b pos, by simp only [Ty.size, Scalar.size, hl, Nat.mul_one]⟩
  | @arr _ n vs hne hN =>
    obtain ⟨k, hk⟩ := size_some_ty cfg e hS.2 hD
    obtain ⟨bs, w, l⟩ := wt_N cfg e hE hS.2 hU hD k hk n vs hN pos
    refine ⟨bs, ?_, by simp only [Ty.size, hk, l]⟩
    rw [write_arr_list, if_neg (by rw [hasTyNB_length cfg e n vs hN]; simp), w]

theorem wt_struct (cfg : Cfg) (al : Bool) (fs : Fields) (hF : WtIdle cfg fs) : WtTy cfg (.struct al fs) := by
  intro hS hU hD v hv pos
  simp only [Ty.fragSB] at hS
  simp only [Ty.uniformAlign, Bool.and_eq_true, beq_iff_eq] at hU
  obtain ⟨rfl, hU⟩ := hU
  simp only [Ty.defErr] at hD
  split at hD
  · cases hD
  rename_i hfd
  split at hD
  · cases hD
  rename_i r hl
  obtain ⟨sz, sa, offs⟩ := r
  cases hv with
  | @struct _ _ vs hvs =>
  obtain ⟨out, bbF, fl, hw, hfl, hs⟩ := hF hS hU hfd vs hvs LState.init sz sa offs hl (lidle_of_rem _ rfl fs) 0 rfl pos
  refine ⟨out ++ fl, ?_, ?_⟩
  · rw [write_struct]
    have : structLayout cfg false fs = .ok (sz, sa, offs) := hl
    rw [this]
    simp only [Except.bind, Nat.add_zero] at hw ⊢
    rw [hw]
    simp only [hfl, Bool.false_eq_true, if_false]
  · simp only [Ty.size, hl, hs, Nat.zero_add]

theorem wt_union (cfg : Cfg) (al fs) : WtTy cfg (.union al fs) := by
  intro hS; simp [Ty.fragSB] at hS

mutual
theorem wt_ty (cfg : Cfg) : ∀ ty : Ty, WtTy cfg ty
  | .sc s a => wt_sc cfg s a
  | .enum b a f => wt_enum cfg b a f
  | .ptr t => wt_ptr cfg t
  | .arr e len => wt_arr cfg e len (wt_ty cfg e)
  | .struct al fs => wt_struct cfg al fs (wt_idle cfg fs)
  | .union al fs => wt_union cfg al fs
theorem wt_idle (cfg : Cfg) : ∀ fs : Fields, WtIdle cfg fs
  | .nil => wt_idle_nil cfg
  | .cons name an ty none rest => wt_idle_cons_nb cfg name an ty rest (wt_ty cfg ty) (wt_idle cfg rest)
  | .cons _ _ _ (some 0) _ => fun hS => by simp [Fields.fragSB] at hS
  | .cons name an ty (some (b + 1)) rest => wt_idle_cons_bit cfg name an ty b rest (wt_idle cfg rest) (wt_pend cfg rest)
theorem wt_pend (cfg : Cfg) : ∀ fs : Fields, WtPend cfg fs
  | .nil => wt_pend_nil cfg
  | .cons name an ty none rest =>
    wt_pend_cons cfg name an ty none rest (wt_idle_cons_nb cfg name an ty rest (wt_ty cfg ty) (wt_idle cfg rest))
      (wt_idle cfg rest) (wt_pend cfg rest)
  | .cons _ _ _ (some 0) _ => fun hS => by simp [Fields.fragSB] at hS
  | .cons name an ty (some (b + 1)) rest =>
    wt_pend_cons cfg name an ty (some (b + 1)) rest
      (wt_idle_cons_bit cfg name an ty b rest (wt_idle cfg rest) (wt_pend cfg rest)) (wt_idle cfg rest) (wt_pend cfg rest)
end

end Cstruct.Core.Lemmas
