/-
  Helper lemmas for `Proofs/C03.lean`, part 3: single steps of the interpreted field loop (void field, field covered by a
  slot), the position relation, and the simulation of the slots of one block.
-/
import Proofs.Lemmas.C03Slot
namespace Cstruct.Compiler
open Cstruct Cstruct.Core.Lemmas

theorem hdOff_eq (offs : List (Option Nat)) : offs.head?.join = hdOff offs := by
  rcases offs with _ | ⟨_ | o, t⟩ <;> rfl

theorem fieldPos_some (cfg : Cfg) (al : Bool) (ty : Ty) (o start pos : Nat) :
    fieldPos cfg al ty (some o) start pos = start + o := by
  simp [fieldPos]

theorem fieldPos_none (cfg : Cfg) (al : Bool) (ty : Ty) (start pos : Nat) :
    fieldPos cfg al ty none start pos = if al = true then pos + padNat pos (ty.alignment cfg) else pos := by
  simp [fieldPos]

theorem isVoid_eq {ty : Ty} (h : isVoid ty = true) : ∃ a, ty = .sc .void a := by
  unfold isVoid at h
  split at h
  · exact ⟨_, rfl⟩
  · cases h

/-- the interpreted reader on a void field: positions the stream, binds `void`, records size 0, drops the bit buffer -/
theorem readFields_void (cfg : Cfg) (al : Bool) (name : String) (an : Bool) (ty : Ty) (rest : Fields) (offs : List (Option Nat))
    (start : Nat) (bb : BitBuf) (ctx : Ctx) (data : Bytes) (pos : Nat) (hv : isVoid ty = true) :
    readFields cfg al (.cons name an ty none rest) offs start bb ctx data pos =
      wrapR (Vals.cons .void) [(name, 0)]
        (readFields cfg al rest (offs.drop 1) start BitBuf.empty (ctx.set name .void) data
          (fieldPos cfg al ty (hdOff offs) start pos)) := by
  obtain ⟨a, rfl⟩ := isVoid_eq hv
  rw [readFields_cons_nobits _ _ _ _ _ _ _ _ _ _ _ _ _ (by rfl), read_sc, hdOff_eq]
  simp only [readScalar, Except.bind, Nat.sub_self]
  cases readFields cfg al rest (offs.drop 1) start BitBuf.empty (ctx.set name .void) data
      (fieldPos cfg al (.sc .void a) (hdOff offs) start pos) with
  | error e => rfl
  | ok r => rfl

/-- continue with the value of a slot -/
def afterSlot (r : Except Err Val) (f : Val → Res) : Res :=
  match r with
  | .error e => .error e
  | .ok v => f v

/-- the interpreted reader on a field that a validated slot covers -/
theorem readFields_slot (cfg : Cfg) (al : Bool) (name : String) (an : Bool) (ty : Ty) (rest : Fields) (offs : List (Option Nat))
    (start : Nat) (bb : BitBuf) (ctx : Ctx) (data : Bytes) (pos : Nat) (r : Except Err Val) (fsize : Nat)
    (hr : read cfg ty ctx data (fieldPos cfg al ty (hdOff offs) start pos) =
      slotRes r (fieldPos cfg al ty (hdOff offs) start pos + fsize)) :
    readFields cfg al (.cons name an ty none rest) offs start bb ctx data pos =
      afterSlot r fun v => wrapR (Vals.cons v) [(name, fsize)]
          (readFields cfg al rest (offs.drop 1) start BitBuf.empty (ctx.set name v) data
            (fieldPos cfg al ty (hdOff offs) start pos + fsize)) := by
  rw [readFields_cons_nobits _ _ _ _ _ _ _ _ _ _ _ _ _ (by rfl), hdOff_eq, hr]
  cases r with
  | error e => rfl
  | ok v =>
    simp only [slotRes, Except.bind, Nat.add_sub_cancel_left, afterSlot]
    cases readFields cfg al rest (offs.drop 1) start BitBuf.empty (ctx.set name v) data
      (fieldPos cfg al ty (hdOff offs) start pos + fsize) with
    | error e => rfl
    | ok r => rfl

/-- the compiled stream position against the interpreted reader's, with a pending alignment -/
def LaMatch (la : Option Nat) (cpos ipos : Nat) : Prop :=
  match la with
  | none => ipos = cpos
  | some a => cpos = ipos + padNat ipos a

theorem nextStatic_hd {name an ty bits rest offs} (h : nextStatic (.cons name an ty bits rest) offs = true) :
    ∃ o, hdOff offs = some o := by
  rcases offs with _ | ⟨_ | o, t⟩
  · simp [nextStatic] at h
  · simp [nextStatic] at h
  · exact ⟨o, rfl⟩

/-- where the interpreted reader is after a void field that the validator lets pass -/
theorem void_pos (cfg : Cfg) (al : Bool) (ty : Ty) (offs : List (Option Nat)) (start cpos ipos : Nat) (la : Option Nat)
    (name an bits rest)
    (hD : nextStatic (.cons name an ty bits rest) offs = true ∨ LaMatch la cpos ipos)
    (hok : match hdOff offs with | some o => cpos = start + o | none => al = true → ty.alignment cfg = 1)
    (hla : hdOff offs ≠ none → ∀ a', la = some a' → IsP2 a' ∧ a' ∣ cpos) :
    LaMatch la cpos (fieldPos cfg al ty (hdOff offs) start ipos) := by
  cases ho : hdOff offs with
  | some o =>
    rw [ho] at hok
    simp only at hok
    rw [fieldPos_some, ← hok]
    cases la with
    | none => rfl
    | some a' =>
      obtain ⟨h1, h2⟩ := hla (by rw [ho]; simp) a' rfl
      simp only [LaMatch, padNat_of_dvd h1 h2, Nat.add_zero]
  | none =>
    rw [ho] at hok
    simp only at hok
    rw [fieldPos_none]
    have hD' : LaMatch la cpos ipos := by
      rcases hD with h | h
      · obtain ⟨o, h⟩ := nextStatic_hd h
        rw [ho] at h; cases h
      · exact h
    by_cases hal : al = true
    · rw [if_pos hal, hok hal, padNat_one]; exact hD'
    · rw [if_neg hal]; exact hD'
/-! ### unfolding `execSlots` -/

theorem execSlots_nil (cfg : Cfg) (buf : Bytes) (items : List Item) (fs : Fields) (ctx : Ctx) :
    execSlots cfg buf items [] fs ctx = .ok (.nil, [], fs, ctx) := by
  rw [execSlots]

theorem execSlots_cons_nil (cfg : Cfg) (buf : Bytes) (items : List Item) (sl rest) (ctx : Ctx) :
    execSlots cfg buf items (sl :: rest) .nil ctx = .error .other := by
  rw [execSlots]

theorem execSlots_void (cfg : Cfg) (buf : Bytes) (items : List Item) (sl rest) (name an ty bits fs') (ctx : Ctx)
    (h : isVoid ty ∧ bits.isNone ∧ name ≠ sl.name) :
    execSlots cfg buf items (sl :: rest) (.cons name an ty bits fs') ctx =
      (execSlots cfg buf items (sl :: rest) fs' (ctx.set name .void)).map
        fun x => (Vals.cons .void x.1, x.2.1, x.2.2.1, x.2.2.2) := by
  rw [execSlots, if_pos h]
  cases execSlots cfg buf items (sl :: rest) fs' (ctx.set name .void) <;> rfl

theorem execSlots_bad (cfg : Cfg) (buf : Bytes) (items : List Item) (sl rest) (name an ty bits fs') (ctx : Ctx)
    (h : ¬(isVoid ty ∧ bits.isNone ∧ name ≠ sl.name)) (h2 : name ≠ sl.name ∨ bits.isSome) :
    execSlots cfg buf items (sl :: rest) (.cons name an ty bits fs') ctx = .error .other := by
  rw [execSlots, if_neg h, if_pos h2]

theorem execSlots_slot (cfg : Cfg) (buf : Bytes) (items : List Item) (sl rest) (name an ty bits fs') (ctx : Ctx)
    (h : ¬(isVoid ty ∧ bits.isNone ∧ name ≠ sl.name)) (h2 : ¬(name ≠ sl.name ∨ bits.isSome)) :
    execSlots cfg buf items (sl :: rest) (.cons name an ty bits fs') ctx =
      (slotVal cfg ty buf items sl).bind fun v =>
        (execSlots cfg buf items rest fs' (ctx.set name v)).map
          fun x => (Vals.cons v x.1, (name, sl.size) :: x.2.1, x.2.2.1, x.2.2.2) := by
  rw [execSlots, if_neg h, if_neg h2]
  cases slotVal cfg ty buf items sl with
  | error e => rfl
  | ok v =>
    simp only [Except.bind]
    cases execSlots cfg buf items rest fs' (ctx.set name v) <;> rfl

/-! ### the slots of a block -/

/-- the interpreted reader's state inside a block: before the first slot the relation of the plan walk holds, after a
    slot the interpreted reader is at the end of that slot -/
def SPre (bpos : Nat) (la : Option Nat) (first : Bool) (cur : Nat) (fs : Fields) (offs : List (Option Nat))
    (ipos : Nat) (ibb : BitBuf) : Prop :=
  if first = true then cur = 0 ∧ (nextStatic fs offs = true ∨ LaMatch la bpos ipos)
  else ipos = bpos + cur ∧ ibb = BitBuf.empty

def SlotsConcl (cfg : Cfg) (al : Bool) (data : Bytes) (start bpos : Nat) (la : Option Nat)
    (fs : Fields) (offs : List (Option Nat)) (ibb : BitBuf) (ctx : Ctx) (ipos : Nat)
    (fs' : Fields) (offs' : List (Option Nat)) (cur' : Nat) (first' : Bool)
    (c : Except Err (Vals × List (String × Nat) × Fields × Ctx)) : Prop :=
  match c with
  | .error _ => ∃ e', readFields cfg al fs offs start ibb ctx data ipos = .error e'
  | .ok (vs1, szs1, fs'', ctx') => fs'' = fs' ∧ ∃ zs ipos' ibb', nz zs = nz szs1 ∧
      readFields cfg al fs offs start ibb ctx data ipos =
        wrapR (exec.Vals.append vs1) zs (readFields cfg al fs' offs' start ibb' ctx' data ipos') ∧
      SPre bpos la first' cur' fs' offs' ipos' ibb' ∧ SubSizesAux cfg data start fs' offs'

theorem nz_cons_eq (n : String) (a b : Nat) (l l' : List (String × Nat)) (h : nz l = nz l') (hab : a = b) :
    nz ((n, a) :: l) = nz ((n, b) :: l') := by
  subst hab
  simp only [nz, List.filter_cons] at h ⊢
  rw [h]

theorem nz_cons_zero (n : String) (l : List (String × Nat)) : nz ((n, 0) :: l) = nz l := by
  simp [nz]

theorem slotsConcl_void {cfg al data start bpos la} {name an ty rest offs ibb ctx ipos fs' offs' cur' first'}
    {c : Except Err (Vals × List (String × Nat) × Fields × Ctx)} (hv : isVoid ty = true)
    (h : SlotsConcl cfg al data start bpos la rest (offs.drop 1) BitBuf.empty (ctx.set name .void)
      (fieldPos cfg al ty (hdOff offs) start ipos) fs' offs' cur' first' c) :
    SlotsConcl cfg al data start bpos la (.cons name an ty none rest) offs ibb ctx ipos fs' offs' cur' first'
      (c.map fun x => (Vals.cons .void x.1, x.2.1, x.2.2.1, x.2.2.2)) := by
  cases c with
  | error e =>
    obtain ⟨e', he⟩ := h
    exact ⟨e', by rw [readFields_void _ _ _ _ _ _ _ _ _ _ _ _ hv, he]; rfl⟩
  | ok x =>
    obtain ⟨vs1, szs1, fs'', ctx'⟩ := x
    obtain ⟨h1, zs, ipos', ibb', h2, h3, h4, h5⟩ := h
    refine ⟨h1, (name, 0) :: zs, ipos', ibb', ?_, ?_, h4, h5⟩
    · rw [nz_cons_zero]; exact h2
    · rw [readFields_void _ _ _ _ _ _ _ _ _ _ _ _ hv, h3, wrapR_wrapR]; rfl

theorem slotsConcl_slot {cfg al data start bpos la} {name an ty rest offs ibb ctx ipos fs' offs' cur' first'} {ssz fsize : Nat}
    (r : Except Err Val) (c : Val → Except Err (Vals × List (String × Nat) × Fields × Ctx)) (hss : ssz = fsize)
    (hr : read cfg ty ctx data (fieldPos cfg al ty (hdOff offs) start ipos) =
      slotRes r (fieldPos cfg al ty (hdOff offs) start ipos + fsize))
    (h : ∀ v, r = .ok v → SlotsConcl cfg al data start bpos la rest (offs.drop 1) BitBuf.empty (ctx.set name v)
      (fieldPos cfg al ty (hdOff offs) start ipos + fsize) fs' offs' cur' first' (c v)) :
    SlotsConcl cfg al data start bpos la (.cons name an ty none rest) offs ibb ctx ipos fs' offs' cur' first'
      (r.bind fun v => (c v).map fun x => (Vals.cons v x.1, (name, ssz) :: x.2.1, x.2.2.1, x.2.2.2)) := by
  have hrf := readFields_slot cfg al name an ty rest offs start ibb ctx data ipos r fsize hr
  cases r with
  | error e => exact ⟨e, hrf⟩
  | ok v =>
    have h := h v rfl
    simp only [Except.bind]
    simp only [afterSlot] at hrf
    cases hc : c v with
    | error e =>
      rw [hc] at h
      obtain ⟨e', he⟩ := h
      exact ⟨e', by rw [hrf, he]; rfl⟩
    | ok x =>
      rw [hc] at h
      obtain ⟨vs1, szs1, fs'', ctx'⟩ := x
      obtain ⟨h1, zs, ipos', ibb', h2, h3, h4, h5⟩ := h
      refine ⟨h1, (name, fsize) :: zs, ipos', ibb', ?_, ?_, h4, h5⟩
      · exact nz_cons_eq _ _ _ _ _ h2 hss.symm
      · rw [hrf, h3, wrapR_wrapR]; rfl


theorem wrapR_append_nil (r : Res) : wrapR (exec.Vals.append .nil) [] r = r := by
  cases r with
  | error e => rfl
  | ok x => rfl

/-- skipping a void field inside a block keeps the block relation -/
theorem void_spre (cfg : Cfg) (al : Bool) (start bpos : Nat) (la : Option Nat) (first : Bool) (cur : Nat)
    (name an ty bits rest) (offs : List (Option Nat)) (ipos : Nat) (ibb : BitBuf)
    (hpre : SPre bpos la first cur (.cons name an ty bits rest) offs ipos ibb)
    (hok : match hdOff offs with | some o => bpos + cur = start + o | none => al = true → ty.alignment cfg = 1)
    (hla : hdOff offs ≠ none → ∀ a', la = some a' → IsP2 a' ∧ a' ∣ bpos) :
    SPre bpos la first cur rest (offs.drop 1) (fieldPos cfg al ty (hdOff offs) start ipos) BitBuf.empty := by
  unfold SPre at hpre ⊢
  by_cases hf : first = true
  · rw [if_pos hf] at hpre ⊢
    obtain ⟨hc, hD⟩ := hpre
    subst hc
    refine ⟨rfl, Or.inr (void_pos cfg al ty offs start bpos ipos la name an bits rest hD ?_ hla)⟩
    cases ho : hdOff offs with
    | some o => rw [ho] at hok; simpa using hok
    | none => rw [ho] at hok; exact hok
  · rw [if_neg hf] at hpre ⊢
    obtain ⟨hi, _⟩ := hpre
    refine ⟨?_, rfl⟩
    cases ho : hdOff offs with
    | some o => rw [ho] at hok; rw [fieldPos_some]; simp only at hok; omega
    | none =>
      rw [ho] at hok
      rw [fieldPos_none]
      by_cases hal : al = true
      · rw [if_pos hal, hok hal, padNat_one]; omega
      · rw [if_neg hal]; exact hi

/-- where the interpreted reader reads a field covered by a slot -/
theorem slot_pos (cfg : Cfg) (al : Bool) (start bpos : Nat) (la : Option Nat) (first : Bool) (cur a : Nat)
    (name an ty bits rest) (offs : List (Option Nat)) (ipos : Nat) (ibb : BitBuf)
    (hpre : SPre bpos la first cur (.cons name an ty bits rest) offs ipos ibb)
    (hok : match hdOff offs with
      | some o => bpos + a = start + o
      | none => a = cur ∧ (if al = true then (if first = true then la = some (ty.alignment cfg) ∨ (la = none ∧ ty.alignment cfg = 1)
          else ty.alignment cfg = 1) else la = none)) :
    fieldPos cfg al ty (hdOff offs) start ipos = bpos + a := by
  cases ho : hdOff offs with
  | some o => rw [ho] at hok; rw [fieldPos_some]; simp only at hok; omega
  | none =>
    rw [ho] at hok
    obtain ⟨hac, hc⟩ := hok
    subst hac
    rw [fieldPos_none]
    unfold SPre at hpre
    by_cases hf : first = true
    · rw [if_pos hf] at hpre
      obtain ⟨hc0, hD⟩ := hpre
      subst hc0
      have hD' : LaMatch la bpos ipos := by
        rcases hD with h | h
        · obtain ⟨o, h⟩ := nextStatic_hd h
          rw [ho] at h; cases h
        · exact h
      by_cases hal : al = true
      · rw [if_pos hal, if_pos hf] at hc
        rw [if_pos hal]
        rcases hc with hc | ⟨hc1, hc2⟩
        · rw [hc] at hD'; simp only [LaMatch] at hD'; omega
        · rw [hc1] at hD'; simp only [LaMatch] at hD'; rw [hc2, padNat_one]; omega
      · rw [if_neg hal] at hc ⊢
        rw [hc] at hD'; simp only [LaMatch] at hD'; omega
    · rw [if_neg hf] at hpre
      obtain ⟨hi, _⟩ := hpre
      by_cases hal : al = true
      · rw [if_pos hal, if_neg hf] at hc
        rw [if_pos hal, hc, padNat_one]; omega
      · rw [if_neg hal]; exact hi

theorem slots_sim (cfg : Cfg) (al : Bool) (data buf : Bytes) (start bpos size pe : Nat) (its : List Item)
    (bstart la : Option Nat)
    (hbuf : readExact data bpos size = .ok (buf, pe))
    (hbs : ∀ k, bstart = some k → bpos = start + k)
    (hla : bstart ≠ none → ∀ a', la = some a' → IsP2 a' ∧ a' ∣ bpos) :
    ∀ slots fs offs first cur fs' offs' cur' ctx ipos ibb,
      slotsOK cfg al its size bstart la slots fs offs first cur = some (fs', offs', cur') →
      SPre bpos la first cur fs offs ipos ibb → SubSizesAux cfg data start fs offs →
      SlotsConcl cfg al data start bpos la fs offs ibb ctx ipos fs' offs' cur' (first && slots.isEmpty)
        (execSlots cfg buf its slots fs ctx) := by
  intro slots fs offs first cur
  fun_induction slotsOK cfg al its size bstart la slots fs offs first cur
  all_goals intro fs' offs' cur' ctx ipos ibb h hpre hsub
  case case1 =>
    cases h
    rw [execSlots_nil]
    exact ⟨rfl, [], ipos, ibb, rfl, (wrapR_append_nil _).symm, by simpa using hpre, hsub⟩
  case case3 sl rest offs first cur name an ty bits rest' fo hv ok hok ih =>
    obtain ⟨hv1, hv2, hv3⟩ := hv
    have hbits : bits = none := by cases bits <;> simp at hv2 ⊢
    subst hbits
    rw [execSlots_void _ _ _ _ _ _ _ _ _ _ _ ⟨hv1, hv2, hv3⟩]
    have hok' : (match hdOff offs with | some o => bpos + cur = start + o | none => al = true → ty.alignment cfg = 1) ∧
        (hdOff offs ≠ none → bstart ≠ none) := by
      simp only [ok, fo] at hok
      cases ho : hdOff offs with
      | some o =>
        rw [ho] at hok
        cases hb : bstart with
        | none => rw [hb] at hok; simp at hok
        | some k =>
          rw [hb] at hok
          simp only [beq_iff_eq] at hok
          have := hbs k hb
          exact ⟨by simp only; omega, by simp⟩
      | none =>
        rw [ho] at hok
        simp only [Bool.or_eq_true, Bool.not_eq_true', beq_iff_eq] at hok
        refine ⟨?_, by simp⟩
        intro hal
        rcases hok with h | h
        · rw [hal] at h; cases h
        · exact h
    have hpre' := void_spre cfg al start bpos la first cur name an ty none rest' offs ipos ibb hpre hok'.1
      (fun h => hla (hok'.2 h))
    exact slotsConcl_void hv1 (ih fs' offs' cur' (ctx.set name .void) _ _ h hpre' hsub.2)
  case case7 sl rest offs first cur name an ty bits rest' fo hv hnb a0 b0 fsize hsz hrange a b hab hchk fa okPos hok ih =>
    have hbits : bits = none := by
      cases bits with
      | none => rfl
      | some _ => simp at hnb
    subst hbits
    rw [execSlots_slot _ _ _ _ _ _ _ _ _ _ _ hv hnb]
    simp only [ne_eq, gt_iff_lt, not_or, Decidable.not_not, Nat.not_lt] at hchk
    obtain ⟨hc1, hc2, hc3, hc4⟩ := hchk
    -- position
    have hok' : (match hdOff offs with
        | some o => bpos + a = start + o
        | none => a = cur ∧ (if al = true then (if first = true then la = some (ty.alignment cfg) ∨ (la = none ∧ ty.alignment cfg = 1)
            else ty.alignment cfg = 1) else la = none)) := by
      simp only [okPos, fo, fa] at hok
      cases ho : hdOff offs with
      | some o =>
        rw [ho] at hok
        cases hb : bstart with
        | none => rw [hb] at hok; simp at hok
        | some k =>
          rw [hb] at hok
          simp only [beq_iff_eq] at hok
          have := hbs k hb
          simp only; omega
      | none =>
        rw [ho] at hok
        cases hb : bstart with
        | some k => rw [hb] at hok; simp at hok
        | none =>
          rw [hb] at hok
          simp only [Bool.and_eq_true, beq_iff_eq] at hok
          refine ⟨hok.1, ?_⟩
          have h2 := hok.2
          clear hok hpre ih
          cases al <;> cases first <;> simpa using h2
    have hq := slot_pos cfg al start bpos la first cur a name an ty none rest' offs ipos ibb hpre hok'
    -- window
    have hwin : Win data buf (fieldPos cfg al ty (hdOff offs) start ipos) a0 fsize ∧ b = a + fsize := by
      by_cases hz : fsize = 0
      · subst hz
        refine ⟨win_zero _ _ _ _, ?_⟩
        simp only [dite_true, fo] at hab
        split at hab <;> cases hab <;> rfl
      · simp only [hz, dite_false, Prod.mk.injEq] at hab
        obtain ⟨rfl, rfl⟩ := hab
        have hb0 : b0 = a0 + fsize := by omega
        rw [hq]
        exact ⟨win_of_block hbuf a0 fsize (by omega), hb0⟩
    have hr := slot_read cfg ty its sl cur a0 b0 fsize buf data _ ctx hrange hsz hwin.1
    have := slotsConcl_slot (cfg := cfg) (al := al) (data := data) (start := start) (bpos := bpos) (la := la) (name := name)
      (an := an) (rest := rest') (offs := offs) (ibb := ibb) (fs' := fs') (offs' := offs') (cur' := cur') (first' := false)
      (slotVal cfg ty buf its sl) (fun v => execSlots cfg buf its rest rest' (ctx.set name v)) hc1 hr
      (fun v _ => by
        have := ih fs' offs' cur' (ctx.set name v) (fieldPos cfg al ty (hdOff offs) start ipos + fsize) BitBuf.empty h
          (by unfold SPre; rw [if_neg (by simp)]; exact ⟨by rw [hq, hwin.2]; omega, rfl⟩) hsub.2
        simpa using this)
    simpa using this
  all_goals cases h

end Cstruct.Compiler
