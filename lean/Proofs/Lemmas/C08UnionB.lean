/-
  Helper lemmas for `Proofs/C08Union.lean`, part 2: the extension theorem (`Core.Lemmas.ext_read`) with the union case.
  A covered union either gets its complete buffer or fails, so its private buffer, hence its value, does not change
  when the input is extended; everything else is the induction of `Proofs/Lemmas/CoreUnfold.lean` again.
-/
import Proofs.Lemmas.C08UnionA
namespace Cstruct.C08.Lemmas
open Cstruct Cstruct.Core Cstruct.Core.Lemmas

theorem sread_prefix (d t : Bytes) (pos n : Nat) : sread d pos n <+: sread (d ++ t) pos n := by
  unfold sread
  rw [List.drop_append, List.take_append]
  exact List.prefix_append _ _

/-- a covered union that could be read got its complete buffer -/
theorem tight_full (cfg : Cfg) (al : Bool) (fs : Fields) (ht : Fields.tightUnion cfg al fs = true) (sz : Nat)
    (hsz : (Ty.union al fs).size cfg = some sz) (ctx : Ctx) (buf : Bytes) (vs : Vals)
    (h : readMembers cfg fs ctx buf = .ok vs) : sz ≤ buf.length := by
  unfold Fields.tightUnion at ht
  rw [hsz] at ht
  exact rig_cover cfg fs sz ht ctx buf vs h

theorem plainU_nullTerm (cfg : Cfg) (e : Ty) (h : (Ty.arr e .nullTerm).plainU cfg = true) :
    (Ty.arr e .nullTerm).plain = true := by
  cases e <;> simp [Ty.plainU, Ty.plain] at h ⊢ <;> exact h

theorem readLe_union (cfg : Cfg) (al : Bool) (fs : Fields) (ht : Fields.tightUnion cfg al fs = true) (d t : Bytes) :
    ReadLe cfg (.union al fs) d (d ++ t) := by
  intro ctx pos r h
  rw [read_union] at h ⊢
  cases hsz : (Ty.union al fs).size cfg with
  | none => rw [hsz] at h; cases h
  | some sz =>
    rw [hsz] at h
    simp only [] at h ⊢
    obtain ⟨vs, h1, _⟩ := bind_ok h
    have hl := tight_full cfg al fs ht sz hsz [] _ vs h1
    have hl2 := sread_length d pos sz
    rw [sread_append d t pos sz (by omega)]
    exact h

mutual
theorem extU_read (cfg : Cfg) (d t : Bytes) : ∀ (ty : Ty), ty.plainU cfg = true → ReadLe cfg ty d (d ++ t)
  | .sc s a, _ => readLe_sc cfg s a d t
  | .enum b a f, _ => readLe_enum cfg b a f d t
  | .ptr ty, _ => readLe_ptr cfg ty d t
  | .arr e len, hp => by
    have hpe : e.plainU cfg = true := by
      simp only [Ty.plainU, Bool.and_eq_true] at hp; exact hp.2
    have ih := extU_read cfg d t e hpe
    intro ctx pos r h
    cases len with
    | fixed n =>
      rw [read_arr_fixed] at h ⊢
      exact readArray_le cfg e d t ih n ctx pos r h
    | expr toks =>
      rw [read_arr_expr] at h ⊢
      obtain ⟨n, h1, h2⟩ := bind_ok h
      rw [h1]; simp only [Except.bind]
      exact readArray_le cfg e d t ih n ctx pos r h2
    | nullTerm =>
      rw [read_arr_null] at h ⊢
      exact read0_le cfg e d t (plainU_nullTerm cfg e hp) ctx pos r h
    | eof => simp [Ty.plainU] at hp
  | .struct al fs, hp => by
    intro ctx pos r h
    rw [read_struct] at h ⊢
    obtain ⟨⟨sz, salign, offs⟩, h1, h2⟩ := bind_ok h
    obtain ⟨⟨vs, szs, p⟩, h3, h4⟩ := bind_ok h2
    rw [h1]; simp only [Except.bind]
    have hpf : Fields.plainU cfg fs = true := by simpa [Ty.plainU] using hp
    rw [extU_fields cfg d t fs hpf al offs pos BitBuf.empty [] pos _ h3]
    exact h4
  | .union al fs, hp => by
    simp only [Ty.plainU] at hp
    exact readLe_union cfg al fs hp d t
theorem extU_fields (cfg : Cfg) (d t : Bytes) : ∀ (fs : Fields), Fields.plainU cfg fs = true →
    ∀ al offs start bb ctx pos r, readFields cfg al fs offs start bb ctx d pos = .ok r →
      readFields cfg al fs offs start bb ctx (d ++ t) pos = .ok r
  | .nil, _ => by
    intro al offs start bb ctx pos r h
    rw [readFields_nil] at h ⊢; exact h
  | .cons name an ty bits rest, hp => by
    intro al offs start bb ctx pos r h
    simp only [Fields.plainU, Bool.and_eq_true] at hp
    have ih1 := extU_read cfg d t ty hp.1
    have ih2 := extU_fields cfg d t rest hp.2
    cases hb : isBitW bits with
    | false =>
      rw [readFields_cons_nobits _ _ _ _ _ _ _ _ _ _ _ _ _ hb] at h ⊢
      obtain ⟨⟨v, p1⟩, h1, h2⟩ := bind_ok h
      obtain ⟨⟨vs, szs, p'⟩, h3, h4⟩ := bind_ok h2
      rw [ih1 _ _ _ h1]; simp only [Except.bind]
      rw [ih2 _ _ _ _ _ _ _ h3]; exact h4
    | true =>
      obtain ⟨b, rfl⟩ : ∃ b, bits = some (b + 1) := by
        cases bits with
        | none => simp [isBitW] at hb
        | some b => cases b with
          | zero => simp [isBitW] at hb
          | succ b => exact ⟨b, rfl⟩
      rw [readFields_cons_bits] at h ⊢
      cases hbb : ty.bitBase with
      | none => rw [hbb] at h; cases h
      | some ft =>
        rw [hbb] at h; simp only [] at h ⊢
        obtain ⟨⟨bb1, p1⟩, h1, h2⟩ := bind_ok h
        rw [loadUnit_append cfg ft bb d t _ _ h1]; simp only [Except.bind]
        cases htk : bb1.take cfg.endian (b + 1) with
        | none => simp only [htk] at h2; cases h2
        | some vb =>
          obtain ⟨v, bb2⟩ := vb
          simp only [htk] at h2 ⊢
          obtain ⟨⟨vs, szs, p'⟩, h3, h4⟩ := bind_ok h2
          rw [ih2 _ _ _ _ _ _ _ h3]; exact h4
end

/-- members of a union read from a longer buffer: the same values (members in `plainU`) -/
theorem extU_members (cfg : Cfg) (b t : Bytes) : ∀ (fs : Fields), Fields.plainU cfg fs = true →
    ∀ ctx vs, readMembers cfg fs ctx b = .ok vs → readMembers cfg fs ctx (b ++ t) = .ok vs
  | .nil, _ => by
    intro ctx vs h
    rw [readMembers_nil] at h ⊢; exact h
  | .cons name an ty bits rest, hp => by
    intro ctx vs h
    simp only [Fields.plainU, Bool.and_eq_true] at hp
    rw [readMembers_cons] at h ⊢
    obtain ⟨⟨v, p⟩, h1, h2⟩ := bind_ok h
    obtain ⟨vs', h3, h4⟩ := bind_ok h2
    rw [extU_read cfg b t ty hp.1 _ _ _ h1]
    simp only [Except.bind]
    rw [extU_members cfg b t rest hp.2 _ _ h3]
    exact h4

/-- `plain` is the union-free part of `plainU` -/
theorem plainU_of_plain (cfg : Cfg) : ∀ ty : Ty, ty.plain = true → ty.plainU cfg = true := by
  intro ty
  exact (Ty.rec (motive_1 := fun ty => ty.plain = true → ty.plainU cfg = true)
    (motive_2 := fun fs => Fields.plain fs = true → Fields.plainU cfg fs = true)
    (fun _ _ _ => rfl) (fun _ _ _ _ => rfl) (fun _ _ _ => rfl)
    (fun e len ih h => by
      simp only [Ty.plain, Bool.and_eq_true] at h
      simp only [Ty.plainU, Bool.and_eq_true]
      exact ⟨h.1, ih h.2⟩)
    (fun _ fs ih h => by simp only [Ty.plain] at h; simp only [Ty.plainU]; exact ih h)
    (fun _ fs _ h => by simp [Ty.plain] at h)
    (fun _ => rfl)
    (fun n an t bits r iht ihr h => by
      simp only [Fields.plain, Bool.and_eq_true] at h
      simp only [Fields.plainU, Bool.and_eq_true]
      exact ⟨iht h.1, ihr h.2⟩) ty)

end Cstruct.C08.Lemmas
