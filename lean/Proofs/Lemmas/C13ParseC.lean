/-
  C13, definition parser — helper lemmas (3): what the recognisers NAME, DEFS, ENUM, DEFINE, CONFIG_FLAG compute on a
  well-formed lexeme followed by blanks (they swallow them) and `;`.  Generic in the white-space class (`SpOK`): the same
  lemmas serve the scanner (`isWsA`) and the handlers' re-match of the token value (`isWs`).
-/
import Proofs.Lemmas.C13ParseB

namespace Cstruct.DefParser.C13
open Cstruct.DefParser

theorem noHead_blank_then {p : Char → Bool} (s : List Char) (d : Char) (rest : List Char)
    (hs : ∀ c, isWsA c = true → p c = false) (hb : blank s = true) (hd : p d = false) : noHead p (s ++ d :: rest) = true := by
  cases s with
  | nil => simp [noHead, hd]
  | cons c s =>
    simp only [blank, List.all_cons, Bool.and_eq_true] at hb
    simp [noHead, hs c hb.1]

theorem wsA_not (c : Char) (h : isWsA c = true) :
    isWord c = false ∧ c ≠ ':' ∧ c ≠ '[' ∧ c ≠ ';' ∧ c ≠ ',' ∧ c ≠ ']' ∧ c ≠ '*' ∧ c.isDigit = false ∧ c ≠ '{' ∧ c ≠ '}' ∧ c ≠ '#' := by
  rcases wsA_cases c h with rfl | rfl | rfl | rfl | rfl | rfl <;> decide

theorem takeWhile_stop (p : Char → Bool) (s : List Char) (d : Char) (rest : List Char) (hd : p d = false) :
    (s ++ d :: rest).takeWhile p = s.takeWhile p := by
  induction s with
  | nil => simp [List.takeWhile, hd]
  | cons e s ih =>
    by_cases he : p e = true
    · simp [List.takeWhile, he, ih]
    · simp [List.takeWhile, he]

-- ------------------------------------------------------------------------------------------------ NAME
theorem nameTail_blank {sp : Char → Bool} (hs : SpOK sp) (s rest : List Char) (hb : blank s = true) :
    nameTail sp (s ++ ';' :: rest) = some (s, ';' :: rest) := by
  have h := tw_app sp s (';' :: rest) (blank_sp hs s hb) (by simp [noHead, hs.semi])
  simp [nameTail, h.1, h.2]

theorem splitLastClose_none (t : List Char) (h : t.all (· != ']') = true) : splitLastClose t = none := by
  induction t with
  | nil => rfl
  | cons c t ih =>
    simp only [List.all_cons, Bool.and_eq_true, bne_iff_ne] at h
    simp [splitLastClose, ih h.2, h.1]

theorem splitLastClose_app (c t : List Char) (h : t.all (· != ']') = true) : splitLastClose (c ++ ']' :: t) = some (c, t) := by
  induction c with
  | nil => simp [splitLastClose, splitLastClose_none t h]
  | cons d c ih => simp [splitLastClose, ih]

theorem nameCount_some {sp : Char → Bool} (hs : SpOK sp) (c s rest : List Char)
    (hc : c.all (fun c => c != ';' && c != '\n') = true) (hb : blank s = true) :
    nameCount sp ('[' :: c ++ ']' :: s ++ ';' :: rest) = some (some c, '[' :: c ++ ']' :: s, ';' :: rest) := by
  have hR : (c ++ ']' :: s ++ ';' :: rest).takeWhile (fun c => c != ';' && c != '\n')
      = c ++ ']' :: (s ++ ';' :: rest).takeWhile (fun c => c != ';' && c != '\n') := by
    have := (takeWhile_app_all (fun c => c != ';' && c != '\n') (c ++ [']']) (s ++ ';' :: rest) (by simp [hc])).1
    simpa using this
  have hT : ((s ++ ';' :: rest).takeWhile (fun c => c != ';' && c != '\n')).all (· != ']') = true := by
    simp only [List.all_eq_true, bne_iff_ne]
    intro d hd
    -- the run stops at `;`, so d lies in s
    have : d ∈ s := by
      rw [takeWhile_stop _ s ';' rest (by decide)] at hd
      exact (List.takeWhile_sublist _).subset hd
    simp only [blank, List.all_eq_true] at hb
    exact (wsA_not d (hb d this)).2.2.2.2.2.1
  unfold nameCount
  simp only [List.cons_append, List.append_assoc]
  have hR' : (c ++ (']' :: (s ++ ';' :: rest))).takeWhile (fun c => c != ';' && c != '\n')
      = c ++ ']' :: (s ++ ';' :: rest).takeWhile (fun c => c != ';' && c != '\n') := by simpa using hR
  rw [hR', splitLastClose_app _ _ hT]
  have hdrop : (c ++ (']' :: (s ++ ';' :: rest))).drop (c.length + 1) = s ++ ';' :: rest := by
    rw [show c ++ (']' :: (s ++ ';' :: rest)) = (c ++ [']']) ++ (s ++ ';' :: rest) by simp]
    rw [List.drop_append_of_le_length (by simp)]
    simp
  simp only [hdrop, nameTail_blank hs s rest hb]

theorem nameCount_none {sp : Char → Bool} (hs : SpOK sp) (s rest : List Char) (hb : blank s = true) :
    nameCount sp (s ++ ';' :: rest) = some (none, s, ';' :: rest) := by
  unfold nameCount
  cases s with
  | nil => simp [nameTail, hs.semi]
  | cons d s =>
    have hd : isWsA d = true := by simp only [blank, List.all_cons, Bool.and_eq_true] at hb; exact hb.1
    have hne : d ≠ '[' := (wsA_not d hd).2.2.1
    have := nameTail_blank hs (d :: s) rest hb
    split
    · rename_i heq; simp at heq; exact absurd heq.1 hne
    · simp only [this]

theorem nameBits_some {sp : Char → Bool} (hs : SpOK sp) (a b ds Z : List Char) (ha : blank a = true) (hb : blank b = true)
    (hne : ds ≠ []) (hds : ds.all Char.isDigit = true) (hZ : noHead Char.isDigit Z = true) :
    nameBits sp (a ++ ':' :: b ++ ds ++ Z) = some (ds, a ++ ':' :: b ++ ds, Z) := by
  obtain ⟨d, ds', rfl⟩ := List.exists_cons_of_ne_nil hne
  have hd : sp d = false := by
    simp only [List.all_cons, Bool.and_eq_true] at hds
    exact hs.word d (digit_word d hds.1)
  have h1 := tw_app sp a (':' :: (b ++ (d :: ds') ++ Z)) (blank_sp hs a ha) (by simp [noHead, hs.colon])
  have h2 := tw_app sp b ((d :: ds') ++ Z) (blank_sp hs b hb) (by simp [noHead, hd])
  have h3 := tw_app Char.isDigit (d :: ds') Z hds hZ
  unfold nameBits
  have e : a ++ ':' :: b ++ (d :: ds') ++ Z = a ++ ':' :: (b ++ (d :: ds') ++ Z) := by simp
  rw [e, h1.2]
  simp only [h1.1]
  have e2 : b ++ (d :: ds') ++ Z = b ++ ((d :: ds') ++ Z) := by simp
  rw [e2, h2.2, h2.1, h3.1, h3.2]
  simp

theorem nameBits_none (sp : Char → Bool) (Z : List Char) (h : (Z.dropWhile sp).head? ≠ some ':') : nameBits sp Z = none := by
  unfold nameBits
  split
  · rename_i heq; rw [heq] at h; simp at h
  · rfl

theorem namePre_lexeme {sp : Char → Bool} (hs : SpOK sp) (pre X : List Char) (hpre : preOK pre = true)
    (hX : ∃ c r, X = c :: r ∧ isWord c = true) : namePre sp (pre ++ X) = pre := by
  obtain ⟨c, r, rfl, hc⟩ := hX
  have hcs : c ≠ '*' := fun e => by subst e; exact absurd hc (by decide)
  cases pre with
  | nil => exact namePre_ne sp c r hcs
  | cons p pre =>
    simp only [preOK, Bool.and_eq_true, beq_iff_eq] at hpre
    obtain ⟨rfl, hall⟩ := hpre
    have hall' : pre.all (fun c => c == '*' || sp c) = true := by
      simp only [List.all_eq_true, Bool.or_eq_true, beq_iff_eq] at hall ⊢
      exact fun d hd => (hall d hd).imp id (hs.blankA d)
    have := takeWhile_app (fun c => c == '*' || sp c) pre (c :: r) hall' (by simp [noHead, hcs, hs.word c hc])
    simp [namePre, this]

theorem noHead_word_nameRest (bits : Option (List Char × List Char × List Char)) (cnt : Option (List Char)) (s rest : List Char)
    (hbits : (match bits with | none => true | some (a, b, ds) => blank a && blank b && !ds.isEmpty && ds.all Char.isDigit) = true)
    (hb : blank s = true) : noHead isWord (bitsText bits ++ countText cnt ++ s ++ ';' :: rest) = true := by
  have hw : ∀ c, isWsA c = true → isWord c = false := fun c h => (wsA_not c h).1
  cases bits with
  | some t =>
    obtain ⟨a, b, ds⟩ := t
    simp only [Bool.and_eq_true] at hbits
    have := noHead_blank_then (p := isWord) a ':' (b ++ ds ++ countText cnt ++ s ++ ';' :: rest) hw hbits.1.1.1 (by decide)
    simpa [bitsText] using this
  | none =>
    cases cnt with
    | some c => simp [bitsText, countText, noHead]; decide
    | none => simpa [bitsText, countText] using noHead_blank_then (p := isWord) s ';' rest hw hb (by decide)

theorem matchName_lexeme {sp : Char → Bool} (hs : SpOK sp) (pre w : List Char) (bits : Option (List Char × List Char × List Char))
    (cnt : Option (List Char)) (hwf : (Lexeme.name pre w bits cnt).wf = true) (s rest : List Char) (hb : blank s = true) :
    matchName sp ((Lexeme.name pre w bits cnt).text ++ s ++ ';' :: rest)
      = some (⟨pre ++ w, bits.map (·.2.2), cnt⟩, (Lexeme.name pre w bits cnt).text ++ s, ';' :: rest) := by
  simp only [Lexeme.wf, Bool.and_eq_true, isWordStr] at hwf
  obtain ⟨⟨⟨⟨hpre', -⟩, hwne, hw⟩, hbits⟩, hcnt⟩ := hwf
  have hwne' : w ≠ [] := by intro e; subst e; simp at hwne
  obtain ⟨c, w', rfl⟩ := List.exists_cons_of_ne_nil hwne'
  have hc : isWord c = true := by simp only [List.all_cons, Bool.and_eq_true] at hw; exact hw.1
  let Y := bitsText bits ++ countText cnt ++ s ++ ';' :: rest
  have hY : noHead isWord Y = true := noHead_word_nameRest bits cnt s rest hbits hb
  have etext : (Lexeme.name pre (c :: w') bits cnt).text ++ s ++ ';' :: rest = pre ++ ((c :: w') ++ Y) := by
    simp [Lexeme.text, Y]
  rw [etext]
  unfold matchName
  have h0 : namePre sp (pre ++ ((c :: w') ++ Y)) = pre := namePre_lexeme hs pre _ hpre' ⟨c, w' ++ Y, rfl, hc⟩
  have h1 := tw_app isWord (c :: w') Y hw hY
  simp only [h0, List.drop_left, h1.1, h1.2, List.isEmpty_cons, Bool.false_eq_true, if_false]
  -- bits
  cases bits with
  | some t =>
    obtain ⟨a, b, ds⟩ := t
    simp only [Bool.and_eq_true, Bool.not_eq_true', List.isEmpty_eq_false_iff] at hbits
    obtain ⟨⟨⟨ha, hbb⟩, hdne⟩, hds⟩ := hbits
    have hZ : noHead Char.isDigit (countText cnt ++ s ++ ';' :: rest) = true := by
      cases cnt with
      | some c => simp [countText, noHead]
      | none =>
        simpa [countText] using noHead_blank_then (p := Char.isDigit) s ';' rest (fun c h => (wsA_not c h).2.2.2.2.2.2.2.1) hb (by decide)
    have hbm := nameBits_some hs a b ds (countText cnt ++ s ++ ';' :: rest) ha hbb hdne hds hZ
    have eY : Y = a ++ ':' :: b ++ ds ++ (countText cnt ++ s ++ ';' :: rest) := by simp [Y, bitsText]
    rw [eY, hbm]
    cases cnt with
    | some c =>
      have := nameCount_some hs c s rest hcnt hb
      simp only [countText, List.cons_append, List.append_assoc, List.nil_append] at this ⊢
      simp [this, Lexeme.text, bitsText, countText]
    | none =>
      have := nameCount_none hs s rest hb
      simp only [countText, List.nil_append]
      simp [this, Lexeme.text, bitsText, countText]
  | none =>
    have hbn : nameBits sp Y = none := by
      apply nameBits_none
      cases cnt with
      | some c => simp [Y, bitsText, countText, hs.lbr]
      | none =>
        have := (tw_app sp s (';' :: rest) (blank_sp hs s hb) (by simp [noHead, hs.semi])).2
        simp [Y, bitsText, countText, this]
    rw [hbn]
    cases cnt with
    | some c =>
      have := nameCount_some hs c s rest hcnt hb
      simp only [Y, bitsText, countText, List.cons_append, List.append_assoc, List.nil_append] at this ⊢
      simp [this, Lexeme.text, bitsText, countText]
    | none =>
      have := nameCount_none hs s rest hb
      simp only [Y, bitsText, countText, List.nil_append]
      simp [this, Lexeme.text, bitsText, countText]

-- ------------------------------------------------------------------------------------------------ DEFS
theorem noHead_word_more (more : List (List Char × List Char × List Char)) (s rest : List Char) (hm : moreOK more = true)
    (hb : blank s = true) : noHead isWord (moreText more ++ s ++ ';' :: rest) = true := by
  have hw : ∀ c, isWsA c = true → isWord c = false := fun c h => (wsA_not c h).1
  cases more with
  | nil => simpa [moreText] using noHead_blank_then (p := isWord) s ';' rest hw hb (by decide)
  | cons t more =>
    obtain ⟨a, b, w⟩ := t
    simp only [moreOK, Bool.and_eq_true] at hm
    have := noHead_blank_then (p := isWord) a ',' (b ++ w ++ moreText more ++ s ++ ';' :: rest) hw hm.1.1.1 (by decide)
    simpa [moreText] using this

theorem defsLoop_more {sp : Char → Bool} (hs : SpOK sp) : ∀ (more : List (List Char × List Char × List Char)) (fuel : Nat)
    (s rest : List Char), moreOK more = true → blank s = true → more.length < fuel →
    defsLoop sp fuel (moreText more ++ s ++ ';' :: rest) = some (moreText more, more.length, s ++ ';' :: rest)
  | [], fuel + 1, s, rest, _, hb, _ => by
    have h := tw_app sp s (';' :: rest) (blank_sp hs s hb) (by simp [noHead, hs.semi])
    simp [defsLoop, moreText, h.2]
  | (a, b, w) :: more, fuel + 1, s, rest, hm, hb, hf => by
    simp only [moreOK, Bool.and_eq_true, isWordStr, Bool.not_eq_true', List.isEmpty_eq_false_iff] at hm
    obtain ⟨⟨⟨ha, hbb⟩, hwne, hw⟩, hmore⟩ := hm
    obtain ⟨c, w', rfl⟩ := List.exists_cons_of_ne_nil hwne
    have hc : sp c = false := by simp only [List.all_cons, Bool.and_eq_true] at hw; exact hs.word c hw.1
    let M := moreText more ++ s ++ ';' :: rest
    have e : moreText ((a, b, c :: w') :: more) ++ s ++ ';' :: rest = a ++ ',' :: (b ++ ((c :: w') ++ M)) := by
      simp [moreText, M]
    have h1 := tw_app sp a (',' :: (b ++ ((c :: w') ++ M))) (blank_sp hs a ha) (by simp [noHead, hs.comma])
    have h2 := tw_app sp b ((c :: w') ++ M) (blank_sp hs b hbb) (by simp [noHead, hc])
    have h3 := tw_app isWord (c :: w') M hw (noHead_word_more more s rest hmore hb)
    have ih := defsLoop_more hs more fuel s rest hmore hb (by simpa using hf)
    rw [e]
    unfold defsLoop
    simp only [h1.1, h1.2, h2.1, h2.2, h3.1, h3.2, List.isEmpty_cons, Bool.false_eq_true, if_false]
    simp only [M] at ih ⊢
    rw [ih]
    simp [moreText]

theorem more_length (more : List (List Char × List Char × List Char)) : more.length ≤ (moreText more).length := by
  induction more with
  | nil => simp
  | cons t more ih => obtain ⟨a, b, w⟩ := t; simp [moreText]; omega

theorem matchDefs_lexeme {sp : Char → Bool} (hs : SpOK sp) (lead first : List Char) (more : List (List Char × List Char × List Char))
    (hwf : (Lexeme.defs lead first more).wf = true) (s rest : List Char) (hb : blank s = true) :
    matchDefs sp true ((Lexeme.defs lead first more).text ++ s ++ ';' :: rest)
      = some ((Lexeme.defs lead first more).text ++ s, ';' :: rest) := by
  simp only [Lexeme.wf, Bool.and_eq_true, isWordStr, Bool.not_eq_true', List.isEmpty_eq_false_iff] at hwf
  obtain ⟨⟨⟨⟨hl, hfne, hf⟩, -⟩, hmne⟩, hm⟩ := hwf
  obtain ⟨c, f', rfl⟩ := List.exists_cons_of_ne_nil hfne
  have hc : sp c = false := by simp only [List.all_cons, Bool.and_eq_true] at hf; exact hs.word c hf.1
  let M := moreText more ++ s ++ ';' :: rest
  have e : (Lexeme.defs lead (c :: f') more).text ++ s ++ ';' :: rest = lead ++ ((c :: f') ++ M) := by simp [Lexeme.text, M]
  have h1 := tw_app sp lead ((c :: f') ++ M) (blank_sp hs lead hl) (by simp [noHead, hc])
  have h2 := tw_app isWord (c :: f') M hf (noHead_word_more more s rest hm hb)
  have hlen : more.length < (lead ++ ((c :: f') ++ M)).length + 1 := by
    have := more_length more
    simp [M]; omega
  have h3 := defsLoop_more hs more _ s rest hm hb hlen
  have h4 := tw_app sp s (';' :: rest) (blank_sp hs s hb) (by simp [noHead, hs.semi])
  have hn : more.length ≠ 0 := by simpa using hmne
  rw [e]
  unfold matchDefs
  simp only [Bool.not_true, Bool.false_eq_true, if_false, h1.1, h1.2, h2.1, h2.2, List.isEmpty_cons]
  simp only [M] at h3 ⊢
  rw [h3]
  simp [hn, h4.1, h4.2, Lexeme.text]

/-- no name list where a word is not followed by a comma -/
theorem matchDefs_word_none {sp : Char → Bool} (hs : SpOK sp) (ac : Bool) (lead v y : List Char) (hl : blank lead = true)
    (hne : v ≠ []) (hv : v.all isWord = true) (hy : noHead isWord y = true) (hc : (y.dropWhile sp).head? ≠ some ',') :
    matchDefs sp ac (lead ++ v ++ y) = none := by
  obtain ⟨c, v', rfl⟩ := List.exists_cons_of_ne_nil hne
  have hcs : sp c = false := by simp only [List.all_cons, Bool.and_eq_true] at hv; exact hs.word c hv.1
  have h1 := tw_app sp lead ((c :: v') ++ y) (blank_sp hs lead hl) (by simp [noHead, hcs])
  have h2 := tw_app isWord (c :: v') y hv hy
  have hloop : ∀ n, defsLoop sp (n + 1) y = some ([], 0, y) := by
    intro n
    unfold defsLoop
    split
    · rename_i heq; rw [heq] at hc; simp at hc
    · rfl
  unfold matchDefs
  cases ac with
  | false => rfl
  | true =>
    rw [show lead ++ (c :: v') ++ y = lead ++ ((c :: v') ++ y) by simp]
    simp only [Bool.not_true, Bool.false_eq_true, if_false, h1.1, h1.2, h2.1, h2.2, List.isEmpty_cons, hloop]
    simp

theorem matchDefs_blank_nword {sp : Char → Bool} (hs : SpOK sp) (ac : Bool) (lead : List Char) (c : Char) (r : List Char)
    (hl : blank lead = true) (h1 : sp c = false) (h2 : isWord c = false) : matchDefs sp ac (lead ++ c :: r) = none := by
  have h := tw_app sp lead (c :: r) (blank_sp hs lead hl) (by simp [noHead, h1])
  simp [matchDefs, h.2, h2]

-- ------------------------------------------------------------------------------------------------ ENUM
theorem rstripBy_app (sp : Char → Bool) (t b : List Char) (hb : b.all sp = true)
    (ht : ∀ c, t.getLast? = some c → sp c = false) : rstripBy sp (t ++ b) = t := by
  unfold rstripBy
  have hb' : b.reverse.all sp = true := by simpa using hb
  have hn : noHead sp t.reverse = true := by
    cases h : t.reverse with
    | nil => rfl
    | cons c r =>
      have : t.getLast? = some c := by
        have := congrArg List.head? h
        simpa [List.head?_reverse] using this
      simp [noHead, ht c this]
  rw [List.reverse_append, dropWhile_app sp _ _ hb' hn, List.reverse_reverse]

theorem enumBody_lexeme {sp : Char → Bool} (hs : SpOK sp) (vals s rest : List Char) (hne : vals ≠ [])
    (hv : vals.all (· != '}') = true) (hb : blank s = true) :
    enumBody sp ('{' :: vals ++ '}' :: s ++ ';' :: rest) = some (vals, '{' :: vals ++ '}' :: s, ';' :: rest) := by
  have h1 := tw_app (· != '}') vals ('}' :: (s ++ ';' :: rest)) hv (by simp [noHead])
  have h2 := tw_app sp s (';' :: rest) (blank_sp hs s hb) (by simp [noHead, hs.semi])
  unfold enumBody
  simp only [List.cons_append, List.append_assoc]
  have h1' : (vals ++ '}' :: (s ++ ';' :: rest)).takeWhile (· != '}') = vals := h1.1
  have h1'' : (vals ++ '}' :: (s ++ ';' :: rest)).dropWhile (· != '}') = '}' :: (s ++ ';' :: rest) := h1.2
  simp only [h1', h1'', h2.1, h2.2]
  cases vals with
  | nil => exact absurd rfl hne
  | cons v vs => simp

end Cstruct.DefParser.C13
