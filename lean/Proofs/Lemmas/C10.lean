import Proofs.Spec.C10
namespace Cstruct.Expr.C10.Lemmas
open Cstruct Cstruct.Expr Cstruct.Expr.C10
end Cstruct.Expr.C10.Lemmas
