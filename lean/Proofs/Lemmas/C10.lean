/-
  C10 — helper lemmas for `Proofs/C10.lean`.

  * table facts (closed by `decide` against the generated tables),
  * literal parsing,
  * idempotence of the unary-minus rewriting and its behaviour on grammar derivations,
  * shunting-yard correctness in continuation-passing form (`D_run`).
-/
import Proofs.Spec.C10

namespace Cstruct.Expr.C10.Lemmas
open Cstruct Cstruct.Expr Cstruct.Expr.C10

instance (t : String) : Decidable (IsName t) := by unfold IsName; infer_instance

/-! ### Table facts -/

theorem cBinary_facts : ∀ x ∈ cBinary,
    lookup x.1 Gen.precedenceLevels = some x.2.2 ∧ x.2.2 ≤ 5 ∧
    lookup x.1 Gen.binaryOperators = some x.2.1 ∧ lookup x.1 Gen.unaryOperators = none ∧
    isNumber x.1 = false ∧ isUnary x.1 = false ∧ x.1 ≠ "sizeof" ∧ isOperator x.1 = true ∧
    x.1 ≠ "(" := by decide

structure BinFacts (t : String) (o : Gen.BinKind) (k : Nat) : Prop where
  prec : lookup t Gen.precedenceLevels = some k
  le5 : k ≤ 5
  bin : lookup t Gen.binaryOperators = some o
  notUn : lookup t Gen.unaryOperators = none
  notNum : isNumber t = false
  notUnary : isUnary t = false
  notSizeof : t ≠ "sizeof"
  isOp : isOperator t = true
  notLp : t ≠ "("

theorem binFacts {t o k} (h : (t, o, k) ∈ cBinary) : BinFacts t o k := by
  obtain ⟨h1, h2, h3, h4, h5, h6, h7, h8, h9⟩ := cBinary_facts (t, o, k) h
  exact ⟨h1, h2, h3, h4, h5, h6, h7, h8, h9⟩

theorem minusMarker_ne : Gen.minusMarker ≠ "-" := by decide

/-- names of all operators -/
def opNames : List String :=
  Gen.binaryOperators.map Prod.fst ++ Gen.unaryOperators.map Prod.fst

theorem lookup_isSome {α} (t : String) (l : List (String × α)) :
    (lookup t l).isSome = true → t ∈ l.map Prod.fst := by
  induction l with
  | nil => simp [lookup]
  | cons x l ih =>
    obtain ⟨k', v⟩ := x
    simp only [lookup, List.map_cons, List.mem_cons]
    by_cases h : t = k'
    · intro _; exact Or.inl h
    · simp only [h, if_false]; intro h'; exact Or.inr (ih h')

theorem mem_opNames {t : String} (h : isOperator t = true) : t ∈ opNames := by
  simp only [isOperator, isBinary, isUnary, Bool.or_eq_true] at h
  simp only [opNames, List.mem_append]
  rcases h with h | h
  · exact Or.inl (lookup_isSome _ _ h)
  · exact Or.inr (lookup_isSome _ _ h)

theorem opNames_facts : ∀ x ∈ opNames, isNumber x = false ∧ x ≠ "(" ∧ x ≠ ")" := by decide

theorem unaryCtx_facts : ∀ x ∈ Gen.unaryContextTokens, isNumber x = false := by decide

theorem lp_mem_unaryCtx : "(" ∈ Gen.unaryContextTokens := by decide

/-! ### Environment -/

theorem lookup_none_of_not_name {env : Env} (henv : EnvOk env) {t : String} (h : ¬ IsName t) :
    lookup t env.ctx = none ∧ lookup t env.consts = none := by
  constructor
  · cases hl : lookup t env.ctx with
    | none => rfl
    | some v => exact absurd (henv.1 t v hl) h
  · cases hl : lookup t env.consts with
    | none => rfl
    | some v => exact absurd (henv.2 t v hl) h

theorem lookup_mem_keys {α} (t : String) (l : List (String × α)) (v : α) (h : lookup t l = some v) :
    t ∈ l.map Prod.fst := lookup_isSome t l (by rw [h]; rfl)

/-- a decidable sufficient condition for `EnvOk` -/
theorem envOk_of_keys {env : Env} (h1 : ∀ t ∈ env.ctx.map Prod.fst, IsName t)
    (h2 : ∀ t ∈ env.consts.map Prod.fst, IsName t) : EnvOk env :=
  ⟨fun t v h => h1 t (lookup_mem_keys t _ v h), fun t v h => h2 t (lookup_mem_keys t _ v h)⟩

/-! ### `/` and `%` -/

theorem div_mod_nonneg (a b : Int) (ha : 0 ≤ a) (hb : 0 < b) :
    binop .floordiv a b = .ok (Int.tdiv a b) ∧ binop .mod a b = .ok (Int.tmod a b) := by
  have hb0 : b ≠ 0 := by omega
  have hb' : 0 ≤ b := by omega
  simp only [binop, hb0, if_false, Int.fdiv_eq_tdiv_of_nonneg ha hb', Int.fmod_eq_tmod_of_nonneg ha hb',
    and_self]

/-! ### Literals -/

theorem digitVal_digitChar : ∀ d, d < 16 → digitVal (digitChar d) = d := by decide

theorem digitChar_ne_zero : ∀ d, d < 10 → d ≠ 0 → digitChar d ≠ '0' := by decide

theorem foldl_parse (base : Nat) (hb : base ≤ 16) (ds : List Nat) (h : ∀ d ∈ ds, d < base) (a : Nat) :
    (ds.map digitChar).foldl (fun acc c => match acc with
      | none => none
      | some a => if digitVal c < base then some (a * base + digitVal c) else none) (some a)
    = some (ds.foldl (fun a d => a * base + d) a) := by
  induction ds generalizing a with
  | nil => rfl
  | cons d ds ih =>
    have hd : d < base := h d (by simp)
    have hv : digitVal (digitChar d) = d := digitVal_digitChar d (by omega)
    simp only [List.map_cons, List.foldl_cons, hv, hd, if_true]
    exact ih (fun x hx => h x (by simp [hx])) _

theorem parseBase_digits (base : Nat) (hb : base ≤ 16) (ds : List Nat) (hne : ds ≠ [])
    (h : ∀ d ∈ ds, d < base) : parseBase base (ds.map digitChar) = some (ofDigits base ds) := by
  have : (ds.map digitChar).isEmpty = false := by
    cases ds with
    | nil => exact absurd rfl hne
    | cons _ _ => rfl
  simp only [parseBase, this, Bool.false_eq_true, if_false, ofDigits]
  exact foldl_parse base hb ds h 0

theorem parseInt_prefixed (p : Char) (rest : List Char) :
    parseInt (String.ofList ('0' :: p :: rest)) =
      if p = 'x' ∨ p = 'X' then (parseBase 16 rest).map Int.ofNat
      else if p = 'b' ∨ p = 'B' then (parseBase 2 rest).map Int.ofNat
      else if p = 'o' ∨ p = 'O' then (parseBase 8 rest).map Int.ofNat
      else if (p :: rest).all (· = '0') then some 0 else none := by
  simp only [parseInt, String.toList_ofList]

theorem parseInt_decimal (ds : List Nat) (hne : ds ≠ []) (h : ∀ d ∈ ds, d < 10) (h0 : ds.head? ≠ some 0) :
    parseInt (String.ofList (ds.map digitChar)) = some (Int.ofNat (ofDigits 10 ds)) := by
  cases ds with
  | nil => exact absurd rfl hne
  | cons d ds =>
    have hd : d < 10 := h d (by simp)
    have hd0 : d ≠ 0 := by intro e; apply h0; simp [e]
    have hc := digitChar_ne_zero d hd hd0
    have hp := parseBase_digits 10 (by omega) (d :: ds) hne h
    unfold parseInt
    simp only [String.toList_ofList]
    split
    · rename_i heq
      simp only [List.map_cons, List.cons.injEq] at heq
      exact absurd heq.1 hc
    · rw [hp]; rfl

theorem literals (ds : List Nat) (hne : ds ≠ []) :
    ((∀ d ∈ ds, d < 16) → ∀ p ∈ ['x', 'X'],
        parseInt (String.ofList ('0' :: p :: ds.map digitChar)) = some (Int.ofNat (ofDigits 16 ds))) ∧
    ((∀ d ∈ ds, d < 2) → ∀ p ∈ ['b', 'B'],
        parseInt (String.ofList ('0' :: p :: ds.map digitChar)) = some (Int.ofNat (ofDigits 2 ds))) ∧
    ((∀ d ∈ ds, d < 8) →
        parseInt (String.ofList ('0' :: 'o' :: ds.map digitChar)) = some (Int.ofNat (ofDigits 8 ds))) ∧
    ((∀ d ∈ ds, d < 10) → ds.head? ≠ some 0 →
        parseInt (String.ofList (ds.map digitChar)) = some (Int.ofNat (ofDigits 10 ds))) := by
  refine ⟨?_, ?_, ?_, ?_⟩
  · intro h p hp
    rw [parseInt_prefixed, parseBase_digits 16 (by omega) ds hne h]
    simp only [List.mem_cons, List.not_mem_nil, or_false] at hp
    rcases hp with rfl | rfl <;> simp
  · intro h p hp
    rw [parseInt_prefixed, parseBase_digits 2 (by omega) ds hne h]
    simp only [List.mem_cons, List.not_mem_nil, or_false] at hp
    rcases hp with rfl | rfl <;> simp
  · intro h
    rw [parseInt_prefixed, parseBase_digits 8 (by omega) ds hne h]
    simp
  · exact parseInt_decimal ds hne

/-! ### Unary-minus rewriting -/

/-- after token `p`, a `-` is unary -/
def ucB (p : String) : Bool := isOperator p || Gen.unaryContextTokens.contains p

/-- what the rewriting loop writes over token `t` when the previous (rewritten) token is `prev` -/
def markTok (prev : Option String) (t : String) : String :=
  if t = "-" then
    match prev with
    | none => Gen.minusMarker
    | some p => if ucB p then Gen.minusMarker else t
  else t

theorem rewriteFrom_cons (prev : Option String) (t : String) (r : List String) :
    rewriteFrom prev (t :: r) = markTok prev t :: rewriteFrom (some (markTok prev t)) r := rfl

theorem markTok_ne {p t} (h : t ≠ "-") : markTok p t = t := by unfold markTok; rw [if_neg h]

theorem markTok_none : markTok none "-" = Gen.minusMarker := by unfold markTok; rw [if_pos rfl]

theorem markTok_some_true {p} (h : ucB p = true) : markTok (some p) "-" = Gen.minusMarker := by
  unfold markTok; rw [if_pos rfl]; simp only [h, if_true]

theorem markTok_some_false {p} (h : ucB p = false) : markTok (some p) "-" = "-" := by
  unfold markTok; rw [if_pos rfl]; simp only [h, Bool.false_eq_true, if_false]

theorem markTok_idem (prev : Option String) (t : String) : markTok prev (markTok prev t) = markTok prev t := by
  by_cases ht : t = "-"
  · subst ht
    cases prev with
    | none => rw [markTok_none, markTok_ne minusMarker_ne]
    | some p =>
      cases hc : ucB p with
      | true => rw [markTok_some_true hc, markTok_ne minusMarker_ne]
      | false => rw [markTok_some_false hc, markTok_some_false hc]
  · rw [markTok_ne ht, markTok_ne ht]

/-- the rewriting is idempotent, for every token list and every left context -/
theorem rewriteFrom_idem (l : List String) : ∀ prev, rewriteFrom prev (rewriteFrom prev l) = rewriteFrom prev l := by
  induction l with
  | nil => intro _; rfl
  | cons t r ih =>
    intro prev
    rw [rewriteFrom_cons, rewriteFrom_cons, markTok_idem, ih]

theorem rewriteMinus_idem (l : List String) : rewriteMinus (rewriteMinus l) = rewriteMinus l :=
  rewriteFrom_idem l none

theorem repeat_ (o : Obj) (env1 env2 : Env) :
    ((o.evaluate env1).1.evaluate env2).2 = (o.evaluate env2).2 ∧
    ((o.evaluate env1).1.evaluate env2).1 = (o.evaluate env1).1 := by
  simp only [Obj.evaluate, rewriteMinus_idem, and_self]

/-- last token of `l`, or `p` if there is none -/
def lastTok : Option String → List String → Option String
  | p, [] => p
  | _, t :: r => lastTok (some t) r

theorem lastTok_append (a b : List String) : ∀ p, lastTok p (a ++ b) = lastTok (lastTok p a) b := by
  induction a with
  | nil => intro _; rfl
  | cons t a ih => intro p; exact ih (some t)

theorem rewriteFrom_append (a b : List String) : ∀ p,
    rewriteFrom p (a ++ b) = rewriteFrom p a ++ rewriteFrom (lastTok p (rewriteFrom p a)) b := by
  induction a with
  | nil => intro _; rfl
  | cons t a ih =>
    intro p
    rw [List.cons_append, rewriteFrom_cons, rewriteFrom_cons, ih, List.cons_append]
    rfl

/-- after `prev`, a `-` is unary -/
def UCtx : Option String → Prop
  | none => True
  | some p => ucB p = true

/-- a token that can end an expression: after it a `-` is binary (and it is not `(`) -/
def EndTok (t : String) : Prop := isOperator t = false ∧ t ∉ Gen.unaryContextTokens

theorem markTok_uctx {p} (h : UCtx p) : markTok p "-" = Gen.minusMarker := by
  cases p with
  | none => exact markTok_none
  | some p => exact markTok_some_true h

theorem markTok_end {l} (h : EndTok l) : markTok (some l) "-" = "-" := by
  apply markTok_some_false
  have h2 : Gen.unaryContextTokens.contains l = false := by
    cases hc : Gen.unaryContextTokens.contains l with
    | false => rfl
    | true => exact absurd (List.contains_iff_mem.mp hc) h.2
  rw [ucB, h.1, h2]; rfl

theorem uctx_of_op {t} (h : isOperator t = true) : UCtx (some t) := by
  show ucB t = true
  rw [ucB, h]; rfl

theorem minus_isOp : isOperator "-" = true := by decide

theorem name_ne_minus {t} (h : IsName t) : t ≠ "-" := by
  intro e; subst e; have := h.2.1; rw [minus_isOp] at this; cases this

theorem endTok_name {t} (h : IsName t) : EndTok t := ⟨h.2.1, h.2.2.2.2⟩

theorem not_op_of_number {t} (h : isNumber t = true) : isOperator t = false := by
  cases ho : isOperator t with
  | false => rfl
  | true => have := (opNames_facts t (mem_opNames ho)).1; rw [h] at this; cases this

theorem endTok_number {t} (h : isNumber t = true) : EndTok t := by
  refine ⟨not_op_of_number h, ?_⟩
  intro hm; have := unaryCtx_facts t hm; rw [h] at this; cases this

theorem endTok_atom {env t v} (h : Atom env t v) : EndTok t := by
  cases h with
  | lit hn _ => exact endTok_number hn
  | ctx hn _ => exact endTok_name hn
  | const hn _ _ => exact endTok_name hn

theorem atom_ne_minus {env t v} (h : Atom env t v) : t ≠ "-" := by
  intro e; subst e; have := (endTok_atom h).1; rw [minus_isOp] at this; cases this

theorem endTok_rp : EndTok ")" := by unfold EndTok; decide

theorem endTok_ne_lp {t} (h : EndTok t) : t ≠ "(" := by
  intro e; subst e; exact h.2 lp_mem_unaryCtx

theorem D_rewrite {env k raw marked v} (hD : D env k raw marked v) :
    ∀ prev, UCtx prev → rewriteFrom prev raw = marked ∧
      ∃ l, (∀ p, lastTok p marked = some l) ∧ EndTok l := by
  induction hD with
  | @atom t v ha =>
    intro prev _
    refine ⟨?_, t, fun _ => rfl, endTok_atom ha⟩
    rw [rewriteFrom_cons, markTok_ne (atom_ne_minus ha)]; rfl
  | @sizeof name v hn _ _ =>
    intro prev _
    refine ⟨?_, ")", fun _ => rfl, endTok_rp⟩
    rw [rewriteFrom_cons, markTok_ne (by decide), rewriteFrom_cons, markTok_ne (by decide),
      rewriteFrom_cons, markTok_ne (name_ne_minus hn), rewriteFrom_cons, markTok_ne (by decide)]; rfl
  | @paren raw marked v _ ih =>
    intro prev _
    obtain ⟨hrw, l, hl, _⟩ := ih (some "(") (by unfold UCtx; decide)
    refine ⟨?_, ")", ?_, endTok_rp⟩
    · rw [List.cons_append, rewriteFrom_cons, markTok_ne (by decide), rewriteFrom_append, hrw, rewriteFrom_cons,
        markTok_ne (by decide)]; rfl
    · intro p
      show lastTok (some "(") (marked ++ [")"]) = _
      rw [lastTok_append]; rfl
  | @neg raw marked v _ ih =>
    intro prev hp
    obtain ⟨hrw, l, hl, hend⟩ := ih (some Gen.minusMarker) (by unfold UCtx; decide)
    refine ⟨?_, l, fun p => hl _, hend⟩
    rw [rewriteFrom_cons, markTok_uctx hp, hrw]
  | @inv raw marked v _ ih =>
    intro prev hp
    obtain ⟨hrw, l, hl, hend⟩ := ih (some "~") (by unfold UCtx; decide)
    refine ⟨?_, l, fun p => hl _, hend⟩
    rw [rewriteFrom_cons, markTok_ne (by decide), hrw]
  | up _ _ ih => exact ih
  | @bin k t o r1 m1 r2 m2 a b v hmem _ _ _ ih1 ih2 =>
    intro prev hp
    have hf := binFacts hmem
    obtain ⟨hrw1, l1, hl1, hend1⟩ := ih1 prev hp
    obtain ⟨hrw2, l2, hl2, hend2⟩ := ih2 (some t) (uctx_of_op hf.isOp)
    have hmark : markTok (some l1) t = t := by
      by_cases ht : t = "-"
      · subst ht; exact markTok_end hend1
      · exact markTok_ne ht
    refine ⟨?_, l2, ?_, hend2⟩
    · rw [rewriteFrom_append, hrw1, hl1, rewriteFrom_cons, hmark, hrw2]
    · intro p
      rw [lastTok_append]
      exact hl2 _


/-! ### Shunting yard: stack lemmas (`drain` doubles as the "collapse" function of the spike) -/

theorem drain_cons_ok {it : String} {st : List String} {q q' : List Int} (h : drain (it :: st) q = .ok q') :
    it ≠ "(" ∧ ∃ q1, applyOp it q = .ok q1 ∧ drain st q1 = .ok q' := by
  unfold drain at h
  by_cases hlp : it = "("
  · rw [if_pos hlp] at h; cases h
  · rw [if_neg hlp] at h
    refine ⟨hlp, ?_⟩
    cases ha : applyOp it q with
    | error e => rw [ha] at h; cases h
    | ok q1 => rw [ha] at h; exact ⟨q1, rfl, h⟩

theorem drain_cons_of {it : String} {st : List String} {q q1 : List Int} (hlp : it ≠ "(")
    (ha : applyOp it q = .ok q1) : drain (it :: st) q = drain st q1 := by
  rw [drain, if_neg hlp, ha]

theorem drain_append (a b : List String) : ∀ (q q' : List Int), drain a q = .ok q' →
    drain (a ++ b) q = drain b q' := by
  induction a with
  | nil => intro q q' h; unfold drain at h; cases h; rfl
  | cons it a ih =>
    intro q q' h
    obtain ⟨hlp, q1, ha, hd⟩ := drain_cons_ok h
    rw [List.cons_append, drain_cons_of hlp ha]
    exact ih _ _ hd

/-- every stacked operator binds at least as tightly as level `k` -/
def PrecGe (k : Nat) (pend : List String) : Prop :=
  ∀ it ∈ pend, ∃ p, lookup it Gen.precedenceLevels = some p ∧ k ≤ p

theorem flush_append (cur : String) (k : Nat) (hcur : lookup cur Gen.precedenceLevels = some k)
    (pend st : List String) : ∀ (qa q' : List Int), PrecGe k pend → drain pend qa = .ok q' →
    flush cur (pend ++ st) qa = flush cur st q' := by
  induction pend with
  | nil => intro qa q' _ h; unfold drain at h; cases h; rfl
  | cons it pend ih =>
    intro qa q' hp h
    obtain ⟨hlp, q1, ha, hd⟩ := drain_cons_ok h
    obtain ⟨p, hp1, hp2⟩ := hp it (by simp)
    have hge : precGe it cur = .ok true := by
      unfold precGe; rw [hp1, hcur]; simp only [ge_iff_le, hp2, decide_true]
    rw [List.cons_append, flush, if_neg hlp, hge]
    simp only [ha]
    exact ih _ _ (fun x hx => hp x (by simp [hx])) hd

theorem closeParen_append (pend st : List String) : ∀ (qa q' : List Int), drain pend qa = .ok q' →
    closeParen (pend ++ st) qa = closeParen st q' := by
  induction pend with
  | nil => intro qa q' h; unfold drain at h; cases h; rfl
  | cons it pend ih =>
    intro qa q' h
    obtain ⟨hlp, q1, ha, hd⟩ := drain_cons_ok h
    rw [List.cons_append, closeParen, if_neg hlp, ha]
    exact ih _ _ hd

/-- context condition: the operator just below a level-`k` expression binds weaker than `k` -/
def ctxOk (k : Nat) : List String → Prop
  | [] => True
  | it :: _ => k ≤ 5 → (it = "(" ∨ ∃ p, lookup it Gen.precedenceLevels = some p ∧ p < k)

theorem flush_stop (cur : String) (k : Nat) (hcur : lookup cur Gen.precedenceLevels = some k) (hk : k ≤ 5)
    (st : List String) (q : List Int) (h : ctxOk k st) : flush cur st q = .ok (st, q) := by
  cases st with
  | nil => rfl
  | cons it st =>
    unfold flush
    by_cases hlp : it = "("
    · rw [if_pos hlp]
    · rw [if_neg hlp]
      rcases h hk with h | ⟨p, hp1, hp2⟩
      · exact absurd h hlp
      · have hge : precGe it cur = .ok false := by
          unfold precGe; rw [hp1, hcur]
          have : ¬ (p ≥ k) := by omega
          simp only [this, decide_false]
        rw [hge]

theorem ctxOk_succ {k st} (h : ctxOk k st) : ctxOk (k + 1) st := by
  cases st with
  | nil => trivial
  | cons it st =>
    intro hk5
    rcases h (by omega) with h | ⟨p, h1, h2⟩
    · exact Or.inl h
    · exact Or.inr ⟨p, h1, by omega⟩

/-! ### One step of `run` per token class -/

theorem run_cons (env : Env) (t : String) (rest : List String) (s : St) :
    run env (t :: rest) s =
    if isNumber t then
      match parseInt t with
      | some n => run env rest { prev := some t, st := s.st, q := n :: s.q }
      | none => .error .value
    else match lookup t env.ctx with
    | some v => run env rest { prev := some t, st := s.st, q := v :: s.q }
    | none =>
    match lookup t env.consts with
    | some v => run env rest { prev := some t, st := s.st, q := v :: s.q }
    | none =>
    if isUnary t then run env rest { prev := some t, st := t :: s.st, q := s.q }
    else if t = "sizeof" then
      match rest with
      | a :: b :: c :: rest' =>
        if a ≠ "(" ∨ c ≠ ")" then .error .parser else
        match env.sizeof b with
        | .ok n => run env rest' { prev := some c, st := s.st, q := n :: s.q }
        | .error e => .error e
      | [a, _] => if a ≠ "(" then .error .parser else .error .index
      | _ => .error .parser
    else if isOperator t then
      match flush t s.st s.q with
      | .ok (st', q') => run env rest { prev := some t, st := t :: st', q := q' }
      | .error e => .error e
    else if t = "(" then
      match s.prev with
      | some p => if isNumber p then .error .parser
                  else run env rest { prev := some t, st := t :: s.st, q := s.q }
      | none => run env rest { prev := some t, st := t :: s.st, q := s.q }
    else if t = ")" then
      if s.prev = some "(" then .error .parser
      else if s.st.isEmpty then .error .parser
      else match closeParen s.st s.q with
        | .ok (st', q') => run env rest { prev := some t, st := st', q := q' }
        | .error e => .error e
    else .error .parser := by
  rw [run.eq_def]; rfl


theorem run_atom {env : Env} {t : String} {v : Int} (h : Atom env t v) (rest : List String) (s : St) :
    run env (t :: rest) s = run env rest ⟨some t, s.st, v :: s.q⟩ := by
  cases h with
  | lit hn hp => rw [run_cons, if_pos hn, hp]
  | ctx hname hl => rw [run_cons, if_neg (by rw [hname.1]; simp), hl]
  | const hname hl hc => rw [run_cons, if_neg (by rw [hname.1]; simp), hl]; simp only [hc]

theorem sizeof_facts : isNumber "sizeof" = false ∧ isUnary "sizeof" = false := by decide

theorem run_sizeof {env : Env} {name : String} {v : Int} (hns : NotShadowed env "sizeof")
    (hs : env.sizeof name = .ok v) (rest : List String) (s : St) :
    run env ("sizeof" :: "(" :: name :: ")" :: rest) s = run env rest ⟨some ")", s.st, v :: s.q⟩ := by
  rw [run_cons, if_neg (by rw [sizeof_facts.1]; simp), hns.1]
  simp only [hns.2, sizeof_facts.2, Bool.false_eq_true, if_false, if_true, ne_eq, not_true_eq_false,
    or_self, hs]

theorem not_name_of_op {t} (h : isOperator t = true) : ¬ IsName t := by
  intro hn; have := hn.2.1; rw [h] at this; cases this

theorem unary_facts : ∀ x ∈ Gen.unaryOperators,
    isNumber x.1 = false ∧ isUnary x.1 = true ∧ isOperator x.1 = true ∧ x.1 ≠ "(" ∧
    lookup x.1 Gen.unaryOperators = some x.2 ∧ lookup x.1 Gen.precedenceLevels = some 6 := by decide

theorem run_unary {env : Env} (henv : EnvOk env) {t : String} {u : Gen.UnKind}
    (hm : (t, u) ∈ Gen.unaryOperators) (rest : List String) (s : St) :
    run env (t :: rest) s = run env rest ⟨some t, t :: s.st, s.q⟩ := by
  obtain ⟨h1, h2, h3, _, _, _⟩ := unary_facts (t, u) hm
  obtain ⟨hc, hk⟩ := lookup_none_of_not_name henv (not_name_of_op h3)
  rw [run_cons, if_neg (by rw [h1]; simp), hc]
  simp only [hk, h2, if_true]

theorem run_binary {env : Env} (henv : EnvOk env) {t : String} {o : Gen.BinKind} {k : Nat}
    (hf : BinFacts t o k) (rest : List String) (s : St) {st' : List String} {q' : List Int}
    (hfl : flush t s.st s.q = .ok (st', q')) :
    run env (t :: rest) s = run env rest ⟨some t, t :: st', q'⟩ := by
  obtain ⟨hc, hk⟩ := lookup_none_of_not_name henv (not_name_of_op hf.isOp)
  rw [run_cons, if_neg (by rw [hf.notNum]; simp), hc]
  simp only [hk, hf.notUnary, Bool.false_eq_true, if_false, hf.notSizeof, hf.isOp, if_true, hfl]

theorem lp_facts : isNumber "(" = false ∧ isUnary "(" = false ∧ isOperator "(" = false ∧ "(" ≠ "sizeof" ∧
    ¬ IsName "(" := by decide

theorem rp_facts : isNumber ")" = false ∧ isUnary ")" = false ∧ isOperator ")" = false ∧ ")" ≠ "sizeof" ∧
    ")" ≠ "(" ∧ ¬ IsName ")" := by decide

/-- `(` is accepted unless it directly follows a literal -/
def PrevOk : Option String → Prop
  | none => True
  | some p => isNumber p = false

theorem run_lparen {env : Env} (henv : EnvOk env) (rest : List String) (prev : Option String)
    (st : List String) (q : List Int) (hprev : PrevOk prev) :
    run env ("(" :: rest) ⟨prev, st, q⟩ = run env rest ⟨some "(", "(" :: st, q⟩ := by
  obtain ⟨hc, hk⟩ := lookup_none_of_not_name henv lp_facts.2.2.2.2
  rw [run_cons, if_neg (by rw [lp_facts.1]; simp), hc]
  simp only [hk, lp_facts.2.1, lp_facts.2.2.1, lp_facts.2.2.2.1, Bool.false_eq_true, if_false, if_true]
  cases prev with
  | none => rfl
  | some p => simp only [PrevOk] at hprev; simp only [hprev, Bool.false_eq_true, if_false]

theorem run_rparen {env : Env} (henv : EnvOk env) (rest : List String) (last : String)
    (st : List String) (q : List Int) (hlast : last ≠ "(") (hst : st ≠ []) {st' : List String} {q' : List Int}
    (hcp : closeParen st q = .ok (st', q')) :
    run env (")" :: rest) ⟨some last, st, q⟩ = run env rest ⟨some ")", st', q'⟩ := by
  obtain ⟨hc, hk⟩ := lookup_none_of_not_name henv rp_facts.2.2.2.2.2
  have hemp : st.isEmpty = false := by
    cases st with
    | nil => exact absurd rfl hst
    | cons _ _ => rfl
  have hpl : ¬ (some last = some "(") := by intro e; cases e; exact hlast rfl
  rw [run_cons, if_neg (by rw [rp_facts.1]; simp), hc]
  simp only [hk, rp_facts.2.1, rp_facts.2.2.1, rp_facts.2.2.2.1, rp_facts.2.2.2.2.1, Bool.false_eq_true,
    if_false, if_true, hpl, hemp, hcp]


/-! ### Shunting yard: correctness on grammar derivations -/

theorem applyOp_unary {t : String} {u : Gen.UnKind} (h : lookup t Gen.unaryOperators = some u)
    (r : Int) (q : List Int) : applyOp t (r :: q) = .ok (unop u r :: q) := by
  unfold applyOp; simp only [h]

theorem applyOp_binary {t : String} {o : Gen.BinKind} {k : Nat} (hf : BinFacts t o k) {l r v : Int}
    (hv : binop o l r = .ok v) (q : List Int) : applyOp t (r :: l :: q) = .ok (v :: q) := by
  unfold applyOp; simp only [hf.notUn, hf.bin, hv]; rfl

theorem precGe_nil (k : Nat) : PrecGe k [] := fun _ h => by cases h

theorem precGe_append_singleton {k : Nat} {pend : List String} {t : String} {k' p : Nat}
    (hp : PrecGe k' pend) (hk : k ≤ k') (ht : lookup t Gen.precedenceLevels = some p) (hkp : k ≤ p) :
    PrecGe k (pend ++ [t]) := by
  intro it hit
  simp only [List.mem_append, List.mem_singleton] at hit
  rcases hit with h | rfl
  · obtain ⟨p', h1, h2⟩ := hp it h; exact ⟨p', h1, by omega⟩
  · exact ⟨p, ht, hkp⟩

theorem run_unary_D {env : Env} (henv : EnvOk env) {t : String} {u : Gen.UnKind}
    (hm : (t, u) ∈ Gen.unaryOperators) {marked : List String} {v : Int}
    (ih : ∀ prev st q rest, PrevOk prev → ctxOk 6 st →
      ∃ last pend qa, run env (marked ++ rest) ⟨prev, st, q⟩ = run env rest ⟨some last, pend ++ st, qa⟩ ∧
        EndTok last ∧ PrecGe 6 pend ∧ drain pend qa = .ok (v :: q)) :
    ∀ prev st q rest, PrevOk prev → ctxOk 6 st →
      ∃ last pend qa, run env ((t :: marked) ++ rest) ⟨prev, st, q⟩ = run env rest ⟨some last, pend ++ st, qa⟩ ∧
        EndTok last ∧ PrecGe 6 pend ∧ drain pend qa = .ok (unop u v :: q) := by
  intro prev st q rest _ _
  obtain ⟨h1, _, _, hlp, hlu, hprec⟩ := unary_facts (t, u) hm
  obtain ⟨last, pend, qa, hrun, hend, hpg, hdr⟩ :=
    ih (some t) (t :: st) q rest h1 (fun h => absurd h (by omega))
  refine ⟨last, pend ++ [t], qa, ?_, hend, precGe_append_singleton hpg (Nat.le_refl _) hprec (Nat.le_refl _), ?_⟩
  · rw [List.cons_append, run_unary henv hm, hrun, List.append_assoc]; rfl
  · rw [drain_append pend [t] qa _ hdr, drain_cons_of hlp (applyOp_unary hlu v q)]; rfl

theorem D_run {env : Env} (henv : EnvOk env) {k : Nat} {raw marked : List String} {v : Int}
    (hD : D env k raw marked v) :
    ∀ prev st q rest, PrevOk prev → ctxOk k st →
      ∃ last pend qa, run env (marked ++ rest) ⟨prev, st, q⟩ = run env rest ⟨some last, pend ++ st, qa⟩ ∧
        EndTok last ∧ PrecGe k pend ∧ drain pend qa = .ok (v :: q) := by
  induction hD with
  | @atom t v ha =>
    intro prev st q rest _ _
    exact ⟨t, [], v :: q, by rw [List.cons_append, List.nil_append, run_atom ha]; rfl, endTok_atom ha,
      precGe_nil _, rfl⟩
  | @sizeof name v _ hns hs =>
    intro prev st q rest _ _
    exact ⟨")", [], v :: q, by
      simp only [List.cons_append, List.nil_append]; rw [run_sizeof hns hs], endTok_rp,
      precGe_nil _, rfl⟩
  | @paren raw marked v _ ih =>
    intro prev st q rest hprev _
    obtain ⟨last, pend, qa, hrun, hend, _, hdr⟩ :=
      ih (some "(") ("(" :: st) q (")" :: rest) lp_facts.1 (fun _ => Or.inl rfl)
    refine ⟨")", [], v :: q, ?_, endTok_rp, precGe_nil _, rfl⟩
    have hcp : closeParen (pend ++ "(" :: st) qa = .ok (st, v :: q) := by
      rw [closeParen_append pend _ qa _ hdr, closeParen, if_pos rfl]
    have hne : pend ++ "(" :: st ≠ [] := by simp
    rw [List.cons_append, List.cons_append, List.append_assoc, run_lparen henv _ _ _ _ hprev]
    show run env (marked ++ ")" :: rest) _ = _
    rw [hrun, run_rparen henv rest last _ qa (endTok_ne_lp hend) hne hcp]; rfl
  | @neg raw marked v _ ih =>
    exact run_unary_D henv (u := .neg) (by decide) ih
  | @inv raw marked v _ ih =>
    exact run_unary_D henv (u := .inv) (by decide) ih
  | @up k raw marked v hk _ ih =>
    intro prev st q rest hprev hctx
    obtain ⟨last, pend, qa, hrun, hend, hpg, hdr⟩ := ih prev st q rest hprev (ctxOk_succ hctx)
    exact ⟨last, pend, qa, hrun, hend,
      fun it hit => by obtain ⟨p, h1, h2⟩ := hpg it hit; exact ⟨p, h1, by omega⟩, hdr⟩
  | @bin k t o r1 m1 r2 m2 a b v hmem _ _ hv ih1 ih2 =>
    intro prev st q rest hprev hctx
    have hf := binFacts hmem
    obtain ⟨l1, pend1, qa1, hrun1, _, hpg1, hdr1⟩ := ih1 prev st q (t :: (m2 ++ rest)) hprev hctx
    have hctx2 : ctxOk (k + 1) (t :: st) := fun _ => Or.inr ⟨k, hf.prec, Nat.lt_succ_self k⟩
    obtain ⟨l2, pend2, qa2, hrun2, hend2, hpg2, hdr2⟩ :=
      ih2 (some t) (t :: st) (a :: q) rest hf.notNum hctx2
    have hfl : flush t (pend1 ++ st) qa1 = .ok (st, a :: q) := by
      rw [flush_append t k hf.prec pend1 st qa1 _ hpg1 hdr1, flush_stop t k hf.prec hf.le5 st _ hctx]
    refine ⟨l2, pend2 ++ [t], qa2, ?_, hend2,
      precGe_append_singleton hpg2 (Nat.le_succ k) hf.prec (Nat.le_refl _), ?_⟩
    · rw [List.append_assoc, List.cons_append, hrun1,
        run_binary henv hf (m2 ++ rest) ⟨some l1, pend1 ++ st, qa1⟩ hfl, hrun2, List.append_assoc]; rfl
    · rw [drain_append pend2 [t] qa2 _ hdr2, drain_cons_of hf.notLp (applyOp_binary hf hv q)]; rfl

theorem eval_correct (env : Env) (henv : EnvOk env) {raw marked : List String} {v : Int}
    (h : D env 0 raw marked v) :
    (Obj.evaluate ⟨raw⟩ env).2 = .ok v ∧ (Obj.evaluate ⟨raw⟩ env).1.tokens = marked := by
  have hrw : rewriteMinus raw = marked := (D_rewrite h none trivial).1
  obtain ⟨last, pend, qa, hrun, _, _, hdr⟩ := D_run henv h none [] [] [] trivial trivial
  rw [List.append_nil, List.append_nil] at hrun
  have hrun' : run env marked ⟨none, [], []⟩ = .ok ⟨some last, pend, qa⟩ := hrun
  simp only [Obj.evaluate, hrw, evalMarked, hrun', hdr, and_self]


end Cstruct.Expr.C10.Lemmas
