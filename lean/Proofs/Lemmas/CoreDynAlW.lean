/-
  Helper lemmas for `Proofs/CoreDyn.lean`, part 7: totality of the ALIGNED writer on the values of a type of fragment D
  without bit-fields. Without bit-fields the layout never fails, so no hypothesis on the definition is needed.
-/
import Proofs.Lemmas.CoreDynAl
namespace Cstruct.Core.Lemmas
open Cstruct Cstruct.Core
set_option linter.unusedSimpArgs false

def WtATyD (cfg : Cfg) (ty : Ty) : Prop :=
  ty.fragD cfg = true → ty.noBits = true → ty.uniformAlign true = true → ty.pow2Aligned cfg →
  ∀ ctx v, HasTyD cfg ctx v ty → ∀ pos, sAlign cfg ty ∣ pos → ∃ bs, write cfg ty v pos = .ok bs

def WtAIdleD (cfg : Cfg) (fs : Fields) : Prop :=
  DHyps cfg fs → ∀ ctx vs, HasTysD cfg ctx vs fs → ∀ st,
    ∃ sz sa offs, Fields.layout cfg true fs st = .ok (sz, sa, offs) ∧
      ∀ start pos, allAlignDvd cfg start fs → (∀ o, st.offset = some o → pos = start + o) →
        ∃ out, writeFields cfg true fs offs vs start BitBuf.empty pos = .ok (out, BitBuf.empty)

theorem wtA_idle_nil (cfg : Cfg) : WtAIdleD cfg .nil := by
  intro _ ctx vs hvs st
  exact ⟨_, _, _, layout_nil_true cfg st, fun start pos _ _ => ⟨[], writeFields_nil ..⟩⟩

theorem wtA_idle_cons (cfg : Cfg) (name an ty rest) (IHt : WtATyD cfg ty) (IHi : WtAIdleD cfg rest) :
    WtAIdleD cfg (.cons name an ty none rest) := by
  intro hH ctx vs hvs st
  obtain ⟨hS, hB, hU, hP⟩ := hH
  simp only [Fields.fragD, Bool.and_eq_true] at hS
  simp only [Fields.noBits, Bool.and_eq_true] at hB
  simp only [Fields.uniformAlign, Bool.and_eq_true] at hU
  simp only [Fields.pow2Aligned] at hP
  have hfa := alignment_p2 cfg ty hP.1
  cases hvs with
  | @cons _ v vs' _ _ _ _ hv hvs' =>
  obtain ⟨sz', sa', offs', hlay', hrest⟩ := IHi ⟨hS.2, hB.2, hU.2, hP.2⟩ (ctx.set name v) vs' hvs' (stNbT cfg ty st)
  refine ⟨sz', sa', _, by rw [layout_nb_true, hlay']; rfl, ?_⟩
  intro start pos hdv hpos
  generalize hfo : st.offset.map (fun o => o + padNat o (ty.alignment cfg)) = foff
  rw [writeFields_nb_idle_true]
  generalize hpad : padW cfg ty foff start pos = pad
  have hpp : ∀ o0, st.offset = some o0 → pos + pad = start + (o0 + padNat o0 (ty.alignment cfg)) := by
    intro o0 ho
    rw [ho] at hfo; simp only [Option.map] at hfo; subst hfo
    have h1 := hpos o0 ho
    rw [← hpad]; simp only [padW]; split <;> omega
  have hal : ty.alignment cfg ∣ pos + pad := by
    cases ho : st.offset with
    | none =>
      rw [ho] at hfo; simp only [Option.map] at hfo; subst hfo
      rw [← hpad]; simp only [padW]; exact padNat_p2_dvd hfa pos
    | some o0 =>
      rw [hpp o0 ho]
      exact Nat.dvd_add hdv.1 (padNat_p2_dvd hfa o0)
  have hsal := Nat.dvd_trans (sAlign_dvd_alignment cfg ty) hal
  obtain ⟨body, hwb⟩ := IHt hS.1 hB.1.2 hU.1 hP.1 ctx v hv (pos + pad) hsal
  obtain ⟨hsize, _, _⟩ := aD_ty cfg ty hS.1 hB.1.2 hU.1 hP.1 ctx v hv (pos + pad) hsal body hwb
  have hpos' : ∀ o', (stNbT cfg ty st).offset = some o' → pos + (zeros pad ++ body).length = start + o' := by
    intro o' ho'
    simp only [stNbT] at ho'
    cases hso : st.offset with
    | none => rw [hso] at ho'; cases ho'
    | some o0 =>
      rw [hso] at ho'
      cases hk : ty.size cfg with
      | none => rw [hk] at ho'; cases ho'
      | some k =>
        rw [hk] at ho'
        simp only [Option.some.injEq] at ho'
        have h2 := hpp o0 hso
        rw [List.length_append, zeros_length, hsize k hk]; omega
  obtain ⟨out, hw⟩ := hrest start _ hdv.2 hpos'
  refine ⟨zeros pad ++ body ++ out, ?_⟩
  rw [hwb]
  simp only [Except.bind, hw]

theorem wtA_of_WR {cfg : Cfg} {ty : Ty} (h : ∀ ctx v, HasTyD cfg ctx v ty → ty.fragD cfg = true → ∀ pos, WR cfg ty v pos) :
    WtATyD cfg ty := by
  intro hS _ _ _ ctx v hv pos _
  exact wtD_of_WR (h ctx v hv hS pos)

theorem wtA_N (cfg : Cfg) (ctx : Ctx) (e : Ty) (hE : WtATyD cfg e) (hS : e.fragD cfg = true) (hB : e.noBits = true)
    (hU : e.uniformAlign true = true) (hP : e.pow2Aligned cfg) :
    ∀ (n : Nat) (vs : Vals), HasTyND cfg ctx vs e n → ∀ pos, sAlign cfg e ∣ pos → ∃ bs, writeN cfg e vs pos = .ok bs := by
  intro n
  induction n with
  | zero => intro vs h pos _; cases h; exact ⟨[], writeN_nil cfg e pos⟩
  | succ n ih =>
    intro vs h pos hpos
    cases h with
    | @cons _ v vs' _ _ h1 h2 =>
      obtain ⟨bs1, w1⟩ := hE hS hB hU hP ctx v h1 pos hpos
      obtain ⟨_, a1, _⟩ := aD_ty cfg e hS hB hU hP ctx v h1 pos hpos bs1 w1
      obtain ⟨bs2, w2⟩ := ih vs' h2 (pos + bs1.length) a1
      refine ⟨bs1 ++ bs2, ?_⟩
      rw [writeN_cons, w1]; simp only [Except.bind]; rw [w2]

theorem wtA_arr (cfg : Cfg) (e : Ty) (len : Len) (hE : WtATyD cfg e) : WtATyD cfg (.arr e len) := by
  intro hS hB hU hP ctx v hv pos hpos
  have hS' := hS
  simp only [Ty.fragD, Bool.and_eq_true] at hS
  simp only [Ty.noBits] at hB
  simp only [Ty.uniformAlign] at hU
  simp only [Ty.pow2Aligned] at hP
  simp only [sAlign] at hpos
  cases hv with
  | chars _ _ => exact wtD_ty cfg _ hS' rfl rfl ctx _ (.chars ‹_› ‹_›) pos
  | wchars _ _ _ _ => exact wtD_ty cfg _ hS' rfl rfl ctx _ (.wchars ‹_› ‹_› ‹_› ‹_›) pos
  | chars0 _ => exact wtD_ty cfg _ hS' rfl rfl ctx _ (.chars0 ‹_›) pos
  | wchars0 _ _ => exact wtD_ty cfg _ hS' rfl rfl ctx _ (.wchars0 ‹_› ‹_›) pos
  | @arr0 _ _ vs hc hwc hZ =>
    have he : e.uniformAlign false = true ∧ e.defErr cfg = none := by
      cases e <;> simp [Ty.nullElem] at hS <;> exact ⟨rfl, rfl⟩
    exact wtD_ty cfg _ hS' (by simp only [Ty.uniformAlign]; exact he.1) (by simp only [Ty.defErr]; exact he.2) ctx _
      (.arr0 hc hwc hZ) pos
  | @arr _ _ _ n vs hc hwc hcnt hN =>
    rw [write_arr_count cfg e len ctx n hcnt vs (hasTyND_length cfg ctx e n vs hN)]
    exact wtA_N cfg ctx e hE hS.2 hB hU hP n vs hN pos hpos

theorem wtA_struct (cfg : Cfg) (al : Bool) (fs : Fields) (hF : WtAIdleD cfg fs) : WtATyD cfg (.struct al fs) := by
  intro hS hB hU hP ctx v hv pos hpos
  simp only [Ty.fragD] at hS
  simp only [Ty.noBits] at hB
  simp only [Ty.uniformAlign, Bool.and_eq_true, beq_iff_eq] at hU
  simp only [Ty.pow2Aligned] at hP
  obtain ⟨rfl, hU⟩ := hU
  cases hv with
  | @struct _ _ _ vs hvs =>
  obtain ⟨sz, sa, offs, hlay, hw⟩ := hF ⟨hS, hB, hU, hP⟩ [] vs hvs LState.init
  obtain ⟨out, hwf⟩ := hw pos pos (allAlignDvd_of_sAlign cfg true fs hP pos hpos) (by intro o ho; cases ho; rfl)
  have hl : structLayout cfg true fs = .ok (sz, sa, offs) := hlay
  rw [write_struct, hl]
  simp only [Except.bind, hwf, flushBits_empty]
  exact ⟨_, rfl⟩

mutual
theorem wtA_ty (cfg : Cfg) : ∀ ty : Ty, WtATyD cfg ty
  | .sc s a => fun hS _ _ _ ctx v hv pos _ => wtD_sc cfg s a hS rfl rfl ctx v hv pos
  | .enum b a f => fun hS _ _ _ ctx v hv pos _ => wtD_enum cfg b a f hS rfl rfl ctx v hv pos
  | .ptr t => fun hS _ _ _ ctx v hv pos _ => by
    cases hv with
    | ptr h1 => exact wtD_of_WR (wr_ptr cfg t _ (by simpa only [Ty.fragD, Ty.fragS] using hS) (.ptr h1) pos)
  | .arr e len => wtA_arr cfg e len (wtA_ty cfg e)
  | .struct al fs => wtA_struct cfg al fs (wtA_idle cfg fs)
  | .union _ _ => fun hS => by simp [Ty.fragD] at hS
theorem wtA_idle (cfg : Cfg) : ∀ fs : Fields, WtAIdleD cfg fs
  | .nil => wtA_idle_nil cfg
  | .cons name an ty none rest => wtA_idle_cons cfg name an ty rest (wtA_ty cfg ty) (wtA_idle cfg rest)
  | .cons _ _ _ (some 0) _ => fun hH => by have := hH.frag; simp [Fields.fragD] at this
  | .cons _ _ _ (some (_ + 1)) _ => fun hH => by have := hH.nob; simp [Fields.noBits] at this
end

end Cstruct.Core.Lemmas
