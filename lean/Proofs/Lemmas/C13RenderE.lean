/-
  C13, round trip — helper lemmas (5): admissibility of the rendered lexeme lists.
-/
import Proofs.Lemmas.C13RenderD

namespace Cstruct.DefParser.C13
open Cstruct.DefParser

/-- `adm` for a segment that is followed by the lexeme `next` -/
def admN (next : Option Lexeme) : Bool → List (Lexeme × List Char) → Bool
  | _, [] => true
  | ac, [(x, s)] => x.wf && blank s && (!x.isDefs || ac) && sepOK x s next
  | ac, (x, s) :: y :: rest => x.wf && blank s && (!x.isDefs || ac) && sepOK x s (some y.1) && admN next (closes x s) (y :: rest)

/-- the look-behind flag behind a segment -/
def closesEnd : Bool → List (Lexeme × List Char) → Bool
  | ac, [] => ac
  | _, (x, s) :: rest => closesEnd (closes x s) rest

theorem adm_eq_admN : ∀ (l : List (Lexeme × List Char)) (ac : Bool), adm ac l = admN none ac l
  | [], _ => rfl
  | [(x, s)], ac => by simp [adm, admN]
  | (x, s) :: y :: rest, ac => by
    have ih := adm_eq_admN (y :: rest) (closes x s)
    have e : adm ac ((x, s) :: y :: rest) = (x.wf && blank s && (!x.isDefs || ac) && sepOK x s (some y.1) && adm (closes x s) (y :: rest)) := rfl
    rw [e, ih]; rfl

theorem admN_append : ∀ (l1 l2 : List (Lexeme × List Char)) (n : Option Lexeme) (ac : Bool) (y : Lexeme × List Char) (r2 : List (Lexeme × List Char)),
    l2 = y :: r2 → admN n ac (l1 ++ l2) = (admN (some y.1) ac l1 && admN n (closesEnd ac l1) l2)
  | [], l2, n, ac, y, r2, _ => by simp [admN, closesEnd]
  | [(x, s)], l2, n, ac, y, r2, h => by
    subst h
    simp only [List.cons_append, List.nil_append, admN, closesEnd]
  | (x, s) :: z :: r, l2, n, ac, y, r2, h => by
    have ih := admN_append (z :: r) l2 n (closes x s) y r2 h
    simp only [List.cons_append] at ih ⊢
    simp only [admN, closesEnd, ih, Bool.and_assoc]

theorem closesEnd_append : ∀ (l1 l2 : List (Lexeme × List Char)) (ac : Bool), closesEnd ac (l1 ++ l2) = closesEnd (closesEnd ac l1) l2
  | [], _, _ => rfl
  | (x, s) :: r, l2, ac => by simp only [List.cons_append, closesEnd]; exact closesEnd_append r l2 _

/-- a segment that does not close a brace at its end, in front of `n` -/
def Seg (l : List (Lexeme × List Char)) (n : Option Lexeme) : Prop := admN n false l = true ∧ closesEnd false l = false

def NextOK (n : Option Lexeme) : Prop := ∀ y, n = some y → y.isDefs = false

def headLex (l : List (Lexeme × List Char)) (n : Option Lexeme) : Option Lexeme :=
  match l with
  | [] => n
  | p :: _ => some p.1

theorem seg_nil (n : Option Lexeme) : Seg [] n := ⟨rfl, rfl⟩

theorem seg_append (l1 l2 : List (Lexeme × List Char)) (n : Option Lexeme) (h1 : Seg l1 (headLex l2 n)) (h2 : Seg l2 n) :
    Seg (l1 ++ l2) n := by
  cases l2 with
  | nil => simpa [headLex] using h1
  | cons y r =>
    refine ⟨?_, ?_⟩
    · rw [admN_append l1 (y :: r) n false y r rfl, h1.2]
      simp only [headLex] at h1
      simp [h1.1, h2.1]
    · rw [closesEnd_append, h1.2]; exact h2.2

theorem seg_single (x : Lexeme) (s : List Char) (n : Option Lexeme) (hwf : x.wf = true) (hb : blank s = true)
    (hnd : x.isDefs = false) (hsep : sepOK x s n = true) (hcl : closes x s = false) : Seg [(x, s)] n := by
  refine ⟨?_, ?_⟩
  · simp [admN, hwf, hb, hnd, hsep]
  · simp [closesEnd, hcl]

theorem seg_struct (u : Bool) (n : Option Lexeme) (h : NextOK n) : Seg [(.struct u, [' '])] n :=
  seg_single _ _ _ rfl rfl rfl (by cases n with
    | none => simp [sepOK]
    | some y => simp [sepOK, h y rfl]) rfl

theorem seg_typedef (n : Option Lexeme) (h : NextOK n) : Seg [(.typedef, [' '])] n :=
  seg_single _ _ _ rfl rfl rfl (by cases n with
    | none => simp [sepOK]
    | some y => simp [sepOK, h y rfl]) rfl

theorem seg_punct (x : Lexeme) (hx : x = .lbrace ∨ x = .rbrace ∨ x = .semi) (s : List Char) (hs : s = [' '] ∨ s = ['\n'])
    (n : Option Lexeme) (h : NextOK n) : Seg [(x, s)] n := by
  have hb : blank s = true := by rcases hs with rfl | rfl <;> rfl
  have hne : s.isEmpty = false := by rcases hs with rfl | rfl <;> rfl
  have hsep : ∀ z : Lexeme, (z = .lbrace ∨ z = .rbrace ∨ z = .semi) → sepOK z s n = true := by
    intro z hz
    cases n with
    | none => rcases hz with rfl | rfl | rfl <;> simp [sepOK]
    | some y => rcases hz with rfl | rfl | rfl <;> simp [sepOK, h y rfl]
  rcases hx with rfl | rfl | rfl
  · exact seg_single _ _ _ rfl hb rfl (hsep _ (.inl rfl)) rfl
  · exact seg_single _ _ _ rfl hb rfl (hsep _ (.inr (.inl rfl))) (by simp [closes, hne])
  · exact seg_single _ _ _ rfl hb rfl (hsep _ (.inr (.inr rfl))) rfl

theorem seg_ident (w : List Char) (hw : isIdent w = true) (n : Option Lexeme) (h : NextOK n) (hs : n ≠ some .semi) :
    Seg [(.ident w, [' '])] n := by
  refine seg_single _ _ _ hw rfl rfl ?_ rfl
  cases n with
  | none => simp [sepOK]
  | some y =>
    have : y ≠ .semi := fun e => hs (by rw [e])
    simp [sepOK, h y rfl, this]

theorem seg_idents : ∀ (ws : List (List Char)), (∀ w ∈ ws, isIdent w = true) → ∀ (n : Option Lexeme), NextOK n → n ≠ some .semi →
    Seg (identLex ws) n
  | [], _, n, _, _ => seg_nil n
  | w :: ws, h, n, hn, hs => by
    have ih := seg_idents ws (fun x hx => h x (by simp [hx])) n hn hs
    have : identLex (w :: ws) = [(.ident w, [' '])] ++ identLex ws := rfl
    rw [this]
    refine seg_append _ _ n (seg_ident w (h w (by simp)) _ ?_ ?_) ih
    · cases ws with
      | nil => exact hn
      | cons v vs => intro y hy; simp [headLex, identLex] at hy; subst hy; rfl
    · cases ws with
      | nil => exact hs
      | cons v vs => simp [headLex, identLex]

theorem seg_name (pre w : List Char) (bits : Option (List Char × List Char × List Char)) (cnt : Option (List Char))
    (hwf : (Lexeme.name pre w bits cnt).wf = true) : Seg [(.name pre w bits cnt, [])] (some .semi) :=
  seg_single _ _ _ hwf rfl rfl (by simp [sepOK, Lexeme.isDefs]) rfl

theorem headLex_append (l1 l2 : List (Lexeme × List Char)) (n : Option Lexeme) (h : l1 ≠ []) : headLex (l1 ++ l2) n = headLex l1 n := by
  cases l1 with
  | nil => exact absurd rfl h
  | cons p r => rfl

theorem lexT_head (t : TypeRef) (h : wfT t = true) : ∃ x s r, lexT t = (x, s) :: r ∧ x.isDefs = false ∧ x ≠ .semi := by
  cases t with
  | none => simp [wfT] at h
  | name n =>
    obtain ⟨w, ws, hw⟩ := List.exists_cons_of_ne_nil (typeWordsOf_ne_nil n)
    exact ⟨.ident w, [' '], identLex ws, by simp [lexT, hw, identLex], rfl, by simp⟩
  | structRef t => exact ⟨_, _, _, rfl, rfl, by simp⟩
  | inline a => obtain ⟨u, tag, fs, ns⟩ := a; exact ⟨_, _, _, rfl, rfl, by simp⟩

theorem lexF_head (f : FieldDecl) (h : wfF f = true) : ∃ x s r, lexF f = (x, s) :: r ∧ x.isDefs = false := by
  cases f with
  | anon t =>
    simp only [wfF, Bool.and_eq_true] at h
    obtain ⟨x, s, r, e, hd, -⟩ := lexT_head t h.2
    exact ⟨x, s, r ++ [(.semi, [' '])], by simp [lexF, e], hd⟩
  | named t d =>
    simp only [wfF, Bool.and_eq_true] at h
    obtain ⟨x, s, r, e, hd, -⟩ := lexT_head t h.1
    exact ⟨x, s, r ++ [(declrLex d, []), (.semi, [' '])], by simp [lexF, e], hd⟩

theorem headLex_lexFs (fs : List FieldDecl) (h : wfFs fs = true) (tail : List (Lexeme × List Char)) (n : Option Lexeme)
    (ht : NextOK (headLex tail n)) : NextOK (headLex (lexFs fs ++ tail) n) := by
  cases fs with
  | nil => simpa [lexFs] using ht
  | cons f r =>
    simp only [wfFs, Bool.and_eq_true] at h
    obtain ⟨x, s, rr, e, hd⟩ := lexF_head f h.1
    intro y hy
    simp only [lexFs, e, List.cons_append, headLex, Option.some.injEq] at hy
    subst hy; exact hd

mutual
theorem segT : ∀ (t : TypeRef), wfT t = true → ∀ (n : Option Lexeme), NextOK n → n ≠ some .semi → Seg (lexT t) n
  | .none, h, _, _, _ => by simp [wfT] at h
  | .name nm, h, n, hn, hs => by
    simp only [wfT, List.all_eq_true] at h
    exact seg_idents _ h n hn hs
  | .structRef t, h, n, hn, hs => by
    simp only [wfT] at h
    have : lexT (.structRef t) = [(.struct false, [' '])] ++ [(.ident t, [' '])] := rfl
    rw [this]
    exact seg_append _ _ n (seg_struct false _ (by intro y hy; simp [headLex] at hy; subst hy; rfl)) (seg_ident t h n hn hs)
  | .inline a, h, n, hn, _ => segA a (by simpa [wfT] using h) n hn
theorem segA : ∀ (a : Aggr), wfA false a = true → ∀ (n : Option Lexeme), NextOK n → Seg (lexA a) n
  | .mk u tag fs ns, h, n, hn => by
    simp only [wfA, Bool.and_eq_true] at h
    obtain ⟨⟨htag, hfs⟩, -⟩ := h
    have hr : Seg [(Lexeme.rbrace, [' '])] n := seg_punct _ (.inr (.inl rfl)) _ (.inl rfl) n hn
    have hrb : NextOK (some Lexeme.rbrace) := by intro y hy; cases hy; rfl
    have h1 : Seg (lexFs fs ++ [(Lexeme.rbrace, [' '])]) n :=
      seg_append _ _ n (segFs fs hfs _ (by simpa [headLex] using hrb)) hr
    have hhead := headLex_lexFs fs hfs [(Lexeme.rbrace, [' '])] n (by simpa [headLex] using hrb)
    have h2 : Seg ((Lexeme.lbrace, [' ']) :: (lexFs fs ++ [(Lexeme.rbrace, [' '])])) n :=
      seg_append [(Lexeme.lbrace, [' '])] _ n (seg_punct _ (.inl rfl) _ (.inl rfl) _ hhead) h1
    have hlb : NextOK (some Lexeme.lbrace) := by intro y hy; cases hy; rfl
    cases tag with
    | none =>
      have : lexA (.mk u none fs ns) = [(Lexeme.struct u, [' '])] ++ ((Lexeme.lbrace, [' ']) :: (lexFs fs ++ [(Lexeme.rbrace, [' '])])) := by
        simp [lexA]
      rw [this]
      exact seg_append _ _ n (seg_struct u _ (by simpa [headLex] using hlb)) h2
    | some t =>
      have : lexA (.mk u (some t) fs ns) = [(Lexeme.struct u, [' '])] ++ ([(Lexeme.ident t, [' '])] ++
          ((Lexeme.lbrace, [' ']) :: (lexFs fs ++ [(Lexeme.rbrace, [' '])]))) := by simp [lexA]
      rw [this]
      refine seg_append _ _ n (seg_struct u _ (by intro y hy; simp [headLex] at hy; subst hy; rfl)) ?_
      exact seg_append _ _ n (seg_ident t htag _ (by simpa [headLex] using hlb) (by simp [headLex])) h2
theorem segF : ∀ (f : FieldDecl), wfF f = true → ∀ (n : Option Lexeme), NextOK n → Seg (lexF f) n
  | .anon t, h, n, hn => by
    simp only [wfF, Bool.and_eq_true] at h
    cases t with
    | inline a =>
      have hs : NextOK (some Lexeme.semi) := by intro y hy; cases hy; rfl
      exact seg_append _ _ n (segA a (by simpa [wfT] using h.2) _ (by simpa [headLex] using hs))
        (seg_punct _ (.inr (.inr rfl)) _ (.inl rfl) n hn)
    | none => simp at h
    | name nm => simp at h
    | structRef tg => simp at h
  | .named t d, h, n, hn => by
    simp only [wfF, Bool.and_eq_true] at h
    have hd := declrLex_wf true d h.2
    have htail : Seg [(declrLex d, []), (Lexeme.semi, [' '])] n := by
      have : [(declrLex d, ([] : List Char)), (Lexeme.semi, [' '])] = [(declrLex d, [])] ++ [(Lexeme.semi, [' '])] := rfl
      rw [this]
      refine seg_append _ _ n ?_ (seg_punct _ (.inr (.inr rfl)) _ (.inl rfl) n hn)
      simp only [headLex, declrLex] at hd ⊢
      exact seg_name _ _ _ _ hd
    refine seg_append _ _ n (segT t h.1 _ ?_ ?_) htail
    · intro y hy; simp [headLex, declrLex] at hy; subst hy; rfl
    · simp [headLex, declrLex]
theorem segFs : ∀ (fs : List FieldDecl), wfFs fs = true → ∀ (n : Option Lexeme), NextOK n → Seg (lexFs fs) n
  | [], _, n, _ => seg_nil n
  | f :: r, h, n, hn => by
    simp only [wfFs, Bool.and_eq_true] at h
    have := headLex_lexFs r h.2 [] n (by simpa [headLex] using hn)
    simp only [List.append_nil] at this
    exact seg_append _ _ n (segF f h.1 _ this) (segFs r h.2 n hn)
end

end Cstruct.DefParser.C13
