/-
  Helper lemmas for `Proofs/Core.lean`, part 3: unfolding lemmas for the writer, scalar round trips, array fast paths.
-/
import Proofs.Lemmas.CoreLayout
import Proofs.C05
namespace Cstruct.Core.Lemmas
open Cstruct Cstruct.Core

/-! ### Unfolding the writer -/

theorem write_sc (cfg : Cfg) (s a v pos) : write cfg (.sc s a) v pos = writeScalar cfg s v := by
  rw [write]

theorem write_enum_enum (cfg : Cfg) (b a f i pos) :
    write cfg (.enum b a f) (.enum i) pos = writeScalar cfg b (.int i) := by
  rw [write]

theorem write_ptr_ptr (cfg : Cfg) (t i pos) :
    write cfg (.ptr t) (.ptr i) pos = writeScalar cfg cfg.ptr (.int i) := by
  rw [write]

theorem write_arr_chars (cfg : Cfg) (a n b pos) :
    write cfg (.arr (.sc .char a) (.fixed n)) (.bytes b) pos = .ok b := by
  rw [write]
  intro h; cases h

theorem write_arr_list (cfg : Cfg) (e n vs pos) :
    write cfg (.arr e (.fixed n)) (.list vs) pos =
      if vs.length ≠ n then .error .arraySize else writeN cfg e vs pos := by
  rw [write.eq_def]
  cases e with
  | sc s a => cases s <;> rfl
  | _ => rfl

theorem write_struct (cfg : Cfg) (al fs vs pos) :
    write cfg (.struct al fs) (.record vs) pos =
      (structLayout cfg al fs).bind fun (_, salign, offs) =>
        (writeFields cfg al fs offs vs pos BitBuf.empty pos).bind fun (out, bb) =>
          (flushBits cfg bb).bind fun fl =>
            .ok (if al then (out ++ fl) ++ zeros (padNat (pos + (out ++ fl).length) salign) else out ++ fl) := by
  rw [write]
  cases structLayout cfg al fs with
  | error e => rfl
  | ok r =>
    obtain ⟨a, b, c⟩ := r
    simp only [Except.bind]
    cases writeFields cfg al fs c vs pos BitBuf.empty pos with
    | error e => rfl
    | ok r =>
      obtain ⟨out, bb⟩ := r
      simp only []
      cases flushBits cfg bb with
      | error e => rfl
      | ok fl => rfl

theorem writeN_nil (cfg : Cfg) (t pos) : writeN cfg t .nil pos = .ok [] := by
  rw [writeN]

theorem writeN_cons (cfg : Cfg) (t v vs pos) :
    writeN cfg t (.cons v vs) pos =
      (write cfg t v pos).bind fun a => (writeN cfg t vs (pos + a.length)).bind fun b => .ok (a ++ b) := by
  rw [writeN.eq_2]; ex2

theorem writeFields_nil (cfg : Cfg) (al offs vs start bb pos) :
    writeFields cfg al .nil offs vs start bb pos = .ok ([], bb) := by
  rw [writeFields.eq_def]

theorem writeFields_cons_S (cfg : Cfg) (al name an ty rest fo offs v vs start pos) :
    writeFields cfg al (.cons name an ty none rest) (some fo :: offs) (.cons v vs) start BitBuf.empty pos =
      (write cfg ty v (pos + (if pos < start + fo then start + fo - pos else 0))).bind fun body =>
        (writeFields cfg al rest offs vs start BitBuf.empty
            (pos + (zeros (if pos < start + fo then start + fo - pos else 0) ++ body).length)).bind fun (o, bbf) =>
          .ok (zeros (if pos < start + fo then start + fo - pos else 0) ++ body ++ o, bbf) := by
  rw [writeFields.eq_def]
  simp [BitBuf.empty, zeros]
  ex2


/-! ### `sread` / `readExact` on concrete inputs -/

theorem sread_mid (pre bs post : Bytes) : sread (pre ++ bs ++ post) pre.length bs.length = bs := by
  unfold sread
  rw [List.append_assoc, List.drop_left, List.take_left]

theorem readExact_mid (pre bs post : Bytes) (pos n : Nat) (hp : pre.length = pos) (hn : bs.length = n) :
    readExact (pre ++ bs ++ post) pos n = .ok (bs, pos + n) := by
  subst hp; subst hn
  have h := sread_mid pre bs post
  have := readExact_of_len (d := pre ++ bs ++ post) (pos := pre.length) (n := bs.length) (by rw [h])
  rw [this, h]

theorem sread_length_of_le (d : Bytes) (pos n : Nat) (h : pos + n ≤ d.length) : (sread d pos n).length = n := by
  unfold sread
  rw [List.length_take, List.length_drop]; omega

theorem readExact_of_le (d : Bytes) (pos n : Nat) (h : pos + n ≤ d.length) :
    readExact d pos n = .ok (sread d pos n, pos + n) :=
  readExact_of_len (sread_length_of_le d pos n h)

/-! ### Scalars of fragment S -/

/-- write/read facts for one value of a type: the bytes written, their number, and that they parse back -/
def WR (cfg : Cfg) (ty : Ty) (v : Val) (pos : Nat) : Prop :=
  ∃ bs k, write cfg ty v pos = .ok bs ∧ ty.size cfg = some k ∧ bs.length = k ∧
    ∀ (pre post : Bytes) (ctx : Ctx), pre.length = pos → read cfg ty ctx (pre ++ bs ++ post) pos = .ok (v, pos + k)

theorem int_wr (cfg : Cfg) (s : Scalar) (v : Int) (hi : Scalar.isInt s = true) (hf : intFits s v = true) :
    ∃ bs k, writeScalar cfg s (.int v) = .ok bs ∧ s.size = some k ∧ bs.length = k ∧
      ∀ (pre post : Bytes) (pos : Nat), pre.length = pos →
        readScalar cfg s (pre ++ bs ++ post) pos = .ok (.int v, pos + k) := by
  cases s with
  | pint n sg =>
    simp only [intFits] at hf
    obtain ⟨bs, h1, h2, h3⟩ := C05.c05_int_roundtrip cfg.endian n sg v hf
    refine ⟨bs, n, by simp only [writeScalar, h1], rfl, h2, ?_⟩
    intro pre post pos hp
    simp only [readScalar, bind, pure, readExact_mid pre bs post pos n hp h2, Except.bind, Except.pure, h3]
  | aint n sg =>
    simp only [intFits] at hf
    obtain ⟨bs, h1, h2, h3⟩ := C05.c05_int_roundtrip cfg.endian n sg v hf
    refine ⟨bs, n, by simp only [writeScalar, h1], rfl, h2, ?_⟩
    intro pre post pos hp
    simp only [readScalar, bind, pure, readExact_mid pre bs post pos n hp h2, Except.bind, Except.pure, h3]
  | pflt n => simp [Scalar.isInt] at hi
  | char => simp [Scalar.isInt] at hi
  | wchar => simp [Scalar.isInt] at hi
  | leb sg => simp [Scalar.isInt] at hi
  | void => simp [Scalar.isInt] at hi

theorem wr_sc (cfg : Cfg) (s : Scalar) (a : Nat) (v : Val) (hv : HasTy cfg v (.sc s a)) (pos : Nat) :
    WR cfg (.sc s a) v pos := by
  unfold WR
  cases hv with
  | int hi hf =>
    obtain ⟨bs, k, h1, h2, h3, h4⟩ := int_wr cfg s _ hi hf
    refine ⟨bs, k, by rw [write_sc]; exact h1, by simp only [Ty.size]; exact h2, h3, ?_⟩
    intro pre post ctx hp
    rw [read_sc]; exact h4 pre post pos hp
  | @flt n _ b hb =>
    refine ⟨encodeBits cfg.endian n b, n, ?_, rfl, C05.Lemmas.encBytes_length _ _ _, ?_⟩
    · rw [write_sc]; simp only [writeScalar, if_pos hb]
    · intro pre post ctx hp
      rw [read_sc]
      have heq : encodeBits cfg.endian n b = C05.Lemmas.encBytes cfg.endian n b := rfl
      have hrd := readExact_mid pre (encodeBits cfg.endian n b) post pos n hp
        (C05.Lemmas.encBytes_length cfg.endian n b)
      simp only [readScalar, bind, pure, hrd, Except.bind, Except.pure]
      rw [heq, C05.Lemmas.decodeNat_encBytes cfg.endian n b hb]
  | @char _ b =>
    refine ⟨[b], 1, by rw [write_sc]; rfl, rfl, rfl, ?_⟩
    intro pre post ctx hp
    rw [read_sc]
    simp only [readScalar, bind, pure, readExact_mid pre [b] post pos 1 hp rfl, Except.bind, Except.pure]
  | void =>
    refine ⟨[], 0, by rw [write_sc]; rfl, rfl, rfl, ?_⟩
    intro pre post ctx hp
    rw [read_sc]; rfl

theorem wr_enum (cfg : Cfg) (b : Scalar) (a : Nat) (f : Bool) (v : Val) (hS : (Ty.enum b a f).fragS cfg = true)
    (hv : HasTy cfg v (.enum b a f)) (pos : Nat) : WR cfg (.enum b a f) v pos := by
  unfold WR
  simp only [Ty.fragS] at hS
  cases hv with
  | enum hf =>
    obtain ⟨bs, k, h1, h2, h3, h4⟩ := int_wr cfg b _ hS hf
    refine ⟨bs, k, by rw [write_enum_enum]; exact h1, by simp only [Ty.size]; exact h2, h3, ?_⟩
    intro pre post ctx hp
    rw [read_enum, h4 pre post pos hp]; rfl

theorem wr_ptr (cfg : Cfg) (t : Ty) (v : Val) (hS : (Ty.ptr t).fragS cfg = true)
    (hv : HasTy cfg v (.ptr t)) (pos : Nat) : WR cfg (.ptr t) v pos := by
  unfold WR
  simp only [Ty.fragS] at hS
  cases hv with
  | ptr hf =>
    obtain ⟨bs, k, h1, h2, h3, h4⟩ := int_wr cfg cfg.ptr _ hS hf
    refine ⟨bs, k, by rw [write_ptr_ptr]; exact h1, by simp only [Ty.size]; exact h2, h3, ?_⟩
    intro pre post ctx hp
    rw [read_ptr, h4 pre post pos hp]; rfl


/-! ### Arrays: the bulk readers agree with the element loop -/

theorem sread_add (d : Bytes) (pos k m : Nat) : sread d pos (k + m) = sread d pos k ++ sread d (pos + k) m := by
  unfold sread
  rw [List.take_add, List.drop_drop]

theorem sread_zero (d : Bytes) (pos : Nat) : sread d pos 0 = [] := by
  unfold sread; simp

/-- scalars with a fixed-width decoder and a bulk array reader -/
def Bulk (cfg : Cfg) (s : Scalar) (k : Nat) (dec : Bytes → Val) : Prop :=
  (∀ data pos, readScalar cfg s data pos = (readExact data pos k).bind fun r => .ok (dec r.1, r.2)) ∧
  (∀ n data pos, readScalarArray cfg s n data pos =
    some ((readExact data pos (k * n)).bind fun r => .ok (.list (Vals.ofList ((splitEvery k n r.1).map dec)), r.2)))

theorem bulk_pint (cfg : Cfg) (k : Nat) (sg : Bool) :
    Bulk cfg (.pint k sg) k (fun bs => .int (decodeInt cfg.endian sg bs)) := by
  constructor
  · intro data pos; rfl
  · intro n data pos
    simp only [readScalarArray, Vals.ofInts, List.map_map]; rfl

theorem bulk_pflt (cfg : Cfg) (k : Nat) :
    Bulk cfg (.pflt k) k (fun bs => .flt (decodeNat cfg.endian bs)) := by
  constructor
  · intro data pos; rfl
  · intro n data pos; rfl

theorem readN_bulk (cfg : Cfg) (s : Scalar) (a k : Nat) (dec : Bytes → Val) (hB : Bulk cfg s k dec) (ctx : Ctx)
    (data : Bytes) : ∀ (n pos : Nat) (vs : Vals) (p : Nat), readN cfg (.sc s a) n ctx data pos = .ok (vs, p) →
      (sread data pos (k * n)).length = k * n ∧ p = pos + k * n ∧
        vs = Vals.ofList ((splitEvery k n (sread data pos (k * n))).map dec) := by
  intro n
  induction n with
  | zero =>
    intro pos vs p h
    rw [readN_zero] at h
    cases h
    simp [sread_zero, splitEvery, Vals.ofList]
  | succ n ih =>
    intro pos vs p h
    rw [readN_succ] at h
    obtain ⟨⟨v, p1⟩, h1, h2⟩ := bind_ok h
    obtain ⟨⟨vs', p'⟩, h3, h4⟩ := bind_ok h2
    rw [read_sc, hB.1] at h1
    obtain ⟨⟨bs1, q⟩, h5, h6⟩ := bind_ok h1
    obtain ⟨hl1, hr⟩ := readExact_ok h5
    cases hr
    cases h6
    cases h4
    obtain ⟨i1, i2, i3⟩ := ih _ _ _ h3
    have hk : k * (n + 1) = k + k * n := by rw [Nat.mul_succ]; omega
    rw [hk, sread_add]
    refine ⟨by rw [List.length_append, hl1, i1], by omega, ?_⟩
    simp only [splitEvery, List.map_cons, Vals.ofList]
    rw [List.take_left' hl1, List.drop_left' hl1, i3]

theorem readScalarArray_of_readN (cfg : Cfg) (s : Scalar) (a k : Nat) (dec : Bytes → Val) (hB : Bulk cfg s k dec)
    (ctx : Ctx) (data : Bytes) (n pos : Nat) (vs : Vals) (p : Nat)
    (h : readN cfg (.sc s a) n ctx data pos = .ok (vs, p)) :
    readScalarArray cfg s n data pos = some (.ok (.list vs, p)) := by
  obtain ⟨h1, h2, h3⟩ := readN_bulk cfg s a k dec hB ctx data n pos vs p h
  rw [hB.2, readExact_of_len h1]
  simp only [Except.bind, h2, h3]

theorem readN_enum (cfg : Cfg) (b : Scalar) (a : Nat) (f : Bool) (ctx : Ctx) (data : Bytes) :
    ∀ (n pos : Nat) (vs : Vals) (p : Nat), readN cfg (.enum b a f) n ctx data pos = .ok (vs, p) →
      ∃ vs', readN cfg (.sc b a) n ctx data pos = .ok (vs', p) ∧ vs'.mapEnum = vs := by
  intro n
  induction n with
  | zero =>
    intro pos vs p h
    rw [readN_zero] at h ⊢
    cases h
    exact ⟨.nil, rfl, rfl⟩
  | succ n ih =>
    intro pos vs p h
    rw [readN_succ] at h ⊢
    obtain ⟨⟨v, p1⟩, h1, h2⟩ := bind_ok h
    obtain ⟨⟨vs', p'⟩, h3, h4⟩ := bind_ok h2
    rw [read_enum] at h1
    obtain ⟨i, q, h5, h6⟩ := wrapInt_ok h1
    cases h6; cases h4
    obtain ⟨ws, h7, h8⟩ := ih _ _ _ h3
    refine ⟨.cons (.int i) ws, ?_, ?_⟩
    · rw [read_sc, h5]; simp only [Except.bind]; rw [h7]
    · simp only [Vals.mapEnum, h8]

theorem readArray_char (cfg : Cfg) (a n : Nat) (ctx : Ctx) (data : Bytes) (pos : Nat) :
    readArray cfg (.sc .char a) n ctx data pos =
      if n = 0 then .ok (.bytes [], pos) else (readExact data pos n).bind fun r => .ok (.bytes r.1, r.2) := by
  rw [readArray.eq_1]; rfl

theorem readArray_of_readN (cfg : Cfg) (e : Ty) (hS : e.fragS cfg = true) (hne : ∀ a, e ≠ .sc .char a)
    (ctx : Ctx) (data : Bytes) (n pos : Nat) (vs : Vals) (p : Nat)
    (h : readN cfg e n ctx data pos = .ok (vs, p)) : readArray cfg e n ctx data pos = .ok (.list vs, p) := by
  cases e with
  | sc s a =>
    rw [readArray.eq_1]
    cases s with
    | pint k sg => rw [readScalarArray_of_readN cfg _ a k _ (bulk_pint cfg k sg) ctx data n pos vs p h]
    | pflt k => rw [readScalarArray_of_readN cfg _ a k _ (bulk_pflt cfg k) ctx data n pos vs p h]
    | aint k sg => simp only [readScalarArray, h, Except.map]
    | void => simp only [readScalarArray, h, Except.map]
    | char => exact absurd rfl (hne a)
    | wchar => simp [Ty.fragS] at hS
    | leb sg => simp [Ty.fragS] at hS
  | enum b a f =>
    rw [readArray.eq_2]
    obtain ⟨vs', h1, h2⟩ := readN_enum cfg b a f ctx data n pos vs p h
    simp only [Ty.fragS] at hS
    cases b with
    | pint k sg =>
      rw [readScalarArray_of_readN cfg _ a k _ (bulk_pint cfg k sg) ctx data n pos vs' p h1]
      simp only [h2]
    | aint k sg => simp only [readScalarArray, h1, h2]
    | pflt k => simp [Scalar.isInt] at hS
    | char => simp [Scalar.isInt] at hS
    | wchar => simp [Scalar.isInt] at hS
    | leb sg => simp [Scalar.isInt] at hS
    | void => simp [Scalar.isInt] at hS
  | ptr t =>
    rw [readArray.eq_3 _ _ _ _ _ _ (by intros; contradiction) (by intros; contradiction), h]; rfl
  | arr e' l =>
    rw [readArray.eq_3 _ _ _ _ _ _ (by intros; contradiction) (by intros; contradiction), h]; rfl
  | struct al fs =>
    rw [readArray.eq_3 _ _ _ _ _ _ (by intros; contradiction) (by intros; contradiction), h]; rfl
  | union al fs => simp [Ty.fragS] at hS

end Cstruct.Core.Lemmas
