/-
  C13, round trip — helper lemmas (7): the observed tokens of the rendered lexemes are the token lists the handler lemmas are about.
-/
import Proofs.Lemmas.C13RenderF

namespace Cstruct.DefParser.C13
open Cstruct.DefParser

theorem strip_name_text (pre w : List Char) (bits : Option (List Char × List Char × List Char)) (cnt : Option (List Char))
    (hwf : (Lexeme.name pre w bits cnt).wf = true) : strip (Lexeme.name pre w bits cnt).text = (Lexeme.name pre w bits cnt).text := by
  have h := obs_name pre w bits cnt hwf [] rfl
  obtain ⟨c, t, ht, hf⟩ := text_first _ hwf rfl
  have hc : isWs c = false := by
    have hwf' := hwf
    simp only [Lexeme.wf, Bool.and_eq_true, isWordStr] at hwf'
    obtain ⟨⟨⟨⟨hpre, -⟩, hwne, hw⟩, -⟩, -⟩ := hwf'
    cases pre with
    | cons p pre =>
      simp only [preOK, Bool.and_eq_true, beq_iff_eq] at hpre
      obtain ⟨rfl, -⟩ := hpre
      have : c = '*' := by simp [Lexeme.text] at ht; exact ht.1.symm
      subst this; decide
    | nil =>
      cases w with
      | nil => simp at hwne
      | cons e w =>
        simp only [List.all_cons, Bool.and_eq_true] at hw
        have : c = e := by simp [Lexeme.text] at ht; exact ht.1.symm
        subst this; exact isWs_of_word c hw.1
  have hlast : ∀ d, (c :: t).getLast? = some d → isWs d = false := by
    intro d hd; rw [← ht] at hd; exact name_last pre w bits cnt hwf d hd
  have := strip_core [] [] c t rfl rfl hc hlast
  rw [ht]; simpa using this

theorem obs_declrLex (ab : Bool) (d : Declarator) (h : declrWF ab d = true) :
    Tok.obs (tokOf (declrLex d) []) = .name (declrLex d).text (.ok d) := by
  have hwf := declrLex_wf ab d h
  have h1 := parseDeclarator_declrLex ab d h
  simp only [declrLex] at hwf h1 ⊢
  have h2 := strip_name_text _ _ _ _ hwf
  simp only [tokOf, List.append_nil, Tok.obs, h1, h2]

theorem obs_nameLex (n : List Char) (h : isIdent n = true) :
    Tok.obs (tokOf (.name [] n none none) []) = .name n (parseDeclarator n) := by
  have hwf := nameLex_wf n h
  have h2 := strip_name_text _ _ _ _ hwf
  have e : (Lexeme.name [] n none none).text = n := by simp [Lexeme.text, bitsText, countText]
  rw [e] at h2
  simp only [tokOf, e, List.append_nil, Tok.obs, h2]

theorem obs_struct (u : Bool) (s : List Char) : Tok.obs (tokOf (.struct u) s) = .struct u := by
  cases u <;> rfl

theorem strip_word (w : List Char) (h : isWordStr w = true) : strip w = w := by
  simp only [isWordStr, Bool.and_eq_true, Bool.not_eq_true', List.isEmpty_eq_false_iff] at h
  obtain ⟨c, t, rfl⟩ := List.exists_cons_of_ne_nil h.1
  have hc : isWs c = false := by
    have := h.2; simp only [List.all_cons, Bool.and_eq_true] at this; exact isWs_of_word c this.1
  simpa using strip_core [] [] c t rfl rfl hc (fun d hd => last_word (c :: t) h.2 d hd)

/-- the names of a rendered name list -/
theorem split_moreText : ∀ (r : List (List Char)) (w : List Char), isWordStr w = true → (∀ m ∈ r, isWordStr m = true) →
    (splitOn1 ',' (w ++ moreText (r.map fun m => (([] : List Char), [' '], m)))).map strip = w :: r
  | [], w, hw, _ => by
    have hnc : ∀ c ∈ w, c ≠ ',' := by
      simp only [isWordStr, Bool.and_eq_true, List.all_eq_true] at hw
      exact fun c hc => word_ne (hw.2 c hc) _ (by decide)
    simp [moreText, splitOn1_single ',' w hnc, strip_word w hw]
  | m :: r, w, hw, hr => by
    have hnc : ∀ c ∈ w, c ≠ ',' := by
      simp only [isWordStr, Bool.and_eq_true, List.all_eq_true] at hw
      exact fun c hc => word_ne (hw.2 c hc) _ (by decide)
    have ih := split_moreText r m (hr m (by simp)) (fun x hx => hr x (by simp [hx]))
    have e : w ++ moreText ((m :: r).map fun m => (([] : List Char), [' '], m)) = w ++ ',' :: (' ' :: (m ++ moreText (r.map fun m => (([] : List Char), [' '], m)))) := by
      simp [moreText]
    rw [e, splitOn1_cons ',' w _ hnc]
    -- the next piece starts with the blank behind the comma
    have hsp : ∀ (x : List Char), splitOn1 ',' (' ' :: x) = (match splitOn1 ',' x with | [] => [[]] | h :: t => (' ' :: h) :: t) := by
      intro x; simp only [splitOn1]; cases splitOn1 ',' x <;> simp
    rw [hsp]
    cases hs : splitOn1 ',' (m ++ moreText (r.map fun m => (([] : List Char), [' '], m))) with
    | nil => exact absurd hs (splitOn1_ne_nil _ _)
    | cons h t =>
      rw [hs] at ih
      simp only [List.map_cons, List.cons.injEq] at ih ⊢
      refine ⟨strip_word w hw, ?_, ih.2⟩
      have := strip_pad [' '] h [] (by decide) rfl
      simp only [List.append_nil, List.cons_append, List.nil_append] at this
      rw [this, ih.1]

theorem obs_defsLex (n : List Char) (r : List (List Char)) (hn : isIdent n = true) (hr : ∀ m ∈ r, isIdent m = true) (hne : r ≠ []) :
    Tok.obs (tokOf (.defs [' '] n (r.map fun m => (([] : List Char), [' '], m))) []) = .defs (n :: r) := by
  have hwf := defsLex_wf n r hn hr hne
  have h1 := obs_defs [' '] n _ hwf [] rfl
  simp only [tokOf]
  rw [h1]
  have hsw : strip (n ++ moreText (r.map fun m => (([] : List Char), [' '], m))) = n ++ moreText (r.map fun m => (([] : List Char), [' '], m)) := by
    have hw := (ident_word n hn).1
    have hw' := hw
    simp only [isWordStr, Bool.and_eq_true, Bool.not_eq_true', List.isEmpty_eq_false_iff] at hw'
    obtain ⟨c, t, rfl⟩ := List.exists_cons_of_ne_nil hw'.1
    have hc : isWs c = false := by
      have := hw'.2; simp only [List.all_cons, Bool.and_eq_true] at this; exact isWs_of_word c this.1
    have hm : moreOK (r.map fun m => (([] : List Char), [' '], m)) = true := moreOK_map r hr
    have := strip_core [] [] c (t ++ moreText (r.map fun m => (([] : List Char), [' '], m))) rfl rfl hc
      (fun d hd => more_last (c :: t) _ hw hm d (by simpa using hd))
    simpa using this
  simp only [Tok.obs, hsw]
  rw [split_moreText r n (ident_word n hn).1 (fun m hm => (ident_word m (hr m hm)).1)]

def obsOf (l : List (Lexeme × List Char)) : List OTok := (toks l).map Tok.obs

theorem obsOf_append (l1 l2 : List (Lexeme × List Char)) : obsOf (l1 ++ l2) = obsOf l1 ++ obsOf l2 := by
  simp [obsOf, toks_append]

theorem obsOf_cons (x : Lexeme) (s : List Char) (l : List (Lexeme × List Char)) : obsOf ((x, s) :: l) = (tokOf x s).obs :: obsOf l := rfl

theorem obsOf_identLex : ∀ (ws : List (List Char)), obsOf (identLex ws) = ws.map .ident
  | [] => rfl
  | w :: ws => by
    have := obsOf_identLex ws
    simp only [identLex, List.map_cons] at this ⊢
    rw [obsOf_cons, this]; rfl

theorem obsOf_tag (tag : Option (List Char)) :
    obsOf (match tag with | some t => [(Lexeme.ident t, [' '])] | none => []) = tagTok tag := by
  cases tag <;> rfl

theorem obs_lbrace (s : List Char) : (tokOf Lexeme.lbrace s).obs = .block false := rfl
theorem obs_rbrace (s : List Char) : (tokOf Lexeme.rbrace s).obs = .block true := rfl
theorem obs_semi (s : List Char) : (tokOf Lexeme.semi s).obs = .eol := rfl
theorem obs_typedefKw (s : List Char) : (tokOf Lexeme.typedef s).obs = .typedef := rfl
theorem obs_identKw (w s : List Char) : (tokOf (Lexeme.ident w) s).obs = .ident w := rfl
theorem obsOf_nil : obsOf [] = [] := rfl

mutual
theorem obsT : ∀ (t : TypeRef), wfT t = true → obsOf (lexT t) = oT t
  | .none, h => by simp [wfT] at h
  | .name n, _ => by simp only [lexT, oT, obsOf_identLex]
  | .structRef t, _ => by simp [lexT, oT, obsOf_cons, obs_struct, obs_identKw, obsOf_nil]
  | .inline a, h => by simp only [lexT, oT]; exact obsA a (by simpa [wfT] using h)
theorem obsA : ∀ (a : Aggr), wfA false a = true → obsOf (lexA a) = oA a
  | .mk u tag fs ns, h => by
    simp only [wfA, Bool.and_eq_true] at h
    have ih := obsFs fs h.1.2
    cases tag <;>
    simp [lexA, oA, tagTok, obsOf_cons, obsOf_append, obs_struct, ih, obs_lbrace, obs_rbrace, obs_identKw, obsOf_nil]
theorem obsF : ∀ (f : FieldDecl), wfF f = true → obsOf (lexF f) = oF f
  | .anon t, h => by
    simp only [wfF, Bool.and_eq_true] at h
    simp [lexF, oF, obsOf_append, obsT t h.2, obsOf_cons, obs_semi, obsOf_nil]
  | .named t d, h => by
    simp only [wfF, Bool.and_eq_true] at h
    simp [lexF, oF, obsOf_append, obsT t h.1, obsOf_cons, obs_declrLex true d h.2, obs_semi, obsOf_nil]
theorem obsFs : ∀ (fs : List FieldDecl), wfFs fs = true → obsOf (lexFs fs) = oFs fs
  | [], _ => rfl
  | f :: r, h => by
    simp only [wfFs, Bool.and_eq_true] at h
    simp only [lexFs, oFs, obsOf_append, obsF f h.1, obsFs r h.2]
end

theorem obsOf_namesLex (ns : List (List Char)) (h : ∀ m ∈ ns, isIdent m = true) : obsOf (namesLex ns) = oNames ns := by
  match ns, h with
  | [], _ => rfl
  | [m], hm => simp [namesLex, oNames, obsOf_cons, obs_nameLex m (hm m (by simp)), obsOf_nil]
  | m :: m2 :: r, hm =>
    have := obs_defsLex m (m2 :: r) (hm m (by simp)) (fun x hx => hm x (by simp [hx])) (by simp)
    simp only [namesLex, oNames, obsOf_cons, obsOf_nil, this]

theorem normType_base (b : List Char) (h : baseWF b = true) : normType b = b := by
  simp only [baseWF, Bool.and_eq_true, beq_iff_eq] at h; exact h.2

theorem obsDecl (d : Decl) (h : wfDecl d = true) : obsOf (lexDecl d) = oD d := by
  cases d with
  | lookup a b => simp [wfDecl] at h
  | config vs =>
    have hw := configLex_wf vs h
    have := matchConfig_lexeme (joinComma vs) [] hw
    simp only [List.append_nil] at this
    simp only [lexDecl, oD, obsOf_cons, tokOf, Tok.obs, this, obsOf_nil]; rfl
  | const n v =>
    have hw := defineLex_wf n v h
    have h1 := obs_define [' '] n [' '] v hw ['\n'] rfl rfl
    have := matchDefine_lexeme spOK_U [' '] n [' '] v hw [] [] rfl rfl rfl
    simp only [List.append_nil] at this
    simp only [lexDecl, oD, obsOf_cons, tokOf, obsOf_nil]
    rw [h1]
    simp only [Tok.obs, this]; rfl
  | enum fl n b ms =>
    have hw := enumLex_wf fl n b ms h
    have := obs_enum fl [' '] n _ _ _ hw [] rfl
    simp only [wfDecl, Bool.and_eq_true] at h
    have hb := normType_base b h.1.2
    simp only [lexDecl, oD, obsOf_cons, tokOf, obsOf_nil]
    rw [this]
    simp only [Option.map, hb]
    rfl
  | typedef t ds =>
    simp only [wfDecl, Bool.and_eq_true] at h
    obtain ⟨ht, hds⟩ := h
    match ds, hds with
    | [d], hd =>
      simp [lexDecl, oD, obsOf_cons, obsOf_append, obsT t ht, obs_declrLex false d hd, obs_typedefKw, obs_semi, obsOf_nil]
  | aggr a =>
    obtain ⟨u, tag, fs, ns⟩ := a
    simp only [wfDecl, wfA, Bool.and_eq_true, if_true, List.all_eq_true] at h
    obtain ⟨⟨htag, hfs⟩, hns, -⟩ := h
    cases tag <;>
    simp [lexDecl, lexTop, oD, tagTok, obsOf_cons, obsOf_append, obs_struct, obsFs fs hfs, obsOf_namesLex ns hns, obs_lbrace, obs_rbrace,
      obs_semi, obs_identKw, obsOf_nil]

theorem obsDecls : ∀ (ds : List Decl), wfDecls ds = true → obsOf (lexDecls ds) = ds.flatMap oD
  | [], _ => rfl
  | d :: r, h => by
    simp only [wfDecls, List.all_cons, Bool.and_eq_true] at h
    have ih := obsDecls r (by simpa [wfDecls] using h.2)
    simp only [lexDecls, List.flatMap_cons] at ih ⊢
    rw [obsOf_append, obsDecl d h.1, ih]

end Cstruct.DefParser.C13
