/-
  Helper lemmas for `Proofs/C07Null.lean`, part 3: element types that make progress (the class `consumes` of
  `Proofs/Spec/C07Null.lean`) — primitives: scalars, `readN`, the read-until-terminator loop.
-/
import Proofs.Lemmas.C07Null
namespace Cstruct.C07.Lemmas
open Cstruct Cstruct.C07 Cstruct.Core.Lemmas

/-- a successful read never ends before its start -/
def Fwd (cfg : Cfg) (t : Ty) : Prop := ∀ ctx d p v q, read cfg t ctx d p = .ok (v, q) → p ≤ q
/-- a successful read takes at least one byte from inside the input -/
def Str (cfg : Cfg) (t : Ty) : Prop := ∀ ctx d p v q, read cfg t ctx d p = .ok (v, q) → p < q ∧ p < d.length

theorem readScalar_strict (cfg : Cfg) (s : Scalar) (d : Bytes) (p : Nat) (v : Val) (q : Nat)
    (hs : s.size ≠ some 0) (h : readScalar cfg s d p = .ok (v, q)) : p < q ∧ p < d.length := by
  obtain ⟨h1, h2, _⟩ := readScalar_adv cfg s d p v q h
  have hne : q ≠ p := by
    intro hq
    subst hq
    cases s with
    | pint n sg =>
      simp only [readScalar, bind, pure] at h
      obtain ⟨⟨bs, q'⟩, h1, h2⟩ := bind_ok h
      cases h2
      obtain ⟨h3, _, _⟩ := readExact_adv h1
      simp only [Scalar.size] at hs
      have : n = 0 := by omega
      exact hs (by rw [this])
    | aint n sg =>
      simp only [readScalar, bind, pure] at h
      obtain ⟨⟨bs, q'⟩, h1, h2⟩ := bind_ok h
      cases h2
      obtain ⟨h3, _, _⟩ := readExact_adv h1
      simp only [Scalar.size] at hs
      have : n = 0 := by omega
      exact hs (by rw [this])
    | pflt n =>
      simp only [readScalar, bind, pure] at h
      obtain ⟨⟨bs, q'⟩, h1, h2⟩ := bind_ok h
      cases h2
      obtain ⟨h3, _, _⟩ := readExact_adv h1
      simp only [Scalar.size] at hs
      have : n = 0 := by omega
      exact hs (by rw [this])
    | char =>
      simp only [readScalar, bind, pure] at h
      obtain ⟨⟨bs, q'⟩, h1, h2⟩ := bind_ok h
      cases h2
      obtain ⟨h3, _, _⟩ := readExact_adv h1
      omega
    | wchar =>
      simp only [readScalar, bind, pure] at h
      obtain ⟨⟨bs, q'⟩, h1, h2⟩ := bind_ok h
      obtain ⟨w, _, h4⟩ := bind_ok h2
      cases h4
      obtain ⟨h3, _, _⟩ := readExact_adv h1
      omega
    | leb sg =>
      simp only [readScalar] at h
      split at h
      · rename_i v' rest hr
        cases h
        have := (lebRead_append sg _ [] _ _ hr).2
        rw [List.length_drop] at this
        omega
      · cases h
    | void => exact hs rfl
  exact ⟨by omega, h2 (by omega)⟩

theorem fwd_sc (cfg : Cfg) (s a) : Fwd cfg (.sc s a) := by
  intro ctx d p v q h
  rw [read_sc] at h
  exact (readScalar_adv cfg s d p v q h).1

theorem fwd_enum (cfg : Cfg) (b a f) : Fwd cfg (.enum b a f) := by
  intro ctx d p v q h
  rw [read_enum] at h
  obtain ⟨i, q', h1, h2⟩ := wrapInt_ok h
  cases h2
  exact (readScalar_adv cfg b d p _ _ h1).1

theorem fwd_ptr (cfg : Cfg) (t) : Fwd cfg (.ptr t) := by
  intro ctx d p v q h
  rw [read_ptr] at h
  obtain ⟨i, q', h1, h2⟩ := wrapInt_ok h
  cases h2
  exact (readScalar_adv cfg _ d p _ _ h1).1

theorem str_sc (cfg : Cfg) (s a) (hs : s.size ≠ some 0) : Str cfg (.sc s a) := by
  intro ctx d p v q h
  rw [read_sc] at h
  exact readScalar_strict cfg s d p v q hs h

theorem str_enum (cfg : Cfg) (b a f) (hs : b.size ≠ some 0) : Str cfg (.enum b a f) := by
  intro ctx d p v q h
  rw [read_enum] at h
  obtain ⟨i, q', h1, h2⟩ := wrapInt_ok h
  cases h2
  exact readScalar_strict cfg b d p _ _ hs h1

theorem str_ptr (cfg : Cfg) (t) (hs : cfg.ptr.size ≠ some 0) : Str cfg (.ptr t) := by
  intro ctx d p v q h
  rw [read_ptr] at h
  obtain ⟨i, q', h1, h2⟩ := wrapInt_ok h
  cases h2
  exact readScalar_strict cfg _ d p _ _ hs h1

/-! ### `readN` -/

theorem readN_fwd (cfg : Cfg) (t : Ty) (hF : Fwd cfg t) (ctx : Ctx) (d : Bytes) :
    ∀ (n pos : Nat) (vs : Vals) (q : Nat), readN cfg t n ctx d pos = .ok (vs, q) → pos ≤ q := by
  intro n
  induction n with
  | zero => intro pos vs q h; rw [readN_zero] at h; cases h; exact Nat.le_refl _
  | succ n ih =>
    intro pos vs q h
    rw [readN_succ] at h
    obtain ⟨⟨v, p1⟩, h1, h2⟩ := bind_ok h
    obtain ⟨⟨vs', q'⟩, h3, h4⟩ := bind_ok h2
    cases h4
    have := hF _ _ _ _ _ h1
    have := ih _ _ _ h3
    omega

theorem readN_str (cfg : Cfg) (t : Ty) (hF : Fwd cfg t) (hS : Str cfg t) (ctx : Ctx) (d : Bytes)
    (n pos : Nat) (vs : Vals) (q : Nat) (hn : n ≠ 0) (h : readN cfg t n ctx d pos = .ok (vs, q)) :
    pos < q ∧ pos < d.length := by
  obtain ⟨m, rfl⟩ : ∃ m, n = m + 1 := ⟨n - 1, by omega⟩
  rw [readN_succ] at h
  obtain ⟨⟨v, p1⟩, h1, h2⟩ := bind_ok h
  obtain ⟨⟨vs', q'⟩, h3, h4⟩ := bind_ok h2
  cases h4
  have := hS _ _ _ _ _ h1
  have := readN_fwd cfg t hF ctx d _ _ _ _ h3
  omega

/-! ### the loop -/

theorem reads_fwd {rd : Nat → Except Err (Val × Nat)} (hF : ∀ p v q, rd p = .ok (v, q) → p ≤ q) :
    ∀ (vs : List Val) (p p' : Nat), Reads rd p vs p' → p ≤ p' := by
  intro vs
  induction vs with
  | nil => intro p p' h; cases reads_nil h; exact Nat.le_refl _
  | cons v vs ih =>
    intro p p' h
    cases h with
    | cons h1 h2 =>
      have := hF _ _ _ h1
      have := ih _ _ h2
      omega

theorem stops_fwd {rd : Nat → Except Err (Val × Nat)} {term : Val → Bool}
    (hF : ∀ p v q, rd p = .ok (v, q) → p ≤ q) {p vs q} (h : StopsAt rd term p vs q) : p ≤ q := by
  obtain ⟨p', t, hr, _, hrd, _⟩ := h
  have := reads_fwd hF vs p p' hr
  have := hF _ _ _ hrd
  omega

theorem stops_str {rd : Nat → Except Err (Val × Nat)} {term : Val → Bool} {L : Nat}
    (hF : ∀ p v q, rd p = .ok (v, q) → p ≤ q) (hS : ∀ p v q, rd p = .ok (v, q) → p < q ∧ p < L)
    {p vs q} (h : StopsAt rd term p vs q) : p < q ∧ p < L := by
  obtain ⟨p', t, hr, _, hrd, _⟩ := h
  cases hr with
  | nil => exact hS _ _ _ hrd
  | cons h1 h2 =>
    have := hS _ _ _ h1
    have := reads_fwd hF _ _ _ h2
    have := hF _ _ _ hrd
    omega

theorem packRes_ok {cfg : Cfg} {e : Ty} {x : Except Err (List Val × Nat)} {v q} (h : packRes cfg e x = .ok (v, q)) :
    ∃ vs, x = .ok (vs, q) := by
  cases x with
  | error er => cases h
  | ok r =>
    obtain ⟨vs, q'⟩ := r
    simp only [packRes] at h
    split at h
    · cases h; exact ⟨vs, rfl⟩
    · cases h

/-! ### `read0` -/

theorem elemRead_fwd (cfg : Cfg) (e : Ty) (hF : Fwd cfg e) (ctx : Ctx) (d : Bytes) (p : Nat) (v : Val) (q : Nat)
    (h : elemRead cfg e ctx d p = .ok (v, q)) : p ≤ q := by
  unfold elemRead at h
  split at h
  · split at h
    · rename_i bs q' h1
      cases h
      obtain ⟨h3, _, _⟩ := readExact_adv h1
      omega
    · cases h
  · exact hF _ _ _ _ _ h

theorem elemRead_str (cfg : Cfg) (e : Ty) (hS : Str cfg e) (ctx : Ctx) (d : Bytes) (p : Nat) (v : Val) (q : Nat)
    (h : elemRead cfg e ctx d p = .ok (v, q)) : p < q ∧ p < d.length := by
  unfold elemRead at h
  split at h
  · split at h
    · rename_i bs q' h1
      cases h
      obtain ⟨h3, _, h5⟩ := readExact_adv h1
      exact ⟨by omega, h5 (by omega)⟩
    · cases h
  · exact hS _ _ _ _ _ h

theorem read0_loop_fwd (cfg : Cfg) (e : Ty) (he : nullLoopElem e = true) (hF : Fwd cfg e) (ctx : Ctx) (d : Bytes)
    (pos : Nat) (v : Val) (q : Nat) (h : read0 cfg e ctx d pos = .ok (v, q)) : pos ≤ q := by
  rw [read0_eq_loop cfg e ctx d pos he] at h
  obtain ⟨vs, h1⟩ := packRes_ok h
  exact stops_fwd (fun p v q => elemRead_fwd cfg e hF ctx d p v q) (stops_of_loop _ _ _ _ h1).1

theorem read0_loop_str (cfg : Cfg) (e : Ty) (he : nullLoopElem e = true) (hF : Fwd cfg e) (hS : Str cfg e) (ctx : Ctx)
    (d : Bytes) (pos : Nat) (v : Val) (q : Nat) (h : read0 cfg e ctx d pos = .ok (v, q)) : pos < q ∧ pos < d.length := by
  rw [read0_eq_loop cfg e ctx d pos he] at h
  obtain ⟨vs, h1⟩ := packRes_ok h
  exact stops_str (fun p v q => elemRead_fwd cfg e hF ctx d p v q) (fun p v q => elemRead_str cfg e hS ctx d p v q)
    (stops_of_loop _ _ _ _ h1).1

theorem read0_sc_fwd (cfg : Cfg) (s : Scalar) (a : Nat) (ctx : Ctx) (d : Bytes) (pos : Nat) (v : Val) (q : Nat)
    (h : read0 cfg (.sc s a) ctx d pos = .ok (v, q)) : pos ≤ q := by
  by_cases hv : s = .void
  · subst hv
    rw [read0_sc] at h
    simp [readScalarNullTerm, readScalar0] at h
    omega
  · exact read0_loop_fwd cfg _ (by cases s <;> first | rfl | exact absurd rfl hv) (fwd_sc cfg s a) ctx d pos v q h

theorem read0_enum_inv (cfg : Cfg) (b : Scalar) (a : Nat) (f : Bool) (ctx : Ctx) (d : Bytes) (pos : Nat) (v : Val) (q : Nat)
    (h : read0 cfg (.enum b a f) ctx d pos = .ok (v, q)) : ∃ v', read0 cfg (.sc b a) ctx d pos = .ok (v', q) := by
  rw [read0.eq_2] at h
  rw [read0_sc]
  cases h1 : readScalarNullTerm cfg b d pos with
  | error e => rw [h1] at h; cases h
  | ok r =>
    obtain ⟨v', q'⟩ := r
    rw [h1] at h
    cases v' <;> simp only [] at h <;> cases h
    exact ⟨_, rfl⟩

theorem read0_fwd (cfg : Cfg) (e : Ty) (hF : Fwd cfg e) (ctx : Ctx) (d : Bytes) (pos : Nat) (v : Val) (q : Nat)
    (h : read0 cfg e ctx d pos = .ok (v, q)) : pos ≤ q := by
  cases e with
  | sc s a => exact read0_sc_fwd cfg s a ctx d pos v q h
  | enum b a f =>
    obtain ⟨v', h'⟩ := read0_enum_inv cfg b a f ctx d pos v q h
    exact read0_sc_fwd cfg b a ctx d pos v' q h'
  | struct al fs => exact read0_loop_fwd cfg _ rfl hF ctx d pos v q h
  | union al fs => exact read0_loop_fwd cfg _ rfl hF ctx d pos v q h
  | ptr t => rw [read0.eq_5] at h <;> first | cases h | (intros; rename_i hh; cases hh)
  | arr e' l => rw [read0.eq_5] at h <;> first | cases h | (intros; rename_i hh; cases hh)

theorem read0_sc_str (cfg : Cfg) (s : Scalar) (a : Nat) (hs : s.size ≠ some 0) (ctx : Ctx) (d : Bytes) (pos : Nat)
    (v : Val) (q : Nat) (h : read0 cfg (.sc s a) ctx d pos = .ok (v, q)) : pos < q ∧ pos < d.length :=
  read0_loop_str cfg _ (by cases s <;> first | rfl | exact absurd rfl hs) (fwd_sc cfg s a) (str_sc cfg s a hs) ctx d pos v q h

theorem read0_str (cfg : Cfg) (e : Ty) (hc : consumes cfg e = true) (hF : Fwd cfg e) (hS : Str cfg e) (ctx : Ctx)
    (d : Bytes) (pos : Nat) (v : Val) (q : Nat) (h : read0 cfg e ctx d pos = .ok (v, q)) : pos < q ∧ pos < d.length := by
  cases e with
  | sc s a => exact read0_sc_str cfg s a (by simpa [consumes] using hc) ctx d pos v q h
  | enum b a f =>
    obtain ⟨v', h'⟩ := read0_enum_inv cfg b a f ctx d pos v q h
    exact read0_sc_str cfg b a (by simpa [consumes] using hc) ctx d pos v' q h'
  | struct al fs => exact read0_loop_str cfg _ rfl hF hS ctx d pos v q h
  | union al fs => exact read0_loop_str cfg _ rfl hF hS ctx d pos v q h
  | ptr t => rw [read0.eq_5] at h <;> first | cases h | (intros; rename_i hh; cases hh)
  | arr e' l => rw [read0.eq_5] at h <;> first | cases h | (intros; rename_i hh; cases hh)

/-! ### `readArray` -/

theorem readScalarArray_adv (cfg : Cfg) (s : Scalar) (n : Nat) (d : Bytes) (pos : Nat) (v : Val) (q : Nat)
    (h : readScalarArray cfg s n d pos = some (.ok (v, q))) :
    pos ≤ q ∧ (s.size ≠ some 0 → n ≠ 0 → pos < q ∧ pos < d.length) := by
  cases s with
  | pint k sg =>
    simp only [readScalarArray, Option.some.injEq, bind, pure] at h
    obtain ⟨⟨bs, q'⟩, h1, h2⟩ := bind_ok h
    cases h2
    obtain ⟨rfl, _, h5⟩ := readExact_adv h1
    refine ⟨by omega, fun hs hn => ?_⟩
    have : 0 < k * n := Nat.mul_pos (Nat.pos_of_ne_zero (fun h0 => hs (by rw [h0]; rfl))) (Nat.pos_of_ne_zero hn)
    exact ⟨by omega, h5 this⟩
  | pflt k =>
    simp only [readScalarArray, Option.some.injEq, bind, pure] at h
    obtain ⟨⟨bs, q'⟩, h1, h2⟩ := bind_ok h
    cases h2
    obtain ⟨rfl, _, h5⟩ := readExact_adv h1
    refine ⟨by omega, fun hs hn => ?_⟩
    have : 0 < k * n := Nat.mul_pos (Nat.pos_of_ne_zero (fun h0 => hs (by rw [h0]; rfl))) (Nat.pos_of_ne_zero hn)
    exact ⟨by omega, h5 this⟩
  | char =>
    simp only [readScalarArray, Option.some.injEq, bind, pure] at h
    split at h
    · rename_i h0; cases h; exact ⟨Nat.le_refl _, fun _ hn => absurd h0 hn⟩
    · obtain ⟨⟨bs, q'⟩, h1, h2⟩ := bind_ok h
      cases h2
      obtain ⟨rfl, _, h5⟩ := readExact_adv h1
      exact ⟨by omega, fun _ hn => ⟨by omega, h5 (by omega)⟩⟩
  | wchar =>
    simp only [readScalarArray, Option.some.injEq, bind, pure] at h
    split at h
    · rename_i h0; cases h; exact ⟨Nat.le_refl _, fun _ hn => absurd h0 hn⟩
    · obtain ⟨⟨bs, q'⟩, h1, h2⟩ := bind_ok h
      obtain ⟨w, _, h4⟩ := bind_ok h2
      cases h4
      obtain ⟨rfl, _, h5⟩ := readExact_adv h1
      exact ⟨by omega, fun _ hn => ⟨by omega, h5 (by omega)⟩⟩
  | aint k sg => simp [readScalarArray] at h
  | leb sg => simp [readScalarArray] at h
  | void => simp [readScalarArray] at h

theorem readArray_adv (cfg : Cfg) (e : Ty) (hF : Fwd cfg e) (n : Nat) (ctx : Ctx) (d : Bytes) (pos : Nat) (v : Val) (q : Nat)
    (h : readArray cfg e n ctx d pos = .ok (v, q)) :
    pos ≤ q ∧ (consumes cfg e = true → Str cfg e → n ≠ 0 → pos < q ∧ pos < d.length) := by
  have other : ((readN cfg e n ctx d pos).map fun (vs, p) => (Val.list vs, p)) = .ok (v, q) →
      pos ≤ q ∧ (consumes cfg e = true → Str cfg e → n ≠ 0 → pos < q ∧ pos < d.length) := by
    intro h
    obtain ⟨⟨vs, q'⟩, h1, h2⟩ := map_ok h
    cases h2
    exact ⟨readN_fwd cfg e hF ctx d _ _ _ _ h1, fun _ hS hn => readN_str cfg e hF hS ctx d n pos vs _ hn h1⟩
  cases e with
  | sc s a =>
    rw [readArray.eq_1] at h
    cases hx : readScalarArray cfg s n d pos with
    | some x =>
      rw [hx] at h; simp only [] at h
      subst h
      obtain ⟨h1, h2⟩ := readScalarArray_adv cfg s n d pos v q hx
      exact ⟨h1, fun hc _ hn => h2 (by simpa [consumes] using hc) hn⟩
    | none => rw [hx] at h; exact other h
  | enum b a f =>
    rw [readArray.eq_2] at h
    cases hx : readScalarArray cfg b n d pos with
    | some x =>
      rw [hx] at h
      cases x with
      | error e => cases h
      | ok x =>
        obtain ⟨xv, xp⟩ := x
        obtain ⟨h1, h2⟩ := readScalarArray_adv cfg b n d pos xv xp hx
        cases xv <;> simp only [] at h <;> cases h
        exact ⟨h1, fun hc _ hn => h2 (by simpa [consumes] using hc) hn⟩
    | none =>
      rw [hx] at h; simp only [] at h
      cases h1 : readN cfg (.sc b a) n ctx d pos with
      | error e => rw [h1] at h; cases h
      | ok x =>
        rw [h1] at h
        obtain ⟨vs, q'⟩ := x
        cases h
        refine ⟨readN_fwd cfg _ (fwd_sc cfg b a) ctx d _ _ _ _ h1, fun hc _ hn => ?_⟩
        exact readN_str cfg _ (fwd_sc cfg b a) (str_sc cfg b a (by simpa [consumes] using hc)) ctx d n pos vs _ hn h1
  | ptr t =>
    rw [readArray_other cfg _ n ctx d pos (by intros; intro h; cases h) (by intros; intro h; cases h)] at h
    exact other h
  | arr e' l =>
    rw [readArray_other cfg _ n ctx d pos (by intros; intro h; cases h) (by intros; intro h; cases h)] at h
    exact other h
  | struct al fs =>
    rw [readArray_other cfg _ n ctx d pos (by intros; intro h; cases h) (by intros; intro h; cases h)] at h
    exact other h
  | union al fs =>
    rw [readArray_other cfg _ n ctx d pos (by intros; intro h; cases h) (by intros; intro h; cases h)] at h
    exact other h

/-! ### `x[EOF]` -/

theorem readWhileData_fwd (cfg : Cfg) (t : Ty) (hF : Fwd cfg t) (ctx : Ctx) (d : Bytes) :
    ∀ (f pos : Nat) (vs : Vals) (q : Nat), readWhileData cfg t ctx d f pos = .ok (vs, q) → pos ≤ q := by
  intro f
  induction f with
  | zero => intro pos vs q h; rw [readWhileData] at h; cases h
  | succ f ih =>
    intro pos vs q h
    rw [readWhileData] at h
    split at h
    · cases h; exact Nat.le_refl _
    · cases h1 : read cfg t ctx d pos with
      | error e => rw [h1] at h; cases h
      | ok r =>
        obtain ⟨v, p1⟩ := r
        rw [h1] at h
        simp only [] at h
        cases h2 : readWhileData cfg t ctx d f p1 with
        | error e => rw [h2] at h; cases h
        | ok r2 =>
          obtain ⟨vs', q'⟩ := r2
          rw [h2] at h
          cases h
          have := hF _ _ _ _ _ h1
          have := ih _ _ _ h2
          omega

theorem readScalarArrayEOF_fwd (cfg : Cfg) (s : Scalar) (d : Bytes) (pos : Nat) (v : Val) (q : Nat)
    (h : readScalarArrayEOF cfg s d pos = some (.ok (v, q))) : pos ≤ q := by
  cases s with
  | pint k sg =>
    simp only [readScalarArrayEOF, Option.some.injEq] at h
    split at h
    · cases h
    · split at h
      · cases h
      · cases h; exact Nat.le_max_left _ _
  | pflt k =>
    simp only [readScalarArrayEOF, Option.some.injEq] at h
    split at h
    · cases h
    · split at h
      · cases h
      · cases h; exact Nat.le_max_left _ _
  | char =>
    simp only [readScalarArrayEOF, Option.some.injEq] at h
    cases h; exact Nat.le_max_left _ _
  | wchar =>
    simp only [readScalarArrayEOF, Option.some.injEq] at h
    split at h
    · cases h
    · split at h
      · cases h; exact Nat.le_max_left _ _
      · cases h
  | aint k sg => simp [readScalarArrayEOF] at h
  | leb sg => simp [readScalarArrayEOF] at h
  | void => simp [readScalarArrayEOF] at h

theorem readEOF_fwd (cfg : Cfg) (e : Ty) (hF : Fwd cfg e) (ctx : Ctx) (d : Bytes) (pos : Nat) (v : Val) (q : Nat)
    (h : readEOF cfg e ctx d pos = .ok (v, q)) : pos ≤ q := by
  have other : ∀ t, Fwd cfg t → ((readWhileData cfg t ctx d (d.length - pos + 1) pos).map fun (vs, p) => (Val.list vs, p)) = .ok (v, q) →
      pos ≤ q := by
    intro t hFt h
    obtain ⟨⟨vs, q'⟩, h1, h2⟩ := map_ok h
    cases h2
    exact readWhileData_fwd cfg t hFt ctx d _ _ _ _ h1
  cases e with
  | sc s a =>
    rw [readEOF.eq_1] at h
    cases hx : readScalarArrayEOF cfg s d pos with
    | some x => rw [hx] at h; simp only [] at h; subst h; exact readScalarArrayEOF_fwd cfg s d pos v q hx
    | none => rw [hx] at h; exact other _ hF h
  | enum b a f =>
    rw [readEOF.eq_2] at h
    cases hx : readScalarArrayEOF cfg b d pos with
    | some x =>
      rw [hx] at h
      cases x with
      | error e => cases h
      | ok x =>
        obtain ⟨xv, xp⟩ := x
        have h1 := readScalarArrayEOF_fwd cfg b d pos xv xp hx
        cases xv <;> simp only [] at h <;> cases h
        exact h1
    | none =>
      rw [hx] at h; simp only [] at h
      cases h1 : readWhileData cfg (.sc b a) ctx d (d.length - pos + 1) pos with
      | error e => rw [h1] at h; cases h
      | ok x =>
        rw [h1] at h
        obtain ⟨vs, q'⟩ := x
        cases h
        exact readWhileData_fwd cfg _ (fwd_sc cfg b a) ctx d _ _ _ _ h1
  | ptr t => rw [readEOF.eq_3] at h; exact other _ hF h; all_goals (intros; rename_i hh; cases hh)
  | arr e' l => rw [readEOF.eq_3] at h; exact other _ hF h; all_goals (intros; rename_i hh; cases hh)
  | struct al fs => rw [readEOF.eq_3] at h; exact other _ hF h; all_goals (intros; rename_i hh; cases hh)
  | union al fs => rw [readEOF.eq_3] at h; exact other _ hF h; all_goals (intros; rename_i hh; cases hh)

end Cstruct.C07.Lemmas
