/-
  C13, definition parser — helper lemmas (7): the scan of an admissible text is its expected token list.
-/
import Proofs.Lemmas.C13ParseF

namespace Cstruct.DefParser.C13
open Cstruct.DefParser

theorem lastClose_append (ac : Bool) (a b : List Char) (hb : b ≠ []) : lastClose ac (a ++ b) = lastClose false b := by
  obtain ⟨c, hc⟩ : ∃ c, b.getLast? = some c := by
    cases h : b.getLast? with
    | none => exact absurd (List.getLast?_eq_none_iff.mp h) hb
    | some c => exact ⟨c, rfl⟩
  simp [lastClose, List.getLast?_append, hc]

theorem scan_semi_flag (b b' : Bool) (R : List Char) : scanAux 0 b (';' :: R) = scanAux 0 b' (';' :: R) := by
  rw [scan_tok b ⟨.eol, [';']⟩ (';' :: R) R R (matchTok_semi b R) rfl (by simp),
    scan_tok b' ⟨.eol, [';']⟩ (';' :: R) R R (matchTok_semi b' R) rfl (by simp)]
  simp [lastClose]

theorem render_noHead (rest : List (Lexeme × List Char)) (h : adm false rest = true) : noHead isWsA (render rest) = true := by
  rcases render_first rest h with he | ⟨y, s, r', c, t, -, he, hf, -⟩
  · rw [he]; rfl
  · rw [he]; simp [noHead, hf.nblank]

/-- a non-empty separator in front of an admissible text is passed without a token -/
theorem scan_sep (b : Bool) (s : List Char) (rest : List (Lexeme × List Char)) (hbs : blank s = true) (hne : s ≠ [])
    (hadm : adm false rest = true) : scanAux 0 b (s ++ render rest) = scanAux 0 false (render rest) := by
  obtain ⟨c, s', rfl⟩ := List.exists_cons_of_ne_nil hne
  have hc : isWsA c = true := by simp only [blank, List.all_cons, Bool.and_eq_true] at hbs; exact hbs.1
  have hd := defs_fail b (c :: s') hbs rest hadm
  have hm : matchTok b ((c :: s') ++ render rest) = none := matchTok_blank b c _ hc hd
  exact scan_blank b (c :: s') (render rest) hbs (by simp) (render_noHead rest hadm) hm

/-- the step of the main induction for a lexeme whose token does not swallow the separator -/
theorem step_plain (ac : Bool) (x : Lexeme) (s : List Char) (rest : List (Lexeme × List Char)) (k : TK)
    (ht : tokOf x s = ⟨k, x.text⟩) (hne : x.text ≠ [])
    (hm : matchTok ac (x.text ++ (s ++ render rest)) = some (⟨k, x.text⟩, s ++ render rest))
    (hlc : lastClose ac x.text = closes x []) (hcl : s ≠ [] → closes x s = false)
    (hbs : blank s = true) (hrest : adm (closes x s) rest = true)
    (ih : scanAux 0 (closes x s) (render rest) = toks rest) :
    scanAux 0 ac (render ((x, s) :: rest)) = toks ((x, s) :: rest) := by
  have e : render ((x, s) :: rest) = x.text ++ (s ++ render rest) := by simp [render]
  rw [e, scan_tok ac ⟨k, x.text⟩ _ (s ++ render rest) _ hm rfl hne]
  simp only [toks, ht, hlc]
  congr 1
  cases s with
  | nil => simpa using ih
  | cons c s' =>
    have hcl' := hcl (by simp)
    rw [hcl'] at hrest ih
    rw [scan_sep _ (c :: s') rest hbs (by simp) hrest, ih]

/-- the step for a lexeme whose token swallows the separator and is followed by `;` -/
theorem step_swallow (ac : Bool) (x : Lexeme) (s s2 : List Char) (rest2 : List (Lexeme × List Char)) (k : TK)
    (ht : tokOf x s = ⟨k, x.text ++ s⟩) (hne : x.text ≠ [])
    (hm : matchTok ac (x.text ++ s ++ ';' :: (s2 ++ render rest2)) = some (⟨k, x.text ++ s⟩, ';' :: (s2 ++ render rest2)))
    (ih : scanAux 0 (closes x s) (render ((Lexeme.semi, s2) :: rest2)) = toks ((Lexeme.semi, s2) :: rest2)) :
    scanAux 0 ac (render ((x, s) :: (Lexeme.semi, s2) :: rest2)) = toks ((x, s) :: (Lexeme.semi, s2) :: rest2) := by
  have e : render ((x, s) :: (Lexeme.semi, s2) :: rest2) = (x.text ++ s) ++ ';' :: (s2 ++ render rest2) := by
    simp [render, Lexeme.text]
  have e2 : render ((Lexeme.semi, s2) :: rest2) = ';' :: (s2 ++ render rest2) := by simp [render, Lexeme.text]
  rw [e, scan_tok ac ⟨k, x.text ++ s⟩ _ (';' :: (s2 ++ render rest2)) _ (by simpa using hm) rfl (by simp [hne])]
  rw [e2] at ih
  rw [scan_semi_flag _ (closes x s), ih]
  simp [toks, ht]

theorem next_semi (rest : List (Lexeme × List Char)) (h : (rest.head?.map (·.1) == some Lexeme.semi) = true) :
    ∃ s2 rest2, rest = (Lexeme.semi, s2) :: rest2 := by
  cases rest with
  | nil => simp at h
  | cons p r => obtain ⟨y, s2⟩ := p; simp at h; exact ⟨s2, r, by rw [h]⟩

theorem scan_render : ∀ (l : List (Lexeme × List Char)) (ac : Bool), adm ac l = true → scanAux 0 ac (render l) = toks l
  | [], ac, _ => by simp [render, toks, scanAux]
  | (x, s) :: rest, ac, h => by
    obtain ⟨hwf, hbs, hdefs, hsep, hrest⟩ := adm_cons ac x s rest h
    have ih := scan_render rest (closes x s) hrest
    -- facts about the continuation behind a lexeme that does not close a brace
    have cont : closes x s = false → (∀ y, rest.head?.map (·.1) = some y → y.isDefs = false) ∧
        (render rest = [] ∨ ∃ y s' r' c t, rest = (y, s') :: r' ∧ render rest = c :: t ∧ FirstOK y c) := by
      intro hc
      rw [hc] at hrest
      refine ⟨?_, ?_⟩
      · intro y hy
        cases rest with
        | nil => simp at hy
        | cons p r =>
          obtain ⟨z, sz⟩ := p
          simp at hy; subst hy
          obtain ⟨-, -, hd, -, -⟩ := adm_cons false z sz r hrest
          cases hdd : z.isDefs with
          | false => rfl
          | true => exact absurd (hd hdd) (by simp)
      · rcases render_first rest hrest with he | ⟨y, s', r', c, t, h1, h2, h3, -⟩
        · exact .inl he
        · exact .inr ⟨y, s', r', c, t, h1, h2, h3⟩
    cases x with
    | typedef =>
      simp only [sepOK, Bool.and_eq_true, Bool.not_eq_true', List.isEmpty_eq_false_iff] at hsep
      obtain ⟨c, s', rfl⟩ := List.exists_cons_of_ne_nil hsep.2
      have hc : isWsA c = true := by simp only [blank, List.all_cons, Bool.and_eq_true] at hbs; exact hbs.1
      exact step_plain ac .typedef (c :: s') rest .typedef rfl (by decide)
        (by simpa [Lexeme.text] using matchTok_typedef ac c (s' ++ render rest) hc)
        (by simp [Lexeme.text, kwTypedef, lastClose, closes]) (fun _ => rfl) hbs hrest ih
    | struct u =>
      have hY : ∃ c r, s ++ render rest = c :: r ∧ (isWsA c = true ∨ c = '{') := by
        cases s with
        | cons d s' =>
          have hd : isWsA d = true := by simp only [blank, List.all_cons, Bool.and_eq_true] at hbs; exact hbs.1
          exact ⟨d, _, rfl, .inl hd⟩
        | nil =>
          simp only [sepOK, Bool.and_eq_true, List.isEmpty_nil, Bool.not_true, Bool.false_or] at hsep
          cases rest with
          | nil => simp at hsep
          | cons q r'' =>
            obtain ⟨z, sz⟩ := q
            have hz : z = .lbrace := by simpa using hsep.2
            subst hz
            exact ⟨'{', _, rfl, .inr rfl⟩
      obtain ⟨c, r, hYe, hc⟩ := hY
      refine step_plain ac (.struct u) s rest .struct rfl (by cases u <;> decide) ?_ ?_ (fun _ => rfl) hbs hrest ih
      · rw [hYe]; exact matchTok_struct ac u c r hc
      · cases u <;> simp [Lexeme.text, kwStruct, kwUnion, lastClose, closes]
    | ident v =>
      obtain ⟨hnd, hfirst⟩ := cont rfl
      have hwf' := hwf
      simp only [Lexeme.wf, Bool.and_eq_true, Bool.not_eq_true'] at hwf'
      have hvne : v ≠ [] := by intro e; subst e; simp at hwf'
      have hlast : lastClose ac v = false := by
        have : ∃ c, v.getLast? = some c ∧ c ∈ v := by
          cases hg : v.getLast? with
          | none => exact absurd (List.getLast?_eq_none_iff.mp hg) hvne
          | some c => exact ⟨c, rfl, List.mem_of_getLast? hg⟩
        obtain ⟨c, h1, h2⟩ := this
        have hcw : isWord c = true := (List.all_eq_true.mp hwf'.1.2) c h2
        have : c ≠ '}' := word_ne hcw _ (by decide)
        simp [lastClose, h1, this]
      -- the continuation
      have facts : noHead isWord (s ++ render rest) = true ∧ ((s ++ render rest).dropWhile isWsA).head? ≠ some ':' ∧
          ((s ++ render rest).dropWhile isWsA).head? ≠ some ';' ∧ ((s ++ render rest).dropWhile isWsA).head? ≠ some ',' ∧
          (s ++ render rest).head? ≠ some '[' := by
        rcases hfirst with he | ⟨y, s', r', c, t, hre, he, hf⟩
        · have hd := dropWhile_app isWsA s [] hbs rfl
          simp only [List.append_nil] at hd
          rw [he, List.append_nil, hd]
          refine ⟨?_, by simp, by simp, by simp, ?_⟩
          · cases s with
            | nil => rfl
            | cons d s' =>
              have hdb : isWsA d = true := by simp only [blank, List.all_cons, Bool.and_eq_true] at hbs; exact hbs.1
              simp [noHead, (wsA_not d hdb).1]
          · cases s with
            | nil => simp
            | cons d s' =>
              have hdb : isWsA d = true := by simp only [blank, List.all_cons, Bool.and_eq_true] at hbs; exact hbs.1
              simp [(wsA_not d hdb).2.2.1]
        · subst hre
          simp only [sepOK, Bool.and_eq_true, List.head?_cons, Option.map_some, bne_iff_ne, ne_eq, Bool.or_eq_true,
            Bool.not_eq_true', List.isEmpty_eq_false_iff] at hsep
          obtain ⟨-, hysemi, hword⟩ := hsep
          rw [he, dropWhile_app isWsA s (c :: t) hbs (by simp [noHead, hf.nblank])]
          refine ⟨?_, by simp [hf.ncolon], by simp [hf.nsemi hysemi], by simp [hf.ncomma], ?_⟩
          · cases s with
            | cons d s' =>
              have hdb : isWsA d = true := by simp only [blank, List.all_cons, Bool.and_eq_true] at hbs; exact hbs.1
              simp [noHead, (wsA_not d hdb).1]
            | nil =>
              have hns : y.startsWord = false := by rcases hword with h | h; exact absurd rfl h; exact h
              cases hw : isWord c with
              | false => simp [noHead, hw]
              | true => rw [hf.word hw] at hns; exact absurd hns (by simp)
          · cases s with
            | nil => simp [hf.nlbr]
            | cons d s' =>
              have hdb : isWsA d = true := by simp only [blank, List.all_cons, Bool.and_eq_true] at hbs; exact hbs.1
              simp [(wsA_not d hdb).2.2.1]
      obtain ⟨f1, f2, f3, f4, f5⟩ := facts
      exact step_plain ac (.ident v) s rest .ident rfl hvne (matchTok_ident ac v _ hwf f1 f2 f3 f4 f5)
        (by simpa [Lexeme.text, closes] using hlast) (fun _ => rfl) hbs hrest ih
    | lbrace =>
      exact step_plain ac .lbrace s rest .block rfl (by decide) (matchTok_block ac '{' _ (.inl rfl))
        (by simp [Lexeme.text, lastClose, closes]) (fun _ => rfl) hbs hrest ih
    | rbrace =>
      exact step_plain ac .rbrace s rest .block rfl (by decide) (matchTok_block ac '}' _ (.inr rfl))
        (by simp [Lexeme.text, lastClose, closes]) (fun hne => by simp [closes, hne]) hbs hrest ih
    | semi =>
      exact step_plain ac .semi s rest .eol rfl (by decide) (matchTok_semi ac _)
        (by simp [Lexeme.text, lastClose, closes]) (fun _ => rfl) hbs hrest ih
    | config vals =>
      refine step_plain ac (.config vals) s rest .config rfl (by simp [Lexeme.text]) (matchTok_config ac vals _ hwf) ?_
        (fun _ => rfl) hbs hrest ih
      have := lastClose_append ac ('#' :: '[' :: vals) [']'] (by simp)
      simpa [Lexeme.text, closes, lastClose] using this
    | name pre w bits cnt =>
      simp only [sepOK, Bool.and_eq_true] at hsep
      obtain ⟨s2, rest2, rfl⟩ := next_semi rest hsep.2
      have hne : (Lexeme.name pre w bits cnt).text ≠ [] := by
        obtain ⟨c, t, ht, -⟩ := text_first _ hwf rfl
        rw [ht]; simp
      exact step_swallow ac _ s s2 rest2 .name rfl hne (matchTok_name ac pre w bits cnt hwf s _ hbs) ih
    | defs lead first more =>
      simp only [sepOK, Bool.and_eq_true] at hsep
      obtain ⟨s2, rest2, rfl⟩ := next_semi rest hsep.2
      have hac : ac = true := hdefs rfl
      subst hac
      have hne : (Lexeme.defs lead first more).text ≠ [] := by
        simp only [Lexeme.wf, Bool.and_eq_true, isWordStr, Bool.not_eq_true', List.isEmpty_eq_false_iff] at hwf
        intro e
        simp only [Lexeme.text, List.append_eq_nil_iff] at e
        exact hwf.1.1.1.2.1 e.1.2
      exact step_swallow true _ s s2 rest2 .defs rfl hne (matchTok_defs lead first more hwf s _ hbs) ih
    | enum fl ws1 nm ws2 ty vals =>
      simp only [sepOK, Bool.and_eq_true] at hsep
      obtain ⟨s2, rest2, rfl⟩ := next_semi rest hsep.2
      have hne : (Lexeme.enum fl ws1 nm ws2 ty vals).text ≠ [] := by
        obtain ⟨c, t, ht, -⟩ := text_first _ hwf rfl
        rw [ht]; simp
      exact step_swallow ac _ s s2 rest2 .enum rfl hne (matchTok_enum ac fl ws1 nm ws2 ty vals hwf s _ hbs) ih
    | define ws1 nm ws2 val =>
      obtain ⟨hnd, hfirst⟩ := cont rfl
      have hrest' : adm false rest = true := by simpa [closes] using hrest
      simp only [sepOK, Bool.and_eq_true] at hsep
      have hend : lineEnd s (render rest) = true := by
        cases s with
        | cons c s' => simpa [lineEnd] using hsep.2
        | nil =>
          have : rest = [] := by
            cases rest with
            | nil => rfl
            | cons p r => simp at hsep
          subst this; rfl
      have hne : (Lexeme.define ws1 nm ws2 val).text ≠ [] := by
        obtain ⟨c, t, ht, -⟩ := text_first _ hwf rfl
        rw [ht]; simp
      have hm := matchTok_define ac ws1 nm ws2 val hwf s (render rest) hbs hend (render_noHead rest hrest')
      have e : render ((Lexeme.define ws1 nm ws2 val, s) :: rest) = ((Lexeme.define ws1 nm ws2 val).text ++ s) ++ render rest := by
        simp [render]
      rw [e, scan_tok ac ⟨.define, (Lexeme.define ws1 nm ws2 val).text ++ s⟩ _ (render rest) _ hm rfl (by simp [hne])]
      simp only [toks, tokOf]
      congr 1
      cases s with
      | cons c s' =>
        have : lastClose ac ((Lexeme.define ws1 nm ws2 val).text ++ c :: s') = false := by
          rw [lastClose_append ac _ (c :: s') (by simp)]
          exact lastClose_blank false (c :: s') hbs (by simp)
        rw [this]
        simpa [closes] using ih
      | nil =>
        have : rest = [] := by
          cases rest with
          | nil => rfl
          | cons p r => simp [lineEnd] at hend; obtain ⟨y, sy⟩ := p; simp [render] at hend
                        obtain ⟨c, t, ht, -⟩ := text_first y (adm_cons false y sy r hrest').1 (hnd y rfl)
                        rw [ht] at hend; simp at hend
        subst this
        simp [render, toks, scanAux]

end Cstruct.DefParser.C13
