/-
  Helper lemmas for `Proofs/CoreBits.lean`, part 10 (packed or aligned, accepted definitions): statements `ATy`, `AIdle`,
  `APend` (write succeeds, size, read back — the `WR` shape of fragment S) and the bit-field step `a_bit_step`.
-/
import Proofs.Lemmas.CoreBitsAUnfold2
namespace Cstruct.Core.Lemmas
open Cstruct Cstruct.Core Cstruct.C06 Cstruct.C06.Lemmas
open Cstruct.C05.Lemmas (encBytes encBytes_length)
set_option linter.unusedSimpArgs false

/-! ### Statements for the write/read facts with bit-fields, packed or aligned, for accepted definitions -/

/-- hypotheses on a member list that are passed down unchanged -/
structure FHyps (cfg : Cfg) (al : Bool) (fs : Fields) : Prop where
  frag : Fields.fragSB cfg fs = true
  unif : Fields.uniformAlign al fs = true
  p2 : fs.pow2Aligned cfg
  nat : al = true → Fields.bitsNatural cfg fs = true
  def_ : Fields.defErr cfg fs = none

theorem FHyps.tail {cfg al name an ty bits rest} (h : FHyps cfg al (.cons name an ty bits rest)) : FHyps cfg al rest := by
  obtain ⟨h1, h2, h3, h4, h5⟩ := h
  simp only [Fields.fragSB, Bool.and_eq_true] at h1
  simp only [Fields.uniformAlign, Bool.and_eq_true] at h2
  simp only [Fields.pow2Aligned] at h3
  refine ⟨h1.2, h2.2, h3.2, ?_, (defErr_cons h5).2⟩
  intro ha
  have := h4 ha
  simp only [Fields.bitsNatural, Bool.and_eq_true] at this
  exact this.2

def ATy (cfg : Cfg) (al : Bool) (ty : Ty) : Prop :=
  ty.fragSB cfg = true → ty.uniformAlign al = true → ty.pow2Aligned cfg → (al = true → ty.bitsNatural cfg = true) →
  ty.defErr cfg = none → ∀ v, HasTyB cfg v ty → ∀ pos, (al = true → sAlign cfg ty ∣ pos) → WR cfg ty v pos

def AIdle (cfg : Cfg) (al : Bool) (fs : Fields) : Prop :=
  FHyps cfg al fs → ∀ vs, HasTysB cfg vs fs →
  ∀ st sz sa offs, Fields.layout cfg al fs st = .ok (sz, sa, offs) → LIdle st fs → ∀ o, st.offset = some o →
  ∀ start, (al = true → allAlignDvd cfg start fs) →
    ∃ out bbF fl, writeFields cfg al fs offs vs start BitBuf.empty (start + o) = .ok (out, bbF) ∧
      flushBits cfg bbF = .ok fl ∧ sz = some (alignTo al (o + (out ++ fl).length) sa) ∧
      ∀ (pre post : Bytes) (ctx : Ctx) (bbR : BitBuf), pre.length = start + o → RIdle bbR fs →
        ∃ szs, readFields cfg al fs offs start bbR ctx (pre ++ (out ++ fl) ++ post) (start + o) =
          .ok (vs, szs, start + o + (out ++ fl).length)

/-- pending unit at the static offset `uo` -/
structure PendA (cfg : Cfg) (al : Bool) (st : LState) (ft : Scalar) (fsz k n : Nat) (bbW : BitBuf) (uo : Nat) : Prop where
  isInt : Scalar.isInt ft = true
  size : ft.size = some fsz
  lty : st.bitsType = some ft
  lrem : st.bitsRemaining = ((8 * fsz - k : Nat) : Int)
  lt : k < 8 * fsz
  loff : st.offset = some (uo + fsz)
  lbfo : st.bitsFieldOffset = some uo
  wty : bbW.ty = some ft
  winv : WriteInv cfg.endian (8 * fsz) k n bbW
  nlt : n < 2 ^ k
  ual : al = true → fsz ∣ uo

def APend (cfg : Cfg) (al : Bool) (fs : Fields) : Prop :=
  FHyps cfg al fs → ∀ vs, HasTysB cfg vs fs →
  ∀ st sz sa offs, Fields.layout cfg al fs st = .ok (sz, sa, offs) →
  ∀ ft fsz k n bbW uo, PendA cfg al st ft fsz k n bbW uo →
  ∀ start, (al = true → allAlignDvd cfg start fs) → (al = true → fsz ∣ start) →
    ∃ out bbF fl F tail, writeFields cfg al fs offs vs start bbW (start + uo) = .ok (out, bbF) ∧
      flushBits cfg bbF = .ok fl ∧ out ++ fl = encBytes cfg.endian fsz F ++ tail ∧ F < 2 ^ (8 * fsz) ∧
      URel cfg.endian (8 * fsz) k n F ∧ sz = some (alignTo al (uo + (out ++ fl).length) sa) ∧
      ∀ (pre post : Bytes) (ctx : Ctx) (bbR : BitBuf) (U : Int), pre.length = start + uo → bbR.ty = some ft →
        ReadInv cfg.endian (8 * fsz) U k bbR → U % ((2 ^ (8 * fsz) : Nat) : Int) = (F : Int) →
        ∃ szs, readFields cfg al fs offs start bbR ctx (pre ++ (out ++ fl) ++ post) (start + uo + fsz) =
          .ok (vs, szs, start + uo + (out ++ fl).length)

/-! ### One bit-field -/

theorem a_bit_step (cfg : Cfg) (al : Bool) (rest : Fields) (IHi : AIdle cfg al rest) (IHp : APend cfg al rest)
    (hH : FHyps cfg al rest) (vs' : Vals) (hvs : HasTysB cfg vs' rest) (st1 : LState) (sz sa offs')
    (hlay : Fields.layout cfg al rest st1 = .ok (sz, sa, offs'))
    (ft : Scalar) (fsz k n w : Nat) (bb2 : BitBuf) (hi : Scalar.isInt ft = true) (hsz : ft.size = some fsz)
    (hbt : st1.bitsType = some ft) (hbr : st1.bitsRemaining = ((8 * fsz - (k + w) : Nat) : Int)) (hkw : k + w ≤ 8 * fsz)
    (uo : Nat) (ho : st1.offset = some (uo + fsz)) (hbfo : st1.bitsFieldOffset = some uo) (hual : al = true → fsz ∣ uo)
    (hty : bb2.ty = some ft) (hinv : WriteInv cfg.endian (8 * fsz) k n bb2) (hn : n < 2 ^ k) (i : Int) (hi0 : 0 ≤ i)
    (hi1 : i < 2 ^ w) (start : Nat) (hdv : al = true → allAlignDvd cfg start rest) (hds : al = true → fsz ∣ start)
    (wpos pad : Nat) (hwp : wpos + pad = start + uo) :
    ∃ out' bbF fl F tail, putStepA cfg al rest offs' vs' start fsz i w bb2 wpos pad = .ok (zeros pad ++ out', bbF) ∧
      flushBits cfg bbF = .ok fl ∧ out' ++ fl = encBytes cfg.endian fsz F ++ tail ∧ F < 2 ^ (8 * fsz) ∧
      URel cfg.endian (8 * fsz) k n F ∧ sz = some (alignTo al (uo + (out' ++ fl).length) sa) ∧
      ∀ (pre post : Bytes) (bbR : BitBuf) (U : Int), pre.length = start + uo → bbR.ty = some ft →
        ReadInv cfg.endian (8 * fsz) U k bbR → U % ((2 ^ (8 * fsz) : Nat) : Int) = (F : Int) →
        ∃ bbR2, bbR.take cfg.endian w = some (i, bbR2) ∧ ∀ ctx : Ctx,
          ∃ szs, readFields cfg al rest offs' start bbR2 ctx (pre ++ (out' ++ fl) ++ post) (start + uo + fsz) =
            .ok (vs', szs, start + uo + (out' ++ fl).length) := by
  obtain ⟨m, rfl⟩ := Int.eq_ofNat_of_zero_le hi0
  have hm : m < 2 ^ w := by exact_mod_cast hi1
  obtain ⟨bb3, hput, hinv3⟩ := put_step cfg.endian fsz k n w m bb2 hinv hn hm hkw
  have hn3 := acc_lt cfg.endian k n m w hn hm
  have hty3 : bb3.ty = some ft := by rw [put_ty hput, hty]
  simp only [putStepA, hput]
  have rd : ∀ (F : Nat), URel cfg.endian (8 * fsz) (k + w) (acc cfg.endian k n m w) F →
      URel cfg.endian (8 * fsz) k n F ∧
      ∀ (bbR : BitBuf) (U : Int), ReadInv cfg.endian (8 * fsz) U k bbR → U % ((2 ^ (8 * fsz) : Nat) : Int) = (F : Int) →
        ∃ bbR2, bbR.take cfg.endian w = some ((m : Int), bbR2) ∧ ReadInv cfg.endian (8 * fsz) U (k + w) bbR2 ∧
          bbR2.ty = bbR.ty := by
    intro F hrel
    obtain ⟨h1, h2⟩ := urel_step cfg.endian (8 * fsz) k n m w F hn hm hkw hrel
    refine ⟨h1, ?_⟩
    intro bbR U hR hUF
    obtain ⟨bbR2, ht, hR2, _, _⟩ := take_step cfg.endian (8 * fsz) k w U bbR hR hkw
    have hlo : slotLo cfg.endian (8 * fsz) k w + w ≤ 8 * fsz := by
      cases cfg.endian <;> simp only [slotLo] <;> omega
    rw [← slotVal_emod U (8 * fsz) _ w hlo, hUF, h2] at ht
    exact ⟨bbR2, ht, hR2, take_ty ht⟩
  have hzl : (zeros pad).length = pad := by simp [zeros]
  by_cases hex : k + w = 8 * fsz
  · have hrem3 : bb3.remaining = 0 := by rw [hinv3.1]; omega
    obtain ⟨F, hfl3, hF, hrel⟩ := flush_pend cfg ft fsz (k + w) _ bb3 hty3 hsz hinv3 hn3 (by omega)
    have hl3 : (encBytes cfg.endian fsz F).length = fsz := encBytes_length _ _ _
    obtain ⟨o, bbF, fl, hw, hfl, hs, hread⟩ := IHi hH vs' hvs st1 sz sa offs' hlay
      (lidle_of_rem st1 (by rw [hbr]; omega) rest) (uo + fsz) ho start hdv
    obtain ⟨hrel0, hrd⟩ := rd F hrel
    refine ⟨encBytes cfg.endian fsz F ++ o, bbF, fl, F, o ++ fl, ?_, hfl, by simp only [List.append_assoc], hF, hrel0, ?_, ?_⟩
    · simp only [hrem3, if_true, hfl3, Except.bind, List.length_append, hzl, hl3]
      rw [show wpos + (pad + fsz) = start + (uo + fsz) by omega, hw]
      simp only [List.append_assoc]
    · rw [hs]; simp only [List.length_append, hl3]; congr 2; omega
    · intro pre post bbR U hp hRty hR hUF
      obtain ⟨bbR2, ht, hR2, _⟩ := hrd bbR U hR hUF
      refine ⟨bbR2, ht, ?_⟩
      intro ctx
      have hri : RIdle bbR2 rest := ridle_of_rem bbR2 (by rw [hR2.2.1]; omega) rest
      obtain ⟨szs, hr⟩ := hread (pre ++ encBytes cfg.endian fsz F) post ctx bbR2
        (by rw [List.length_append, hp, hl3]; omega) hri
      refine ⟨szs, ?_⟩
      have e1 : pre ++ (encBytes cfg.endian fsz F ++ o ++ fl) ++ post =
          pre ++ encBytes cfg.endian fsz F ++ (o ++ fl) ++ post := by simp only [List.append_assoc]
      rw [e1, show start + uo + fsz = start + (uo + fsz) by omega, hr]
      simp only [List.length_append, hl3]
      congr 3; omega
  · have hrem3 : bb3.remaining ≠ 0 := by rw [hinv3.1]; omega
    have hP : PendA cfg al st1 ft fsz (k + w) (acc cfg.endian k n m w) bb3 uo :=
      ⟨hi, hsz, hbt, hbr, by omega, ho, hbfo, hty3, hinv3, hn3, hual⟩
    obtain ⟨o, bbF, fl, F, tail, hw, hfl, hdata, hF, hrel, hs, hread⟩ := IHp hH vs' hvs st1 sz sa offs' hlay ft fsz _ _ bb3 uo hP
      start hdv hds
    obtain ⟨hrel0, hrd⟩ := rd F hrel
    refine ⟨o, bbF, fl, F, tail, ?_, hfl, hdata, hF, hrel0, hs, ?_⟩
    · simp only [hrem3, if_false, Except.bind, List.length_append, hzl, List.length_nil, Nat.add_zero, List.append_nil]
      rw [hwp, hw]
    · intro pre post bbR U hp hRty hR hUF
      obtain ⟨bbR2, ht, hR2, hty2⟩ := hrd bbR U hR hUF
      refine ⟨bbR2, ht, ?_⟩
      intro ctx
      exact hread pre post ctx bbR2 U hp (by rw [hty2, hRty]) hR2 hUF

end Cstruct.Core.Lemmas
