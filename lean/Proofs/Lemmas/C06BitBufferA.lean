/-
  Helper lemmas for `Proofs/C06BitBuffer.lean`, part 1: what one call of `read` / `write` / `flush` does in each of the
  situations the class distinguishes (a unit has to be loaded / selected, or the current unit goes on).
-/
import Proofs.Spec.C06BitBuffer
import Proofs.Lemmas.C06
namespace Cstruct.C06.BB
open Cstruct Cstruct.BBuf Cstruct.C06 Cstruct.C06.Lemmas
set_option linter.unusedSimpArgs false

/-- the object after `read` loaded a unit of `n` bytes of type `t` -/
def loaded (bb : BB) (t : BTy) (n : Nat) : BB :=
  { bb with ty := some t, remaining := (n : Int) * 8,
            buffer := unitVal bb.endian t (sread bb.stream.data bb.stream.pos n),
            stream := { bb.stream with pos := bb.stream.pos + n } }

/-- the extraction part of `read` on an object that holds a unit with `r` bits left -/
def extract (bb : BB) (r bits : Nat) : R Int :=
  if bits > r then .error (.value, bb) else
  match BitBuf.take bb.endian { ty := none, buffer := bb.buffer, remaining := r } bits with
  | none => .error (.value, bb)
  | some (v, b) => .ok ({ bb with buffer := b.buffer, remaining := (b.remaining : Int) }, v)

theorem sread_length_of_le (d : Bytes) (pos n : Nat) (h : pos + n ≤ d.length) : (sread d pos n).length = n := by
  simp only [sread, List.length_take, List.length_drop]; omega

theorem readExact_ok (d : Bytes) (pos n : Nat) (h : pos + n ≤ d.length) : readExact d pos n = .ok (sread d pos n, pos + n) := by
  simp only [readExact, sread_length_of_le d pos n h, ne_eq, not_true_eq_false, if_false]

theorem readExact_eof (d : Bytes) (pos n : Nat) (hn : 0 < n) (h : d.length < pos + n) : readExact d pos n = .error .eof := by
  have : (sread d pos n).length ≠ n := by
    simp only [sread, List.length_take, List.length_drop, Nat.min_def]; split <;> omega
  simp only [readExact, this, ne_eq, not_false_eq_true, if_true]

/-- the current unit goes on: same storage type, bits left -/
theorem read_cont (bb : BB) (t : BTy) (bits r : Nat) (hty : bb.ty = some t) (hrem : bb.remaining = (r : Int)) (hr : r ≠ 0) :
    bb.read t bits = extract bb r bits := by
  have h1 : ¬ (bb.remaining = 0 ∨ bb.ty ≠ some t) := by
    rw [hrem, hty]; simp; omega
  have h2 : bb.remaining.toNat = r := by rw [hrem]; simp
  simp only [BB.read, if_neg h1]
  simp only [extract, h2, hrem]
  by_cases hb : bits > r
  · have : (bits : Int) > (r : Int) := by omega
    simp [hb, this] <;> rfl
  · have : ¬ (bits : Int) > (r : Int) := by omega
    simp [hb, this] <;> rfl

/-- a unit has to be loaded and the stream holds it -/
theorem read_load (bb : BB) (t : BTy) (n bits : Nat) (hnew : bb.remaining = 0 ∨ bb.ty ≠ some t) (hsz : t.size = some n)
    (hlen : bb.stream.pos + n ≤ bb.stream.data.length) :
    bb.read t bits = extract (loaded bb t n) (n * 8) bits := by
  have h2 : ((n : Int) * 8).toNat = n * 8 := by omega
  simp only [BB.read, if_pos hnew, hsz, readExact_ok _ _ _ hlen, extract, loaded, h2]
  by_cases hb : bits > n * 8
  · have : (bits : Int) > (n : Int) * 8 := by omega
    simp [hb, this] <;> rfl
  · have : ¬ (bits : Int) > (n : Int) * 8 := by omega
    simp [hb, this] <;> rfl

/-- a unit has to be loaded and the stream ends before its last byte: EOFError; the type and the bit count are set
    already, the buffer is not, and the stream has been read to its end -/
theorem read_eof (bb : BB) (t : BTy) (n bits : Nat) (hnew : bb.remaining = 0 ∨ bb.ty ≠ some t) (hsz : t.size = some n)
    (hn : 0 < n) (hlen : bb.stream.data.length < bb.stream.pos + n) :
    bb.read t bits = .error (.eof, { bb with ty := some t, remaining := (n : Int) * 8, stream := bb.stream.afterShort n }) := by
  simp only [BB.read, if_pos hnew, hsz, readExact_eof _ _ _ hn hlen]

/-- a variable-length storage type is refused when a unit would have to be loaded -/
theorem read_varlen (bb : BB) (t : BTy) (bits : Nat) (hnew : bb.remaining = 0 ∨ bb.ty ≠ some t) (hsz : t.size = none) :
    bb.read t bits = .error (.value, bb) := by
  simp only [BB.read, if_pos hnew, hsz]

/-- extraction in terms of the unit: `k` bits of the `w`-bit unit `u` used, `b` more fit -/
theorem extract_ok (bb : BB) (w k b : Nat) (u : Int) (hk : k + b ≤ w)
    (hinv : ReadInv bb.endian w u k { ty := none, buffer := bb.buffer, remaining := w - k }) :
    ∃ buf, extract bb (w - k) b = .ok ({ bb with buffer := buf, remaining := ((w - (k + b) : Nat) : Int) },
        slotVal u (slotLo bb.endian w k b) b) ∧
      ReadInv bb.endian w u (k + b) { ty := none, buffer := buf, remaining := w - (k + b) } := by
  obtain ⟨b', ht, hinv', _⟩ := take_step bb.endian w k b u _ hinv hk
  have hb : ¬ b > w - k := by omega
  have hrem : b'.remaining = w - (k + b) := hinv'.2.1
  refine ⟨b'.buffer, ?_, ?_⟩
  · simp only [extract, if_neg hb, ht, hrem]
  · obtain ⟨h1, h2, h3⟩ := hinv'
    exact ⟨h1, rfl, by cases he : bb.endian <;> simp only [he] at h3 ⊢ <;> exact h3⟩

theorem extract_straddle (bb : BB) (r bits : Nat) (h : r < bits) : extract bb r bits = .error (.value, bb) := by
  simp only [extract, if_pos h]

end Cstruct.C06.BB
