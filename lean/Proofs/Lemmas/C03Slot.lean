/-
  Helper lemmas for `Proofs/C03.lean`, part 2: the value a slot of a block assigns is the value the interpreted reader
  reads for that field from the block's window of the input.
-/
import Proofs.Lemmas.C03Base
namespace Cstruct.Compiler
open Cstruct Cstruct.Core.Lemmas

/-- a slot's value with the end position of the field -/
def slotRes (r : Except Err Val) (p : Nat) : Except Err (Val × Nat) :=
  match r with
  | .ok v => .ok (v, p)
  | .error e => .error e

/-! ### lists of chunks -/

theorem chunks_eq_splitEvery (n : Nat) : ∀ (k : Nat) (bs : Bytes), chunks n k bs = splitEvery n k bs := by
  intro k
  induction k with
  | zero => intro bs; rfl
  | succ k ih => intro bs; simp only [chunks, splitEvery, ih]

theorem mapEnum_ofList_int (l : List Int) : (Vals.ofList (l.map Val.int)).mapEnum = Vals.ofList (l.map Val.enum) := by
  induction l with
  | nil => rfl
  | cons a r ih => simp only [List.map_cons, Vals.ofList, Vals.mapEnum, ih]

theorem mapEnum_ofList_map {α} (g : α → Int) (l : List α) :
    (Vals.ofList (l.map fun x => Val.int (g x))).mapEnum = Vals.ofList (l.map fun x => Val.enum (g x)) := by
  induction l with
  | nil => rfl
  | cons a r ih => simp only [List.map_cons, Vals.ofList, Vals.mapEnum, ih]

theorem mapM'_ok {α β} (f : α → Except Err β) (g : α → β) : ∀ (l : List α), (∀ x ∈ l, f x = .ok (g x)) →
    mapM' f l = .ok (l.map g) := by
  intro l
  induction l with
  | nil => intro _; rfl
  | cons a r ih =>
    intro h
    simp only [mapM', h a (List.mem_cons_self ..), ih (fun x hx => h x (List.mem_cons_of_mem _ hx)), List.map_cons]

theorem itemsAre_take (items : List Item) (s : Scalar) (sz : Nat) : ∀ (k i a : Nat), itemsAre items s sz i k a = true →
    (items.drop i).take k = replicateItems s sz k a := by
  intro k
  induction k with
  | zero => intro i a _; simp [replicateItems]
  | succ k ih =>
    intro i a h
    simp only [itemsAre] at h
    cases hi : items[i]? with
    | none => rw [hi] at h; cases h
    | some it =>
      rw [hi] at h
      simp only [Bool.and_eq_true, beq_iff_eq] at h
      obtain ⟨⟨⟨h1, h2⟩, h3⟩, h4⟩ := h
      have hlt : i < items.length := by
        rcases Nat.lt_or_ge i items.length with h | h
        · exact h
        · rw [List.getElem?_eq_none h] at hi; cases hi
      rw [List.getElem?_eq_getElem hlt] at hi
      cases hi
      rw [List.drop_eq_getElem_cons hlt, List.take_succ_cons, ih (i + 1) (a + sz) h4, replicateItems]
      congr 1
      cases hit : items[i]
      rw [hit] at h1 h2 h3
      simp only at h1 h2 h3
      subst h1; subst h2; subst h3; rfl

/-- the chunks of a slice are the slices at the chunk offsets -/
theorem splitEvery_slice_cons (buf : Bytes) (n k a : Nat) :
    splitEvery n (k + 1) (slice buf a (a + n * (k + 1))) =
      slice buf a (a + n) :: splitEvery n k (slice buf (a + n) (a + n + n * k)) := by
  simp only [splitEvery]
  rw [Nat.mul_succ, Nat.add_comm (n * k) n, slice_take buf a n (n + n * k) (by omega), slice_drop]

/-- decoding the unpacked items of one format character = decoding the chunks of their bytes -/
theorem mapM'_items (buf : Bytes) (f : Item → Except Err Val) (s : Scalar) (sz : Nat) (g : Bytes → Val)
    (hf : ∀ off, f ⟨s, off, sz⟩ = .ok (g (slice buf off (off + sz)))) : ∀ (k a : Nat),
    mapM' f (replicateItems s sz k a) = .ok ((splitEvery sz k (slice buf a (a + sz * k))).map g) := by
  intro k
  induction k with
  | zero => intro a; rfl
  | succ k ih =>
    intro a
    rw [splitEvery_slice_cons]
    simp only [replicateItems, mapM', hf, ih (a + sz), List.map_cons]

/-- `k` successive reads of an element that is decoded from exactly `n` bytes -/
theorem readN_win (cfg : Cfg) (e : Ty) (ctx : Ctx) (data buf : Bytes) (n : Nat) (g : Bytes → Val)
    (he : ∀ pos bs p, readExact data pos n = .ok (bs, p) → read cfg e ctx data pos = .ok (g bs, p)) :
    ∀ (k q a : Nat), Win data buf q a (n * k) →
      readN cfg e k ctx data q = .ok (Vals.ofList ((splitEvery n k (slice buf a (a + n * k))).map g), q + n * k) := by
  intro k
  induction k with
  | zero => intro q a _; rw [readN_zero]; rfl
  | succ k ih =>
    intro q a hw
    rw [readN_succ, splitEvery_slice_cons]
    have h1 := hw 0 n (by rw [Nat.mul_succ]; omega)
    simp only [Nat.add_zero] at h1
    rw [he _ _ _ h1]
    simp only [Except.bind]
    have hw' : Win data buf (q + n) (a + n) (n * k) := win_shift hw n (n * k) (by rw [Nat.mul_succ]; omega)
    rw [ih (q + n) (a + n) hw']
    simp only [List.map_cons, Vals.ofList]
    have : q + n + n * k = q + n * (k + 1) := by rw [Nat.mul_succ]; omega
    rw [this]

/-! ### inversion of `slotRange` -/

/-- the three shapes of a validated slot -/
inductive SlotShape (items : List Item) (sl : Slot) (s : Scalar) (esz : Nat) (a0 b0 : Nat) : Option Nat → Prop
  | one (i : Nat) (it : Item) : isPacked s = true → sl.src = .data1 i → items[i]? = some it → it.sc = s → it.off = a0 →
      b0 = a0 + esz → SlotShape items sl s esz a0 b0 none
  | many (i k : Nat) : isPacked s = true → sl.src = .dataN i (i + k) → (items.drop i).take k = replicateItems s esz k a0 →
      b0 = a0 + esz * k → SlotShape items sl s esz a0 b0 (some k)
  | bytes (cnt : Option Nat) : isPacked s = false → sl.src = .buf a0 b0 → b0 = a0 + esz * cnt.getD 1 →
      SlotShape items sl s esz a0 b0 cnt

theorem slotRange_inv {cfg : Cfg} {ty : Ty} {items : List Item} {sl : Slot} {cur a0 b0 : Nat}
    (h : slotRange cfg ty items sl cur = some (a0, b0)) :
    ∃ s cnt d esz, readType cfg ty = some (s, cnt) ∧ expectDec cfg ty = some d ∧ sl.dec = d ∧ s.size = some esz ∧
      SlotShape items sl s esz a0 b0 cnt := by
  unfold slotRange at h
  split at h
  · rename_i s cnt d hrt hed
    refine ⟨s, cnt, d, ?_⟩
    split at h
    · cases h
    · rename_i hdec
      simp only [ne_eq, Decidable.not_not] at hdec
      split at h
      · cases h
      · rename_i esz hes
        refine ⟨esz, hrt, hed, hdec, hes, ?_⟩
        simp only at h
        split at h
        · rename_i hp
          split at h
          · rename_i i hsrc
            split at h
            · rename_i it hit
              split at h
              · rename_i hc
                simp only [Bool.and_eq_true, beq_iff_eq] at hc
                cases h
                exact .one i it hp hsrc hit hc.1 rfl rfl
              · cases h
            · cases h
          · rename_i i j k hsrc
            split at h
            · cases h
            · rename_i hj
              simp only [ne_eq, Decidable.not_not] at hj
              subst hj
              split at h
              · rename_i hk
                cases h
                subst hk
                exact .many i 0 hp hsrc (by simp [replicateItems]) (by simp)
              · split at h
                · rename_i it hit
                  split at h
                  · rename_i hia
                    cases h
                    exact .many i k hp hsrc (itemsAre_take items s esz k i it.off hia) (by simp)
                  · cases h
                · cases h
          · cases h
        · rename_i hp
          split at h
          · rename_i a b hsrc
            split at h
            · rename_i hb
              cases h
              exact .bytes cnt (by simpa using hp) hsrc hb
            · cases h
          · cases h
  · cases h

/-! ### a validated slot decodes what the interpreted reader reads -/

theorem slot_sc (cfg : Cfg) (s : Scalar) (al : Nat) (items : List Item) (sl : Slot) (cur a0 b0 fsize : Nat) (buf data : Bytes) (q : Nat) (ctx : Ctx)
    (hr : slotRange cfg (.sc s al) items sl cur = some (a0, b0))
    (hsz : (Ty.sc s al).size cfg = some fsize)
    (hw : Win data buf q a0 fsize) :
    read cfg (.sc s al) ctx data q = slotRes (slotVal cfg (.sc s al) buf items sl) (q + fsize) := by
  obtain ⟨s', cnt, d, esz, hrt, hed, hdec, hes, hsh⟩ := slotRange_inv hr
  simp only [readType, Option.some.injEq, Prod.mk.injEq] at hrt
  obtain ⟨rfl, rfl⟩ := hrt
  simp only [Ty.size] at hsz
  rw [hes] at hsz
  cases hsz
  have hrd := win_read hw
  rw [read_sc]
  cases s with
  | pint n sg =>
    simp [expectDec, readType] at hed
    subst hed
    cases hes
    cases hsh with
    | one i it hp hsrc hit hsc hoff hb0 =>
      subst hoff
      simp only [readScalar, hrd, bind, Except.bind, pure, Except.pure, slotVal, hdec, hsrc, hit, itemVal, hsc, wrapNum, slotRes]
    | bytes _ hp => simp [isPacked] at hp
  | pflt n =>
    simp [expectDec, readType] at hed
    subst hed
    cases hes
    cases hsh with
    | one i it hp hsrc hit hsc hoff hb0 =>
      subst hoff
      simp only [readScalar, hrd, bind, Except.bind, pure, Except.pure, slotVal, hdec, hsrc, hit, itemVal, hsc, wrapNum, slotRes]
    | bytes _ hp => simp [isPacked] at hp
  | aint n sg =>
    simp [expectDec, readType] at hed
    subst hed
    cases hes
    cases hsh with
    | one i it hp hsrc hit hsc hoff hb0 => simp [isPacked] at hp
    | bytes _ hp hsrc hb0 =>
      simp only [Option.getD_none, Nat.mul_one] at hb0
      subst hb0
      simp only [readScalar, hrd, bind, Except.bind, pure, Except.pure, slotVal, hdec, hsrc, slotRes]
  | char =>
    simp [expectDec, readType] at hed
    subst hed
    cases hes
    cases hsh with
    | one i it hp hsrc hit hsc hoff hb0 => simp [isPacked] at hp
    | bytes _ hp hsrc hb0 =>
      simp only [Option.getD_none, Nat.mul_one] at hb0
      subst hb0
      simp only [readScalar, hrd, bind, Except.bind, pure, Except.pure, slotVal, hdec, hsrc, slotRes]
  | wchar =>
    simp [expectDec, readType] at hed
    subst hed
    cases hes
    cases hsh with
    | one i it hp hsrc hit hsc hoff hb0 => simp [isPacked] at hp
    | bytes _ hp hsrc hb0 =>
      simp only [Option.getD_none, Nat.mul_one] at hb0
      subst hb0
      simp only [readScalar, hrd, bind, Except.bind, pure, Except.pure, slotVal, hdec, hsrc, slotRes]
      cases decodeWchar cfg.endian (slice buf a0 (a0 + 2)) <;> rfl
  | leb sg => simp [expectDec, readType] at hed
  | void => simp [expectDec, readType] at hed

theorem slot_enum (cfg : Cfg) (b : Scalar) (al : Nat) (fl : Bool) (items : List Item) (sl : Slot) (cur a0 b0 fsize : Nat) (buf data : Bytes) (q : Nat) (ctx : Ctx)
    (hr : slotRange cfg (.enum b al fl) items sl cur = some (a0, b0))
    (hsz : (Ty.enum b al fl).size cfg = some fsize)
    (hw : Win data buf q a0 fsize) :
    read cfg (.enum b al fl) ctx data q = slotRes (slotVal cfg (.enum b al fl) buf items sl) (q + fsize) := by
  obtain ⟨s', cnt, d, esz, hrt, hed, hdec, hes, hsh⟩ := slotRange_inv hr
  simp only [readType, Option.some.injEq, Prod.mk.injEq] at hrt
  obtain ⟨rfl, rfl⟩ := hrt
  simp only [Ty.size] at hsz
  rw [hes] at hsz
  cases hsz
  have hrd := win_read hw
  rw [read_enum]
  cases b with
  | pint n sg =>
    simp [expectDec, readType] at hed
    subst hed
    cases hes
    cases hsh with
    | one i it hp hsrc hit hsc hoff hb0 =>
      subst hoff
      simp only [readScalar, hrd, bind, Except.bind, pure, Except.pure, slotVal, hdec, hsrc, hit, itemVal, hsc, wrapNum, slotRes,
        wrapInt, isIntBase, if_true]
    | bytes _ hp => simp [isPacked] at hp
  | aint n sg =>
    simp [expectDec, readType] at hed
    subst hed
    cases hes
    cases hsh with
    | one i it hp hsrc hit hsc hoff hb0 => simp [isPacked] at hp
    | bytes _ hp hsrc hb0 =>
      simp only [Option.getD_none, Nat.mul_one] at hb0
      subst hb0
      simp only [readScalar, hrd, bind, Except.bind, pure, Except.pure, slotVal, hdec, hsrc, slotRes, wrapInt]
  | pflt n => simp [expectDec, readType] at hed
  | char => simp [expectDec, readType] at hed
  | wchar => simp [expectDec, readType] at hed
  | leb sg => simp [expectDec, readType] at hed
  | void => simp [expectDec, readType] at hed

theorem slot_ptr (cfg : Cfg) (t : Ty) (items : List Item) (sl : Slot) (cur a0 b0 fsize : Nat) (buf data : Bytes) (q : Nat) (ctx : Ctx)
    (hr : slotRange cfg (.ptr t) items sl cur = some (a0, b0))
    (hsz : (Ty.ptr t).size cfg = some fsize)
    (hw : Win data buf q a0 fsize) :
    read cfg (.ptr t) ctx data q = slotRes (slotVal cfg (.ptr t) buf items sl) (q + fsize) := by
  obtain ⟨s', cnt, d, esz, hrt, hed, hdec, hes, hsh⟩ := slotRange_inv hr
  simp only [readType, Option.some.injEq, Prod.mk.injEq] at hrt
  obtain ⟨rfl, rfl⟩ := hrt
  simp only [Ty.size] at hsz
  rw [hes] at hsz
  cases hsz
  have hrd := win_read hw
  rw [read_ptr]
  cases hp : cfg.ptr with
  | pint n sg =>
    rw [hp] at hes hsh
    simp [expectDec, readType, hp] at hed
    subst hed
    cases hes
    cases hsh with
    | one i it hp hsrc hit hsc hoff hb0 =>
      subst hoff
      simp only [readScalar, hrd, bind, Except.bind, pure, Except.pure, slotVal, hdec, hsrc, hit, itemVal, hsc, slotRes,
        wrapInt]
    | bytes _ hp => simp [isPacked] at hp
  | aint n sg => simp [expectDec, readType, hp] at hed
  | pflt n => simp [expectDec, readType, hp] at hed
  | char => simp [expectDec, readType, hp] at hed
  | wchar => simp [expectDec, readType, hp] at hed
  | leb sg => simp [expectDec, readType, hp] at hed
  | void => simp [expectDec, readType, hp] at hed

theorem decodeWchar_nil (e : Endian) : decodeWchar e [] = .ok (.wstr []) := by
  simp [decodeWchar, unitsOf, utf16Ok]

theorem slot_arr_sc (cfg : Cfg) (s : Scalar) (al k : Nat) (items : List Item) (sl : Slot) (cur a0 b0 fsize : Nat) (buf data : Bytes) (q : Nat) (ctx : Ctx)
    (hr : slotRange cfg (.arr (.sc s al) (.fixed k)) items sl cur = some (a0, b0))
    (hsz : (Ty.arr (.sc s al) (.fixed k)).size cfg = some fsize)
    (hw : Win data buf q a0 fsize) :
    read cfg (.arr (.sc s al) (.fixed k)) ctx data q = slotRes (slotVal cfg (.arr (.sc s al) (.fixed k)) buf items sl) (q + fsize) := by
  obtain ⟨s', cnt, d, esz, hrt, hed, hdec, hes, hsh⟩ := slotRange_inv hr
  simp only [readType, Option.some.injEq, Prod.mk.injEq] at hrt
  obtain ⟨rfl, rfl⟩ := hrt
  simp only [Ty.size] at hsz
  rw [hes] at hsz
  simp only [Option.some.injEq] at hsz
  rw [Nat.mul_comm] at hsz
  subst hsz
  have hrd := win_read hw
  rw [read_arr_fixed, readArray.eq_1]
  cases s with
  | pint n sg =>
    simp [expectDec, readType] at hed
    subst hed
    simp only [Scalar.size, Option.some.injEq] at hes
    subst hes
    cases hsh with
    | many i k hp hsrc hit hb0 =>
      simp only [readScalarArray, hrd, bind, Except.bind, pure, Except.pure, slotVal, hdec, hsrc, Nat.add_sub_cancel_left, hit, slotRes]
      rw [mapM'_items buf _ _ _ (fun c => .int (decodeInt cfg.endian sg c)) (fun off => rfl)]
      simp only [Vals.ofInts, List.map_map]
      rfl
    | bytes _ hp => simp [isPacked] at hp
  | pflt n =>
    simp [expectDec, readType] at hed
    subst hed
    simp only [Scalar.size, Option.some.injEq] at hes
    subst hes
    cases hsh with
    | many i k hp hsrc hit hb0 =>
      simp only [readScalarArray, hrd, bind, Except.bind, pure, Except.pure, slotVal, hdec, hsrc, Nat.add_sub_cancel_left, hit, slotRes]
      rw [mapM'_items buf _ _ _ (fun c => .flt (decodeNat cfg.endian c)) (fun off => rfl)]
    | bytes _ hp => simp [isPacked] at hp
  | aint n sg =>
    simp [expectDec, readType] at hed
    subst hed
    simp only [Scalar.size, Option.some.injEq] at hes
    subst hes
    cases hsh with
    | many i k hp hsrc hit hb0 => simp [isPacked] at hp
    | bytes _ hp hsrc hb0 =>
      simp only [Option.getD_some] at hb0
      subst hb0
      simp only [readScalarArray, slotVal, hdec, hsrc, slotRes, if_true]
      rw [readN_win cfg (.sc (.aint n sg) al) ctx data buf n (fun bs => .int (decodeInt cfg.endian sg bs)) ?_ k q a0 hw]
      · simp only [Except.map, chunks_eq_splitEvery]
      · intro pos bs p h
        rw [read_sc]
        simp only [readScalar, h, bind, Except.bind, pure, Except.pure]
  | char =>
    simp [expectDec, readType] at hed
    subst hed
    simp only [Scalar.size, Option.some.injEq] at hes
    subst hes
    cases hsh with
    | many i k hp hsrc hit hb0 => simp [isPacked] at hp
    | bytes _ hp hsrc hb0 =>
      simp only [Option.getD_some] at hb0
      subst hb0
      simp only [readScalarArray, slotVal, hdec, hsrc, slotRes]
      by_cases hk : k = 0
      · subst hk; simp [slice_self]
      · simp only [hk, if_false, bind, Except.bind, pure, Except.pure]
        rw [Nat.one_mul] at hrd
        rw [hrd]
        simp
  | wchar =>
    simp [expectDec, readType] at hed
    subst hed
    simp only [Scalar.size, Option.some.injEq] at hes
    subst hes
    cases hsh with
    | many i k hp hsrc hit hb0 => simp [isPacked] at hp
    | bytes _ hp hsrc hb0 =>
      simp only [Option.getD_some] at hb0
      subst hb0
      simp only [readScalarArray, slotVal, hdec, hsrc, slotRes]
      by_cases hk : k = 0
      · subst hk; simp [slice_self, decodeWchar_nil]
      · simp only [hk, if_false, bind, Except.bind, pure, Except.pure, hrd]
        cases decodeWchar cfg.endian (slice buf a0 (a0 + 2 * k)) <;> rfl
  | leb sg => simp [expectDec, readType] at hed
  | void => simp [expectDec, readType] at hed

theorem slot_arr_enum (cfg : Cfg) (s : Scalar) (al : Nat) (fl : Bool) (k : Nat) (items : List Item) (sl : Slot) (cur a0 b0 fsize : Nat) (buf data : Bytes) (q : Nat) (ctx : Ctx)
    (hr : slotRange cfg (.arr (.enum s al fl) (.fixed k)) items sl cur = some (a0, b0))
    (hsz : (Ty.arr (.enum s al fl) (.fixed k)).size cfg = some fsize)
    (hw : Win data buf q a0 fsize) :
    read cfg (.arr (.enum s al fl) (.fixed k)) ctx data q = slotRes (slotVal cfg (.arr (.enum s al fl) (.fixed k)) buf items sl) (q + fsize) := by
  obtain ⟨s', cnt, d, esz, hrt, hed, hdec, hes, hsh⟩ := slotRange_inv hr
  simp only [readType, Option.some.injEq, Prod.mk.injEq] at hrt
  obtain ⟨rfl, rfl⟩ := hrt
  simp only [Ty.size] at hsz
  rw [hes] at hsz
  simp only [Option.some.injEq] at hsz
  rw [Nat.mul_comm] at hsz
  subst hsz
  have hrd := win_read hw
  rw [read_arr_fixed, readArray.eq_2]
  cases s with
  | pint n sg =>
    simp [expectDec, readType] at hed
    subst hed
    simp only [Scalar.size, Option.some.injEq] at hes
    subst hes
    cases hsh with
    | many i k hp hsrc hit hb0 =>
      simp only [readScalarArray, hrd, bind, Except.bind, pure, Except.pure, slotVal, hdec, hsrc, Nat.add_sub_cancel_left, hit, slotRes]
      rw [mapM'_items buf _ _ _ (fun c => .enum (decodeInt cfg.endian sg c)) (fun off => rfl)]
      simp only [Vals.ofInts, List.map_map]
      exact congrArg (fun x => Except.ok (Val.list x, q + n * k)) (mapEnum_ofList_map (decodeInt cfg.endian sg) _)
    | bytes _ hp => simp [isPacked] at hp
  | aint n sg =>
    simp [expectDec, readType] at hed
    subst hed
    simp only [Scalar.size, Option.some.injEq] at hes
    subst hes
    cases hsh with
    | many i k hp hsrc hit hb0 => simp [isPacked] at hp
    | bytes _ hp hsrc hb0 =>
      simp only [Option.getD_some] at hb0
      subst hb0
      simp only [readScalarArray, slotVal, hdec, hsrc, slotRes, if_true]
      rw [readN_win cfg (.sc (.aint n sg) al) ctx data buf n (fun bs => .int (decodeInt cfg.endian sg bs)) ?_ k q a0 hw]
      · simp only [chunks_eq_splitEvery, mapEnum_ofList_map]
      · intro pos bs p h
        rw [read_sc]
        simp only [readScalar, h, bind, Except.bind, pure, Except.pure]
  | pflt n => simp [expectDec, readType] at hed
  | char => simp [expectDec, readType] at hed
  | wchar => simp [expectDec, readType] at hed
  | leb sg => simp [expectDec, readType] at hed
  | void => simp [expectDec, readType] at hed

theorem slot_arr_ptr (cfg : Cfg) (t : Ty) (k : Nat) (items : List Item) (sl : Slot) (cur a0 b0 fsize : Nat) (buf data : Bytes) (q : Nat) (ctx : Ctx)
    (hr : slotRange cfg (.arr (.ptr t) (.fixed k)) items sl cur = some (a0, b0))
    (hsz : (Ty.arr (.ptr t) (.fixed k)).size cfg = some fsize)
    (hw : Win data buf q a0 fsize) :
    read cfg (.arr (.ptr t) (.fixed k)) ctx data q = slotRes (slotVal cfg (.arr (.ptr t) (.fixed k)) buf items sl) (q + fsize) := by
  obtain ⟨s', cnt, d, esz, hrt, hed, hdec, hes, hsh⟩ := slotRange_inv hr
  simp only [readType, Option.some.injEq, Prod.mk.injEq] at hrt
  obtain ⟨rfl, rfl⟩ := hrt
  simp only [Ty.size] at hsz
  rw [hes] at hsz
  simp only [Option.some.injEq] at hsz
  rw [Nat.mul_comm] at hsz
  subst hsz
  rw [read_arr_fixed, readArray.eq_3 _ _ _ _ _ _ (by intros; contradiction) (by intros; contradiction)]
  cases hp : cfg.ptr with
  | pint n sg =>
    rw [hp] at hes hsh
    simp [expectDec, readType, hp] at hed
    subst hed
    simp only [Scalar.size, Option.some.injEq] at hes
    subst hes
    cases hsh with
    | many i k hp' hsrc hit hb0 =>
      simp only [slotVal, hdec, hsrc, Nat.add_sub_cancel_left, hit, slotRes]
      rw [mapM'_items buf _ _ _ (fun c => .ptr (decodeInt cfg.endian sg c)) (fun off => rfl)]
      rw [readN_win cfg (.ptr t) ctx data buf n (fun bs => .ptr (decodeInt cfg.endian sg bs)) ?_ k q a0 hw]
      · simp only [Except.map]
      · intro pos bs p h
        rw [read_ptr, hp]
        simp only [readScalar, h, bind, Except.bind, pure, Except.pure, wrapInt]
    | bytes _ hp => simp [isPacked] at hp
  | aint n sg => simp [expectDec, readType, hp] at hed
  | pflt n => simp [expectDec, readType, hp] at hed
  | char => simp [expectDec, readType, hp] at hed
  | wchar => simp [expectDec, readType, hp] at hed
  | leb sg => simp [expectDec, readType, hp] at hed
  | void => simp [expectDec, readType, hp] at hed

/-- **slot lemma**: for a slot the validator accepts for a field of type `ty`, the interpreted reader, reading the field
    from the window of the input the slot covers, returns exactly the slot's value (or raises the same exception) and
    ends at the end of the window -/
theorem slot_read (cfg : Cfg) (ty : Ty) (items : List Item) (sl : Slot) (cur a0 b0 fsize : Nat) (buf data : Bytes) (q : Nat)
    (ctx : Ctx) (hr : slotRange cfg ty items sl cur = some (a0, b0)) (hsz : ty.size cfg = some fsize)
    (hw : Win data buf q a0 fsize) :
    read cfg ty ctx data q = slotRes (slotVal cfg ty buf items sl) (q + fsize) := by
  cases ty with
  | sc s al => exact slot_sc cfg s al items sl cur a0 b0 fsize buf data q ctx hr hsz hw
  | enum b al fl => exact slot_enum cfg b al fl items sl cur a0 b0 fsize buf data q ctx hr hsz hw
  | ptr t => exact slot_ptr cfg t items sl cur a0 b0 fsize buf data q ctx hr hsz hw
  | struct al fs => simp [slotRange, readType] at hr
  | union al fs => simp [slotRange, readType] at hr
  | arr e len =>
    cases len with
    | fixed k =>
      cases e with
      | sc s al => exact slot_arr_sc cfg s al k items sl cur a0 b0 fsize buf data q ctx hr hsz hw
      | enum b al fl => exact slot_arr_enum cfg b al fl k items sl cur a0 b0 fsize buf data q ctx hr hsz hw
      | ptr t => exact slot_arr_ptr cfg t k items sl cur a0 b0 fsize buf data q ctx hr hsz hw
      | arr _ _ => simp [slotRange, readType] at hr
      | struct _ _ => simp [slotRange, readType] at hr
      | union _ _ => simp [slotRange, readType] at hr
    | expr _ => cases e <;> simp [slotRange, readType] at hr
    | nullTerm => cases e <;> simp [slotRange, readType] at hr
    | eof => cases e <;> simp [slotRange, readType] at hr

end Cstruct.Compiler
