/-
  Helper lemmas for `Proofs/C03Compile.lean`, part 3: the notions the simulation argument is phrased in
  (the cursor of the validator in front of a pending block, the layout chain of the members of a block, what is known of
  a member that the generator puts into a block) and the facts about single members.
-/
import Proofs.Spec.C03Compile
import Proofs.Lemmas.C03Base
import Proofs.Lemmas.C03CompileFmt
import Proofs.Lemmas.C03CompileVoids

namespace Cstruct.Compiler
open Cstruct Cstruct.Core.Lemmas

/-- the validator's cursor `(fsV, offsV)` = the members of the pending block followed by the compiler's cursor -/
inductive Pending : List CField → Fields → List (Option Nat) → Fields → List (Option Nat) → Prop
  | nil (fs : Fields) (offs : List (Option Nat)) : Pending [] fs offs fs offs
  | cons (name : String) (an : Bool) (ty : Ty) (o : Option Nat) {B : List CField} {fsV : Fields}
      {offsV : List (Option Nat)} {fs : Fields} {offs : List (Option Nat)} :
      Pending B fsV offsV fs offs → Pending (⟨name, ty, o⟩ :: B) (.cons name an ty none fsV) (o :: offsV) fs offs

theorem Pending.snoc {B : List CField} {fsV : Fields} {offsV : List (Option Nat)} {name : String} {an : Bool} {ty : Ty}
    {fs : Fields} {o : Option Nat} {offs : List (Option Nat)}
    (h : Pending B fsV offsV (.cons name an ty none fs) (o :: offs)) :
    Pending (B ++ [⟨name, ty, o⟩]) fsV offsV fs offs := by
  generalize hf : Fields.cons name an ty none fs = f at h
  generalize ho : o :: offs = os at h
  induction h with
  | nil fs' offs' => subst hf; subst ho; exact Pending.cons name an ty o (Pending.nil fs offs)
  | cons n a t o' _ ih => exact Pending.cons n a t o' (ih hf ho)

/-- `offset` of `_calculate_size_and_offsets`: the running offset aligned to the member's alignment -/
def alignOpt (al : Bool) (s : Option Nat) (a : Nat) : Option Nat :=
  s.map fun o => if al then o + padNat o a else o

def addOpt (o z : Option Nat) : Option Nat :=
  match o, z with
  | some o, some z => some (o + z)
  | _, _ => none

/-- the layout offsets of the members of a block follow the layout rule for members without a bit width,
    from the running offset `s` to the running offset `e` -/
def Chain (cfg : Cfg) (al : Bool) : List CField → Option Nat → Option Nat → Prop
  | [], s, e => s = e
  | f :: B, s, e => f.off = alignOpt al s (f.ty.alignment cfg) ∧ Chain cfg al B (addOpt f.off (f.ty.size cfg)) e

theorem Chain.snoc (cfg : Cfg) (al : Bool) : ∀ (B : List CField) (s e : Option Nat) (f : CField),
    Chain cfg al B s e → f.off = alignOpt al e (f.ty.alignment cfg) →
    Chain cfg al (B ++ [f]) s (addOpt f.off (f.ty.size cfg))
  | [], s, e, f, h, hf => by
    simp only [Chain] at h
    subst h
    exact ⟨hf, rfl⟩
  | g :: B, s, e, f, h, hf => ⟨h.1, Chain.snoc cfg al B _ e f h.2 hf⟩

/-- the name of a void member of the block is not reused by a later member of the block -/
def VoidsFresh : List CField → Prop
  | [] => True
  | f :: B => (isVoid f.ty = true → ∀ g ∈ B, g.name ≠ f.name) ∧ VoidsFresh B

/-- what is known of a member that `_generate_fields` appends to `current_block` -/
structure Member (cfg : Cfg) (al : Bool) (f : CField) : Prop where
  apos : 0 < f.ty.alignment cfg
  p2 : al = true → IsP2 (f.ty.alignment cfg)
  voidAlign : isVoid f.ty = true → al = true → f.ty.alignment cfg = 1
  nonvoid : isVoid f.ty = false → ∃ s cnt esz, readType cfg f.ty = some (s, cnt) ∧ ¬ (s = .void ∧ cnt.isNone = true) ∧
    s.size = some esz ∧ f.ty.size cfg = some (cnt.getD 1 * esz) ∧ expectDec cfg f.ty = some (slotDec f.ty s esz) ∧
    (isPacked s = true ∨ (isPacked s = false ∧ isByteBased s = true))

theorem isVoid_sc {ty : Ty} (h : isVoid ty = true) : ∃ a, ty = .sc .void a := by
  cases ty with
  | sc s a => cases s <;> simp [isVoid] at h; exact ⟨a, rfl⟩
  | _ => simp [isVoid] at h

theorem packChar_spec {s : Scalar} {c : Char} (h : packChar s = some c) :
    charScalar c = some s ∧ charSize c = s.size ∧ FmtChar c ∧ c ≠ 'x' := by
  unfold packChar at h
  split at h <;> first | (cases h; refine ⟨rfl, rfl, ?_, by decide⟩; simp [FmtChar]) | cases h

theorem alignment_pos (cfg : Cfg) : ∀ ty : Ty, 0 < ty.alignment cfg
  | .sc _ a => by rw [Ty.alignment]; split <;> omega
  | .enum _ a _ => by rw [Ty.alignment]; split <;> omega
  | .ptr _ => by rw [Ty.alignment]; split <;> omega
  | .arr e _ => by rw [Ty.alignment]; exact alignment_pos cfg e
  | .struct _ fs => by rw [Ty.alignment]; split <;> omega
  | .union _ fs => by rw [Ty.alignment]; split <;> omega

/-- the guards of `_generate_fields` in front of the last branch, and the well-formedness of the member, give the
    facts about a block member -/
theorem member_of_block (cfg : Cfg) (al : Bool) (name : String) (ty : Ty) (o : Option Nat) (bits : Option Nat)
    (hwf : memberWF cfg al ty bits = true)
    (h1 : unsupported (fieldType ty) = false)
    (h2 : ¬ (isPtrTy (elementType (fieldType ty)) = true ∧ ¬ isPacked cfg.ptr = true))
    (h3 : ¬ (isStructTy (fieldType ty) = true ∨ isSubArray (fieldType ty) ((fieldType ty).size cfg) = true)) :
    Member cfg al ⟨name, ty, o⟩ := by
  simp only [memberWF, Bool.and_eq_true, Bool.or_eq_true, Bool.not_eq_true', bne_iff_ne, ne_eq, beq_iff_eq] at hwf
  obtain ⟨⟨⟨⟨_, hp2⟩, hva⟩, hsh⟩, _⟩ := hwf
  refine ⟨alignment_pos cfg ty, ?_, ?_, ?_⟩
  · intro hal
    rcases hp2 with h | h
    · rw [hal] at h; cases h
    · exact isPow2b_spec h
  · intro hv hal
    rcases hva with (h | h) | h
    · rw [hal] at h; cases h
    · rw [hv] at h; cases h
    · exact h
  · intro hnv
    cases ty with
    | sc s a =>
      cases s with
      | void => simp [isVoid] at hnv
      | leb sg => simp [fieldType, unsupported] at h1
      | pint n sg => exact ⟨_, none, n, rfl, by simp, rfl, by simp [Ty.size, Scalar.size], rfl, Or.inl rfl⟩
      | pflt n => exact ⟨_, none, n, rfl, by simp, rfl, by simp [Ty.size, Scalar.size], rfl, Or.inl rfl⟩
      | aint n sg => exact ⟨_, none, n, rfl, by simp, rfl, by simp [Ty.size, Scalar.size], rfl, Or.inr ⟨rfl, rfl⟩⟩
      | char => exact ⟨_, none, 1, rfl, by simp, rfl, by simp [Ty.size, Scalar.size], rfl, Or.inr ⟨rfl, rfl⟩⟩
      | wchar => exact ⟨_, none, 2, rfl, by simp, rfl, by simp [Ty.size, Scalar.size], rfl, Or.inr ⟨rfl, rfl⟩⟩
    | enum b a fl =>
      simp only at hsh
      cases b with
      | pint n sg => exact ⟨_, none, n, rfl, by simp, rfl, by simp [Ty.size, Scalar.size], rfl, Or.inl rfl⟩
      | aint n sg => exact ⟨_, none, n, rfl, by simp, rfl, by simp [Ty.size, Scalar.size], rfl, Or.inr ⟨rfl, rfl⟩⟩
      | _ => simp [isIntBase] at hsh
    | ptr t =>
      simp only at hsh
      have hpk : isPacked cfg.ptr = true := by
        cases hc : isPacked cfg.ptr with
        | true => rfl
        | false => exact absurd ⟨by simp [fieldType, elementType, isPtrTy], by simp [hc]⟩ h2
      cases hp : cfg.ptr with
      | pint n sg =>
        refine ⟨.pint n sg, none, n, by simp [readType, hp], by simp, rfl, by simp [Ty.size, hp, Scalar.size], ?_, Or.inl rfl⟩
        simp [expectDec, readType, hp, slotDec, isPlainArray, isCharArray, isPtrTy]
      | pflt n => simp [hp, isFloatSc] at hsh
      | _ => simp [hp, isPacked] at hpk
    | arr e len =>
      have hsub : isSubArray (.arr e len) ((Ty.arr e len).size cfg) = false := by
        cases hs : isSubArray (.arr e len) ((Ty.arr e len).size cfg) with
        | false => rfl
        | true => exact absurd (Or.inr (by simpa [fieldType] using hs)) h3
      simp only [isSubArray, Bool.or_eq_false_iff, Option.isNone_eq_false_iff] at hsub
      obtain ⟨⟨hns, hna⟩, hsz⟩ := hsub
      cases len with
      | fixed n =>
        cases e with
        | sc s a =>
          cases s with
          | void => simp at hsh
          | leb sg => simp [Ty.size, Scalar.size] at hsz
          | pint k sg =>
            exact ⟨_, some n, k, rfl, by simp, rfl, by simp [Ty.size, Scalar.size], rfl, Or.inl rfl⟩
          | pflt k =>
            exact ⟨_, some n, k, rfl, by simp, rfl, by simp [Ty.size, Scalar.size], rfl, Or.inl rfl⟩
          | aint k sg =>
            exact ⟨_, some n, k, rfl, by simp, rfl, by simp [Ty.size, Scalar.size], rfl, Or.inr ⟨rfl, rfl⟩⟩
          | char =>
            exact ⟨_, some n, 1, rfl, by simp, rfl, by simp [Ty.size, Scalar.size], rfl, Or.inr ⟨rfl, rfl⟩⟩
          | wchar =>
            exact ⟨_, some n, 2, rfl, by simp, rfl, by simp [Ty.size, Scalar.size], rfl, Or.inr ⟨rfl, rfl⟩⟩
        | enum b a fl =>
          simp only at hsh
          cases b with
          | pint k sg =>
            exact ⟨_, some n, k, rfl, by simp, rfl, by simp [Ty.size, Scalar.size], rfl, Or.inl rfl⟩
          | aint k sg =>
            exact ⟨_, some n, k, rfl, by simp, rfl, by simp [Ty.size, Scalar.size], rfl, Or.inr ⟨rfl, rfl⟩⟩
          | _ => simp [isIntBase] at hsh
        | ptr t =>
          simp only at hsh
          have hpk : isPacked cfg.ptr = true := by
            cases hc : isPacked cfg.ptr with
            | true => rfl
            | false => exact absurd ⟨by simp [fieldType, elementType, isPtrTy], by simp [hc]⟩ h2
          cases hp : cfg.ptr with
          | pint k sg =>
            refine ⟨.pint k sg, some n, k, by simp [readType, hp], by simp, rfl, by simp [Ty.size, hp, Scalar.size], ?_, Or.inl rfl⟩
            simp [expectDec, readType, hp, slotDec, isPlainArray, arrElemIsPtr]
          | pflt k => simp [hp, isFloatSc] at hsh
          | _ => simp [hp, isPacked] at hpk
        | arr _ _ => simp [isArrTy] at hna
        | struct _ _ => simp [isStructTy] at hns
        | union _ _ => simp [isStructTy] at hns
      | expr _ => simp [Ty.size] at hsz
      | nullTerm => simp [Ty.size] at hsz
      | eof => simp [Ty.size] at hsz
    | struct _ _ => exact absurd (Or.inl (by simp [fieldType, isStructTy])) h3
    | union _ _ => exact absurd (Or.inl (by simp [fieldType, isStructTy])) h3

end Cstruct.Compiler
