/-
  Helper lemmas for `Proofs/Core.lean`, part 6: the window theorem. General layout closed forms, position facts of
  successful reads (monotone, aligned ends, exact static sizes), truncation of the input.
-/
import Proofs.Lemmas.CoreRS
namespace Cstruct.Core.Lemmas
open Cstruct Cstruct.Core

/-! ### Layout without bit-fields, members of any size (closed forms `offsG`, `endG`) -/

theorem noBits_bits {bits : Option Nat} (h : (match bits with | some (_ + 1) => false | _ => true) = true) :
    isBitW bits = false := by
  cases bits with
  | none => rfl
  | some b => cases b with
    | zero => rfl
    | succ b => cases h

/-- the layout offset of a member given the running offset -/
def offOf (cfg : Cfg) (al : Bool) (ty : Ty) (so : Option Nat) : Option Nat := so.map (alignTo al · (ty.alignment cfg))

/-- the running offset after a member -/
def nextOf (cfg : Cfg) (al : Bool) (ty : Ty) (so : Option Nat) : Option Nat :=
  (offOf cfg al ty so).bind fun o => (ty.size cfg).map (o + ·)

def offsG (cfg : Cfg) (al : Bool) : Fields → Option Nat → List (Option Nat)
  | .nil, _ => []
  | .cons _ _ ty _ r, so => offOf cfg al ty so :: offsG cfg al r (nextOf cfg al ty so)

def endG (cfg : Cfg) (al : Bool) : Fields → Option Nat → Option Nat
  | .nil, so => so
  | .cons _ _ ty _ r, so => endG cfg al r (nextOf cfg al ty so)

theorem layoutG_nil (cfg : Cfg) (al : Bool) (so : Option Nat) (a : Nat) :
    Fields.layout cfg al .nil (mkSt so a) = .ok (so.map (alignTo al · a), a, []) := by
  rw [Fields.layout]
  cases so <;> cases al <;> rfl

theorem layoutG_cons (cfg : Cfg) (al : Bool) (n : String) (an : Bool) (ty : Ty) (bits : Option Nat) (rest : Fields)
    (so : Option Nat) (a : Nat) (hb : isBitW bits = false) :
    Fields.layout cfg al (.cons n an ty bits rest) (mkSt so a) =
      (Fields.layout cfg al rest (mkSt (nextOf cfg al ty so) (max a (ty.alignment cfg)))).bind
        fun (sz, sa, offs) => .ok (sz, sa, offOf cfg al ty so :: offs) := by
  have key : ∀ bits', (∀ b, bits' = some (b + 1) → False) →
      Fields.layout cfg al (.cons n an ty bits' rest) (mkSt so a) =
      (Fields.layout cfg al rest (mkSt (nextOf cfg al ty so) (max a (ty.alignment cfg)))).bind
        fun (sz, sa, offs) => .ok (sz, sa, offOf cfg al ty so :: offs) := by
    intro bits' hb'
    rw [Fields.layout]
    · simp only [mkSt, nextOf, offOf, alignTo]
      cases so with
      | none =>
        simp only [Option.map_none, Option.bind_none]
        generalize Fields.layout _ _ _ _ = r
        cases r <;> rfl
      | some o =>
        cases hs : ty.size cfg with
        | none =>
          cases al <;> simp only [Option.map_some, Option.bind_some, Option.map_none, if_true, if_false,
            Bool.false_eq_true] <;>
          · generalize Fields.layout _ _ _ _ = r
            cases r <;> rfl
        | some k =>
          cases al <;> simp only [Option.map_some, Option.bind_some, if_true, if_false, Bool.false_eq_true] <;>
          · generalize Fields.layout _ _ _ _ = r
            cases r <;> rfl
    · exact hb'
  apply key
  intro b hbb
  subst hbb
  cases hb

theorem layoutG (cfg : Cfg) (al : Bool) : ∀ (fs : Fields), Fields.noBits fs = true → ∀ (so : Option Nat) (a : Nat),
    Fields.layout cfg al fs (mkSt so a) =
      .ok ((endG cfg al fs so).map (alignTo al · (Fields.maxAlign cfg fs a)), Fields.maxAlign cfg fs a, offsG cfg al fs so)
  | .nil, _, so, a => by rw [layoutG_nil]; rfl
  | .cons n an ty bits r, h, so, a => by
    simp only [Fields.noBits, Bool.and_eq_true] at h
    rw [layoutG_cons cfg al n an ty bits r so a (noBits_bits h.1.1), layoutG cfg al r h.2]
    simp only [Except.bind, endG, offsG, Fields.maxAlign]

theorem structLayout_G (cfg : Cfg) (al : Bool) (fs : Fields) (h : Fields.noBits fs = true) :
    structLayout cfg al fs =
      .ok ((endG cfg al fs (some 0)).map (alignTo al · (Fields.maxAlign cfg fs 0)), Fields.maxAlign cfg fs 0,
        offsG cfg al fs (some 0)) := by
  unfold structLayout; rw [init_eq_mkSt, layoutG cfg al fs h]

theorem struct_size_G (cfg : Cfg) (al : Bool) (fs : Fields) (h : Fields.noBits fs = true) :
    (Ty.struct al fs).size cfg = (endG cfg al fs (some 0)).map (alignTo al · (Fields.maxAlign cfg fs 0)) := by
  simp only [Ty.size]
  rw [show ({ offset := some 0, alignment := 0, bitsType := none, bitsFieldOffset := some 0, bitsRemaining := 0 } : LState)
      = mkSt (some 0) 0 from rfl, layoutG cfg al fs h]

/-! ### Positions of successful scalar reads -/

theorem readExact_pos {d : Bytes} {pos n : Nat} {bs : Bytes} {p : Nat} (h : readExact d pos n = .ok (bs, p)) :
    p = pos + n := by
  obtain ⟨_, hr⟩ := readExact_ok h
  cases hr; rfl

theorem readScalar_pos (cfg : Cfg) (s : Scalar) (d : Bytes) (pos : Nat) (v : Val) (p : Nat)
    (h : readScalar cfg s d pos = .ok (v, p)) : pos ≤ p ∧ ∀ k, s.size = some k → p = pos + k := by
  cases s with
  | pint n sg =>
    simp only [readScalar, bind, pure] at h
    obtain ⟨⟨bs, q⟩, h1, h2⟩ := bind_ok h
    cases h2
    have := readExact_pos h1
    exact ⟨by omega, by intro k hk; cases hk; exact this⟩
  | pflt n =>
    simp only [readScalar, bind, pure] at h
    obtain ⟨⟨bs, q⟩, h1, h2⟩ := bind_ok h
    cases h2
    have := readExact_pos h1
    exact ⟨by omega, by intro k hk; cases hk; exact this⟩
  | aint n sg =>
    simp only [readScalar, bind, pure] at h
    obtain ⟨⟨bs, q⟩, h1, h2⟩ := bind_ok h
    cases h2
    have := readExact_pos h1
    exact ⟨by omega, by intro k hk; cases hk; exact this⟩
  | char =>
    simp only [readScalar, bind, pure] at h
    obtain ⟨⟨bs, q⟩, h1, h2⟩ := bind_ok h
    cases h2
    have := readExact_pos h1
    exact ⟨by omega, by intro k hk; cases hk; exact this⟩
  | wchar =>
    simp only [readScalar, bind, pure] at h
    obtain ⟨⟨bs, q⟩, h1, h2⟩ := bind_ok h
    obtain ⟨w, h3, h4⟩ := bind_ok h2
    cases h4
    have := readExact_pos h1
    exact ⟨by omega, by intro k hk; cases hk; exact this⟩
  | void =>
    cases h
    exact ⟨Nat.le_refl _, by intro k hk; cases hk; rfl⟩
  | leb sg =>
    simp only [readScalar] at h
    refine ⟨?_, by intro k hk; cases hk⟩
    cases hl : lebRead sg (d.drop pos) with
    | error e => rw [hl] at h; cases h
    | ok vr =>
      obtain ⟨w, rest⟩ := vr
      rw [hl] at h
      cases h
      have := (lebRead_append sg _ [] w rest hl).2
      rw [List.length_drop] at this
      omega

theorem readScalarArray_pos (cfg : Cfg) (s : Scalar) (n : Nat) (d : Bytes) (pos : Nat) (v : Val) (p : Nat)
    (h : readScalarArray cfg s n d pos = some (.ok (v, p))) : ∃ k, s.size = some k ∧ p = pos + k * n := by
  cases s with
  | pint k sg =>
    simp only [readScalarArray, bind, pure, Option.some.injEq] at h
    obtain ⟨⟨bs, q⟩, h1, h2⟩ := bind_ok h
    cases h2
    exact ⟨k, rfl, readExact_pos h1⟩
  | pflt k =>
    simp only [readScalarArray, bind, pure, Option.some.injEq] at h
    obtain ⟨⟨bs, q⟩, h1, h2⟩ := bind_ok h
    cases h2
    exact ⟨k, rfl, readExact_pos h1⟩
  | char =>
    simp only [readScalarArray, bind, pure, Option.some.injEq] at h
    split at h
    · rename_i h0; cases h; exact ⟨1, rfl, by simp [h0]⟩
    · obtain ⟨⟨bs, q⟩, h1, h2⟩ := bind_ok h
      cases h2
      exact ⟨1, rfl, by rw [readExact_pos h1]; omega⟩
  | wchar =>
    simp only [readScalarArray, bind, pure, Option.some.injEq] at h
    split at h
    · rename_i h0; cases h; exact ⟨2, rfl, by simp [h0]⟩
    · obtain ⟨⟨bs, q⟩, h1, h2⟩ := bind_ok h
      obtain ⟨w, h3, h4⟩ := bind_ok h2
      cases h4
      exact ⟨2, rfl, readExact_pos h1⟩
  | aint k sg => simp [readScalarArray] at h
  | leb sg => simp [readScalarArray] at h
  | void => simp [readScalarArray] at h

theorem ite_ok_elim {α : Type} {c : Prop} [Decidable c] {A B r : α} {P : Prop}
    (h : (if c then A else B) = r) (hA : A = r → P) (hB : B = r → P) : P := by
  by_cases hc : c
  · rw [if_pos hc] at h; exact hA h
  · rw [if_neg hc] at h; exact hB h

theorem readScalar0_pos (cfg : Cfg) (s : Scalar) (d : Bytes) :
    ∀ (f pos : Nat) (acc : List Val) (vs : List Val) (p : Nat),
      readScalar0 cfg s d f pos acc = .ok (vs, p) → pos ≤ p := by
  intro f
  induction f with
  | zero => intro pos acc vs p h; simp [readScalar0] at h
  | succ f ih =>
    intro pos acc vs p h
    cases s with
    | void => simp only [readScalar0] at h; cases h; exact Nat.le_refl _
    | char =>
      simp only [readScalar0] at h
      cases h1 : readExact d pos 1 with
      | error e => rw [h1] at h; cases h
      | ok bp =>
        obtain ⟨bs, q⟩ := bp
        rw [h1] at h
        have hq := readExact_pos h1
        exact ite_ok_elim h (fun h => by cases h; omega) (fun h => by have := ih _ _ _ _ h; omega)
    | wchar =>
      simp only [readScalar0] at h
      cases h1 : readExact d pos 2 with
      | error e => rw [h1] at h; cases h
      | ok bp =>
        obtain ⟨bs, q⟩ := bp
        rw [h1] at h
        have hq := readExact_pos h1
        exact ite_ok_elim h (fun h => by cases h; omega) (fun h => by have := ih _ _ _ _ h; omega)
    | pint k sg =>
      simp only [readScalar0] at h
      cases h1 : readScalar cfg (.pint k sg) d pos with
      | error e => rw [h1] at h; cases h
      | ok bp =>
        obtain ⟨v, q⟩ := bp
        rw [h1] at h
        have hq := (readScalar_pos cfg _ d pos v q h1).1
        exact ite_ok_elim h (fun h => by cases h; omega) (fun h => by have := ih _ _ _ _ h; omega)
    | pflt k =>
      simp only [readScalar0] at h
      cases h1 : readScalar cfg (.pflt k) d pos with
      | error e => rw [h1] at h; cases h
      | ok bp =>
        obtain ⟨v, q⟩ := bp
        rw [h1] at h
        have hq := (readScalar_pos cfg _ d pos v q h1).1
        exact ite_ok_elim h (fun h => by cases h; omega) (fun h => by have := ih _ _ _ _ h; omega)
    | aint k sg =>
      simp only [readScalar0] at h
      cases h1 : readScalar cfg (.aint k sg) d pos with
      | error e => rw [h1] at h; cases h
      | ok bp =>
        obtain ⟨v, q⟩ := bp
        rw [h1] at h
        have hq := (readScalar_pos cfg _ d pos v q h1).1
        exact ite_ok_elim h (fun h => by cases h; omega) (fun h => by have := ih _ _ _ _ h; omega)
    | leb sg =>
      simp only [readScalar0] at h
      cases h1 : readScalar cfg (.leb sg) d pos with
      | error e => rw [h1] at h; cases h
      | ok bp =>
        obtain ⟨v, q⟩ := bp
        rw [h1] at h
        have hq := (readScalar_pos cfg _ d pos v q h1).1
        exact ite_ok_elim h (fun h => by cases h; omega) (fun h => by have := ih _ _ _ _ h; omega)

theorem readScalarNullTerm_pos (cfg : Cfg) (s : Scalar) (d : Bytes) (pos : Nat) (v : Val) (p : Nat)
    (h : readScalarNullTerm cfg s d pos = .ok (v, p)) : pos ≤ p := by
  unfold readScalarNullTerm at h
  cases h1 : readScalar0 cfg s d (d.length - pos + 2) pos [] with
  | error e => rw [h1] at h; cases h
  | ok vp =>
    obtain ⟨vs, q⟩ := vp
    rw [h1] at h
    have hq := readScalar0_pos cfg s d _ _ _ _ _ h1
    cases s with
    | char => cases h; exact hq
    | wchar =>
      simp only [] at h
      obtain ⟨w, _, h3⟩ := map_ok h
      cases h3; exact hq
    | pint _ _ => cases h; exact hq
    | pflt _ => cases h; exact hq
    | aint _ _ => cases h; exact hq
    | leb _ => cases h; exact hq
    | void => cases h; exact hq

/-! ### Positions of successful reads: monotone, aligned end, exact static size -/

/-- position facts of a successful read from `pos` to `p` -/
def PF (cfg : Cfg) (al : Bool) (ty : Ty) (pos p : Nat) : Prop :=
  pos ≤ p ∧ (al = true → sAlign cfg ty ∣ p) ∧ ∀ k, ty.size cfg = some k → p = pos + k

/-- position facts of `n` successive reads -/
def PFN (cfg : Cfg) (al : Bool) (e : Ty) (n pos p : Nat) : Prop :=
  pos ≤ p ∧ (al = true → sAlign cfg e ∣ p) ∧ ∀ k, e.size cfg = some k → p = pos + n * k

/-- the hypothesis on the element type -/
def ElemPF (cfg : Cfg) (al : Bool) (e : Ty) (d : Bytes) : Prop :=
  ∀ ctx pos v p, read cfg e ctx d pos = .ok (v, p) → (al = true → sAlign cfg e ∣ pos) → PF cfg al e pos p

theorem pf_sc (cfg : Cfg) (al : Bool) (s : Scalar) (a : Nat) (d : Bytes) : ElemPF cfg al (.sc s a) d := by
  intro ctx pos v p h _
  rw [read_sc] at h
  obtain ⟨h1, h2⟩ := readScalar_pos cfg s d pos v p h
  exact ⟨h1, fun _ => Nat.one_dvd _, h2⟩

theorem pf_enum (cfg : Cfg) (al : Bool) (b : Scalar) (a : Nat) (f : Bool) (d : Bytes) :
    ElemPF cfg al (.enum b a f) d := by
  intro ctx pos v p h _
  rw [read_enum] at h
  obtain ⟨i, q, h1, h2⟩ := wrapInt_ok h
  cases h2
  obtain ⟨h1, h2⟩ := readScalar_pos cfg b d pos _ _ h1
  exact ⟨h1, fun _ => Nat.one_dvd _, h2⟩

theorem pf_ptr (cfg : Cfg) (al : Bool) (t : Ty) (d : Bytes) : ElemPF cfg al (.ptr t) d := by
  intro ctx pos v p h _
  rw [read_ptr] at h
  obtain ⟨i, q, h1, h2⟩ := wrapInt_ok h
  cases h2
  obtain ⟨h1, h2⟩ := readScalar_pos cfg cfg.ptr d pos _ _ h1
  exact ⟨h1, fun _ => Nat.one_dvd _, h2⟩

theorem pf_N (cfg : Cfg) (al : Bool) (e : Ty) (d : Bytes) (hE : ElemPF cfg al e d) :
    ∀ (n : Nat) (ctx : Ctx) (pos : Nat) (vs : Vals) (p : Nat), readN cfg e n ctx d pos = .ok (vs, p) →
      (al = true → sAlign cfg e ∣ pos) → PFN cfg al e n pos p := by
  intro n
  induction n with
  | zero =>
    intro ctx pos vs p h hpos
    rw [readN_zero] at h; cases h
    exact ⟨Nat.le_refl _, hpos, by intro k _; simp⟩
  | succ n ih =>
    intro ctx pos vs p h hpos
    rw [readN_succ] at h
    obtain ⟨⟨v, p1⟩, h1, h2⟩ := bind_ok h
    obtain ⟨⟨vs', p'⟩, h3, h4⟩ := bind_ok h2
    cases h4
    obtain ⟨a1, a2, a3⟩ := hE _ _ _ _ h1 hpos
    obtain ⟨b1, b2, b3⟩ := ih _ _ _ _ h3 a2
    refine ⟨by omega, b2, ?_⟩
    intro k hk
    rw [b3 k hk, a3 k hk, Nat.succ_mul]; omega

theorem pfN_of_bulk {cfg : Cfg} {al : Bool} {e : Ty} {s : Scalar} {n pos p k : Nat} (hs : e.size cfg = s.size)
    (ha : sAlign cfg e = 1) (hk : s.size = some k) (hp : p = pos + k * n) : PFN cfg al e n pos p := by
  refine ⟨by omega, fun _ => by rw [ha]; exact Nat.one_dvd _, ?_⟩
  intro k' hk'
  rw [hs, hk] at hk'; cases hk'
  rw [hp, Nat.mul_comm]

theorem pf_array (cfg : Cfg) (al : Bool) (e : Ty) (d : Bytes) (hE : ElemPF cfg al e d) :
    ∀ (n : Nat) (ctx : Ctx) (pos : Nat) (v : Val) (p : Nat), readArray cfg e n ctx d pos = .ok (v, p) →
      (al = true → sAlign cfg e ∣ pos) → PFN cfg al e n pos p := by
  intro n ctx pos v p h hpos
  cases e with
  | sc s a =>
    rw [readArray.eq_1] at h
    cases hx : readScalarArray cfg s n d pos with
    | some x =>
      rw [hx] at h; simp only [] at h; subst h
      obtain ⟨k, hk, hp⟩ := readScalarArray_pos cfg s n d pos v p hx
      exact pfN_of_bulk rfl rfl hk hp
    | none =>
      rw [hx] at h; simp only [] at h
      obtain ⟨⟨vs, q⟩, h1, h2⟩ := map_ok h
      cases h2
      exact pf_N cfg al _ d hE n ctx pos vs _ h1 hpos
  | enum b a f =>
    rw [readArray.eq_2] at h
    cases hx : readScalarArray cfg b n d pos with
    | some x =>
      rw [hx] at h
      cases x with
      | error e => cases h
      | ok x =>
        obtain ⟨xv, xp⟩ := x
        cases xv <;> try (cases h; done)
        cases h
        obtain ⟨k, hk, hp⟩ := readScalarArray_pos cfg b n d pos _ _ hx
        exact pfN_of_bulk rfl rfl hk hp
    | none =>
      rw [hx] at h; simp only [] at h
      cases h1 : readN cfg (.sc b a) n ctx d pos with
      | error e => rw [h1] at h; cases h
      | ok x =>
        obtain ⟨vs, q⟩ := x
        rw [h1] at h; cases h
        exact pf_N cfg al (.sc b a) d (pf_sc cfg al b a d) n ctx pos vs _ h1 (fun _ => Nat.one_dvd _)
  | ptr t =>
    rw [readArray.eq_3 _ _ _ _ _ _ (by intros; contradiction) (by intros; contradiction)] at h
    obtain ⟨⟨vs, q⟩, h1, h2⟩ := map_ok h
    cases h2
    exact pf_N cfg al _ d hE n ctx pos vs _ h1 hpos
  | arr e' l =>
    rw [readArray.eq_3 _ _ _ _ _ _ (by intros; contradiction) (by intros; contradiction)] at h
    obtain ⟨⟨vs, q⟩, h1, h2⟩ := map_ok h
    cases h2
    exact pf_N cfg al _ d hE n ctx pos vs _ h1 hpos
  | struct al' fs =>
    rw [readArray.eq_3 _ _ _ _ _ _ (by intros; contradiction) (by intros; contradiction)] at h
    obtain ⟨⟨vs, q⟩, h1, h2⟩ := map_ok h
    cases h2
    exact pf_N cfg al _ d hE n ctx pos vs _ h1 hpos
  | union al' fs =>
    rw [readArray.eq_3 _ _ _ _ _ _ (by intros; contradiction) (by intros; contradiction)] at h
    obtain ⟨⟨vs, q⟩, h1, h2⟩ := map_ok h
    cases h2
    exact pf_N cfg al _ d hE n ctx pos vs _ h1 hpos

theorem read0_pos (cfg : Cfg) (e : Ty) (hp : (Ty.arr e .nullTerm).plain = true) (ctx : Ctx) (d : Bytes)
    (pos : Nat) (v : Val) (p : Nat) (h : read0 cfg e ctx d pos = .ok (v, p)) : pos ≤ p ∧ sAlign cfg e = 1 := by
  cases e with
  | sc s a =>
    rw [read0.eq_1] at h
    exact ⟨readScalarNullTerm_pos cfg s d pos v p h, rfl⟩
  | enum b a f =>
    rw [read0.eq_2] at h
    cases h1 : readScalarNullTerm cfg b d pos with
    | error e => rw [h1] at h; cases h
    | ok x =>
      obtain ⟨xv, xp⟩ := x
      rw [h1] at h
      cases xv <;> try (cases h; done)
      cases h
      exact ⟨readScalarNullTerm_pos cfg b d pos _ _ h1, rfl⟩
  | ptr ty => simp [Ty.plain] at hp
  | arr e' len => simp [Ty.plain] at hp
  | struct al fs => simp [Ty.plain] at hp
  | union al fs => simp [Ty.plain] at hp

theorem readFields_cons_nb (cfg : Cfg) (al name an ty bits rest) (o : Option Nat) (offs start bb ctx data pos)
    (hb : isBitW bits = false) :
    readFields cfg al (.cons name an ty bits rest) (o :: offs) start bb ctx data pos =
      (read cfg ty ctx data (fieldPos cfg al ty o start pos)).bind fun (v, p1) =>
        (readFields cfg al rest offs start BitBuf.empty (ctx.set name v) data p1).bind fun (vs, szs, p') =>
          .ok (.cons v vs, (name, p1 - fieldPos cfg al ty o start pos) :: szs, p') := by
  rw [readFields_cons_nobits _ _ _ _ _ _ _ _ _ _ _ _ _ hb]; rfl

/-- where a member is read, given the layout invariant "a static running offset is the current position" -/
theorem fieldPos_facts (cfg : Cfg) (al : Bool) (ty : Ty) (so : Option Nat) (start pos : Nat)
    (hinv : ∀ o, so = some o → pos = start + o) (hfa : IsP2 (ty.alignment cfg))
    (hdv : al = true → ty.alignment cfg ∣ start) :
    pos ≤ fieldPos cfg al ty (offOf cfg al ty so) start pos ∧
    (al = true → ty.alignment cfg ∣ fieldPos cfg al ty (offOf cfg al ty so) start pos) ∧
    (∀ o, so = some o → fieldPos cfg al ty (offOf cfg al ty so) start pos = start + alignTo al o (ty.alignment cfg)) := by
  cases so with
  | none =>
    have e : fieldPos cfg al ty (offOf cfg al ty none) start pos = alignTo al pos (ty.alignment cfg) := by
      cases al <;> simp [fieldPos, offOf, alignTo]
    rw [e]
    refine ⟨le_alignTo _ _ _, ?_, by intro o ho; cases ho⟩
    intro ha; subst ha; exact alignTo_dvd hfa pos
  | some o =>
    have e : fieldPos cfg al ty (offOf cfg al ty (some o)) start pos = start + alignTo al o (ty.alignment cfg) := by
      simp [fieldPos, offOf]
    rw [e, hinv o rfl]
    have := le_alignTo al o (ty.alignment cfg)
    refine ⟨by omega, ?_, by intro o' ho; cases ho; rfl⟩
    intro ha; subst ha; exact Nat.dvd_add (hdv rfl) (alignTo_dvd hfa o)

mutual
theorem pf_ty (cfg : Cfg) (al : Bool) (d : Bytes) : ∀ (ty : Ty), ty.plain = true → ty.noBits = true →
    ty.uniformAlign al = true → ty.pow2Aligned cfg → ElemPF cfg al ty d
  | .sc s a, _, _, _, _ => pf_sc cfg al s a d
  | .enum b a f, _, _, _, _ => pf_enum cfg al b a f d
  | .ptr t, _, _, _, _ => pf_ptr cfg al t d
  | .union _ _, hPl, _, _, _ => by simp [Ty.plain] at hPl
  | .arr e len, hPl, hNB, hU, hP => by
    have hPle : e.plain = true := by simp only [Ty.plain, Bool.and_eq_true] at hPl; exact hPl.2
    simp only [Ty.noBits] at hNB
    simp only [Ty.uniformAlign] at hU
    simp only [Ty.pow2Aligned] at hP
    have ih := pf_ty cfg al d e hPle hNB hU hP
    intro ctx pos v p h hpos
    simp only [sAlign] at hpos
    unfold PF
    simp only [sAlign]
    cases len with
    | fixed n =>
      rw [read_arr_fixed] at h
      obtain ⟨a1, a2, a3⟩ := pf_array cfg al e d ih n ctx pos v p h hpos
      refine ⟨a1, a2, ?_⟩
      intro k hk
      simp only [Ty.size] at hk
      cases he : e.size cfg with
      | none => rw [he] at hk; cases hk
      | some k' => rw [he] at hk; cases hk; exact a3 k' he
    | expr toks =>
      rw [read_arr_expr] at h
      obtain ⟨n, _, h2⟩ := bind_ok h
      obtain ⟨a1, a2, _⟩ := pf_array cfg al e d ih n ctx pos v p h2 hpos
      exact ⟨a1, a2, by intro k hk; simp [Ty.size] at hk⟩
    | nullTerm =>
      rw [read_arr_null] at h
      obtain ⟨a1, a2⟩ := read0_pos cfg e hPl ctx d pos v p h
      exact ⟨a1, fun _ => by rw [a2]; exact Nat.one_dvd _, by intro k hk; simp [Ty.size] at hk⟩
    | eof => simp [Ty.plain] at hPl
  | .struct al' fs, hPl, hNB, hU, hP => by
    simp only [Ty.plain] at hPl
    simp only [Ty.noBits] at hNB
    simp only [Ty.uniformAlign, Bool.and_eq_true, beq_iff_eq] at hU
    simp only [Ty.pow2Aligned] at hP
    obtain ⟨rfl, hU⟩ := hU
    intro ctx pos v p h hpos
    rw [read_struct, structLayout_G cfg al' fs hNB] at h
    simp only [Except.bind] at h
    obtain ⟨⟨vs, szs, q⟩, h3, h4⟩ := bind_ok h
    have hp : p = alignTo al' q (Fields.maxAlign cfg fs 0) := by
      cases h4; rfl
    have hdv : al' = true → allAlignDvd cfg pos fs :=
      fun ha => allAlignDvd_of_sAlign cfg al' fs hP pos (hpos ha)
    obtain ⟨b1, b2⟩ := pf_fields cfg al' d fs hPl hNB hU hP (some 0) pos BitBuf.empty [] pos vs szs q h3 hdv
      (by intro o ho; cases ho; rfl)
    have hM := maxAlign_p2 cfg fs hP 0 (Or.inl rfl)
    have hle := le_alignTo al' q (Fields.maxAlign cfg fs 0)
    refine ⟨by omega, ?_, ?_⟩
    · intro ha; subst ha
      simp only [sAlign, Ty.alignment]
      split
      · exact Nat.one_dvd _
      · rename_i h0
        rcases hM with h1 | h1
        · exact absurd h1 h0
        · rw [hp]; exact alignTo_dvd h1 q
    · intro k hk
      rw [struct_size_G cfg al' fs hNB] at hk
      cases he : endG cfg al' fs (some 0) with
      | none => rw [he] at hk; cases hk
      | some e =>
        rw [he] at hk; cases hk
        rw [hp, b2 e he]
        cases al' with
        | false => simp [alignTo]
        | true =>
          have hd : Fields.maxAlign cfg fs 0 = 0 ∨ Fields.maxAlign cfg fs 0 ∣ pos := by
            have := hpos rfl
            simp only [sAlign, Ty.alignment] at this
            by_cases h0 : Fields.maxAlign cfg fs 0 = 0
            · exact Or.inl h0
            · rw [if_neg h0] at this; exact Or.inr this
          rcases hd with h0 | h0
          · simp only [alignTo, if_true, h0, padNat_zero]; omega
          · exact alignTo_add hM true pos e h0
theorem pf_fields (cfg : Cfg) (al : Bool) (d : Bytes) : ∀ (fs : Fields), Fields.plain fs = true →
    Fields.noBits fs = true → Fields.uniformAlign al fs = true → fs.pow2Aligned cfg →
    ∀ (so : Option Nat) (start : Nat) (bb : BitBuf) (ctx : Ctx) (pos : Nat) (vs : Vals) (szs : List (String × Nat)) (p : Nat),
    readFields cfg al fs (offsG cfg al fs so) start bb ctx d pos = .ok (vs, szs, p) →
    (al = true → allAlignDvd cfg start fs) → (∀ o, so = some o → pos = start + o) →
    pos ≤ p ∧ ∀ e, endG cfg al fs so = some e → p = start + e
  | .nil, _, _, _, _, so, start, bb, ctx, pos, vs, szs, p, h, _, hinv => by
    rw [readFields_nil] at h; cases h
    exact ⟨Nat.le_refl _, by intro e he; simp only [endG] at he; exact hinv e he⟩
  | .cons name an ty bits rest, hPl, hNB, hU, hP, so, start, bb, ctx, pos, vs, szs, p, h, hdv, hinv => by
    simp only [Fields.plain, Bool.and_eq_true] at hPl
    simp only [Fields.noBits, Bool.and_eq_true] at hNB
    simp only [Fields.uniformAlign, Bool.and_eq_true] at hU
    simp only [Fields.pow2Aligned] at hP
    have hfa := alignment_p2 cfg ty hP.1
    simp only [offsG] at h
    rw [readFields_cons_nb _ _ _ _ _ _ _ _ _ _ _ _ _ _ (noBits_bits hNB.1.1)] at h
    obtain ⟨⟨v, p1⟩, h1, h2⟩ := bind_ok h
    obtain ⟨⟨vs', szs', p'⟩, h3, h4⟩ := bind_ok h2
    cases h4
    obtain ⟨f1, f2, f3⟩ := fieldPos_facts cfg al ty so start pos hinv hfa (fun ha => (hdv ha).1)
    generalize fieldPos cfg al ty (offOf cfg al ty so) start pos = fp at *
    obtain ⟨a1, _, a3⟩ := pf_ty cfg al d ty hPl.1 hNB.1.2 hU.1 hP.1 ctx fp v p1 h1
      (fun ha => Nat.dvd_trans (sAlign_dvd_alignment cfg ty) (f2 ha))
    have hinv' : ∀ o, nextOf cfg al ty so = some o → p1 = start + o := by
      intro o' ho'
      cases so with
      | none => simp [nextOf, offOf] at ho'
      | some o =>
        cases hs : ty.size cfg with
        | none => simp [nextOf, offOf, hs] at ho'
        | some k =>
          simp only [nextOf, offOf, hs, Option.map_some, Option.bind_some, Option.some.injEq] at ho'
          rw [a3 k hs, f3 o rfl]; omega
    obtain ⟨b1, b2⟩ := pf_fields cfg al d rest hPl.2 hNB.2 hU.2 hP.2 (nextOf cfg al ty so) start BitBuf.empty
      (Ctx.set ctx name v) p1 vs' szs' p h3 (fun ha => (hdv ha).2) hinv'
    exact ⟨by omega, by intro e he; simp only [endG] at he; exact b2 e he⟩
end

/-! ### Truncating the input after the end position: primitives -/

theorem sread_take (d : Bytes) (pos n q : Nat) (h : pos + n ≤ q) : sread (d.take q) pos n = sread d pos n := by
  unfold sread
  rw [List.drop_take, List.take_take, Nat.min_eq_left (by omega)]

theorem readExact_take {d : Bytes} {pos n : Nat} {bs : Bytes} {p : Nat} (q : Nat)
    (h : readExact d pos n = .ok (bs, p)) (hq : p ≤ q) : readExact (d.take q) pos n = .ok (bs, p) := by
  obtain ⟨hl, hr⟩ := readExact_ok h
  cases hr
  have := sread_take d pos n q hq
  rw [← this] at hl ⊢
  exact readExact_of_len hl

theorem readExact_adv {d : Bytes} {pos n : Nat} {bs : Bytes} {p : Nat} (h : readExact d pos n = .ok (bs, p))
    (hn : 0 < n) : pos < p ∧ p ≤ d.length := by
  obtain ⟨hl, hr⟩ := readExact_ok h
  cases hr
  unfold sread at hl
  rw [List.length_take, List.length_drop] at hl
  omega

theorem lebReadLoop_consumed (a : Bytes) : ∀ (res sh : Nat) r s b rest, lebReadLoop a res sh = some (r, s, b, rest) →
    ∃ c, a = c ++ rest ∧ 0 < c.length ∧ ∀ t, lebReadLoop (c ++ t) res sh = some (r, s, b, t) := by
  induction a with
  | nil => intro res sh r s b rest h; simp [lebReadLoop] at h
  | cons x a ih =>
    intro res sh r s b rest h
    simp only [lebReadLoop] at h
    split at h
    · rename_i hc
      cases h
      refine ⟨[x], rfl, by simp, ?_⟩
      intro t
      simp only [List.cons_append, List.nil_append, lebReadLoop, hc, if_true]
    · rename_i hc
      obtain ⟨c, h1, h2, h3⟩ := ih _ _ _ _ _ _ h
      refine ⟨x :: c, by rw [h1]; rfl, by simp, ?_⟩
      intro t
      simp only [List.cons_append, lebReadLoop, hc, if_false]
      exact h3 t

theorem readScalar_take (cfg : Cfg) (s : Scalar) (d : Bytes) (pos : Nat) (v : Val) (p q : Nat)
    (h : readScalar cfg s d pos = .ok (v, p)) (hq : p ≤ q) : readScalar cfg s (d.take q) pos = .ok (v, p) := by
  cases s with
  | pint n sg =>
    simp only [readScalar, bind, pure] at h ⊢
    obtain ⟨⟨bs, p'⟩, h1, h2⟩ := bind_ok h
    cases h2
    rw [readExact_take q h1 hq]; rfl
  | pflt n =>
    simp only [readScalar, bind, pure] at h ⊢
    obtain ⟨⟨bs, p'⟩, h1, h2⟩ := bind_ok h
    cases h2
    rw [readExact_take q h1 hq]; rfl
  | aint n sg =>
    simp only [readScalar, bind, pure] at h ⊢
    obtain ⟨⟨bs, p'⟩, h1, h2⟩ := bind_ok h
    cases h2
    rw [readExact_take q h1 hq]; rfl
  | char =>
    simp only [readScalar, bind, pure] at h ⊢
    obtain ⟨⟨bs, p'⟩, h1, h2⟩ := bind_ok h
    cases h2
    rw [readExact_take q h1 hq]; rfl
  | wchar =>
    simp only [readScalar, bind, pure] at h ⊢
    obtain ⟨⟨bs, p'⟩, h1, h2⟩ := bind_ok h
    obtain ⟨w, h3, h4⟩ := bind_ok h2
    cases h4
    rw [readExact_take q h1 hq]
    simp only [Except.bind, h3]; rfl
  | void => exact h
  | leb sg =>
    simp only [readScalar] at h ⊢
    cases hl : lebRead sg (d.drop pos) with
    | error e => rw [hl] at h; cases h
    | ok vr =>
      obtain ⟨w, rest⟩ := vr
      rw [hl] at h
      cases h
      unfold lebRead at hl
      cases hloop : lebReadLoop (d.drop pos) 0 0 with
      | none => rw [hloop] at hl; cases hl
      | some r =>
        obtain ⟨res, sh, b, rest'⟩ := r
        rw [hloop] at hl
        obtain ⟨c, c1, c2, c3⟩ := lebReadLoop_consumed _ _ _ _ _ _ _ hloop
        have hrest : rest' = rest := by
          simp only [] at hl
          split at hl <;> (cases hl; rfl)
        subst hrest
        have hlen : d.length - pos = c.length + rest'.length := by
          have := congrArg List.length c1
          rw [List.length_drop, List.length_append] at this
          exact this
        have hposle : pos ≤ d.length := by omega
        have hdrop : (d.take q).drop pos = c ++ rest'.take (q - pos - c.length) := by
          rw [List.drop_take, c1, List.take_append, List.take_of_length_le (by omega)]
        unfold lebRead
        rw [hdrop, c3]
        simp only [] at hl ⊢
        have hpos : (d.take q).length - (rest'.take (q - pos - c.length)).length = d.length - rest'.length := by
          rw [List.length_take, List.length_take]
          simp only [Nat.min_def]
          split <;> split <;> omega
        split at hl
        · rename_i hc; rw [if_pos hc]; cases hl; simp only []; rw [hpos]
        · rename_i hc; rw [if_neg hc]; cases hl; simp only []; rw [hpos]

theorem readScalarArray_take (cfg : Cfg) (s : Scalar) (n : Nat) (d : Bytes) (pos : Nat) (v : Val) (p q : Nat)
    (h : readScalarArray cfg s n d pos = some (.ok (v, p))) (hq : p ≤ q) :
    readScalarArray cfg s n (d.take q) pos = some (.ok (v, p)) := by
  cases s with
  | pint k sg =>
    simp only [readScalarArray, bind, pure, Option.some.injEq] at h ⊢
    obtain ⟨⟨bs, p'⟩, h1, h2⟩ := bind_ok h
    cases h2
    rw [readExact_take q h1 hq]; rfl
  | pflt k =>
    simp only [readScalarArray, bind, pure, Option.some.injEq] at h ⊢
    obtain ⟨⟨bs, p'⟩, h1, h2⟩ := bind_ok h
    cases h2
    rw [readExact_take q h1 hq]; rfl
  | char =>
    simp only [readScalarArray, bind, pure, Option.some.injEq] at h ⊢
    split at h
    · rename_i hc; rw [if_pos hc]; exact h
    · rename_i hc; rw [if_neg hc]
      obtain ⟨⟨bs, p'⟩, h1, h2⟩ := bind_ok h
      cases h2
      rw [readExact_take q h1 hq]; rfl
  | wchar =>
    simp only [readScalarArray, bind, pure, Option.some.injEq] at h ⊢
    split at h
    · rename_i hc; rw [if_pos hc]; exact h
    · rename_i hc; rw [if_neg hc]
      obtain ⟨⟨bs, p'⟩, h1, h2⟩ := bind_ok h
      obtain ⟨w, h3, h4⟩ := bind_ok h2
      cases h4
      rw [readExact_take q h1 hq]
      simp only [Except.bind, h3]; rfl
  | aint k sg => simp [readScalarArray] at h
  | leb sg => simp [readScalarArray] at h
  | void => simp [readScalarArray] at h

/-- a scalar that is not `void` and whose size is not 0 consumes at least one byte -/
theorem readScalar_adv (cfg : Cfg) (s : Scalar) (d : Bytes) (pos : Nat) (v : Val) (p : Nat)
    (h : readScalar cfg s d pos = .ok (v, p)) (hs : s.size ≠ some 0) : pos < p ∧ p ≤ d.length := by
  cases s with
  | pint n sg =>
    simp only [readScalar, bind, pure] at h
    obtain ⟨⟨bs, p'⟩, h1, h2⟩ := bind_ok h
    cases h2
    exact readExact_adv h1 (by simp [Scalar.size] at hs; omega)
  | pflt n =>
    simp only [readScalar, bind, pure] at h
    obtain ⟨⟨bs, p'⟩, h1, h2⟩ := bind_ok h
    cases h2
    exact readExact_adv h1 (by simp [Scalar.size] at hs; omega)
  | aint n sg =>
    simp only [readScalar, bind, pure] at h
    obtain ⟨⟨bs, p'⟩, h1, h2⟩ := bind_ok h
    cases h2
    exact readExact_adv h1 (by simp [Scalar.size] at hs; omega)
  | char =>
    simp only [readScalar, bind, pure] at h
    obtain ⟨⟨bs, p'⟩, h1, h2⟩ := bind_ok h
    cases h2
    exact readExact_adv h1 (by decide)
  | wchar =>
    simp only [readScalar, bind, pure] at h
    obtain ⟨⟨bs, p'⟩, h1, h2⟩ := bind_ok h
    obtain ⟨w, h3, h4⟩ := bind_ok h2
    cases h4
    exact readExact_adv h1 (by decide)
  | void => simp [Scalar.size] at hs
  | leb sg =>
    simp only [readScalar] at h
    cases hl : lebRead sg (d.drop pos) with
    | error e => rw [hl] at h; cases h
    | ok vr =>
      obtain ⟨w, rest⟩ := vr
      rw [hl] at h
      cases h
      have := (lebRead_append sg _ [] w rest hl).2
      rw [List.length_drop] at this
      omega

theorem readScalar0_take (cfg : Cfg) (s : Scalar) (d : Bytes) (q : Nat) (hs : s.size ≠ some 0 ∨ s = .void) :
    ∀ (f pos : Nat) (acc vs : List Val) (p : Nat), readScalar0 cfg s d f pos acc = .ok (vs, p) → p ≤ q →
      (s ≠ .void → pos < p ∧ p ≤ d.length) ∧
      ∀ f', p - pos + 1 ≤ f' → readScalar0 cfg s (d.take q) f' pos acc = .ok (vs, p) := by
  intro f
  induction f with
  | zero => intro pos acc vs p h; simp [readScalar0] at h
  | succ f ih =>
    intro pos acc vs p h hq
    -- the generic step: a read from `pos` to `p1 > pos`, then either stop or continue
    have step : ∀ (p1 : Nat) (c : Prop) [Decidable c] (w : Val),
        (if c then Except.ok (acc.reverse, p1) else readScalar0 cfg s d f p1 (w :: acc)) = .ok (vs, p) →
        pos < p1 → p1 ≤ d.length →
        (pos < p ∧ p ≤ d.length) ∧ p1 ≤ p ∧
        ∀ f'', p - pos ≤ f'' →
          (if c then Except.ok (acc.reverse, p1) else readScalar0 cfg s (d.take q) f'' p1 (w :: acc)) = .ok (vs, p) := by
      intro p1 c _ w h hp1 hp1d
      by_cases hc : c
      · rw [if_pos hc] at h; cases h
        exact ⟨⟨hp1, hp1d⟩, Nat.le_refl _, fun f'' _ => by rw [if_pos hc]⟩
      · rw [if_neg hc] at h
        obtain ⟨i1, i2⟩ := ih _ _ _ _ h hq
        have hp1p := readScalar0_pos cfg s d _ _ _ _ _ h
        by_cases hv : s = .void
        · subst hv
          cases f with
          | zero => simp [readScalar0] at h
          | succ f =>
            simp only [readScalar0] at h; cases h
            refine ⟨⟨hp1, hp1d⟩, Nat.le_refl _, ?_⟩
            intro f'' hf''; rw [if_neg hc]; exact i2 f'' (by omega)
        · obtain ⟨j1, j2⟩ := i1 hv
          refine ⟨⟨by omega, j2⟩, hp1p, ?_⟩
          intro f'' hf''; rw [if_neg hc]; exact i2 f'' (by omega)
    cases s with
    | void =>
      simp only [readScalar0] at h; cases h
      refine ⟨fun hv => absurd rfl hv, ?_⟩
      intro f' hf'
      obtain ⟨f'', rfl⟩ : ∃ f'', f' = f'' + 1 := ⟨f' - 1, by omega⟩
      simp only [readScalar0]
    | char =>
      simp only [readScalar0] at h
      cases h1 : readExact d pos 1 with
      | error e => rw [h1] at h; cases h
      | ok bp =>
        obtain ⟨bs, p1⟩ := bp
        rw [h1] at h; simp only [] at h
        obtain ⟨a1, a2⟩ := readExact_adv h1 (by decide)
        obtain ⟨s1, s2, s3⟩ := step p1 _ _ h a1 a2
        refine ⟨fun _ => s1, ?_⟩
        intro f' hf'
        obtain ⟨f'', rfl⟩ : ∃ f'', f' = f'' + 1 := ⟨f' - 1, by omega⟩
        simp only [readScalar0]
        rw [readExact_take q h1 (by omega)]
        exact s3 f'' (by omega)
    | wchar =>
      simp only [readScalar0] at h
      cases h1 : readExact d pos 2 with
      | error e => rw [h1] at h; cases h
      | ok bp =>
        obtain ⟨bs, p1⟩ := bp
        rw [h1] at h; simp only [] at h
        obtain ⟨a1, a2⟩ := readExact_adv h1 (by decide)
        obtain ⟨s1, s2, s3⟩ := step p1 _ _ h a1 a2
        refine ⟨fun _ => s1, ?_⟩
        intro f' hf'
        obtain ⟨f'', rfl⟩ : ∃ f'', f' = f'' + 1 := ⟨f' - 1, by omega⟩
        simp only [readScalar0]
        rw [readExact_take q h1 (by omega)]
        exact s3 f'' (by omega)
    | pint k sg =>
      have hs' : (Scalar.pint k sg).size ≠ some 0 := by
        rcases hs with hs | hs
        · exact hs
        · cases hs
      simp only [readScalar0] at h
      cases h1 : readScalar cfg (.pint k sg) d pos with
      | error e => rw [h1] at h; cases h
      | ok bp =>
        obtain ⟨w, p1⟩ := bp
        rw [h1] at h; simp only [] at h
        obtain ⟨a1, a2⟩ := readScalar_adv cfg _ d pos w p1 h1 hs'
        obtain ⟨s1, s2, s3⟩ := step p1 _ _ h a1 a2
        refine ⟨fun _ => s1, ?_⟩
        intro f' hf'
        obtain ⟨f'', rfl⟩ : ∃ f'', f' = f'' + 1 := ⟨f' - 1, by omega⟩
        simp only [readScalar0]
        rw [readScalar_take cfg _ d pos w p1 q h1 (by omega)]
        exact s3 f'' (by omega)
    | pflt k =>
      have hs' : (Scalar.pflt k).size ≠ some 0 := by
        rcases hs with hs | hs
        · exact hs
        · cases hs
      simp only [readScalar0] at h
      cases h1 : readScalar cfg (.pflt k) d pos with
      | error e => rw [h1] at h; cases h
      | ok bp =>
        obtain ⟨w, p1⟩ := bp
        rw [h1] at h; simp only [] at h
        obtain ⟨a1, a2⟩ := readScalar_adv cfg _ d pos w p1 h1 hs'
        obtain ⟨s1, s2, s3⟩ := step p1 _ _ h a1 a2
        refine ⟨fun _ => s1, ?_⟩
        intro f' hf'
        obtain ⟨f'', rfl⟩ : ∃ f'', f' = f'' + 1 := ⟨f' - 1, by omega⟩
        simp only [readScalar0]
        rw [readScalar_take cfg _ d pos w p1 q h1 (by omega)]
        exact s3 f'' (by omega)
    | aint k sg =>
      have hs' : (Scalar.aint k sg).size ≠ some 0 := by
        rcases hs with hs | hs
        · exact hs
        · cases hs
      simp only [readScalar0] at h
      cases h1 : readScalar cfg (.aint k sg) d pos with
      | error e => rw [h1] at h; cases h
      | ok bp =>
        obtain ⟨w, p1⟩ := bp
        rw [h1] at h; simp only [] at h
        obtain ⟨a1, a2⟩ := readScalar_adv cfg _ d pos w p1 h1 hs'
        obtain ⟨s1, s2, s3⟩ := step p1 _ _ h a1 a2
        refine ⟨fun _ => s1, ?_⟩
        intro f' hf'
        obtain ⟨f'', rfl⟩ : ∃ f'', f' = f'' + 1 := ⟨f' - 1, by omega⟩
        simp only [readScalar0]
        rw [readScalar_take cfg _ d pos w p1 q h1 (by omega)]
        exact s3 f'' (by omega)
    | leb sg =>
      have hs' : (Scalar.leb sg).size ≠ some 0 := by simp [Scalar.size]
      simp only [readScalar0] at h
      cases h1 : readScalar cfg (.leb sg) d pos with
      | error e => rw [h1] at h; cases h
      | ok bp =>
        obtain ⟨w, p1⟩ := bp
        rw [h1] at h; simp only [] at h
        obtain ⟨a1, a2⟩ := readScalar_adv cfg _ d pos w p1 h1 hs'
        obtain ⟨s1, s2, s3⟩ := step p1 _ _ h a1 a2
        refine ⟨fun _ => s1, ?_⟩
        intro f' hf'
        obtain ⟨f'', rfl⟩ : ∃ f'', f' = f'' + 1 := ⟨f' - 1, by omega⟩
        simp only [readScalar0]
        rw [readScalar_take cfg _ d pos w p1 q h1 (by omega)]
        exact s3 f'' (by omega)

theorem readScalarNullTerm_take (cfg : Cfg) (s : Scalar) (d : Bytes) (pos : Nat) (v : Val) (p q : Nat)
    (hs : s.size ≠ some 0 ∨ s = .void) (h : readScalarNullTerm cfg s d pos = .ok (v, p)) (hq : p ≤ q) :
    readScalarNullTerm cfg s (d.take q) pos = .ok (v, p) := by
  unfold readScalarNullTerm at h ⊢
  cases h1 : readScalar0 cfg s d (d.length - pos + 2) pos [] with
  | error e => rw [h1] at h; cases h
  | ok vp =>
    obtain ⟨vs, p'⟩ := vp
    rw [h1] at h
    have hp' : p' = p := by
      cases s with
      | char => cases h; rfl
      | wchar =>
        simp only [] at h
        obtain ⟨w, _, h3⟩ := map_ok h
        cases h3; rfl
      | pint _ _ => cases h; rfl
      | pflt _ => cases h; rfl
      | aint _ _ => cases h; rfl
      | leb _ => cases h; rfl
      | void => cases h; rfl
    subst hp'
    obtain ⟨i1, i2⟩ := readScalar0_take cfg s d q hs _ _ _ _ _ h1 hq
    have hpos := readScalar0_pos cfg s d _ _ _ _ _ h1
    have hfuel : p' - pos + 1 ≤ (d.take q).length - pos + 2 := by
      by_cases hv : s = .void
      · subst hv
        cases hf : d.length - pos + 2 with
        | zero => omega
        | succ f => rw [hf] at h1; simp only [readScalar0] at h1; cases h1; omega
      · obtain ⟨j1, j2⟩ := i1 hv
        rw [List.length_take]
        simp only [Nat.min_def]
        split <;> omega
    rw [i2 _ hfuel]
    exact h

/-! ### Truncating the input after the end position: the recursive readers -/

/-- the hypothesis on the element type -/
def ElemT (cfg : Cfg) (al : Bool) (e : Ty) (d : Bytes) : Prop :=
  ∀ ctx pos v p, read cfg e ctx d pos = .ok (v, p) → (al = true → sAlign cfg e ∣ pos) →
    ∀ q, p ≤ q → read cfg e ctx (d.take q) pos = .ok (v, p)

theorem t_sc (cfg : Cfg) (al : Bool) (s : Scalar) (a : Nat) (d : Bytes) : ElemT cfg al (.sc s a) d := by
  intro ctx pos v p h _ q hq
  rw [read_sc] at h ⊢
  exact readScalar_take cfg s d pos v p q h hq

theorem t_enum (cfg : Cfg) (al : Bool) (b : Scalar) (a : Nat) (f : Bool) (d : Bytes) :
    ElemT cfg al (.enum b a f) d := by
  intro ctx pos v p h _ q hq
  rw [read_enum] at h ⊢
  obtain ⟨i, p', h1, h2⟩ := wrapInt_ok h
  cases h2
  rw [readScalar_take cfg b d pos _ _ q h1 hq]; rfl

theorem t_ptr (cfg : Cfg) (al : Bool) (t : Ty) (d : Bytes) : ElemT cfg al (.ptr t) d := by
  intro ctx pos v p h _ q hq
  rw [read_ptr] at h ⊢
  obtain ⟨i, p', h1, h2⟩ := wrapInt_ok h
  cases h2
  rw [readScalar_take cfg _ d pos _ _ q h1 hq]; rfl

theorem t_N (cfg : Cfg) (al : Bool) (e : Ty) (d : Bytes) (hPF : ElemPF cfg al e d) (hT : ElemT cfg al e d) :
    ∀ (n : Nat) (ctx : Ctx) (pos : Nat) (vs : Vals) (p : Nat), readN cfg e n ctx d pos = .ok (vs, p) →
      (al = true → sAlign cfg e ∣ pos) → ∀ q, p ≤ q → readN cfg e n ctx (d.take q) pos = .ok (vs, p) := by
  intro n
  induction n with
  | zero => intro ctx pos vs p h _ q _; rw [readN_zero] at h ⊢; exact h
  | succ n ih =>
    intro ctx pos vs p h hpos q hq
    rw [readN_succ] at h ⊢
    obtain ⟨⟨v, p1⟩, h1, h2⟩ := bind_ok h
    obtain ⟨⟨vs', p'⟩, h3, h4⟩ := bind_ok h2
    cases h4
    obtain ⟨_, a2, _⟩ := hPF _ _ _ _ h1 hpos
    obtain ⟨b1, _, _⟩ := pf_N cfg al e d hPF n _ _ _ _ h3 a2
    rw [hT _ _ _ _ h1 hpos q (by omega)]
    simp only [Except.bind]
    rw [ih _ _ _ _ h3 a2 q hq]

theorem t_array (cfg : Cfg) (al : Bool) (e : Ty) (d : Bytes) (hPF : ElemPF cfg al e d) (hT : ElemT cfg al e d) :
    ∀ (n : Nat) (ctx : Ctx) (pos : Nat) (v : Val) (p : Nat), readArray cfg e n ctx d pos = .ok (v, p) →
      (al = true → sAlign cfg e ∣ pos) → ∀ q, p ≤ q → readArray cfg e n ctx (d.take q) pos = .ok (v, p) := by
  intro n ctx pos v p h hpos q hq
  cases e with
  | sc s a =>
    rw [readArray.eq_1] at h ⊢
    cases hx : readScalarArray cfg s n d pos with
    | some x =>
      rw [hx] at h; simp only [] at h; subst h
      rw [readScalarArray_take cfg s n d pos v p q hx hq]
    | none =>
      rw [hx] at h; simp only [] at h
      rw [readScalarArray_none_append cfg s n d (d.take q) pos hx]
      simp only []
      obtain ⟨⟨vs, p'⟩, h1, h2⟩ := map_ok h
      cases h2
      rw [t_N cfg al _ d hPF hT n ctx pos vs _ h1 hpos q hq]; rfl
  | enum b a f =>
    rw [readArray.eq_2] at h ⊢
    cases hx : readScalarArray cfg b n d pos with
    | some x =>
      rw [hx] at h
      cases x with
      | error e => cases h
      | ok x =>
        obtain ⟨xv, xp⟩ := x
        cases xv <;> try (cases h; done)
        cases h
        rw [readScalarArray_take cfg b n d pos _ _ q hx hq]
    | none =>
      rw [hx] at h; simp only [] at h
      rw [readScalarArray_none_append cfg b n d (d.take q) pos hx]
      simp only []
      cases h1 : readN cfg (.sc b a) n ctx d pos with
      | error e => rw [h1] at h; cases h
      | ok x =>
        obtain ⟨vs, p'⟩ := x
        rw [h1] at h; cases h
        rw [t_N cfg al (.sc b a) d (pf_sc cfg al b a d) (t_sc cfg al b a d) n ctx pos vs _ h1
          (fun _ => Nat.one_dvd _) q hq]
  | ptr t =>
    rw [readArray.eq_3 _ _ _ _ _ _ (by intros; contradiction) (by intros; contradiction)] at h ⊢
    obtain ⟨⟨vs, p'⟩, h1, h2⟩ := map_ok h
    cases h2
    rw [t_N cfg al _ d hPF hT n ctx pos vs _ h1 hpos q hq]; rfl
  | arr e' l =>
    rw [readArray.eq_3 _ _ _ _ _ _ (by intros; contradiction) (by intros; contradiction)] at h ⊢
    obtain ⟨⟨vs, p'⟩, h1, h2⟩ := map_ok h
    cases h2
    rw [t_N cfg al _ d hPF hT n ctx pos vs _ h1 hpos q hq]; rfl
  | struct al' fs =>
    rw [readArray.eq_3 _ _ _ _ _ _ (by intros; contradiction) (by intros; contradiction)] at h ⊢
    obtain ⟨⟨vs, p'⟩, h1, h2⟩ := map_ok h
    cases h2
    rw [t_N cfg al _ d hPF hT n ctx pos vs _ h1 hpos q hq]; rfl
  | union al' fs =>
    rw [readArray.eq_3 _ _ _ _ _ _ (by intros; contradiction) (by intros; contradiction)] at h ⊢
    obtain ⟨⟨vs, p'⟩, h1, h2⟩ := map_ok h
    cases h2
    rw [t_N cfg al _ d hPF hT n ctx pos vs _ h1 hpos q hq]; rfl

theorem t_read0 (cfg : Cfg) (e : Ty) (hp : (Ty.arr e .nullTerm).plain = true) (ctx : Ctx) (d : Bytes)
    (pos : Nat) (v : Val) (p : Nat) (h : read0 cfg e ctx d pos = .ok (v, p)) (q : Nat) (hq : p ≤ q) :
    read0 cfg e ctx (d.take q) pos = .ok (v, p) := by
  cases e with
  | sc s a =>
    rw [read0.eq_1] at h ⊢
    have hs : s.size ≠ some 0 ∨ s = .void := by
      simp only [Ty.plain, Bool.and_eq_true, Bool.or_eq_true, bne_iff_ne, beq_iff_eq] at hp
      exact hp.1
    exact readScalarNullTerm_take cfg s d pos v p q hs h hq
  | enum b a f =>
    rw [read0.eq_2] at h ⊢
    have hs : b.size ≠ some 0 ∨ b = .void := by
      simp only [Ty.plain, Bool.and_eq_true, bne_iff_ne] at hp
      exact Or.inl hp.1
    cases h1 : readScalarNullTerm cfg b d pos with
    | error e => rw [h1] at h; cases h
    | ok x =>
      obtain ⟨xv, xp⟩ := x
      rw [h1] at h
      cases xv <;> try (cases h; done)
      cases h
      rw [readScalarNullTerm_take cfg b d pos _ _ q hs h1 hq]
  | ptr ty => simp [Ty.plain] at hp
  | arr e' len => simp [Ty.plain] at hp
  | struct al fs => simp [Ty.plain] at hp
  | union al fs => simp [Ty.plain] at hp

mutual
theorem t_ty (cfg : Cfg) (al : Bool) (d : Bytes) : ∀ (ty : Ty), ty.plain = true → ty.noBits = true →
    ty.uniformAlign al = true → ty.pow2Aligned cfg → ElemT cfg al ty d
  | .sc s a, _, _, _, _ => t_sc cfg al s a d
  | .enum b a f, _, _, _, _ => t_enum cfg al b a f d
  | .ptr t, _, _, _, _ => t_ptr cfg al t d
  | .union _ _, hPl, _, _, _ => by simp [Ty.plain] at hPl
  | .arr e len, hPl, hNB, hU, hP => by
    have hPle : e.plain = true := by simp only [Ty.plain, Bool.and_eq_true] at hPl; exact hPl.2
    simp only [Ty.noBits] at hNB
    simp only [Ty.uniformAlign] at hU
    simp only [Ty.pow2Aligned] at hP
    have ih := t_ty cfg al d e hPle hNB hU hP
    have ihPF := pf_ty cfg al d e hPle hNB hU hP
    intro ctx pos v p h hpos q hq
    simp only [sAlign] at hpos
    cases len with
    | fixed n =>
      rw [read_arr_fixed] at h ⊢
      exact t_array cfg al e d ihPF ih n ctx pos v p h hpos q hq
    | expr toks =>
      rw [read_arr_expr] at h ⊢
      obtain ⟨n, h1, h2⟩ := bind_ok h
      rw [h1]; simp only [Except.bind]
      exact t_array cfg al e d ihPF ih n ctx pos v p h2 hpos q hq
    | nullTerm =>
      rw [read_arr_null] at h ⊢
      exact t_read0 cfg e hPl ctx d pos v p h q hq
    | eof => simp [Ty.plain] at hPl
  | .struct al' fs, hPl, hNB, hU, hP => by
    simp only [Ty.plain] at hPl
    simp only [Ty.noBits] at hNB
    simp only [Ty.uniformAlign, Bool.and_eq_true, beq_iff_eq] at hU
    simp only [Ty.pow2Aligned] at hP
    obtain ⟨rfl, hU⟩ := hU
    intro ctx pos v p h hpos q hq
    rw [read_struct, structLayout_G cfg al' fs hNB] at h ⊢
    simp only [Except.bind] at h ⊢
    obtain ⟨⟨vs, szs, pf⟩, h3, h4⟩ := bind_ok h
    have hp : p = alignTo al' pf (Fields.maxAlign cfg fs 0) := by
      cases h4; rfl
    have hle := le_alignTo al' pf (Fields.maxAlign cfg fs 0)
    have hdv : al' = true → allAlignDvd cfg pos fs :=
      fun ha => allAlignDvd_of_sAlign cfg al' fs hP pos (hpos ha)
    rw [t_fields cfg al' d fs hPl hNB hU hP (some 0) pos BitBuf.empty [] pos vs szs pf h3 hdv
      (by intro o ho; cases ho; rfl) q (by omega)]
    exact h4
theorem t_fields (cfg : Cfg) (al : Bool) (d : Bytes) : ∀ (fs : Fields), Fields.plain fs = true →
    Fields.noBits fs = true → Fields.uniformAlign al fs = true → fs.pow2Aligned cfg →
    ∀ (so : Option Nat) (start : Nat) (bb : BitBuf) (ctx : Ctx) (pos : Nat) (vs : Vals) (szs : List (String × Nat)) (p : Nat),
    readFields cfg al fs (offsG cfg al fs so) start bb ctx d pos = .ok (vs, szs, p) →
    (al = true → allAlignDvd cfg start fs) → (∀ o, so = some o → pos = start + o) →
    ∀ q, p ≤ q → readFields cfg al fs (offsG cfg al fs so) start bb ctx (d.take q) pos = .ok (vs, szs, p)
  | .nil, _, _, _, _, so, start, bb, ctx, pos, vs, szs, p, h, _, _, q, _ => by
    rw [readFields_nil] at h ⊢; exact h
  | .cons name an ty bits rest, hPl, hNB, hU, hP, so, start, bb, ctx, pos, vs, szs, p, h, hdv, hinv, q, hq => by
    simp only [Fields.plain, Bool.and_eq_true] at hPl
    simp only [Fields.noBits, Bool.and_eq_true] at hNB
    simp only [Fields.uniformAlign, Bool.and_eq_true] at hU
    simp only [Fields.pow2Aligned] at hP
    have hfa := alignment_p2 cfg ty hP.1
    simp only [offsG] at h ⊢
    rw [readFields_cons_nb _ _ _ _ _ _ _ _ _ _ _ _ _ _ (noBits_bits hNB.1.1)] at h ⊢
    obtain ⟨⟨v, p1⟩, h1, h2⟩ := bind_ok h
    obtain ⟨⟨vs', szs', p'⟩, h3, h4⟩ := bind_ok h2
    obtain ⟨f1, f2, f3⟩ := fieldPos_facts cfg al ty so start pos hinv hfa (fun ha => (hdv ha).1)
    generalize fieldPos cfg al ty (offOf cfg al ty so) start pos = fp at *
    have hsa : al = true → sAlign cfg ty ∣ fp := fun ha => Nat.dvd_trans (sAlign_dvd_alignment cfg ty) (f2 ha)
    obtain ⟨a1, _, a3⟩ := pf_ty cfg al d ty hPl.1 hNB.1.2 hU.1 hP.1 ctx fp v p1 h1 hsa
    have hinv' : ∀ o, nextOf cfg al ty so = some o → p1 = start + o := by
      intro o' ho'
      cases so with
      | none => simp [nextOf, offOf] at ho'
      | some o =>
        cases hs : ty.size cfg with
        | none => simp [nextOf, offOf, hs] at ho'
        | some k =>
          simp only [nextOf, offOf, hs, Option.map_some, Option.bind_some, Option.some.injEq] at ho'
          rw [a3 k hs, f3 o rfl]; omega
    obtain ⟨b1, _⟩ := pf_fields cfg al d rest hPl.2 hNB.2 hU.2 hP.2 (nextOf cfg al ty so) start BitBuf.empty
      (Ctx.set ctx name v) p1 vs' szs' p' h3 (fun ha => (hdv ha).2) hinv'
    have hpp : p' = p := by cases h4; rfl
    rw [t_ty cfg al d ty hPl.1 hNB.1.2 hU.1 hP.1 ctx fp v p1 h1 hsa q (by omega)]
    simp only [Except.bind]
    rw [t_fields cfg al d rest hPl.2 hNB.2 hU.2 hP.2 (nextOf cfg al ty so) start BitBuf.empty
      (Ctx.set ctx name v) p1 vs' szs' p' h3 (fun ha => (hdv ha).2) hinv' q (by omega)]
    exact h4
end

/-- **Window theorem** for types without bit-fields whose structures all use one `align` flag, with power-of-two
    alignments and an aligned start. -/
theorem read_prefix_alt (cfg : Cfg) (al : Bool) (ty : Ty) (hplain : ty.plain = true) (hnb : ty.noBits = true)
    (hu : ty.uniformAlign al = true) (hp : ty.pow2Aligned cfg) (ctx : Ctx) (d1 : Bytes) (pos : Nat)
    (hal : ty.alignsDivide cfg pos = true) (v : Val) (p : Nat)
    (hr : read cfg ty ctx d1 pos = .ok (v, p)) (d2 : Bytes) (hpre : d1.take p <+: d2) :
    read cfg ty ctx d2 pos = .ok (v, p) := by
  have h1 := t_ty cfg al d1 ty hplain hnb hu hp ctx pos v p hr
    (fun _ => sAlign_dvd_of_alignsDivide cfg pos ty hal) p (Nat.le_refl _)
  exact read_extend cfg ty hplain ctx (d1.take p) pos v p h1 d2 hpre

end Cstruct.Core.Lemmas
