/-
  Non-vacuity material for `Proofs/CoreWinBits.lean`: a concrete aligned structure with int24 bit-fields (storage size 3,
  alignment 4 — `bitsNatural` fails, `bitsAlignBy Scalar.tableAlign` holds), read member by member.
-/
import Proofs.Lemmas.CoreWinBits3
namespace Cstruct.Core.Ex24
open Cstruct Cstruct.Core Cstruct.Core.Lemmas Cstruct.Core.Lemmas.WinBits
set_option linter.unusedSimpArgs false

/-! aligned, little endian: `struct { uint24 a:8; uint24 b:8; uint8 e; }` with `uint24 = .sc (.aint 3 false) 4` (size 3,
    alignment 4). Layout: `a` opens a unit at 0, `b` a second one at 4 (3 re-aligned to 4 lies behind the first unit), `e`
    at 7, size 8. Reader: loads bytes 0..2 for `a`, seeks to 4 for `b` but takes `b` from the unit it has, seeks to 7. -/
def cfgL : Cfg := { endian := .little, ptr := .pint 4 false, ptrAlign := 4, consts := [] }
def u24 : Ty := .sc (.aint 3 false) 4
def u8 : Ty := .sc (.pint 1 false) 1
def fsE : Fields := .cons "e" false u8 none .nil
def fsB : Fields := .cons "b" false u24 (some 8) fsE
def fsA : Fields := .cons "a" false u24 (some 8) fsB
def ty24 : Ty := .struct true fsA
def dat : Bytes := [1, 2, 3, 4, 5, 6, 7, 8]
def val24 : Val := .record (.cons (.int 1) (.cons (.int 2) (.cons (.int 8) .nil)))

theorem ex_read24_0 (ctx : Ctx) : read cfgL ty24 ctx dat 0 = .ok (val24, 8) := by
  have hl : structLayout cfgL true fsA = .ok (some 8, 4, [some 0, some 4, some 7]) := by decide +kernel
  rw [ty24, read_struct, hl]
  simp only [Except.bind]
  -- a: a unit is loaded from bytes 0..2
  rw [fsA, readFields_cons_bits']
  simp only [u24, Ty.bitBase]
  have l1 : loadUnit cfgL (.aint 3 false) BitBuf.empty dat (fieldPos cfgL true (.sc (.aint 3 false) 4) (some 0) 0 0) =
      .ok ({ ty := some (.aint 3 false), buffer := 0x030201, remaining := 24 }, 3) := by decide +kernel
  have t1 : BitBuf.take cfgL.endian { ty := some (.aint 3 false), buffer := 0x030201, remaining := 24 } (7 + 1) =
      some (1, { ty := some (.aint 3 false), buffer := 0x0302, remaining := 16 }) := by decide +kernel
  rw [l1]
  simp only [Except.bind, t1, bitVal]
  -- b: the layout says "new unit at 4"; the reader seeks to 4 and goes on with the unit it has
  rw [fsB, readFields_cons_bits']
  simp only [u24, Ty.bitBase]
  have l2 : loadUnit cfgL (.aint 3 false) { ty := some (.aint 3 false), buffer := 0x0302, remaining := 16 } dat
      (fieldPos cfgL true (.sc (.aint 3 false) 4) (some 4) 0 3) =
      .ok ({ ty := some (.aint 3 false), buffer := 0x0302, remaining := 16 }, 4) := by decide +kernel
  have t2 : BitBuf.take cfgL.endian { ty := some (.aint 3 false), buffer := 0x0302, remaining := 16 } (7 + 1) =
      some (2, { ty := some (.aint 3 false), buffer := 0x03, remaining := 8 }) := by decide +kernel
  rw [l2]
  simp only [Except.bind, t2, bitVal]
  -- e
  rw [fsE, readFields_cons_nb _ _ _ _ _ _ _ _ _ _ _ _ _ _ rfl, u8, read_sc]
  have r3 : readScalar cfgL (.pint 1 false) dat (fieldPos cfgL true (.sc (.pint 1 false) 1) (some 7) 0 4) = .ok (.int 8, 8) := by
    rfl
  rw [r3]
  simp only [Except.bind, readFields_nil]
  have hp : padNat 8 4 = 0 := by decide +kernel
  simp only [if_true, hp, val24]

theorem ex_read24 (junk : Bytes) (ctx : Ctx) : read cfgL ty24 ctx (dat ++ junk) 0 = .ok (val24, 8) :=
  read_extend cfgL ty24 (by decide +kernel) ctx dat 0 _ _ (ex_read24_0 ctx) _ (List.prefix_append _ _)

end Cstruct.Core.Ex24
