/-
  C13, definition parser — helper lemmas (8): what the handlers read off a token (`Tok.obs`) does not depend on the blanks
  the token swallowed.
-/
import Proofs.Lemmas.C13ParseG

namespace Cstruct.DefParser.C13
open Cstruct.DefParser

theorem blank_ws (s : List Char) (h : blank s = true) : s.all isWs = true := blank_sp spOK_U s h

/-- `str.strip()` of blanks ++ core ++ blanks, when the core starts and ends with a character that is no white space -/
theorem strip_core (lead s : List Char) (c : Char) (t : List Char) (hl : blank lead = true) (hs : blank s = true)
    (hh : isWs c = false) (hlast : ∀ d, (c :: t).getLast? = some d → isWs d = false) :
    strip (lead ++ (c :: t) ++ s) = c :: t := by
  unfold strip lstrip rstrip
  rw [List.append_assoc, dropWhile_app isWs lead ((c :: t) ++ s) (blank_ws lead hl) (by simp [noHead, hh])]
  exact rstripBy_app isWs (c :: t) s (blank_ws s hs) hlast

theorem getLast?_append_ne (a b : List Char) (hb : b ≠ []) : (a ++ b).getLast? = b.getLast? := by
  obtain ⟨c, hc⟩ : ∃ c, b.getLast? = some c := by
    cases h : b.getLast? with
    | none => exact absurd (List.getLast?_eq_none_iff.mp h) hb
    | some c => exact ⟨c, rfl⟩
  simp [List.getLast?_append, hc]

theorem last_word (w : List Char) (hw : w.all isWord = true) (d : Char) (h : w.getLast? = some d) : isWs d = false :=
  isWs_of_word d ((List.all_eq_true.mp hw) d (List.mem_of_getLast? h))

/-- the last character of a declarator is no white space -/
theorem name_last (pre w : List Char) (bits : Option (List Char × List Char × List Char)) (cnt : Option (List Char))
    (hwf : (Lexeme.name pre w bits cnt).wf = true) (d : Char) (h : (Lexeme.name pre w bits cnt).text.getLast? = some d) :
    isWs d = false := by
  simp only [Lexeme.wf, Bool.and_eq_true, isWordStr, Bool.not_eq_true', List.isEmpty_eq_false_iff] at hwf
  obtain ⟨⟨⟨-, hwne, hw⟩, hbits⟩, -⟩ := hwf
  simp only [Lexeme.text] at h
  cases cnt with
  | some c =>
    have : (pre ++ w ++ bitsText bits ++ countText (some c)).getLast? = some ']' := by
      rw [show countText (some c) = ('[' :: c) ++ [']'] by simp [countText], ← List.append_assoc, getLast?_append_ne _ [']'] (by simp)]
      rfl
    rw [this] at h; cases h; decide
  | none =>
    simp only [countText, List.append_nil] at h
    cases bits with
    | some t =>
      obtain ⟨a, b, ds⟩ := t
      simp only [Bool.and_eq_true, Bool.not_eq_true', List.isEmpty_eq_false_iff] at hbits
      have e : pre ++ w ++ bitsText (some (a, b, ds)) = (pre ++ w ++ a ++ ':' :: b) ++ ds := by simp [bitsText]
      rw [e, getLast?_append_ne _ ds hbits.1.2] at h
      have hdig : d.isDigit = true := (List.all_eq_true.mp hbits.2) d (List.mem_of_getLast? h)
      exact isWs_of_word d (digit_word d hdig)
    | none =>
      simp only [bitsText, List.append_nil] at h
      rw [getLast?_append_ne pre w hwne] at h
      exact last_word w hw d h

theorem obs_name (pre w : List Char) (bits : Option (List Char × List Char × List Char)) (cnt : Option (List Char))
    (hwf : (Lexeme.name pre w bits cnt).wf = true) (s : List Char) (hb : blank s = true) :
    Tok.obs ⟨.name, (Lexeme.name pre w bits cnt).text ++ s⟩ = Tok.obs ⟨.name, (Lexeme.name pre w bits cnt).text⟩ := by
  obtain ⟨c, t, ht, hf⟩ := text_first _ hwf rfl
  have hc : isWs c = false := by
    -- the first character is `*` or a word character
    have hwf' := hwf
    simp only [Lexeme.wf, Bool.and_eq_true, isWordStr] at hwf'
    obtain ⟨⟨⟨⟨hpre, -⟩, hwne, hw⟩, -⟩, -⟩ := hwf'
    cases pre with
    | cons p pre =>
      simp only [preOK, Bool.and_eq_true, beq_iff_eq] at hpre
      obtain ⟨rfl, -⟩ := hpre
      have : c = '*' := by simp [Lexeme.text] at ht; exact ht.1.symm
      subst this; decide
    | nil =>
      cases w with
      | nil => simp at hwne
      | cons e w =>
        simp only [List.all_cons, Bool.and_eq_true] at hw
        have : c = e := by simp [Lexeme.text] at ht; exact ht.1.symm
        subst this; exact isWs_of_word c hw.1
  have hlast : ∀ d, (c :: t).getLast? = some d → isWs d = false := by
    intro d hd; rw [← ht] at hd; exact name_last pre w bits cnt hwf d hd
  have h1 : strip ((Lexeme.name pre w bits cnt).text ++ s) = (Lexeme.name pre w bits cnt).text := by
    have := strip_core [] s c t rfl hb hc hlast
    rw [ht]; simpa using this
  have h2 : strip (Lexeme.name pre w bits cnt).text = (Lexeme.name pre w bits cnt).text := by
    have := strip_core [] [] c t rfl rfl hc hlast
    rw [ht]; simpa using this
  have m1 := matchName_lexeme spOK_U pre w bits cnt hwf s [] hb
  have m2 := matchName_lexeme spOK_U pre w bits cnt hwf [] [] rfl
  simp only [List.append_nil] at m2
  simp only [Tok.obs, h1, h2, parseDeclarator, m1, m2]

/-- the core of a name list: the first name and the following ones -/
theorem more_last (first : List Char) (more : List (List Char × List Char × List Char)) (hf : isWordStr first = true)
    (hm : moreOK more = true) (d : Char) (h : (first ++ moreText more).getLast? = some d) : isWs d = false := by
  induction more generalizing first with
  | nil =>
    simp only [isWordStr, Bool.and_eq_true] at hf
    simp only [moreText, List.append_nil] at h
    exact last_word first hf.2 d h
  | cons t more ih =>
    obtain ⟨a, b, w⟩ := t
    simp only [moreOK, Bool.and_eq_true] at hm
    have hwne : w ++ moreText more ≠ [] := by
      have := hm.1.2; simp only [isWordStr, Bool.and_eq_true, Bool.not_eq_true', List.isEmpty_eq_false_iff] at this
      simp [this.1]
    have e : first ++ moreText ((a, b, w) :: more) = (first ++ a ++ ',' :: b) ++ (w ++ moreText more) := by simp [moreText]
    rw [e, getLast?_append_ne _ _ hwne] at h
    exact ih w hm.1.2 hm.2 h

theorem obs_defs (lead first : List Char) (more : List (List Char × List Char × List Char))
    (hwf : (Lexeme.defs lead first more).wf = true) (s : List Char) (hb : blank s = true) :
    Tok.obs ⟨.defs, (Lexeme.defs lead first more).text ++ s⟩ = Tok.obs ⟨.defs, first ++ moreText more⟩ := by
  simp only [Lexeme.wf, Bool.and_eq_true] at hwf
  obtain ⟨⟨⟨⟨hl, hf⟩, -⟩, -⟩, hm⟩ := hwf
  have hf' := hf
  simp only [isWordStr, Bool.and_eq_true, Bool.not_eq_true', List.isEmpty_eq_false_iff] at hf'
  obtain ⟨c, f', rfl⟩ := List.exists_cons_of_ne_nil hf'.1
  have hc : isWs c = false := by
    have := hf'.2; simp only [List.all_cons, Bool.and_eq_true] at this; exact isWs_of_word c this.1
  have hlast : ∀ d, (c :: (f' ++ moreText more)).getLast? = some d → isWs d = false := fun d hd =>
    more_last (c :: f') more hf hm d (by simpa using hd)
  have h1 : strip ((Lexeme.defs lead (c :: f') more).text ++ s) = c :: (f' ++ moreText more) := by
    have := strip_core lead s c (f' ++ moreText more) hl hb hc hlast
    simpa [Lexeme.text] using this
  have h2 : strip ((c :: f') ++ moreText more) = c :: (f' ++ moreText more) := by
    have := strip_core [] [] c (f' ++ moreText more) rfl rfl hc hlast
    simpa using this
  simp only [Tok.obs, h1, h2]

theorem obs_enum (fl : Bool) (ws1 nm ws2 : List Char) (ty : Option (List Char × List Char × List Char)) (vals : List Char)
    (hwf : (Lexeme.enum fl ws1 nm ws2 ty vals).wf = true) (s : List Char) (hb : blank s = true) :
    Tok.obs ⟨.enum, (Lexeme.enum fl ws1 nm ws2 ty vals).text ++ s⟩ =
      .enum (some ⟨fl, if nm.isEmpty then none else some nm, ty.map fun t => normType t.2.1, vals⟩) := by
  have m1 := matchEnum_lexeme spOK_U fl ws1 nm ws2 ty vals hwf s [] hb
  simp only [Tok.obs, m1, Option.map]
  cases ty <;> rfl

theorem obs_define (ws1 nm ws2 val : List Char) (hwf : (Lexeme.define ws1 nm ws2 val).wf = true) (s : List Char)
    (hb : blank s = true) (hend : lineEnd s [] = true) :
    Tok.obs ⟨.define, (Lexeme.define ws1 nm ws2 val).text ++ s⟩ = Tok.obs ⟨.define, (Lexeme.define ws1 nm ws2 val).text⟩ := by
  have m1 := matchDefine_lexeme spOK_U ws1 nm ws2 val hwf s [] hb hend rfl
  have m2 := matchDefine_lexeme spOK_U ws1 nm ws2 val hwf [] [] rfl rfl rfl
  simp only [List.append_nil] at m1 m2
  simp only [Tok.obs, m1, m2, Option.map]

end Cstruct.DefParser.C13
