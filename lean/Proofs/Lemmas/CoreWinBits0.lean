/-
  Helper lemmas for `Proofs/CoreWinBits.lean` (window theorem WITH bit-fields), part 1: unfolding lemmas for
  `Fields.layout` at an arbitrary layout state (member that is not a bit-field: `layout_cons_nb_any`; bit-field:
  `layout_cons_bit`), the invariant `BInv` that ties the reader's state (bit buffer, position) to the layout state,
  and facts about loading a storage unit (`loadUnit_*`: the unit's bytes lie before the position the load leaves the
  stream at) and about `BitBuf.take`.
-/
import Proofs.Lemmas.CoreWin
import Proofs.Lemmas.CoreBitsA1
namespace Cstruct.Core.Lemmas.WinBits
open Cstruct Cstruct.Core
set_option linter.unusedSimpArgs false

theorem layout_cons_nb_any (cfg : Cfg) (al : Bool) (n : String) (an : Bool) (ty : Ty) (bits : Option Nat) (rest : Fields)
    (st : LState) (hb : isBitW bits = false) :
    Fields.layout cfg al (.cons n an ty bits rest) st =
      (Fields.layout cfg al rest (mkSt (nextOf cfg al ty st.offset) (max st.alignment (ty.alignment cfg)))).bind
        fun (sz, sa, offs) => .ok (sz, sa, offOf cfg al ty st.offset :: offs) := by
  obtain ⟨so, a, bt, bfo, br⟩ := st
  have key : ∀ bits', (∀ b, bits' = some (b + 1) → False) →
      Fields.layout cfg al (.cons n an ty bits' rest) ⟨so, a, bt, bfo, br⟩ =
      (Fields.layout cfg al rest (mkSt (nextOf cfg al ty so) (max a (ty.alignment cfg)))).bind
        fun (sz, sa, offs) => .ok (sz, sa, offOf cfg al ty so :: offs) := by
    intro bits' hb'
    rw [Fields.layout]
    · simp only [mkSt, nextOf, offOf, alignTo]
      cases so with
      | none =>
        simp only [Option.map_none, Option.bind_none]
        generalize Fields.layout _ _ _ _ = r
        cases r <;> rfl
      | some o =>
        cases hs : ty.size cfg with
        | none =>
          cases al <;> simp only [Option.map_some, Option.bind_some, Option.map_none, if_true, if_false,
            Bool.false_eq_true] <;>
          · generalize Fields.layout _ _ _ _ = r
            cases r <;> rfl
        | some k =>
          cases al <;> simp only [Option.map_some, Option.bind_some, if_true, if_false, Bool.false_eq_true] <;>
          · generalize Fields.layout _ _ _ _ = r
            cases r <;> rfl
    · exact hb'
  apply key
  intro b hbb
  subst hbb
  cases hb

/-- the layout's decision "open a new unit" for a bit-field of storage type `ft` whose (aligned) offset is `offset` -/
def lThird (ft : Scalar) (st : LState) (offset : Option Nat) : Except Err Bool :=
  if st.bitsRemaining = 0 ∨ some ft ≠ st.bitsType then .ok true else
  match st.bitsType with
  | none => .ok false
  | some bt =>
    match offset, st.bitsFieldOffset, bt.size with
    | some o, some bfo, some bs => .ok (decide (o > bfo + bs))
    | some _, some _, none => .error .typeErr
    | _, _, _ => .ok false

/-- the layout state after a bit-field of width `w` -/
def stBit (cfg : Cfg) (al : Bool) (ty : Ty) (ft : Scalar) (fsz w : Nat) (nu : Bool) (st : LState) : LState :=
  if nu then
    { offset := (offOf cfg al ty st.offset).map (· + fsz), alignment := max st.alignment (ty.alignment cfg),
      bitsType := some ft, bitsFieldOffset := offOf cfg al ty st.offset,
      bitsRemaining := ((fsz * 8 : Nat) : Int) - ((w : Nat) : Int) }
  else
    { st with offset := offOf cfg al ty st.offset, alignment := max st.alignment (ty.alignment cfg),
              bitsRemaining := st.bitsRemaining - ((w : Nat) : Int) }

set_option hygiene false in
macro "wb_lb_leaf" : tactic => `(tactic| (
  cases th with
  | error e => rfl
  | ok nu =>
    cases nu <;>
    · simp only [Except.bind, if_true, if_false, Bool.false_eq_true]
      split
      · rfl
      · generalize Fields.layout _ _ _ _ = r
        cases r <;> rfl))

theorem layout_cons_bit (cfg : Cfg) (al : Bool) (n : String) (an : Bool) (ty : Ty) (b : Nat) (rest : Fields) (st : LState) :
    Fields.layout cfg al (.cons n an ty (some (b + 1)) rest) st =
      match ty.bitBase with
      | none => .error .typeErr
      | some ft =>
        match ft.size with
        | none => .error .typeErr
        | some fsz =>
          (lThird ft st (offOf cfg al ty st.offset)).bind fun nu =>
            if (stBit cfg al ty ft fsz (b + 1) nu st).bitsRemaining < 0 then .error .value else
            (Fields.layout cfg al rest (stBit cfg al ty ft fsz (b + 1) nu st)).bind fun (sz, sa, offs) =>
              .ok (sz, sa, (if nu then offOf cfg al ty st.offset else none) :: offs) := by
  obtain ⟨so, a, bt, bfo, br⟩ := st
  rw [Fields.layout]
  cases ty.bitBase with
  | none => rfl
  | some ft =>
    simp only []
    cases ft.size with
    | none => rfl
    | some fsz =>
      simp only []
      cases so with
      | none =>
        simp only [offOf, Option.map_none, lThird, stBit]
        generalize (if br = 0 ∨ some ft ≠ bt then Except.ok true else _) = th
        wb_lb_leaf
      | some o =>
        cases al with
        | false =>
          simp only [offOf, Option.map_some, alignTo, lThird, stBit, Bool.false_eq_true, if_false]
          generalize (if br = 0 ∨ some ft ≠ bt then Except.ok true else _) = th
          wb_lb_leaf
        | true =>
          simp only [offOf, Option.map_some, alignTo, lThird, stBit, if_true]
          generalize (if br = 0 ∨ some ft ≠ bt then Except.ok true else _) = th
          wb_lb_leaf


/-! ### The reader and the layout agree -/

/-- reader state (`bb`, `pos`) and layout state `st` agree: a static running offset is the current position, the bit
    buffer holds what the layout thinks is left of the current unit, and inside a unit the running offset is the end of
    the unit (a multiple of the unit size in aligned mode) -/
structure BInv (al : Bool) (st : LState) (bb : BitBuf) (start pos : Nat) : Prop where
  off : ∀ o, st.offset = some o → pos = start + o
  ty : bb.ty = st.bitsType
  rem : (bb.remaining : Int) = st.bitsRemaining
  unit : st.bitsRemaining ≠ 0 → ∀ o bfo bt bs, st.offset = some o → st.bitsFieldOffset = some bfo →
    st.bitsType = some bt → bt.size = some bs → o ≤ bfo + bs ∧ (al = true → bs ∣ o)

theorem binv_mkSt (al : Bool) (so : Option Nat) (a start pos : Nat) (h : ∀ o, so = some o → pos = start + o) :
    BInv al (mkSt so a) BitBuf.empty start pos :=
  ⟨h, rfl, rfl, fun h0 => absurd rfl h0⟩

/-- under the invariant the third disjunct of the layout's new-unit test never fires: the layout opens a new unit
    exactly when the reader loads one -/
theorem lThird_eq (cfg : Cfg) (al : Bool) (ty : Ty) (ft : Scalar) (fsz : Nat) (st : LState) (bb : BitBuf) (start pos : Nat)
    (hI : BInv al st bb start pos) (hsz : ft.size = some fsz) (hfa : IsP2 (ty.alignment cfg))
    (hnat : al = true → fsz = ty.alignment cfg) (nu : Bool)
    (h : lThird ft st (offOf cfg al ty st.offset) = .ok nu) :
    nu = decide (bb.remaining = 0 ∨ bb.ty ≠ some ft) := by
  have hrem : bb.remaining = 0 ↔ st.bitsRemaining = 0 := by
    have := hI.rem; omega
  unfold lThird at h
  by_cases hc : st.bitsRemaining = 0 ∨ some ft ≠ st.bitsType
  · rw [if_pos hc] at h
    cases h
    symm
    rw [decide_eq_true_eq, hI.ty, hrem]
    rcases hc with hc | hc
    · exact Or.inl hc
    · exact Or.inr (fun e => hc e.symm)
  · rw [if_neg hc] at h
    have hr : st.bitsRemaining ≠ 0 := fun e => hc (Or.inl e)
    have ht : st.bitsType = some ft := by
      apply Decidable.byContradiction
      intro e; exact hc (Or.inr (fun e' => e e'.symm))
    have hd : decide (bb.remaining = 0 ∨ bb.ty ≠ some ft) = false := by
      rw [decide_eq_false_iff_not, hI.ty, hrem]
      intro e
      rcases e with e | e
      · exact hr e
      · exact e ht
    rw [hd]
    rw [ht] at h
    simp only [hsz] at h
    cases ho : st.offset with
    | none =>
      rw [ho] at h
      simp only [offOf, Option.map_none] at h
      cases h; rfl
    | some o =>
      rw [ho] at h
      simp only [offOf, Option.map_some] at h
      cases hb : st.bitsFieldOffset with
      | none => rw [hb] at h; cases h; rfl
      | some bfo =>
        rw [hb] at h
        simp only [Except.ok.injEq] at h
        obtain ⟨u1, u2⟩ := hI.unit hr o bfo ft fsz ho hb ht hsz
        have : alignTo al o (ty.alignment cfg) = o :=
          alignTo_of_dvd hfa al o (fun ha => by rw [← hnat ha]; exact u2 ha)
        rw [this] at h
        rw [← h]
        simp only [decide_eq_false_iff_not]
        omega

/-! ### Facts about loading a unit and taking bits -/

theorem loadUnit_reload (cfg : Cfg) (ft : Scalar) (bb : BitBuf) (d : Bytes) (off : Nat) (bb1 : BitBuf) (p1 : Nat)
    (hc : bb.remaining = 0 ∨ bb.ty ≠ some ft) (h : loadUnit cfg ft bb d off = .ok (bb1, p1)) :
    ∃ fsz, ft.size = some fsz ∧ p1 = off + fsz ∧ bb1.ty = some ft ∧ bb1.remaining = fsz * 8 := by
  unfold loadUnit at h
  rw [if_pos hc] at h
  cases hs : ft.size with
  | none => rw [hs] at h; cases h
  | some fsz =>
    rw [hs] at h; simp only [] at h
    cases h1 : readScalar cfg ft d off with
    | error e => rw [h1] at h; cases h
    | ok x =>
      obtain ⟨u, p⟩ := x
      rw [h1] at h; simp only [] at h
      cases hu : unitInt cfg u with
      | none => rw [hu] at h; cases h
      | some i =>
        rw [hu] at h
        cases h
        exact ⟨fsz, rfl, (readScalar_pos cfg ft d off u _ h1).2 fsz hs, rfl, rfl⟩

theorem loadUnit_keep (cfg : Cfg) (ft : Scalar) (bb : BitBuf) (d : Bytes) (off : Nat) (bb1 : BitBuf) (p1 : Nat)
    (hc : ¬ (bb.remaining = 0 ∨ bb.ty ≠ some ft)) (h : loadUnit cfg ft bb d off = .ok (bb1, p1)) :
    bb1 = bb ∧ p1 = off := by
  unfold loadUnit at h
  rw [if_neg hc] at h
  cases h; exact ⟨rfl, rfl⟩

theorem loadUnit_pos (cfg : Cfg) (ft : Scalar) (bb : BitBuf) (d : Bytes) (off : Nat) (bb1 : BitBuf) (p1 : Nat)
    (h : loadUnit cfg ft bb d off = .ok (bb1, p1)) : off ≤ p1 := by
  by_cases hc : bb.remaining = 0 ∨ bb.ty ≠ some ft
  · obtain ⟨fsz, _, h2, _⟩ := loadUnit_reload cfg ft bb d off bb1 p1 hc h; omega
  · have := (loadUnit_keep cfg ft bb d off bb1 p1 hc h).2; omega

/-- the unit is loaded from bytes before the position it leaves the stream at -/
theorem loadUnit_take (cfg : Cfg) (ft : Scalar) (bb : BitBuf) (d : Bytes) (off : Nat) (r : BitBuf × Nat) (q : Nat)
    (h : loadUnit cfg ft bb d off = .ok r) (hq : r.2 ≤ q) : loadUnit cfg ft bb (d.take q) off = .ok r := by
  unfold loadUnit at h ⊢
  split at h
  · rename_i hc; rw [if_pos hc]
    cases hs : ft.size with
    | none => rw [hs] at h; cases h
    | some fsz =>
      rw [hs] at h; simp only [] at h ⊢
      cases h1 : readScalar cfg ft d off with
      | error e => rw [h1] at h; cases h
      | ok x =>
        obtain ⟨u, p⟩ := x
        rw [h1] at h
        have hp : p = r.2 := by
          simp only [] at h
          cases hu : unitInt cfg u with
          | none => rw [hu] at h; cases h
          | some i => rw [hu] at h; cases h; rfl
        rw [readScalar_take cfg ft d off u p q h1 (by omega)]
        exact h
  · rename_i hc; rw [if_neg hc]; exact h

theorem take_facts (e : Endian) (bb : BitBuf) (w : Nat) (v : Int) (bb2 : BitBuf) (h : bb.take e w = some (v, bb2)) :
    bb2.ty = bb.ty ∧ w ≤ bb.remaining ∧ bb2.remaining = bb.remaining - w := by
  unfold BitBuf.take at h
  split at h
  · cases h
  · rename_i hw
    cases e <;> (simp only [Option.some.injEq, Prod.mk.injEq] at h; obtain ⟨_, rfl⟩ := h; exact ⟨rfl, by omega, rfl⟩)

/-! ### `bitsNatural` of a member -/

theorem bitsNatural_nb {cfg : Cfg} {name an ty bits rest} (hb : isBitW bits = false)
    (h : Fields.bitsNatural cfg (.cons name an ty bits rest) = true) :
    ty.bitsNatural cfg = true ∧ Fields.bitsNatural cfg rest = true := by
  rcases bits with _ | _ | b
  · simpa only [Fields.bitsNatural, Bool.and_eq_true] using h
  · simpa only [Fields.bitsNatural, Bool.and_eq_true] using h
  · cases hb

theorem bitsNatural_bit {cfg : Cfg} {name an ty b rest}
    (h : Fields.bitsNatural cfg (.cons name an ty (some (b + 1)) rest) = true) : Fields.bitsNatural cfg rest = true := by
  simp only [Fields.bitsNatural, Bool.and_eq_true] at h
  exact h.2

end Cstruct.Core.Lemmas.WinBits
