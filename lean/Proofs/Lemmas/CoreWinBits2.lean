/-
  Helper lemmas for `Proofs/CoreWinBits.lean`, part 3 (towards the aligned-mode theorem that also covers storage scalars
  whose size is not their alignment, int24/int48): `alignTo` is monotone; WEAK position facts `PFw` — the end position
  of a successful read is at most start + static size (for int24/int48 bit-fields in aligned mode the reader consumes
  less than the declared size) — with the array lemmas of `CoreWin.lean` redone for them.
-/
import Proofs.Lemmas.CoreWinBits1
namespace Cstruct.Core.Lemmas.WinBits
open Cstruct Cstruct.Core
set_option linter.unusedSimpArgs false

/-! ### `alignTo` is monotone -/

theorem alignTo_le_of_dvd {a : Nat} (ha : IsP2 a) (x m : Nat) (hm : a ∣ m) (hx : x ≤ m) : alignTo true x a ≤ m := by
  have hpos := ha.pos
  simp only [alignTo, if_true]
  rw [padNat_p2_eq ha]
  by_cases h0 : x % a = 0
  · rw [h0, Nat.sub_zero, Nat.mod_self]; omega
  · obtain ⟨c, rfl⟩ := hm
    have hr : x % a < a := Nat.mod_lt _ hpos
    rw [Nat.mod_eq_of_lt (by omega)]
    have hlt : x < a * c := by
      rcases Nat.lt_or_ge x (a * c) with h | h
      · exact h
      · have : x = a * c := by omega
        rw [this, Nat.mul_mod_right] at h0
        exact absurd rfl h0
    have hq : x / a < c := Nat.div_lt_of_lt_mul hlt
    have h1 : a * (x / a + 1) ≤ a * c := Nat.mul_le_mul_left a hq
    have h2 := Nat.div_add_mod x a
    rw [Nat.mul_add, Nat.mul_one] at h1
    omega

theorem alignTo_mono {a : Nat} (ha : a = 0 ∨ IsP2 a) (al : Bool) (x y : Nat) (h : x ≤ y) : alignTo al x a ≤ alignTo al y a := by
  cases al with
  | false => exact h
  | true =>
    rcases ha with rfl | ha
    · simp only [alignTo, if_true, padNat_zero]; omega
    · exact alignTo_le_of_dvd ha x _ (alignTo_dvd ha y) (Nat.le_trans h (le_alignTo true y a))

/-! ### Weak position facts: the end position is AT MOST the start plus the static size -/

def PFw (cfg : Cfg) (al : Bool) (ty : Ty) (pos p : Nat) : Prop :=
  pos ≤ p ∧ (al = true → sAlign cfg ty ∣ p) ∧ ∀ k, ty.size cfg = some k → p ≤ pos + k

def PFNw (cfg : Cfg) (al : Bool) (e : Ty) (n pos p : Nat) : Prop :=
  pos ≤ p ∧ (al = true → sAlign cfg e ∣ p) ∧ ∀ k, e.size cfg = some k → p ≤ pos + n * k

def ElemPFw (cfg : Cfg) (al : Bool) (e : Ty) (d : Bytes) : Prop :=
  ∀ ctx pos v p, read cfg e ctx d pos = .ok (v, p) → (al = true → sAlign cfg e ∣ pos) → PFw cfg al e pos p

theorem pf_weak {cfg : Cfg} {al : Bool} {ty : Ty} {pos p : Nat} (h : PF cfg al ty pos p) : PFw cfg al ty pos p :=
  ⟨h.1, h.2.1, fun k hk => Nat.le_of_eq (h.2.2 k hk)⟩

theorem pfn_weak {cfg : Cfg} {al : Bool} {e : Ty} {n pos p : Nat} (h : PFN cfg al e n pos p) : PFNw cfg al e n pos p :=
  ⟨h.1, h.2.1, fun k hk => Nat.le_of_eq (h.2.2 k hk)⟩

theorem elemPF_weak {cfg : Cfg} {al : Bool} {e : Ty} {d : Bytes} (h : ElemPF cfg al e d) : ElemPFw cfg al e d :=
  fun ctx pos v p hr hpos => pf_weak (h ctx pos v p hr hpos)

theorem pfw_N (cfg : Cfg) (al : Bool) (e : Ty) (d : Bytes) (hE : ElemPFw cfg al e d) :
    ∀ (n : Nat) (ctx : Ctx) (pos : Nat) (vs : Vals) (p : Nat), readN cfg e n ctx d pos = .ok (vs, p) →
      (al = true → sAlign cfg e ∣ pos) → PFNw cfg al e n pos p := by
  intro n
  induction n with
  | zero =>
    intro ctx pos vs p h hpos
    rw [readN_zero] at h; cases h
    exact ⟨Nat.le_refl _, hpos, by intro k _; simp⟩
  | succ n ih =>
    intro ctx pos vs p h hpos
    rw [readN_succ] at h
    obtain ⟨⟨v, p1⟩, h1, h2⟩ := bind_ok h
    obtain ⟨⟨vs', p'⟩, h3, h4⟩ := bind_ok h2
    cases h4
    obtain ⟨a1, a2, a3⟩ := hE _ _ _ _ h1 hpos
    obtain ⟨b1, b2, b3⟩ := ih _ _ _ _ h3 a2
    refine ⟨by omega, b2, ?_⟩
    intro k hk
    have := b3 k hk
    have := a3 k hk
    rw [Nat.succ_mul]; omega

theorem pfw_array (cfg : Cfg) (al : Bool) (e : Ty) (d : Bytes) (hE : ElemPFw cfg al e d) :
    ∀ (n : Nat) (ctx : Ctx) (pos : Nat) (v : Val) (p : Nat), readArray cfg e n ctx d pos = .ok (v, p) →
      (al = true → sAlign cfg e ∣ pos) → PFNw cfg al e n pos p := by
  intro n ctx pos v p h hpos
  cases e with
  | sc s a => exact pfn_weak (pf_array cfg al (.sc s a) d (pf_sc cfg al s a d) n ctx pos v p h hpos)
  | enum b a f => exact pfn_weak (pf_array cfg al (.enum b a f) d (pf_enum cfg al b a f d) n ctx pos v p h hpos)
  | ptr t => exact pfn_weak (pf_array cfg al (.ptr t) d (pf_ptr cfg al t d) n ctx pos v p h hpos)
  | arr e' l =>
    rw [readArray.eq_3 _ _ _ _ _ _ (by intros; contradiction) (by intros; contradiction)] at h
    obtain ⟨⟨vs, q⟩, h1, h2⟩ := map_ok h
    cases h2
    exact pfw_N cfg al _ d hE n ctx pos vs _ h1 hpos
  | struct al' fs =>
    rw [readArray.eq_3 _ _ _ _ _ _ (by intros; contradiction) (by intros; contradiction)] at h
    obtain ⟨⟨vs, q⟩, h1, h2⟩ := map_ok h
    cases h2
    exact pfw_N cfg al _ d hE n ctx pos vs _ h1 hpos
  | union al' fs =>
    rw [readArray.eq_3 _ _ _ _ _ _ (by intros; contradiction) (by intros; contradiction)] at h
    obtain ⟨⟨vs, q⟩, h1, h2⟩ := map_ok h
    cases h2
    exact pfw_N cfg al _ d hE n ctx pos vs _ h1 hpos

theorem tw_N (cfg : Cfg) (al : Bool) (e : Ty) (d : Bytes) (hPF : ElemPFw cfg al e d) (hT : ElemT cfg al e d) :
    ∀ (n : Nat) (ctx : Ctx) (pos : Nat) (vs : Vals) (p : Nat), readN cfg e n ctx d pos = .ok (vs, p) →
      (al = true → sAlign cfg e ∣ pos) → ∀ q, p ≤ q → readN cfg e n ctx (d.take q) pos = .ok (vs, p) := by
  intro n
  induction n with
  | zero => intro ctx pos vs p h _ q _; rw [readN_zero] at h ⊢; exact h
  | succ n ih =>
    intro ctx pos vs p h hpos q hq
    rw [readN_succ] at h ⊢
    obtain ⟨⟨v, p1⟩, h1, h2⟩ := bind_ok h
    obtain ⟨⟨vs', p'⟩, h3, h4⟩ := bind_ok h2
    cases h4
    obtain ⟨_, a2, _⟩ := hPF _ _ _ _ h1 hpos
    obtain ⟨b1, _, _⟩ := pfw_N cfg al e d hPF n _ _ _ _ h3 a2
    rw [hT _ _ _ _ h1 hpos q (by omega)]
    simp only [Except.bind]
    rw [ih _ _ _ _ h3 a2 q hq]

theorem tw_array (cfg : Cfg) (al : Bool) (e : Ty) (d : Bytes) (hPF : ElemPFw cfg al e d) (hT : ElemT cfg al e d) :
    ∀ (n : Nat) (ctx : Ctx) (pos : Nat) (v : Val) (p : Nat), readArray cfg e n ctx d pos = .ok (v, p) →
      (al = true → sAlign cfg e ∣ pos) → ∀ q, p ≤ q → readArray cfg e n ctx (d.take q) pos = .ok (v, p) := by
  intro n ctx pos v p h hpos q hq
  cases e with
  | sc s a => exact t_array cfg al (.sc s a) d (pf_sc cfg al s a d) hT n ctx pos v p h hpos q hq
  | enum b a f => exact t_array cfg al (.enum b a f) d (pf_enum cfg al b a f d) hT n ctx pos v p h hpos q hq
  | ptr t => exact t_array cfg al (.ptr t) d (pf_ptr cfg al t d) hT n ctx pos v p h hpos q hq
  | arr e' l =>
    rw [readArray.eq_3 _ _ _ _ _ _ (by intros; contradiction) (by intros; contradiction)] at h ⊢
    obtain ⟨⟨vs, p'⟩, h1, h2⟩ := map_ok h
    cases h2
    rw [tw_N cfg al _ d hPF hT n ctx pos vs _ h1 hpos q hq]; rfl
  | struct al' fs =>
    rw [readArray.eq_3 _ _ _ _ _ _ (by intros; contradiction) (by intros; contradiction)] at h ⊢
    obtain ⟨⟨vs, p'⟩, h1, h2⟩ := map_ok h
    cases h2
    rw [tw_N cfg al _ d hPF hT n ctx pos vs _ h1 hpos q hq]; rfl
  | union al' fs =>
    rw [readArray.eq_3 _ _ _ _ _ _ (by intros; contradiction) (by intros; contradiction)] at h ⊢
    obtain ⟨⟨vs, p'⟩, h1, h2⟩ := map_ok h
    cases h2
    rw [tw_N cfg al _ d hPF hT n ctx pos vs _ h1 hpos q hq]; rfl

/-- where a member is read, given "the reader is not ahead of a static running offset" -/
theorem fieldPos_facts_w (cfg : Cfg) (al : Bool) (ty : Ty) (so : Option Nat) (start pos : Nat)
    (hinv : ∀ o, so = some o → pos ≤ start + o) (hfa : IsP2 (ty.alignment cfg))
    (hdv : al = true → ty.alignment cfg ∣ start) :
    pos ≤ fieldPos cfg al ty (offOf cfg al ty so) start pos ∧
    (al = true → ty.alignment cfg ∣ fieldPos cfg al ty (offOf cfg al ty so) start pos) ∧
    (∀ o, so = some o → fieldPos cfg al ty (offOf cfg al ty so) start pos = start + alignTo al o (ty.alignment cfg)) := by
  cases so with
  | none =>
    have e : fieldPos cfg al ty (offOf cfg al ty none) start pos = alignTo al pos (ty.alignment cfg) := by
      cases al <;> simp [fieldPos, offOf, alignTo]
    rw [e]
    refine ⟨le_alignTo _ _ _, ?_, by intro o ho; cases ho⟩
    intro ha; subst ha; exact alignTo_dvd hfa pos
  | some o =>
    have e : fieldPos cfg al ty (offOf cfg al ty (some o)) start pos = start + alignTo al o (ty.alignment cfg) := by
      simp [fieldPos, offOf]
    rw [e]
    have := hinv o rfl
    have := le_alignTo al o (ty.alignment cfg)
    refine ⟨by omega, ?_, by intro o' ho; cases ho; rfl⟩
    intro ha; subst ha; exact Nat.dvd_add (hdv rfl) (alignTo_dvd hfa o)

end Cstruct.Core.Lemmas.WinBits
