/-
  Helper lemmas for `Proofs/C03Compile.lean`, part 8: the validator on the statements of `align_to_field`, on a
  sub-read and on a bit read; what the first statement of the generated code can be.
-/
import Proofs.Lemmas.C03CompileLayout

namespace Cstruct.Compiler
open Cstruct Cstruct.Core.Lemmas

/-! ### the generated code never starts with `bit_reader.reset()` outside a bit run -/

def NoReset (p : Plan) : Prop := p.head? ≠ some .bitsReset

theorem NoReset.append {p q : Plan} (hp : NoReset p) (hq : NoReset q) : NoReset (p ++ q) := by
  cases p with
  | nil => exact hq
  | cons i p => exact hp

theorem NoReset.nil : NoReset [] := by simp [NoReset]

theorem NoReset.append_left {p : Plan} (q : Plan) (hp : NoReset p) (hne : p ≠ []) : NoReset (p ++ q) := by
  cases p with
  | nil => exact absurd rfl hne
  | cons i p => exact hp

theorem noReset_cons {i : Instr} (h : i ≠ .bitsReset) (p : Plan) : NoReset (i :: p) := by
  simp [NoReset, h]

theorem alignToField_noReset (cfg : Cfg) (al : Bool) (f : CField) (cur : Option Nat) :
    NoReset (alignToField cfg al f cur).1 := by
  unfold alignToField
  cases f.off with
  | none => cases al <;> simp [NoReset]
  | some o => simp only; split <;> simp [NoReset]

theorem flush_noReset (cfg : Cfg) (al : Bool) (st : GState) (fl : Plan) (h : flush cfg al st = .ok fl) : NoReset fl := by
  unfold flush at h
  split at h
  · cases h; exact NoReset.nil
  · split at h
    · cases h
    · rename_i blk hg
      obtain ⟨size, fmt, slots, rfl⟩ := genPacked_block cfg al _ _ hg
      cases h
      refine NoReset.append (NoReset.append ?_ ?_) (noReset_cons (by simp) _)
      · split
        · split <;> simp [NoReset]
        · exact NoReset.nil
      · split <;> simp [NoReset]

theorem advance_prevBits (st : GState) (isB : Bool) (size : Option Nat) (et : Ty) :
    (advance st isB size et).prevBits = st.prevBits := by
  unfold advance
  simp only
  split <;> split <;> (try split) <;> rfl

theorem blockState_prevBits (al : Bool) (st : GState) (f : CField) : (blockState al st f).prevBits = st.prevBits := by
  unfold blockState
  simp only
  split <;> split <;> rfl

theorem afterPre_of_not (st : GState) (isB : Bool) (h : st.prevBits = false) : afterPre st isB = st := by
  unfold afterPre; simp [h]

theorem preOf_of_not (st : GState) (isB : Bool) (h : st.prevBits = false) : preOf st isB = [] := by
  unfold preOf; simp [h]

theorem genFields_noReset (cfg : Cfg) (al : Bool) : ∀ (fs : Fields) (offs : List (Option Nat)) (gst : GState) (plan : Plan),
    genFields cfg al fs offs gst = .ok plan → gst.prevBits = false → NoReset plan
  | .nil, offs, gst, plan, h, _ => by
    rw [genFields] at h
    split at h
    · cases h
    · rename_i fl hfl
      cases h
      exact NoReset.append (flush_noReset cfg al gst fl hfl) (by cases al <;> simp [NoReset])
  | .cons name an ty bits rest, offs, gst, plan, h, hpb => by
    rw [genFields] at h
    simp only [preOf_of_not _ _ hpb, afterPre_of_not _ _ hpb, List.nil_append] at h
    split at h
    · cases h
    · split at h
      · cases h
      · split at h
        · split at h
          · cases h
          · rename_i fl hfl
            split at h
            · cases h
            · cases h
              exact NoReset.append_left _ (NoReset.append (NoReset.append (flush_noReset _ _ _ _ hfl)
                (alignToField_noReset _ _ _ _)) (noReset_cons (by simp) _)) (by simp)
        · split at h
          · split at h
            · cases h
            · split at h
              · cases h
              · rename_i fl hfl
                split at h
                · cases h
                · cases h
                  exact NoReset.append_left _ (NoReset.append (NoReset.append (flush_noReset _ _ _ _ hfl)
                    (alignToField_noReset _ _ _ _)) (noReset_cons (by simp) _)) (by simp)
          · split at h
            · cases h
            · rename_i fl hfl
              split at h
              · cases h
              · rename_i p hp
                cases h
                refine NoReset.append ?_ (genFields_noReset cfg al rest _ _ p hp ?_)
                · split at hfl
                  · exact flush_noReset _ _ _ _ hfl
                  · cases hfl; exact NoReset.nil
                · rw [advance_prevBits, blockState_prevBits, hpb]

/-! ### `align_to_field` -/

theorem isPow2b_of_IsP2 {a : Nat} (h : IsP2 a) : isPow2b a = true := by
  obtain ⟨k, rfl⟩ := h
  simp [isPow2b, Nat.log2_two_pow]

/-- the validator's state after the statements of `align_to_field` for a member with layout offset `o` -/
def afterAlign (al : Bool) (fa : Nat) (o : Option Nat) (st : VSt) : VSt :=
  match o with
  | some oo => { st with spos := some oo, lastAlign := none }
  | none =>
    if al = true ∧ fa ≠ 1 then { st with spos := none, lastAlign := some fa } else st

theorem posOK_afterAlign (al : Bool) (fa : Nat) (o : Option Nat) (st : VSt) (hla : st.lastAlign = none) :
    posOK al (afterAlign al fa o st) o fa = true := by
  unfold afterAlign posOK
  cases o with
  | some oo => simp
  | none =>
    cases al with
    | false => simp [hla]
    | true =>
      by_cases h1 : fa = 1
      · simp [h1, hla]
      · simp [h1]

theorem align_step (cfg : Cfg) (al : Bool) (salign : Nat) (name : String) (an : Bool) (ty : Ty) (bits : Option Nat)
    (rest : Fields) (o : Option Nat) (offs' : List (Option Nat)) (cur : Option Nat) (st : VSt) (p : Plan)
    (hnv : ¬ (isVoid ty = true ∧ bits.isNone = true)) (hla : st.lastAlign = none)
    (hcur : ∀ oo, o = some oo → cur = some oo → st.spos = some oo)
    (hal : al = true → ty.alignment cfg ∣ salign ∧ IsP2 (ty.alignment cfg)) :
    planOKAux cfg al salign ((alignToField cfg al ⟨name, ty, o⟩ cur).1 ++ p) (.cons name an ty bits rest) (o :: offs') st =
      planOKAux cfg al salign p (.cons name an ty bits rest) (o :: offs') (afterAlign al (ty.alignment cfg) o st) := by
  unfold alignToField afterAlign
  cases o with
  | some oo =>
    simp only
    by_cases hne : some oo ≠ cur
    · rw [if_pos hne]
      simp only [List.cons_append, List.nil_append]
      rw [planOKAux, dropVoids_nonvoid _ _ _ _ _ _ _ _ _ hnv]
      simp [nextStatic]
    · have hc : cur = some oo := by
        cases cur with
        | none => exact absurd (by simp) hne
        | some c =>
          simp only [ne_eq, Option.some.injEq, Decidable.not_not] at hne
          rw [hne]
      have hs := hcur oo rfl hc
      rw [if_neg hne, List.nil_append]
      congr 1
      obtain ⟨sp, la, un, di⟩ := st
      simp only at hs hla
      subst hs; subst hla
      rfl
  | none =>
    simp only
    cases hal' : al with
    | false => simp
    | true =>
      obtain ⟨hdvd, hp2⟩ := hal hal'
      simp only [if_true, true_and, List.cons_append, List.nil_append]
      rw [planOKAux, dropVoids_nonvoid _ _ _ _ _ _ _ _ _ hnv]
      have hpos := hp2.pos
      simp only
      rw [if_neg (by simp [hla, Nat.pos_iff_ne_zero.mp hpos])]
      by_cases h1 : ty.alignment cfg = 1
      · rw [if_pos h1, if_neg (by simp [h1])]
      · rw [if_neg h1, if_pos h1]
        simp only [Bool.not_true, Bool.false_eq_true, if_false]

/-! ### the sub-read and the bit read -/

/-- the static position after a sub-read: known only if the member has a layout offset and a static size and contains
    no structure -/
def subSpos (rs : Bool) (o sp z : Option Nat) : Option Nat :=
  match o, sp, z with
  | some _, some k, some z => if rs = true then none else some (k + z)
  | _, _, _ => none

theorem readsStruct_elementType : ∀ t : Ty, readsStruct t = isStructTy (elementType t)
  | .sc _ _ => rfl
  | .enum _ _ _ => rfl
  | .ptr _ => rfl
  | .struct _ _ => rfl
  | .union _ _ => rfl
  | .arr e _ => by rw [readsStruct, elementType]; exact readsStruct_elementType e

theorem readsStruct_eq (ty : Ty) : readsStruct ty = isStructTy (elementType (fieldType ty)) := by
  cases ty with
  | enum b a f => rfl
  | sc s a => rfl
  | ptr t => rfl
  | struct al fs => rfl
  | union al fs => rfl
  | arr e l => exact readsStruct_elementType _

theorem sub_instr (cfg : Cfg) (al : Bool) (salign : Nat) (name : String) (an : Bool) (ty : Ty) (rest : Fields)
    (o : Option Nat) (offs' : List (Option Nat)) (st : VSt) (p : Plan)
    (hnv : isVoid ty = false) (hd : st.dirty = false) (hpos : posOK al st o (ty.alignment cfg) = true) :
    planOKAux cfg al salign (.sub name :: p) (.cons name an ty none rest) (o :: offs') st =
      planOKAux cfg al salign p rest offs'
        { spos := subSpos (readsStruct ty) o st.spos (ty.size cfg), lastAlign := none, unit := none, dirty := false } := by
  rw [planOKAux, dropVoids_nonvoid _ _ _ _ _ _ _ _ _ (by simp [hnv])]
  simp only [hdOff, hd, hpos, beq_self_eq_true, Bool.not_false, Bool.and_self, Bool.true_and, List.drop_one,
    List.tail_cons]
  rfl

theorem bitsVia_of (cfg : Cfg) (al : Bool) (ty : Ty) (bits : Option Nat) (hwf : memberWF cfg al ty bits = true)
    (ft : Scalar) (hb : ty.bitBase = some ft) : bitsVia ty (bitsViaOf ty) = some ft := by
  cases ty with
  | sc s a =>
    simp only [Ty.bitBase, Option.some.injEq] at hb
    subst hb
    cases s <;> simp [bitsVia, bitsViaOf]
  | enum b a fl =>
    simp only [Ty.bitBase, Option.some.injEq] at hb
    subst hb
    simp only [memberWF, Bool.and_eq_true] at hwf
    have hi : isIntBase b = true := hwf.1.2
    cases b <;> simp [isIntBase] at hi <;> simp [bitsVia, bitsViaOf]
  | _ => simp [Ty.bitBase] at hb

/-- does the bit reader load a new unit for the storage scalar `ft`? -/
def unitNew (uA : Option (Scalar × Nat)) (ft : Scalar) : Bool :=
  match uA with
  | none => true
  | some (u, r) => r == 0 || u != ft

def unitRem (uA : Option (Scalar × Nat)) : Nat :=
  match uA with
  | some (_, r) => r
  | none => 0

def bitsSpos (sp : Option Nat) (nu : Bool) (fsz : Nat) : Option Nat :=
  match sp with
  | some k => some (if nu = true then k + fsz else k)
  | none => none

theorem bits_instr (cfg : Cfg) (al : Bool) (salign : Nat) (name : String) (an : Bool) (ty : Ty) (b : Nat) (rest : Fields)
    (o : Option Nat) (offs' : List (Option Nat)) (st : VSt) (p : Plan) (ft : Scalar) (fsz : Nat) (nu : Bool) (rem0 : Nat)
    (hvia : bitsVia ty (bitsViaOf ty) = some ft) (hbb : ty.bitBase = some ft) (hsz : ft.size = some fsz)
    (hpos : posOK al st o (ty.alignment cfg) = true)
    (hnu : unitNew st.unit ft = nu)
    (hrem : rem0 = if nu = true then fsz * 8 else unitRem st.unit)
    (hfit : b + 1 ≤ rem0) :
    planOKAux cfg al salign (.bits name (b + 1) (bitsViaOf ty) :: p) (.cons name an ty (some (b + 1)) rest) (o :: offs') st =
      planOKAux cfg al salign p rest offs'
        { spos := bitsSpos st.spos nu fsz, lastAlign := none, unit := some (ft, rem0 - (b + 1)), dirty := true } := by
  subst hnu
  subst hrem
  rw [planOKAux, dropVoids_nonvoid _ _ _ _ _ _ _ _ _ (by simp)]
  have h0 : (b + 1 != 0) = true := by simp
  cases hu : st.unit with
  | none =>
    simp only [hu, unitNew, unitRem, if_true] at hfit ⊢
    simp only [hvia, hbb, hsz, hdOff, beq_self_eq_true, Bool.true_and, hpos, List.drop_one, List.tail_cons,
      Bool.false_and, Bool.not_false, Bool.and_true, h0, decide_eq_true hfit]
    rfl
  | some ur =>
    obtain ⟨u, r⟩ := ur
    simp only [hu, unitNew, unitRem] at hfit ⊢
    simp only [hvia, hbb, hsz, hdOff, beq_self_eq_true, Bool.true_and, hpos, List.drop_one, List.tail_cons,
      Bool.false_and, Bool.not_false, Bool.and_true, h0, decide_eq_true hfit]
    rfl

end Cstruct.Compiler
