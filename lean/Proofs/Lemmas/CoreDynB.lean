/-
  Helper lemmas for `Proofs/CoreDyn.lean`, part 2: the member loop of the packed round trip for fragment D.
  The invariant is the one of `CoreBitsRT0/RT1` (writer position = reader position, = layout offset as long as there is
  one; a pending bit-field unit is related to the bytes flushed later by `URel`), with the typing relation and the
  reader's context threaded through the members: the reader is run in the very context `HasTysD` types the remaining
  members in (`ctx.set name v` after each member).
-/
import Proofs.Lemmas.CoreDynA
namespace Cstruct.Core.Lemmas
open Cstruct Cstruct.Core Cstruct.C06 Cstruct.C06.Lemmas
open Cstruct.C05.Lemmas (encBytes encBytes_length)
set_option linter.unusedSimpArgs false

/-! ### Statements -/

/-- round trip of one value of a type in a context, given that writing succeeded; the size fact feeds the layout invariant -/
def TyStmtD (cfg : Cfg) (ty : Ty) : Prop :=
  ty.fragD cfg = true → ty.uniformAlign false = true → ∀ ctx v, HasTyD cfg ctx v ty →
  ∀ pos bs, write cfg ty v pos = .ok bs →
    (∀ k, ty.size cfg = some k → bs.length = k) ∧
    ∀ (pre post : Bytes), pre.length = pos →
      read cfg ty ctx (pre ++ bs ++ post) pos = .ok (v, pos + bs.length)

/-- the member loop from a state without a pending unit -/
def IdleStmtD (cfg : Cfg) (fs : Fields) : Prop :=
  Fields.fragD cfg fs = true → Fields.uniformAlign false fs = true → ∀ ctx vs, HasTysD cfg ctx vs fs →
  ∀ st sz sa offs, Fields.layout cfg false fs st = .ok (sz, sa, offs) → LIdle st fs →
  ∀ start pos out bbF, writeFields cfg false fs offs vs start BitBuf.empty pos = .ok (out, bbF) →
    (∀ o, st.offset = some o → pos = start + o) →
    ∃ fl, flushBits cfg bbF = .ok fl ∧ (∀ o, sz = some o → pos + (out ++ fl).length = start + o) ∧
      ∀ (pre post : Bytes) (bbR : BitBuf), pre.length = pos → RIdle bbR fs →
        ∃ szs, readFields cfg false fs offs start bbR ctx (pre ++ (out ++ fl) ++ post) pos =
          .ok (vs, szs, pos + (out ++ fl).length)

/-- the member loop from a state with a pending unit (see `PendStmt`) -/
def PendStmtD (cfg : Cfg) (fs : Fields) : Prop :=
  Fields.fragD cfg fs = true → Fields.uniformAlign false fs = true → ∀ ctx vs, HasTysD cfg ctx vs fs →
  ∀ st sz sa offs, Fields.layout cfg false fs st = .ok (sz, sa, offs) →
  ∀ ft fsz k n bbW, Pend cfg st ft fsz k n bbW →
  ∀ start pos out bbF, writeFields cfg false fs offs vs start bbW pos = .ok (out, bbF) →
    (∀ o, st.offset = some o → pos + fsz = start + o) →
    ∃ fl F tail, flushBits cfg bbF = .ok fl ∧ out ++ fl = encBytes cfg.endian fsz F ++ tail ∧ F < 2 ^ (8 * fsz) ∧
      URel cfg.endian (8 * fsz) k n F ∧ (∀ o, sz = some o → pos + (out ++ fl).length = start + o) ∧
      ∀ (pre post : Bytes) (bbR : BitBuf) (U : Int), pre.length = pos → bbR.ty = some ft →
        ReadInv cfg.endian (8 * fsz) U k bbR → U % ((2 ^ (8 * fsz) : Nat) : Int) = (F : Int) →
        ∃ szs, readFields cfg false fs offs start bbR ctx (pre ++ (out ++ fl) ++ post) (pos + fsz) =
          .ok (vs, szs, pos + (out ++ fl).length)

theorem hasTysD_cons_vals {cfg : Cfg} {ctx : Ctx} {vs : Vals} {name an ty bits r}
    (h : HasTysD cfg ctx vs (.cons name an ty bits r)) : ∃ v vs', vs = .cons v vs' := by
  cases h <;> exact ⟨_, _, rfl⟩

/-- inversion of the typing of a bit-field member -/
theorem hasTysD_bits {cfg : Cfg} {ctx : Ctx} {val : Val} {vs : Vals} {name an ty b r}
    (h : HasTysD cfg ctx (.cons val vs) (.cons name an ty (some (b + 1)) r)) :
    ∃ i : Int, val = ty.bitVal i ∧ 0 ≤ i ∧ i < 2 ^ (b + 1) ∧ HasTysD cfg (ctx.set name (ty.bitVal i)) vs r := by
  cases h with
  | bitsInt h0 h1 h2 => exact ⟨_, rfl, h0, h1, h2⟩
  | bitsEnum h0 h1 h2 => exact ⟨_, rfl, h0, h1, h2⟩

/-! ### One bit-field: put, (flush,) the remaining members, and the matching take -/

theorem bit_step_D (cfg : Cfg) (rest : Fields) (IHi : IdleStmtD cfg rest) (IHp : PendStmtD cfg rest)
    (hS : Fields.fragD cfg rest = true) (hU : Fields.uniformAlign false rest = true) (ctx' : Ctx) (vs' : Vals)
    (hvs : HasTysD cfg ctx' vs' rest) (st1 : LState) (sz sa offs') (hlay : Fields.layout cfg false rest st1 = .ok (sz, sa, offs'))
    (ft : Scalar) (fsz k n w : Nat) (bb2 : BitBuf) (hi : Scalar.isInt ft = true) (hsz : ft.size = some fsz)
    (hbt : st1.bitsType = some ft) (hbr : st1.bitsRemaining = ((8 * fsz - (k + w) : Nat) : Int)) (hkw : k + w ≤ 8 * fsz)
    (hoff : st1.offset = st1.bitsFieldOffset.map (· + fsz)) (hty : bb2.ty = some ft)
    (hinv : WriteInv cfg.endian (8 * fsz) k n bb2) (hn : n < 2 ^ k) (i : Int) (hi0 : 0 ≤ i) (hi1 : i < 2 ^ w)
    (start pos : Nat) (out : Bytes) (bbF : BitBuf)
    (hw : putStep cfg rest offs' vs' start fsz i w bb2 pos = .ok (out, bbF))
    (hpos : ∀ o, st1.offset = some o → pos + fsz = start + o) :
    ∃ fl F tail, flushBits cfg bbF = .ok fl ∧ out ++ fl = encBytes cfg.endian fsz F ++ tail ∧ F < 2 ^ (8 * fsz) ∧
      URel cfg.endian (8 * fsz) k n F ∧ (∀ o, sz = some o → pos + (out ++ fl).length = start + o) ∧
      ∀ (pre post : Bytes) (bbR : BitBuf) (U : Int), pre.length = pos → bbR.ty = some ft →
        ReadInv cfg.endian (8 * fsz) U k bbR → U % ((2 ^ (8 * fsz) : Nat) : Int) = (F : Int) →
        ∃ bbR2, bbR.take cfg.endian w = some (i, bbR2) ∧
          ∃ szs, readFields cfg false rest offs' start bbR2 ctx' (pre ++ (out ++ fl) ++ post) (pos + fsz) =
            .ok (vs', szs, pos + (out ++ fl).length) := by
  obtain ⟨m, rfl⟩ := Int.eq_ofNat_of_zero_le hi0
  have hm : m < 2 ^ w := by exact_mod_cast hi1
  obtain ⟨bb3, hput, hinv3⟩ := put_step cfg.endian fsz k n w m bb2 hinv hn hm hkw
  have hn3 := acc_lt cfg.endian k n m w hn hm
  have hty3 : bb3.ty = some ft := by rw [put_ty hput, hty]
  simp only [putStep, hput] at hw
  -- the reader's step, once the final unit value is known
  have rd : ∀ (F : Nat), URel cfg.endian (8 * fsz) (k + w) (acc cfg.endian k n m w) F →
      URel cfg.endian (8 * fsz) k n F ∧
      ∀ (bbR : BitBuf) (U : Int), ReadInv cfg.endian (8 * fsz) U k bbR → U % ((2 ^ (8 * fsz) : Nat) : Int) = (F : Int) →
        ∃ bbR2, bbR.take cfg.endian w = some ((m : Int), bbR2) ∧ ReadInv cfg.endian (8 * fsz) U (k + w) bbR2 ∧
          bbR2.ty = bbR.ty := by
    intro F hrel
    obtain ⟨h1, h2⟩ := urel_step cfg.endian (8 * fsz) k n m w F hn hm hkw hrel
    refine ⟨h1, ?_⟩
    intro bbR U hR hUF
    obtain ⟨bbR2, ht, hR2, _, _⟩ := take_step cfg.endian (8 * fsz) k w U bbR hR hkw
    have hlo : slotLo cfg.endian (8 * fsz) k w + w ≤ 8 * fsz := by
      cases cfg.endian <;> simp only [slotLo] <;> omega
    rw [← slotVal_emod U (8 * fsz) _ w hlo, hUF, h2] at ht
    exact ⟨bbR2, ht, hR2, take_ty ht⟩
  by_cases hex : k + w = 8 * fsz
  · -- the unit is exhausted: it is flushed now
    have hrem3 : bb3.remaining = 0 := by rw [hinv3.1]; omega
    simp only [hrem3, if_true] at hw
    obtain ⟨F, hfl3, hF, hrel⟩ := flush_pend cfg ft fsz (k + w) _ bb3 hty3 hsz hinv3 hn3 (by omega)
    rw [hfl3] at hw
    simp only [Except.bind] at hw
    obtain ⟨⟨o, bbF'⟩, hwr, hout⟩ := bind_ok hw
    simp only [Except.ok.injEq, Prod.mk.injEq] at hout
    obtain ⟨rfl, rfl⟩ := hout
    have hl3 : (encBytes cfg.endian fsz F).length = fsz := encBytes_length _ _ _
    obtain ⟨fl, hfl, hsize, hread⟩ := IHi hS hU ctx' vs' hvs st1 sz sa offs' hlay
      (lidle_of_rem st1 (by rw [hbr]; omega) rest) start _ o bbF' hwr (by intro o' ho'; rw [hl3]; exact hpos o' ho')
    obtain ⟨hrel0, hrd⟩ := rd F hrel
    refine ⟨fl, F, o ++ fl, hfl, by simp only [List.append_assoc], hF, hrel0, ?_, ?_⟩
    · intro o' ho'
      have := hsize o' ho'
      simp only [List.length_append, hl3] at this ⊢; omega
    · intro pre post bbR U hp hRty hR hUF
      obtain ⟨bbR2, ht, hR2, _⟩ := hrd bbR U hR hUF
      refine ⟨bbR2, ht, ?_⟩
      have hri : RIdle bbR2 rest := ridle_of_rem bbR2 (by rw [hR2.2.1]; omega) rest
      obtain ⟨szs, hr⟩ := hread (pre ++ encBytes cfg.endian fsz F) post bbR2
        (by rw [List.length_append, hp, hl3]) hri
      refine ⟨szs, ?_⟩
      have e1 : pre ++ (encBytes cfg.endian fsz F ++ o ++ fl) ++ post =
          pre ++ encBytes cfg.endian fsz F ++ (o ++ fl) ++ post := by simp only [List.append_assoc]
      rw [hl3] at hr
      rw [e1, hr]
      simp only [List.length_append, hl3]
      congr 3; omega
  · -- the unit stays pending
    have hrem3 : bb3.remaining ≠ 0 := by rw [hinv3.1]; omega
    simp only [hrem3, if_false, Except.bind, List.length_nil, Nat.add_zero, List.nil_append] at hw
    obtain ⟨⟨o, bbF'⟩, hwr, hout⟩ := bind_ok hw
    simp only [Except.ok.injEq, Prod.mk.injEq] at hout
    obtain ⟨rfl, rfl⟩ := hout
    have hP : Pend cfg st1 ft fsz (k + w) (acc cfg.endian k n m w) bb3 :=
      ⟨hi, hsz, hbt, hbr, by omega, hoff, hty3, hinv3, hn3⟩
    obtain ⟨fl, F, tail, hfl, hdata, hF, hrel, hsize, hread⟩ := IHp hS hU ctx' vs' hvs st1 sz sa offs' hlay ft fsz _ _ bb3 hP
      start pos o bbF' hwr hpos
    obtain ⟨hrel0, hrd⟩ := rd F hrel
    refine ⟨fl, F, tail, hfl, hdata, hF, hrel0, hsize, ?_⟩
    intro pre post bbR U hp hRty hR hUF
    obtain ⟨bbR2, ht, hR2, hty2⟩ := hrd bbR U hR hUF
    refine ⟨bbR2, ht, ?_⟩
    exact hread pre post bbR2 U hp (by rw [hty2, hRty]) hR2 hUF


/-! ### The member loop, case by case -/

theorem idle_nil_D (cfg : Cfg) : IdleStmtD cfg .nil := by
  intro _ _ ctx vs hvs st sz sa offs hlay _ start pos out bbF hw hpos
  cases hvs
  rw [layout_nil_packed] at hlay
  rw [writeFields_nil] at hw
  simp only [Except.ok.injEq, Prod.mk.injEq] at hlay hw
  obtain ⟨rfl, rfl, rfl⟩ := hlay
  obtain ⟨rfl, rfl⟩ := hw
  refine ⟨[], rfl, ?_, ?_⟩
  · intro o ho; simpa using hpos o ho
  · intro pre post bbR _ _
    exact ⟨[], by rw [readFields_nil]; simp⟩

theorem pend_nil_D (cfg : Cfg) : PendStmtD cfg .nil := by
  intro _ _ ctx vs hvs st sz sa offs hlay ft fsz k n bbW hP start pos out bbF hw hpos
  cases hvs
  rw [layout_nil_packed] at hlay
  rw [writeFields_nil] at hw
  simp only [Except.ok.injEq, Prod.mk.injEq] at hlay hw
  obtain ⟨rfl, rfl, rfl⟩ := hlay
  obtain ⟨rfl, rfl⟩ := hw
  obtain ⟨F, hfl, hF, hrel⟩ := flush_pend cfg ft fsz k n bbW hP.wty hP.size hP.winv hP.nlt (by have := hP.lt; omega)
  have hl : (encBytes cfg.endian fsz F).length = fsz := encBytes_length _ _ _
  refine ⟨_, F, [], hfl, by simp, hF, hrel, ?_, ?_⟩
  · intro o ho; simp only [List.nil_append, hl]; exact hpos o ho
  · intro pre post bbR U _ _ _ _
    exact ⟨[], by rw [readFields_nil]; simp [hl]⟩

theorem idle_cons_nb_D (cfg : Cfg) (name an ty rest) (IHt : TyStmtD cfg ty) (IHi : IdleStmtD cfg rest) :
    IdleStmtD cfg (.cons name an ty none rest) := by
  intro hS hU ctx vs hvs st sz sa offs hlay _ start pos out bbF hw hpos
  simp only [Fields.fragD, Bool.and_eq_true] at hS
  simp only [Fields.uniformAlign, Bool.and_eq_true] at hU
  cases hvs with
  | @cons _ v vs' _ _ _ _ hv hvs' =>
  rw [layout_nb] at hlay
  obtain ⟨⟨sz', sa', offs'⟩, hlay', heq⟩ := bind_ok hlay
  simp only [Except.ok.injEq, Prod.mk.injEq] at heq
  obtain ⟨rfl, rfl, rfl⟩ := heq
  have hfo : ∀ fo, st.offset = some fo → start + fo = pos := fun fo h => (hpos fo h).symm
  rw [writeFields_nb_idle cfg name an ty rest st.offset offs' v vs' start pos hfo] at hw
  obtain ⟨body, hwb, hw2⟩ := bind_ok hw
  obtain ⟨⟨o, bbF'⟩, hwr, heq⟩ := bind_ok hw2
  simp only [Except.ok.injEq, Prod.mk.injEq] at heq
  obtain ⟨rfl, rfl⟩ := heq
  obtain ⟨hsize, hread⟩ := IHt hS.1 hU.1 ctx v hv pos body hwb
  have hpos' : ∀ o', (stNb cfg ty st).offset = some o' → pos + body.length = start + o' := by
    intro o' ho'
    simp only [stNb] at ho'
    cases hso : st.offset with
    | none => rw [hso] at ho'; cases ho'
    | some o0 =>
      rw [hso] at ho'
      cases hk : ty.size cfg with
      | none => rw [hk] at ho'; cases ho'
      | some k =>
        rw [hk] at ho'
        simp only [Option.some.injEq] at ho'
        rw [hsize k hk, hpos o0 hso]; omega
  obtain ⟨fl, hfl, hsz, hrd⟩ := IHi hS.2 hU.2 (ctx.set name v) vs' hvs' (stNb cfg ty st) sz' sa' offs' hlay'
    (lidle_of_rem _ rfl rest) start _ o bbF' hwr hpos'
  refine ⟨fl, hfl, ?_, ?_⟩
  · intro o' ho'
    have := hsz o' ho'
    simp only [List.length_append] at this ⊢; omega
  · intro pre post bbR hp _
    rw [readFields_cons_nobits _ _ _ _ _ _ _ _ _ _ _ _ _ rfl]
    simp only [List.head?, Option.join, Option.bind, id, List.drop_one, List.tail_cons]
    rw [fieldPos_packed cfg ty st.offset start pos hfo]
    have e1 : pre ++ (body ++ o ++ fl) ++ post = pre ++ body ++ ((o ++ fl) ++ post) := by simp only [List.append_assoc]
    have e2 : pre ++ (body ++ o ++ fl) ++ post = (pre ++ body) ++ (o ++ fl) ++ post := by simp only [List.append_assoc]
    have hr1 := hread pre ((o ++ fl) ++ post) hp
    rw [← e1] at hr1
    rw [hr1]
    simp only [Except.bind]
    obtain ⟨szs, hr2⟩ := hrd (pre ++ body) post BitBuf.empty
      (by rw [List.length_append, hp]) (ridle_of_rem _ rfl rest)
    rw [← e2] at hr2
    rw [hr2]
    simp only [List.length_append]
    exact ⟨_, by congr 3; omega⟩


theorem idle_cons_bit_D (cfg : Cfg) (name an ty b rest) (IHi : IdleStmtD cfg rest) (IHp : PendStmtD cfg rest) :
    IdleStmtD cfg (.cons name an ty (some (b + 1)) rest) := by
  intro hS hU ctx vs hvs st sz sa offs hlay hli start pos out bbF hw hpos
  simp only [Fields.fragD, Bool.and_eq_true] at hS
  simp only [Fields.uniformAlign, Bool.and_eq_true] at hU
  obtain ⟨v, vs', rfl⟩ := hasTysD_cons_vals hvs
  obtain ⟨i, rfl, hi0, hi1, hvs'⟩ := hasTysD_bits hvs
  obtain ⟨ft, fsz, hbase, hint, hsz⟩ := bitOk_base ty hS.1
  have hnew : st.bitsRemaining = 0 ∨ some ft ≠ st.bitsType := by
    rcases hli with h | h
    · exact Or.inl h
    · rw [hbase] at h; exact Or.inr h
  rw [layout_bit_new cfg name an ty b rest st ft fsz hbase hsz hnew] at hlay
  split at hlay
  · cases hlay
  rename_i hfit
  obtain ⟨⟨sz', sa', offs'⟩, hlay', heq⟩ := bind_ok hlay
  simp only [Except.ok.injEq, Prod.mk.injEq] at heq
  obtain ⟨rfl, rfl, rfl⟩ := heq
  have hfo : ∀ fo, st.offset = some fo → start + fo = pos := fun fo h => (hpos fo h).symm
  rw [writeFields_bit_idle cfg name an ty b rest st.offset offs' _ vs' start pos ft fsz i hfo hbase hsz
    (bitVal_cases ty i)] at hw
  have h8 : fsz * 8 = 8 * fsz := Nat.mul_comm _ _
  have hpos' : ∀ o, (stNew cfg ty ft fsz (b + 1) st).offset = some o → pos + fsz = start + o := by
    intro o ho
    simp only [stNew] at ho
    cases hso : st.offset with
    | none => rw [hso] at ho; cases ho
    | some o0 =>
      rw [hso] at ho
      simp only [Option.map, Option.some.injEq] at ho
      rw [hpos o0 hso]; omega
  obtain ⟨fl, F, tail, hfl, hdata, hF, _, hsize, hread⟩ := bit_step_D cfg rest IHi IHp hS.2 hU.2 (ctx.set name (ty.bitVal i)) vs' hvs'
    (stNew cfg ty ft fsz (b + 1) st) sz' sa' offs' hlay' ft fsz 0 0 (b + 1) _ hint hsz rfl
    (by simp only [stNew]; omega) (by omega) rfl rfl (by rw [h8]; exact writeInv_init _ _ _) (by simp) i hi0 hi1
    start pos out bbF hw hpos'
  refine ⟨fl, hfl, hsize, ?_⟩
  intro pre post bbR hp hri
  have hc : bbR.remaining = 0 ∨ bbR.ty ≠ some ft := by
    rcases hri with h | h
    · exact Or.inl h
    · rw [hbase] at h; exact Or.inr h
  have hd : pre ++ (out ++ fl) ++ post = pre ++ encBytes cfg.endian fsz F ++ (tail ++ post) := by
    rw [hdata]; simp only [List.append_assoc]
  obtain ⟨U, hload, hUF⟩ := loadUnit_new cfg ft hint fsz hsz F hF pre (tail ++ post) pos hp bbR hc
  rw [← hd] at hload
  obtain ⟨bbR2, htake, hrest⟩ := hread pre post { ty := some ft, buffer := U, remaining := fsz * 8 } U hp rfl
    (by rw [h8]; exact readInv_init _ _ _ _) hUF
  obtain ⟨szs, hr⟩ := hrest
  rw [readFields_cons_bits]
  simp only [hbase, List.head?, Option.join, Option.bind, id, List.drop_one, List.tail_cons]
  rw [fieldPos_packed cfg ty st.offset start pos hfo, hload]
  simp only [Except.bind, htake, bitVal_eq, hr]
  exact ⟨_, rfl⟩

theorem pend_cons_D (cfg : Cfg) (name an ty bits rest) (Hidle : IdleStmtD cfg (.cons name an ty bits rest))
    (IHi : IdleStmtD cfg rest) (IHp : PendStmtD cfg rest) : PendStmtD cfg (.cons name an ty bits rest) := by
  intro hS hU ctx vs hvs st sz sa offs hlay ft fsz k n bbW hP start pos out bbF hw hpos
  obtain ⟨v, vs', rfl⟩ := hasTysD_cons_vals hvs
  by_cases hsame : isBitW bits = true ∧ ty.bitBase = some ft
  · -- a bit-field of the pending unit's storage type: the unit continues
    obtain ⟨hb, hbase⟩ := hsame
    rcases bits with _ | _ | b
    · simp [isBitW] at hb
    · simp [isBitW] at hb
    simp only [Fields.fragD, Bool.and_eq_true] at hS
    simp only [Fields.uniformAlign, Bool.and_eq_true] at hU
    obtain ⟨i, rfl, hi0, hi1, hvs'⟩ := hasTysD_bits hvs
    have hrem : st.bitsRemaining ≠ 0 := by rw [hP.lrem]; have := hP.lt; omega
    rw [layout_bit_cont cfg name an ty b rest st ft fsz hbase hP.size hrem hP.lty hP.loff] at hlay
    split at hlay
    · cases hlay
    rename_i hfit
    obtain ⟨⟨sz', sa', offs'⟩, hlay', heq⟩ := bind_ok hlay
    simp only [Except.ok.injEq, Prod.mk.injEq] at heq
    obtain ⟨rfl, rfl, rfl⟩ := heq
    have hwrem : bbW.remaining ≠ 0 := by rw [hP.winv.1]; have := hP.lt; omega
    rw [writeFields_bit_cont cfg name an ty b rest none offs' _ vs' start pos ft fsz i bbW (fun fo h => by cases h) hbase
      hP.size (bitVal_cases ty i) hP.wty hwrem] at hw
    rw [hP.lrem] at hfit
    obtain ⟨fl, F, tail, hfl, hdata, hF, hrel, hsize, hread⟩ := bit_step_D cfg rest IHi IHp hS.2 hU.2 (ctx.set name (ty.bitVal i)) vs' hvs'
      (stCont cfg ty (b + 1) st) sz' sa' offs' hlay' ft fsz k n (b + 1) bbW hP.isInt hP.size hP.lty
      (by simp only [stCont, hP.lrem]; omega) (by omega) hP.loff hP.wty hP.winv hP.nlt i hi0 hi1
      start pos out bbF hw hpos
    refine ⟨fl, F, tail, hfl, hdata, hF, hrel, hsize, ?_⟩
    intro pre post bbR U hp hRty hR hUF
    obtain ⟨bbR2, htake, hrest⟩ := hread pre post bbR U hp hRty hR hUF
    obtain ⟨szs, hr⟩ := hrest
    have hc : ¬ (bbR.remaining = 0 ∨ bbR.ty ≠ some ft) := by
      have := hP.lt
      rw [hR.2.1, hRty]; simp; omega
    rw [readFields_cons_bits]
    simp only [hbase, List.head?, Option.join, Option.bind, id, List.drop_one, List.tail_cons, loadUnit, hc, if_false]
    rw [fieldPos_packed cfg ty none start (pos + fsz) (fun fo h => by cases h)]
    simp only [Except.bind, htake, bitVal_eq, hr]
    exact ⟨_, rfl⟩
  · -- anything else: the unit is flushed first
    have hne : isBitW bits = false ∨ ty.bitBase ≠ some ft := by
      by_cases h1 : isBitW bits = true
      · exact Or.inr (fun h2 => hsame ⟨h1, h2⟩)
      · exact Or.inl (by simpa using h1)
    rw [writeFields_flush cfg false name an ty bits rest offs v vs' start bbW pos ft hP.wty hne] at hw
    obtain ⟨F, hfl0, hF, hrel⟩ := flush_pend cfg ft fsz k n bbW hP.wty hP.size hP.winv hP.nlt (by have := hP.lt; omega)
    have hl0 : (encBytes cfg.endian fsz F).length = fsz := encBytes_length _ _ _
    rw [hfl0] at hw
    simp only [Except.bind] at hw
    obtain ⟨⟨o, bbF'⟩, hwr, heq⟩ := bind_ok hw
    simp only [Except.ok.injEq, Prod.mk.injEq] at heq
    obtain ⟨rfl, rfl⟩ := heq
    have hli : LIdle st (.cons name an ty bits rest) := by
      rcases bits with _ | _ | b
      · trivial
      · trivial
      · right
        rw [hP.lty]
        rcases hne with h | h
        · simp [isBitW] at h
        · exact h
    rw [hl0] at hwr
    obtain ⟨fl, hfl, hsize, hread⟩ := Hidle hS hU ctx _ hvs st sz sa offs hlay hli start (pos + fsz) o bbF' hwr hpos
    refine ⟨fl, F, o ++ fl, hfl, by simp only [List.append_assoc], hF, hrel, ?_, ?_⟩
    · intro o' ho'
      have := hsize o' ho'
      simp only [List.length_append, hl0] at this ⊢; omega
    · intro pre post bbR U hp hRty hR hUF
      have hri : RIdle bbR (.cons name an ty bits rest) := by
        rcases bits with _ | _ | b
        · trivial
        · trivial
        · right
          rw [hRty]
          rcases hne with h | h
          · simp [isBitW] at h
          · exact fun h' => h h'.symm
      obtain ⟨szs, hr⟩ := hread (pre ++ encBytes cfg.endian fsz F) post bbR
        (by rw [List.length_append, hp, hl0]) hri
      refine ⟨szs, ?_⟩
      have e1 : pre ++ (encBytes cfg.endian fsz F ++ o ++ fl) ++ post =
          pre ++ encBytes cfg.endian fsz F ++ (o ++ fl) ++ post := by simp only [List.append_assoc]
      rw [e1, hr]
      simp only [List.length_append, hl0]
      congr 3; omega


end Cstruct.Core.Lemmas
