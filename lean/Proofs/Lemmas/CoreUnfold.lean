/-
  Helper lemmas for `Proofs/Core.lean`, part 1: unfolding lemmas for the mutually recursive reader and writer
  (each function is unfolded exactly once, here), `Except` plumbing, and the extension theorem `read_extend`.
-/
import Proofs.Spec.Core
namespace Cstruct.Core.Lemmas
open Cstruct Cstruct.Core

/-! ### `Except` plumbing -/

theorem bind_ok {ε α β} {x : Except ε α} {f : α → Except ε β} {b : β} (h : x.bind f = .ok b) :
    ∃ a, x = .ok a ∧ f a = .ok b := by
  cases x with
  | error e => simp [Except.bind] at h
  | ok a => exact ⟨a, rfl, h⟩

theorem bind_ok_iff {ε α β} {x : Except ε α} {f : α → Except ε β} {b : β} :
    x.bind f = .ok b ↔ ∃ a, x = .ok a ∧ f a = .ok b := by
  constructor
  · exact bind_ok
  · rintro ⟨a, rfl, h⟩; exact h

theorem map_ok {ε α β} {x : Except ε α} {f : α → β} {b : β} (h : x.map f = .ok b) :
    ∃ a, x = .ok a ∧ f a = b := by
  cases x with
  | error e => simp [Except.map] at h
  | ok a => simp [Except.map] at h; exact ⟨a, rfl, h⟩

/-- close goals of the form `(match x with | .error e => .error e | .ok (a, b) => match y with …) = x.bind …` -/
macro "ex2" : tactic => `(tactic| (
  split
  · rename_i h; rw [h]; rfl
  · rename_i h; rw [h]; simp only [Except.bind]; split <;> rename_i h2 <;> rw [h2]))

/-! ### Unfolding the reader -/

theorem read_sc (cfg : Cfg) (s a ctx data pos) : read cfg (.sc s a) ctx data pos = readScalar cfg s data pos := by
  rw [read]

/-- wrap an integer result -/
def wrapInt (f : Int → Val) : Except Err (Val × Nat) → Except Err (Val × Nat)
  | .ok (.int v, p) => .ok (f v, p)
  | .ok _ => .error .typeErr
  | .error e => .error e

theorem read_enum (cfg : Cfg) (b a f ctx data pos) :
    read cfg (.enum b a f) ctx data pos = wrapInt .enum (readScalar cfg b data pos) := by
  rw [read]; rfl

theorem read_ptr (cfg : Cfg) (t ctx data pos) :
    read cfg (.ptr t) ctx data pos = wrapInt .ptr (readScalar cfg cfg.ptr data pos) := by
  rw [read]; rfl

theorem read_arr_fixed (cfg : Cfg) (e n ctx data pos) :
    read cfg (.arr e (.fixed n)) ctx data pos = readArray cfg e n ctx data pos := by
  rw [read]

theorem read_arr_null (cfg : Cfg) (e ctx data pos) :
    read cfg (.arr e .nullTerm) ctx data pos = read0 cfg e ctx data pos := by
  rw [read]

theorem read_arr_expr (cfg : Cfg) (e toks ctx data pos) :
    read cfg (.arr e (.expr toks)) ctx data pos =
      (evalLen cfg toks ctx).bind fun n => readArray cfg e n ctx data pos := by
  rw [read]; cases evalLen cfg toks ctx <;> rfl

theorem read_struct (cfg : Cfg) (al fs ctx data pos) :
    read cfg (.struct al fs) ctx data pos =
      (structLayout cfg al fs).bind fun (_, salign, offs) =>
        (readFields cfg al fs offs pos BitBuf.empty [] data pos).bind fun (vs, _, p) =>
          .ok (.record vs, if al then p + padNat p salign else p) := by
  rw [read]
  cases structLayout cfg al fs with
  | error e => rfl
  | ok r =>
    obtain ⟨a, b, c⟩ := r
    simp only [Except.bind]
    cases readFields cfg al fs c pos BitBuf.empty [] data pos with
    | error e => rfl
    | ok r => rfl

theorem readN_zero (cfg : Cfg) (t ctx data pos) : readN cfg t 0 ctx data pos = .ok (.nil, pos) := by
  rw [readN]

theorem readN_succ (cfg : Cfg) (t n ctx data pos) :
    readN cfg t (n + 1) ctx data pos =
      (read cfg t ctx data pos).bind fun (v, p) =>
        (readN cfg t n ctx data p).bind fun (vs, p') => .ok (.cons v vs, p') := by
  rw [readN]; ex2

theorem readFields_nil (cfg : Cfg) (al offs start bb ctx data pos) :
    readFields cfg al .nil offs start bb ctx data pos = .ok (.nil, [], pos) := by
  rw [readFields]

/-- the position at which a field is read: seek to the layout offset if there is one, else pad in aligned mode -/
def fieldPos (cfg : Cfg) (al : Bool) (ty : Ty) (foff : Option Nat) (start pos : Nat) : Nat :=
  let offset1 := match foff with | some fo => start + fo | none => pos
  if al ∧ foff.isNone then offset1 + padNat offset1 (ty.alignment cfg) else offset1

/-- a proper bit-field width -/
def isBitW : Option Nat → Bool | some (_ + 1) => true | _ => false

theorem readFields_cons_nobits (cfg : Cfg) (al name an ty bits rest offs start bb ctx data pos)
    (hb : isBitW bits = false) :
    readFields cfg al (.cons name an ty bits rest) offs start bb ctx data pos =
      (read cfg ty ctx data (fieldPos cfg al ty offs.head?.join start pos)).bind fun (v, p1) =>
        (readFields cfg al rest (offs.drop 1) start BitBuf.empty (ctx.set name v) data p1).bind fun (vs, szs, p') =>
          .ok (.cons v vs, (name, p1 - fieldPos cfg al ty offs.head?.join start pos) :: szs, p') := by
  rw [readFields.eq_def]
  cases bits with
  | none =>
    cases offs with
    | nil => simp [fieldPos]; ex2
    | cons o t => cases o <;> simp [fieldPos] <;> ex2
  | some b =>
    cases b with
    | zero =>
      cases offs with
      | nil => simp [fieldPos]; ex2
      | cons o t => cases o <;> simp [fieldPos] <;> ex2
    | succ b => simp [isBitW] at hb

/-- `BitBuffer.read`'s "load a new unit when exhausted or the storage type changes" -/
def loadUnit (cfg : Cfg) (ft : Scalar) (bb : BitBuf) (data : Bytes) (off : Nat) : Except Err (BitBuf × Nat) :=
  if bb.remaining = 0 ∨ bb.ty ≠ some ft then
    match ft.size with
    | none => .error .value
    | some fsz =>
      match readScalar cfg ft data off with
      | .error e => .error e
      | .ok (u, p) =>
        match unitInt cfg u with
        | some i => .ok ({ ty := some ft, buffer := i, remaining := fsz * 8 }, p)
        | none => .error .typeErr
  else .ok (bb, off)

def bitVal (ty : Ty) (v : Int) : Val := match ty with | .enum _ _ _ => .enum v | _ => .int v

set_option hygiene false in
macro "bits_tac" : tactic => `(tactic| (
    rcases offs with _ | ⟨_ | o, t⟩ <;>
    · simp only [List.head?, Option.join, Option.bind, fieldPos, loadUnit, id]
      by_cases hc : bb.remaining = 0 ∨ bb.ty ≠ some s
      · simp only [hc, if_true]
        cases s.size with
        | none => rfl
        | some fsz =>
          simp only []
          generalize hl : readScalar _ _ _ _ = r
          generalize hr : readScalar _ _ _ _ = r2
          have : r2 = r := by rw [← hl, ← hr]; congr
          subst this
          cases r2 with
          | error e => rfl
          | ok r =>
            obtain ⟨u, p⟩ := r
            simp only []
            cases unitInt cfg u with
            | none => rfl
            | some i =>
              simp only [Except.bind]
              generalize BitBuf.take _ _ _ = r
              cases r with
              | none => rfl
              | some r =>
                obtain ⟨v, bb2⟩ := r
                simp only []
                generalize readFields _ _ _ _ _ bb2 _ _ _ = r
                cases r <;> rfl
      · simp only [hc, if_false, Except.bind]
        generalize BitBuf.take _ _ _ = r
        cases r with
        | none => rfl
        | some r =>
          obtain ⟨v, bb2⟩ := r
          simp only []
          generalize hl : readFields _ _ _ _ _ bb2 _ _ _ = r
          generalize hr : readFields _ _ _ _ _ bb2 _ _ _ = r2
          have : r2 = r := by rw [← hl, ← hr]; congr
          subst this
          cases r2 <;> rfl))

theorem readFields_cons_bits (cfg : Cfg) (al name an ty b rest offs start bb ctx data pos) :
    readFields cfg al (.cons name an ty (some (b + 1)) rest) offs start bb ctx data pos =
      match ty.bitBase with
      | none => .error .typeErr
      | some ft =>
        (loadUnit cfg ft bb data (fieldPos cfg al ty offs.head?.join start pos)).bind fun (bb1, p1) =>
          match bb1.take cfg.endian (b + 1) with
          | none => .error .value
          | some (v, bb2) =>
            (readFields cfg al rest (offs.drop 1) start bb2 (ctx.set name (bitVal ty v)) data p1).bind
              fun (vs, szs, p') => .ok (.cons (bitVal ty v) vs, szs, p') := by
  rw [readFields.eq_def]
  cases ty with
  | ptr _ => rfl
  | arr _ _ => rfl
  | struct _ _ => rfl
  | union _ _ => rfl
  | sc s a => simp only [Ty.bitBase, bitVal]; bits_tac
  | enum s a f => simp only [Ty.bitBase, bitVal]; bits_tac

/-! ### Extension of the input: primitives -/

theorem sread_append (d t : Bytes) (pos n : Nat) (h : (sread d pos n).length = n) :
    sread (d ++ t) pos n = sread d pos n := by
  unfold sread at *
  by_cases hp : pos ≤ d.length
  · rw [List.drop_append_of_le_length hp]
    have hn : n ≤ (d.drop pos).length := by
      rw [List.length_take] at h; omega
    rw [List.take_append_of_le_length hn]
  · have hd : d.drop pos = [] := List.drop_eq_nil_of_le (by omega)
    rw [hd] at h ⊢
    simp at h
    subst h
    simp

theorem readExact_ok {d : Bytes} {pos n : Nat} {r} (h : readExact d pos n = .ok r) :
    (sread d pos n).length = n ∧ r = (sread d pos n, pos + n) := by
  unfold readExact at h
  simp only [] at h
  split at h
  · cases h
  · rename_i hl
    simp only [ne_eq, Decidable.not_not] at hl
    cases h; exact ⟨hl, rfl⟩

theorem readExact_of_len {d : Bytes} {pos n : Nat} (h : (sread d pos n).length = n) :
    readExact d pos n = .ok (sread d pos n, pos + n) := by
  unfold readExact
  simp [h]

theorem readExact_append {d : Bytes} {pos n : Nat} {r} (t : Bytes) (h : readExact d pos n = .ok r) :
    readExact (d ++ t) pos n = .ok r := by
  obtain ⟨hl, rfl⟩ := readExact_ok h
  have := sread_append d t pos n hl
  rw [← this] at hl ⊢
  exact readExact_of_len hl

theorem lebReadLoop_append (a t : Bytes) : ∀ (res sh : Nat) r, lebReadLoop a res sh = some r →
    lebReadLoop (a ++ t) res sh = some (r.1, r.2.1, r.2.2.1, r.2.2.2 ++ t) := by
  induction a with
  | nil => intro res sh r h; simp [lebReadLoop] at h
  | cons b a ih =>
    intro res sh r h
    simp only [List.cons_append, lebReadLoop] at h ⊢
    split at h
    · rename_i hc; simp only [hc, if_true]; cases h; rfl
    · rename_i hc; simp only [hc, if_false]; exact ih _ _ _ h

theorem lebReadLoop_length (a : Bytes) : ∀ (res sh : Nat) r, lebReadLoop a res sh = some r →
    r.2.2.2.length < a.length := by
  induction a with
  | nil => intro res sh r h; simp [lebReadLoop] at h
  | cons b a ih =>
    intro res sh r h
    simp only [lebReadLoop] at h
    split at h
    · cases h; simp
    · have := ih _ _ _ h; simp; omega

theorem lebRead_append (sg : Bool) (a t : Bytes) (v rest) (h : lebRead sg a = .ok (v, rest)) :
    lebRead sg (a ++ t) = .ok (v, rest ++ t) ∧ rest.length < a.length := by
  unfold lebRead at h ⊢
  cases hl : lebReadLoop a 0 0 with
  | none => rw [hl] at h; cases h
  | some r =>
    obtain ⟨res, sh, b, r'⟩ := r
    have hlen := lebReadLoop_length a 0 0 _ hl
    rw [lebReadLoop_append a t 0 0 _ hl]
    rw [hl] at h
    simp only [] at h ⊢
    split at h
    · rename_i hc; rw [if_pos hc]; cases h; exact ⟨rfl, hlen⟩
    · rename_i hc; rw [if_neg hc]; cases h; exact ⟨rfl, hlen⟩

theorem readScalar_append (cfg : Cfg) (s : Scalar) (d t : Bytes) (pos : Nat) (r) (h : readScalar cfg s d pos = .ok r) :
    readScalar cfg s (d ++ t) pos = .ok r := by
  cases s with
  | pint n sg =>
    simp only [readScalar, bind, pure] at h ⊢
    obtain ⟨⟨bs, p⟩, h1, h2⟩ := bind_ok h
    rw [readExact_append t h1]; exact h2
  | pflt n =>
    simp only [readScalar, bind, pure] at h ⊢
    obtain ⟨⟨bs, p⟩, h1, h2⟩ := bind_ok h
    rw [readExact_append t h1]; exact h2
  | aint n sg =>
    simp only [readScalar, bind, pure] at h ⊢
    obtain ⟨⟨bs, p⟩, h1, h2⟩ := bind_ok h
    rw [readExact_append t h1]; exact h2
  | char =>
    simp only [readScalar, bind, pure] at h ⊢
    obtain ⟨⟨bs, p⟩, h1, h2⟩ := bind_ok h
    rw [readExact_append t h1]; exact h2
  | wchar =>
    simp only [readScalar, bind, pure] at h ⊢
    obtain ⟨⟨bs, p⟩, h1, h2⟩ := bind_ok h
    rw [readExact_append t h1]; exact h2
  | void => exact h
  | leb sg =>
    simp only [readScalar] at h ⊢
    cases hl : lebRead sg (d.drop pos) with
    | error e => rw [hl] at h; cases h
    | ok vr =>
      obtain ⟨v, rest⟩ := vr
      rw [hl] at h
      simp only [] at h
      have hp : pos ≤ d.length := by
        apply Decidable.byContradiction
        intro hn
        have hd : d.drop pos = [] := List.drop_eq_nil_of_le (by omega)
        rw [hd] at hl
        simp [lebRead, lebReadLoop] at hl
      rw [List.drop_append_of_le_length hp]
      obtain ⟨h1, h2⟩ := lebRead_append sg _ t v rest hl
      rw [h1]
      simp only []
      cases h
      simp only [List.length_append, List.length_drop] at h2 ⊢
      congr 2
      omega

theorem ite_ok_congr {α : Type} {c : Prop} [Decidable c] {A B1 B2 r : α} (hB : B1 = r → B2 = r)
    (h : (if c then A else B1) = r) : (if c then A else B2) = r := by
  by_cases hc : c
  · rw [if_pos hc] at h ⊢; exact h
  · rw [if_neg hc] at h ⊢; exact hB h

theorem readScalarArray_append (cfg : Cfg) (s : Scalar) (n : Nat) (d t : Bytes) (pos : Nat) (x r)
    (hx : readScalarArray cfg s n d pos = some x) (h : x = .ok r) :
    readScalarArray cfg s n (d ++ t) pos = some (.ok r) := by
  subst h
  cases s with
  | pint k sg =>
    simp only [readScalarArray, bind, pure, Option.some.injEq] at hx ⊢
    obtain ⟨⟨bs, p⟩, h1, h2⟩ := bind_ok hx
    rw [readExact_append t h1]; exact h2
  | pflt k =>
    simp only [readScalarArray, bind, pure, Option.some.injEq] at hx ⊢
    obtain ⟨⟨bs, p⟩, h1, h2⟩ := bind_ok hx
    rw [readExact_append t h1]; exact h2
  | char =>
    simp only [readScalarArray, bind, pure, Option.some.injEq] at hx ⊢
    split at hx
    · rename_i hc; rw [if_pos hc]; exact hx
    · rename_i hc; rw [if_neg hc]
      obtain ⟨⟨bs, p⟩, h1, h2⟩ := bind_ok hx
      rw [readExact_append t h1]; exact h2
  | wchar =>
    simp only [readScalarArray, bind, pure, Option.some.injEq] at hx ⊢
    split at hx
    · rename_i hc; rw [if_pos hc]; exact hx
    · rename_i hc; rw [if_neg hc]
      obtain ⟨⟨bs, p⟩, h1, h2⟩ := bind_ok hx
      rw [readExact_append t h1]; exact h2
  | aint k sg => simp [readScalarArray] at hx
  | leb sg => simp [readScalarArray] at hx
  | void => simp [readScalarArray] at hx

theorem readScalarArray_none_append (cfg : Cfg) (s : Scalar) (n : Nat) (d d' : Bytes) (pos : Nat)
    (hx : readScalarArray cfg s n d pos = none) : readScalarArray cfg s n d' pos = none := by
  cases s <;> simp [readScalarArray] at hx ⊢

theorem readScalar0_append (cfg : Cfg) (s : Scalar) (d t : Bytes) :
    ∀ (f f' pos : Nat) (acc r), f ≤ f' → readScalar0 cfg s d f pos acc = .ok r →
      readScalar0 cfg s (d ++ t) f' pos acc = .ok r := by
  intro f
  induction f with
  | zero => intro f' pos acc r _ h; simp [readScalar0] at h
  | succ f ih =>
    intro f' pos acc r hf h
    obtain ⟨f'', rfl⟩ : ∃ f'', f' = f'' + 1 := ⟨f' - 1, by omega⟩
    have hf' : f ≤ f'' := by omega
    cases s with
    | void => simp only [readScalar0] at h ⊢; exact h
    | char =>
      simp only [readScalar0] at h ⊢
      cases h1 : readExact d pos 1 with
      | error e => rw [h1] at h; cases h
      | ok bp =>
        obtain ⟨bs, p⟩ := bp
        rw [h1] at h; rw [readExact_append t h1]
        exact ite_ok_congr (ih _ _ _ _ hf') h
    | wchar =>
      simp only [readScalar0] at h ⊢
      cases h1 : readExact d pos 2 with
      | error e => rw [h1] at h; cases h
      | ok bp =>
        obtain ⟨bs, p⟩ := bp
        rw [h1] at h; rw [readExact_append t h1]
        exact ite_ok_congr (ih _ _ _ _ hf') h
    | pint k sg =>
      simp only [readScalar0] at h ⊢
      cases h1 : readScalar cfg (.pint k sg) d pos with
      | error e => rw [h1] at h; cases h
      | ok bp =>
        obtain ⟨v, p⟩ := bp
        rw [h1] at h; rw [readScalar_append cfg _ d t pos _ h1]
        exact ite_ok_congr (ih _ _ _ _ hf') h
    | pflt k =>
      simp only [readScalar0] at h ⊢
      cases h1 : readScalar cfg (.pflt k) d pos with
      | error e => rw [h1] at h; cases h
      | ok bp =>
        obtain ⟨v, p⟩ := bp
        rw [h1] at h; rw [readScalar_append cfg _ d t pos _ h1]
        exact ite_ok_congr (ih _ _ _ _ hf') h
    | aint k sg =>
      simp only [readScalar0] at h ⊢
      cases h1 : readScalar cfg (.aint k sg) d pos with
      | error e => rw [h1] at h; cases h
      | ok bp =>
        obtain ⟨v, p⟩ := bp
        rw [h1] at h; rw [readScalar_append cfg _ d t pos _ h1]
        exact ite_ok_congr (ih _ _ _ _ hf') h
    | leb sg =>
      simp only [readScalar0] at h ⊢
      cases h1 : readScalar cfg (.leb sg) d pos with
      | error e => rw [h1] at h; cases h
      | ok bp =>
        obtain ⟨v, p⟩ := bp
        rw [h1] at h; rw [readScalar_append cfg _ d t pos _ h1]
        exact ite_ok_congr (ih _ _ _ _ hf') h

theorem readScalarNullTerm_append (cfg : Cfg) (s : Scalar) (d t : Bytes) (pos : Nat) (r)
    (h : readScalarNullTerm cfg s d pos = .ok r) : readScalarNullTerm cfg s (d ++ t) pos = .ok r := by
  unfold readScalarNullTerm at h ⊢
  cases h1 : readScalar0 cfg s d (d.length - pos + 2) pos [] with
  | error e => rw [h1] at h; cases h
  | ok vp =>
    rw [h1] at h
    rw [readScalar0_append cfg s d t _ ((d ++ t).length - pos + 2) pos [] vp (by simp; omega) h1]
    exact h


/-! ### Extension of the input: the recursive readers -/

/-- "a successful read of `e` on `d1` is the same on `d2`" -/
def ReadLe (cfg : Cfg) (e : Ty) (d1 d2 : Bytes) : Prop :=
  ∀ ctx pos r, read cfg e ctx d1 pos = .ok r → read cfg e ctx d2 pos = .ok r

theorem readLe_sc (cfg : Cfg) (s a) (d t : Bytes) : ReadLe cfg (.sc s a) d (d ++ t) := by
  intro ctx pos r h
  rw [read_sc] at h ⊢
  exact readScalar_append cfg s d t pos r h

theorem wrapInt_ok {f : Int → Val} {x : Except Err (Val × Nat)} {r} (h : wrapInt f x = .ok r) :
    ∃ v p, x = .ok (.int v, p) ∧ r = (f v, p) := by
  unfold wrapInt at h
  split at h
  · cases h; exact ⟨_, _, rfl, rfl⟩
  · cases h
  · cases h

theorem readLe_enum (cfg : Cfg) (b a f) (d t : Bytes) : ReadLe cfg (.enum b a f) d (d ++ t) := by
  intro ctx pos r h
  rw [read_enum] at h ⊢
  obtain ⟨v, p, h1, rfl⟩ := wrapInt_ok h
  rw [readScalar_append cfg b d t pos _ h1]; rfl

theorem readLe_ptr (cfg : Cfg) (ty) (d t : Bytes) : ReadLe cfg (.ptr ty) d (d ++ t) := by
  intro ctx pos r h
  rw [read_ptr] at h ⊢
  obtain ⟨v, p, h1, rfl⟩ := wrapInt_ok h
  rw [readScalar_append cfg _ d t pos _ h1]; rfl

theorem readN_le (cfg : Cfg) (e : Ty) (d1 d2 : Bytes) (hR : ReadLe cfg e d1 d2) :
    ∀ n ctx pos r, readN cfg e n ctx d1 pos = .ok r → readN cfg e n ctx d2 pos = .ok r := by
  intro n
  induction n with
  | zero => intro ctx pos r h; rw [readN_zero] at h ⊢; exact h
  | succ n ih =>
    intro ctx pos r h
    rw [readN_succ] at h ⊢
    obtain ⟨⟨v, p⟩, h1, h2⟩ := bind_ok h
    obtain ⟨⟨vs, p'⟩, h3, h4⟩ := bind_ok h2
    rw [hR _ _ _ h1]
    simp only [Except.bind]
    rw [ih _ _ _ h3]
    exact h4

theorem readArray_le (cfg : Cfg) (e : Ty) (d t : Bytes) (hR : ReadLe cfg e d (d ++ t)) :
    ∀ n ctx pos r, readArray cfg e n ctx d pos = .ok r → readArray cfg e n ctx (d ++ t) pos = .ok r := by
  intro n ctx pos r h
  cases e with
  | sc s a =>
    rw [readArray.eq_1] at h ⊢
    cases hx : readScalarArray cfg s n d pos with
    | some x =>
      rw [hx] at h; simp only [] at h
      rw [readScalarArray_append cfg s n d t pos x r hx h]
    | none =>
      rw [hx] at h; simp only [] at h
      rw [readScalarArray_none_append cfg s n d (d ++ t) pos hx]
      simp only []
      obtain ⟨⟨vs, p⟩, h1, h2⟩ := map_ok h
      rw [readN_le cfg _ d (d ++ t) hR _ _ _ _ h1]
      simp only [Except.map]; rw [← h2]
  | enum b a f =>
    rw [readArray.eq_2] at h ⊢
    cases hx : readScalarArray cfg b n d pos with
    | some x =>
      rw [hx] at h
      cases x with
      | error e => simp only [] at h; cases h
      | ok x =>
        rw [readScalarArray_append cfg b n d t pos _ x hx rfl]
        obtain ⟨xv, xp⟩ := x
        cases xv <;> exact h
    | none =>
      rw [hx] at h; simp only [] at h
      rw [readScalarArray_none_append cfg b n d (d ++ t) pos hx]
      simp only []
      cases h1 : readN cfg (.sc b a) n ctx d pos with
      | error e => rw [h1] at h; cases h
      | ok x =>
        rw [h1] at h
        rw [readN_le cfg _ d (d ++ t) (readLe_sc cfg b a d t) _ _ _ _ h1]
        exact h
  | ptr ty =>
    rw [readArray.eq_3 _ _ _ _ _ _ (by intros; contradiction) (by intros; contradiction)] at h ⊢
    obtain ⟨⟨vs, p⟩, h1, h2⟩ := map_ok h
    rw [readN_le cfg _ d (d ++ t) hR _ _ _ _ h1]
    simp only [Except.map]; rw [← h2]
  | arr e' len =>
    rw [readArray.eq_3 _ _ _ _ _ _ (by intros; contradiction) (by intros; contradiction)] at h ⊢
    obtain ⟨⟨vs, p⟩, h1, h2⟩ := map_ok h
    rw [readN_le cfg _ d (d ++ t) hR _ _ _ _ h1]
    simp only [Except.map]; rw [← h2]
  | struct al fs =>
    rw [readArray.eq_3 _ _ _ _ _ _ (by intros; contradiction) (by intros; contradiction)] at h ⊢
    obtain ⟨⟨vs, p⟩, h1, h2⟩ := map_ok h
    rw [readN_le cfg _ d (d ++ t) hR _ _ _ _ h1]
    simp only [Except.map]; rw [← h2]
  | union al fs =>
    rw [readArray.eq_3 _ _ _ _ _ _ (by intros; contradiction) (by intros; contradiction)] at h ⊢
    obtain ⟨⟨vs, p⟩, h1, h2⟩ := map_ok h
    rw [readN_le cfg _ d (d ++ t) hR _ _ _ _ h1]
    simp only [Except.map]; rw [← h2]

theorem read0_le (cfg : Cfg) (e : Ty) (d t : Bytes)
    (hp : (Ty.arr e .nullTerm).plain = true) :
    ∀ ctx pos r, read0 cfg e ctx d pos = .ok r → read0 cfg e ctx (d ++ t) pos = .ok r := by
  intro ctx pos r h
  cases e with
  | sc s a =>
    rw [read0.eq_1] at h ⊢
    exact readScalarNullTerm_append cfg s d t pos r h
  | enum b a f =>
    rw [read0.eq_2] at h ⊢
    cases h1 : readScalarNullTerm cfg b d pos with
    | error e => rw [h1] at h; cases h
    | ok x =>
      rw [h1] at h
      rw [readScalarNullTerm_append cfg b d t pos x h1]
      exact h
  | ptr ty => simp [Ty.plain] at hp
  | arr e' len => simp [Ty.plain] at hp
  | struct al fs => simp [Ty.plain] at hp
  | union al fs => simp [Ty.plain] at hp

theorem loadUnit_append (cfg : Cfg) (ft bb) (d t : Bytes) (off r) (h : loadUnit cfg ft bb d off = .ok r) :
    loadUnit cfg ft bb (d ++ t) off = .ok r := by
  unfold loadUnit at h ⊢
  split at h
  · rename_i hc; rw [if_pos hc]
    cases hs : ft.size with
    | none => rw [hs] at h; cases h
    | some fsz =>
      rw [hs] at h; simp only [] at h ⊢
      cases h1 : readScalar cfg ft d off with
      | error e => rw [h1] at h; cases h
      | ok x =>
        rw [h1] at h
        rw [readScalar_append cfg ft d t off x h1]
        exact h
  · rename_i hc; rw [if_neg hc]; exact h

mutual
theorem ext_read (cfg : Cfg) (d t : Bytes) : ∀ (ty : Ty), ty.plain = true → ReadLe cfg ty d (d ++ t)
  | .sc s a, _ => readLe_sc cfg s a d t
  | .enum b a f, _ => readLe_enum cfg b a f d t
  | .ptr ty, _ => readLe_ptr cfg ty d t
  | .arr e len, hp => by
    have hpe : e.plain = true := by
      simp only [Ty.plain, Bool.and_eq_true] at hp; exact hp.2
    have ih := ext_read cfg d t e hpe
    intro ctx pos r h
    cases len with
    | fixed n =>
      rw [read_arr_fixed] at h ⊢
      exact readArray_le cfg e d t ih n ctx pos r h
    | expr toks =>
      rw [read_arr_expr] at h ⊢
      obtain ⟨n, h1, h2⟩ := bind_ok h
      rw [h1]; simp only [Except.bind]
      exact readArray_le cfg e d t ih n ctx pos r h2
    | nullTerm =>
      rw [read_arr_null] at h ⊢
      exact read0_le cfg e d t hp ctx pos r h
    | eof => simp [Ty.plain] at hp
  | .struct al fs, hp => by
    intro ctx pos r h
    rw [read_struct] at h ⊢
    obtain ⟨⟨sz, salign, offs⟩, h1, h2⟩ := bind_ok h
    obtain ⟨⟨vs, szs, p⟩, h3, h4⟩ := bind_ok h2
    rw [h1]; simp only [Except.bind]
    have hpf : Fields.plain fs = true := by simpa [Ty.plain] using hp
    rw [ext_fields cfg d t fs hpf al offs pos BitBuf.empty [] pos _ h3]
    exact h4
  | .union al fs, hp => by simp [Ty.plain] at hp
theorem ext_fields (cfg : Cfg) (d t : Bytes) : ∀ (fs : Fields), Fields.plain fs = true →
    ∀ al offs start bb ctx pos r, readFields cfg al fs offs start bb ctx d pos = .ok r →
      readFields cfg al fs offs start bb ctx (d ++ t) pos = .ok r
  | .nil, _ => by
    intro al offs start bb ctx pos r h
    rw [readFields_nil] at h ⊢; exact h
  | .cons name an ty bits rest, hp => by
    intro al offs start bb ctx pos r h
    simp only [Fields.plain, Bool.and_eq_true] at hp
    have ih1 := ext_read cfg d t ty hp.1
    have ih2 := ext_fields cfg d t rest hp.2
    cases hb : isBitW bits with
    | false =>
      rw [readFields_cons_nobits _ _ _ _ _ _ _ _ _ _ _ _ _ hb] at h ⊢
      obtain ⟨⟨v, p1⟩, h1, h2⟩ := bind_ok h
      obtain ⟨⟨vs, szs, p'⟩, h3, h4⟩ := bind_ok h2
      rw [ih1 _ _ _ h1]; simp only [Except.bind]
      rw [ih2 _ _ _ _ _ _ _ h3]; exact h4
    | true =>
      obtain ⟨b, rfl⟩ : ∃ b, bits = some (b + 1) := by
        cases bits with
        | none => simp [isBitW] at hb
        | some b => cases b with
          | zero => simp [isBitW] at hb
          | succ b => exact ⟨b, rfl⟩
      rw [readFields_cons_bits] at h ⊢
      cases hbb : ty.bitBase with
      | none => rw [hbb] at h; cases h
      | some ft =>
        rw [hbb] at h; simp only [] at h ⊢
        obtain ⟨⟨bb1, p1⟩, h1, h2⟩ := bind_ok h
        rw [loadUnit_append cfg ft bb d t _ _ h1]; simp only [Except.bind]
        cases htk : bb1.take cfg.endian (b + 1) with
        | none => simp only [htk] at h2; cases h2
        | some vb =>
          obtain ⟨v, bb2⟩ := vb
          simp only [htk] at h2 ⊢
          obtain ⟨⟨vs, szs, p'⟩, h3, h4⟩ := bind_ok h2
          rw [ih2 _ _ _ _ _ _ _ h3]; exact h4
end

/-- **Extension theorem**: a successful parse of a plain type is unchanged when bytes are appended to the input. -/
theorem read_extend (cfg : Cfg) (ty : Ty) (hplain : ty.plain = true) (ctx : Ctx) (d1 : Bytes) (pos : Nat) (v : Val) (p : Nat)
    (hr : read cfg ty ctx d1 pos = .ok (v, p)) (d2 : Bytes) (hpre : d1 <+: d2) :
    read cfg ty ctx d2 pos = .ok (v, p) := by
  obtain ⟨t, rfl⟩ := hpre
  exact ext_read cfg d1 t ty hplain ctx pos _ hr

end Cstruct.Core.Lemmas
