/-
  Helper lemmas for `Proofs/CoreWinBits.lean` (window theorem WITH bit-fields), part 2: one bit-field step keeps the
  invariant `BInv` (`bit_step`), and the mutual induction `pt_ty` / `pt_fields`: position facts (`ElemPF`) and truncation
  (`ElemT`) for every plain type, bit-fields included; the member loop is generalised over an arbitrary layout state and
  an arbitrary incoming bit buffer that agree (`BInv`). Arrays, scalars, enums, pointers reuse `Proofs/Lemmas/CoreWin.lean`.
-/
import Proofs.Lemmas.CoreWinBits0
namespace Cstruct.Core.Lemmas.WinBits
open Cstruct Cstruct.Core
set_option linter.unusedSimpArgs false

theorem layout_nil_any (cfg : Cfg) (al : Bool) (st : LState) :
    Fields.layout cfg al .nil st = .ok (st.offset.map (alignTo al · st.alignment), st.alignment, []) := by
  rw [Fields.layout]
  cases st.offset <;> cases al <;> rfl

theorem fieldPos_none_eq (cfg : Cfg) (al : Bool) (ty : Ty) (start pos : Nat) :
    fieldPos cfg al ty none start pos = alignTo al pos (ty.alignment cfg) := by
  cases al <;> simp [fieldPos, alignTo]

theorem readFields_cons_bits' (cfg : Cfg) (al name an ty b rest) (o : Option Nat) (offs start bb ctx data pos) :
    readFields cfg al (.cons name an ty (some (b + 1)) rest) (o :: offs) start bb ctx data pos =
      match ty.bitBase with
      | none => .error .typeErr
      | some ft =>
        (loadUnit cfg ft bb data (fieldPos cfg al ty o start pos)).bind fun (bb1, p1) =>
          match bb1.take cfg.endian (b + 1) with
          | none => .error .value
          | some (v, bb2) =>
            (readFields cfg al rest offs start bb2 (ctx.set name (bitVal ty v)) data p1).bind
              fun (vs, szs, p') => .ok (.cons (bitVal ty v) vs, szs, p') := by
  rw [readFields_cons_bits]; rfl

/-- one bit-field step: the invariant after the member, and where the reader stands -/
theorem bit_step (cfg : Cfg) (al : Bool) (ty : Ty) (ft : Scalar) (fsz b : Nat) (st : LState) (bb : BitBuf) (start pos : Nat)
    (d : Bytes) (nu : Bool) (bb1 : BitBuf) (p1 : Nat) (v : Int) (bb2 : BitBuf)
    (hI : BInv al st bb start pos) (hsz : ft.size = some fsz) (hfa : IsP2 (ty.alignment cfg))
    (hnat : al = true → fsz = ty.alignment cfg) (hdv : al = true → ty.alignment cfg ∣ start)
    (hth : lThird ft st (offOf cfg al ty st.offset) = .ok nu)
    (hld : loadUnit cfg ft bb d (fieldPos cfg al ty (if nu then offOf cfg al ty st.offset else none) start pos) = .ok (bb1, p1))
    (htk : bb1.take cfg.endian (b + 1) = some (v, bb2)) :
    pos ≤ p1 ∧ BInv al (stBit cfg al ty ft fsz (b + 1) nu st) bb2 start p1 := by
  have hnu := lThird_eq cfg al ty ft fsz st bb start pos hI hsz hfa hnat nu hth
  obtain ⟨t1, t2, t3⟩ := take_facts cfg.endian bb1 (b + 1) v bb2 htk
  by_cases hc : bb.remaining = 0 ∨ bb.ty ≠ some ft
  · -- both open a new unit
    have : nu = true := by rw [hnu]; exact decide_eq_true hc
    subst this
    simp only [if_true] at hld
    obtain ⟨f1, f2, f3⟩ := fieldPos_facts cfg al ty st.offset start pos hI.off hfa hdv
    generalize fieldPos cfg al ty (offOf cfg al ty st.offset) start pos = fp at *
    obtain ⟨fsz', l1, l2, l3, l4⟩ := loadUnit_reload cfg ft bb d fp bb1 p1 hc hld
    rw [hsz] at l1; cases l1
    refine ⟨by omega, ?_, ?_, ?_, ?_⟩
    · intro o' ho'
      simp only [stBit, if_true] at ho'
      cases ho : st.offset with
      | none => rw [ho] at ho'; simp [offOf] at ho'
      | some o =>
        rw [ho] at ho'
        simp only [offOf, Option.map_some, Option.some.injEq] at ho'
        rw [l2, f3 o ho]; omega
    · simp only [stBit, if_true]; rw [t1, l3]
    · simp only [stBit, if_true]; rw [t3, l4]; rw [l4] at t2; omega
    · intro _ o' bfo bt bs ho' hbfo hbt hbs
      simp only [stBit, if_true] at ho' hbfo hbt
      cases hbt
      rw [hsz] at hbs; cases hbs
      cases ho : st.offset with
      | none => rw [ho] at ho'; simp [offOf] at ho'
      | some o =>
        rw [ho] at ho' hbfo
        simp only [offOf, Option.map_some, Option.some.injEq] at ho' hbfo
        subst hbfo; subst ho'
        refine ⟨Nat.le_refl _, ?_⟩
        intro ha; subst ha
        have h1 : fsz ∣ alignTo true o (ty.alignment cfg) := by rw [hnat rfl]; exact alignTo_dvd hfa o
        exact Nat.dvd_add h1 (Nat.dvd_refl _)
  · -- both continue the unit
    have : nu = false := by rw [hnu]; exact decide_eq_false hc
    subst this
    simp only [Bool.false_eq_true, if_false] at hld
    rw [fieldPos_none_eq] at hld
    obtain ⟨rfl, rfl⟩ := loadUnit_keep cfg ft bb d _ bb1 p1 hc hld
    have hbr : bb1.remaining ≠ 0 := fun e => hc (Or.inl e)
    have hbt : bb1.ty = some ft := by
      apply Decidable.byContradiction
      intro e; exact hc (Or.inr e)
    have hsr : st.bitsRemaining ≠ 0 := by have := hI.rem; omega
    have hst : st.bitsType = some ft := by rw [← hI.ty]; exact hbt
    have hpos : ∀ o, st.offset = some o →
        alignTo al pos (ty.alignment cfg) = start + alignTo al o (ty.alignment cfg) := by
      intro o ho
      rw [hI.off o ho]
      cases al with
      | false => rfl
      | true => exact alignTo_add (Or.inr hfa) true start o (hdv rfl)
    refine ⟨le_alignTo _ _ _, ?_, ?_, ?_, ?_⟩
    · intro o' ho'
      simp only [stBit, Bool.false_eq_true, if_false] at ho'
      cases ho : st.offset with
      | none => rw [ho] at ho'; simp [offOf] at ho'
      | some o =>
        rw [ho] at ho'
        simp only [offOf, Option.map_some, Option.some.injEq] at ho'
        rw [hpos o ho, ho']
    · simp only [stBit, Bool.false_eq_true, if_false]; rw [t1]; exact hI.ty
    · simp only [stBit, Bool.false_eq_true, if_false]; rw [t3]; have := hI.rem; omega
    · intro _ o' bfo bt bs ho' hbfo hbt' hbs
      simp only [stBit, Bool.false_eq_true, if_false] at ho' hbfo hbt'
      cases ho : st.offset with
      | none => rw [ho] at ho'; simp [offOf] at ho'
      | some o =>
        rw [ho] at ho'
        simp only [offOf, Option.map_some, Option.some.injEq] at ho'
        obtain ⟨u1, u2⟩ := hI.unit hsr o bfo bt bs ho hbfo hbt' hbs
        rw [hst] at hbt'; cases hbt'
        rw [hsz] at hbs; cases hbs
        have : alignTo al o (ty.alignment cfg) = o :=
          alignTo_of_dvd hfa al o (fun ha => by rw [← hnat ha]; exact u2 ha)
        rw [this] at ho'; subst ho'
        exact ⟨u1, u2⟩


/-! ### Position facts and truncation, with bit-fields -/

/-- the conclusion of the member-loop lemma: the position never goes back, the static size is met, and the input may be
    cut anywhere at or after the end position -/
def FieldsPT (cfg : Cfg) (al : Bool) (d : Bytes) (fs : Fields) (offs : List (Option Nat)) (start : Nat) (bb : BitBuf)
    (ctx : Ctx) (pos : Nat) (sz : Option Nat) (sa : Nat) (vs : Vals) (szs : List (String × Nat)) (p : Nat) : Prop :=
  pos ≤ p ∧ (∀ k, sz = some k → alignTo al p sa = start + k) ∧
  ∀ q, p ≤ q → readFields cfg al fs offs start bb ctx (d.take q) pos = .ok (vs, szs, p)

mutual
theorem pt_ty (cfg : Cfg) (al : Bool) (d : Bytes) : ∀ (ty : Ty), ty.plain = true →
    ty.uniformAlign al = true → ty.pow2Aligned cfg → (al = true → ty.bitsNatural cfg = true) →
    ElemPF cfg al ty d ∧ ElemT cfg al ty d
  | .sc s a, _, _, _, _ => ⟨pf_sc cfg al s a d, t_sc cfg al s a d⟩
  | .enum b a f, _, _, _, _ => ⟨pf_enum cfg al b a f d, t_enum cfg al b a f d⟩
  | .ptr t, _, _, _, _ => ⟨pf_ptr cfg al t d, t_ptr cfg al t d⟩
  | .union _ _, hPl, _, _, _ => by simp [Ty.plain] at hPl
  | .arr e len, hPl, hU, hP, hBN => by
    have hPle : e.plain = true := by simp only [Ty.plain, Bool.and_eq_true] at hPl; exact hPl.2
    simp only [Ty.bitsNatural] at hBN
    simp only [Ty.uniformAlign] at hU
    simp only [Ty.pow2Aligned] at hP
    obtain ⟨ihPF, ih⟩ := pt_ty cfg al d e hPle hU hP hBN
    constructor
    · intro ctx pos v p h hpos
      simp only [sAlign] at hpos
      unfold PF
      simp only [sAlign]
      cases len with
      | fixed n =>
        rw [read_arr_fixed] at h
        obtain ⟨a1, a2, a3⟩ := pf_array cfg al e d ihPF n ctx pos v p h hpos
        refine ⟨a1, a2, ?_⟩
        intro k hk
        simp only [Ty.size] at hk
        cases he : e.size cfg with
        | none => rw [he] at hk; cases hk
        | some k' => rw [he] at hk; cases hk; exact a3 k' he
      | expr toks =>
        rw [read_arr_expr] at h
        obtain ⟨n, _, h2⟩ := bind_ok h
        obtain ⟨a1, a2, _⟩ := pf_array cfg al e d ihPF n ctx pos v p h2 hpos
        exact ⟨a1, a2, by intro k hk; simp [Ty.size] at hk⟩
      | nullTerm =>
        rw [read_arr_null] at h
        obtain ⟨a1, a2⟩ := read0_pos cfg e hPl ctx d pos v p h
        exact ⟨a1, fun _ => by rw [a2]; exact Nat.one_dvd _, by intro k hk; simp [Ty.size] at hk⟩
      | eof => simp [Ty.plain] at hPl
    · intro ctx pos v p h hpos q hq
      simp only [sAlign] at hpos
      cases len with
      | fixed n =>
        rw [read_arr_fixed] at h ⊢
        exact t_array cfg al e d ihPF ih n ctx pos v p h hpos q hq
      | expr toks =>
        rw [read_arr_expr] at h ⊢
        obtain ⟨n, h1, h2⟩ := bind_ok h
        rw [h1]; simp only [Except.bind]
        exact t_array cfg al e d ihPF ih n ctx pos v p h2 hpos q hq
      | nullTerm =>
        rw [read_arr_null] at h ⊢
        exact t_read0 cfg e hPl ctx d pos v p h q hq
      | eof => simp [Ty.plain] at hPl
  | .struct al' fs, hPl, hU, hP, hBN => by
    simp only [Ty.plain] at hPl
    simp only [Ty.bitsNatural] at hBN
    simp only [Ty.uniformAlign, Bool.and_eq_true, beq_iff_eq] at hU
    simp only [Ty.pow2Aligned] at hP
    obtain ⟨rfl, hU⟩ := hU
    -- what a successful read of the structure consists of
    have key : ∀ ctx pos v p, read cfg (.struct al' fs) ctx d pos = .ok (v, p) →
        (al' = true → sAlign cfg (.struct al' fs) ∣ pos) →
        ∃ sz offs vs szs pf, structLayout cfg al' fs = .ok (sz, Fields.maxAlign cfg fs 0, offs) ∧
          v = .record vs ∧ p = alignTo al' pf (Fields.maxAlign cfg fs 0) ∧
          FieldsPT cfg al' d fs offs pos BitBuf.empty [] pos sz (Fields.maxAlign cfg fs 0) vs szs pf := by
      intro ctx pos v p h hpos
      rw [read_struct] at h
      obtain ⟨⟨sz, sa, offs⟩, hl, h2⟩ := bind_ok h
      obtain ⟨⟨vs, szs, pf⟩, h3, h4⟩ := bind_ok h2
      have hsa : sa = Fields.maxAlign cfg fs 0 := (layout_final cfg al' fs LState.init sz sa offs hl).1
      subst hsa
      have hdv : al' = true → allAlignDvd cfg pos fs :=
        fun ha => allAlignDvd_of_sAlign cfg al' fs hP pos (hpos ha)
      have hM := maxAlign_p2 cfg fs hP 0 (Or.inl rfl)
      have hH : ∀ x, alignTo al' (pos + x) (Fields.maxAlign cfg fs 0) = pos + alignTo al' x (Fields.maxAlign cfg fs 0) := by
        intro x
        cases al' with
        | false => rfl
        | true =>
          by_cases h0 : Fields.maxAlign cfg fs 0 = 0
          · simp only [alignTo, if_true, h0, padNat_zero]; omega
          · have := hpos rfl
            simp only [sAlign, Ty.alignment, if_neg h0] at this
            exact alignTo_add hM true pos x this
      refine ⟨sz, offs, vs, szs, pf, hl, ?_, ?_, ?_⟩
      · cases h4; rfl
      · cases h4; rfl
      · exact pt_fields cfg al' d fs hPl hU hP hBN LState.init pos BitBuf.empty [] pos sz _ offs vs szs pf hl h3 hdv
          (binv_mkSt al' (some 0) 0 pos pos (by intro o ho; cases ho; rfl)) hH
    constructor
    · intro ctx pos v p h hpos
      obtain ⟨sz, offs, vs, szs, pf, hl, rfl, rfl, b1, b2, _⟩ := key ctx pos v p h hpos
      have hM := maxAlign_p2 cfg fs hP 0 (Or.inl rfl)
      have hle := le_alignTo al' pf (Fields.maxAlign cfg fs 0)
      refine ⟨by omega, ?_, ?_⟩
      · intro ha; subst ha
        simp only [sAlign, Ty.alignment]
        split
        · exact Nat.one_dvd _
        · rename_i h0
          rcases hM with h1 | h1
          · exact absurd h1 h0
          · exact alignTo_dvd h1 pf
      · intro k hk
        have hsz : (Ty.struct al' fs).size cfg = sz := by
          simp only [Ty.size]
          unfold structLayout LState.init at hl
          rw [hl]
        rw [hsz] at hk
        exact b2 k hk
    · intro ctx pos v p h hpos q hq
      obtain ⟨sz, offs, vs, szs, pf, hl, rfl, rfl, b1, b2, b3⟩ := key ctx pos v p h hpos
      have hle := le_alignTo al' pf (Fields.maxAlign cfg fs 0)
      rw [read_struct, hl]
      simp only [Except.bind]
      rw [b3 q (by omega)]
      rfl
theorem pt_fields (cfg : Cfg) (al : Bool) (d : Bytes) : ∀ (fs : Fields), Fields.plain fs = true →
    Fields.uniformAlign al fs = true → fs.pow2Aligned cfg → (al = true → Fields.bitsNatural cfg fs = true) →
    ∀ (st : LState) (start : Nat) (bb : BitBuf) (ctx : Ctx) (pos : Nat) (sz : Option Nat) (sa : Nat)
      (offs : List (Option Nat)) (vs : Vals) (szs : List (String × Nat)) (p : Nat),
    Fields.layout cfg al fs st = .ok (sz, sa, offs) →
    readFields cfg al fs offs start bb ctx d pos = .ok (vs, szs, p) →
    (al = true → allAlignDvd cfg start fs) → BInv al st bb start pos →
    (∀ x, alignTo al (start + x) sa = start + alignTo al x sa) →
    FieldsPT cfg al d fs offs start bb ctx pos sz sa vs szs p
  | .nil, _, _, _, _, st, start, bb, ctx, pos, sz, sa, offs, vs, szs, p, hl, hr, _, hI, hH => by
    rw [layout_nil_any] at hl
    simp only [Except.ok.injEq, Prod.mk.injEq] at hl
    obtain ⟨rfl, rfl, rfl⟩ := hl
    rw [readFields_nil] at hr; cases hr
    refine ⟨Nat.le_refl _, ?_, ?_⟩
    · intro k hk
      cases ho : st.offset with
      | none => rw [ho] at hk; cases hk
      | some o =>
        rw [ho] at hk
        simp only [Option.map_some, Option.some.injEq] at hk
        rw [hI.off o ho, hH, hk]
    · intro q _; rw [readFields_nil]
  | .cons name an ty bits rest, hPl, hU, hP, hBN, st, start, bb, ctx, pos, sz, sa, offs, vs, szs, p, hl, hr, hdv, hI, hH => by
    simp only [Fields.plain, Bool.and_eq_true] at hPl
    simp only [Fields.uniformAlign, Bool.and_eq_true] at hU
    simp only [Fields.pow2Aligned] at hP
    have hfa := alignment_p2 cfg ty hP.1
    cases hb : isBitW bits with
    | false =>
      have hBN' := fun ha => bitsNatural_nb hb (hBN ha)
      rw [layout_cons_nb_any cfg al name an ty bits rest st hb] at hl
      obtain ⟨⟨sz', sa', offs'⟩, hl1, hl2⟩ := bind_ok hl
      simp only [Except.ok.injEq, Prod.mk.injEq] at hl2
      obtain ⟨rfl, rfl, rfl⟩ := hl2
      rw [readFields_cons_nb _ _ _ _ _ _ _ _ _ _ _ _ _ _ hb] at hr
      obtain ⟨⟨v, p1⟩, h1, h2⟩ := bind_ok hr
      obtain ⟨⟨vs', szs', p'⟩, h3, h4⟩ := bind_ok h2
      obtain ⟨f1, f2, f3⟩ := fieldPos_facts cfg al ty st.offset start pos hI.off hfa (fun ha => (hdv ha).1)
      generalize hfp : fieldPos cfg al ty (offOf cfg al ty st.offset) start pos = fp at *
      have hsa : al = true → sAlign cfg ty ∣ fp := fun ha => Nat.dvd_trans (sAlign_dvd_alignment cfg ty) (f2 ha)
      obtain ⟨ihPF, ihT⟩ := pt_ty cfg al d ty hPl.1 hU.1 hP.1 (fun ha => (hBN' ha).1)
      obtain ⟨a1, _, a3⟩ := ihPF ctx fp v p1 h1 hsa
      have hinv' : ∀ o, nextOf cfg al ty st.offset = some o → p1 = start + o := by
        intro o' ho'
        cases hso : st.offset with
        | none => rw [hso] at ho'; simp [nextOf, offOf] at ho'
        | some o =>
          rw [hso] at ho'
          cases hs : ty.size cfg with
          | none => simp [nextOf, offOf, hs] at ho'
          | some k =>
            simp only [nextOf, offOf, hs, Option.map_some, Option.bind_some, Option.some.injEq] at ho'
            rw [a3 k hs, f3 o hso]; omega
      obtain ⟨b1, b2, b3⟩ := pt_fields cfg al d rest hPl.2 hU.2 hP.2 (fun ha => (hBN' ha).2) _ start BitBuf.empty
        (Ctx.set ctx name v) p1 sz' sa' offs' vs' szs' p' hl1 h3 (fun ha => (hdv ha).2)
        (binv_mkSt al _ _ start p1 hinv') hH
      have hpp : p' = p := by cases h4; rfl
      subst hpp
      refine ⟨by omega, b2, ?_⟩
      intro q hq
      rw [readFields_cons_nb _ _ _ _ _ _ _ _ _ _ _ _ _ _ hb, hfp]
      rw [ihT ctx fp v p1 h1 hsa q (by omega)]
      simp only [Except.bind]
      rw [b3 q hq]
      exact h4
    | true =>
      obtain ⟨b, rfl⟩ : ∃ b, bits = some (b + 1) := by
        rcases bits with _ | _ | b
        · cases hb
        · cases hb
        · exact ⟨b, rfl⟩
      rw [layout_cons_bit] at hl
      cases hbase : ty.bitBase with
      | none => rw [hbase] at hl; cases hl
      | some ft =>
        rw [hbase] at hl; simp only [] at hl
        cases hsz : ft.size with
        | none => rw [hsz] at hl; cases hl
        | some fsz =>
          rw [hsz] at hl; simp only [] at hl
          obtain ⟨nu, hth, hl2⟩ := bind_ok hl
          split at hl2
          · cases hl2
          obtain ⟨⟨sz', sa', offs'⟩, hl3, hl4⟩ := bind_ok hl2
          simp only [Except.ok.injEq, Prod.mk.injEq] at hl4
          obtain ⟨rfl, rfl, rfl⟩ := hl4
          have hnat : al = true → fsz = ty.alignment cfg := fun ha => bitsNatural_head (hBN ha) hbase hsz
          rw [readFields_cons_bits', hbase] at hr
          simp only [] at hr
          obtain ⟨⟨bb1, p1⟩, hld, hr2⟩ := bind_ok hr
          cases htk : bb1.take cfg.endian (b + 1) with
          | none => simp only [htk] at hr2; cases hr2
          | some vb =>
            obtain ⟨v, bb2⟩ := vb
            simp only [htk] at hr2
            obtain ⟨⟨vs', szs', p'⟩, hr3, hr4⟩ := bind_ok hr2
            obtain ⟨s1, s2⟩ := bit_step cfg al ty ft fsz b st bb start pos d nu bb1 p1 v bb2 hI hsz hfa hnat
              (fun ha => (hdv ha).1) hth hld htk
            obtain ⟨b1, b2, b3⟩ := pt_fields cfg al d rest hPl.2 hU.2 hP.2 (fun ha => bitsNatural_bit (hBN ha)) _ start bb2
              (Ctx.set ctx name (bitVal ty v)) p1 sz' sa' offs' vs' szs' p' hl3 hr3 (fun ha => (hdv ha).2) s2 hH
            have hpp : p' = p := by cases hr4; rfl
            subst hpp
            refine ⟨by omega, b2, ?_⟩
            intro q hq
            rw [readFields_cons_bits', hbase]
            simp only []
            rw [loadUnit_take cfg ft bb d _ (bb1, p1) q hld (by simp only []; omega)]
            simp only [Except.bind, htk]
            rw [b3 q hq]
            exact hr4
end

/-- **Window theorem with bit-fields**: no restriction in packed mode; in aligned mode the storage scalar of every
    bit-field has size = alignment (`bitsNatural`). -/
theorem read_prefix_bits_alt (cfg : Cfg) (al : Bool) (ty : Ty) (hplain : ty.plain = true)
    (hbn : al = true → ty.bitsNatural cfg = true) (hu : ty.uniformAlign al = true) (hp : ty.pow2Aligned cfg) (ctx : Ctx)
    (d1 : Bytes) (pos : Nat) (hal : ty.alignsDivide cfg pos = true) (v : Val) (p : Nat)
    (hr : read cfg ty ctx d1 pos = .ok (v, p)) (d2 : Bytes) (hpre : d1.take p <+: d2) :
    read cfg ty ctx d2 pos = .ok (v, p) := by
  have h1 := (pt_ty cfg al d1 ty hplain hu hp hbn).2 ctx pos v p hr
    (fun _ => sAlign_dvd_of_alignsDivide cfg pos ty hal) p (Nat.le_refl _)
  exact read_extend cfg ty hplain ctx (d1.take p) pos v p h1 d2 hpre

end Cstruct.Core.Lemmas.WinBits
