/-
  Helper lemmas for `Proofs/C07Null.lean`, part 4: element types that make progress — layout offsets, the field loop,
  structures and unions, and the induction over the type (`fwd_ty`, `str_ty`).
-/
import Proofs.Lemmas.C07NullProgA
namespace Cstruct.C07.Lemmas
open Cstruct Cstruct.C07 Cstruct.Core.Lemmas

/-! ### layout offsets -/

def PosOffs (offs : List (Option Nat)) : Prop := ∀ o, some o ∈ offs → 0 < o

/-- behind a member that is not a bit-field and whose declared size is not 0 every layout offset is positive -/
def OffsOK (cfg : Cfg) : Fields → List (Option Nat) → Prop
  | .nil, _ => True
  | .cons _ _ t bits r, offs =>
    (isBitW bits = false → t.size cfg ≠ some 0 → PosOffs (offs.drop 1)) ∧ OffsOK cfg r (offs.drop 1)

theorem layout_cons_nobits (cfg : Cfg) (al : Bool) (name an ty bits rest) (st : LState) (hb : isBitW bits = false) :
    Fields.layout cfg al (.cons name an ty bits rest) st =
      let offset : Option Nat := match st.offset with
        | some o => if al then some (o + padNat o (ty.alignment cfg)) else some o
        | none => none
      let st1 : LState := { offset := offset, alignment := max st.alignment (ty.alignment cfg), bitsType := none, bitsFieldOffset := some 0, bitsRemaining := 0 }
      let st2 : LState := match offset with
        | some o => match ty.size cfg with
          | some k => { st1 with offset := some (o + k) }
          | none => { st1 with offset := none }
        | none => st1
      match Fields.layout cfg al rest st2 with
      | .error e => .error e
      | .ok (sz, a, offs) => .ok (sz, a, offset :: offs) := by
  cases bits with
  | none => rw [Fields.layout]; rfl; intro b h; cases h
  | some b =>
    cases b with
    | zero => rw [Fields.layout]; rfl; intro b h; cases h
    | succ b => simp [isBitW] at hb

theorem layout_cons_bits_inv (cfg : Cfg) (al : Bool) (name an ty b rest) (st : LState) (sz a offs)
    (h : Fields.layout cfg al (.cons name an ty (some (b + 1)) rest) st = .ok (sz, a, offs)) :
    ∃ foff offs' st', offs = foff :: offs' ∧ Fields.layout cfg al rest st' = .ok (sz, a, offs') ∧
      (∀ o, foff = some o → ∃ o0, st.offset = some o0 ∧ o0 ≤ o) ∧
      (∀ o, st'.offset = some o → ∃ o0, st.offset = some o0 ∧ o0 ≤ o) := by
  rw [Fields.layout] at h
  simp only [] at h
  split at h
  · cases h
  · split at h
    · cases h
    · rename_i ft _ fsz _
      split at h
      · cases h
      · rename_i newUnit _
        cases newUnit with
        | true =>
          simp only [if_true] at h
          split at h
          · cases h
          · split at h
            · cases h
            · rename_i sz' a' offs' hr
              cases h
              refine ⟨_, offs', _, rfl, hr, ?_, ?_⟩
              · intro o ho
                cases hso : st.offset with
                | none => rw [hso] at ho; cases ho
                | some o0 =>
                  rw [hso] at ho
                  refine ⟨o0, rfl, ?_⟩
                  simp only [] at ho
                  split at ho <;> cases ho <;> omega
              · intro o ho
                cases hso : st.offset with
                | none => rw [hso] at ho; cases ho
                | some o0 =>
                  refine ⟨o0, rfl, ?_⟩
                  rw [hso] at ho
                  cases al <;> simp at ho <;> omega
        | false =>
          simp only [Bool.false_eq_true, if_false] at h
          split at h
          · cases h
          · split at h
            · cases h
            · rename_i sz' a' offs' hr
              cases h
              refine ⟨_, offs', _, rfl, hr, ?_, ?_⟩
              · intro o ho; cases ho
              · intro o ho
                cases hso : st.offset with
                | none => simp only [hso] at ho; cases ho
                | some o0 =>
                  refine ⟨o0, rfl, ?_⟩
                  simp only [hso] at ho
                  split at ho <;> simp only [Option.some.injEq] at ho <;> omega

theorem isBitW_cases (bits : Option Nat) : isBitW bits = false ∨ ∃ b, bits = some (b + 1) := by
  rcases bits with _ | _ | b
  · exact .inl rfl
  · exact .inl rfl
  · exact .inr ⟨b, rfl⟩

theorem layout_posOffs (cfg : Cfg) (al : Bool) : ∀ (fs : Fields) (st : LState),
    (∀ o, st.offset = some o → 0 < o) → ∀ sz a offs, Fields.layout cfg al fs st = .ok (sz, a, offs) → PosOffs offs := by
  intro fs
  induction fs using Fields.rec (motive_1 := fun _ => True) with
  | nil =>
    intro st _ sz a offs h
    rw [Fields.layout] at h
    cases h
    intro o ho; cases ho
  | cons name an ty bits rest _ ih =>
    intro st hst sz a offs h
    rcases isBitW_cases bits with hb | ⟨b, rfl⟩
    · rw [layout_cons_nobits cfg al name an ty bits rest st hb] at h
      simp only [] at h
      split at h
      · cases h
      · rename_i sz' a' offs' h1
        cases h
        have hoff : ∀ o, (match st.offset with
            | some o => if al then some (o + padNat o (ty.alignment cfg)) else some o
            | none => none) = some o → 0 < o := by
          intro o ho
          cases hso : st.offset with
          | none => rw [hso] at ho; cases ho
          | some o0 =>
            rw [hso] at ho
            have := hst o0 hso
            simp only [] at ho
            split at ho <;> cases ho <;> omega
        have := ih _ (by
          intro o2 ho2
          split at ho2
          · rename_i o heq
            have := hoff o heq
            split at ho2 <;> simp only [Option.some.injEq] at ho2
            · omega
            · cases ho2
          · rename_i heq; simp only [] at ho2; rw [heq] at ho2; cases ho2) _ _ _ h1
        intro o ho
        simp only [List.mem_cons] at ho
        rcases ho with ho | ho
        · exact hoff o ho.symm
        · exact this o ho
    · obtain ⟨foff, offs', st', rfl, h1, h2, h3⟩ := layout_cons_bits_inv cfg al name an ty b rest st sz a offs h
      have := ih st' (by
        intro o ho
        obtain ⟨o0, h4, h5⟩ := h3 o ho
        have := hst o0 h4
        omega) _ _ _ h1
      intro o ho
      simp only [List.mem_cons] at ho
      rcases ho with ho | ho
      · obtain ⟨o0, h4, h5⟩ := h2 o ho.symm
        have := hst o0 h4
        omega
      · exact this o ho
  | _ => trivial

theorem layout_offsOK (cfg : Cfg) (al : Bool) : ∀ (fs : Fields) (st : LState),
    ∀ sz a offs, Fields.layout cfg al fs st = .ok (sz, a, offs) → OffsOK cfg fs offs := by
  intro fs
  induction fs using Fields.rec (motive_1 := fun _ => True) with
  | nil => intro st sz a offs _; trivial
  | cons name an ty bits rest _ ih =>
    intro st sz a offs h
    rcases isBitW_cases bits with hb | ⟨b, rfl⟩
    · rw [layout_cons_nobits cfg al name an ty bits rest st hb] at h
      simp only [] at h
      split at h
      · cases h
      · rename_i sz' a' offs' h1
        cases h
        refine ⟨fun _ hsz => ?_, ?_⟩
        · simp only [List.drop_succ_cons, List.drop_zero]
          refine layout_posOffs cfg al rest _ ?_ _ _ _ h1
          intro o2 ho2
          split at ho2
          · split at ho2 <;> simp only [Option.some.injEq] at ho2
            · rename_i k hk
              have : k ≠ 0 := by intro h0; apply hsz; rw [hk, h0]
              omega
            · cases ho2
          · rename_i heq; simp only [] at ho2; rw [heq] at ho2; cases ho2
        · simp only [List.drop_succ_cons, List.drop_zero]
          exact ih _ _ _ _ h1
    · obtain ⟨foff, offs', st', rfl, h1, _, _⟩ := layout_cons_bits_inv cfg al name an ty b rest st sz a offs h
      refine ⟨fun hb => by simp [isBitW] at hb, ?_⟩
      simp only [List.drop_succ_cons, List.drop_zero]
      exact ih _ _ _ _ h1
  | _ => trivial

/-! ### the field loop -/

theorem fieldPos_ge (cfg : Cfg) (al : Bool) (ty : Ty) (foff : Option Nat) (start pos : Nat) (h : start ≤ pos) :
    start ≤ fieldPos cfg al ty foff start pos ∧
      (start < pos → (∀ o, foff = some o → 0 < o) → start < fieldPos cfg al ty foff start pos) := by
  unfold fieldPos
  cases foff with
  | none =>
    simp only []
    split <;> exact ⟨by omega, fun _ _ => by omega⟩
  | some fo =>
    simp only [Option.isNone_some, Bool.false_eq_true, and_false, if_false]
    exact ⟨by omega, fun _ hfo => by have := hfo fo rfl; omega⟩

/-- the field loop never ends before the start of the structure, and ends behind it if it started behind it and all
    remaining layout offsets are positive -/
def FwdF (cfg : Cfg) (fs : Fields) : Prop :=
  ∀ al offs start bb ctx d pos vs szs q, readFields cfg al fs offs start bb ctx d pos = .ok (vs, szs, q) → start ≤ pos →
    start ≤ q ∧ (start < pos → PosOffs offs → start < q)

/-- the field loop ends behind the start of the structure, which lies inside the input -/
def StrF (cfg : Cfg) (fs : Fields) : Prop :=
  ∀ al offs start bb ctx d pos vs szs q, readFields cfg al fs offs start bb ctx d pos = .ok (vs, szs, q) → start ≤ pos →
    OffsOK cfg fs offs → start < q ∧ start < d.length

theorem head_mem_of_join {offs : List (Option Nat)} {o : Nat} (h : offs.head?.join = some o) : some o ∈ offs := by
  cases offs with
  | nil => simp at h
  | cons x t =>
    simp only [List.head?_cons, Option.join_some] at h
    rw [h]; exact List.mem_cons_self ..

theorem posOffs_drop {offs : List (Option Nat)} (h : PosOffs offs) : PosOffs (offs.drop 1) :=
  fun o ho => h o (List.mem_of_mem_drop ho)

theorem fwdF_nil (cfg : Cfg) : FwdF cfg .nil := by
  intro al offs start bb ctx d pos vs szs q h hs
  rw [readFields_nil] at h
  cases h
  exact ⟨hs, fun h _ => h⟩

theorem fwdF_cons (cfg : Cfg) (name an ty bits rest) (hb : isBitW bits = false) (hT : Fwd cfg ty) (hR : FwdF cfg rest) :
    FwdF cfg (.cons name an ty bits rest) := by
  intro al offs start bb ctx d pos vs szs q h hs
  rw [readFields_cons_nobits cfg al name an ty bits rest offs start bb ctx d pos hb] at h
  obtain ⟨⟨v, p1⟩, h1, h2⟩ := bind_ok h
  obtain ⟨⟨vs', szs', q'⟩, h3, h4⟩ := bind_ok h2
  cases h4
  obtain ⟨g1, g2⟩ := fieldPos_ge cfg al ty offs.head?.join start pos hs
  have hp1 := hT _ _ _ _ _ h1
  obtain ⟨r1, r2⟩ := hR _ _ _ _ _ _ _ _ _ _ h3 (by omega)
  refine ⟨r1, fun hlt hpo => ?_⟩
  have := g2 hlt (fun o ho => hpo o (head_mem_of_join ho))
  exact r2 (by omega) (posOffs_drop hpo)

theorem loadUnit_fwd (cfg : Cfg) (ft : Scalar) (bb : BitBuf) (d : Bytes) (off : Nat) (bb1 : BitBuf) (p1 : Nat)
    (h : loadUnit cfg ft bb d off = .ok (bb1, p1)) : off ≤ p1 := by
  unfold loadUnit at h
  split at h
  · split at h
    · cases h
    · split at h
      · cases h
      · rename_i u p hr
        split at h
        · cases h; exact (readScalar_adv cfg ft d off u _ hr).1
        · cases h
  · cases h; exact Nat.le_refl _

/-- a bit-field member: the storage unit is loaded at the field position or not at all -/
theorem readFields_bits_inv (cfg : Cfg) (al name an ty b rest offs start bb ctx d pos vs szs q)
    (h : readFields cfg al (.cons name an ty (some (b + 1)) rest) offs start bb ctx d pos = .ok (vs, szs, q)) :
    ∃ p1 bb2 ctx' vs' szs', fieldPos cfg al ty offs.head?.join start pos ≤ p1 ∧
      readFields cfg al rest (offs.drop 1) start bb2 ctx' d p1 = .ok (vs', szs', q) := by
  rw [readFields_cons_bits] at h
  split at h
  · cases h
  · obtain ⟨⟨bb1, p1⟩, h1, h2⟩ := bind_ok h
    simp only [] at h2
    split at h2
    · cases h2
    · obtain ⟨⟨vs', szs', q'⟩, h3, h4⟩ := bind_ok h2
      cases h4
      exact ⟨p1, _, _, vs', szs', loadUnit_fwd cfg _ _ _ _ _ _ h1, h3⟩

theorem fwdF_cons_bits (cfg : Cfg) (name an ty b rest) (hR : FwdF cfg rest) :
    FwdF cfg (.cons name an ty (some (b + 1)) rest) := by
  intro al offs start bb ctx d pos vs szs q h hs
  obtain ⟨p1, bb2, ctx', vs', szs', hp1, h3⟩ := readFields_bits_inv cfg al name an ty b rest offs start bb ctx d pos vs szs q h
  obtain ⟨g1, g2⟩ := fieldPos_ge cfg al ty offs.head?.join start pos hs
  obtain ⟨r1, r2⟩ := hR _ _ _ _ _ _ _ _ _ _ h3 (by omega)
  refine ⟨r1, fun hlt hpo => ?_⟩
  have := g2 hlt (fun o ho => hpo o (head_mem_of_join ho))
  exact r2 (by omega) (posOffs_drop hpo)

theorem strF_cons_later_bits (cfg : Cfg) (name an ty b rest) (hR : StrF cfg rest) :
    StrF cfg (.cons name an ty (some (b + 1)) rest) := by
  intro al offs start bb ctx d pos vs szs q h hs hok
  obtain ⟨p1, bb2, ctx', vs', szs', hp1, h3⟩ := readFields_bits_inv cfg al name an ty b rest offs start bb ctx d pos vs szs q h
  obtain ⟨g1, _⟩ := fieldPos_ge cfg al ty offs.head?.join start pos hs
  exact hR _ _ _ _ _ _ _ _ _ _ h3 (by omega) hok.2

theorem strF_cons_here (cfg : Cfg) (name an ty bits rest) (hb : isBitW bits = false) (hS : Str cfg ty)
    (hsz : ty.size cfg ≠ some 0) (hR : FwdF cfg rest) : StrF cfg (.cons name an ty bits rest) := by
  intro al offs start bb ctx d pos vs szs q h hs hok
  rw [readFields_cons_nobits cfg al name an ty bits rest offs start bb ctx d pos hb] at h
  obtain ⟨⟨v, p1⟩, h1, h2⟩ := bind_ok h
  obtain ⟨⟨vs', szs', q'⟩, h3, h4⟩ := bind_ok h2
  cases h4
  obtain ⟨g1, _⟩ := fieldPos_ge cfg al ty offs.head?.join start pos hs
  obtain ⟨s1, s2⟩ := hS _ _ _ _ _ h1
  obtain ⟨_, r2⟩ := hR _ _ _ _ _ _ _ _ _ _ h3 (by omega)
  exact ⟨r2 (by omega) (hok.1 hb hsz), by omega⟩

theorem strF_cons_later (cfg : Cfg) (name an ty bits rest) (hb : isBitW bits = false) (hT : Fwd cfg ty)
    (hR : StrF cfg rest) : StrF cfg (.cons name an ty bits rest) := by
  intro al offs start bb ctx d pos vs szs q h hs hok
  rw [readFields_cons_nobits cfg al name an ty bits rest offs start bb ctx d pos hb] at h
  obtain ⟨⟨v, p1⟩, h1, h2⟩ := bind_ok h
  obtain ⟨⟨vs', szs', q'⟩, h3, h4⟩ := bind_ok h2
  cases h4
  obtain ⟨g1, _⟩ := fieldPos_ge cfg al ty offs.head?.join start pos hs
  have hp1 := hT _ _ _ _ _ h1
  exact hR _ _ _ _ _ _ _ _ _ _ h3 (by omega) hok.2

/-! ### structures and unions -/

theorem fwd_struct (cfg : Cfg) (al : Bool) (fs : Fields) (hR : FwdF cfg fs) : Fwd cfg (.struct al fs) := by
  intro ctx d p v q h
  rw [read_struct] at h
  obtain ⟨⟨sz, salign, offs⟩, h1, h2⟩ := bind_ok h
  obtain ⟨⟨vs, szs, q'⟩, h3, h4⟩ := bind_ok h2
  simp only [Except.ok.injEq, Prod.mk.injEq] at h4
  obtain ⟨r1, _⟩ := hR _ _ _ _ _ _ _ _ _ _ h3 (Nat.le_refl _)
  obtain ⟨_, rfl⟩ := h4
  split <;> omega

theorem str_struct (cfg : Cfg) (al : Bool) (fs : Fields) (hR : StrF cfg fs) :
    Str cfg (.struct al fs) := by
  intro ctx d p v q h
  rw [read_struct] at h
  obtain ⟨⟨sz, salign, offs⟩, h1, h2⟩ := bind_ok h
  obtain ⟨⟨vs, szs, q'⟩, h3, h4⟩ := bind_ok h2
  simp only [Except.ok.injEq, Prod.mk.injEq] at h4
  obtain ⟨r1, r2⟩ := hR _ _ _ _ _ _ _ _ _ _ h3 (Nat.le_refl _) (layout_offsOK cfg al fs _ _ _ _ h1)
  obtain ⟨_, rfl⟩ := h4
  exact ⟨by split <;> omega, r2⟩

theorem read_union_inv (cfg : Cfg) (al : Bool) (fs : Fields) (ctx : Ctx) (d : Bytes) (p : Nat) (v : Val) (q : Nat)
    (h : read cfg (.union al fs) ctx d p = .ok (v, q)) :
    ∃ sz vs, q = p + sz ∧ readMembers cfg fs [] (sread d p sz) = .ok vs := by
  rw [read] at h
  split at h
  · cases h
  · rename_i sz _
    simp only [] at h
    split at h
    · cases h
    · rename_i vs hm
      cases h
      exact ⟨sz, vs, rfl, hm⟩

theorem fwd_union (cfg : Cfg) (al : Bool) (fs : Fields) : Fwd cfg (.union al fs) := by
  intro ctx d p v q h
  obtain ⟨sz, vs, rfl, _⟩ := read_union_inv cfg al fs ctx d p v q h
  omega

theorem str_union (cfg : Cfg) (al : Bool) (name an ty bits rest) (hS : Str cfg ty) :
    Str cfg (.union al (.cons name an ty bits rest)) := by
  intro ctx d p v q h
  obtain ⟨sz, vs, rfl, hm⟩ := read_union_inv cfg al _ ctx d p v q h
  rw [readMembers] at hm
  split at hm
  · cases hm
  · rename_i v' q' hr
    have := (hS _ _ _ _ _ hr).2
    have hl := sread_length d p sz
    exact ⟨by omega, by omega⟩

/-! ### induction over the type -/

mutual
/-- every successful read ends at or behind its start, whatever the type -/
theorem fwd_ty (cfg : Cfg) : ∀ t : Ty, Fwd cfg t
  | .sc s a => fwd_sc cfg s a
  | .enum b a f => fwd_enum cfg b a f
  | .ptr t => fwd_ptr cfg t
  | .arr e len => by
    have hF := fwd_ty cfg e
    intro ctx d p v q hr
    cases len with
    | fixed n =>
      rw [read_arr_fixed] at hr
      exact (readArray_adv cfg e hF n ctx d p v q hr).1
    | expr toks =>
      rw [read_arr_expr] at hr
      obtain ⟨n, _, h2⟩ := bind_ok hr
      exact (readArray_adv cfg e hF n ctx d p v q h2).1
    | nullTerm =>
      rw [read_arr_null] at hr
      exact read0_fwd cfg e hF ctx d p v q hr
    | eof =>
      rw [read_arr_eof] at hr
      exact readEOF_fwd cfg e hF ctx d p v q hr
  | .struct al fs => fwd_struct cfg al fs (fwd_fields cfg fs)
  | .union al fs => fwd_union cfg al fs
theorem fwd_fields (cfg : Cfg) : ∀ fs : Fields, FwdF cfg fs
  | .nil => fwdF_nil cfg
  | .cons name an ty bits rest => by
    rcases isBitW_cases bits with hb | ⟨b, rfl⟩
    · exact fwdF_cons cfg name an ty bits rest hb (fwd_ty cfg ty) (fwd_fields cfg rest)
    · exact fwdF_cons_bits cfg name an ty b rest (fwd_fields cfg rest)
end

theorem isBitW_of_match {bits : Option Nat} (h : (match bits with | some (_ + 1) => false | _ => true) = true) :
    isBitW bits = false := by
  rcases bits with _ | _ | b
  · rfl
  · rfl
  · simp at h

mutual
/-- every type of the class `consumes` takes at least one byte from inside the input on every successful read -/
theorem str_ty (cfg : Cfg) : ∀ t : Ty, consumes cfg t = true → Str cfg t
  | .sc s a, h => str_sc cfg s a (by simpa [consumes] using h)
  | .enum b a f, h => str_enum cfg b a f (by simpa [consumes] using h)
  | .ptr t, h => str_ptr cfg t (by simpa [consumes] using h)
  | .arr e len, h => by
    simp only [consumes, Bool.and_eq_true] at h
    have hF := fwd_ty cfg e
    have hS := str_ty cfg e h.2
    intro ctx d p v q hr
    cases len with
    | fixed n =>
      rw [read_arr_fixed] at hr
      exact (readArray_adv cfg e hF n ctx d p v q hr).2 h.2 hS (by simpa using h.1)
    | expr toks => simp at h
    | nullTerm =>
      rw [read_arr_null] at hr
      exact read0_str cfg e h.2 hF hS ctx d p v q hr
    | eof => simp at h
  | .struct al fs, h => str_struct cfg al fs (str_fields cfg fs (by simpa [consumes] using h))
  | .union al fs, h => str_first cfg fs (by simpa [consumes] using h) al
theorem str_fields (cfg : Cfg) : ∀ fs : Fields, fieldsConsume cfg fs = true → StrF cfg fs
  | .nil, h => by simp [fieldsConsume] at h
  | .cons name an ty bits rest, h => by
    simp only [fieldsConsume, Bool.and_eq_true, Bool.or_eq_true] at h
    rcases h with h2 | h2
    · exact strF_cons_here cfg name an ty bits rest (isBitW_of_match h2.1.1) (str_ty cfg ty h2.1.2)
        (by simpa using h2.2) (fwd_fields cfg rest)
    · rcases isBitW_cases bits with hb | ⟨b, rfl⟩
      · exact strF_cons_later cfg name an ty bits rest hb (fwd_ty cfg ty) (str_fields cfg rest h2)
      · exact strF_cons_later_bits cfg name an ty b rest (str_fields cfg rest h2)
theorem str_first (cfg : Cfg) : ∀ fs : Fields, firstConsumes cfg fs = true → ∀ al, Str cfg (.union al fs)
  | .nil, h => by simp [firstConsumes] at h
  | .cons name an ty bits rest, h => fun al =>
    str_union cfg al name an ty bits rest (str_ty cfg ty (by simpa [firstConsumes] using h))
end

/-- **structures and unions of the class `consumes` make progress** -/
theorem progress_consumes (cfg : Cfg) (e : Ty) (ctx : Ctx) (d : Bytes) (hs : isStructLike e = true)
    (hc : consumes cfg e = true) : Progress cfg e ctx d := by
  intro p v q h _
  have : elemRead cfg e ctx d p = read cfg e ctx d p := by
    cases e <;> first | rfl | simp [isStructLike] at hs
  rw [this] at h
  exact str_ty cfg e hc ctx d p v q h

end Cstruct.C07.Lemmas
