/-
  C13, round trip — helper lemmas (1): digits, dimension texts, the declarator a rendered declarator parses to.
-/
import Proofs.Spec.C13Render
import Proofs.Lemmas.C13ParseM

namespace Cstruct.DefParser.C13
open Cstruct.DefParser

-- ------------------------------------------------------------------------------------------------ digits
theorem digitChar_spec : ∀ k, k < 10 → (digitChar k).toNat - '0'.toNat = k ∧ (digitChar k).isDigit = true := by decide

def digStep (n : Nat) (c : Char) : Nat := 10 * n + (c.toNat - '0'.toNat)

theorem natDigitsAux_foldl : ∀ (f n : Nat) (acc : List Char), n < f →
    (natDigitsAux f n acc).foldl digStep 0 = acc.foldl digStep n
  | 0, _, _, h => by omega
  | f + 1, n, acc, h => by
    unfold natDigitsAux
    split
    · rename_i hn
      have := (digitChar_spec n hn).1
      simp only [List.foldl, digStep, Nat.mul_zero, Nat.zero_add, this]
    · rename_i hn
      rw [natDigitsAux_foldl f (n / 10) _ (by omega)]
      have := (digitChar_spec (n % 10) (Nat.mod_lt _ (by omega))).1
      simp only [List.foldl, digStep, this]
      congr 1
      omega

theorem digitsToNat_natDigits (n : Nat) : digitsToNat (natDigits n) = n := by
  have := natDigitsAux_foldl (n + 1) n [] (by omega)
  exact this

theorem natDigitsAux_digits : ∀ (f n : Nat) (acc : List Char), acc.all Char.isDigit = true →
    (natDigitsAux f n acc).all Char.isDigit = true
  | 0, _, _, h => h
  | f + 1, n, acc, h => by
    unfold natDigitsAux
    split
    · rename_i hn; simp [(digitChar_spec n hn).2, h]
    · exact natDigitsAux_digits f _ _ (by simp [(digitChar_spec (n % 10) (Nat.mod_lt _ (by omega))).2, h])

theorem natDigitsAux_ne_nil : ∀ (f n : Nat) (acc : List Char), 0 < f → natDigitsAux f n acc ≠ []
  | f + 1, n, acc, _ => by
    unfold natDigitsAux
    split
    · simp
    · cases f with
      | zero => simp [natDigitsAux]
      | succ f => exact natDigitsAux_ne_nil (f + 1) _ _ (by omega)

theorem natDigits_ok (n : Nat) : natDigits n ≠ [] ∧ (natDigits n).all Char.isDigit = true :=
  ⟨natDigitsAux_ne_nil _ _ _ (by omega), natDigitsAux_digits _ _ _ rfl⟩

-- ------------------------------------------------------------------------------------------------ dimensions
theorem splitDims_single' (l : List Char) (h : ∀ c ∈ l, c ≠ ']') : splitDims l = [l] := splitDims_single l h

theorem splitDims_cons (d : List Char) (rest : List Char) (h : ∀ c ∈ d, c ≠ ']') :
    splitDims (d ++ ']' :: '[' :: rest) = d :: splitDims rest := by
  induction d with
  | nil => simp [splitDims]
  | cons c d ih =>
    have hc : c ≠ ']' := h c (by simp)
    have ih' := ih (fun x hx => h x (by simp [hx]))
    cases d with
    | nil => simp [splitDims, hc] at ih' ⊢
    | cons e d' =>
      simp only [List.cons_append] at ih' ⊢
      simp [splitDims, hc, ih']

theorem splitDims_joinDims : ∀ (ds : List (List Char)), ds ≠ [] → (∀ d ∈ ds, ∀ c ∈ d, c ≠ ']') → splitDims (joinDims ds) = ds
  | [], h, _ => absurd rfl h
  | [d], _, h => splitDims_single d (h d (by simp))
  | d :: e :: r, _, h => by
    simp only [joinDims]
    rw [splitDims_cons d _ (h d (by simp)), splitDims_joinDims (e :: r) (by simp) (fun x hx => h x (by simp [hx]))]

theorem map_strip_id : ∀ (l : List (List Char)), (∀ x ∈ l, strip x = x) → l.map strip = l
  | [], _ => rfl
  | x :: r, h => by simp [h x (by simp), map_strip_id r (fun y hy => h y (by simp [hy]))]

-- ------------------------------------------------------------------------------------------------ declarators
theorem preOK_replicate (n : Nat) : preOK (List.replicate n '*') = true := by
  cases n with
  | zero => rfl
  | succ n => simp [List.replicate, preOK]

theorem stars_replicate (n : Nat) : stars (List.replicate n '*') = n := by simp [stars]

theorem joinDims_all (p : Char → Bool) (h1 : p ']' = true) (h2 : p '[' = true) : ∀ (ds : List (List Char)), (∀ d ∈ ds, d.all p = true) →
    (joinDims ds).all p = true
  | [], _ => rfl
  | [d], h => h d (by simp)
  | d :: e :: r, h => by
    simp only [joinDims, List.all_append, List.all_cons, h1, h2, Bool.true_and, Bool.and_eq_true]
    exact ⟨h d (by simp), joinDims_all p h1 h2 (e :: r) (fun x hx => h x (by simp [hx]))⟩

theorem dimOK_spec (d : List Char) (h : dimOK d = true) :
    (∀ c ∈ d, c ≠ ']') ∧ d.all (fun c => c != ';' && c != '\n') = true ∧ strip d = d ∧ plainText d = true := by
  simp only [dimOK, Bool.and_eq_true, beq_iff_eq, List.all_eq_true, bne_iff_ne, ne_eq] at h
  refine ⟨fun c hc => (h.1.1 c hc).1.1.1, ?_, h.2, h.1.2⟩
  simp only [List.all_eq_true, Bool.and_eq_true, bne_iff_ne, ne_eq]
  exact fun c hc => ⟨(h.1.1 c hc).1.2, (h.1.1 c hc).2⟩

theorem declrLex_wf (ab : Bool) (d : Declarator) (h : declrWF ab d = true) : (declrLex d).wf = true := by
  obtain ⟨ptr, name, dims, bits⟩ := d
  simp only [declrWF, Bool.and_eq_true, Bool.or_eq_true, bne_iff_ne, ne_eq, Bool.not_eq_true'] at h
  obtain ⟨⟨⟨⟨hname, hkw⟩, hdims⟩, -⟩, -⟩ := h
  have hpre := preOK_replicate ptr
  have hk : (!(List.replicate ptr '*').isEmpty || !isKeyword name) = true := by
    rcases hkw with h | h
    · cases ptr with
      | zero => exact absurd rfl h
      | succ n => simp [List.replicate]
    · simp [h]
  simp only [declrLex, Lexeme.wf, hpre, hk, hname, Bool.and_self, Bool.true_and]
  have h1 : ∀ b : Nat, (blank [] && blank [] && !(natDigits b).isEmpty && (natDigits b).all Char.isDigit) = true := by
    intro b
    have := natDigits_ok b
    simp [blank, this.2, this.1]
  cases bits with
  | none =>
    cases dims with
    | nil => rfl
    | cons e r =>
      simp only [Option.map, List.isEmpty_cons, Bool.false_eq_true, if_false, Bool.true_and]
      exact joinDims_all _ (by decide) (by decide) (e :: r) (fun x hx => (dimOK_spec x ((List.all_eq_true.mp hdims) x hx)).2.1)
  | some b =>
    cases dims with
    | nil => simp only [Option.map, h1 b]; rfl
    | cons e r =>
      simp only [Option.map, h1 b, List.isEmpty_cons, Bool.false_eq_true, if_false, Bool.true_and]
      exact joinDims_all _ (by decide) (by decide) (e :: r) (fun x hx => (dimOK_spec x ((List.all_eq_true.mp hdims) x hx)).2.1)

theorem parseDeclarator_declrLex (ab : Bool) (d : Declarator) (h : declrWF ab d = true) :
    parseDeclarator (declrLex d).text = .ok d := by
  have hwf := declrLex_wf ab d h
  have := parseDeclarator_lexeme _ _ _ _ hwf
  obtain ⟨ptr, name, dims, bits⟩ := d
  simp only [declrLex] at this ⊢
  rw [this]
  simp only [declrWF, Bool.and_eq_true, Bool.or_eq_true, bne_iff_ne, ne_eq, Bool.not_eq_true'] at h
  obtain ⟨⟨⟨-, hdims⟩, hdrop⟩, -⟩ := h
  have hdrop' : (dims.dropLast.any fun x => x.isEmpty) = false := by simpa using hdrop
  have hb : Option.map (fun t : List Char × List Char × List Char => digitsToNat t.2.2) (Option.map (fun b => (([] : List Char), ([] : List Char), natDigits b)) bits) = bits := by
    cases bits with
    | none => rfl
    | some b => simp [digitsToNat_natDigits]
  cases dims with
  | nil => simp [stars_replicate, hb]
  | cons e r =>
    have hall : ∀ x ∈ e :: r, dimOK x = true := List.all_eq_true.mp hdims
    have hd : (splitDims (joinDims (e :: r))).map strip = e :: r := by
      rw [splitDims_joinDims (e :: r) (by simp) (fun x hx => (dimOK_spec x (hall x hx)).1)]
      exact map_strip_id _ (fun x hx => (dimOK_spec x (hall x hx)).2.2.1)
    simp only [List.isEmpty_cons, Bool.false_eq_true, if_false, hd, hdrop', stars_replicate, hb]

end Cstruct.DefParser.C13
