/-
  Helper lemmas for `Proofs/CoreBits.lean`, part 6: totality of the packed writer on values of the type, member loop
  (statements `WtTy`, `WtIdle`, `WtPend` and their cases).
-/
import Proofs.Lemmas.CoreBitsSize
namespace Cstruct.Core.Lemmas
open Cstruct Cstruct.Core Cstruct.C06 Cstruct.C06.Lemmas
open Cstruct.C05.Lemmas (encBytes encBytes_length)
set_option linter.unusedSimpArgs false

/-! ### Writing is total on the values of a type whose layout is accepted (packed) -/

def WtTy (cfg : Cfg) (ty : Ty) : Prop :=
  ty.fragSB cfg = true → ty.uniformAlign false = true → ty.defErr cfg = none → ∀ v, HasTyB cfg v ty → ∀ pos,
    ∃ bs, write cfg ty v pos = .ok bs ∧ ty.size cfg = some bs.length

def WtIdle (cfg : Cfg) (fs : Fields) : Prop :=
  Fields.fragSB cfg fs = true → Fields.uniformAlign false fs = true → Fields.defErr cfg fs = none →
  ∀ vs, HasTysB cfg vs fs → ∀ st sz sa offs, Fields.layout cfg false fs st = .ok (sz, sa, offs) → LIdle st fs →
  ∀ o, st.offset = some o → ∀ start,
    ∃ out bbF fl, writeFields cfg false fs offs vs start BitBuf.empty (start + o) = .ok (out, bbF) ∧
      flushBits cfg bbF = .ok fl ∧ sz = some (o + (out ++ fl).length)

def WtPend (cfg : Cfg) (fs : Fields) : Prop :=
  Fields.fragSB cfg fs = true → Fields.uniformAlign false fs = true → Fields.defErr cfg fs = none →
  ∀ vs, HasTysB cfg vs fs → ∀ st sz sa offs, Fields.layout cfg false fs st = .ok (sz, sa, offs) →
  ∀ ft fsz k n bbW, Pend cfg st ft fsz k n bbW → ∀ uo, st.offset = some (uo + fsz) → ∀ start,
    ∃ out bbF fl, writeFields cfg false fs offs vs start bbW (start + uo) = .ok (out, bbF) ∧
      flushBits cfg bbF = .ok fl ∧ sz = some (uo + (out ++ fl).length)

theorem wt_bit_step (cfg : Cfg) (rest : Fields) (IHi : WtIdle cfg rest) (IHp : WtPend cfg rest)
    (hS : Fields.fragSB cfg rest = true) (hU : Fields.uniformAlign false rest = true)
    (hD : Fields.defErr cfg rest = none) (vs' : Vals)
    (hvs : HasTysB cfg vs' rest) (st1 : LState) (sz sa offs') (hlay : Fields.layout cfg false rest st1 = .ok (sz, sa, offs'))
    (ft : Scalar) (fsz k n w : Nat) (bb2 : BitBuf) (hi : Scalar.isInt ft = true) (hsz : ft.size = some fsz)
    (hbt : st1.bitsType = some ft) (hbr : st1.bitsRemaining = ((8 * fsz - (k + w) : Nat) : Int)) (hkw : k + w ≤ 8 * fsz)
    (hoff : st1.offset = st1.bitsFieldOffset.map (· + fsz)) (hty : bb2.ty = some ft)
    (hinv : WriteInv cfg.endian (8 * fsz) k n bb2) (hn : n < 2 ^ k) (i : Int) (hi0 : 0 ≤ i) (hi1 : i < 2 ^ w)
    (uo : Nat) (ho : st1.offset = some (uo + fsz)) (start : Nat) :
    ∃ out bbF fl, putStep cfg rest offs' vs' start fsz i w bb2 (start + uo) = .ok (out, bbF) ∧
      flushBits cfg bbF = .ok fl ∧ sz = some (uo + (out ++ fl).length) := by
  obtain ⟨m, rfl⟩ := Int.eq_ofNat_of_zero_le hi0
  have hm : m < 2 ^ w := by exact_mod_cast hi1
  obtain ⟨bb3, hput, hinv3⟩ := put_step cfg.endian fsz k n w m bb2 hinv hn hm hkw
  have hn3 := acc_lt cfg.endian k n m w hn hm
  have hty3 : bb3.ty = some ft := by rw [put_ty hput, hty]
  simp only [putStep, hput]
  by_cases hex : k + w = 8 * fsz
  · have hrem3 : bb3.remaining = 0 := by rw [hinv3.1]; omega
    obtain ⟨F, hfl3, hF, hrel⟩ := flush_pend cfg ft fsz (k + w) _ bb3 hty3 hsz hinv3 hn3 (by omega)
    have hl3 : (encBytes cfg.endian fsz F).length = fsz := encBytes_length _ _ _
    obtain ⟨o, bbF, fl, hw, hfl, hs⟩ := IHi hS hU hD vs' hvs st1 sz sa offs' hlay
      (lidle_of_rem st1 (by rw [hbr]; omega) rest) (uo + fsz) ho start
    refine ⟨encBytes cfg.endian fsz F ++ o, bbF, fl, ?_, hfl, ?_⟩
    · simp only [hrem3, if_true, hfl3, Except.bind, hl3]
      rw [show start + uo + fsz = start + (uo + fsz) by omega, hw]
    · rw [hs]; simp only [List.length_append, hl3]; congr 1; omega
  · have hrem3 : bb3.remaining ≠ 0 := by rw [hinv3.1]; omega
    have hP : Pend cfg st1 ft fsz (k + w) (acc cfg.endian k n m w) bb3 :=
      ⟨hi, hsz, hbt, hbr, by omega, hoff, hty3, hinv3, hn3⟩
    obtain ⟨o, bbF, fl, hw, hfl, hs⟩ := IHp hS hU hD vs' hvs st1 sz sa offs' hlay ft fsz _ _ bb3 hP uo ho start
    refine ⟨o, bbF, fl, ?_, hfl, hs⟩
    simp only [hrem3, if_false, Except.bind, List.length_nil, Nat.add_zero, List.nil_append, hw]

theorem wt_idle_nil (cfg : Cfg) : WtIdle cfg .nil := by
  intro _ _ _ vs hvs st sz sa offs hlay _ o ho start
  cases hvs
  rw [layout_nil_packed] at hlay
  simp only [Except.ok.injEq, Prod.mk.injEq] at hlay
  obtain ⟨rfl, rfl, rfl⟩ := hlay
  exact ⟨[], BitBuf.empty, [], writeFields_nil .., rfl, by simpa using ho⟩

theorem wt_pend_nil (cfg : Cfg) : WtPend cfg .nil := by
  intro _ _ _ vs hvs st sz sa offs hlay ft fsz k n bbW hP uo ho start
  cases hvs
  rw [layout_nil_packed] at hlay
  simp only [Except.ok.injEq, Prod.mk.injEq] at hlay
  obtain ⟨rfl, rfl, rfl⟩ := hlay
  obtain ⟨F, hfl, hF, hrel⟩ := flush_pend cfg ft fsz k n bbW hP.wty hP.size hP.winv hP.nlt (by have := hP.lt; omega)
  have hl : (encBytes cfg.endian fsz F).length = fsz := encBytes_length _ _ _
  exact ⟨[], bbW, _, writeFields_nil .., hfl, by simp only [List.nil_append, hl]; exact ho⟩

theorem defErr_cons {cfg : Cfg} {name an ty bits rest} (h : Fields.defErr cfg (.cons name an ty bits rest) = none) :
    ty.defErr cfg = none ∧ Fields.defErr cfg rest = none := by
  simp only [Fields.defErr] at h
  split at h
  · cases h
  · rename_i h1; exact ⟨h1, h⟩

theorem wt_idle_cons_nb (cfg : Cfg) (name an ty rest) (IHt : WtTy cfg ty) (IHi : WtIdle cfg rest) :
    WtIdle cfg (.cons name an ty none rest) := by
  intro hS hU hD vs hvs st sz sa offs hlay _ o ho start
  simp only [Fields.fragSB, Bool.and_eq_true] at hS
  simp only [Fields.uniformAlign, Bool.and_eq_true] at hU
  obtain ⟨hD1, hD2⟩ := defErr_cons hD
  cases hvs with
  | @cons v vs' _ _ _ _ hv hvs' =>
  rw [layout_nb] at hlay
  obtain ⟨⟨sz', sa', offs'⟩, hlay', heq⟩ := bind_ok hlay
  simp only [Except.ok.injEq, Prod.mk.injEq] at heq
  obtain ⟨rfl, rfl, rfl⟩ := heq
  obtain ⟨body, hwb, hsb⟩ := IHt hS.1 hU.1 hD1 v hv (start + o)
  have ho' : (stNb cfg ty st).offset = some (o + body.length) := by simp only [stNb, ho, hsb]
  obtain ⟨out, bbF, fl, hw, hfl, hs⟩ := IHi hS.2 hU.2 hD2 vs' hvs' _ sz' sa' offs' hlay' (lidle_of_rem _ rfl rest) _ ho' start
  refine ⟨body ++ out, bbF, fl, ?_, hfl, ?_⟩
  · rw [writeFields_nb_idle cfg name an ty rest st.offset offs' v vs' start (start + o)
      (fun fo h => by rw [ho] at h; cases h; rfl), hwb]
    simp only [Except.bind]
    rw [show start + o + body.length = start + (o + body.length) by omega, hw]
  · rw [hs]; simp only [List.length_append]; congr 1; omega

theorem wt_idle_cons_bit (cfg : Cfg) (name an ty b rest) (IHi : WtIdle cfg rest) (IHp : WtPend cfg rest) :
    WtIdle cfg (.cons name an ty (some (b + 1)) rest) := by
  intro hS hU hD vs hvs st sz sa offs hlay hli o ho start
  simp only [Fields.fragSB, Bool.and_eq_true] at hS
  simp only [Fields.uniformAlign, Bool.and_eq_true] at hU
  obtain ⟨_, hD2⟩ := defErr_cons hD
  obtain ⟨v, vs', rfl⟩ := hasTysB_cons_vals hvs
  obtain ⟨i, rfl, hi0, hi1, hvs'⟩ := hasTysB_bits hvs
  obtain ⟨ft, fsz, hbase, hint, hsz⟩ := bitOk_base ty hS.1
  have hnew : st.bitsRemaining = 0 ∨ some ft ≠ st.bitsType := by
    rcases hli with h | h
    · exact Or.inl h
    · rw [hbase] at h; exact Or.inr h
  rw [layout_bit_new cfg name an ty b rest st ft fsz hbase hsz hnew] at hlay
  split at hlay
  · cases hlay
  rename_i hfit
  obtain ⟨⟨sz', sa', offs'⟩, hlay', heq⟩ := bind_ok hlay
  simp only [Except.ok.injEq, Prod.mk.injEq] at heq
  obtain ⟨rfl, rfl, rfl⟩ := heq
  have h8 : fsz * 8 = 8 * fsz := Nat.mul_comm _ _
  obtain ⟨out, bbF, fl, hw, hfl, hs⟩ := wt_bit_step cfg rest IHi IHp hS.2 hU.2 hD2 vs' hvs'
    (stNew cfg ty ft fsz (b + 1) st) sz' sa' offs' hlay' ft fsz 0 0 (b + 1)
    { ty := some ft, buffer := 0, remaining := fsz * 8 } hint hsz rfl
    (by simp only [stNew]; omega) (by omega) rfl rfl (by rw [h8]; exact writeInv_init _ _ _) (by simp) i hi0 hi1
    o (by simp only [stNew, ho, Option.map]) start
  refine ⟨out, bbF, fl, ?_, hfl, hs⟩
  rw [writeFields_bit_idle cfg name an ty b rest st.offset offs' _ vs' start (start + o) ft fsz i
    (fun fo h => by rw [ho] at h; cases h; rfl) hbase hsz (bitVal_cases ty i), hw]

theorem wt_pend_cons (cfg : Cfg) (name an ty bits rest) (Hidle : WtIdle cfg (.cons name an ty bits rest))
    (IHi : WtIdle cfg rest) (IHp : WtPend cfg rest) : WtPend cfg (.cons name an ty bits rest) := by
  intro hS hU hD vs hvs st sz sa offs hlay ft fsz k n bbW hP uo ho start
  obtain ⟨v, vs', rfl⟩ := hasTysB_cons_vals hvs
  by_cases hsame : isBitW bits = true ∧ ty.bitBase = some ft
  · obtain ⟨hb, hbase⟩ := hsame
    rcases bits with _ | _ | b
    · simp [isBitW] at hb
    · simp [isBitW] at hb
    simp only [Fields.fragSB, Bool.and_eq_true] at hS
    simp only [Fields.uniformAlign, Bool.and_eq_true] at hU
    obtain ⟨_, hD2⟩ := defErr_cons hD
    obtain ⟨i, rfl, hi0, hi1, hvs'⟩ := hasTysB_bits hvs
    have hrem : st.bitsRemaining ≠ 0 := by rw [hP.lrem]; have := hP.lt; omega
    rw [layout_bit_cont cfg name an ty b rest st ft fsz hbase hP.size hrem hP.lty hP.loff] at hlay
    split at hlay
    · cases hlay
    rename_i hfit
    obtain ⟨⟨sz', sa', offs'⟩, hlay', heq⟩ := bind_ok hlay
    simp only [Except.ok.injEq, Prod.mk.injEq] at heq
    obtain ⟨rfl, rfl, rfl⟩ := heq
    have hwrem : bbW.remaining ≠ 0 := by rw [hP.winv.1]; have := hP.lt; omega
    rw [hP.lrem] at hfit
    obtain ⟨out, bbF, fl, hw, hfl, hs⟩ := wt_bit_step cfg rest IHi IHp hS.2 hU.2 hD2 vs' hvs'
      (stCont cfg ty (b + 1) st) sz' sa' offs' hlay' ft fsz k n (b + 1) bbW hP.isInt hP.size hP.lty
      (by simp only [stCont, hP.lrem]; omega) (by omega) hP.loff hP.wty hP.winv hP.nlt i hi0 hi1 uo ho start
    refine ⟨out, bbF, fl, ?_, hfl, hs⟩
    rw [writeFields_bit_cont cfg name an ty b rest none offs' _ vs' start _ ft fsz i bbW (fun fo h => by cases h) hbase
      hP.size (bitVal_cases ty i) hP.wty hwrem, hw]
  · have hne : isBitW bits = false ∨ ty.bitBase ≠ some ft := by
      by_cases h1 : isBitW bits = true
      · exact Or.inr (fun h2 => hsame ⟨h1, h2⟩)
      · exact Or.inl (by simpa using h1)
    obtain ⟨F, hfl0, hF, hrel⟩ := flush_pend cfg ft fsz k n bbW hP.wty hP.size hP.winv hP.nlt (by have := hP.lt; omega)
    have hl0 : (encBytes cfg.endian fsz F).length = fsz := encBytes_length _ _ _
    have hli : LIdle st (.cons name an ty bits rest) := by
      rcases bits with _ | _ | b
      · trivial
      · trivial
      · right
        rw [hP.lty]
        rcases hne with h | h
        · simp [isBitW] at h
        · exact h
    obtain ⟨o, bbF, fl, hw, hfl, hs⟩ := Hidle hS hU hD _ hvs st sz sa offs hlay hli (uo + fsz) ho start
    refine ⟨encBytes cfg.endian fsz F ++ o, bbF, fl, ?_, hfl, ?_⟩
    · rw [writeFields_flush cfg false name an ty bits rest offs v vs' start bbW _ ft hP.wty hne, hfl0]
      simp only [Except.bind, hl0]
      rw [show start + uo + fsz = start + (uo + fsz) by omega, hw]
    · rw [hs]; simp only [List.length_append, hl0]; congr 1; omega

end Cstruct.Core.Lemmas
