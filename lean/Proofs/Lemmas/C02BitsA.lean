/-
  Helper lemmas for `Proofs/C02Bits.lean`, part 1: byte masks (`andBytes`), the bytes of a masked storage unit, and the
  one-unit facts of the forward direction (parse, then dump): what the reader loads from the input, what one `put` of a
  value just taken from that unit does to the writer's buffer, and what a flush emits.

  Invariant carried through a run of bit-fields (see `C02BitsB.lean`): with `F` the unsigned value of the input bytes of
  the unit and `M` the mask of the fields handed out so far, the writer's buffer is `F &&& M` — in either byte order,
  because `BitBuf.put` places a field at the very slot (`slotLo`) `BitBuf.take` extracted it from.
-/
import Proofs.Spec.C02Bits
import Proofs.Lemmas.CoreBitsWT
namespace Cstruct.C02B.Lemmas
open Cstruct Cstruct.Core Cstruct.Core.Lemmas Cstruct.C06 Cstruct.C06.Lemmas Cstruct.C02B
open Cstruct.C05.Lemmas (encBytes encBytes_length)
set_option linter.unusedSimpArgs false

/-! ### Byte masks -/

theorem u8_and_ff (b : UInt8) : b &&& 0xFF = b := by
  apply UInt8.eq_of_toBitVec_eq
  show b.toBitVec &&& BitVec.allOnes 8 = b.toBitVec
  exact BitVec.and_allOnes

theorem u8_ofNat_and (x y : Nat) : UInt8.ofNat (x &&& y) = UInt8.ofNat x &&& UInt8.ofNat y := by
  apply UInt8.eq_of_toBitVec_eq
  simp

theorem andBytes_nil : andBytes [] [] = [] := rfl

theorem andBytes_length (w m : Bytes) : (andBytes w m).length = min w.length m.length := by
  simp [andBytes]

theorem andBytes_append (w1 w2 m1 m2 : Bytes) (h : w1.length = m1.length) :
    andBytes (w1 ++ w2) (m1 ++ m2) = andBytes w1 m1 ++ andBytes w2 m2 := by
  unfold andBytes
  exact List.zipWith_append h

theorem andBytes_ff : ∀ (n : Nat) (w : Bytes), w.length = n → andBytes w (List.replicate n 0xFF) = w
  | 0, [], _ => rfl
  | n + 1, b :: r, h => by
    have ih := andBytes_ff n r (by simpa using h)
    unfold andBytes at ih ⊢
    simp only [List.replicate_succ, List.zipWith_cons_cons, ih, u8_and_ff]
  | 0, _ :: _, h => by simp at h
  | _ + 1, [], h => by simp at h

theorem andBytes_nil_left (m : Bytes) : andBytes [] m = [] := by simp [andBytes]

theorem andBytes_nil_right (w : Bytes) : andBytes w [] = [] := by simp [andBytes]

/-! ### The bytes of a unit -/

theorem unitBytes_eq (e : Endian) (n m : Nat) : unitBytes e n m = encBytes e n m := rfl

theorem unitBytes_length (e : Endian) (n m : Nat) : (unitBytes e n m).length = n := encBytes_length e n m

theorem toLE_and : ∀ (n a b : Nat), toLE n (a &&& b) = List.zipWith (· &&& ·) (toLE n a) (toLE n b)
  | 0, _, _ => rfl
  | n + 1, a, b => by
    simp only [toLE, List.zipWith_cons_cons]
    have h1 : (a &&& b) % 256 = (a % 256) &&& (b % 256) := Nat.and_mod_two_pow (n := 8)
    have h2 : (a &&& b) / 256 = (a / 256) &&& (b / 256) := Nat.and_div_two_pow (n := 8)
    rw [h1, h2, u8_ofNat_and, toLE_and n]

theorem encBytes_and (e : Endian) (n a b : Nat) :
    encBytes e n (a &&& b) = andBytes (encBytes e n a) (encBytes e n b) := by
  cases e with
  | little => exact toLE_and n a b
  | big =>
    show (toLE n (a &&& b)).reverse = List.zipWith _ (toLE n a).reverse (toLE n b).reverse
    rw [toLE_and, List.reverse_zipWith (by simp [C05.Lemmas.toLE_length])]

/-- the unit written back: the input bytes of the unit, masked -/
theorem unit_and (e : Endian) (ub : Bytes) (fsz M : Nat) (h : ub.length = fsz) :
    encBytes e fsz (decodeNat e ub &&& M) = andBytes ub (unitBytes e fsz M) := by
  subst h
  rw [encBytes_and, C05.Lemmas.encBytes_decodeNat]; rfl

/-! ### Slots -/

theorem slot_or (F M lo w : Nat) : (F &&& M) ||| (F / 2 ^ lo % 2 ^ w) * 2 ^ lo = F &&& (M ||| slotMask lo w) := by
  apply Nat.eq_of_testBit_eq
  intro i
  simp only [Nat.testBit_or, Nat.testBit_and, slotMask, Nat.testBit_mul_two_pow, Nat.testBit_mod_two_pow,
    Nat.testBit_div_two_pow, Nat.testBit_two_pow_sub_one]
  by_cases h1 : lo ≤ i
  · by_cases h2 : i - lo < w
    · have : i - lo + lo = i := by omega
      simp only [h1, h2, this, decide_true, Bool.true_and]
      cases F.testBit i <;> simp
    · simp [h1, h2]
  · simp [h1]

theorem slotLo_le (e : Endian) (W k w : Nat) (h : k + w ≤ W) : slotLo e W k w + w ≤ W := by
  cases e <;> simp only [slotLo] <;> omega

/-- the value the reader takes out of a unit it loaded as `U` (possibly negative, for a signed storage type), in terms of
    the unsigned value `F` of the unit's bytes -/
theorem slotVal_of_emod (U : Int) (F W lo w : Nat) (hUF : U % ((2 ^ W : Nat) : Int) = (F : Int)) (h : lo + w ≤ W) :
    slotVal U lo w = ((F / 2 ^ lo % 2 ^ w : Nat) : Int) := by
  rw [← slotVal_emod U W lo w h, hUF]; rfl

/-- **one put**: the writer holds `F &&& M`, the value is the slot of `F` the reader just took; afterwards the writer holds
    `F &&& (M ||| slot)` -/
theorem put_mask (e : Endian) (fsz k w F M : Nat) (bb : BitBuf) (hrem : bb.remaining = 8 * fsz - k)
    (hbuf : bb.buffer = ((F &&& M : Nat) : Int)) (hkw : k + w ≤ 8 * fsz) :
    bb.put e fsz ((F / 2 ^ (slotLo e (8 * fsz) k w) % 2 ^ w : Nat) : Int) w =
      some { bb with buffer := ((F &&& (M ||| slotMask (slotLo e (8 * fsz) k w) w) : Nat) : Int),
                     remaining := 8 * fsz - (k + w) } := by
  have hnot : ¬ (w > bb.remaining) := by omega
  have hlt : F / 2 ^ (slotLo e (8 * fsz) k w) % 2 ^ w < 2 ^ w := Nat.mod_lt _ (Nat.two_pow_pos w)
  generalize hm : F / 2 ^ (slotLo e (8 * fsz) k w) % 2 ^ w = m at hlt
  have hrange : ¬ ((m : Int) < 0 ∨ (m : Int) ≥ shl 1 w) := by
    unfold shl
    have h1 : ((m : Nat) : Int) < ((2 ^ w : Nat) : Int) := Int.ofNat_lt.mpr hlt
    omega
  have hr2 : bb.remaining - w = 8 * fsz - (k + w) := by omega
  cases e with
  | little =>
    have hs : fsz * 8 - bb.remaining = k := by omega
    simp only [BitBuf.put, if_neg hnot, if_neg hrange, hs, hbuf, shl_nat, lor_nat, hr2]
    simp only [slotLo] at hm ⊢
    rw [← hm, slot_or]
  | big =>
    have hs : 8 * fsz - (k + w) = 8 * fsz - k - w := by omega
    simp only [BitBuf.put, if_neg hnot, if_neg hrange, hbuf, shl_nat, lor_nat, hr2]
    simp only [slotLo] at hm ⊢
    rw [← hm, ← hs, slot_or]

/-- **flush**: a unit holding the non-negative number `X` is emitted as the `fsz` bytes of `X` -/
theorem flush_nat (cfg : Cfg) (ft : Scalar) (fsz X : Nat) (bb : BitBuf) (hty : bb.ty = some ft) (hsz : ft.size = some fsz)
    (hbuf : bb.buffer = (X : Int)) (hX : X < 2 ^ (8 * fsz)) : flushBits cfg bb = .ok (encBytes cfg.endian fsz X) := by
  have hfit : fits fsz false (X : Int) = true := by
    simp only [fits, Bool.false_eq_true, if_false, decide_eq_true_eq]
    exact ⟨Int.natCast_nonneg _, by exact_mod_cast hX⟩
  simp only [flushBits, hty, hsz, hbuf, C05.Lemmas.encodeInt_eq _ _ _ _ hfit]
  have : ((X : Int) % ((2 ^ (8 * fsz) : Nat) : Int)).toNat = X := by
    rw [← Int.natCast_emod, Int.toNat_natCast, Nat.mod_eq_of_lt hX]
  rw [this]

theorem and_lt_of_lt (F M N : Nat) (h : F < N) : F &&& M < N := Nat.lt_of_le_of_lt Nat.and_le_left h

/-! ### Loading a unit from the input -/

theorem decodeInt_emod (e : Endian) (sg : Bool) (bs : Bytes) :
    decodeInt e sg bs % ((2 ^ (8 * bs.length) : Nat) : Int) = (decodeNat e bs : Int) := by
  have hF := C05.Lemmas.decodeNat_lt e bs
  have hpos : (0 : Int) < ((2 ^ (8 * bs.length) : Nat) : Int) := by exact_mod_cast Nat.two_pow_pos _
  have hlt : (decodeNat e bs : Int) < ((2 ^ (8 * bs.length) : Nat) : Int) := by exact_mod_cast hF
  unfold decodeInt
  simp only []
  split
  · rw [Int.sub_emod_right, Int.emod_eq_of_lt (Int.natCast_nonneg _) hlt]
  · exact Int.emod_eq_of_lt (Int.natCast_nonneg _) hlt

theorem readUnit_fwd (cfg : Cfg) (ft : Scalar) (hi : Scalar.isInt ft = true) (fsz : Nat) (hsz : ft.size = some fsz)
    (d : Bytes) (pos : Nat) (hlen : pos + fsz ≤ d.length) :
    ∃ U : Int, readScalar cfg ft d pos = .ok (.int U, pos + fsz) ∧
      U % ((2 ^ (8 * fsz) : Nat) : Int) = (decodeNat cfg.endian (sread d pos fsz) : Int) := by
  have hl := sread_length_of_le d pos fsz hlen
  have hdec : ∀ sg, decodeInt cfg.endian sg (sread d pos fsz) % ((2 ^ (8 * fsz) : Nat) : Int) =
      (decodeNat cfg.endian (sread d pos fsz) : Int) := by
    intro sg
    have := decodeInt_emod cfg.endian sg (sread d pos fsz)
    rwa [hl] at this
  cases ft with
  | pint n sg =>
    simp only [Scalar.size, Option.some.injEq] at hsz; subst hsz
    refine ⟨_, ?_, hdec sg⟩
    simp only [readScalar, bind, pure, readExact_of_le d pos n hlen, Except.bind, Except.pure]
  | aint n sg =>
    simp only [Scalar.size, Option.some.injEq] at hsz; subst hsz
    refine ⟨_, ?_, hdec sg⟩
    simp only [readScalar, bind, pure, readExact_of_le d pos n hlen, Except.bind, Except.pure]
  | pflt n => simp [Scalar.isInt] at hi
  | char => simp [Scalar.isInt] at hi
  | wchar => simp [Scalar.isInt] at hi
  | leb sg => simp [Scalar.isInt] at hi
  | void => simp [Scalar.isInt] at hi

theorem loadUnit_fwd (cfg : Cfg) (ft : Scalar) (hi : Scalar.isInt ft = true) (fsz : Nat) (hsz : ft.size = some fsz)
    (d : Bytes) (pos : Nat) (hlen : pos + fsz ≤ d.length) (bbR : BitBuf) (hc : bbR.remaining = 0 ∨ bbR.ty ≠ some ft) :
    ∃ U : Int, loadUnit cfg ft bbR d pos = .ok ({ ty := some ft, buffer := U, remaining := fsz * 8 }, pos + fsz) ∧
      U % ((2 ^ (8 * fsz) : Nat) : Int) = (decodeNat cfg.endian (sread d pos fsz) : Int) := by
  obtain ⟨U, hU, hUF⟩ := readUnit_fwd cfg ft hi fsz hsz d pos hlen
  refine ⟨U, ?_, hUF⟩
  simp only [loadUnit, hc, if_true, hsz, hU, unitInt]

/-! ### Typing of a parsed bit-field -/

theorem hasTysB_bitVal {cfg : Cfg} {name an} {ty : Ty} {b : Nat} {r : Fields} {vs : Vals} (hok : ty.bitOk = true) (v : Int)
    (h0 : 0 ≤ v) (h1 : v < 2 ^ (b + 1)) (hvs : HasTysB cfg vs r) :
    HasTysB cfg (.cons (bitVal ty v) vs) (.cons name an ty (some (b + 1)) r) := by
  cases ty with
  | sc s a => exact .bitsInt h0 h1 hvs
  | enum s a f => exact .bitsEnum h0 h1 hvs
  | ptr _ => simp [Ty.bitOk] at hok
  | arr _ _ => simp [Ty.bitOk] at hok
  | struct _ _ => simp [Ty.bitOk] at hok
  | union _ _ => simp [Ty.bitOk] at hok

theorem bitVal_cases' (ty : Ty) (v : Int) : bitVal ty v = .int v ∨ bitVal ty v = .enum v := by
  cases ty <;> simp [bitVal]

end Cstruct.C02B.Lemmas
