import Proofs.Spec.C04
import CstructModel.Gen.TypeTable
namespace Cstruct.C04.Lemmas
open Cstruct Cstruct.C04

/-! ### The bit trick -/

theorem ldiff_mask (k m : Nat) :
    Nat.bitwise (fun a b => a && !b) (2^k - 1) m = 2^k - 1 - m % 2^k := by
  apply Nat.eq_of_testBit_eq
  intro i
  rw [Nat.testBit_bitwise (by rfl)]
  have h1 : 2^k - 1 - m % 2^k = 2^k - (m % 2^k + 1) := by omega
  rw [h1, Nat.testBit_two_pow_sub_succ (Nat.mod_lt _ (Nat.two_pow_pos k)), Nat.testBit_two_pow_sub_one,
    Nat.testBit_mod_two_pow]
  by_cases h : i < k <;> simp [h]

theorem land_zero_left (x : Int) : land 0 x = 0 := by
  cases x with
  | ofNat n => show land (Int.ofNat 0) (Int.ofNat n) = 0; simp [land]
  | negSucc n => show land (Int.ofNat 0) (Int.negSucc n) = 0; simp [land, Nat.bitwise]

theorem pyPad_eq (o k : Nat) : pyPad (o : Int) ((2^k : Nat) : Int) = (pad o (2^k) : Nat) := by
  unfold pyPad pad
  have hpos : 0 < 2^k := Nat.two_pow_pos k
  generalize ha : 2^k = a at hpos
  have h2 : ((a : Nat) : Int) - 1 = Int.ofNat (a - 1) := by
    show _ = ((a - 1 : Nat) : Int); omega
  cases o with
  | zero => simp [land_zero_left]
  | succ m =>
    have h1 : -(((m + 1 : Nat)) : Int) = Int.negSucc m := by rfl
    rw [h1, h2]
    simp only [land]
    rw [← ha, ldiff_mask, ha]
    congr 1
    have hr := Nat.mod_lt m hpos
    have hm := Nat.div_add_mod m a
    by_cases hc : m % a + 1 < a
    · have h3 : (m + 1) % a = m % a + 1 := by
        have : m + 1 = a * (m / a) + (m % a + 1) := by omega
        rw [this, Nat.mul_comm, Nat.mul_add_mod_of_lt hc]
      rw [h3]
      have hlt : a - (m % a + 1) < a := by omega
      rw [Nat.mod_eq_of_lt hlt]; omega
    · have hr1 : m % a + 1 = a := by omega
      have h3 : (m + 1) % a = 0 := by
        have : m + 1 = a * (m / a + 1) := by rw [Nat.mul_add, Nat.mul_one]; omega
        rw [this, Nat.mul_mod_right]
      rw [h3, Nat.sub_zero, Nat.mod_self]; omega

theorem padNat_pow2 (o k : Nat) : padNat o (2 ^ k) = pad o (2 ^ k) := by
  unfold padNat
  rw [pyPad_eq]
  rfl

theorem roundUp_eq (o a : Nat) (ha : 0 < a) : roundUp o a = o + pad o a := by
  unfold roundUp pad
  have hr := Nat.mod_lt o ha
  have hm := Nat.div_add_mod o a
  by_cases h0 : o % a = 0
  · have h1 : o + a - 1 = a * (o / a) + (a - 1) := by omega
    have h2 : (a - 1) / a = 0 := Nat.div_eq_of_lt (by omega)
    rw [h1, Nat.mul_add_div ha, h2, h0, Nat.sub_zero, Nat.mod_self, Nat.add_zero, Nat.add_zero, Nat.mul_comm]
    omega
  · have h1 : o + a - 1 = a * (o / a + 1) + (o % a - 1) := by
      rw [Nat.mul_add, Nat.mul_one]; omega
    have h2 : (o % a - 1) / a = 0 := Nat.div_eq_of_lt (by omega)
    have h3 : (a - o % a) % a = a - o % a := Nat.mod_eq_of_lt (by omega)
    rw [h1, Nat.mul_add_div ha, h2, h3, Nat.add_zero, Nat.mul_comm, Nat.mul_add, Nat.mul_one]
    omega

theorem roundUp_mod (o a : Nat) : roundUp o a % a = 0 := by
  unfold roundUp
  exact Nat.mul_mod_left _ _

theorem pad_lt (o a : Nat) (ha : 0 < a) : pad o a < a := Nat.mod_lt _ ha

theorem padNat_roundUp (o a : Nat) (ha : isPow2 a) : o + padNat o a = roundUp o a := by
  obtain ⟨k, rfl⟩ := ha
  rw [padNat_pow2, roundUp_eq _ _ (Nat.two_pow_pos k)]

theorem isPow2_pos {a : Nat} (ha : isPow2 a) : 0 < a := by
  obtain ⟨k, rfl⟩ := ha
  exact Nat.two_pow_pos k

/-! ### foldl max -/

theorem foldl_max_pow2 (ms : List (Nat × Nat)) (hp : ∀ m ∈ ms, isPow2 m.2) (a0 : Nat) (h0 : isPow2 a0) :
    isPow2 (ms.foldl (fun a m => max a m.2) a0) := by
  induction ms generalizing a0 with
  | nil => exact h0
  | cons m r ih =>
    simp only [List.foldl_cons]
    apply ih (fun x hx => hp x (List.mem_cons_of_mem _ hx))
    have hm := hp m List.mem_cons_self
    rcases Nat.le_total a0 m.2 with h | h
    · rw [Nat.max_eq_right h]; exact hm
    · rw [Nat.max_eq_left h]; exact h0

theorem maxAlignOf_cons_pow2 (m : Nat × Nat) (r : List (Nat × Nat)) (hp : ∀ x ∈ m :: r, isPow2 x.2) :
    isPow2 (maxAlignOf (m :: r)) := by
  unfold maxAlignOf
  simp only [List.foldl_cons, Nat.zero_max]
  exact foldl_max_pow2 r (fun x hx => hp x (List.mem_cons_of_mem _ hx)) _ (hp m List.mem_cons_self)

/-! ### Layout, non-bit-field members -/

theorem layout_cons_none (cfg : Cfg) (align : Bool) (n : String) (an : Bool) (ty : Ty) (rest : Fields) (st : LState)
    (cur k : Nat) (hst : st.offset = some cur) (hk : ty.size cfg = some k) :
    Fields.layout cfg align (.cons n an ty none rest) st =
      let o := if align then cur + padNat cur (ty.alignment cfg) else cur
      match Fields.layout cfg align rest
          { offset := some (o + k), alignment := max st.alignment (ty.alignment cfg), bitsType := none,
            bitsFieldOffset := some 0, bitsRemaining := 0 } with
      | .error e => .error e
      | .ok (sz, al, offs) => .ok (sz, al, some o :: offs) := by
  rw [Fields.layout]
  · simp only [hst, hk]
    cases align <;> simp <;> rfl
  · intro b h; cases h

theorem members_cons {cfg : Cfg} {n : String} {an : Bool} {ty : Ty} {bits : Option Nat} {rest : Fields}
    {ms : List (Nat × Nat)} (h : members cfg (.cons n an ty bits rest) = some ms) :
    ∃ sz ms', bits = none ∧ ty.size cfg = some sz ∧ members cfg rest = some ms' ∧
      ms = (sz, ty.alignment cfg) :: ms' := by
  simp only [members] at h
  split at h
  · rename_i sz ms' h2 h3
    injection h with h
    exact ⟨sz, ms', rfl, h2, h3, h.symm⟩
  · cases h

theorem layout_abi (cfg : Cfg) : ∀ (fs : Fields) (ms : List (Nat × Nat)) (st : LState) (cur : Nat),
    members cfg fs = some ms → (∀ m ∈ ms, isPow2 m.2) → st.offset = some cur →
    Fields.layout cfg true fs st =
      .ok (some ((cOffsets ms cur).2 + padNat (cOffsets ms cur).2 (ms.foldl (fun a m => max a m.2) st.alignment)),
           ms.foldl (fun a m => max a m.2) st.alignment, (cOffsets ms cur).1.map some)
  | .nil, ms, st, cur, hm, _, hst => by
    simp only [members] at hm
    injection hm with hm
    subst hm
    simp [Fields.layout, hst, cOffsets]
  | .cons n an ty bits rest, ms, st, cur, hm, hp, hst => by
    obtain ⟨sz, ms', rfl, hsz, hm', rfl⟩ := members_cons hm
    rw [layout_cons_none cfg true n an ty rest st cur sz hst hsz]
    have hpa : isPow2 (ty.alignment cfg) := hp _ List.mem_cons_self
    have ih := layout_abi cfg rest ms'
      { offset := some (cur + padNat cur (ty.alignment cfg) + sz), alignment := max st.alignment (ty.alignment cfg),
        bitsType := none, bitsFieldOffset := some 0, bitsRemaining := 0 }
      (cur + padNat cur (ty.alignment cfg) + sz) hm' (fun x hx => hp x (List.mem_cons_of_mem _ hx)) rfl
    simp only [if_true] at ih ⊢
    rw [ih]
    simp only [cOffsets, List.foldl_cons, List.map_cons, padNat_roundUp cur _ hpa]

theorem layout_packed (cfg : Cfg) : ∀ (fs : Fields) (ms : List (Nat × Nat)) (st : LState) (cur : Nat),
    members cfg fs = some ms → st.offset = some cur →
    Fields.layout cfg false fs st =
      .ok (some (packedOffsets ms cur).2, ms.foldl (fun a m => max a m.2) st.alignment,
           (packedOffsets ms cur).1.map some)
  | .nil, ms, st, cur, hm, hst => by
    simp only [members] at hm
    injection hm with hm
    subst hm
    simp [Fields.layout, hst, packedOffsets]
  | .cons n an ty bits rest, ms, st, cur, hm, hst => by
    obtain ⟨sz, ms', rfl, hsz, hm', rfl⟩ := members_cons hm
    rw [layout_cons_none cfg false n an ty rest st cur sz hst hsz]
    have ih := layout_packed cfg rest ms'
      { offset := some (cur + sz), alignment := max st.alignment (ty.alignment cfg),
        bitsType := none, bitsFieldOffset := some 0, bitsRemaining := 0 }
      (cur + sz) hm' rfl
    simp only [Bool.false_eq_true, if_false] at ih ⊢
    rw [ih]
    simp only [packedOffsets, List.foldl_cons, List.map_cons]

theorem tail_pad (ms : List (Nat × Nat)) (hp : ∀ m ∈ ms, isPow2 m.2) :
    (cOffsets ms 0).2 + padNat (cOffsets ms 0).2 (maxAlignOf ms) = roundUp (cOffsets ms 0).2 (maxAlignOf ms) := by
  cases ms with
  | nil =>
    show 0 + padNat 0 0 = roundUp 0 0
    simp [padNat, pyPad, land_zero_left, roundUp]
  | cons m r => exact padNat_roundUp _ _ (maxAlignOf_cons_pow2 m r hp)

theorem tail_pad' (ms : List (Nat × Nat)) (hp : ∀ m ∈ ms, isPow2 m.2) (e : Nat) (he : ms = [] → e = 0) :
    e + padNat e (maxAlignOf ms) = roundUp e (maxAlignOf ms) := by
  cases ms with
  | nil =>
    rw [he rfl]
    show 0 + padNat 0 0 = roundUp 0 0
    simp [padNat, pyPad, land_zero_left, roundUp]
  | cons m r => exact padNat_roundUp _ _ (maxAlignOf_cons_pow2 m r hp)

/-! ### Facts about the C rule -/

theorem le_roundUp (o a : Nat) (ha : 0 < a) : o ≤ roundUp o a := by
  rw [roundUp_eq o a ha]; omega

theorem roundUp_lt (o a : Nat) (ha : 0 < a) : roundUp o a < o + a := by
  rw [roundUp_eq o a ha]
  have := pad_lt o a ha
  omega

theorem cOffsets_cons (sz al : Nat) (r : List (Nat × Nat)) (cur : Nat) :
    cOffsets ((sz, al) :: r) cur =
      (roundUp cur al :: (cOffsets r (roundUp cur al + sz)).1, (cOffsets r (roundUp cur al + sz)).2) := rfl

theorem cOffsets_facts (ms : List (Nat × Nat)) (hp : ∀ m ∈ ms, isPow2 m.2) :
    ∀ (cur : Nat) (os : List Nat) (e : Nat), cOffsets ms cur = (os, e) →
      os.length = ms.length ∧
      (∀ i (h : i < ms.length) (h' : i < os.length), os[i] % (ms[i]).2 = 0) ∧
      (∀ o ∈ os, cur ≤ o) ∧ cur ≤ e := by
  induction ms with
  | nil =>
    intro cur os e h
    simp only [cOffsets] at h
    injection h with h1 h2
    subst h1; subst h2
    simp
  | cons m r ih =>
    intro cur os e h
    obtain ⟨sz, al⟩ := m
    rw [cOffsets_cons] at h
    injection h with h1 h2
    subst h1; subst h2
    have hal : isPow2 al := hp (sz, al) List.mem_cons_self
    have hle := le_roundUp cur al (isPow2_pos hal)
    obtain ⟨i1, i2, i3, i4⟩ := ih (fun x hx => hp x (List.mem_cons_of_mem _ hx)) (roundUp cur al + sz) _ _ rfl
    refine ⟨by simp [i1], ?_, ?_, by omega⟩
    · intro i h h'
      cases i with
      | zero => simp [roundUp_mod]
      | succ j =>
        simp only [List.getElem_cons_succ]
        exact i2 j (by simpa using h) (by simpa using h')
    · intro o ho
      rcases List.mem_cons.mp ho with rfl | ho
      · exact hle
      · have := i3 o ho; omega

/-! ### Unions -/

theorem unionSize_members (cfg : Cfg) : ∀ (fs : Fields) (ms : List (Nat × Nat)) (cur : Nat),
    members cfg fs = some ms →
    Fields.unionSize cfg fs (some cur) = some (ms.foldl (fun s m => max s m.1) cur)
  | .nil, ms, cur, hm => by
    simp only [members] at hm
    injection hm with hm
    subst hm
    simp [Fields.unionSize]
  | .cons n an ty bits rest, ms, cur, hm => by
    obtain ⟨sz, ms', rfl, hsz, hm', rfl⟩ := members_cons hm
    simp only [Fields.unionSize, hsz, List.foldl_cons]
    rw [unionSize_members cfg rest ms' _ hm', Nat.max_comm]

theorem maxAlign_members (cfg : Cfg) : ∀ (fs : Fields) (ms : List (Nat × Nat)) (a : Nat),
    members cfg fs = some ms →
    Fields.maxAlign cfg fs a = ms.foldl (fun a m => max a m.2) a
  | .nil, ms, a, hm => by
    simp only [members] at hm
    injection hm with hm
    subst hm
    simp [Fields.maxAlign]
  | .cons n an ty bits rest, ms, a, hm => by
    obtain ⟨sz, ms', rfl, hsz, hm', rfl⟩ := members_cons hm
    simp only [Fields.maxAlign, List.foldl_cons]
    rw [maxAlign_members cfg rest ms' _ hm']

/-! ### Dynamic tail -/

theorem layout_none_step {r : Except Err (Option Nat × Nat × List (Option Nat))}
    {sz : Option Nat} {a : Nat} {offs : List (Option Nat)}
    (ih : ∀ sz a offs, r = .ok (sz, a, offs) → sz = none ∧ ∀ o ∈ offs, o = none)
    (h : (match r with
          | .error e => .error e
          | .ok (sz, al, offs) => .ok (sz, al, none :: offs)) = Except.ok (sz, a, offs)) :
    sz = none ∧ ∀ o ∈ offs, o = none := by
  cases r with
  | error e => cases h
  | ok p =>
    obtain ⟨s, a', o'⟩ := p
    simp only [Except.ok.injEq, Prod.mk.injEq] at h
    obtain ⟨rfl, rfl, rfl⟩ := h
    have := ih _ _ _ rfl
    refine ⟨this.1, ?_⟩
    intro o ho
    rcases List.mem_cons.mp ho with rfl | ho
    · rfl
    · exact this.2 o ho

theorem layout_none (cfg : Cfg) (al : Bool) : ∀ (fs : Fields) (st : LState) (sz : Option Nat) (a : Nat)
    (offs : List (Option Nat)), st.offset = none → Fields.layout cfg al fs st = .ok (sz, a, offs) →
    sz = none ∧ ∀ o ∈ offs, o = none
  | .nil, st, sz, a, offs, hst, h => by
    simp [Fields.layout, hst] at h
    obtain ⟨rfl, _, rfl⟩ := h
    simp
  | .cons n an ty bits rest, st, sz, a, offs, hst, h => by
    cases bits with
    | none =>
      rw [Fields.layout] at h
      · simp only [hst] at h
        exact layout_none_step (fun s a o hh => layout_none cfg al rest _ s a o rfl hh) h
      · intro b h; cases h
    | some b =>
      cases b with
      | zero =>
        rw [Fields.layout] at h
        · simp only [hst] at h
          exact layout_none_step (fun s a o hh => layout_none cfg al rest _ s a o rfl hh) h
        · intro b h; cases h
      | succ b =>
        rw [Fields.layout] at h
        simp only [hst] at h
        split at h
        · cases h
        · split at h
          · cases h
          · split at h
            · cases h
            · rename_i newUnit _
              cases newUnit
              · simp only [Bool.false_eq_true, if_false] at h
                split at h
                · cases h
                · exact layout_none_step (fun s a o hh => layout_none cfg al rest _ s a o rfl hh) h
              · simp only [if_true, Option.map_none] at h
                split at h
                · cases h
                · exact layout_none_step (fun s a o hh => layout_none cfg al rest _ s a o rfl hh) h

theorem layout_step_inv {r : Except Err (Option Nat × Nat × List (Option Nat))} {x : Option Nat}
    {sz : Option Nat} {a : Nat} {offs : List (Option Nat)}
    (h : (match r with
          | .error e => .error e
          | .ok (sz, al, offs) => .ok (sz, al, x :: offs)) = Except.ok (sz, a, offs)) :
    ∃ offs', r = .ok (sz, a, offs') ∧ offs = x :: offs' := by
  cases r with
  | error e => cases h
  | ok p =>
    obtain ⟨s, a', o'⟩ := p
    simp only [Except.ok.injEq, Prod.mk.injEq] at h
    obtain ⟨rfl, rfl, rfl⟩ := h
    exact ⟨o', rfl, rfl⟩

theorem layout_dynamic (cfg : Cfg) (al : Bool) (name : String) (an : Bool) (ty : Ty) (rest : Fields) (st : LState)
    (hdyn : ty.size cfg = none) (sz : Option Nat) (a : Nat) (offs : List (Option Nat))
    (h : Fields.layout cfg al (.cons name an ty none rest) st = .ok (sz, a, offs)) :
    sz = none ∧ ∀ o ∈ offs.drop 1, o = none := by
  rw [Fields.layout] at h
  · simp only [hdyn] at h
    cases hso : st.offset with
    | none =>
      simp only [hso] at h
      obtain ⟨offs', hr, rfl⟩ := layout_step_inv h
      exact layout_none cfg _ rest _ sz a offs' rfl hr
    | some o =>
      cases al
      · simp only [hso, Bool.false_eq_true, if_false] at h
        obtain ⟨offs', hr, rfl⟩ := layout_step_inv h
        exact layout_none cfg _ rest _ sz a offs' rfl hr
      · simp only [hso, if_true] at h
        obtain ⟨offs', hr, rfl⟩ := layout_step_inv h
        exact layout_none cfg _ rest _ sz a offs' rfl hr
  · intro b h; cases h

/-! ### The built-in type table -/

/-- Boolean form of the per-entry check of `c04_table_pow2` -/
def entryOk : Gen.TypeEntry → Bool
  | .type _ _ _ (some a) => a == 0 || a == 1 || a == 2 || a == 4 || a == 8 || a == 16
  | _ => true

theorem table_all_ok : Gen.typeTable.all (fun p => entryOk p.2) = true := by decide +kernel

theorem table_pow2 :
    ∀ p ∈ Gen.typeTable, match p.2 with
      | .type _ _ _ (some a) => a = 0 ∨ ∃ k, k ≤ 4 ∧ a = 2 ^ k
      | _ => True := by
  intro p hp
  have h := List.all_eq_true.mp table_all_ok p hp
  obtain ⟨n, e⟩ := p
  cases e with
  | alias t => trivial
  | type name kind size al =>
    cases al with
    | none => trivial
    | some a =>
      simp only [entryOk, Bool.or_eq_true, beq_iff_eq] at h
      show a = 0 ∨ ∃ k, k ≤ 4 ∧ a = 2 ^ k
      rcases h with ((((h | h) | h) | h) | h) | h
      · exact Or.inl h
      · exact Or.inr ⟨0, by decide, h⟩
      · exact Or.inr ⟨1, by decide, h⟩
      · exact Or.inr ⟨2, by decide, h⟩
      · exact Or.inr ⟨3, by decide, h⟩
      · exact Or.inr ⟨4, by decide, h⟩

end Cstruct.C04.Lemmas
