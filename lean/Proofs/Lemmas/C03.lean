/-
  Helper lemmas for `Proofs/C03.lean`: the two theorems about `readCompiled` (from the simulation `sim_plan` in
  `Proofs/Lemmas/C03Plan.lean`) and the facts about the sample of `Proofs/Spec/C03.lean`.
-/
import Proofs.Spec.C03
import Proofs.Lemmas.C03Plan
namespace Cstruct.Compiler
open Cstruct Cstruct.Core.Lemmas

/-- the simulation at the start of a structure -/
theorem sim_top (cfg : Cfg) (al : Bool) (fs : Fields) (plan : Plan) (data : Bytes) (pos : Nat)
    (sz : Option Nat) (salign : Nat)
    (offs : List (Option Nat)) (hl : structLayout cfg al fs = .ok (sz, salign, offs))
    (hok : planOKAux cfg al salign plan fs offs { spos := some 0, lastAlign := none, unit := none, dirty := false } = true) :
    Sim (exec cfg salign pos data plan fs { pos := pos, bb := BitBuf.empty, ctx := [] })
      (finR al salign (readFields cfg al fs offs pos BitBuf.empty [] data pos)) := by
  refine sim_plan cfg al salign pos data plan fs offs _
    { pos := pos, bb := BitBuf.empty, ctx := [] } pos BitBuf.empty hok ?_ (subSizesAux_all cfg data pos fs offs)
  refine ⟨?_, Or.inr rfl, (by intro _ a ha; cases ha), rfl, ?_⟩
  · intro k hk; cases hk; rfl
  · show (if false = true then _ else _)
    rw [if_neg (by simp)]
    exact ⟨rfl, Or.inl rfl⟩

theorem compiled_refines (cfg : Cfg) (al : Bool) (fs : Fields) (plan : Plan) (data : Bytes) (pos : Nat)
    (hok : planOK cfg al fs plan = true)
    (v : Val) (szs : List (String × Nat)) (p : Nat)
    (hc : readCompiled cfg al fs plan data pos = .ok (v, szs, p)) :
    ∃ szs', readStructWithSizes cfg al fs data pos = .ok (v, szs', p) ∧
      szs.filter (fun e => e.2 ≠ 0) = szs'.filter (fun e => e.2 ≠ 0) := by
  unfold planOK at hok
  unfold readCompiled at hc
  unfold readStructWithSizes
  cases hl : structLayout cfg al fs with
  | error e => rw [hl] at hok; cases hok
  | ok r =>
    obtain ⟨sz, salign, offs⟩ := r
    rw [hl] at hok hc
    simp only at hok hc ⊢
    have hsim := sim_top cfg al fs plan data pos sz salign offs hl hok
    cases hx : exec cfg salign pos data plan fs { pos := pos, bb := BitBuf.empty, ctx := [] } with
    | error e => rw [hx] at hc; cases hc
    | ok x =>
      obtain ⟨vs, s, pe⟩ := x
      rw [hx] at hc hsim
      cases hc
      rcases hsim with h | h
      · cases h
      · cases hi : readFields cfg al fs offs pos BitBuf.empty [] data pos with
        | error e => rw [hi] at h; exact h.elim
        | ok y =>
          obtain ⟨vs', s', p'⟩ := y
          rw [hi] at h
          obtain ⟨h1, h2, h3⟩ := h
          subst h1
          exact ⟨s', by rw [h2], h3⟩

theorem interp_ok_compiled (cfg : Cfg) (al : Bool) (fs : Fields) (plan : Plan) (data : Bytes) (pos : Nat)
    (hok : planOK cfg al fs plan = true)
    (v : Val) (szs : List (String × Nat)) (p : Nat)
    (hi : readStructWithSizes cfg al fs data pos = .ok (v, szs, p)) :
    (∃ szs', readCompiled cfg al fs plan data pos = .ok (v, szs', p) ∧
        szs'.filter (fun e => e.2 ≠ 0) = szs.filter (fun e => e.2 ≠ 0)) ∨
      readCompiled cfg al fs plan data pos = .error .eof := by
  unfold planOK at hok
  unfold readStructWithSizes at hi
  unfold readCompiled
  cases hl : structLayout cfg al fs with
  | error e => rw [hl] at hok; cases hok
  | ok r =>
    obtain ⟨sz, salign, offs⟩ := r
    rw [hl] at hok hi
    simp only at hok hi ⊢
    have hsim := sim_top cfg al fs plan data pos sz salign offs hl hok
    cases hy : readFields cfg al fs offs pos BitBuf.empty [] data pos with
    | error e => rw [hy] at hi; cases hi
    | ok y =>
      obtain ⟨vs', s', p'⟩ := y
      rw [hy] at hi hsim
      cases hi
      rcases hsim with h | h
      · right; rw [h]
      · cases hx : exec cfg salign pos data plan fs { pos := pos, bb := BitBuf.empty, ctx := [] } with
        | error e => rw [hx] at h; exact h.elim
        | ok x =>
          obtain ⟨vs, s, pe⟩ := x
          rw [hx] at h
          obtain ⟨h1, h2, h3⟩ := h
          subst h1
          left
          exact ⟨s, by rw [h2], h3⟩

/-! ### the sample of `Proofs/Spec/C03.lean` -/

theorem s_rs0 : readScalar samplecfg (.pint 1 false) sampleData 0 = .ok (.int 45, 1) := by rfl
theorem s_take1 : BitBuf.take .little { ty := some (.pint 1 false), buffer := 45, remaining := 8 } 3 =
    some (5, { ty := some (.pint 1 false), buffer := 5, remaining := 5 }) := by decide +kernel
theorem s_take2 : BitBuf.take .little { ty := some (.pint 1 false), buffer := 5, remaining := 5 } 4 =
    some (5, { ty := some (.pint 1 false), buffer := 0, remaining := 1 }) := by decide +kernel
theorem s_re1 : readExact sampleData 4 4 = .ok ([1, 2, 3, 4], 8) := by decide +kernel
theorem s_re2 : readExact sampleData 16 7 = .ok ([0x10, 0, 0x20, 0, 0xff, 0xff, 0xff], 23) := by decide +kernel
theorem s_sv1 : slotVal samplecfg (.sc (.pint 4 false) 4) [1, 2, 3, 4] [⟨.pint 4 false, 0, 4⟩] ⟨"c", .data1 0, .init, 4⟩ =
    .ok (.int 67305985) := by rfl
theorem s_sv2 : slotVal samplecfg (.arr (.sc (.pint 2 false) 2) (.fixed 2)) [0x10, 0, 0x20, 0, 0xff, 0xff, 0xff]
    [⟨.pint 2 false, 0, 2⟩, ⟨.pint 2 false, 2, 2⟩] ⟨"d", .dataN 0 2, .initArray, 4⟩ =
    .ok (.list (.cons (.int 16) (.cons (.int 32) .nil))) := by rfl
theorem s_sv3 : slotVal samplecfg (.sc (.aint 3 true) 4) [0x10, 0, 0x20, 0, 0xff, 0xff, 0xff]
    [⟨.pint 2 false, 0, 2⟩, ⟨.pint 2 false, 2, 2⟩] ⟨"e", .buf 4 7, .parse, 3⟩ = .ok (.int (-1)) := by rfl
theorem s_rx : readScalar samplecfg (.pint 1 false) sampleData 8 = .ok (.int 9, 9) := by rfl
theorem s_ry : readScalar samplecfg (.pint 4 false) sampleData 12 = .ok (.int 134678021, 16) := by rfl
theorem s_pad1 : padNat 16 4 = 0 := by decide +kernel
theorem s_pad2 : padNat 23 4 = 1 := by decide +kernel
theorem sample_layout : structLayout samplecfg true sampleFields =
    .ok (some 24, 4, [some 0, none, some 4, some 8, some 16, some 20, some 20]) := by decide +kernel
theorem sample_fmt1 : fmtItemsOf (some "I") 4 = some [⟨.pint 4 false, 0, 4⟩] := by decide +kernel
theorem sample_fmt2 : fmtItemsOf (some "2H3x") 7 = some [⟨.pint 2 false, 0, 2⟩, ⟨.pint 2 false, 2, 2⟩] := by decide +kernel
theorem sample_inner : structLayout samplecfg true
    (.cons "x" false (.sc (.pint 1 false) 1) none (.cons "y" false (.sc (.pint 4 false) 4) none .nil)) =
    .ok (some 8, 4, [some 0, some 4]) := by decide +kernel
theorem s_end : samplecfg.endian = .little := rfl

theorem s_sub (ctx : Ctx) : read samplecfg (.struct true
      (.cons "x" false (.sc (.pint 1 false) 1) none (.cons "y" false (.sc (.pint 4 false) 4) none .nil))) ctx sampleData 8 =
    .ok (.record (.cons (.int 9) (.cons (.int 134678021) .nil)), 16) := by
  rw [read_struct, sample_inner]
  simp only [Except.bind]
  rw [readFields_nb_ok _ _ _ _ _ _ _ _ _ _ _ _ (.int 9) 9 (by rw [read_sc]; exact s_rx)]
  rw [readFields_nb_ok _ _ _ _ _ _ _ _ _ _ _ _ (.int 134678021) 16 (by rw [read_sc]; exact s_ry)]
  rw [readFields_nil]
  simp only [wrapR, if_true, s_pad1]


theorem s_es1 (ctx : Ctx) (fs : Fields) : execSlots samplecfg [1, 2, 3, 4] [⟨.pint 4 false, 0, 4⟩] [⟨"c", .data1 0, .init, 4⟩]
    (.cons "c" false (.sc (.pint 4 false) 4) none fs) ctx =
    .ok (.cons (.int 67305985) .nil, [("c", 4)], fs, ctx.set "c" (.int 67305985)) := by
  rw [execSlots_slot _ _ _ _ _ _ _ _ _ _ _ (by simp [isVoid]) (by simp), s_sv1]
  simp only [Except.bind, execSlots_nil, Except.map]

theorem s_es2 (ctx : Ctx) : execSlots samplecfg [0x10, 0, 0x20, 0, 0xff, 0xff, 0xff]
    [⟨.pint 2 false, 0, 2⟩, ⟨.pint 2 false, 2, 2⟩] [⟨"d", .dataN 0 2, .initArray, 4⟩, ⟨"e", .buf 4 7, .parse, 3⟩]
    (.cons "d" false (.arr (.sc (.pint 2 false) 2) (.fixed 2)) none
      (.cons "v" false (.sc .void 0) none (.cons "e" false (.sc (.aint 3 true) 4) none .nil))) ctx =
    .ok (.cons (.list (.cons (.int 16) (.cons (.int 32) .nil))) (.cons .void (.cons (.int (-1)) .nil)), [("d", 4), ("e", 3)],
      .nil, ((ctx.set "d" (.list (.cons (.int 16) (.cons (.int 32) .nil)))).set "v" .void).set "e" (.int (-1))) := by
  rw [execSlots_slot _ _ _ _ _ _ _ _ _ _ _ (by simp [isVoid]) (by simp), s_sv2]
  simp only [Except.bind]
  rw [execSlots_void _ _ _ _ _ _ _ _ _ _ _ (by simp [isVoid])]
  rw [execSlots_slot _ _ _ _ _ _ _ _ _ _ _ (by simp [isVoid]) (by simp), s_sv3]
  simp only [Except.bind, execSlots_nil, Except.map]

theorem sample_runs : readCompiled samplecfg true sampleFields samplePlan sampleData 0 = .ok (
    .record (.cons (.int 5) (.cons (.int 5) (.cons (.int 67305985)
      (.cons (.record (.cons (.int 9) (.cons (.int 134678021) .nil)))
      (.cons (.list (.cons (.int 16) (.cons (.int 32) .nil))) (.cons .void (.cons (.int (-1)) .nil))))))),
    [("c", 4), ("s", 8), ("d", 4), ("e", 3)], 24) := by
  rw [readCompiled, sample_layout]
  simp [samplePlan, sampleFields, exec, skipVoids, isVoid, bitsVia, BitBuf.empty, Scalar.size, sample_fmt1, sample_fmt2,
    s_rs0, unitInt, s_end, s_take1, s_take2, padNat_one, s_re1, s_re2, s_es1, s_es2, s_sub, s_pad2, exec.Vals.append]


theorem sample_inner_layout : Fields.layout samplecfg true
    (.cons "x" false (.sc (.pint 1 false) 1) none (.cons "y" false (.sc (.pint 4 false) 4) none .nil))
    { offset := some 0, alignment := 0, bitsType := none, bitsFieldOffset := some 0, bitsRemaining := 0 } =
    .ok (some 8, 4, [some 0, some 4]) := by decide +kernel

theorem sample_planOK : planOK samplecfg true sampleFields samplePlan = true := by
  rw [planOK, sample_layout]
  simp [samplePlan, sampleFields, planOKAux, dropVoids, isVoid, sample_fmt1, sample_fmt2, hdOff, bitsVia, Ty.bitBase,
    Scalar.size, posOK, Ty.alignment, nonBitHead, nextStatic, slotsOK, slotRange, readType, expectDec, isPacked,
    Ty.size, itemsAre, sample_inner_layout]

end Cstruct.Compiler
