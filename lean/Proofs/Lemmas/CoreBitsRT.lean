/-
  Helper lemmas for `Proofs/CoreBits.lean`, part 4: the packed round trip for every type of fragment SB (scalars via
  fragment S, arrays, structures) and the mutual structural recursion that ties the statements together (`rt_ty`).
-/
import Proofs.Lemmas.CoreBitsRT1
namespace Cstruct.Core.Lemmas
open Cstruct Cstruct.Core Cstruct.C06 Cstruct.C06.Lemmas
open Cstruct.C05.Lemmas (encBytes encBytes_length)
set_option linter.unusedSimpArgs false

/-! ### Types -/

theorem hasTy_of_B_sc {cfg : Cfg} {v s a} (h : HasTyB cfg v (.sc s a)) : HasTy cfg v (.sc s a) := by
  cases h with
  | int h1 h2 => exact .int h1 h2
  | flt h1 => exact .flt h1
  | char => exact .char
  | void => exact .void

theorem hasTy_of_B_enum {cfg : Cfg} {v b a f} (h : HasTyB cfg v (.enum b a f)) : HasTy cfg v (.enum b a f) := by
  cases h with
  | enum h1 => exact .enum h1

theorem hasTy_of_B_ptr {cfg : Cfg} {v t} (h : HasTyB cfg v (.ptr t)) : HasTy cfg v (.ptr t) := by
  cases h with
  | ptr h1 => exact .ptr h1

theorem tyStmt_of_WR (cfg : Cfg) (ty : Ty) (h : ∀ v, HasTyB cfg v ty → ty.fragSB cfg = true → ∀ pos, WR cfg ty v pos) :
    TyStmt cfg ty := by
  intro hS _ v hv pos bs hw
  obtain ⟨bs', k, w, s, l, r⟩ := h v hv hS pos
  rw [hw] at w
  cases w
  refine ⟨fun k' hk' => by rw [s] at hk'; cases hk'; exact l, ?_⟩
  intro pre post ctx hp
  rw [l]; exact r pre post ctx hp

theorem ty_sc (cfg : Cfg) (s a) : TyStmt cfg (.sc s a) :=
  tyStmt_of_WR cfg _ fun v hv _ pos => wr_sc cfg s a v (hasTy_of_B_sc hv) pos

theorem ty_enum (cfg : Cfg) (b a f) : TyStmt cfg (.enum b a f) :=
  tyStmt_of_WR cfg _ fun v hv hS pos => wr_enum cfg b a f v hS (hasTy_of_B_enum hv) pos

theorem ty_ptr (cfg : Cfg) (t) : TyStmt cfg (.ptr t) :=
  tyStmt_of_WR cfg _ fun v hv hS pos => wr_ptr cfg t v hS (hasTy_of_B_ptr hv) pos

theorem hasTyNB_length (cfg : Cfg) (e : Ty) : ∀ (n : Nat) (vs : Vals), HasTyNB cfg vs e n → vs.length = n := by
  intro n
  induction n with
  | zero => intro vs h; cases h; rfl
  | succ n ih => intro vs h; cases h with | cons h1 h2 => simp only [Vals.length, ih _ h2]

theorem rt_N (cfg : Cfg) (e : Ty) (hE : TyStmt cfg e) (hS : e.fragSB cfg = true) (hU : e.uniformAlign false = true) :
    ∀ (n : Nat) (vs : Vals), HasTyNB cfg vs e n → ∀ pos bs, writeN cfg e vs pos = .ok bs →
      (∀ k, e.size cfg = some k → bs.length = n * k) ∧
      ∀ (pre post : Bytes) (ctx : Ctx), pre.length = pos →
        readN cfg e n ctx (pre ++ bs ++ post) pos = .ok (vs, pos + bs.length) := by
  intro n
  induction n with
  | zero =>
    intro vs h pos bs hw
    cases h
    rw [writeN_nil] at hw
    cases hw
    refine ⟨fun k _ => by simp, ?_⟩
    intro pre post ctx _
    rw [readN_zero]; simp
  | succ n ih =>
    intro vs h pos bs hw
    cases h with
    | @cons v vs' _ _ h1 h2 =>
      rw [writeN_cons] at hw
      obtain ⟨bs1, hw1, hw'⟩ := bind_ok hw
      obtain ⟨bs2, hw2, heq⟩ := bind_ok hw'
      cases heq
      obtain ⟨s1, r1⟩ := hE hS hU v h1 pos bs1 hw1
      obtain ⟨s2, r2⟩ := ih vs' h2 _ bs2 hw2
      refine ⟨?_, ?_⟩
      · intro k hk
        rw [List.length_append, s1 k hk, s2 k hk, Nat.succ_mul]; omega
      · intro pre post ctx hp
        rw [readN_succ]
        have e1 : pre ++ (bs1 ++ bs2) ++ post = pre ++ bs1 ++ (bs2 ++ post) := by simp
        rw [e1, r1 pre (bs2 ++ post) ctx hp]
        simp only [Except.bind]
        have e2 : pre ++ bs1 ++ (bs2 ++ post) = (pre ++ bs1) ++ bs2 ++ post := by simp
        rw [e2, r2 (pre ++ bs1) post ctx (by rw [List.length_append, hp])]
        simp only [List.length_append, Nat.add_assoc]

theorem readArray_of_readN_B (cfg : Cfg) (e : Ty) (hS : e.fragSB cfg = true) (hne : ∀ a, e ≠ .sc .char a)
    (ctx : Ctx) (data : Bytes) (n pos : Nat) (vs : Vals) (p : Nat)
    (h : readN cfg e n ctx data pos = .ok (vs, p)) : readArray cfg e n ctx data pos = .ok (.list vs, p) := by
  cases e with
  | sc s a => exact readArray_of_readN cfg _ (by cases s <;> simp [Ty.fragSB] at hS <;> simp [Ty.fragS]) hne ctx data n pos vs p h
  | enum b a f => exact readArray_of_readN cfg _ (by simpa only [Ty.fragSB, Ty.fragS] using hS) hne ctx data n pos vs p h
  | ptr t => exact readArray_of_readN cfg _ (by simpa only [Ty.fragSB, Ty.fragS] using hS) hne ctx data n pos vs p h
  | arr e' l =>
    rw [readArray.eq_3 _ _ _ _ _ _ (by intros; contradiction) (by intros; contradiction), h]; rfl
  | struct al fs =>
    rw [readArray.eq_3 _ _ _ _ _ _ (by intros; contradiction) (by intros; contradiction), h]; rfl
  | union al fs => simp [Ty.fragSB] at hS

theorem ty_arr (cfg : Cfg) (e : Ty) (len : Len) (hE : TyStmt cfg e) : TyStmt cfg (.arr e len) := by
  intro hS hU v hv pos bs hw
  simp only [Ty.fragSB, Bool.and_eq_true] at hS
  simp only [Ty.uniformAlign] at hU
  cases hv with
  | @chars a n b hl =>
    rw [write_arr_chars] at hw
    cases hw
    refine ⟨?_, ?_⟩
    · intro k hk
      simp only [Ty.size, Scalar.size, Option.some.injEq] at hk
      omega
    · intro pre post ctx hp
      rw [read_arr_fixed, readArray_char]
      split
      · rename_i h0; subst h0
        cases bs with
        | nil => simp
        | cons _ _ => simp at hl
      · rw [readExact_mid pre bs post pos n hp hl]; simp [Except.bind, hl]
  | @arr _ n vs hne hN =>
    rw [write_arr_list, if_neg (by rw [hasTyNB_length cfg e n vs hN]; simp)] at hw
    obtain ⟨s, r⟩ := rt_N cfg e hE hS.2 hU n vs hN pos bs hw
    refine ⟨?_, ?_⟩
    · intro k hk
      simp only [Ty.size] at hk
      cases he : e.size cfg with
      | none => rw [he] at hk; cases hk
      | some k' => rw [he] at hk; cases hk; exact s k' he
    · intro pre post ctx hp
      rw [read_arr_fixed]
      exact readArray_of_readN_B cfg e hS.2 hne ctx _ n pos vs _ (r pre post ctx hp)

theorem ty_struct (cfg : Cfg) (al : Bool) (fs : Fields) (hF : IdleStmt cfg fs) : TyStmt cfg (.struct al fs) := by
  intro hS hU v hv pos bs hw
  simp only [Ty.fragSB] at hS
  simp only [Ty.uniformAlign, Bool.and_eq_true, beq_iff_eq] at hU
  obtain ⟨rfl, hU⟩ := hU
  cases hv with
  | @struct _ _ vs hvs =>
  rw [write_struct] at hw
  obtain ⟨⟨sz, sa, offs⟩, hlay, hw1⟩ := bind_ok hw
  obtain ⟨⟨out, bbF⟩, hwf, hw2⟩ := bind_ok hw1
  obtain ⟨fl, hfl, heq⟩ := bind_ok hw2
  simp only [Bool.false_eq_true, if_false, Except.ok.injEq] at heq
  subst heq
  obtain ⟨fl', hfl', hsize, hread⟩ := hF hS hU vs hvs LState.init sz sa offs hlay (lidle_of_rem _ rfl fs) pos pos out bbF hwf
    (by intro o ho; cases ho; rfl)
  rw [hfl] at hfl'
  cases hfl'
  refine ⟨?_, ?_⟩
  · intro k hk
    have hsz : (Ty.struct false fs).size cfg = sz := by
      have h := hlay
      unfold structLayout LState.init at h
      simp only [Ty.size, h]
    rw [hsz] at hk
    have := hsize k hk
    omega
  · intro pre post ctx hp
    rw [read_struct, hlay]
    simp only [Except.bind]
    obtain ⟨szs, hr⟩ := hread pre post [] BitBuf.empty hp (ridle_of_rem _ rfl fs)
    rw [hr]
    simp

theorem ty_union (cfg : Cfg) (al fs) : TyStmt cfg (.union al fs) := by
  intro hS; simp [Ty.fragSB] at hS

/-! ### Tying the knot -/

mutual
theorem rt_ty (cfg : Cfg) : ∀ ty : Ty, TyStmt cfg ty
  | .sc s a => ty_sc cfg s a
  | .enum b a f => ty_enum cfg b a f
  | .ptr t => ty_ptr cfg t
  | .arr e len => ty_arr cfg e len (rt_ty cfg e)
  | .struct al fs => ty_struct cfg al fs (rt_idle cfg fs)
  | .union al fs => ty_union cfg al fs
theorem rt_idle (cfg : Cfg) : ∀ fs : Fields, IdleStmt cfg fs
  | .nil => idle_nil cfg
  | .cons name an ty none rest => idle_cons_nb cfg name an ty rest (rt_ty cfg ty) (rt_idle cfg rest)
  | .cons _ _ _ (some 0) _ => fun hS => by simp [Fields.fragSB] at hS
  | .cons name an ty (some (b + 1)) rest => idle_cons_bit cfg name an ty b rest (rt_idle cfg rest) (rt_pend cfg rest)
theorem rt_pend (cfg : Cfg) : ∀ fs : Fields, PendStmt cfg fs
  | .nil => pend_nil cfg
  | .cons name an ty none rest =>
    pend_cons cfg name an ty none rest (idle_cons_nb cfg name an ty rest (rt_ty cfg ty) (rt_idle cfg rest))
      (rt_idle cfg rest) (rt_pend cfg rest)
  | .cons _ _ _ (some 0) _ => fun hS => by simp [Fields.fragSB] at hS
  | .cons name an ty (some (b + 1)) rest =>
    pend_cons cfg name an ty (some (b + 1)) rest
      (idle_cons_bit cfg name an ty b rest (rt_idle cfg rest) (rt_pend cfg rest)) (rt_idle cfg rest) (rt_pend cfg rest)
end

end Cstruct.Core.Lemmas
