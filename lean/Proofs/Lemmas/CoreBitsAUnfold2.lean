/-
  Helper lemmas for `Proofs/CoreBits.lean`, part 9 (packed or aligned): unfolding lemmas for the bit-field branch of
  `writeFields` with padding.
-/
import Proofs.Lemmas.CoreBitsAUnfold
namespace Cstruct.Core.Lemmas
open Cstruct Cstruct.Core Cstruct.C06 Cstruct.C06.Lemmas
open Cstruct.C05.Lemmas (encBytes encBytes_length)
set_option linter.unusedSimpArgs false

/-! ### Unfolding the writer, packed or aligned -/

/-- the writer's bit-field step once the unit `bb2` is selected, after `pad` bytes of padding -/
def putStepA (cfg : Cfg) (al : Bool) (rest : Fields) (offs : List (Option Nat)) (vs : Vals) (start : Nat) (fsz : Nat) (i : Int)
    (w : Nat) (bb2 : BitBuf) (pos pad : Nat) : Except Err (Bytes × BitBuf) :=
  match bb2.put cfg.endian fsz i w with
  | none => .error .value
  | some bb3 =>
    (if bb3.remaining = 0 then flushBits cfg bb3 else .ok []).bind fun fl3 =>
      (writeFields cfg al rest offs vs start (if bb3.remaining = 0 then BitBuf.empty else bb3)
          (pos + (zeros pad ++ fl3).length)).bind
        fun (o, bbf) => .ok (zeros pad ++ fl3 ++ o, bbf)

set_option hygiene false in
macro "put_coreA" : tactic => `(tactic| (
    simp only [putStepA, BitBuf.empty, zeros, List.replicate_zero, List.nil_append]
    cases BitBuf.put cfg.endian _ fsz i (b + 1) with
    | none => rfl
    | some bb3 =>
      simp only []
      cases (if bb3.remaining = 0 then flushBits cfg bb3 else Except.ok []) with
      | error e => rfl
      | ok fl3 =>
        simp only [Except.bind]
        generalize writeFields cfg al rest _ vs start _ _ = r
        rcases r with e | ⟨o, bbf⟩ <;> rfl))

theorem writeFields_bit_idle_al (cfg : Cfg) (al name an ty b rest fo offs v vs start pos ft fsz i)
    (hbase : ty.bitBase = some ft) (hsz : ft.size = some fsz) (hv : v = .int i ∨ v = .enum i) :
    writeFields cfg al (.cons name an ty (some (b + 1)) rest) (some fo :: offs) (.cons v vs) start BitBuf.empty pos =
      putStepA cfg al rest offs vs start fsz i (b + 1) { ty := some ft, buffer := 0, remaining := fsz * 8 } pos
        (if pos < start + fo then start + fo - pos else 0) := by
  rw [writeFields.eq_def]
  rcases hv with rfl | rfl <;>
  · simp only [hbase, hsz, BitBuf.empty, Option.isSome_none, Bool.and_false, Bool.false_and, Bool.or_self,
      Bool.false_eq_true, if_false, List.length_nil, Nat.add_zero, List.nil_append, false_and, and_false, true_or, if_true,
      Option.isNone_some, zeros, List.replicate_zero, List.append_nil, List.drop_one, List.tail_cons]
    put_coreA

theorem writeFields_bit_cont_al (cfg : Cfg) (al name an ty b rest offs v vs start pos ft fsz i bb)
    (hbase : ty.bitBase = some ft) (hsz : ft.size = some fsz)
    (hv : v = .int i ∨ v = .enum i) (hty : bb.ty = some ft) (hrem : bb.remaining ≠ 0)
    (hpad : al = true → padNat pos (ty.alignment cfg) = 0) :
    writeFields cfg al (.cons name an ty (some (b + 1)) rest) (none :: offs) (.cons v vs) start bb pos =
      putStepA cfg al rest offs vs start fsz i (b + 1) bb pos 0 := by
  rw [writeFields.eq_def]
  have hp2 : ∀ c : Prop, [Decidable c] → (if al = true ∧ c then padNat pos (ty.alignment cfg) else 0) = 0 := by
    intro c _
    split
    · rename_i h; exact hpad h.1
    · rfl
  rcases hv with rfl | rfl <;>
  · simp only [hbase, hsz, hty, hrem, Option.isSome_some, Bool.not_true, Bool.false_and, Bool.true_and, Bool.false_or,
      ne_eq, not_true_eq_false, decide_false, Bool.false_eq_true, if_false, List.length_nil, Nat.add_zero, List.nil_append,
      false_and, or_self, if_true, zeros, List.replicate_zero, List.append_nil, List.drop_one, List.tail_cons,
      Option.isNone_none, true_and, hp2]
    put_coreA

end Cstruct.Core.Lemmas
