/-
  C13, definition parser — helper lemmas (10): what `_parse_field_type` extracts from a well-formed declarator: the number
  of stars (whatever blanks stand between them), the word, the count text split at `][`, the bit width.
-/
import Proofs.Lemmas.C13ParseI

namespace Cstruct.DefParser.C13
open Cstruct.DefParser

def stars (pre : List Char) : Nat := pre.count '*'

theorem lstrip_word (w : List Char) (hne : w ≠ []) (hw : w.all isWord = true) : lstrip w = w := by
  obtain ⟨c, w', rfl⟩ := List.exists_cons_of_ne_nil hne
  simp only [List.all_cons, Bool.and_eq_true] at hw
  simp [lstrip, List.dropWhile, isWs_of_word c hw.1]

theorem ptrLoop_word (fuel : Nat) (w : List Char) (d : Nat) (hne : w ≠ []) (hw : w.all isWord = true) :
    ptrLoop fuel w d = (d, w) := by
  obtain ⟨c, w', rfl⟩ := List.exists_cons_of_ne_nil hne
  simp only [List.all_cons, Bool.and_eq_true] at hw
  have hc : c ≠ '*' := word_ne hw.1 _ (by decide)
  cases fuel with
  | zero => rfl
  | succ f =>
    unfold ptrLoop
    split
    · rename_i heq; simp at heq; exact absurd heq.1 hc
    · rfl

/-- the loop `while name.startswith("*"): name = name[1:].lstrip()` behind any mixture of stars and blanks -/
theorem ptrLoop_pre : ∀ (p w : List Char) (fuel d : Nat), p.all (fun c => c == '*' || isWsA c) = true → w ≠ [] →
    w.all isWord = true → p.length < fuel → ptrLoop fuel (lstrip (p ++ w)) d = (d + stars p, w)
  | [], w, fuel, d, _, hne, hw, _ => by
    simp only [List.nil_append, lstrip_word w hne hw, ptrLoop_word fuel w d hne hw, stars, List.count_nil, Nat.add_zero]
  | c :: p, w, fuel, d, hp, hne, hw, hf => by
    simp only [List.all_cons, Bool.and_eq_true, Bool.or_eq_true, beq_iff_eq] at hp
    rcases hp.1 with rfl | hc
    · cases fuel with
      | zero => simp at hf
      | succ f =>
        have hst : isWs '*' = false := by decide
        have e : lstrip (('*' :: p) ++ w) = '*' :: (p ++ w) := by simp [lstrip, hst]
        rw [e]
        unfold ptrLoop
        simp only
        rw [ptrLoop_pre p w f (d + 1) hp.2 hne hw (by simpa using hf)]
        simp [stars]; omega
    · have e : lstrip ((c :: p) ++ w) = lstrip (p ++ w) := by simp [lstrip, isWs_of_wsA c hc]
      have hcs : c ≠ '*' := (wsA_not c hc).2.2.2.2.2.2.1
      rw [e, ptrLoop_pre p w fuel d hp.2 hne hw (by simp at hf; omega)]
      simp [stars, hcs]

theorem parseDeclarator_lexeme (pre w : List Char) (bits : Option (List Char × List Char × List Char)) (cnt : Option (List Char))
    (hwf : (Lexeme.name pre w bits cnt).wf = true) :
    parseDeclarator (Lexeme.name pre w bits cnt).text =
      let dims := match cnt with | some c => (splitDims c).map strip | none => []
      if dims.dropLast.any (·.isEmpty) then .error .depthRequired
      else .ok ⟨stars pre, w, dims, bits.map fun t => digitsToNat t.2.2⟩ := by
  have m := matchName_lexeme spOK_U pre w bits cnt hwf [] [] rfl
  simp only [List.append_nil] at m
  simp only [Lexeme.wf, Bool.and_eq_true, isWordStr, Bool.not_eq_true', List.isEmpty_eq_false_iff] at hwf
  obtain ⟨⟨⟨⟨hpre, -⟩, hwne, hw⟩, -⟩, -⟩ := hwf
  have hloop : ptrLoop ((pre ++ w).length + 1) (pre ++ w) 0 = (stars pre, w) := by
    cases pre with
    | nil => simpa [stars] using ptrLoop_word _ w 0 hwne hw
    | cons c p =>
      simp only [preOK, Bool.and_eq_true, beq_iff_eq] at hpre
      obtain ⟨rfl, hp⟩ := hpre
      have := ptrLoop_pre p w (p ++ w).length.succ 1 hp hwne hw (by simp; omega)
      simp only [List.cons_append, List.length_cons]
      unfold ptrLoop
      simp only
      rw [show (p ++ w).length + 1 = (p ++ w).length.succ from rfl, this]
      simp [stars]; omega
  have hstrip : strip w = w := by
    obtain ⟨c, t, rfl⟩ := List.exists_cons_of_ne_nil hwne
    have hc : isWs c = false := by simp only [List.all_cons, Bool.and_eq_true] at hw; exact isWs_of_word c hw.1
    simpa using strip_core [] [] c t rfl rfl hc (fun d hd => last_word (c :: t) hw d hd)
  unfold parseDeclarator
  simp only [m, hloop, hstrip, Option.map_map]
  cases cnt <;> rfl

-- ------------------------------------------------------------------------------------------------ blanks inside array brackets
theorem dropWhile_append_some (p : Char → Bool) : ∀ (t b : List Char), (∃ c ∈ t, p c = false) →
    (t ++ b).dropWhile p = t.dropWhile p ++ b
  | [], _, h => by obtain ⟨c, hc, -⟩ := h; simp at hc
  | d :: t, b, h => by
    by_cases hd : p d = true
    · obtain ⟨c, hc, hpc⟩ := h
      have hc' : c ∈ t := by
        rcases List.mem_cons.mp hc with rfl | h'
        · rw [hd] at hpc; exact absurd hpc (by simp)
        · exact h'
      simp [List.dropWhile, hd, dropWhile_append_some p t b ⟨c, hc', hpc⟩]
    · simp [List.dropWhile, hd]

theorem rstrip_append_ws (u b : List Char) (hb : b.all isWs = true) : rstrip (u ++ b) = rstrip u := by
  unfold rstrip rstripBy
  rw [List.reverse_append, (takeWhile_app_all isWs b.reverse u.reverse (by simpa using hb)).2]

/-- `str.strip()` does not see white space around the text -/
theorem strip_pad (a t b : List Char) (ha : a.all isWs = true) (hb : b.all isWs = true) : strip (a ++ t ++ b) = strip t := by
  unfold strip lstrip
  rw [List.append_assoc, (takeWhile_app_all isWs a (t ++ b) ha).2]
  by_cases ht : t.all isWs = true
  · have hnil : ∀ (l : List Char), l.all isWs = true → l.dropWhile isWs = [] := fun l hl => by
      have := (takeWhile_app_all isWs l [] hl).2
      simpa using this
    have h1 : (t ++ b).dropWhile isWs = [] := by
      rw [(takeWhile_app_all isWs t b ht).2]
      exact hnil b hb
    rw [h1, hnil t ht]
  · have : ∃ c ∈ t, isWs c = false := by simpa using ht
    rw [dropWhile_append_some isWs t b this, rstrip_append_ws _ b hb]

theorem splitDims_single : ∀ (l : List Char), (∀ c ∈ l, c ≠ ']') → splitDims l = [l]
  | [], _ => rfl
  | [_], _ => rfl
  | c :: d :: r, h => by
    have hc : c ≠ ']' := h c (by simp)
    have ih := splitDims_single (d :: r) (fun x hx => h x (by simp [hx]))
    simp [splitDims, hc, ih]

/-- one dimension with blanks around its count text: the recorded dimension is the same -/
theorem dims_pad (a t b : List Char) (ha : blank a = true) (hb : blank b = true) (ht : ∀ c ∈ t, c ≠ ']') :
    (splitDims (a ++ t ++ b)).map strip = (splitDims t).map strip := by
  have hnb : ∀ (s : List Char), blank s = true → ∀ c ∈ s, c ≠ ']' := fun s hs c hc =>
    (wsA_not c ((List.all_eq_true.mp hs) c hc)).2.2.2.2.2.1
  have hall : ∀ c ∈ a ++ t ++ b, c ≠ ']' := by
    intro c hc
    simp only [List.mem_append] at hc
    rcases hc with (h | h) | h
    · exact hnb a ha c h
    · exact ht c h
    · exact hnb b hb c h
  rw [splitDims_single _ hall, splitDims_single t ht]
  simpa [List.append_assoc] using strip_pad a t b (blank_ws a ha) (blank_ws b hb)

-- ------------------------------------------------------------------------------------------------ " ".join(type.split())
/-- words with a non-empty blank string in front of each further word -/
def typeWords (w0 : List Char) : List (List Char × List Char) → List Char
  | [] => w0
  | (sep, w) :: r => w0 ++ sep ++ typeWords w r

theorem splitWordsGo_word : ∀ (w cur rest : List Char), w.all isWord = true →
    splitWordsGo cur (w ++ rest) = splitWordsGo (w.reverse ++ cur) rest
  | [], _, _, _ => rfl
  | c :: w, cur, rest, h => by
    simp only [List.all_cons, Bool.and_eq_true] at h
    simp only [List.cons_append, splitWordsGo, isWs_of_word c h.1, Bool.false_eq_true, if_false]
    rw [splitWordsGo_word w (c :: cur) rest h.2]
    simp

theorem splitWordsGo_blank : ∀ (s rest : List Char), blank s = true → splitWordsGo [] (s ++ rest) = splitWordsGo [] rest
  | [], _, _ => rfl
  | c :: s, rest, h => by
    simp only [blank, List.all_cons, Bool.and_eq_true] at h
    simp only [List.cons_append, splitWordsGo, isWs_of_wsA c h.1, if_true, List.isEmpty_nil]
    exact splitWordsGo_blank s rest (by simpa [blank] using h.2)

theorem splitWords_typeWords : ∀ (more : List (List Char × List Char)) (w0 : List Char), isWordStr w0 = true →
    (∀ p ∈ more, blank p.1 = true ∧ p.1 ≠ [] ∧ isWordStr p.2 = true) →
    splitWords (typeWords w0 more) = w0 :: more.map (·.2)
  | [], w0, h0, _ => by
    simp only [isWordStr, Bool.and_eq_true, Bool.not_eq_true', List.isEmpty_eq_false_iff] at h0
    have := splitWordsGo_word w0 [] [] h0.2
    simp only [List.append_nil] at this
    simp [splitWords, typeWords, this, splitWordsGo, h0.1]
  | (sep, w) :: r, w0, h0, hm => by
    have hp := hm (sep, w) (by simp)
    have ih := splitWords_typeWords r w hp.2.2 (fun p hp' => hm p (by simp [hp']))
    simp only [isWordStr, Bool.and_eq_true, Bool.not_eq_true', List.isEmpty_eq_false_iff] at h0
    obtain ⟨c, s', hs⟩ := List.exists_cons_of_ne_nil hp.2.1
    have hs : sep = c :: s' := hs
    subst hs
    have hb : isWsA c = true ∧ s'.all isWsA = true := by
      have := hp.1
      simpa [blank] using this
    have hc : isWs c = true := isWs_of_wsA c hb.1
    have hs' : blank s' = true := by simpa [blank] using hb.2
    have hne : (w0.reverse ++ []).isEmpty = false := by simp [h0.1]
    simp only [splitWords] at ih ⊢
    simp only [typeWords, List.append_assoc, List.cons_append]
    rw [splitWordsGo_word w0 [] _ h0.2]
    simp only [splitWordsGo, hc, if_true, hne, Bool.false_eq_true, if_false]
    rw [splitWordsGo_blank s' _ hs', ih]
    simp

/-- the base type of an enum as the handler spells it: the words joined by single blanks, whatever blanks separate them -/
theorem normType_typeWords (more : List (List Char × List Char)) (w0 : List Char) (h0 : isWordStr w0 = true)
    (hm : ∀ p ∈ more, blank p.1 = true ∧ p.1 ≠ [] ∧ isWordStr p.2 = true) :
    normType (typeWords w0 more) = joinBlank (w0 :: more.map (·.2)) := by
  rw [normType, splitWords_typeWords more w0 h0 hm]

end Cstruct.DefParser.C13
