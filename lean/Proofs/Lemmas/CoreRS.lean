/-
  Helper lemmas for `Proofs/Core.lean`, part 5: parsing consumes exactly the declared size (fragment S).
-/
import Proofs.Lemmas.CoreRT
namespace Cstruct.Core.Lemmas
open Cstruct Cstruct.Core

/-! ### Reading consumes the declared size (fragment S) -/

/-- a successful, well-typed read of exactly `n` bytes -/
def RS (cfg : Cfg) (ty : Ty) (ctx : Ctx) (data : Bytes) (pos n : Nat) : Prop :=
  ∃ v, read cfg ty ctx data pos = .ok (v, pos + n) ∧ HasTy cfg v ty

theorem int_rs (cfg : Cfg) (s : Scalar) (hi : Scalar.isInt s = true) (data : Bytes) (pos n : Nat)
    (hn : s.size = some n) (hlen : pos + n ≤ data.length) :
    ∃ v, readScalar cfg s data pos = .ok (.int v, pos + n) ∧ intFits s v = true := by
  cases s with
  | pint k sg =>
    cases hn
    refine ⟨decodeInt cfg.endian sg (sread data pos n), ?_, ?_⟩
    · simp only [readScalar, bind, pure, readExact_of_le data pos n hlen, Except.bind, Except.pure]
    · have := (C05.c05_int_roundtrip_bytes cfg.endian sg (sread data pos n)).1
      rw [sread_length_of_le data pos n hlen] at this
      exact this
  | aint k sg =>
    cases hn
    refine ⟨decodeInt cfg.endian sg (sread data pos n), ?_, ?_⟩
    · simp only [readScalar, bind, pure, readExact_of_le data pos n hlen, Except.bind, Except.pure]
    · have := (C05.c05_int_roundtrip_bytes cfg.endian sg (sread data pos n)).1
      rw [sread_length_of_le data pos n hlen] at this
      exact this
  | pflt n => simp [Scalar.isInt] at hi
  | char => simp [Scalar.isInt] at hi
  | wchar => simp [Scalar.isInt] at hi
  | leb sg => simp [Scalar.isInt] at hi
  | void => simp [Scalar.isInt] at hi

theorem rs_sc (cfg : Cfg) (s : Scalar) (a : Nat) (hS : (Ty.sc s a).fragS cfg = true) (ctx : Ctx) (data : Bytes)
    (pos n : Nat) (hn : (Ty.sc s a).size cfg = some n) (hlen : pos + n ≤ data.length) :
    RS cfg (.sc s a) ctx data pos n := by
  unfold RS
  simp only [Ty.size] at hn
  rw [read_sc]
  cases s with
  | pint k sg =>
    obtain ⟨v, h1, h2⟩ := int_rs cfg (.pint k sg) rfl data pos n hn hlen
    exact ⟨_, h1, .int rfl h2⟩
  | aint k sg =>
    obtain ⟨v, h1, h2⟩ := int_rs cfg (.aint k sg) rfl data pos n hn hlen
    exact ⟨_, h1, .int rfl h2⟩
  | pflt k =>
    cases hn
    refine ⟨.flt (decodeNat cfg.endian (sread data pos n)), ?_, ?_⟩
    · simp only [readScalar, bind, pure, readExact_of_le data pos n hlen, Except.bind, Except.pure]
    · have := C05.Lemmas.decodeNat_lt cfg.endian (sread data pos n)
      rw [sread_length_of_le data pos n hlen] at this
      exact .flt this
  | char =>
    cases hn
    have hl := sread_length_of_le data pos 1 hlen
    obtain ⟨b, hb⟩ : ∃ b, sread data pos 1 = [b] := by
      cases h : sread data pos 1 with
      | nil => rw [h] at hl; cases hl
      | cons b t =>
        rw [h] at hl
        cases t with
        | nil => exact ⟨b, rfl⟩
        | cons _ _ => simp at hl
    refine ⟨.bytes [b], ?_, .char⟩
    simp only [readScalar, bind, pure, readExact_of_le data pos 1 hlen, Except.bind, Except.pure, hb]
  | void =>
    cases hn
    exact ⟨.void, rfl, .void⟩
  | wchar => simp [Ty.fragS] at hS
  | leb sg => simp [Ty.fragS] at hS

theorem rs_enum (cfg : Cfg) (b : Scalar) (a : Nat) (f : Bool) (hS : (Ty.enum b a f).fragS cfg = true) (ctx : Ctx)
    (data : Bytes) (pos n : Nat) (hn : (Ty.enum b a f).size cfg = some n) (hlen : pos + n ≤ data.length) :
    RS cfg (.enum b a f) ctx data pos n := by
  unfold RS
  simp only [Ty.size] at hn
  simp only [Ty.fragS] at hS
  obtain ⟨v, h1, h2⟩ := int_rs cfg b hS data pos n hn hlen
  exact ⟨.enum v, by rw [read_enum, h1]; rfl, .enum h2⟩

theorem rs_ptr (cfg : Cfg) (t : Ty) (hS : (Ty.ptr t).fragS cfg = true) (ctx : Ctx)
    (data : Bytes) (pos n : Nat) (hn : (Ty.ptr t).size cfg = some n) (hlen : pos + n ≤ data.length) :
    RS cfg (.ptr t) ctx data pos n := by
  unfold RS
  simp only [Ty.size] at hn
  simp only [Ty.fragS] at hS
  obtain ⟨v, h1, h2⟩ := int_rs cfg cfg.ptr hS data pos n hn hlen
  exact ⟨.ptr v, by rw [read_ptr, h1]; rfl, .ptr h2⟩

theorem rs_N (cfg : Cfg) (al : Bool) (e : Ty) (k : Nat) (data : Bytes)
    (hdvd : al = true → sAlign cfg e ∣ k)
    (hE : ∀ ctx pos, pos + k ≤ data.length → (al = true → sAlign cfg e ∣ pos) → RS cfg e ctx data pos k) :
    ∀ (n : Nat) (ctx : Ctx) (pos : Nat), pos + n * k ≤ data.length → (al = true → sAlign cfg e ∣ pos) →
      ∃ vs, readN cfg e n ctx data pos = .ok (vs, pos + n * k) ∧ HasTyN cfg vs e n := by
  intro n
  induction n with
  | zero =>
    intro ctx pos _ _
    exact ⟨.nil, by rw [readN_zero]; simp, .nil⟩
  | succ n ih =>
    intro ctx pos hlen hpos
    rw [Nat.succ_mul] at hlen
    obtain ⟨v, h1, h2⟩ := hE ctx pos (by omega) hpos
    obtain ⟨vs, h3, h4⟩ := ih ctx (pos + k) (by omega) (fun ha => Nat.dvd_add (hpos ha) (hdvd ha))
    refine ⟨.cons v vs, ?_, .cons h2 h4⟩
    rw [readN_succ, h1]
    simp only [Except.bind]
    rw [h3]
    have e3 : pos + (n + 1) * k = pos + k + n * k := by rw [Nat.succ_mul]; omega
    rw [e3]

mutual
theorem rs_ty (cfg : Cfg) (al : Bool) : ∀ (ty : Ty), ty.fragS cfg = true → ty.uniformAlign al = true →
    ty.pow2Aligned cfg → ∀ (ctx : Ctx) (data : Bytes) (pos n : Nat), ty.size cfg = some n → pos + n ≤ data.length →
    (al = true → sAlign cfg ty ∣ pos) → RS cfg ty ctx data pos n
  | .sc s a, hS, _, _, ctx, data, pos, n, hn, hlen, _ => rs_sc cfg s a hS ctx data pos n hn hlen
  | .enum b a f, hS, _, _, ctx, data, pos, n, hn, hlen, _ => rs_enum cfg b a f hS ctx data pos n hn hlen
  | .ptr t, hS, _, _, ctx, data, pos, n, hn, hlen, _ => rs_ptr cfg t hS ctx data pos n hn hlen
  | .union _ _, hS, _, _, _, _, _, _, _, _, _ => by simp [Ty.fragS] at hS
  | .arr e len, hS, hU, hP, ctx, data, pos, n, hn, hlen, hpos => by
    simp only [Ty.fragS, Bool.and_eq_true] at hS
    simp only [Ty.uniformAlign] at hU
    simp only [Ty.pow2Aligned] at hP
    simp only [sAlign] at hpos
    obtain ⟨k, hk⟩ := fragS_size cfg e hS.2
    cases len with
    | expr _ => simp at hS
    | nullTerm => simp at hS
    | eof => simp at hS
    | fixed m =>
      simp only [Ty.size, hk] at hn
      cases hn
      unfold RS
      rw [read_arr_fixed]
      by_cases hc : ∃ a, e = .sc .char a
      · obtain ⟨a, rfl⟩ := hc
        cases hk
        rw [readArray_char, Nat.mul_one] at *
        split
        · rename_i h0; subst h0
          exact ⟨.bytes [], rfl, .chars rfl⟩
        · rw [readExact_of_le data pos m hlen]
          exact ⟨.bytes (sread data pos m), rfl, .chars (sread_length_of_le data pos m hlen)⟩
      · have hne : ∀ a, e ≠ .sc .char a := fun a h => hc ⟨a, h⟩
        have hdvd : al = true → sAlign cfg e ∣ k := by
          intro ha; subst ha; exact size_sAlign_dvd cfg e hS.2 hU hP k hk
        obtain ⟨vs, h1, h2⟩ := rs_N cfg al e k data hdvd
          (fun ctx pos hl hp => rs_ty cfg al e hS.2 hU hP ctx data pos k hk hl hp) m ctx pos hlen hpos
        exact ⟨.list vs, readArray_of_readN cfg e hS.2 hne ctx data m pos vs _ h1, .arr hne h2⟩
  | .struct al' fs, hS, hU, hP, ctx, data, pos, n, hn, hlen, hpos => by
    simp only [Ty.fragS] at hS
    simp only [Ty.uniformAlign, Bool.and_eq_true, beq_iff_eq] at hU
    simp only [Ty.pow2Aligned] at hP
    obtain ⟨rfl, hU⟩ := hU
    rw [struct_size cfg al' fs hS] at hn
    cases hn
    have hle := le_alignTo al' (endOff cfg al' fs 0) (Fields.maxAlign cfg fs 0)
    have hdv : al' = true → allAlignDvd cfg pos fs :=
      fun ha => allAlignDvd_of_sAlign cfg al' fs hP pos (hpos ha)
    obtain ⟨vs, szs, h1, h2⟩ := rs_fields cfg al' fs hS hU hP [] data pos 0 BitBuf.empty (by omega) hdv
    simp only [Nat.add_zero] at h1
    refine ⟨.record vs, ?_, .struct h2⟩
    rw [read_struct, structLayout_S cfg al' fs hS]
    simp only [Except.bind, h1]
    cases al' with
    | false => simp [alignTo]
    | true =>
      have hpad := padNat_struct cfg true fs hP pos (endOff cfg true fs 0) (hpos rfl)
      simp only [if_true, alignTo, hpad]
      congr 2; omega
theorem rs_fields (cfg : Cfg) (al : Bool) : ∀ (fs : Fields), Fields.fragS cfg fs = true →
    Fields.uniformAlign al fs = true → fs.pow2Aligned cfg → ∀ (ctx : Ctx) (data : Bytes) (start o : Nat) (bb : BitBuf),
    start + endOff cfg al fs o ≤ data.length → (al = true → allAlignDvd cfg start fs) →
    ∃ vs szs, readFields cfg al fs (offsS cfg al fs o) start bb ctx data (start + o) =
      .ok (vs, szs, start + endOff cfg al fs o) ∧ HasTys cfg vs fs
  | .nil, _, _, _, ctx, data, start, o, bb, _, _ => ⟨.nil, [], by rw [readFields_nil]; rfl, .nil⟩
  | .cons name an ty bits rest, hS, hU, hP, ctx, data, start, o, bb, hlen, hdv => by
    simp only [Fields.fragS, Bool.and_eq_true, Option.isNone_iff_eq_none] at hS
    obtain ⟨⟨rfl, hS1⟩, hS2⟩ := hS
    simp only [Fields.uniformAlign, Bool.and_eq_true] at hU
    simp only [Fields.pow2Aligned] at hP
    obtain ⟨k, hk⟩ := fragS_size cfg ty hS1
    have hfa := alignment_p2 cfg ty hP.1
    have hpos : al = true → sAlign cfg ty ∣ start + alignTo al o (ty.alignment cfg) := by
      intro ha; subst ha
      have h1 := (hdv rfl).1
      exact Nat.dvd_trans (sAlign_dvd_alignment cfg ty) (Nat.dvd_add h1 (alignTo_dvd hfa o))
    simp only [endOff, hk, Option.getD_some] at hlen ⊢
    simp only [offsS, hk, Option.getD_some]
    generalize alignTo al o (ty.alignment cfg) = fo at *
    have hle := le_endOff cfg al rest (fo + k)
    obtain ⟨v, h1, h2⟩ := rs_ty cfg al ty hS1 hU.1 hP.1 ctx data (start + fo) k hk (by omega) hpos
    obtain ⟨vs, szs, h3, h4⟩ := rs_fields cfg al rest hS2 hU.2 hP.2 (Ctx.set ctx name v) data start (fo + k)
      BitBuf.empty hlen (fun ha => (hdv ha).2)
    refine ⟨.cons v vs, (name, start + fo + k - (start + fo)) :: szs, ?_, .cons h2 h4⟩
    rw [readFields_cons_S, h1]
    simp only [Except.bind]
    have e3 : start + fo + k = start + (fo + k) := by omega
    rw [e3, h3]
end

end Cstruct.Core.Lemmas
