/-
  Helper lemmas for `Proofs/C11.lean` (unions): step lemmas for `readMembers`, `writeMemberRaw`, `writeMember`,
  `writeUnion` and the union case of `write`; member lookup; the generalised forms of the C11 theorems.
-/
import CstructModel.Union
import Proofs.Core
import Proofs.C01
import Proofs.C04
namespace Cstruct.C11.Lemmas
open Cstruct Cstruct.Union Cstruct.Core

/-! ### member lookup (the same functions as `nthTy` / `nthVal` of `Proofs/C11.lean`, which this file cannot see) -/

def nTy : Fields → Nat → Option Ty
  | .nil, _ => none
  | .cons _ _ t _ _, 0 => some t
  | .cons _ _ _ _ r, k + 1 => nTy r k

def nVal : Vals → Nat → Option Val
  | .nil, _ => none
  | .cons v _, 0 => some v
  | .cons _ r, k + 1 => nVal r k

/-- any function satisfying the defining equations of `nTy` is `nTy` -/
theorem nTy_unique (f : Fields → Nat → Option Ty) (h0 : ∀ k, f .nil k = none)
    (h1 : ∀ n a t b r, f (.cons n a t b r) 0 = some t)
    (h2 : ∀ n a t b r k, f (.cons n a t b r) (k + 1) = f r k) : ∀ (fs : Fields) (k : Nat), f fs k = nTy fs k
  | .nil, k => by rw [h0]; rfl
  | .cons n a t b r, 0 => by rw [h1]; rfl
  | .cons n a t b r, k + 1 => by rw [h2, nTy_unique f h0 h1 h2 r k]; rfl

theorem nVal_unique (f : Vals → Nat → Option Val) (h0 : ∀ k, f .nil k = none)
    (h1 : ∀ v r, f (.cons v r) 0 = some v)
    (h2 : ∀ v r k, f (.cons v r) (k + 1) = f r k) : ∀ (vs : Vals) (k : Nat), f vs k = nVal vs k
  | .nil, k => by rw [h0]; rfl
  | .cons v r, 0 => by rw [h1]; rfl
  | .cons v r, k + 1 => by rw [h2, nVal_unique f h0 h1 h2 r k]; rfl

theorem nVal_setNth : ∀ (vs : Vals) (k : Nat) (v : Val), k < vs.length → nVal (setNth vs k v) k = some v
  | .nil, k, v, h => by simp [Vals.length] at h
  | .cons a r, 0, v, _ => by simp [setNth, nVal]
  | .cons a r, k + 1, v, h => by
    simp only [Vals.length] at h
    simp only [setNth, nVal]
    exact nVal_setNth r k v (by omega)

/-! ### step lemmas -/

theorem readMembers_nil (cfg : Cfg) (ctx : Ctx) (buf : Bytes) : readMembers cfg .nil ctx buf = .ok .nil := by
  rw [readMembers]

theorem readMembers_cons (cfg : Cfg) (name an ty bits rest) (ctx : Ctx) (buf : Bytes) :
    readMembers cfg (.cons name an ty bits rest) ctx buf =
      match read cfg ty ctx buf 0 with
      | .error e => .error e
      | .ok (v, _) =>
        match readMembers cfg rest (ctx.set name v) buf with
        | .error e => .error e
        | .ok vs => .ok (.cons v vs) := by
  rw [readMembers]; rfl

theorem writeMemberRaw_zero (cfg : Cfg) (n a t b r v vr pos) :
    writeMemberRaw cfg (.cons n a t b r) (.cons v vr) 0 pos = write cfg t v pos := by
  rw [writeMemberRaw]

theorem writeMemberRaw_succ (cfg : Cfg) (n a t b r v vr i pos) :
    writeMemberRaw cfg (.cons n a t b r) (.cons v vr) (i + 1) pos = writeMemberRaw cfg r vr i pos := by
  rw [writeMemberRaw]

theorem writeMember_eq (cfg : Cfg) (fs : Fields) (vs : Vals) (i sz pos : Nat) :
    writeMember cfg fs vs i sz pos =
      match writeMemberRaw cfg fs vs i pos with
      | .error e => .error e
      | .ok body => .ok (body ++ zeros (sz - body.length)) := by
  rw [writeMember]; rfl

theorem writeUnion_nil (cfg : Cfg) (fs : Fields) (vs : Vals) (anon : Option Nat) (sz pos : Nat) :
    writeUnion cfg fs vs [] anon sz pos =
      match anon with
      | some i => writeMember cfg fs vs i sz pos
      | none => .ok (zeros sz) := by
  rw [writeUnion.eq_def]; rfl

theorem writeUnion_cons (cfg : Cfg) (fs : Fields) (vs : Vals) (i : Nat) (rest : List Nat) (anon : Option Nat) (sz pos : Nat) :
    writeUnion cfg fs vs (i :: rest) anon sz pos =
      match (fs.toList)[i]? with
      | none => .error .other
      | some (_, isAnon, t, _) =>
        if isStructLike t ∧ isAnon then writeUnion cfg fs vs rest (some i) sz pos
        else
          match writeMemberRaw cfg fs vs i pos with
          | .error e => .error e
          | .ok body =>
            if body.isEmpty then
              match anon with
              | some j => writeMember cfg fs vs j sz pos
              | none => .ok (zeros sz)
            else .ok (body ++ zeros (sz - body.length)) := by
  rw [writeUnion.eq_def]; rfl

/-- the union case of `write`: `writeUnion` over some member order -/
theorem write_union (cfg : Cfg) (al : Bool) (fs : Fields) (buf : Bytes) (vs : Vals) (pos sz : Nat)
    (hsz : (Ty.union al fs).size cfg = some sz) :
    ∃ order, write cfg (.union al fs) (.union buf vs) pos = writeUnion cfg fs vs order none sz pos := by
  rw [write]
  simp only [hsz]
  exact ⟨_, rfl⟩

/-! ### members -/

theorem members_gen (cfg : Cfg) (buf : Bytes) : ∀ (fs : Fields) (ctx : Ctx) (vs : Vals),
    readMembers cfg fs ctx buf = .ok vs → ∀ (k : Nat) (t : Ty), nTy fs k = some t →
      ∃ v ctx' p, nVal vs k = some v ∧ read cfg t ctx' buf 0 = .ok (v, p)
  | .nil, ctx, vs, h, k, t, ht => by simp [nTy] at ht
  | .cons name an ty bits rest, ctx, vs, h, k, t, ht => by
    rw [readMembers_cons] at h
    split at h
    · cases h
    · rename_i v p hr
      split at h
      · cases h
      · rename_i vs' hm
        cases h
        cases k with
        | zero =>
          simp only [nTy, Option.some.injEq] at ht
          subst ht
          exact ⟨v, ctx, p, rfl, hr⟩
        | succ k => exact members_gen cfg buf rest _ vs' hm k t ht

/-- a member whose type parses to `v` under every context holds `v` -/
theorem members_val (cfg : Cfg) (buf : Bytes) (fs : Fields) (ctx : Ctx) (vs : Vals)
    (h : readMembers cfg fs ctx buf = .ok vs) (k : Nat) (t : Ty) (ht : nTy fs k = some t) (v : Val) (p : Nat)
    (hr : ∀ ctx', read cfg t ctx' buf 0 = .ok (v, p)) : nVal vs k = some v := by
  obtain ⟨v', ctx', p', hv, hr'⟩ := members_gen cfg buf fs ctx vs h k t ht
  rw [hr ctx'] at hr'
  cases hr'
  exact hv

/-! ### assignment -/

theorem assign_ok (cfg : Cfg) (fs : Fields) (s : UState) (k : Nat) (v : Val) (s' : UState)
    (h : assign cfg fs s k v = .ok s') :
    ∃ enc, writeMemberRaw cfg fs (setNth s.vals k v) k 0 = .ok enc ∧ s'.buf = enc ++ s.buf.drop enc.length ∧
      readMembers cfg fs [] s'.buf = .ok s'.vals := by
  unfold assign at h
  split at h
  · cases h
  · rename_i enc he
    simp only at h
    split at h
    · cases h
    · rename_i vs hm
      cases h
      exact ⟨enc, he, rfl, hm⟩

theorem history_coherent (cfg : Cfg) (fs : Fields) : ∀ (hist : List (Nat × Val)) (s s' : UState),
    readMembers cfg fs [] s.buf = .ok s.vals → assignAll cfg fs s hist = .ok s' →
    readMembers cfg fs [] s'.buf = .ok s'.vals
  | [], s, s', hinv, h => by
    simp only [assignAll] at h
    cases h
    exact hinv
  | (k, v) :: r, s, s', _, h => by
    simp only [assignAll] at h
    split at h
    · cases h
    · rename_i s1 h1
      obtain ⟨_, _, _, hm⟩ := assign_ok cfg fs s k v s1 h1
      exact history_coherent cfg fs r s1 s' hm h

theorem writeMemberRaw_eq (cfg : Cfg) : ∀ (fs : Fields) (vs : Vals) (k : Nat) (t : Ty) (x : Val) (pos : Nat),
    nTy fs k = some t → nVal vs k = some x → writeMemberRaw cfg fs vs k pos = write cfg t x pos
  | .nil, _, _, _, _, _, ht, _ => by simp [nTy] at ht
  | .cons _ _ _ _ _, .nil, _, _, _, _, _, hx => by simp [nVal] at hx
  | .cons n a ty b r, .cons v vr, 0, t, x, pos, ht, hx => by
    simp only [nTy, Option.some.injEq] at ht
    simp only [nVal, Option.some.injEq] at hx
    subst ht; subst hx
    exact writeMemberRaw_zero ..
  | .cons n a ty b r, .cons v vr, k + 1, t, x, pos, ht, hx => by
    rw [writeMemberRaw_succ]
    exact writeMemberRaw_eq cfg r vr k t x pos ht hx

theorem assign_readback (cfg : Cfg) (al : Bool) (fs : Fields) (s : UState) (k : Nat) (t : Ty) (v : Val) (s' : UState)
    (ht : nTy fs k = some t) (hS : t.fragS cfg = true) (hu : t.uniformAlign al = true) (hp : t.pow2Aligned cfg)
    (hv : HasTy cfg v t) (hk : k < s.vals.length) (h : assign cfg fs s k v = .ok s') :
    nVal s'.vals k = some v := by
  obtain ⟨enc, hw, hb, hm⟩ := assign_ok cfg fs s k v s' h
  rw [writeMemberRaw_eq cfg fs _ k t v 0 ht (nVal_setNth s.vals k v hk)] at hw
  have hr : ∀ ctx, read cfg t ctx s'.buf 0 = .ok (v, enc.length) := by
    intro ctx
    have := roundtrip_S cfg al t hS hu hp v hv 0 (Cstruct.C01.alignsDivide_zero cfg t) enc hw [] (s.buf.drop enc.length)
      rfl ctx
    simpa [hb] using this
  exact members_val cfg s'.buf fs [] s'.vals hm k t ht v enc.length hr

/-! ### parse, assigned bytes -/

theorem parse_size (cfg : Cfg) (fs : Fields) (sz : Nat) (data : Bytes) (pos : Nat) (s : UState) (p : Nat)
    (h : parse cfg fs sz data pos = .ok (s, p)) (hlen : pos + sz ≤ data.length) :
    p = pos + sz ∧ s.buf = (data.drop pos).take sz ∧ s.buf.length = sz := by
  have hl : (sread data pos sz).length = sz := by
    simp only [sread, List.length_take, List.length_drop]
    omega
  unfold parse at h
  simp only at h
  split at h
  · cases h
  · cases h
    exact ⟨rfl, rfl, hl⟩

theorem assign_bytes (cfg : Cfg) (fs : Fields) (s : UState) (k : Nat) (v : Val) (s' : UState)
    (h : assign cfg fs s k v = .ok s') :
    ∃ enc, writeMemberRaw cfg fs (setNth s.vals k v) k 0 = .ok enc ∧ s'.buf = enc ++ s.buf.drop enc.length ∧
      (enc.length ≤ s.buf.length → s'.buf.length = s.buf.length) ∧
      (∀ i, enc.length ≤ i → s'.buf[i]? = s.buf[i]?) := by
  obtain ⟨enc, hw, hb, _⟩ := assign_ok cfg fs s k v s' h
  refine ⟨enc, hw, hb, ?_, ?_⟩
  · intro hle
    rw [hb, List.length_append, List.length_drop]
    omega
  · intro i hi
    rw [hb, List.getElem?_append_right hi, List.getElem?_drop]
    congr 1
    omega

/-! ### dump -/

theorem length_zeros (n : Nat) : (zeros n).length = n := by simp [zeros]

theorem writeMember_length (cfg : Cfg) (fs : Fields) (vs : Vals) (i sz pos : Nat) (bs : Bytes)
    (h : writeMember cfg fs vs i sz pos = .ok bs) : bs.length ≥ sz := by
  rw [writeMember_eq] at h
  split at h
  · cases h
  · cases h
    simp only [List.length_append, length_zeros]
    omega

theorem writeUnion_length (cfg : Cfg) (fs : Fields) (vs : Vals) (sz pos : Nat) : ∀ (order : List Nat) (anon : Option Nat)
    (bs : Bytes), writeUnion cfg fs vs order anon sz pos = .ok bs → bs.length ≥ sz
  | [], anon, bs, h => by
    rw [writeUnion_nil] at h
    split at h
    · exact writeMember_length _ _ _ _ _ _ _ h
    · cases h; simp [length_zeros]
  | i :: rest, anon, bs, h => by
    rw [writeUnion_cons] at h
    split at h
    · cases h
    · split at h
      · exact writeUnion_length cfg fs vs sz pos rest _ bs h
      · split at h
        · cases h
        · split at h
          · split at h
            · exact writeMember_length _ _ _ _ _ _ _ h
            · cases h; simp [length_zeros]
          · cases h
            simp only [List.length_append, length_zeros]
            omega

theorem dump_size (cfg : Cfg) (al : Bool) (fs : Fields) (buf : Bytes) (vs : Vals) (pos : Nat) (bs : Bytes) (sz : Nat)
    (hsz : (Ty.union al fs).size cfg = some sz) (h : write cfg (.union al fs) (.union buf vs) pos = .ok bs) :
    bs.length ≥ sz := by
  obtain ⟨order, e⟩ := write_union cfg al fs buf vs pos sz hsz
  rw [e] at h
  exact writeUnion_length cfg fs vs sz pos order none bs h

end Cstruct.C11.Lemmas
