/-
  C10, text level — helper lemmas, part A: character classes, one tokenizer step per token class.
-/
import Proofs.Spec.C10Text

namespace Cstruct.Expr.C10.TextLemmas
open Cstruct Cstruct.Expr Cstruct.Expr.C10

/-! ### Character classes -/

theorem opChar_facts : ∀ c ∈ Gen.tokenizerOperators,
    c.isDigit = false ∧ isIdStart c = false ∧ isIdChar c = false ∧ c ≠ '<' ∧ c ≠ '>' ∧ c ≠ ' ' ∧ c ≠ '\t' := by
  decide

theorem hexbin_facts : ∀ c ∈ Gen.hexbinSuffix,
    c.isDigit = false ∧ isIdChar c = true ∧ isSuffixChar c = false ∧ isOperatorChar c = false := by decide

theorem mem_ops {c : Char} (h : isOperatorChar c = true) : c ∈ Gen.tokenizerOperators :=
  List.contains_iff_mem.mp h

theorem mem_hexbin {c : Char} (h : isHexBinSuffix c = true) : c ∈ Gen.hexbinSuffix :=
  List.contains_iff_mem.mp h

theorem not_op_of {c : Char} (p : Char → Bool) (hp : ∀ c ∈ Gen.tokenizerOperators, p c = false)
    (h : p c = true) : isOperatorChar c = false := by
  cases ho : isOperatorChar c with
  | false => rfl
  | true => have := hp c (mem_ops ho); rw [h] at this; cases this

theorem digit_not_op {c : Char} (h : c.isDigit = true) : isOperatorChar c = false :=
  not_op_of Char.isDigit (fun c hc => (opChar_facts c hc).1) h

theorem idStart_not_op {c : Char} (h : isIdStart c = true) : isOperatorChar c = false :=
  not_op_of isIdStart (fun c hc => (opChar_facts c hc).2.1) h

theorem idStart_not_digit {c : Char} (h : isIdStart c = true) : c.isDigit = false := by
  cases hd : c.isDigit with
  | false => rfl
  | true =>
    simp only [isIdStart, Char.isAlpha, Char.isUpper, Char.isLower, Char.isDigit,
      Bool.or_eq_true, Bool.and_eq_true, decide_eq_true_eq, UInt32.le_iff_toNat_le, ge_iff_le] at *
    simp only [Char.reduceVal, UInt32.reduceToNat] at *
    rcases h with h | rfl
    · omega
    · simp at hd

theorem idStart_idChar {c : Char} (h : isIdStart c = true) : isIdChar c = true := by
  simp only [isIdStart, isIdChar, Char.isAlphanum, Bool.or_eq_true, decide_eq_true_eq] at *
  rcases h with h | h
  · exact Or.inl (Or.inl h)
  · exact Or.inr h

theorem digit_idChar {c : Char} (h : c.isDigit = true) : isIdChar c = true := by
  simp only [isIdChar, Char.isAlphanum, Bool.or_eq_true, decide_eq_true_eq]
  exact Or.inl (Or.inr h)

theorem digit_hexDigit {c : Char} (h : c.isDigit = true) : isHexDigit c = true := by
  simp only [isHexDigit, h, Bool.true_or]

theorem hexDigit_idChar {c : Char} (h : isHexDigit c = true) : isIdChar c = true := by
  simp only [isHexDigit, isIdChar, Char.isAlphanum, Char.isAlpha, Char.isUpper, Char.isLower, Char.isDigit,
    Bool.or_eq_true, Bool.and_eq_true, decide_eq_true_eq, Char.le_def, UInt32.le_iff_toNat_le, ge_iff_le] at *
  simp only [Char.reduceVal, UInt32.reduceToNat] at *
  omega

theorem hexDigit_not_suffix {c : Char} (h : isHexDigit c = true) : isSuffixChar c = false := by
  cases hs : isSuffixChar c with
  | false => rfl
  | true =>
    simp only [isSuffixChar, Bool.or_eq_true, decide_eq_true_eq] at hs
    rcases hs with ((rfl | rfl) | rfl) | rfl <;> simp [isHexDigit] at h

theorem octDigit_digit {c : Char} (h : isOctDigit c = true) : c.isDigit = true := by
  simp only [isOctDigit, Char.isDigit, Bool.and_eq_true, decide_eq_true_eq, Char.le_def,
    UInt32.le_iff_toNat_le, ge_iff_le] at *
  simp only [Char.reduceVal, UInt32.reduceToNat] at *
  omega

theorem binDigit_digit {c : Char} (h : isBinDigit c = true) : c.isDigit = true := by
  simp only [isBinDigit, Bool.or_eq_true, decide_eq_true_eq] at h
  rcases h with rfl | rfl <;> rfl

theorem suffixChar_idChar {c : Char} (h : isSuffixChar c = true) : isIdChar c = true := by
  simp only [isSuffixChar, Bool.or_eq_true, decide_eq_true_eq] at h
  rcases h with ((rfl | rfl) | rfl) | rfl <;> rfl

theorem hexbin_idChar {c : Char} (h : isHexBinSuffix c = true) : isIdChar c = true :=
  (hexbin_facts c (mem_hexbin h)).2.1

theorem hexbin_not_suffix {c : Char} (h : isHexBinSuffix c = true) : isSuffixChar c = false :=
  (hexbin_facts c (mem_hexbin h)).2.2.1

theorem digit_not_hexbin {c : Char} (h : c.isDigit = true) : isHexBinSuffix c = false := by
  cases hb : isHexBinSuffix c with
  | false => rfl
  | true => have := (hexbin_facts c (mem_hexbin hb)).1; rw [h] at this; cases this

theorem not_of_not_idChar {c : Char} (p : Char → Bool) (hp : ∀ c, p c = true → isIdChar c = true)
    (h : isIdChar c = false) : p c = false := by
  cases hc : p c with
  | false => rfl
  | true => have := hp c hc; rw [h] at this; cases this

/-- what may follow a word token: end of input, or a character that is not a letter, digit or `_` -/
def Boundary (rest : List Char) : Prop := ∀ c, rest.head? = some c → isIdChar c = false

theorem boundary_nil : Boundary [] := fun _ h => by cases h

theorem boundary_cons {c : Char} {r : List Char} (h : isIdChar c = false) : Boundary (c :: r) := by
  intro c' hc; cases hc; exact h

/-! ### `takeWhileC`, `skipSuffix` -/

theorem takeWhileC_append (p : Char → Bool) (ds tl : List Char) (hds : ∀ d ∈ ds, p d = true)
    (htl : ∀ c, tl.head? = some c → p c = false) : takeWhileC p (ds ++ tl) = (ds, tl) := by
  induction ds with
  | nil =>
    cases tl with
    | nil => rfl
    | cons c r => simp only [List.nil_append, takeWhileC, htl c rfl, Bool.false_eq_true, if_false]
  | cons d ds ih =>
    simp only [List.cons_append, takeWhileC, hds d (by simp), if_true, ih (fun x hx => hds x (by simp [hx]))]

theorem isU_suffixChar {c : Char} (h : IsU c) : isSuffixChar c = true := by
  rcases h with rfl | rfl <;> rfl

theorem isL_suffixChar {c : Char} (h : IsL c) : isSuffixChar c = true := by
  rcases h with rfl | rfl <;> rfl

theorem suffix_chars {sfx : List Char} (h : IsSuffix sfx) : ∀ c ∈ sfx, isSuffixChar c = true := by
  intro c hc
  cases h with
  | none => cases hc
  | u h1 => simp only [List.mem_cons, List.not_mem_nil, or_false] at hc; subst hc; exact isU_suffixChar h1
  | l h1 => simp only [List.mem_cons, List.not_mem_nil, or_false] at hc; subst hc; exact isL_suffixChar h1
  | ul h1 h2 =>
    simp only [List.mem_cons, List.not_mem_nil, or_false] at hc
    rcases hc with rfl | rfl
    · exact isU_suffixChar h1
    · exact isL_suffixChar h2
  | ll h1 h2 =>
    simp only [List.mem_cons, List.not_mem_nil, or_false] at hc
    rcases hc with rfl | rfl
    · exact isL_suffixChar h1
    · exact isL_suffixChar h2
  | lu h1 h2 =>
    simp only [List.mem_cons, List.not_mem_nil, or_false] at hc
    rcases hc with rfl | rfl
    · exact isL_suffixChar h1
    · exact isU_suffixChar h2
  | ull h1 h2 h3 =>
    simp only [List.mem_cons, List.not_mem_nil, or_false] at hc
    rcases hc with rfl | rfl | rfl
    · exact isU_suffixChar h1
    · exact isL_suffixChar h2
    · exact isL_suffixChar h3
  | llu h1 h2 h3 =>
    simp only [List.mem_cons, List.not_mem_nil, or_false] at hc
    rcases hc with rfl | rfl | rfl
    · exact isL_suffixChar h1
    · exact isL_suffixChar h2
    · exact isU_suffixChar h3

/-- the head of `rest` is not one of the suffix letters -/
def NoSfx (rest : List Char) : Prop :=
  ∀ c r, rest = c :: r → c ≠ 'u' ∧ c ≠ 'U' ∧ c ≠ 'l' ∧ c ≠ 'L'

theorem noSfx_of_boundary {rest : List Char} (hb : Boundary rest) : NoSfx rest := by
  intro c r e
  have := hb c (by rw [e]; rfl)
  refine ⟨?_, ?_, ?_, ?_⟩ <;> rintro rfl <;> simp [isIdChar] at this

theorem skip_nil {rest : List Char} (hr : NoSfx rest) : skipSuffix rest = rest := by
  cases rest with
  | nil => rfl
  | cons c r => obtain ⟨h1, h2, h3, h4⟩ := hr c r rfl; simp [skipSuffix, h1, h2, h3, h4]

theorem skip_u {a : Char} {rest : List Char} (ha : IsU a) (hr : NoSfx rest) : skipSuffix (a :: rest) = rest := by
  cases rest with
  | nil => rcases ha with rfl | rfl <;> simp [skipSuffix]
  | cons c r =>
    obtain ⟨h1, h2, h3, h4⟩ := hr c r rfl
    rcases ha with rfl | rfl <;> simp [skipSuffix, h3, h4]

theorem skip_ul {a b : Char} {rest : List Char} (ha : IsU a) (hb : IsL b) (hr : NoSfx rest) :
    skipSuffix (a :: b :: rest) = rest := by
  cases rest with
  | nil => rcases ha with rfl | rfl <;> rcases hb with rfl | rfl <;> simp [skipSuffix]
  | cons c r =>
    obtain ⟨h1, h2, h3, h4⟩ := hr c r rfl
    rcases ha with rfl | rfl <;> rcases hb with rfl | rfl <;> simp [skipSuffix, h3, h4]

theorem skip_ull {a b c : Char} {rest : List Char} (ha : IsU a) (hb : IsL b) (hc : IsL c) :
    skipSuffix (a :: b :: c :: rest) = rest := by
  rcases ha with rfl | rfl <;> rcases hb with rfl | rfl <;> rcases hc with rfl | rfl <;> simp [skipSuffix]

theorem skip_l {a : Char} {rest : List Char} (ha : IsL a) (hr : NoSfx rest) : skipSuffix (a :: rest) = rest := by
  cases rest with
  | nil => rcases ha with rfl | rfl <;> simp [skipSuffix]
  | cons c r =>
    obtain ⟨h1, h2, h3, h4⟩ := hr c r rfl
    rcases ha with rfl | rfl <;> simp [skipSuffix, h1, h2, h3, h4]

theorem skip_ll {a b : Char} {rest : List Char} (ha : IsL a) (hb : IsL b) (hr : NoSfx rest) :
    skipSuffix (a :: b :: rest) = rest := by
  cases rest with
  | nil => rcases ha with rfl | rfl <;> rcases hb with rfl | rfl <;> simp [skipSuffix]
  | cons c r =>
    obtain ⟨h1, h2, h3, h4⟩ := hr c r rfl
    rcases ha with rfl | rfl <;> rcases hb with rfl | rfl <;> simp [skipSuffix, h1, h2]

theorem skip_lu {a b : Char} {rest : List Char} (ha : IsL a) (hb : IsU b) :
    skipSuffix (a :: b :: rest) = rest := by
  rcases ha with rfl | rfl <;> rcases hb with rfl | rfl <;> simp [skipSuffix]

theorem skip_llu {a b c : Char} {rest : List Char} (ha : IsL a) (hb : IsL b) (hc : IsU c) :
    skipSuffix (a :: b :: c :: rest) = rest := by
  rcases ha with rfl | rfl <;> rcases hb with rfl | rfl <;> rcases hc with rfl | rfl <;> simp [skipSuffix]

theorem skipSuffix_suffix {sfx rest : List Char} (h : IsSuffix sfx) (hb : Boundary rest) :
    skipSuffix (sfx ++ rest) = rest := by
  have hr := noSfx_of_boundary hb
  cases h with
  | none => exact skip_nil hr
  | u h1 => exact skip_u h1 hr
  | ul h1 h2 => exact skip_ul h1 h2 hr
  | ull h1 h2 h3 => exact skip_ull h1 h2 h3
  | l h1 => exact skip_l h1 hr
  | ll h1 h2 => exact skip_ll h1 h2 hr
  | lu h1 h2 => exact skip_lu h1 h2
  | llu h1 h2 h3 => exact skip_llu h1 h2 h3

/-! ### One tokenizer step -/

theorem step_op (fuel : Nat) (c : Char) (r : List Char) (acc : List String) (h : isOperatorChar c = true) :
    tokenizeAux (fuel + 1) (c :: r) acc = tokenizeAux fuel r (String.singleton c :: acc) := by
  rw [tokenizeAux.eq_def]; simp only [h, if_true]

theorem step_blank (fuel : Nat) (c : Char) (r : List Char) (acc : List String) (h : c = ' ' ∨ c = '\t') :
    tokenizeAux (fuel + 1) (c :: r) acc = tokenizeAux fuel r acc := by
  rcases h with rfl | rfl <;> (rw [tokenizeAux.eq_def]; simp [isOperatorChar, Gen.tokenizerOperators, isIdStart])

theorem step_shl (fuel : Nat) (r : List Char) (acc : List String) :
    tokenizeAux (fuel + 1) ('<' :: '<' :: r) acc = tokenizeAux fuel r ("<<" :: acc) := by
  rw [tokenizeAux.eq_def]; simp [isOperatorChar, Gen.tokenizerOperators, isIdStart]

theorem step_shr (fuel : Nat) (r : List Char) (acc : List String) :
    tokenizeAux (fuel + 1) ('>' :: '>' :: r) acc = tokenizeAux fuel r (">>" :: acc) := by
  rw [tokenizeAux.eq_def]; simp [isOperatorChar, Gen.tokenizerOperators, isIdStart]

theorem step_ident (fuel : Nat) (c : Char) (cs rest : List Char) (acc : List String)
    (hc : isIdStart c = true) (hcs : ∀ d ∈ cs, isIdChar d = true) (hb : Boundary rest) :
    tokenizeAux (fuel + 1) (c :: cs ++ rest) acc = tokenizeAux fuel rest (String.ofList (c :: cs) :: acc) := by
  have htw : takeWhileC isIdChar ((c :: cs) ++ rest) = (c :: cs, rest) :=
    takeWhileC_append isIdChar (c :: cs) rest
      (fun d hd => by
        simp only [List.mem_cons] at hd
        rcases hd with rfl | hd
        · exact idStart_idChar hc
        · exact hcs d hd) hb
  rw [List.cons_append] at htw ⊢
  rw [tokenizeAux.eq_def]
  simp only [idStart_not_op hc, idStart_not_digit hc, hc, if_true, Bool.false_eq_true, if_false, htw]

def numSplit (r : List Char) : List Char × List Char :=
  match r with
  | s :: r' => if isHexBinSuffix s then ([s], r') else ([], r)
  | [] => ([], r)

def badTok (tok : List Char) : Bool := match tok with | [_, d] => isHexBinSuffix d | _ => false

theorem step_digit (fuel : Nat) (c : Char) (r : List Char) (acc : List String) (hd : c.isDigit = true) :
    tokenizeAux (fuel + 1) (c :: r) acc =
      if badTok (c :: ((numSplit r).1 ++ (takeWhileC isHexDigit (numSplit r).2).1)) = true then .error .tokenizer
      else tokenizeAux fuel (skipSuffix (takeWhileC isHexDigit (numSplit r).2).2)
        (String.ofList (octRewrite (c :: ((numSplit r).1 ++ (takeWhileC isHexDigit (numSplit r).2).1))) :: acc) := by
  rw [tokenizeAux.eq_def]; simp only [digit_not_op hd, hd, if_true, Bool.false_eq_true, if_false]
  rfl

theorem numSplit_none {r : List Char} (h : ∀ s, r.head? = some s → isHexBinSuffix s = false) :
    numSplit r = ([], r) := by
  cases r with
  | nil => rfl
  | cons s r' => simp only [numSplit, h s rfl, Bool.false_eq_true, if_false]

theorem numSplit_some {p : Char} (r : List Char) (h : isHexBinSuffix p = true) :
    numSplit (p :: r) = ([p], r) := by
  simp only [numSplit, h, if_true]

/-- the digit branch on `c pfx hx tl`: `pfx` is the optional `x`/`b` letter, `hx` the hexadecimal digits taken,
    `tl` what follows (suffix and rest) -/
theorem step_number (fuel : Nat) (c : Char) (pfx hx tl : List Char) (acc : List String)
    (hd : c.isDigit = true)
    (hpfx : (pfx = [] ∧ ∀ s, (hx ++ tl).head? = some s → isHexBinSuffix s = false) ∨
            (∃ p, pfx = [p] ∧ isHexBinSuffix p = true ∧ hx ≠ []))
    (hhx : ∀ d ∈ hx, isHexDigit d = true)
    (htl : ∀ s, tl.head? = some s → isHexDigit s = false) :
    tokenizeAux (fuel + 1) (c :: (pfx ++ (hx ++ tl))) acc =
      tokenizeAux fuel (skipSuffix tl) (String.ofList (octRewrite (c :: (pfx ++ hx))) :: acc) := by
  have htw := takeWhileC_append isHexDigit hx tl hhx htl
  rw [step_digit fuel c _ acc hd]
  rcases hpfx with ⟨rfl, hns⟩ | ⟨p, rfl, hp, hne⟩
  · rw [List.nil_append, numSplit_none hns]
    simp only [htw, List.nil_append]
    have hbad : badTok (c :: hx) = false := by
      cases hx with
      | nil => rfl
      | cons d hx' =>
        cases hx' with
        | nil =>
          simp only [badTok]
          exact hns d rfl
        | cons _ _ => rfl
    simp only [hbad, Bool.false_eq_true, if_false]
  · rw [List.cons_append, List.nil_append, numSplit_some _ hp]
    simp only [htw]
    have hbad : badTok (c :: ([p] ++ hx)) = false := by
      cases hx with
      | nil => exact absurd rfl hne
      | cons _ _ => rfl
    simp only [hbad, Bool.false_eq_true, if_false]

end Cstruct.Expr.C10.TextLemmas
