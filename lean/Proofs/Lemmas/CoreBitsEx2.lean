/-
  Non-vacuity material for `Proofs/CoreBits.lean`, aligned mode: a concrete aligned big-endian structure whose second
  bit-field unit sits behind a byte of padding, evaluated member by member as in `CoreBitsEx.lean`.
-/
import Proofs.Lemmas.CoreBitsA
import Proofs.Lemmas.CoreBitsEx
namespace Cstruct.Core.Ex
open Cstruct Cstruct.Core.Lemmas
set_option linter.unusedSimpArgs false

/-! aligned, big endian: `struct { uint8 a:3; uint16 b:4; uint16 c:12; uint8 e; }` — the second unit is placed at the
    aligned offset 2 after one byte of padding, the structure is padded to 6 bytes -/
def cfgBE : Cfg := { endian := .big, ptr := .pint 4 false, ptrAlign := 4, consts := [] }
def gsE : Fields := .cons "e" false u8 none .nil
def gsC : Fields := .cons "c" false u16 (some 12) gsE
def gsB : Fields := .cons "b" false u16 (some 4) gsC
def gsA : Fields := .cons "a" false u8 (some 3) gsB
def tyG : Ty := .struct true gsA
def wsE : Vals := .cons (.int 7) .nil
def wsC : Vals := .cons (.int 0xABC) wsE
def wsB : Vals := .cons (.int 9) wsC
def wsA : Vals := .cons (.int 5) wsB

theorem gxE : writeFields cfgBE true gsE [some 4] wsE 0 BitBuf.empty 4 = .ok ([7], BitBuf.empty) := by
  rw [gsE, wsE, writeFields_cons_S, u8]
  simp only [Nat.lt_irrefl, if_false, Nat.add_zero, write_sc]
  have : writeScalar cfgBE (.pint 1 false) (.int 7) = .ok [7] := by decide +kernel
  rw [this]
  simp only [Except.bind, writeFields_nil]
  rfl

theorem gxC : writeFields cfgBE true gsC [none, some 4] wsC 0
    { ty := some (.pint 2 false), buffer := 0x9000, remaining := 12 } 2 = .ok ([0x9A, 0xBC, 7], BitBuf.empty) := by
  rw [gsC, wsC, writeFields_bit_cont_al cfgBE true _ _ _ _ _ _ _ _ 0 2 (.pint 2 false) 2 0xABC _ rfl rfl (Or.inl rfl)
    rfl (by decide) (fun _ => by decide +kernel), putStepA]
  have p : BitBuf.put cfgBE.endian { ty := some (.pint 2 false), buffer := 0x9000, remaining := 12 } 2 0xABC (11 + 1) =
      some { ty := some (.pint 2 false), buffer := 0x9ABC, remaining := 0 } := by decide +kernel
  have f : flushBits cfgBE { ty := some (.pint 2 false), buffer := 0x9ABC, remaining := 0 } = .ok [0x9A, 0xBC] := by
    decide +kernel
  rw [p]
  simp only [if_true, f, Except.bind, zeros, List.replicate_zero, List.nil_append, List.length_cons, List.length_nil,
    Nat.zero_add, Nat.reduceAdd, gxE]
  rfl

theorem gxB : writeFields cfgBE true gsB [some 2, none, some 4] wsB 0 BitBuf.empty 1 =
    .ok ([0, 0x9A, 0xBC, 7], BitBuf.empty) := by
  rw [gsB, wsB, writeFields_bit_idle_al cfgBE true _ _ _ _ _ _ _ _ _ 0 1 (.pint 2 false) 2 9 rfl rfl (Or.inl rfl), putStepA]
  have p : BitBuf.put cfgBE.endian { ty := some (.pint 2 false), buffer := 0, remaining := 2 * 8 } 2 9 (3 + 1) =
      some { ty := some (.pint 2 false), buffer := 0x9000, remaining := 12 } := by decide +kernel
  rw [p]
  simp only [Nat.succ_ne_zero, if_false, Except.bind, List.length_nil, Nat.add_zero, Nat.zero_add, Nat.reduceLT, if_true,
    Nat.reduceSub, zeros, List.replicate, List.append_nil, List.length_cons, Nat.reduceAdd, gxC]
  rfl

theorem gxA : writeFields cfgBE true gsA [some 0, some 2, none, some 4] wsA 0 BitBuf.empty 0 =
    .ok ([0xA0, 0, 0x9A, 0xBC, 7], BitBuf.empty) := by
  rw [gsA, wsA, writeFields_bit_idle_al cfgBE true _ _ _ _ _ _ _ _ _ 0 0 (.pint 1 false) 1 5 rfl rfl (Or.inl rfl), putStepA]
  have p : BitBuf.put cfgBE.endian { ty := some (.pint 1 false), buffer := 0, remaining := 1 * 8 } 1 5 (2 + 1) =
      some { ty := some (.pint 1 false), buffer := 0xA0, remaining := 5 } := by decide +kernel
  rw [p]
  simp only [Nat.succ_ne_zero, if_false, Except.bind, List.length_nil, Nat.add_zero, Nat.lt_irrefl, zeros,
    List.replicate_zero, List.nil_append]
  -- the unit of `a` is still pending; `b` has another storage type: flush, then go on from the idle state
  rw [gsB, wsB, writeFields_flush cfgBE true _ _ _ _ _ _ _ _ 0 _ 0 (.pint 1 false) rfl (Or.inr (by decide))]
  have f : flushBits cfgBE { ty := some (.pint 1 false), buffer := 0xA0, remaining := 5 } = .ok [0xA0] := by decide +kernel
  have h := gxB
  rw [gsB, wsB] at h
  simp only [f, Except.bind, List.length_cons, List.length_nil, Nat.zero_add, h]
  rfl

theorem ex_write_al : write cfgBE tyG (.record wsA) 0 = .ok [0xA0, 0, 0x9A, 0xBC, 7, 0] := by
  have hl : structLayout cfgBE true gsA = .ok (some 6, 2, [some 0, some 2, none, some 4]) := by decide +kernel
  rw [tyG, write_struct, hl]
  simp only [Except.bind, gxA]
  decide +kernel

end Cstruct.Core.Ex
