/-
  Helper lemmas for `Proofs/C11Dump.lean`, part B: the union case of `write` walks the order of part A; which member
  `writeUnion` writes; the dump of a union whose written member covers it.
-/
import Proofs.Lemmas.C11DumpA
import Proofs.Lemmas.C11
import Proofs.Lemmas.C02BitsE
import Proofs.C02Bits
import Proofs.C09Shift

namespace Cstruct.C11.DumpLemmas
open Cstruct Cstruct.Union Cstruct.Core Cstruct.C02B
open Cstruct.C11.Lemmas (nTy nVal)

/-! ### the member order of the union case of `write` -/

/-- the order `write` computes: indices of `zip fields values` inserted one after the other by descending size -/
def codeOrder (cfg : Cfg) (fs : Fields) (vs : Vals) : List (Nat × Nat) :=
  (List.range (fs.toList.zip vs.toList).length).foldl
    (fun acc i => match (fs.toList.zip vs.toList)[i]? with
      | some ((_, _, t, _), _) => insertDesc ((t.size cfg).getD 0) i acc
      | none => acc) []

theorem write_union_eq (cfg : Cfg) (al : Bool) (fs : Fields) (buf : Bytes) (vs : Vals) (pos sz : Nat)
    (hsz : (Ty.union al fs).size cfg = some sz) :
    write cfg (.union al fs) (.union buf vs) pos = writeUnion cfg fs vs ((codeOrder cfg fs vs).map (·.2)) none sz pos := by
  rw [write]
  simp only [hsz]
  rfl

theorem foldIdx_zip (cfg : Cfg) : ∀ (fs : Fields) (vs : Vals) (c : Nat) (acc : List (Nat × Nat)), vs.length = fs.length →
    foldIdx (fun (x : (String × Bool × Ty × Option Nat) × Val) i acc => insertDesc ((x.1.2.2.1.size cfg).getD 0) i acc)
      (fs.toList.zip vs.toList) c acc = foldKeys (memberKeys cfg fs) c acc
  | .nil, _, _, _, _ => by simp [Fields.toList, foldIdx, memberKeys, foldKeys]
  | .cons n a t b r, .nil, _, _, h => by simp [Vals.length, Fields.length] at h
  | .cons n a t b r, .cons v vr, c, acc, h => by
    simp only [Vals.length, Fields.length, Nat.add_right_cancel_iff] at h
    simp only [Fields.toList, Vals.toList, List.zip_cons_cons, foldIdx, memberKeys, foldKeys]
    exact foldIdx_zip cfg r vr (c + 1) _ h

theorem codeOrder_eq (cfg : Cfg) (fs : Fields) (vs : Vals) (h : vs.length = fs.length) :
    codeOrder cfg fs vs = foldKeys (memberKeys cfg fs) 0 [] := by
  rw [← foldIdx_zip cfg fs vs 0 [] h, ← range_foldl_eq]
  unfold codeOrder
  congr 1
  funext acc i
  cases (fs.toList.zip vs.toList)[i]? with
  | none => rfl
  | some x =>
    obtain ⟨⟨n, a, t, b⟩, v⟩ := x
    rfl

theorem readMembers_length (cfg : Cfg) (buf : Bytes) : ∀ (fs : Fields) (ctx : Ctx) (vs : Vals),
    readMembers cfg fs ctx buf = .ok vs → vs.length = fs.length
  | .nil, ctx, vs, h => by
    rw [Lemmas.readMembers_nil] at h
    cases h
    rfl
  | .cons name an ty bits rest, ctx, vs, h => by
    rw [Lemmas.readMembers_cons] at h
    split at h
    · cases h
    · split at h
      · cases h
      · rename_i vs' hm
        cases h
        simp only [Vals.length, Fields.length]
        rw [readMembers_length cfg buf rest _ vs' hm]

/-! ### members by index -/

theorem anonK_true (cfg : Cfg) : ∀ (fs : Fields) (i : Nat), anonK (memberKeys cfg fs) i = true →
    ∃ n a t b, (fs.toList)[i]? = some (n, a, t, b) ∧ isStructLike t = true ∧ a = true
  | .nil, i, h => by simp [anonK, memberKeys] at h
  | .cons n a t b r, 0, h => by
    simp only [anonK, memberKeys, List.getElem?_cons_zero, Bool.and_eq_true] at h
    exact ⟨n, a, t, b, by simp [Fields.toList], h.1, h.2⟩
  | .cons n a t b r, i + 1, h => by
    simp only [anonK, memberKeys, List.getElem?_cons_succ] at h
    obtain ⟨n', a', t', b', h1, h2⟩ := anonK_true cfg r i (by simpa only [anonK] using h)
    exact ⟨n', a', t', b', by simpa [Fields.toList] using h1, h2⟩

theorem nTy_toList (cfg : Cfg) : ∀ (fs : Fields) (i : Nat) (t : Ty), nTy fs i = some t →
    ∃ n a b, (fs.toList)[i]? = some (n, a, t, b) ∧ anonK (memberKeys cfg fs) i = (isStructLike t && a) ∧
      (memberKeys cfg fs)[i]? = some ((t.size cfg).getD 0, isStructLike t && a)
  | .nil, i, t, h => by simp [nTy] at h
  | .cons n a t' b r, 0, t, h => by
    simp only [nTy, Option.some.injEq] at h
    subst h
    exact ⟨n, a, b, by simp [Fields.toList], by simp [anonK, memberKeys], by simp [memberKeys]⟩
  | .cons n a t' b r, i + 1, t, h => by
    simp only [nTy] at h
    obtain ⟨n', a', b', h1, h2, h3⟩ := nTy_toList cfg r i t h
    refine ⟨n', a', b', by simpa [Fields.toList] using h1, ?_, by simpa [memberKeys] using h3⟩
    simp only [anonK, memberKeys, List.getElem?_cons_succ]
    simpa only [anonK] using h2

/-! ### which member `writeUnion` writes -/

/-- the first member of the order that is not an anonymous structure is written, when it writes something -/
theorem writeUnion_regular (cfg : Cfg) (fs : Fields) (vs : Vals) (sz pos : Nat) (i : Nat) (t : Ty) (body : Bytes)
    (ht : nTy fs i = some t) (hw : writeMemberRaw cfg fs vs i pos = .ok body) (hne : body ≠ []) :
    ∀ (L : List Nat) (anon : Option Nat), L.find? (fun j => !anonK (memberKeys cfg fs) j) = some i →
      writeUnion cfg fs vs L anon sz pos = .ok (body ++ zeros (sz - body.length))
  | [], _, h => by simp at h
  | j :: rest, anon, h => by
    rw [Lemmas.writeUnion_cons]
    cases hj : anonK (memberKeys cfg fs) j with
    | true =>
      obtain ⟨n, a, t', b, h1, h2, h3⟩ := anonK_true cfg fs j hj
      rw [h1]
      simp only [h2, h3, and_self, if_true]
      refine writeUnion_regular cfg fs vs sz pos i t body ht hw hne rest (some j) ?_
      simpa only [List.find?_cons, hj, Bool.not_true] using h
    | false =>
      have hji : j = i := by
        simp only [List.find?_cons, hj, Bool.not_false] at h
        exact Option.some.inj h
      subst hji
      obtain ⟨n, a, b, h1, h2, _⟩ := nTy_toList cfg fs j t ht
      rw [h1]
      rw [hj] at h2
      have hna : ¬ (isStructLike t = true ∧ a = true) := by
        intro hh
        rw [hh.1, hh.2] at h2
        simp at h2
      simp only [if_neg hna, hw]
      have : body.isEmpty = false := by
        cases body with
        | nil => exact absurd rfl hne
        | cons _ _ => rfl
      simp only [this]
      rfl

/-- when every member of the order is an anonymous structure, the last one is written -/
theorem writeUnion_allAnon (cfg : Cfg) (fs : Fields) (vs : Vals) (sz pos : Nat) :
    ∀ (L : List Nat) (anon : Option Nat), L.find? (fun j => !anonK (memberKeys cfg fs) j) = none →
      writeUnion cfg fs vs L anon sz pos =
        (match L.getLast?.or anon with
         | some j => writeMember cfg fs vs j sz pos
         | none => .ok (zeros sz))
  | [], anon, _ => by
    rw [Lemmas.writeUnion_nil]
    simp only [List.getLast?_nil, Option.or]
    cases anon <;> rfl
  | j :: rest, anon, h => by
    rw [Lemmas.writeUnion_cons]
    have hj : anonK (memberKeys cfg fs) j = true := by
      cases hj : anonK (memberKeys cfg fs) j with
      | true => rfl
      | false => simp [hj] at h
    obtain ⟨n, a, t', b, h1, h2, h3⟩ := anonK_true cfg fs j hj
    rw [h1]
    simp only [h2, h3, and_self, if_true]
    rw [writeUnion_allAnon cfg fs vs sz pos rest (some j) (by simpa only [List.find?_cons, hj, Bool.not_true] using h)]
    cases rest with
    | nil => simp [Option.or]
    | cons c r' =>
      rw [List.getLast?_cons_cons]
      cases hl : (c :: r').getLast? with
      | none => simp at hl
      | some q => simp [Option.or]

/-- the member named by `writtenMember` is the one `write` writes -/
theorem write_union_written (cfg : Cfg) (al : Bool) (fs : Fields) (buf : Bytes) (vs : Vals) (pos sz : Nat)
    (hsz : (Ty.union al fs).size cfg = some sz) (hlen : vs.length = fs.length) (k : Nat) (t : Ty)
    (hk : writtenMember cfg fs = some k) (ht : nTy fs k = some t) (body : Bytes)
    (hw : writeMemberRaw cfg fs vs k pos = .ok body) (hb : (t.size cfg).getD 0 ≠ 0 → body ≠ []) :
    write cfg (.union al fs) (.union buf vs) pos = .ok (body ++ zeros (sz - body.length)) := by
  rw [write_union_eq cfg al fs buf vs pos sz hsz, codeOrder_eq cfg fs vs hlen]
  have hfind := find_foldKeys (memberKeys cfg fs) (memberKeys cfg fs) 0 [] rfl List.Pairwise.nil
  have hlast := getLast_foldKeys (memberKeys cfg fs) 0 [] List.Pairwise.nil
  simp only [List.find?_nil, List.getLast?_nil] at hfind hlast
  unfold writtenMember at hk
  cases hf : firstLargestRegular (memberKeys cfg fs) 0 none with
  | some q =>
    obtain ⟨s, i⟩ := q
    rw [hf] at hk hfind
    simp only at hk
    split at hk
    · cases hk
    · rename_i hs
      have hik : i = k := Option.some.inj hk
      subst hik
      -- the found pair is (size of member i, i)
      have hmem := List.mem_of_find?_eq_some hfind
      have hkey : ∀ (ks : List (Nat × Bool)) (c : Nat) (acc : List (Nat × Nat)) (x : Nat × Nat),
          x ∈ foldKeys ks c acc → x ∈ acc ∨ ∃ a, ks[x.2 - c]? = some (x.1, a) ∧ c ≤ x.2 := by
        intro ks
        induction ks with
        | nil => intro c acc x hx; exact Or.inl hx
        | cons y r ih =>
          intro c acc x hx
          obtain ⟨s', a'⟩ := y
          simp only [foldKeys] at hx
          rcases ih (c + 1) _ x hx with h | ⟨a, h1, h2⟩
          · rcases mem_insertDesc s' c acc x h with h | h
            · subst h
              exact Or.inr ⟨a', by simp, Nat.le_refl _⟩
            · exact Or.inl h
          · refine Or.inr ⟨a, ?_, by omega⟩
            have : x.2 - c = (x.2 - (c + 1)) + 1 := by omega
            rw [this, List.getElem?_cons_succ]
            exact h1
      rcases hkey _ 0 [] _ hmem with h | ⟨a, h1, _⟩
      · simp at h
      · simp only [Nat.sub_zero] at h1
        obtain ⟨_, _, _, _, _, h3⟩ := nTy_toList cfg fs i t ht
        rw [h3] at h1
        have hsize : (t.size cfg).getD 0 = s := by
          have := Option.some.inj h1
          exact congrArg Prod.fst this
        have hfind' : ((foldKeys (memberKeys cfg fs) 0 []).map (·.2)).find? (fun j => !anonK (memberKeys cfg fs) j) = some i := by
          rw [List.find?_map]
          have : ((fun j => !anonK (memberKeys cfg fs) j) ∘ fun (p : Nat × Nat) => p.2) =
              (fun p => !anonK (memberKeys cfg fs) p.2) := rfl
          rw [this, hfind]
          rfl
        exact writeUnion_regular cfg fs vs sz pos i t body ht hw (hb (by rw [hsize]; exact hs)) _ none hfind'
  | none =>
    rw [hf] at hk hfind
    simp only at hk
    have hfind' : ((foldKeys (memberKeys cfg fs) 0 []).map (·.2)).find? (fun j => !anonK (memberKeys cfg fs) j) = none := by
      rw [List.find?_map]
      have : ((fun j => !anonK (memberKeys cfg fs) j) ∘ fun (p : Nat × Nat) => p.2) =
          (fun p => !anonK (memberKeys cfg fs) p.2) := rfl
      rw [this, hfind]
      rfl
    rw [writeUnion_allAnon cfg fs vs sz pos _ none hfind', List.getLast?_map, hlast]
    cases hl : lastSmallest (memberKeys cfg fs) 0 none with
    | none => rw [hl] at hk; simp at hk
    | some q =>
      rw [hl] at hk
      simp only [Option.map_some, Option.some.injEq] at hk
      simp only [Option.map_some, Option.or, hk]
      rw [Lemmas.writeMember_eq, hw]

end Cstruct.C11.DumpLemmas
