import Proofs.Lemmas.C18
namespace Cstruct.C18.Lemmas
open Cstruct Cstruct.Commit

/-! ### `members` of a prefix -/

/-- the members of `fs` are a prefix of the members of `fs ++ gs` -/
theorem members_append_prefix (cfg : Cfg) : ∀ (fs gs : Fields) (ms : List (Nat × Nat)),
    C04.members cfg (Fields.append fs gs) = some ms →
    ∃ ms', C04.members cfg fs = some ms' ∧ ms' <+: ms
  | .nil, _, ms, _ => ⟨[], by simp only [C04.members], List.nil_prefix⟩
  | .cons n an ty bits rest, gs, ms, hm => by
    rw [Fields.append] at hm
    obtain ⟨k, ms1, rfl, hk, hm1, rfl⟩ := C04.Lemmas.members_cons hm
    obtain ⟨ms2, hm2, hpre⟩ := members_append_prefix cfg rest gs ms1 hm1
    refine ⟨(k, ty.alignment cfg) :: ms2, ?_, ?_⟩
    · simp only [C04.members, hk, hm2]
    · exact (List.prefix_cons_inj _).mpr hpre

/-- … hence they inherit the power-of-two alignments -/
theorem members_append_left (cfg : Cfg) (fs gs : Fields) (ms : List (Nat × Nat))
    (hm : C04.members cfg (Fields.append fs gs) = some ms) (hp : ∀ m ∈ ms, C04.isPow2 m.2) :
    ∃ ms', C04.members cfg fs = some ms' ∧ ∀ m ∈ ms', C04.isPow2 m.2 := by
  obtain ⟨ms', h1, h2⟩ := members_append_prefix cfg fs gs ms hm
  exact ⟨ms', h1, fun m hmem => hp m (h2.subset hmem)⟩

/-- the same for the structure built so far within a history of batches -/
theorem members_foldl_left (cfg : Cfg) : ∀ (batches : List Fields) (fs : Fields) (ms : List (Nat × Nat)),
    C04.members cfg (batches.foldl Fields.append fs) = some ms → (∀ m ∈ ms, C04.isPow2 m.2) →
    ∃ ms', C04.members cfg fs = some ms' ∧ ∀ m ∈ ms', C04.isPow2 m.2
  | [], _, ms, hm, hp => ⟨ms, hm, hp⟩
  | b :: more, fs, ms, hm, hp => by
    rw [List.foldl_cons] at hm
    obtain ⟨ms1, hm1, hp1⟩ := members_foldl_left cfg more (Fields.append fs b) ms hm hp
    exact members_append_left cfg fs b ms1 hm1 hp1

/-! ### Confluence, aligned mode -/

theorem confluence_aligned (cfg : Cfg) : ∀ (batches : List Fields) (fs : Fields) (offs : List (Option Nat))
    (sz : Option Nat) (a : Nat) (r : Fields × Option Nat × Nat × List (Option Nat)) (ms : List (Nat × Nat)),
    C04.members cfg (batches.foldl Fields.append fs) = some ms → (∀ m ∈ ms, C04.isPow2 m.2) →
    Fields.layout cfg true fs LState.init = .ok (sz, a, offs) →
    commitAll cfg true fs offs batches = .ok r →
    Fields.layout cfg true r.1 LState.init = .ok r.2 ∧ r.1 = batches.foldl Fields.append fs
  | [], fs, offs, sz, a, r, ms, hm, hp, hl, h => by
    rw [commitAll] at h
    have hc : commit cfg true fs offs = .ok (sz, a, offs) := idem_aligned cfg fs ms LState.init sz a offs hm hp hl
    rw [hc] at h
    simp only [Except.ok.injEq] at h
    subst h
    exact ⟨hl, rfl⟩
  | b :: more, fs, offs, sz, a, r, ms, hm, hp, hl, h => by
    rw [commitAll] at h
    rw [List.foldl_cons] at hm
    obtain ⟨ms1, hm1, hp1⟩ := members_foldl_left cfg more (Fields.append fs b) ms hm hp
    have hc : commit cfg true (Fields.append fs b) offs = Fields.layout cfg true (Fields.append fs b) LState.init :=
      ext_aligned cfg fs b ms1 LState.init sz a offs hm1 hp1 hl
    rw [hc] at h
    cases hl' : Fields.layout cfg true (Fields.append fs b) LState.init with
    | error e => rw [hl'] at h; cases h
    | ok q =>
      obtain ⟨sz', a', offs'⟩ := q
      rw [hl'] at h
      dsimp only at h
      have := confluence_aligned cfg more (Fields.append fs b) offs' sz' a' r ms hm hp hl' h
      simpa only [List.foldl_cons] using this

end Cstruct.C18.Lemmas
