/-
  Helper lemmas for `Proofs/C08Union.lean`, part 3: the window theorem with bit-fields (`Core.read_prefix_bits`) for
  `Ty.plainU`, i.e. with covered unions anywhere in the type. `ptwU_ty` / `ptwU_fields` are `ptw_ty` / `ptw_fields` of
  `Proofs/Lemmas/CoreWinBits3.lean` with `plain` replaced by `plainU` and the union case added (that file's induction is
  closed over `Ty.plain`, whose union case is absurd; every helper lemma is reused unchanged). A covered union that could
  be read got its `size` bytes, ends at `pos + size`, and reads the same from every cut at or after that position.
-/
import Proofs.Lemmas.C08UnionB
import Proofs.Lemmas.CoreWinBits3
namespace Cstruct.Core.Lemmas.WinBits
open Cstruct Cstruct.Core Cstruct.C08.Lemmas
set_option linter.unusedSimpArgs false
set_option linter.unusedVariables false

theorem tight_read_facts (cfg : Cfg) (al : Bool) (fs : Fields) (ht : Fields.tightUnion cfg al fs = true) (ctx : Ctx)
    (d : Bytes) (pos : Nat) (v : Val) (p : Nat) (h : read cfg (.union al fs) ctx d pos = .ok (v, p)) :
    ∃ sz, (Ty.union al fs).size cfg = some sz ∧ p = pos + sz ∧ (sread d pos sz).length = sz := by
  rw [read_union] at h
  cases hsz : (Ty.union al fs).size cfg with
  | none => rw [hsz] at h; cases h
  | some sz =>
    rw [hsz] at h
    simp only [] at h
    obtain ⟨vs, h1, h4⟩ := bind_ok h
    have hl := tight_full cfg al fs ht sz hsz [] _ vs h1
    have hl2 := sread_length d pos sz
    have hlen : (sread d pos sz).length = sz := by omega
    refine ⟨sz, rfl, ?_, hlen⟩
    cases h4
    rfl

theorem tight_take (cfg : Cfg) (al : Bool) (fs : Fields) (ht : Fields.tightUnion cfg al fs = true) (ctx : Ctx)
    (d : Bytes) (pos : Nat) (v : Val) (p : Nat) (h : read cfg (.union al fs) ctx d pos = .ok (v, p)) (q : Nat) (hq : p ≤ q) :
    read cfg (.union al fs) ctx (d.take q) pos = .ok (v, p) := by
  obtain ⟨sz, hsz, hp, _⟩ := tight_read_facts cfg al fs ht ctx d pos v p h
  rw [read_union, hsz] at h ⊢
  simp only [] at h ⊢
  rw [sread_take d pos sz q (by omega)]
  exact h

mutual
theorem ptwU_ty (cfg : Cfg) (al : Bool) (g : Scalar → Nat) (d : Bytes) : ∀ (ty : Ty), ty.plainU cfg = true →
    ty.uniformAlign al = true → ty.pow2Aligned cfg → (al = true → ty.bitsAlignBy cfg g = true) →
    ElemPFw cfg al ty d ∧ ElemT cfg al ty d
  | .sc s a, _, _, _, _ => ⟨elemPF_weak (pf_sc cfg al s a d), t_sc cfg al s a d⟩
  | .enum b a f, _, _, _, _ => ⟨elemPF_weak (pf_enum cfg al b a f d), t_enum cfg al b a f d⟩
  | .ptr t, _, _, _, _ => ⟨elemPF_weak (pf_ptr cfg al t d), t_ptr cfg al t d⟩
  | .union a fs, hPl, _, _, _ => by
    simp only [Ty.plainU] at hPl
    constructor
    · intro ctx pos v p h _
      obtain ⟨sz, hsz, hp, _⟩ := tight_read_facts cfg a fs hPl ctx d pos v p h
      refine ⟨by omega, fun _ => by simp only [sAlign]; exact Nat.one_dvd _, ?_⟩
      intro k hk
      rw [hsz] at hk; cases hk
      omega
    · intro ctx pos v p h _ q hq
      exact tight_take cfg a fs hPl ctx d pos v p h q hq
  | .arr e len, hPl, hU, hP, hBN => by
    have hPle : e.plainU cfg = true := by simp only [Ty.plainU, Bool.and_eq_true] at hPl; exact hPl.2
    simp only [Ty.bitsAlignBy] at hBN
    simp only [Ty.uniformAlign] at hU
    simp only [Ty.pow2Aligned] at hP
    obtain ⟨ihPF, ih⟩ := ptwU_ty cfg al g d e hPle hU hP hBN
    constructor
    · intro ctx pos v p h hpos
      simp only [sAlign] at hpos
      unfold PFw
      simp only [sAlign]
      cases len with
      | fixed n =>
        rw [read_arr_fixed] at h
        obtain ⟨a1, a2, a3⟩ := pfw_array cfg al e d ihPF n ctx pos v p h hpos
        refine ⟨a1, a2, ?_⟩
        intro k hk
        simp only [Ty.size] at hk
        cases he : e.size cfg with
        | none => rw [he] at hk; cases hk
        | some k' => rw [he] at hk; cases hk; exact a3 k' he
      | expr toks =>
        rw [read_arr_expr] at h
        obtain ⟨n, _, h2⟩ := bind_ok h
        obtain ⟨a1, a2, _⟩ := pfw_array cfg al e d ihPF n ctx pos v p h2 hpos
        exact ⟨a1, a2, by intro k hk; simp [Ty.size] at hk⟩
      | nullTerm =>
        rw [read_arr_null] at h
        obtain ⟨a1, a2⟩ := read0_pos cfg e (plainU_nullTerm cfg e hPl) ctx d pos v p h
        exact ⟨a1, fun _ => by rw [a2]; exact Nat.one_dvd _, by intro k hk; simp [Ty.size] at hk⟩
      | eof => simp [Ty.plainU] at hPl
    · intro ctx pos v p h hpos q hq
      simp only [sAlign] at hpos
      cases len with
      | fixed n =>
        rw [read_arr_fixed] at h ⊢
        exact tw_array cfg al e d ihPF ih n ctx pos v p h hpos q hq
      | expr toks =>
        rw [read_arr_expr] at h ⊢
        obtain ⟨n, h1, h2⟩ := bind_ok h
        rw [h1]; simp only [Except.bind]
        exact tw_array cfg al e d ihPF ih n ctx pos v p h2 hpos q hq
      | nullTerm =>
        rw [read_arr_null] at h ⊢
        exact t_read0 cfg e (plainU_nullTerm cfg e hPl) ctx d pos v p h q hq
      | eof => simp [Ty.plainU] at hPl
  | .struct al' fs, hPl, hU, hP, hBN => by
    simp only [Ty.plainU] at hPl
    simp only [Ty.bitsAlignBy] at hBN
    simp only [Ty.uniformAlign, Bool.and_eq_true, beq_iff_eq] at hU
    simp only [Ty.pow2Aligned] at hP
    obtain ⟨rfl, hU⟩ := hU
    have hM := maxAlign_p2 cfg fs hP 0 (Or.inl rfl)
    have key : ∀ ctx pos v p, read cfg (.struct al' fs) ctx d pos = .ok (v, p) →
        (al' = true → sAlign cfg (.struct al' fs) ∣ pos) →
        ∃ sz offs vs szs pf, structLayout cfg al' fs = .ok (sz, Fields.maxAlign cfg fs 0, offs) ∧
          v = .record vs ∧ p = alignTo al' pf (Fields.maxAlign cfg fs 0) ∧
          FieldsPTw cfg al' d fs offs pos BitBuf.empty [] pos sz (Fields.maxAlign cfg fs 0) vs szs pf := by
      intro ctx pos v p h hpos
      rw [read_struct] at h
      obtain ⟨⟨sz, sa, offs⟩, hl, h2⟩ := bind_ok h
      obtain ⟨⟨vs, szs, pf⟩, h3, h4⟩ := bind_ok h2
      have hsa : sa = Fields.maxAlign cfg fs 0 := (layout_final cfg al' fs LState.init sz sa offs hl).1
      subst hsa
      have hdv : al' = true → allAlignDvd cfg pos fs :=
        fun ha => allAlignDvd_of_sAlign cfg al' fs hP pos (hpos ha)
      have hH : ∀ x, alignTo al' (pos + x) (Fields.maxAlign cfg fs 0) = pos + alignTo al' x (Fields.maxAlign cfg fs 0) := by
        intro x
        cases al' with
        | false => rfl
        | true =>
          by_cases h0 : Fields.maxAlign cfg fs 0 = 0
          · simp only [alignTo, if_true, h0, padNat_zero]; omega
          · have := hpos rfl
            simp only [sAlign, Ty.alignment, if_neg h0] at this
            exact alignTo_add hM true pos x this
      refine ⟨sz, offs, vs, szs, pf, hl, ?_, ?_, ?_⟩
      · cases h4; rfl
      · cases h4; rfl
      · exact ptwU_fields cfg al' g d fs hPl hU hP hBN LState.init pos BitBuf.empty [] pos sz _ offs vs szs pf hl h3 hdv
          (binvw_mkSt al' g (some 0) 0 pos pos (by intro o ho; cases ho; exact Nat.le_refl _)) hM hH
    constructor
    · intro ctx pos v p h hpos
      obtain ⟨sz, offs, vs, szs, pf, hl, rfl, rfl, b1, b2, _⟩ := key ctx pos v p h hpos
      have hle := le_alignTo al' pf (Fields.maxAlign cfg fs 0)
      refine ⟨by omega, ?_, ?_⟩
      · intro ha; subst ha
        simp only [sAlign, Ty.alignment]
        split
        · exact Nat.one_dvd _
        · rename_i h0
          rcases hM with h1 | h1
          · exact absurd h1 h0
          · exact alignTo_dvd h1 pf
      · intro k hk
        have hsz : (Ty.struct al' fs).size cfg = sz := by
          simp only [Ty.size]
          unfold structLayout LState.init at hl
          rw [hl]
        rw [hsz] at hk
        exact b2 k hk
    · intro ctx pos v p h hpos q hq
      obtain ⟨sz, offs, vs, szs, pf, hl, rfl, rfl, b1, b2, b3⟩ := key ctx pos v p h hpos
      have hle := le_alignTo al' pf (Fields.maxAlign cfg fs 0)
      rw [read_struct, hl]
      simp only [Except.bind]
      rw [b3 q (by omega)]
      rfl
theorem ptwU_fields (cfg : Cfg) (al : Bool) (g : Scalar → Nat) (d : Bytes) : ∀ (fs : Fields), Fields.plainU cfg fs = true →
    Fields.uniformAlign al fs = true → fs.pow2Aligned cfg → (al = true → Fields.bitsAlignBy cfg g fs = true) →
    ∀ (st : LState) (start : Nat) (bb : BitBuf) (ctx : Ctx) (pos : Nat) (sz : Option Nat) (sa : Nat)
      (offs : List (Option Nat)) (vs : Vals) (szs : List (String × Nat)) (p : Nat),
    Fields.layout cfg al fs st = .ok (sz, sa, offs) →
    readFields cfg al fs offs start bb ctx d pos = .ok (vs, szs, p) →
    (al = true → allAlignDvd cfg start fs) → BInvW al g st bb start pos → (sa = 0 ∨ IsP2 sa) →
    (∀ x, alignTo al (start + x) sa = start + alignTo al x sa) →
    FieldsPTw cfg al d fs offs start bb ctx pos sz sa vs szs p
  | .nil, _, _, _, _, st, start, bb, ctx, pos, sz, sa, offs, vs, szs, p, hl, hr, _, hI, hsa, hH => by
    rw [layout_nil_any] at hl
    simp only [Except.ok.injEq, Prod.mk.injEq] at hl
    obtain ⟨rfl, rfl, rfl⟩ := hl
    rw [readFields_nil] at hr; cases hr
    refine ⟨Nat.le_refl _, ?_, ?_⟩
    · intro k hk
      cases ho : st.offset with
      | none => rw [ho] at hk; cases hk
      | some o =>
        rw [ho] at hk
        simp only [Option.map_some, Option.some.injEq] at hk
        have := alignTo_mono hsa al pos (start + o) (hI.off o ho)
        rw [hH, hk] at this
        exact this
    · intro q _; rw [readFields_nil]
  | .cons name an ty bits rest, hPl, hU, hP, hBN, st, start, bb, ctx, pos, sz, sa, offs, vs, szs, p, hl, hr, hdv, hI, hsa, hH => by
    simp only [Fields.plainU, Bool.and_eq_true] at hPl
    simp only [Fields.uniformAlign, Bool.and_eq_true] at hU
    simp only [Fields.pow2Aligned] at hP
    have hfa := alignment_p2 cfg ty hP.1
    cases hb : isBitW bits with
    | false =>
      have hBN' := fun ha => bitsAlignBy_nb hb (hBN ha)
      rw [layout_cons_nb_any cfg al name an ty bits rest st hb] at hl
      obtain ⟨⟨sz', sa', offs'⟩, hl1, hl2⟩ := bind_ok hl
      simp only [Except.ok.injEq, Prod.mk.injEq] at hl2
      obtain ⟨rfl, rfl, rfl⟩ := hl2
      rw [readFields_cons_nb _ _ _ _ _ _ _ _ _ _ _ _ _ _ hb] at hr
      obtain ⟨⟨v, p1⟩, h1, h2⟩ := bind_ok hr
      obtain ⟨⟨vs', szs', p'⟩, h3, h4⟩ := bind_ok h2
      obtain ⟨f1, f2, f3⟩ := fieldPos_facts_w cfg al ty st.offset start pos hI.off hfa (fun ha => (hdv ha).1)
      generalize hfp : fieldPos cfg al ty (offOf cfg al ty st.offset) start pos = fp at *
      have hsa' : al = true → sAlign cfg ty ∣ fp := fun ha => Nat.dvd_trans (sAlign_dvd_alignment cfg ty) (f2 ha)
      obtain ⟨ihPF, ihT⟩ := ptwU_ty cfg al g d ty hPl.1 hU.1 hP.1 (fun ha => (hBN' ha).1)
      obtain ⟨a1, _, a3⟩ := ihPF ctx fp v p1 h1 hsa'
      have hinv' : ∀ o, nextOf cfg al ty st.offset = some o → p1 ≤ start + o := by
        intro o' ho'
        cases hso : st.offset with
        | none => rw [hso] at ho'; simp [nextOf, offOf] at ho'
        | some o =>
          rw [hso] at ho'
          cases hs : ty.size cfg with
          | none => simp [nextOf, offOf, hs] at ho'
          | some k =>
            simp only [nextOf, offOf, hs, Option.map_some, Option.bind_some, Option.some.injEq] at ho'
            have := a3 k hs
            rw [f3 o hso] at this; omega
      obtain ⟨b1, b2, b3⟩ := ptwU_fields cfg al g d rest hPl.2 hU.2 hP.2 (fun ha => (hBN' ha).2) _ start BitBuf.empty
        (Ctx.set ctx name v) p1 sz' sa' offs' vs' szs' p' hl1 h3 (fun ha => (hdv ha).2)
        (binvw_mkSt al g _ _ start p1 hinv') hsa hH
      have hpp : p' = p := by cases h4; rfl
      subst hpp
      refine ⟨by omega, b2, ?_⟩
      intro q hq
      rw [readFields_cons_nb _ _ _ _ _ _ _ _ _ _ _ _ _ _ hb, hfp]
      rw [ihT ctx fp v p1 h1 hsa' q (by omega)]
      simp only [Except.bind]
      rw [b3 q hq]
      exact h4
    | true =>
      obtain ⟨b, rfl⟩ : ∃ b, bits = some (b + 1) := by
        rcases bits with _ | _ | b
        · cases hb
        · cases hb
        · exact ⟨b, rfl⟩
      rw [layout_cons_bit] at hl
      cases hbase : ty.bitBase with
      | none => rw [hbase] at hl; cases hl
      | some ft =>
        rw [hbase] at hl; simp only [] at hl
        cases hsz : ft.size with
        | none => rw [hsz] at hl; cases hl
        | some fsz =>
          rw [hsz] at hl; simp only [] at hl
          obtain ⟨nu, hth, hl2⟩ := bind_ok hl
          split at hl2
          · cases hl2
          obtain ⟨⟨sz', sa', offs'⟩, hl3, hl4⟩ := bind_ok hl2
          simp only [Except.ok.injEq, Prod.mk.injEq] at hl4
          obtain ⟨rfl, rfl, rfl⟩ := hl4
          have hg : al = true → ty.alignment cfg = g ft := fun ha => bitsAlignBy_head (hBN ha) hbase
          rw [readFields_cons_bits', hbase] at hr
          simp only [] at hr
          obtain ⟨⟨bb1, p1⟩, hld, hr2⟩ := bind_ok hr
          cases htk : bb1.take cfg.endian (b + 1) with
          | none => simp only [htk] at hr2; cases hr2
          | some vb =>
            obtain ⟨v, bb2⟩ := vb
            simp only [htk] at hr2
            obtain ⟨⟨vs', szs', p'⟩, hr3, hr4⟩ := bind_ok hr2
            obtain ⟨s1, s2⟩ := bit_step_w cfg al g ty ft fsz b st bb start pos d nu bb1 p1 v bb2 hI hsz hfa hg
              (fun ha => (hdv ha).1) hth hld htk
            obtain ⟨b1, b2, b3⟩ := ptwU_fields cfg al g d rest hPl.2 hU.2 hP.2 (fun ha => bitsAlignBy_bit (hBN ha)) _ start
              bb2 (Ctx.set ctx name (bitVal ty v)) p1 sz' sa' offs' vs' szs' p' hl3 hr3 (fun ha => (hdv ha).2) s2 hsa hH
            have hpp : p' = p := by cases hr4; rfl
            subst hpp
            refine ⟨by omega, b2, ?_⟩
            intro q hq
            rw [readFields_cons_bits', hbase]
            simp only []
            rw [loadUnit_take cfg ft bb d _ (bb1, p1) q hld (by simp only []; omega)]
            simp only [Except.bind, htk]
            rw [b3 q hq]
            exact hr4
end

/-- **Window theorem with bit-fields and covered unions** (`read_prefix_bits_by` for `Ty.plainU`). -/
theorem read_prefix_bits_u (cfg : Cfg) (al : Bool) (g : Scalar → Nat) (ty : Ty) (hplain : ty.plainU cfg = true)
    (hbn : al = true → ty.bitsAlignBy cfg g = true) (hu : ty.uniformAlign al = true) (hp : ty.pow2Aligned cfg) (ctx : Ctx)
    (d1 : Bytes) (pos : Nat) (hal : ty.alignsDivide cfg pos = true) (v : Val) (p : Nat)
    (hr : read cfg ty ctx d1 pos = .ok (v, p)) (d2 : Bytes) (hpre : d1.take p <+: d2) :
    read cfg ty ctx d2 pos = .ok (v, p) := by
  have h1 := (ptwU_ty cfg al g d1 ty hplain hu hp hbn).2 ctx pos v p hr
    (fun _ => sAlign_dvd_of_alignsDivide cfg pos ty hal) p (Nat.le_refl _)
  obtain ⟨t, rfl⟩ := hpre
  exact extU_read cfg (d1.take p) t ty hplain ctx pos _ h1

/-- where a successful read ends -/
theorem read_end_le_u (cfg : Cfg) (al : Bool) (g : Scalar → Nat) (ty : Ty) (hplain : ty.plainU cfg = true)
    (hbn : al = true → ty.bitsAlignBy cfg g = true) (hu : ty.uniformAlign al = true) (hp : ty.pow2Aligned cfg) (ctx : Ctx)
    (d : Bytes) (pos : Nat) (hal : ty.alignsDivide cfg pos = true) (v : Val) (p : Nat)
    (hr : read cfg ty ctx d pos = .ok (v, p)) : pos ≤ p ∧ ∀ k, ty.size cfg = some k → p ≤ pos + k := by
  obtain ⟨h1, _, h3⟩ := (ptwU_ty cfg al g d ty hplain hu hp hbn).1 ctx pos v p hr
    (fun _ => sAlign_dvd_of_alignsDivide cfg pos ty hal)
  exact ⟨h1, h3⟩

end Cstruct.Core.Lemmas.WinBits
