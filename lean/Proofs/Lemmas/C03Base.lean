/-
  Helper lemmas for `Proofs/C03.lean`, part 1: slices of a block buffer, the "window" of the input a block covers,
  result plumbing (`wrapR`, `Sim`), small facts about `padNat` and the bit buffer.
-/
import Proofs.Spec.C03
import Proofs.Lemmas.CoreLayout
namespace Cstruct.Compiler
open Cstruct Cstruct.Core.Lemmas

/-- the members of a field list (walked along the layout offsets) that have no bit width, a layout offset and a static
    size and contain no structure consume exactly that size (a fact, `subSizesAux_all`; threaded through the simulation
    as a hypothesis on the fields under the cursor) -/
def SubSizesAux (cfg : Cfg) (data : Bytes) (start : Nat) : Fields → List (Option Nat) → Prop
  | .nil, _ => True
  | .cons _ _ ty bits rest, offs =>
    (bits = none → readsStruct ty = false → ∀ o n, hdOff offs = some o → ty.size cfg = some n →
      ∀ ctx v p, read cfg ty ctx data (start + o) = .ok (v, p) → p = start + o + n) ∧
    SubSizesAux cfg data start rest (offs.drop 1)

/-! ### Slices -/

theorem slice_self (buf : Bytes) (a : Nat) : slice buf a a = [] := by
  simp [slice]

theorem slice_take (buf : Bytes) (a n m : Nat) (h : n ≤ m) : (slice buf a (a + m)).take n = slice buf a (a + n) := by
  simp only [slice, Nat.add_sub_cancel_left, List.take_take]
  rw [Nat.min_eq_left h]

theorem slice_drop (buf : Bytes) (a n m : Nat) : (slice buf a (a + (n + m))).drop n = slice buf (a + n) (a + n + m) := by
  simp only [slice, Nat.add_sub_cancel_left, List.drop_take, List.drop_drop]

theorem slice_slice (buf : Bytes) (a n i m : Nat) (h : i + m ≤ n) :
    slice (slice buf a (a + n)) i (i + m) = slice buf (a + i) (a + i + m) := by
  simp only [slice, Nat.add_sub_cancel_left, List.drop_take, List.drop_drop, List.take_take]
  congr 1
  omega

theorem sread_eq_slice (data : Bytes) (pos n : Nat) : sread data pos n = slice data pos (pos + n) := by
  simp [sread, slice]

/-! ### The window of a block -/

/-- the `n` bytes of the input at `q` can be read exactly, and they are the bytes of `buf` at `a` -/
def Win (data buf : Bytes) (q a n : Nat) : Prop :=
  ∀ i m, i + m ≤ n → readExact data (q + i) m = .ok (slice buf (a + i) (a + i + m), q + i + m)

theorem readExact_zero (data : Bytes) (q : Nat) : readExact data q 0 = .ok ([], q) := by
  simp [readExact, sread]

theorem win_zero (data buf : Bytes) (q a : Nat) : Win data buf q a 0 := by
  intro i m h
  have hi : i = 0 := by omega
  have hm : m = 0 := by omega
  subst hi; subst hm
  simp [readExact_zero, slice_self]

theorem win_of_block {data buf : Bytes} {bpos size p : Nat} (h : readExact data bpos size = .ok (buf, p))
    (a n : Nat) (hn : a + n ≤ size) : Win data buf (bpos + a) a n := by
  obtain ⟨hl, hr⟩ := readExact_ok h
  cases hr
  intro i m him
  have hlen : size ≤ data.length - bpos := by
    unfold sread at hl
    rw [List.length_take, List.length_drop] at hl
    omega
  have e : sread data (bpos + a + i) m = slice (sread data bpos size) (a + i) (a + i + m) := by
    simp only [sread, slice, Nat.add_sub_cancel_left, List.drop_take, List.drop_drop, List.take_take]
    rw [Nat.min_eq_left (by omega)]
    congr 2
    omega
  rw [← e]
  apply readExact_of_len
  unfold sread
  rw [List.length_take, List.length_drop]
  omega

theorem win_shift {data buf : Bytes} {q a n : Nat} (h : Win data buf q a n) (i m : Nat) (him : i + m ≤ n) :
    Win data buf (q + i) (a + i) m := by
  intro j k hjk
  have := h (i + j) k (by omega)
  simpa [Nat.add_assoc] using this

theorem win_read {data buf : Bytes} {q a n : Nat} (h : Win data buf q a n) :
    readExact data q n = .ok (slice buf a (a + n), q + n) := by
  simpa using h 0 n (by omega)

/-! ### Result plumbing -/

abbrev Res := Except Err (Vals × List (String × Nat) × Nat)

/-- put the skipped void values in front, prepend size entries -/
def wrapR (k : Vals → Vals) (zs : List (String × Nat)) (r : Res) : Res :=
  match r with
  | .error e => .error e
  | .ok (vs, szs, p) => .ok (k vs, zs ++ szs, p)

/-- the final `stream.seek(-stream.tell() & (cls.alignment - 1), SEEK_CUR)` of the interpreted reader -/
def finR (al : Bool) (salign : Nat) (r : Res) : Res :=
  match r with
  | .error e => .error e
  | .ok (vs, szs, p) => .ok (vs, szs, if al then p + padNat p salign else p)

theorem finR_wrapR (al salign k zs r) : finR al salign (wrapR k zs r) = wrapR k zs (finR al salign r) := by
  cases r with
  | error e => rfl
  | ok x => rfl

theorem wrapR_wrapR (k1 k2 z1 z2 r) : wrapR k1 z1 (wrapR k2 z2 r) = wrapR (k1 ∘ k2) (z1 ++ z2) r := by
  cases r with
  | error e => rfl
  | ok x => simp [wrapR]

theorem wrapR_id (r : Res) : wrapR id [] r = r := by
  cases r with
  | error e => rfl
  | ok x => rfl

def nz (l : List (String × Nat)) : List (String × Nat) := l.filter (fun e => e.2 ≠ 0)

theorem nz_append (a b) : nz (a ++ b) = nz a ++ nz b := by simp [nz]

theorem nz_zeros (l : List (String × Nat)) (h : ∀ e ∈ l, e.2 = 0) : nz l = [] := by
  simp only [nz, List.filter_eq_nil_iff]
  intro e he
  simp [h e he]

/-- the compiled result `c` against the interpreted result `i`: equal value, end and byte-occupying sizes, or both
    raise, or the compiled reader raises EOFError (a block is read eagerly) -/
def Sim (c i : Res) : Prop :=
  c = .error .eof ∨
  match c, i with
  | .ok (v, s, p), .ok (v', s', p') => v = v' ∧ p = p' ∧ nz s = nz s'
  | .error _, .error _ => True
  | _, _ => False

theorem sim_eof (i : Res) : Sim (.error .eof) i := Or.inl rfl

theorem sim_err (e e' : Err) : Sim (.error e) (.error e') := Or.inr trivial

theorem sim_wrap {c i : Res} (k : Vals → Vals) (zc zi : List (String × Nat)) (hz : nz zc = nz zi) (h : Sim c i) :
    Sim (wrapR k zc c) (wrapR k zi i) := by
  rcases h with h | h
  · subst h; exact Or.inl rfl
  · cases c with
    | error e =>
      cases i with
      | error e' => exact Or.inr trivial
      | ok y => exact h.elim
    | ok x =>
      cases i with
      | error e' => exact h.elim
      | ok y =>
        obtain ⟨v, s, p⟩ := x
        obtain ⟨v', s', p'⟩ := y
        obtain ⟨h1, h2, h3⟩ := h
        right
        simp only [wrapR]
        refine ⟨by rw [h1], h2, ?_⟩
        rw [nz_append, nz_append, hz, h3]

/-! ### `padNat` -/

theorem isPow2b_spec {a : Nat} (h : isPow2b a = true) : IsP2 a := by
  simp only [isPow2b, beq_iff_eq] at h
  exact ⟨_, h⟩

theorem padNat_one (p : Nat) : padNat p 1 = 0 := by
  rw [padNat_p2_eq isP2_one]; simp [Nat.mod_one]

theorem padNat_of_dvd {a : Nat} (ha : IsP2 a) {p : Nat} (h : a ∣ p) : padNat p a = 0 := by
  rw [padNat_p2_eq ha]
  obtain ⟨c, rfl⟩ := h
  simp

/-! ### the bit buffer -/

theorem take_facts {e : Endian} {bb : BitBuf} {n : Nat} {v : Int} {bb2 : BitBuf} (h : bb.take e n = some (v, bb2)) :
    bb2.ty = bb.ty ∧ bb2.remaining = bb.remaining - n := by
  unfold BitBuf.take at h
  split at h
  · cases h
  · cases e <;> simp only [Option.some.injEq, Prod.mk.injEq] at h <;> obtain ⟨_, rfl⟩ := h <;> exact ⟨rfl, rfl⟩

end Cstruct.Compiler
