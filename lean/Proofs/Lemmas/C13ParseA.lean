/-
  C13, definition parser — helper lemmas (1): character classes, `takeWhile` / `dropWhile` over an append, the steps of
  the scanner (`scanAux`).
-/
import Proofs.Spec.C13Parse

namespace Cstruct.DefParser.C13
open Cstruct.DefParser

-- ------------------------------------------------------------------------------------------------ lists
theorem tw_app (p : Char → Bool) : ∀ (a b : List Char), a.all p = true → noHead p b = true →
    (a ++ b).takeWhile p = a ∧ (a ++ b).dropWhile p = b
  | [], b, _, hb => by
    cases b with
    | nil => simp
    | cons d b => simp [noHead] at hb; simp [hb]
  | c :: a, b, ha, hb => by
    simp only [List.all_cons, Bool.and_eq_true] at ha
    have ih := tw_app p a b ha.2 hb
    simp [ha.1, ih.1, ih.2]

theorem takeWhile_app (p : Char → Bool) (a b : List Char) (ha : a.all p = true) (hb : noHead p b = true) :
    (a ++ b).takeWhile p = a := (tw_app p a b ha hb).1

theorem dropWhile_app (p : Char → Bool) (a b : List Char) (ha : a.all p = true) (hb : noHead p b = true) :
    (a ++ b).dropWhile p = b := (tw_app p a b ha hb).2

/-- a run that continues into the second list -/
theorem takeWhile_app_all (p : Char → Bool) : ∀ (a b : List Char), a.all p = true →
    (a ++ b).takeWhile p = a ++ b.takeWhile p ∧ (a ++ b).dropWhile p = b.dropWhile p
  | [], _, _ => by simp
  | c :: a, b, ha => by
    simp only [List.all_cons, Bool.and_eq_true] at ha
    have ih := takeWhile_app_all p a b ha.2
    simp [ha.1, ih.1, ih.2]

theorem noHead_cons (p : Char → Bool) (c : Char) (r : List Char) : noHead p (c :: r) = !p c := rfl

theorem noHead_append (p : Char → Bool) (a b : List Char) (h : a ≠ []) : noHead p (a ++ b) = noHead p a := by
  cases a with
  | nil => exact absurd rfl h
  | cons c a => rfl

theorem all_append' (p : Char → Bool) (a b : List Char) : (a ++ b).all p = (a.all p && b.all p) := by simp

theorem lit_append (p rest : List Char) : lit p (p ++ rest) = some rest := by
  induction p with
  | nil => rfl
  | cons c p ih => simp [lit, ih]

-- ------------------------------------------------------------------------------------------------ character classes
theorem word_toNat (c : Char) (h : isWord c = true) :
    (48 ≤ c.toNat ∧ c.toNat ≤ 57) ∨ (65 ≤ c.toNat ∧ c.toNat ≤ 90) ∨ (97 ≤ c.toNat ∧ c.toNat ≤ 122) ∨ c.toNat = 95 := by
  simp only [isWord, Char.isAlphanum, Char.isAlpha, Char.isUpper, Char.isLower, Char.isDigit, Bool.or_eq_true,
    Bool.and_eq_true, decide_eq_true_eq, beq_iff_eq] at h
  simp only [Char.toNat, UInt32.le_iff_toNat_le] at *
  rcases h with ((h | h) | h) | h
  · right; left; exact ⟨by simpa using h.1, by simpa using h.2⟩
  · right; right; left; exact ⟨by simpa using h.1, by simpa using h.2⟩
  · left; exact ⟨by simpa using h.1, by simpa using h.2⟩
  · right; right; right; subst h; rfl

theorem isWs_of_word (c : Char) (h : isWord c = true) : isWs c = false := by
  have := word_toNat c h
  simp only [isWs, Bool.or_eq_false_iff, Bool.and_eq_false_iff, decide_eq_false_iff_not, beq_eq_false_iff_ne]
  omega

theorem wsA_cases (c : Char) (h : isWsA c = true) : c = ' ' ∨ c = '\t' ∨ c = '\n' ∨ c = '\r' ∨ c = '\x0c' ∨ c = '\x0b' := by
  simpa [isWsA, or_assoc] using h

theorem isWs_of_wsA (c : Char) (h : isWsA c = true) : isWs c = true := by
  rcases wsA_cases c h with rfl | rfl | rfl | rfl | rfl | rfl <;> decide

theorem isWsA_of_word (c : Char) (h : isWord c = true) : isWsA c = false := by
  cases hc : isWsA c with
  | false => rfl
  | true => have := isWs_of_word c h; rw [isWs_of_wsA c hc] at this; exact absurd this (by simp)

theorem digit_word (c : Char) (h : c.isDigit = true) : isWord c = true := by
  simp [isWord, Char.isAlphanum, h]

theorem idStart_word (c : Char) (h : isIdStart c = true) : isWord c = true := by
  simp only [isIdStart, Bool.or_eq_true, beq_iff_eq] at h
  rcases h with h | h
  · simp [isWord, Char.isAlphanum, h]
  · simp [isWord, h]

/-- what the recognisers need to know about the white-space class they are run with -/
structure SpOK (sp : Char → Bool) : Prop where
  blankA : ∀ c, isWsA c = true → sp c = true
  word : ∀ c, isWord c = true → sp c = false
  semi : sp ';' = false
  colon : sp ':' = false
  lbr : sp '[' = false
  rbr : sp ']' = false
  star : sp '*' = false
  lbrace : sp '{' = false
  rbrace : sp '}' = false
  comma : sp ',' = false
  hash : sp '#' = false
  sub : ∀ c, sp c = true → isWs c = true

theorem spOK_A : SpOK isWsA :=
  ⟨fun _ h => h, isWsA_of_word, by decide, by decide, by decide, by decide, by decide, by decide, by decide, by decide, by decide,
   isWs_of_wsA⟩

theorem spOK_U : SpOK isWs :=
  ⟨isWs_of_wsA, isWs_of_word, by decide, by decide, by decide, by decide, by decide, by decide, by decide, by decide, by decide,
   fun _ h => h⟩

theorem blank_sp {sp : Char → Bool} (h : SpOK sp) (w : List Char) (hw : blank w = true) : w.all sp = true := by
  simp only [blank, List.all_eq_true] at *
  exact fun c hc => h.blankA c (hw c hc)

theorem word_nsp {sp : Char → Bool} (h : SpOK sp) (w : List Char) (hw : w.all isWord = true) : w.all (fun c => !sp c) = true := by
  simp only [List.all_eq_true] at *
  exact fun c hc => by simp [h.word c (hw c hc)]

-- ------------------------------------------------------------------------------------------------ scanAux
/-- the look-behind flag after passing the characters `x` -/
def lastClose (ac : Bool) (x : List Char) : Bool :=
  match x.getLast? with
  | some c => c == '}'
  | none => ac

theorem lastClose_cons (ac : Bool) (c : Char) (x : List Char) : lastClose ac (c :: x) = lastClose (c == '}') x := by
  cases x with
  | nil => simp [lastClose]
  | cons d x =>
    have : (d :: x).getLast? = some ((d :: x).getLast (by simp)) := List.getLast?_eq_some_getLast (by simp)
    simp [lastClose, List.getLast?_cons_cons, this]

theorem scanAux_skip : ∀ (x : List Char) (ac : Bool) (rest : List Char),
    scanAux x.length ac (x ++ rest) = scanAux 0 (lastClose ac x) rest
  | [], ac, rest => by simp [lastClose]
  | c :: x, ac, rest => by
    rw [lastClose_cons]
    simpa [scanAux] using scanAux_skip x (c == '}') rest

/-- one token: when the alternation matches `t` at the head of the text, the scan emits it and goes on behind it -/
theorem scan_tok (ac : Bool) (t : Tok) (l rest r' : List Char) (hm : matchTok ac l = some (t, r'))
    (hl : l = t.value ++ rest) (hne : t.value ≠ []) :
    scanAux 0 ac l = t :: scanAux 0 (lastClose ac t.value) rest := by
  cases hv : t.value with
  | nil => exact absurd hv hne
  | cons c v =>
    rw [hv] at hl
    subst hl
    have hm' : matchTok ac (c :: (v ++ rest)) = some (t, r') := by simpa using hm
    rw [lastClose_cons]
    simp only [List.cons_append, scanAux, hm', hv, List.length_cons, Nat.add_sub_cancel]
    rw [scanAux_skip]

theorem lastClose_blank (ac : Bool) (w : List Char) (hw : blank w = true) (hne : w ≠ []) : lastClose ac w = false := by
  have : ∃ c, w.getLast? = some c ∧ c ∈ w := by
    cases h : w.getLast? with
    | none => exact absurd (List.getLast?_eq_none_iff.mp h) hne
    | some c => exact ⟨c, rfl, List.mem_of_getLast? h⟩
  obtain ⟨c, h1, h2⟩ := this
  have hc : isWsA c = true := by
    simp only [blank, List.all_eq_true] at hw
    exact hw c h2
  simp only [lastClose, h1]
  rcases wsA_cases c hc with rfl | rfl | rfl | rfl | rfl | rfl <;> decide

/-- a run of blanks where no token starts is passed without a token -/
theorem scan_blank (ac : Bool) (w y : List Char) (hw : blank w = true) (hne : w ≠ []) (hy : noHead isWsA y = true)
    (hm : matchTok ac (w ++ y) = none) : scanAux 0 ac (w ++ y) = scanAux 0 false y := by
  cases w with
  | nil => exact absurd rfl hne
  | cons c w =>
    simp only [blank, List.all_cons, Bool.and_eq_true] at hw
    have hm' : matchTok ac (c :: (w ++ y)) = none := by simpa using hm
    simp only [List.cons_append, scanAux, hm', hw.1, if_true]
    rw [takeWhile_app isWsA w y hw.2 hy, scanAux_skip]
    cases w with
    | nil => simp [lastClose]
    | cons d w => rw [lastClose_blank false (d :: w) (by simpa [blank] using hw.2) (by simp)]

end Cstruct.DefParser.C13
